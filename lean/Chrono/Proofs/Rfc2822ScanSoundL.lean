/-
  Helper lemmas for C11, part 8: the reader stages inverted and scanner soundness (`scan_sound`).
-/
import Chrono.Proofs.Rfc2822InvL
namespace Chrono.Proofs.Rfc2822
open Chrono Chrono.M Chrono.Spec Chrono.Spec.Rfc2822 Chrono.M.Scan Chrono.M.Parse

/-! ### setters on a record whose field is still empty -/

theorem setRange_inv (v lo hi x : Int) (h : Parsed.inRange v lo hi = .ok x) : lo ≤ v ∧ v ≤ hi ∧ x = v := by
  unfold Parsed.inRange at h
  split at h
  · rename_i hc; injection h with h; exact ⟨hc.1, hc.2, h.symm⟩
  · cases h

theorem set_day_inv (p q : Parsed) (v : Int) (hp : p.day = none) (h : Parsed.set_day p v = .ok q) :
    1 ≤ v ∧ v ≤ 31 ∧ q = { p with day := some v } := by
  unfold Parsed.set_day at h
  cases hr : Parsed.inRange v 1 31 with
  | error e => rw [hr] at h; cases h
  | ok x =>
    obtain ⟨a, b, rfl⟩ := setRange_inv _ _ _ _ hr
    rw [hr] at h
    simp only [bind, Except.bind, hp, Parsed.setIf, pure, Except.pure] at h
    injection h with h
    exact ⟨a, b, h.symm⟩

theorem set_month_inv (p q : Parsed) (v : Int) (hp : p.month = none) (h : Parsed.set_month p v = .ok q) :
    1 ≤ v ∧ v ≤ 12 ∧ q = { p with month := some v } := by
  unfold Parsed.set_month at h
  cases hr : Parsed.inRange v 1 12 with
  | error e => rw [hr] at h; cases h
  | ok x =>
    obtain ⟨a, b, rfl⟩ := setRange_inv _ _ _ _ hr
    rw [hr] at h
    simp only [bind, Except.bind, hp, Parsed.setIf, pure, Except.pure] at h
    injection h with h
    exact ⟨a, b, h.symm⟩

theorem set_minute_inv (p q : Parsed) (v : Int) (hp : p.minute = none) (h : Parsed.set_minute p v = .ok q) :
    0 ≤ v ∧ v ≤ 59 ∧ q = { p with minute := some v } := by
  unfold Parsed.set_minute at h
  cases hr : Parsed.inRange v 0 59 with
  | error e => rw [hr] at h; cases h
  | ok x =>
    obtain ⟨a, b, rfl⟩ := setRange_inv _ _ _ _ hr
    rw [hr] at h
    simp only [bind, Except.bind, hp, Parsed.setIf, pure, Except.pure] at h
    injection h with h
    exact ⟨a, b, h.symm⟩

theorem set_second_inv (p q : Parsed) (v : Int) (hp : p.second = none) (h : Parsed.set_second p v = .ok q) :
    0 ≤ v ∧ v ≤ 60 ∧ q = { p with second := some v } := by
  unfold Parsed.set_second at h
  cases hr : Parsed.inRange v 0 60 with
  | error e => rw [hr] at h; cases h
  | ok x =>
    obtain ⟨a, b, rfl⟩ := setRange_inv _ _ _ _ hr
    rw [hr] at h
    simp only [bind, Except.bind, hp, Parsed.setIf, pure, Except.pure] at h
    injection h with h
    exact ⟨a, b, h.symm⟩

theorem set_year_inv (p q : Parsed) (v : Int) (hp : p.year = none) (h : Parsed.set_year p v = .ok q) :
    (-2147483648 ≤ v ∧ v ≤ 2147483647) ∧ q = { p with year := some v } := by
  unfold Parsed.set_year at h
  cases hr : Parsed.toI32 v with
  | error e => rw [hr] at h; cases h
  | ok x =>
    obtain ⟨a, rfl⟩ := (Chrono.Proofs.ParsedRes.toI32_ok _ _).mp hr
    rw [hr] at h
    simp only [bind, Except.bind, hp, Parsed.setIf, pure, Except.pure] at h
    injection h with h
    exact ⟨a, h.symm⟩

theorem set_offset_inv (p q : Parsed) (v : Int) (hp : p.offset = none) (h : Parsed.set_offset p v = .ok q) :
    (-2147483648 ≤ v ∧ v ≤ 2147483647) ∧ q = { p with offset := some v } := by
  unfold Parsed.set_offset at h
  cases hr : Parsed.toI32 v with
  | error e => rw [hr] at h; cases h
  | ok x =>
    obtain ⟨a, rfl⟩ := (Chrono.Proofs.ParsedRes.toI32_ok _ _).mp hr
    rw [hr] at h
    simp only [bind, Except.bind, hp, Parsed.setIf, pure, Except.pure] at h
    injection h with h
    exact ⟨a, h.symm⟩

theorem set_hour_inv (p q : Parsed) (H : Nat) (h1 : p.hour_div_12 = none) (h2 : p.hour_mod_12 = none)
    (h : Parsed.set_hour p (H : Int) = .ok q) :
    H ≤ 23 ∧ q = { p with hour_div_12 := some ((H : Int) / 12), hour_mod_12 := some ((H : Int) % 12) } := by
  by_cases hH : H ≤ 23
  · rw [set_hour_fresh p H hH h1 h2] at h
    injection h with h
    exact ⟨hH, h.symm⟩
  · unfold Parsed.set_hour at h
    have : Parsed.inRange (H : Int) 0 23 = .error .outOfRange := by
      unfold Parsed.inRange; rw [if_neg (by omega)]
    rw [this] at h
    cases h


/-! ### the stages, inverted -/

theorem zonePart_inv (p q : Parsed) (s : List Nat) (hp : p.offset = none) (h : zonePart p s = .ok (q, [])) :
    ∃ w7 zz cc off, Ws1 w7 ∧ Zone zz off ∧ Comments cc ∧ s = w7 ++ (zz ++ cc) ∧
      (-2147483648 ≤ off ∧ off ≤ 2147483647) ∧ q = { p with offset := some off } := by
  unfold zonePart at h
  cases hsp : Scan.space s with
  | error e => rw [hsp] at h; cases h
  | ok s1 =>
    rw [hsp] at h
    simp only [bind, Except.bind] at h
    cases htz : Scan.timezone_offset_2822 s1 with
    | error e => rw [htz] at h; cases h
    | ok r =>
      obtain ⟨s2, off⟩ := r
      rw [htz] at h
      simp only [] at h
      cases hso : Parsed.set_offset p off with
      | error e => rw [hso] at h; cases h
      | ok p1 =>
        rw [hso] at h
        simp only [pure, Except.pure] at h
        injection h with h; injection h with hq hc
        obtain ⟨w7, hw7, hs1, _⟩ := space_inv s s1 hsp
        obtain ⟨zz, hz, hs2⟩ := tz_inv s1 s2 off htz
        obtain ⟨hr, hp1⟩ := set_offset_inv p p1 off hp hso
        refine ⟨w7, zz, s2, off, hw7, hz, commentsAux_inv _ _ (Nat.le_refl _) hc, by rw [hs1, hs2], hr, ?_⟩
        rw [← hq, hp1]

theorem secPart_inv (p q : Parsed) (s : List Nat) (hp1 : p.second = none) (hp2 : p.offset = none)
    (h : secPart p s = .ok (q, [])) :
    ∃ ss sec w7 zz cc off, Seconds ss sec ∧ Ws1 w7 ∧ Zone zz off ∧ Comments cc ∧ s = ss ++ (w7 ++ (zz ++ cc)) ∧
      (∀ x, sec = some x → x ≤ 60) ∧ (-2147483648 ≤ off ∧ off ≤ 2147483647) ∧
      q = { p with second := sec.map Int.ofNat, offset := some off } := by
  unfold secPart at h
  cases hch : Scan.char (Scan.trimStart s) 58 with
  | error e =>
    rw [hch] at h
    simp only [bind, Except.bind] at h
    obtain ⟨w7, zz, cc, off, a1, a2, a3, a4, a5, a6⟩ := zonePart_inv p q s hp2 h
    refine ⟨[], none, w7, zz, cc, off, Or.inl ⟨rfl, rfl⟩, a1, a2, a3, a4, (fun _ hx => nomatch hx), a5, ?_⟩
    rw [a6]
    cases p
    simp only [Option.map_none] at hp1 ⊢
    subst hp1
    rfl
  | ok s_ =>
    rw [hch] at h
    simp only [bind, Except.bind, setField] at h
    obtain ⟨w, hw, hs, _⟩ := trimStart_inv s
    have hts := char_inv _ _ _ hch
    cases hnum : Scan.number s_ 2 (some 2) with
    | error e => rw [hnum] at h; cases h
    | ok r =>
      obtain ⟨s2, v⟩ := r
      rw [hnum] at h
      simp only [] at h
      obtain ⟨ds, hd, hs_, hv, hmin, hmax⟩ := number_inv s_ 2 (some 2) s2 v
        (by intro m hm; injection hm with hm; omega) hnum
      have hlen : ds.length = 2 := by have := hmax 2 rfl; omega
      cases hset : Parsed.set_second p v with
      | error e => rw [hset] at h; cases h
      | ok p1 =>
        rw [hset] at h
        simp only [Except.map] at h
        obtain ⟨b1, b2, hp1'⟩ := set_second_inv p p1 v hp1 hset
        obtain ⟨w7, zz, cc, off, a1, a2, a3, a4, a5, a6⟩ := zonePart_inv p1 q s2 (by rw [hp1']; exact hp2) h
        refine ⟨w ++ (58 :: ds), some (decVal ds), w7, zz, cc, off, Or.inr ⟨w, ds, hw, hd, hlen, rfl, rfl⟩,
          a1, a2, a3, ?_, ?_, a5, ?_⟩
        · rw [hs, hts, hs_, a4]; simp
        · intro x hx; injection hx with hx; subst hx; omega
        · rw [a6, hp1', hv]; rfl


/-- the part of the grammar from the hour on -/
def TimeTail (s : List Nat) (H M : Nat) (sec : Option Nat) (off : Int) : Prop :=
  ∃ w4 hh w5 w6 mm ss w7 zz cc, Ws1 w4 ∧ Digits hh ∧ hh.length = 2 ∧ decVal hh = H ∧ Ws w5 ∧ Ws w6 ∧
    Digits mm ∧ mm.length = 2 ∧ decVal mm = M ∧ Seconds ss sec ∧ Ws1 w7 ∧ Zone zz off ∧ Comments cc ∧
    s = w4 ++ (hh ++ (w5 ++ (58 :: (w6 ++ (mm ++ (ss ++ (w7 ++ (zz ++ cc))))))))

theorem timePart_inv (p q : Parsed) (s : List Nat)
    (hp1 : p.hour_div_12 = none) (hp2 : p.hour_mod_12 = none) (hp3 : p.minute = none)
    (hp4 : p.second = none) (hp5 : p.offset = none) (h : timePart p s = .ok (q, [])) :
    ∃ H M sec off, TimeTail s H M sec off ∧ H ≤ 23 ∧ M ≤ 59 ∧ (∀ x, sec = some x → x ≤ 60) ∧
      (-2147483648 ≤ off ∧ off ≤ 2147483647) ∧
      q = { p with hour_div_12 := some ((H : Int) / 12), hour_mod_12 := some ((H : Int) % 12),
                   minute := some (M : Int), second := sec.map Int.ofNat, offset := some off } := by
  unfold timePart at h
  cases hsp : Scan.space s with
  | error e => rw [hsp] at h; cases h
  | ok s1 =>
  rw [hsp] at h
  simp only [bind, Except.bind, setField] at h
  obtain ⟨w4, hw4, hs, _⟩ := space_inv s s1 hsp
  cases hn1 : Scan.number s1 2 (some 2) with
  | error e => rw [hn1] at h; cases h
  | ok r1 =>
  obtain ⟨s2, v1⟩ := r1
  rw [hn1] at h
  simp only [] at h
  obtain ⟨hh, hhd, hs1, hv1, hmin1, hmax1⟩ := number_inv s1 2 (some 2) s2 v1
    (by intro m hm; injection hm with hm; omega) hn1
  have hhl : hh.length = 2 := by have := hmax1 2 rfl; omega
  subst hv1
  cases hset1 : Parsed.set_hour p (decVal hh : Int) with
  | error e => rw [hset1] at h; cases h
  | ok p1 =>
  rw [hset1] at h
  simp only [Except.map] at h
  obtain ⟨hH, hp1'⟩ := set_hour_inv p p1 (decVal hh) hp1 hp2 hset1
  cases hch : Scan.char (Scan.trimStart s2) 58 with
  | error e => rw [hch] at h; cases h
  | ok s3 =>
  rw [hch] at h
  simp only [] at h
  obtain ⟨w5, hw5, hs2, _⟩ := trimStart_inv s2
  have hts2 := char_inv _ _ _ hch
  obtain ⟨w6, hw6, hs3, _⟩ := trimStart_inv s3
  cases hn2 : Scan.number (Scan.trimStart s3) 2 (some 2) with
  | error e => rw [hn2] at h; cases h
  | ok r2 =>
  obtain ⟨s4, v2⟩ := r2
  rw [hn2] at h
  simp only [] at h
  obtain ⟨mm, hmd, hs3', hv2, hmin2, hmax2⟩ := number_inv _ 2 (some 2) s4 v2
    (by intro m hm; injection hm with hm; omega) hn2
  have hml : mm.length = 2 := by have := hmax2 2 rfl; omega
  subst hv2
  cases hset2 : Parsed.set_minute p1 (decVal mm : Int) with
  | error e => rw [hset2] at h; cases h
  | ok p2 =>
  rw [hset2] at h
  simp only [] at h
  obtain ⟨m0, m59, hp2'⟩ := set_minute_inv p1 p2 _ (by rw [hp1']; exact hp3) hset2
  obtain ⟨ss, sec, w7, zz, cc, off, a1, a2, a3, a4, a5, a6, a7, a8⟩ := secPart_inv p2 q s4
    (by rw [hp2', hp1']; exact hp4) (by rw [hp2', hp1']; exact hp5) h
  refine ⟨decVal hh, decVal mm, sec, off, ⟨w4, hh, w5, w6, mm, ss, w7, zz, cc, hw4, hhd, hhl, rfl, hw5, hw6,
    hmd, hml, rfl, a1, a2, a3, a4, ?_⟩, hH, by omega, a6, a7, ?_⟩
  · rw [hs, hs1, hs2, hts2, hs3, hs3', a5]
  · rw [a8, hp2', hp1']


theorem yearPart_inv (p q : Parsed) (s : List Nat) (hp0 : p.year = none)
    (hp1 : p.hour_div_12 = none) (hp2 : p.hour_mod_12 = none) (hp3 : p.minute = none)
    (hp4 : p.second = none) (hp5 : p.offset = none) (h : yearPart p s = .ok (q, [])) :
    ∃ w3 yy t H M sec off, Ws1 w3 ∧ Digits yy ∧ 2 ≤ yy.length ∧ s = w3 ++ (yy ++ t) ∧ TimeTail t H M sec off ∧
      yearOf yy ≤ 2147483647 ∧ H ≤ 23 ∧ M ≤ 59 ∧ (∀ x, sec = some x → x ≤ 60) ∧
      (-2147483648 ≤ off ∧ off ≤ 2147483647) ∧
      q = { p with year := some (yearOf yy),
                   hour_div_12 := some ((H : Int) / 12), hour_mod_12 := some ((H : Int) % 12),
                   minute := some (M : Int), second := sec.map Int.ofNat, offset := some off } := by
  unfold yearPart at h
  cases hsp : Scan.space s with
  | error e => rw [hsp] at h; cases h
  | ok s1 =>
  rw [hsp] at h
  simp only [bind, Except.bind] at h
  obtain ⟨w3, hw3, hs, _⟩ := space_inv s s1 hsp
  cases hn : Scan.number s1 2 none with
  | error e => rw [hn] at h; cases h
  | ok r =>
  obtain ⟨s2, v⟩ := r
  rw [hn] at h
  simp only [] at h
  obtain ⟨yy, hyd, hs1, hv, hmin, _⟩ := number_inv s1 2 none s2 v (fun m hm => nomatch hm) hn
  subst hv
  have hlen : s1.length - s2.length = yy.length := by rw [hs1]; simp
  rw [hlen, year_rule_eq yy hyd] at h
  cases hset : Parsed.set_year p (yearOf yy) with
  | error e => rw [hset] at h; cases h
  | ok p1 =>
  rw [hset] at h
  simp only [] at h
  obtain ⟨hr, hp1'⟩ := set_year_inv p p1 _ hp0 hset
  obtain ⟨H, M, sec, off, ht, b1, b2, b3, b4, b5⟩ := timePart_inv p1 q s2
    (by rw [hp1']; exact hp1) (by rw [hp1']; exact hp2) (by rw [hp1']; exact hp3) (by rw [hp1']; exact hp4)
    (by rw [hp1']; exact hp5) h
  refine ⟨w3, yy, s2, H, M, sec, off, hw3, hyd, hmin, by rw [hs, hs1], ht, hr.2, b1, b2, b3, b4, ?_⟩
  rw [b5, hp1']

theorem datePart_inv (p q : Parsed) (s : List Nat) (hq1 : p.day = none) (hq2 : p.month = none)
    (hp0 : p.year = none)
    (hp1 : p.hour_div_12 = none) (hp2 : p.hour_mod_12 = none) (hp3 : p.minute = none)
    (hp4 : p.second = none) (hp5 : p.offset = none) (h : datePart p s = .ok (q, [])) :
    ∃ w1 dd w2 mn m w3 yy t H M sec off, Ws w1 ∧ Digits dd ∧ (dd.length = 1 ∨ dd.length = 2) ∧ Ws1 w2 ∧
      MonthName mn m ∧ Ws1 w3 ∧ Digits yy ∧ 2 ≤ yy.length ∧
      s = w1 ++ (dd ++ (w2 ++ (mn ++ (w3 ++ (yy ++ t))))) ∧ TimeTail t H M sec off ∧
      (1 ≤ decVal dd ∧ decVal dd ≤ 31) ∧ m ≤ 12 ∧
      yearOf yy ≤ 2147483647 ∧ H ≤ 23 ∧ M ≤ 59 ∧ (∀ x, sec = some x → x ≤ 60) ∧
      (-2147483648 ≤ off ∧ off ≤ 2147483647) ∧
      q = { p with day := some (decVal dd : Int), month := some (m : Int), year := some (yearOf yy),
                   hour_div_12 := some ((H : Int) / 12), hour_mod_12 := some ((H : Int) % 12),
                   minute := some (M : Int), second := sec.map Int.ofNat, offset := some off } := by
  unfold datePart at h
  simp only [] at h
  obtain ⟨w1, hw1, hs, _⟩ := trimStart_inv s
  cases hn : Scan.number (Scan.trimStart s) 1 (some 2) with
  | error e => rw [hn] at h; cases h
  | ok r =>
  obtain ⟨s1, v⟩ := r
  rw [hn] at h
  simp only [bind, Except.bind, setField] at h
  obtain ⟨dd, hdd, hs0, hv, hmin, hmax⟩ := number_inv _ 1 (some 2) s1 v
    (by intro m hm; injection hm with hm; omega) hn
  subst hv
  have hdl : dd.length = 1 ∨ dd.length = 2 := by have := hmax 2 rfl; omega
  cases hset : Parsed.set_day p (decVal dd : Int) with
  | error e => rw [hset] at h; cases h
  | ok p1 =>
  rw [hset] at h
  simp only [Except.map] at h
  obtain ⟨d1, d31, hp1'⟩ := set_day_inv p p1 _ hq1 hset
  cases hsp : Scan.space s1 with
  | error e => rw [hsp] at h; cases h
  | ok s2 =>
  rw [hsp] at h
  simp only [] at h
  obtain ⟨w2, hw2, hs1, _⟩ := space_inv s1 s2 hsp
  cases hmo : short_month0 s2 with
  | error e => rw [hmo] at h; cases e <;> cases h
  | ok r2 =>
  obtain ⟨s3, i⟩ := r2
  rw [hmo] at h
  simp only [] at h
  obtain ⟨hi, mn, hcase, hs2⟩ := short_month0_inv s2 s3 i hmo
  cases hset2 : Parsed.set_month p1 (1 + (i : Int)) with
  | error e => rw [hset2] at h; cases h
  | ok p2 =>
  rw [hset2] at h
  simp only [Except.map] at h
  obtain ⟨_, _, hp2'⟩ := set_month_inv p1 p2 _ (by rw [hp1']; exact hq2) hset2
  obtain ⟨w3, yy, t, H, M, sec, off, c1, c2, c3, c4, c5, c6, c7, c8, c9, c10, c11⟩ := yearPart_inv p2 q s3
    (by rw [hp2', hp1']; exact hp0) (by rw [hp2', hp1']; exact hp1) (by rw [hp2', hp1']; exact hp2)
    (by rw [hp2', hp1']; exact hp3) (by rw [hp2', hp1']; exact hp4) (by rw [hp2', hp1']; exact hp5) h
  refine ⟨w1, dd, w2, mn, i + 1, w3, yy, t, H, M, sec, off, hw1, hdd, hdl, hw2, ⟨i, hi, hcase, rfl⟩, c1, c2, c3,
    by rw [hs, hs0, hs1, hs2, c4], c5, ⟨by omega, by omega⟩, by omega, c6, c7, c8, c9, c10, ?_⟩
  rw [c11, hp2', hp1']
  have : (1 : Int) + (i : Int) = ((i + 1 : Nat) : Int) := by omega
  simp only [this]


/-- scanner soundness: whatever `parse_rfc2822` consumes entirely is a string of the grammar, and the
record it builds is that of the spelled fields (which are inside the setter ranges) -/
theorem scan_sound (s : List Nat) (q : Parsed) (h : Parse.parse_rfc2822 Parsed.new s = .ok (q, [])) :
    ∃ f, Rfc2822 s f ∧ SetterRanges f ∧ f.month ≤ 12 ∧ 0 ≤ f.year ∧ q = parsedOf f := by
  rw [parse_eq] at h
  unfold parseCopy at h
  simp only [] at h
  obtain ⟨w0, hw0, hs, _⟩ := trimStart_inv s
  have fin : ∀ (p0 : Parsed) (wd : Option Weekday) (pre t0 : List Nat), DayName pre wd → s = w0 ++ (pre ++ t0) →
      p0 = { weekday := wd } → datePart p0 t0 = .ok (q, []) →
      ∃ f, Rfc2822 s f ∧ SetterRanges f ∧ f.month ≤ 12 ∧ 0 ≤ f.year ∧ q = parsedOf f := by
    intro p0 wd pre t0 hdn hs0 hp0 hd
    subst hp0
    obtain ⟨w1, dd, w2, mn, m, w3, yy, t, H, M, sec, off, a1, a2, a3, a4, a5, a6, a7, a8, a9, a10, a11, a12,
      a13, a14, a15, a16, a17, a18⟩ := datePart_inv _ q t0 rfl rfl rfl rfl rfl rfl rfl rfl hd
    obtain ⟨w4, hh, w5, w6, mm, ss, w7, zz, cc, b1, b2, b3, b4, b5, b6, b7, b8, b9, b10, b11, b12, b13, b14⟩ := a10
    have hyge := yearOf_ge yy
    refine ⟨⟨wd, decVal dd, m, yearOf yy, H, M, sec, off⟩,
      ⟨w0, pre, w1, dd, w2, mn, w3, yy, w4, hh, w5, w6, mm, ss, w7, zz, cc, hw0, hdn, a1, a2, a3, rfl, a4, a5, a6,
        a7, a8, rfl, b1, b2, b3, b4, b5, b6, b7, b8, b9, b10, b11, b12, b13, by rw [hs0, a9, b14]⟩,
      ⟨a11.1, a11.2, a13, a14, a15, ?_, a17.1, a17.2⟩, a12, by show (0 : Int) ≤ yearOf yy; omega, ?_⟩
    · show secOf ⟨wd, decVal dd, m, yearOf yy, H, M, sec, off⟩ ≤ 60
      unfold secOf
      cases sec with
      | none => simp
      | some x => simpa using a16 x rfl
    · rw [a18]; rfl
  cases hsw : short_weekday (Scan.trimStart s) with
  | error e =>
    rw [hsw] at h
    simp only [bind, Except.bind] at h
    exact fin Parsed.new none [] (Scan.trimStart s) (Or.inl ⟨rfl, rfl⟩) (by simpa using hs) rfl h
  | ok r =>
    obtain ⟨s1, w⟩ := r
    rw [hsw] at h
    simp only [] at h
    obtain ⟨i, v, hi, hcase, hv, hwi⟩ := short_weekday_inv _ s1 w hsw
    cases s1 with
    | nil => cases h
    | cons c t =>
      by_cases hc : c = 44
      · subst hc
        simp only [bind, Except.bind, Parsed.set_weekday, Parsed.setIf, Parsed.new, pure, Except.pure,
          Except.map] at h
        refine fin { weekday := some w } (some w) (v ++ [44]) t (Or.inr ⟨i, v, hi, hcase, rfl, hwi.symm⟩) ?_ rfl h
        rw [hs, hv]; simp
      · exfalso
        revert h
        split
        · rename_i heq; injection heq with h1 _; exact absurd h1 hc
        · intro h; cases h

end Chrono.Proofs.Rfc2822
