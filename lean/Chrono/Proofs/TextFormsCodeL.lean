/-
  C09, audit gap L3: the numeric item code `TextForms.itemCode` (the form in which
  tools/extractors/textforms.py writes the `FromStr` item lists found in the Rust source) is
  injective, so `Props.C09.items_match_source` — equality of the CODES — pins the item lists
  themselves; and the index tables behind the code are the model's enumerations.
-/
import Chrono.Model.TextForms
import Chrono.Extracted.TextFormsEnums
namespace Chrono.Proofs.TextFormsCode
open Chrono Chrono.M Chrono.M.TextForms

/-- `Numeric.all` lists every variant (at the position `idxOf` reports) -/
theorem numeric_get (n : Numeric) : Numeric.all[Numeric.all.idxOf n]? = some n := by cases n <;> rfl
/-- `Fixed.all` lists every variant -/
theorem fixed_get (f : Fixed) : Fixed.all[Fixed.all.idxOf f]? = some f := by cases f <;> rfl

theorem numeric_complete (n : Numeric) : n ∈ Numeric.all := by cases n <;> decide
theorem fixed_complete (f : Fixed) : f ∈ Fixed.all := by cases f <;> decide

theorem numeric_idx_inj (a b : Numeric) (h : Numeric.all.idxOf a = Numeric.all.idxOf b) : a = b := by
  have ha := numeric_get a
  rw [h, numeric_get b] at ha
  injection ha with ha
  exact ha.symm

theorem fixed_idx_inj (a b : Fixed) (h : Fixed.all.idxOf a = Fixed.all.idxOf b) : a = b := by
  have ha := fixed_get a
  rw [h, fixed_get b] at ha
  injection ha with ha
  exact ha.symm

theorem padIdx_inj (a b : Pad) (h : padIdx a = padIdx b) : a = b := by
  cases a <;> cases b <;> first | rfl | exact absurd h (by decide)

/-- the code determines the item -/
theorem itemCode_inj (a b : Item) (h : itemCode a = itemCode b) : a = b := by
  cases a with
  | literal s =>
    cases b <;> simp only [itemCode, List.cons.injEq] at h <;> first | (exact absurd h.1 (by decide)) | skip
    rw [h.2]
  | space s =>
    cases b <;> simp only [itemCode, List.cons.injEq] at h <;> first | (exact absurd h.1 (by decide)) | skip
    rw [h.2]
  | numeric n p =>
    cases b <;> simp only [itemCode, List.cons.injEq] at h <;> first | (exact absurd h.1 (by decide)) | skip
    rw [numeric_idx_inj _ _ h.2.1, padIdx_inj _ _ h.2.2.1]
  | fixed f =>
    cases b <;> simp only [itemCode, List.cons.injEq] at h <;> first | (exact absurd h.1 (by decide)) | skip
    rw [fixed_idx_inj _ _ h.2.1]
  | error =>
    cases b <;> simp only [itemCode, List.cons.injEq] at h <;> first | (exact absurd h.1 (by decide)) | skip
    rfl

/-- … and the list of codes determines the item list -/
theorem itemCodes_inj : ∀ (l1 l2 : List Item), l1.map itemCode = l2.map itemCode → l1 = l2
  | [], [], _ => rfl
  | [], _ :: _, h => by simp at h
  | _ :: _, [], h => by simp at h
  | a :: l1, b :: l2, h => by
    simp only [List.map_cons, List.cons.injEq] at h
    rw [itemCode_inj a b h.1, itemCodes_inj l1 l2 h.2]

end Chrono.Proofs.TextFormsCode
