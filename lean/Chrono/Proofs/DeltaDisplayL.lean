/- Helper lemmas for C06: the Display text read back by `Spec.readDuration`. -/
import Chrono.Proofs.DeltaL
import Chrono.Spec.DeltaDisplaySpec

namespace Chrono.Proofs
open Chrono Chrono.M Chrono.Spec Chrono.Extracted

theorem isDigit_digitChar (d : Nat) : isDigit (Delta.digitChar d) = true := by
  have h1 : 48 ≤ 48 + d % 10 := by omega
  have h2 : 48 + d % 10 ≤ 57 := by omega
  simp only [isDigit, Delta.digitChar, h1, h2, decide_true, Bool.and_self]

theorem digitChar_val (d : Nat) : Delta.digitChar d - 48 = d % 10 := by
  simp only [Delta.digitChar]; omega

theorem readDigits_digit (c : Nat) (cs : List Nat) (v n l : Nat) (h : isDigit c = true) :
    readDigits (c :: cs) v n l = readDigits cs (v * 10 + (c - 48)) (n + 1) (c - 48) := by
  simp only [readDigits, h, if_true]

theorem readDigits_stop (c : Nat) (cs : List Nat) (v n l : Nat) (h : isDigit c = false) :
    readDigits (c :: cs) v n l = (v, n, l, c :: cs) := by
  simp only [readDigits, h, Bool.false_eq_true, if_false]

/-- what the digit printer produces, in terms of the reader: the digits of `n` extend the value read
so far, whatever follows; their number is at most `w` when `n < 10^w` -/
theorem natDigitsAux_spec : ∀ (fuel n : Nat), n < fuel → ∃ ds : List Nat,
    (∀ acc, Delta.natDigitsAux fuel n acc = ds ++ acc) ∧ 1 ≤ ds.length ∧
    (∀ rest v cnt l, readDigits (ds ++ rest) v cnt l =
      readDigits rest (v * 10 ^ ds.length + n) (cnt + ds.length) (n % 10)) ∧
    (∀ w, 1 ≤ w → n < 10 ^ w → ds.length ≤ w) := by
  intro fuel
  induction fuel with
  | zero => intro n h; omega
  | succ f ih =>
    intro n hn
    by_cases h10 : n < 10
    · refine ⟨[Delta.digitChar n], ?_, by simp, ?_, ?_⟩
      · intro acc; simp only [Delta.natDigitsAux, h10, if_true, List.singleton_append]
      · intro rest v cnt l
        rw [List.singleton_append, readDigits_digit _ _ _ _ _ (isDigit_digitChar n), digitChar_val]
        have : n % 10 = n := by omega
        simp only [List.length_singleton, Nat.pow_one, this]
      · intro w hw _; simpa using hw
    · obtain ⟨ds, h1, h2, h3, h4⟩ := ih (n / 10) (by omega)
      refine ⟨ds ++ [Delta.digitChar (n % 10)], ?_, by simp, ?_, ?_⟩
      · intro acc
        simp only [Delta.natDigitsAux, h10, if_false, h1, List.append_assoc, List.singleton_append]
      · intro rest v cnt l
        rw [List.append_assoc, h3, List.singleton_append,
          readDigits_digit _ _ _ _ _ (isDigit_digitChar _), digitChar_val]
        have e1 : n % 10 % 10 = n % 10 := by omega
        have e2 : (v * 10 ^ ds.length + n / 10) * 10 + n % 10 =
            v * 10 ^ (ds ++ [Delta.digitChar (n % 10)]).length + n := by
          simp only [List.length_append, List.length_singleton, Nat.pow_succ, ← Nat.mul_assoc]
          generalize v * 10 ^ ds.length = vp
          omega
        have e3 : cnt + ds.length + 1 = cnt + (ds ++ [Delta.digitChar (n % 10)]).length := by
          simp only [List.length_append, List.length_singleton]; omega
        rw [e1, e2, e3]
      · intro w hw hlt
        obtain ⟨w', rfl⟩ : ∃ w', w = w' + 1 := ⟨w - 1, by omega⟩
        have hw' : 1 ≤ w' := by
          rcases Nat.eq_zero_or_pos w' with h0 | h0
          · subst h0; simp at hlt; omega
          · exact h0
        have : n / 10 < 10 ^ w' := by
          rw [Nat.pow_succ] at hlt; omega
        have := h4 w' hw' this
        simp only [List.length_append, List.length_singleton]; omega

theorem natDigits_read (n : Nat) (rest : List Nat) (v cnt l : Nat) :
    readDigits (Delta.natDigits n ++ rest) v cnt l =
      readDigits rest (v * 10 ^ (Delta.natDigits n).length + n) (cnt + (Delta.natDigits n).length)
        (n % 10) := by
  obtain ⟨ds, h1, _, h3, _⟩ := natDigitsAux_spec (n + 1) n (by omega)
  have : Delta.natDigits n = ds := by rw [Delta.natDigits, h1, List.append_nil]
  rw [this]; exact h3 rest v cnt l

theorem natDigits_len (n : Nat) :
    1 ≤ (Delta.natDigits n).length ∧ ∀ w, 1 ≤ w → n < 10 ^ w → (Delta.natDigits n).length ≤ w := by
  obtain ⟨ds, h1, h2, _, h4⟩ := natDigitsAux_spec (n + 1) n (by omega)
  have : Delta.natDigits n = ds := by rw [Delta.natDigits, h1, List.append_nil]
  rw [this]; exact ⟨h2, h4⟩

/-- leading zeros do not change the value read and count as digits -/
theorem readDigits_zeros (m : Nat) : ∀ (rest : List Nat) (cnt l : Nat), ∃ l',
    readDigits (List.replicate m 48 ++ rest) 0 cnt l = readDigits rest 0 (cnt + m) l' := by
  induction m with
  | zero => intro rest cnt l; exact ⟨l, by simp⟩
  | succ m ih =>
    intro rest cnt l
    obtain ⟨l', h⟩ := ih rest (cnt + 1) 0
    refine ⟨l', ?_⟩
    rw [List.replicate_succ, List.cons_append, readDigits_digit _ _ _ _ _ (by decide)]
    simp only [Nat.zero_mul, Nat.sub_self, Nat.add_zero]
    rw [h]; congr 1; omega

/-- the zero-padded fraction reads back as its value with exactly `w` digits -/
theorem padDigits_read (n w : Nat) (hw : 1 ≤ w) (hn : n < 10 ^ w) (c : Nat) (t : List Nat)
    (hc : isDigit c = false) :
    readDigits (Delta.padDigits n w ++ c :: t) 0 0 0 = (n, w, n % 10, c :: t) := by
  obtain ⟨hl1, hl2⟩ := natDigits_len n
  have hl := hl2 w hw hn
  unfold Delta.padDigits
  simp only [List.append_assoc]
  obtain ⟨l', h⟩ := readDigits_zeros (w - (Delta.natDigits n).length)
    (Delta.natDigits n ++ c :: t) 0 0
  rw [h, natDigits_read, readDigits_stop _ _ _ _ _ hc]
  simp only [Nat.zero_mul, Nat.zero_add]
  congr 2
  omega

/-- trailing-zero trimming: the value is kept, the figure count matches, the last digit is non-zero -/
theorem trimFraction_spec : ∀ (figs frac : Nat), 0 < frac → frac < 10 ^ figs →
    (Delta.trimFraction figs frac figs).1 * 10 ^ (figs - (Delta.trimFraction figs frac figs).2) = frac ∧
    1 ≤ (Delta.trimFraction figs frac figs).2 ∧ (Delta.trimFraction figs frac figs).2 ≤ figs ∧
    (Delta.trimFraction figs frac figs).1 < 10 ^ (Delta.trimFraction figs frac figs).2 ∧
    (Delta.trimFraction figs frac figs).1 % 10 ≠ 0 := by
  intro figs
  induction figs with
  | zero => intro frac h0 h1; simp at h1; omega
  | succ f ih =>
    intro frac h0 h1
    have e : Delta.trimFraction (f + 1) frac (f + 1) =
        if frac % 10 ≠ 0 then (frac, f + 1) else Delta.trimFraction f (frac / 10) (f + 1 - 1) := rfl
    rw [e]
    by_cases hd : frac % 10 ≠ 0
    · rw [ite_pos' _ _ hd]
      dsimp only
      refine ⟨by simp, by omega, by omega, h1, hd⟩
    · rw [ite_neg' _ _ hd, Nat.add_sub_cancel]
      have h1' : frac / 10 < 10 ^ f := by rw [Nat.pow_succ] at h1; omega
      obtain ⟨a1, a2, a3, a4, a5⟩ := ih (frac / 10) (by omega) h1'
      refine ⟨?_, a2, by omega, a4, a5⟩
      have : f + 1 - (Delta.trimFraction f (frac / 10) f).2 =
          (f - (Delta.trimFraction f (frac / 10) f).2) + 1 := by omega
      rw [this, Nat.pow_succ, ← Nat.mul_assoc, a1]
      omega

/-- the unsigned part of the Display text after `P` -/
def bodyText (ab : Delta) : List Nat :=
  if ab.secs = 0 ∧ ab.nanos = 0 then [48, 68]
  else 84 :: (Delta.natDigits ab.secs.toNat ++
    ((if ab.nanos > 0 then
        46 :: Delta.padDigits (Delta.trimFraction 9 ab.nanos.toNat 9).1 (Delta.trimFraction 9 ab.nanos.toNat 9).2
      else []) ++ [83]))

theorem display_body (ab : Delta) (sign : List Nat) :
    (if ab.secs = 0 ∧ ab.nanos = 0 then (Res.ok (sign ++ [80] ++ [48, 68]) : Res (List Nat))
    else
      let head := sign ++ [80, 84] ++ Delta.natDigits ab.secs.toNat
      let frac :=
        if ab.nanos > 0 then
          let (fd, figs) := Delta.trimFraction 9 ab.nanos.toNat 9
          [46] ++ Delta.padDigits fd figs
        else []
      .ok (head ++ frac ++ [83])) = .ok (sign ++ 80 :: bodyText ab) := by
  unfold bodyText
  by_cases h : ab.secs = 0 ∧ ab.nanos = 0
  · rw [ite_pos' _ _ h, ite_pos' _ _ h]; simp
  · rw [ite_neg' _ _ h, ite_neg' _ _ h]
    by_cases h2 : ab.nanos > 0
    · simp only [ite_pos' _ _ h2]
      simp
    · simp only [ite_neg' _ _ h2]
      simp

theorem display_nonneg (a : Delta) (h : ¬ a.secs < 0) : Delta.display a = .ok (80 :: bodyText a) := by
  unfold Delta.display
  rw [ite_neg' _ _ h]
  exact display_body a []

theorem display_neg (a : Delta) (ha : DInv a) (h : a.secs < 0) :
    Delta.display a = .ok (45 :: 80 :: bodyText (ofNs (-(ns a)))) := by
  unfold Delta.display
  rw [ite_pos' _ _ h, (neg_abs_exact' a ha).1]
  exact display_body _ [45]

theorem readBody_int (t1 : List Nat) (ip ni l : Nat) (h : readDigits t1 0 0 0 = (ip, ni, l, [83]))
    (hni : ni ≠ 0) : readBody (84 :: t1) = some (ip * 1000000000) := by
  unfold readBody
  rw [ite_neg' _ _ (by simp)]
  simp only [h, hni, if_false, if_true]

theorem readBody_frac (t1 t2 : List Nat) (ip ni l fp nf last : Nat)
    (h : readDigits t1 0 0 0 = (ip, ni, l, 46 :: t2)) (hni : ni ≠ 0)
    (h2 : readDigits t2 0 0 0 = (fp, nf, last, [83])) (hnf : 1 ≤ nf ∧ nf ≤ 9) (hl : last ≠ 0) :
    readBody (84 :: t1) = some (ip * 1000000000 + fp * 10 ^ (9 - nf)) := by
  unfold readBody
  rw [ite_neg' _ _ (by simp)]
  simp only [h, hni, if_false]
  rw [ite_neg' _ _ (by simp)]
  simp only [h2]
  rw [ite_neg' _ _ (by simp; omega)]

theorem readBody_bodyText (ab : Delta) (h0 : 0 ≤ ab.secs) (h1 : 0 ≤ ab.nanos)
    (h2 : ab.nanos < 1000000000) : readBody (bodyText ab) = some (ns ab).toNat := by
  obtain ⟨S, N⟩ := ab
  dsimp only at h0 h1 h2
  unfold bodyText
  dsimp only
  by_cases hz : S = 0 ∧ N = 0
  · rw [ite_pos' _ _ hz]
    obtain ⟨rfl, rfl⟩ := hz
    rfl
  · rw [ite_neg' _ _ hz]
    obtain ⟨hl1, -⟩ := natDigits_len S.toNat
    by_cases hN : N > 0
    · rw [ite_pos' _ _ hN]
      obtain ⟨t1, t2, t3, t4, t5⟩ := trimFraction_spec 9 N.toNat (by omega) (by omega)
      generalize Delta.trimFraction 9 N.toNat 9 = p at *
      obtain ⟨fd, figs⟩ := p
      dsimp only at *
      have hfd : fd < 10 ^ figs := t4
      rw [readBody_frac _ (Delta.padDigits fd figs ++ [83]) S.toNat (Delta.natDigits S.toNat).length
        (S.toNat % 10) fd figs (fd % 10)]
      · simp only [ns, Option.some.injEq]
        rw [t1]
        omega
      · rw [natDigits_read, List.cons_append, readDigits_stop _ _ _ _ _ (by decide)]
        simp
      · omega
      · exact padDigits_read fd figs t2 hfd 83 [] (by decide)
      · omega
      · exact t5
    · rw [ite_neg' _ _ hN, List.nil_append]
      rw [readBody_int _ S.toNat (Delta.natDigits S.toNat).length (S.toNat % 10)]
      · simp only [ns, Option.some.injEq]
        omega
      · rw [natDigits_read, readDigits_stop _ _ _ _ _ (by decide)]
        simp
      · omega
theorem readDuration_neg (b : List Nat) :
    readDuration (45 :: 80 :: b) = (readBody b).map (fun v => -(v : Int)) := rfl
theorem readDuration_pos (b : List Nat) :
    readDuration (80 :: b) = (readBody b).map (fun v => (v : Int)) := rfl

/-- the Display text of a valid duration, read back, is its exact nanosecond count -/
theorem display_value' (a : Delta) (ha : DInv a) :
    ∃ t, Delta.display a = .ok t ∧ readDuration t = some (ns a) := by
  by_cases h : a.secs < 0
  · refine ⟨_, display_neg a ha h, ?_⟩
    have hr : nsInRange (-(ns a)) := by
      have := ha.2.2; simp only [nsInRange] at this ⊢; omega
    obtain ⟨hi, hv⟩ := ofNs_spec' _ hr
    have hneg : ns a < 0 := by
      have := ha.2.1; simp only [ns]; omega
    have hs : 0 ≤ (ofNs (-(ns a))).secs := by simp only [ofNs]; omega
    rw [readDuration_neg, readBody_bodyText _ hs hi.1 hi.2.1, hv]
    show some _ = some _
    congr 1
    dsimp only
    omega
  · refine ⟨_, display_nonneg a h, ?_⟩
    rw [readDuration_pos, readBody_bodyText _ (by omega) ha.1 ha.2.1]
    have : 0 ≤ ns a := by
      have := ha.1; simp only [ns]; omega
    show some _ = some _
    congr 1
    dsimp only
    omega
end Chrono.Proofs
