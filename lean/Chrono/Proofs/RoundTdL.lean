/- Helper lemmas for C17 at the date-time level: the stamp and the span as they come out of a
date-time's fields and a `TimeDelta` (uses C06's accessor theorem for `num_nanoseconds`). -/
import Chrono.Proofs.RoundL
import Chrono.Proofs.DeltaL

namespace Chrono.Proofs.RoundL
open Chrono Chrono.M Chrono.M.Round Chrono.Spec Chrono.Spec.Round Chrono.Extracted.Round

def kindOf : Op → Kind
  | .trunc => .trunc
  | .round => .round
  | .up => .up

theorem run_eval' (op : Op) (s span : Int) (hp : 0 < span) (hp2 : span ≤ 9223372036854775807) :
    run op (some s) (some span) = .ok (.ok (specOf (kindOf op) s span - s)) := by
  rw [run_eval op s span hp hp2]; cases op <;> rfl

theorem num_nanoseconds_eq (a : Delta) (ha : DInv a) : a.num_nanoseconds = optI64 (ns a) :=
  (accessors_spec' a ha).2.2.2.2.1

/-- the master statement at the date-time level -/
theorem on_datetime_eq (op : Op) (utc sub off : Int) (dur : Delta) (hd : DInv dur)
    (h0 : 0 ≤ sub) (h1 : sub < 1000000000) :
    on_datetime op utc sub off dur =
      if ns dur ≤ 0 ∨ 9223372036854775807 < ns dur then .ok (.err .DurationExceedsLimit)
      else if ¬ InI64 ((utc + off) * 1000000000 + sub) then .ok (.err .TimestampExceedsLimit)
      else .ok (.ok (specOf (kindOf op) ((utc + off) * 1000000000 + sub) (ns dur)
                      - ((utc + off) * 1000000000 + sub))) := by
  unfold on_datetime wall_stamp
  rw [num_nanoseconds_eq dur hd, timestamp_nanos_opt_eq _ _ h0 h1]
  generalize (utc + off) * 1000000000 + sub = w
  generalize ns dur = p
  by_cases hp : p ≤ 0
  · rw [if_pos (Or.inl hp)]
    by_cases hin : -9223372036854775808 ≤ p
    · have e : optI64 p = some p := optI64_some hin (by omega)
      rw [e]; exact run_span_nonpos op _ p hp
    · have e : optI64 p = none := optI64_none (by omega)
      rw [e]; exact run_span_none op _
  · by_cases hbig : 9223372036854775807 < p
    · have e : optI64 p = none := optI64_none (Or.inr hbig)
      rw [if_pos (Or.inr hbig), e]; exact run_span_none op _
    · have e : optI64 p = some p := optI64_some (by omega) (by omega)
      rw [if_neg (by omega), e]
      by_cases hw : InI64 w
      · have ew : optI64 w = some w := optI64_some hw.1 hw.2
        rw [if_neg (by exact fun h => h hw), ew]
        exact run_eval' op w p (by omega) (by omega)
      · have ew : optI64 w = none := optI64_none (by unfold InI64 at hw; omega)
        rw [if_pos hw, ew]
        exact run_stamp_none op p (by omega)

end Chrono.Proofs.RoundL
