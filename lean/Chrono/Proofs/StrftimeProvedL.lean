/-
  C13: the items `StrftimeItems::new(fmt)` yields, as far as the reader can invert them
  (`Spec.invertible`), are items for which `item_inverts` is proved (`Spec.provedItem`): no specifier
  produces the `Z`-printing offset items, and every white-space item holds a run of white-space
  characters (`Spec.wsRun`).  Namespace `Chrono.Proofs.StrftimeProved`.
-/
import Chrono.Proofs.RoundTripL
import Chrono.Spec.UnambiguousSpec
namespace Chrono.Proofs.StrftimeProved
open Chrono Chrono.M Chrono.M.Strftime Chrono.M.Scan Chrono.Spec Chrono.Proofs.RoundTrip

/-- not invertible, or proved -/
def okItem (it : Item) : Bool := !invertible it || provedItem it

theorem specTable_ok (c : Nat) (it : Item) (q : List Item) (h : specTable c = some (it, q)) :
    okItem it = true ∧ q.all okItem = true := by
  unfold specTable at h
  split at h <;> first
    | (simp only [Option.some.injEq, Prod.mk.injEq] at h; obtain ⟨rfl, rfl⟩ := h; decide)
    | (simp only [fromSlice, T_FMT, D_T_FMT, T_FMT_AMPM, D_FMT, Option.some.injEq, Prod.mk.injEq] at h
       obtain ⟨rfl, rfl⟩ := h; decide)
    | (cases h)

theorem error_strict (orig : List Nat) (el : Nat) (ch : Option Nat) : error false orig el ch = ([], .error, el) := rfl

def Arm.ok : Arm → Prop
  | .item it _ q _ => okItem it = true ∧ q.all okItem = true
  | .ret _ it => okItem it = true

theorem fracArm_ok (s rem : List Nat) (el : Nat) (ok : Item) (hok : okItem ok = true) :
    Arm.ok (fracArm false s rem el ok) := by
  unfold fracArm
  cases hn : nextCh rem with
  | none => exact (rfl : okItem .error = true)
  | some x =>
    obtain ⟨c, n, rem'⟩ := x
    dsimp only
    split
    · exact ⟨hok, rfl⟩
    · exact ⟨rfl, rfl⟩

theorem specArm_ok (s rem : List Nat) (el : Nat) (alt : Bool) (c n : Nat) :
    Arm.ok (specArm false s rem el alt c n) := by
  unfold specArm
  split
  · exact ⟨by unfold zItem; split <;> rfl, rfl⟩
  split
  · split
    · exact ⟨rfl, rfl⟩
    · split
      · exact ⟨rfl, rfl⟩
      · split
        · exact ⟨rfl, rfl⟩
        · exact ⟨rfl, rfl⟩
  split
  · cases hn : nextCh rem with
    | none => exact (rfl : okItem .error = true)
    | some x =>
      obtain ⟨c1, n1, rem1⟩ := x
      dsimp only
      split
      · exact fracArm_ok s rem1 _ _ rfl
      · split
        · exact fracArm_ok s rem1 _ _ rfl
        · split
          · exact fracArm_ok s rem1 _ _ rfl
          · split
            · exact ⟨rfl, rfl⟩
            · exact ⟨rfl, rfl⟩
  split
  · exact fracArm_ok s rem _ _ rfl
  split
  · exact fracArm_ok s rem _ _ rfl
  split
  · exact fracArm_ok s rem _ _ rfl
  cases hs : specTable c with
  | some x =>
    obtain ⟨it, q⟩ := x
    exact specTable_ok c it q hs
  | none => exact ⟨rfl, rfl⟩

/-! ### the white-space item holds a run of white-space characters -/

theorem wsSpanAux_acc : ∀ (fuel : Nat) (s : List Nat) (acc : Nat), wsSpanAux fuel s acc = acc + wsSpanAux fuel s 0 := by
  intro fuel
  induction fuel with
  | zero => intro s acc; simp [wsSpanAux]
  | succ f ih =>
    intro s acc
    simp only [wsSpanAux]
    split
    · simp
    · rw [ih _ (acc + _), ih _ (0 + _)]; omega

theorem take_len_add (c r : List Nat) (m : Nat) : (c ++ r).take (c.length + m) = c ++ r.take m := by
  induction c with
  | nil => simp
  | cons a c ih =>
    rw [show (a :: c).length + m = (c.length + m) + 1 by simp only [List.length_cons]; omega]
    simp [ih]

theorem wsRunAux_nil (F : Nat) : wsRunAux F [] = true := by cases F <;> rfl

/-- one white-space character in front of a run -/
theorem wsRunAux_char (c X : List Nat) (hne : c ≠ []) (hw : ∀ t, wsLen (c ++ t) = c.length) (F : Nat)
    (hF : (c ++ X).length ≤ F) (hX : wsRunAux (F - 1) X = true) : wsRunAux F (c ++ X) = true := by
  have hl : 0 < c.length := List.length_pos_iff.mpr hne
  cases F with
  | zero => simp only [List.length_append] at hF; omega
  | succ F' =>
    cases c with
    | nil => exact absurd rfl hne
    | cons a c' =>
      have hwx := hw X
      simp only [List.cons_append] at hwx ⊢
      simp only [wsRunAux, hwx]
      have hd : (a :: (c' ++ X)).drop (a :: c').length = X := by
        rw [← List.cons_append]; exact List.drop_left
      rw [hd]
      simp only [Nat.add_sub_cancel] at hX
      simp [hX]

theorem wsRunAux_span : ∀ (fuel : Nat) (s : List Nat) (F : Nat), (s.take (wsSpanAux fuel s 0)).length ≤ F →
    wsRunAux F (s.take (wsSpanAux fuel s 0)) = true := by
  intro fuel
  induction fuel with
  | zero => intro s F _; simp [wsSpanAux, wsRunAux_nil]
  | succ f ih =>
    intro s F hF
    by_cases h0 : wsLen s = 0
    · simp [wsSpanAux, h0, wsRunAux_nil]
    · obtain ⟨c, r, e, hl, hne, hw⟩ := wsLen_prefix s h0
      subst e
      have hwr := hw r
      have hsp : wsSpanAux (f + 1) (c ++ r) 0 = c.length + wsSpanAux f r 0 := by
        simp only [wsSpanAux, hwr]
        rw [if_neg (by have : 0 < c.length := List.length_pos_iff.mpr hne
                       omega), List.drop_left, wsSpanAux_acc]
        omega
      rw [hsp, take_len_add] at hF ⊢
      refine wsRunAux_char c _ hne hw F hF (ih r (F - 1) ?_)
      have : 0 < c.length := List.length_pos_iff.mpr hne
      simp only [List.length_append] at hF
      omega

/-- the white-space run `parse_next_item` cuts off the format string is a run of white-space characters -/
theorem wsRun_space_item (s : List Nat) (h0 : wsLen s ≠ 0) :
    wsRun (s.take (wsLen s + wsSpan (s.drop (wsLen s)))) = true := by
  obtain ⟨c, r, e, hl, hne, hw⟩ := wsLen_prefix s h0
  subst e
  rw [hw r, List.drop_left, take_len_add]
  unfold wsRun wsSpan
  refine wsRunAux_char c _ hne hw _ (Nat.le_refl _) (wsRunAux_span _ r _ ?_)
  have : 0 < c.length := List.length_pos_iff.mpr hne
  simp only [List.length_append]
  omega

/-! ### one call, then the whole iterator -/

theorem parse_next_item_ok (s : List Nat) (r : List Nat × Item × List Item)
    (h : parse_next_item false s = some r) : okItem r.2.1 = true ∧ r.2.2.all okItem = true := by
  cases s with
  | nil => simp [parse_next_item] at h
  | cons b rest =>
    by_cases hb : b = 37
    · subst hb
      unfold parse_next_item at h
      simp only [error_strict] at h
      cases hn : nextCh rest with
      | none =>
        rw [hn] at h
        simp only [Option.some.injEq] at h
        subst h
        exact ⟨rfl, rfl⟩
      | some x =>
        obtain ⟨c0, n0, r1⟩ := x
        rw [hn] at h
        dsimp only at h
        generalize (if ((padOf c0).isSome || c0 == 35) = true then _ else _ :
          Option (Option (Nat × Nat × List Nat × Nat))) = sec at h
        rcases sec with _ | _ | ⟨c, n, rem, el⟩
        · simp only [Option.some.injEq] at h; subst h; exact ⟨rfl, rfl⟩
        · simp only [Option.some.injEq] at h; subst h; exact ⟨rfl, rfl⟩
        · dsimp only at h
          split at h
          · simp only [Option.some.injEq] at h; subst h; exact ⟨rfl, rfl⟩
          · have hg := specArm_ok (37 :: rest) rem el (c0 == 35) c n
            cases ha : specArm false (37 :: rest) rem el (c0 == 35) c n with
            | ret rem' it =>
              rw [ha] at h hg
              simp only [Option.some.injEq] at h
              subst h
              exact ⟨hg, rfl⟩
            | item it rem' queue el' =>
              rw [ha] at h hg
              obtain ⟨q2, q3⟩ := hg
              dsimp only at h
              cases hp : padOf c0 with
              | none =>
                rw [hp] at h
                simp only [Option.some.injEq] at h
                subst h
                exact ⟨q2, q3⟩
              | some np =>
                rw [hp] at h
                dsimp only at h
                split at h
                · split at h
                  · simp only [Option.some.injEq] at h
                    subst h
                    exact ⟨rfl, rfl⟩
                  · simp only [Option.some.injEq] at h
                    subst h
                    exact ⟨rfl, q3⟩
                · simp only [Option.some.injEq] at h
                  subst h
                  exact ⟨rfl, q3⟩
    · unfold parse_next_item at h
      split at h
      · rename_i he; cases he
      · rename_i r0 he; injection he with h1 _; exact absurd h1 hb
      · rename_i b' tl he
        injection he with h1 h2
        subst h1; subst h2
        split at h
        · rename_i hw
          simp only [Option.some.injEq] at h
          subst h
          refine ⟨?_, rfl⟩
          show (!invertible (.space _) || provedItem (.space _)) = true
          simp only [provedItem, wsRun_space_item (b :: rest) hw, Bool.or_true]
        · simp only [Option.some.injEq] at h
          subst h
          exact ⟨rfl, rfl⟩

theorem itemsAux_ok : ∀ (fuel : Nat) (s : List Nat), (itemsAux false fuel s).all okItem = true := by
  intro fuel
  induction fuel with
  | zero => intro s; simp [itemsAux]
  | succ f ih =>
    intro s
    rw [itemsAux]
    cases hp : parse_next_item false s with
    | none => rfl
    | some r =>
      obtain ⟨rem, it, q⟩ := r
      obtain ⟨h2, h3⟩ := parse_next_item_ok s _ hp
      dsimp only at h2 h3 ⊢
      rw [List.all_cons, List.all_append, h2, h3, ih rem]
      rfl

/-- **every invertible item of `StrftimeItems::new(fmt)` is a proved item** -/
theorem items_are_proved (fmt : List Nat) :
    ∀ it ∈ Strftime.items fmt, invertible it = true → provedItem it = true := by
  intro it hm hinv
  have := List.all_eq_true.mp (itemsAux_ok (fmt.length + 1) fmt) it hm
  simpa [okItem, hinv] using this

end Chrono.Proofs.StrftimeProved
