/-
  Helper lemmas for C11, part 4: the standard form `Www, D Mon YYYY HH:MM:SS +HHMM` (`Spec.Rfc2822.stdText`)
  is a string of the grammar spelling its own fields.
-/
import Chrono.Proofs.Rfc2822ResL
namespace Chrono.Proofs.Rfc2822
open Chrono Chrono.M Chrono.Spec Chrono.Spec.Rfc2822

/-- fields the standard form can show: day-name and seconds present, year 0–9999, whole-minute offset -/
def StdFields (f : Rfc2822.Fields) : Prop :=
  (∃ w, f.weekday = some w) ∧ 1 ≤ f.day ∧ f.day ≤ 31 ∧ 1 ≤ f.month ∧ f.month ≤ 12 ∧
  0 ≤ f.year ∧ f.year ≤ 9999 ∧ f.hour ≤ 23 ∧ f.min ≤ 59 ∧ (∃ s, f.sec = some s ∧ s ≤ 60) ∧
  f.off % 60 = 0 ∧ -86400 < f.off ∧ f.off < 86400

theorem dec2_spec (n : Nat) (h : n < 100) : Digits (dec2 n) ∧ (dec2 n).length = 2 ∧ decVal (dec2 n) = n := by
  refine ⟨?_, rfl, ?_⟩
  · intro b hb
    simp only [dec2, List.mem_cons, List.mem_nil_iff, or_false] at hb
    rcases hb with rfl | rfl <;> omega
  · simp only [decVal, dec2, List.foldl_cons, List.foldl_nil]; omega

theorem cap_tables :
    (∀ i < 7, CaseOf (dayNames.getD i []) (dayNamesCap.getD i [])) ∧
    (∀ i < 12, CaseOf (monthNames.getD i []) (monthNamesCap.getD i [])) := by decide

theorem zone_cast {a b : List Nat} {x y : Int} (h : Zone a x) (h1 : a = b) (h2 : x = y) : Zone b y := by
  subst h1; subst h2; exact h

theorem std_in_grammar (f : Rfc2822.Fields) (h : StdFields f) : Rfc2822 (stdText f) f := by
  obtain ⟨⟨w, hw⟩, d1, d2, m1, m2, y1, y2, h23, h59, ⟨sc, hsc, h60⟩, o1, o2, o3⟩ := h
  obtain ⟨wd, d, m, Y, hh, mi, sec, off⟩ := f
  simp only [] at hw d1 d2 m1 m2 y1 y2 h23 h59 hsc o1 o2 o3
  subst hw; subst hsc
  obtain ⟨c1, c2⟩ := cap_tables
  have hwi : w.toNat < 7 ∧ weekdays[w.toNat]? = some w := by cases w <;> decide
  have hyn : Y.toNat ≤ 9999 := by omega
  obtain ⟨q1, q2, q3⟩ := dec2_spec (Y.toNat / 100) (by omega)
  obtain ⟨r1, r2, r3⟩ := dec2_spec (Y.toNat % 100) (by omega)
  obtain ⟨hd1, hd2, hd3⟩ := dec2_spec hh (by omega)
  obtain ⟨md1, md2, md3⟩ := dec2_spec mi (by omega)
  obtain ⟨sd1, sd2, sd3⟩ := dec2_spec sc (by omega)
  have ha : off.natAbs < 86400 := by omega
  refine ⟨[], dayNamesCap.getD w.toNat [] ++ [44], [32], (if d < 10 then [48 + d] else dec2 d), [32],
    monthNamesCap.getD (m - 1) [], [32], dec2 (Y.toNat / 100) ++ dec2 (Y.toNat % 100), [32], dec2 hh, [], [],
    dec2 mi, 58 :: dec2 sc, [32],
    [if off < 0 then 45 else 43] ++ dec2 (off.natAbs / 3600) ++ dec2 (off.natAbs / 60 % 60), [],
    Ws.nil, Or.inr ⟨w.toNat, _, hwi.1, c1 _ hwi.1, rfl, hwi.2.symm⟩, Ws.cons [32] [] (by decide) Ws.nil,
    ?_, ?_, ?_, ⟨[32], [], by decide, Ws.nil, rfl⟩, ⟨m - 1, by omega, c2 _ (by omega), (by show m = m - 1 + 1; omega)⟩,
    ⟨[32], [], by decide, Ws.nil, rfl⟩, ?_, ?_, ?_, ⟨[32], [], by decide, Ws.nil, rfl⟩,
    hd1, hd2, hd3, Ws.nil, Ws.nil, md1, md2, md3,
    Or.inr ⟨[], dec2 sc, Ws.nil, sd1, sd2, rfl, by rw [sd3]⟩, ⟨[32], [], by decide, Ws.nil, rfl⟩, ?_,
    Comments.nil, ?_⟩
  · split
    · intro b hb; simp only [List.mem_cons, List.mem_nil_iff, or_false] at hb; subst hb; omega
    · exact (dec2_spec d (by omega)).1
  · split
    · left; rfl
    · right; rfl
  · split
    · simp only [decVal, List.foldl_cons, List.foldl_nil]; omega
    · exact (dec2_spec d (by omega)).2.2
  · intro b hb
    rcases List.mem_append.mp hb with hb | hb
    · exact q1 b hb
    · exact r1 b hb
  · simp [dec2]
  · unfold yearOf
    have hl : (dec2 (Y.toNat / 100) ++ dec2 (Y.toNat % 100)).length = 4 := by simp [dec2]
    rw [if_neg (by omega), if_neg (by omega)]
    simp only [decVal, dec2, List.cons_append, List.nil_append, List.foldl_cons, List.foldl_nil]
    omega
  · have hz := Zone.num (decide (off < 0)) (48 + off.natAbs / 3600 / 10) (48 + off.natAbs / 3600 % 10)
      (48 + off.natAbs / 60 % 60 / 10) (48 + off.natAbs / 60 % 60 % 10) (by omega) (by omega) (by omega) (by omega)
    apply zone_cast hz
    · by_cases hn : off < 0 <;> simp [hn, dec2]
    · by_cases hn : off < 0
      · simp only [hn, decide_true, if_true]; omega
      · simp only [hn, decide_false, Bool.false_eq_true, if_false]; omega
  · simp [stdText, secOf]

/-- validity of the fields implies the scanner's setter ranges -/
theorem setterRanges_of_valid (f : Fields) (hv : Valid f) : SetterRanges f := by
  obtain ⟨v1, v2, v3, _, v5, v6, v7, v8, _⟩ := hv
  have hb := Chrono.Proofs.valid_bounds f.year f.month f.day v3
  have hd1 : 1 ≤ f.day := by
    unfold validYmd at v3
    simp only [Bool.and_eq_true, decide_eq_true_eq] at v3
    exact v3.1.2
  have hMAX : Extracted.MAX_YEAR = 262142 := rfl
  unfold OffValid at v8
  exact ⟨hd1, hb.2, by omega, v5, v6, v7, by omega, by omega⟩


theorem ws_sp : Ws [32] := Ws.cons [32] [] (by decide) Ws.nil
theorem ws1_sp : Ws1 [32] := ⟨[32], [], by decide, Ws.nil, rfl⟩


end Chrono.Proofs.Rfc2822
