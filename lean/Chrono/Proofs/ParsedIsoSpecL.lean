/-
  C14: the ISO-week clause of `DateAgrees` (stated through the model accessor `Date.iso_week`) is the
  same as the clause read off the calendar specification (`isoYear` / `isoWeek` of
  Spec/StrftimeSpec.lean), by C12's `iso_week_spec` (Proofs/FormatIsoL.lean).
-/
import Chrono.Proofs.FormatIsoL
import Chrono.Proofs.ParsedIsoL
namespace Chrono.Proofs.ParsedIsoSpec
open Chrono Chrono.M Chrono.Spec Chrono.Spec.Fields Chrono.Spec.Strftime Chrono.Extracted
open Chrono.Proofs Chrono.Proofs.ParsedRes

theorem isoIs_iff_spec (p : Parsed) (Y : Int) (o : Nat) (hvd : VD Y o) :
    IsoIs p (dateOfYo Y o) ↔ IsoIsSpec p Y o := by
  obtain ⟨v1, v2, v3, v4⟩ := hvd
  obtain ⟨w, hw, hy, hk⟩ := FormatIsoL.iso_week_spec Y o ⟨v1, v2⟩ ⟨v3, v4⟩
  unfold IsoIs IsoIsSpec
  constructor
  · rintro ⟨w', hw', a, b, c⟩
    rw [hw] at hw'
    cases hw'
    rw [hy] at a b
    rw [hk] at c
    exact ⟨a, b, c⟩
  · rintro ⟨a, b, c⟩
    refine ⟨w, hw, ?_, ?_, ?_⟩
    · rw [hy]; exact a
    · rw [hy]; exact b
    · rw [hk]; exact c

theorem dateAgrees_iff_spec (p : Parsed) (Y : Int) (o : Nat) (hvd : VD Y o) :
    DateAgrees p Y o ↔ DateAgreesSpec p Y o := by
  unfold DateAgrees DateAgreesSpec
  rw [isoIs_iff_spec p Y o hvd]

/-- the ISO year the model accessor reports is the calendar specification's -/
theorem iso_year_of (Y : Int) (o : Nat) (hvd : VD Y o) (w : Int)
    (hw : (dateOfYo Y o).iso_week = .ok w) : IsoWeek.year w = isoYear Y o := by
  obtain ⟨v1, v2, v3, v4⟩ := hvd
  obtain ⟨w', hw', hy, _⟩ := FormatIsoL.iso_week_spec Y o ⟨v1, v2⟩ ⟨v3, v4⟩
  rw [hw] at hw'
  cases hw'
  exact hy

end Chrono.Proofs.ParsedIsoSpec
