/-
  C13, round 3: lemmas for zone-aware values outside the comfortable domain.
  * `leap_item_same_ctx` / `leap_format_normalised_zoned`: a local reading in leap representation off second
    :59 (a UTC leap second seen at an offset with seconds) is formatted by every item except `%s` exactly like
    the normalised reading one second later (G6);
  * `timestamp_ext`: `NaiveDateTime::timestamp` of a reading in the headroom day (one day outside the range
    of `NaiveDate`) does not overflow and is the second count (G4);
  * `stamp_items_of_stampOnly`, `format_stamp_congr`: a timestamp-only item list consists of literals,
    white space, `%s` and offset items, and what it prints depends on the context only through
    `timestamp − offset` and the offset (G4).
  Namespace `Chrono.Proofs.RoundTrip`.
-/
import Chrono.Proofs.RoundTripTotalL
import Chrono.Proofs.RoundTripStampL
import Chrono.Proofs.RoundDtL

namespace Chrono.Proofs.RoundTrip
open Chrono Chrono.M Chrono.M.Scan Chrono.Spec Chrono.Extracted Chrono.Proofs

/-! ### G6: leap representation off :59 in a zone-aware context -/

/-- every item except `%s` (and the RFC items, which are outside the family) prints a time of day in leap
representation off :59 like the normalised time, whatever date and offset the context shows -/
theorem leap_item_same_ctx (d : Option Date) (off : Option (List Nat × Int)) (t : Time) (hv : TValid t)
    (hl : 1000000000 ≤ t.frac) (hs : t.secs % 60 ≠ 59) (it : Item) (hi : invertible it = true)
    (hnt : ∀ pad, it ≠ .numeric .timestamp pad) :
    Format.format_item d (some t) off it = Format.format_item d (some (leapNormal t)) off it := by
  obtain ⟨t1, t2, t3, t4⟩ := hv
  have hh : t.hour = (leapNormal t).hour := by
    unfold leapNormal Time.hour Time.hms; dsimp only; omega
  have hm : t.minute = (leapNormal t).minute := by
    unfold leapNormal Time.minute Time.hms; dsimp only; omega
  have h12 : t.hour12 = (leapNormal t).hour12 := by
    unfold Time.hour12; rw [hh]
  have hsec : t.second + t.nanosecond / 1000000000 =
      (leapNormal t).second + (leapNormal t).nanosecond / 1000000000 := by
    unfold leapNormal Time.second Time.nanosecond Time.hms; dsimp only; omega
  have hn9 : t.nanosecond % 1000000000 = (leapNormal t).nanosecond % 1000000000 := by
    unfold leapNormal Time.nanosecond; dsimp only; omega
  have hn3 : t.nanosecond / 1000000 % 1000 = (leapNormal t).nanosecond / 1000000 % 1000 := by
    unfold leapNormal Time.nanosecond; dsimp only; omega
  have hn6 : t.nanosecond / 1000 % 1000000 = (leapNormal t).nanosecond / 1000 % 1000000 := by
    unfold leapNormal Time.nanosecond; dsimp only; omega
  cases it with
  | literal l => rfl
  | space s => rfl
  | error => rfl
  | numeric n pad =>
    cases n <;> first
      | exact absurd rfl (hnt pad)
      | (cases d <;> simp only [Format.format_item, Format.format_numeric, hh, hm, h12, hsec, hn9])
  | fixed f =>
    cases f <;> first
      | (simp [invertible] at hi; done)
      | (cases d <;> cases off <;> simp only [Format.format_item, Format.format_fixed, h12, hn9, hn3, hn6])

theorem leap_items_same_ctx (d : Option Date) (off : Option (List Nat × Int)) (t : Time) (hv : TValid t)
    (hl : 1000000000 ≤ t.frac) (hs : t.secs % 60 ≠ 59) :
    ∀ (is : List Item), (∀ it ∈ is, invertible it = true) → (∀ it ∈ is, ∀ pad, it ≠ .numeric .timestamp pad) →
      Format.formatItemsR d (some t) off is = Format.formatItemsR d (some (leapNormal t)) off is := by
  intro is
  induction is with
  | nil => intro _ _; rfl
  | cons it is ih =>
    intro hi hn
    simp only [Format.formatItemsR,
      leap_item_same_ctx d off t hv hl hs it (hi it List.mem_cons_self) (hn it List.mem_cons_self),
      ih (fun x hx => hi x (List.mem_cons_of_mem _ hx)) (fun x hx => hn x (List.mem_cons_of_mem _ hx))]

/-- **a zone-aware value whose local reading is in leap representation off :59** (a UTC leap second at :59
seen at an offset with seconds) **is formatted, by every format without `%s`, exactly like any value `z'` at
the same offset whose local reading is the normalised one** (one second later, no leap representation) -/
theorem leap_format_normalised_zoned (z z' : Zoned) (d : Date) (t : Time) (hv : TValid t)
    (hl : 1000000000 ≤ t.frac) (hs : t.secs % 60 ≠ 59)
    (h : z.overflowing_naive_local = .ok ⟨d, t⟩) (h' : z'.overflowing_naive_local = .ok ⟨d, leapNormal t⟩)
    (hoff : z'.off = z.off) (is : List Item) (hi : ∀ it ∈ is, invertible it = true)
    (hn : ∀ it ∈ is, ∀ pad, it ≠ .numeric .timestamp pad) :
    ParseFrom.formatItemsOf (.zoned z) is = ParseFrom.formatItemsOf (.zoned z') is := by
  simp only [ParseFrom.formatItemsOf, h, h', hoff, Format.W.ofRes]
  exact leap_items_same_ctx (some d) _ t hv hl hs is hi hn

/-! ### G4: the headroom day -/

/-- `timestamp()` of a reading of the extended calendar (the headroom day at either end included) is its
second count, with no intermediate overflow -/
theorem timestamp_ext (dt : NaiveDT) (h : ExtNDTInv dt) : NaiveDT.timestamp dt = .ok (instSecs dt) := by
  obtain ⟨hd, ht⟩ := h
  obtain ⟨h1, h2, h3, h4, _⟩ := hd
  obtain ⟨t1, t2, _, _⟩ := ht
  have hyl := yearLen_ge dt.date.year
  have hMIN : MIN_YEAR = -262143 := rfl
  have hMAX : MAX_YEAR = 262142 := rfl
  have hb := Chrono.Proofs.RoundDt.dayNum_ext_bounds dt.date.year dt.date.ordinal ⟨h1, h2⟩ ⟨h3, by omega⟩
  have hE : UNIX_EPOCH_DAY = 719163 := rfl
  have hE' : EPOCH_DAY = 719163 := rfl
  unfold NaiveDT.timestamp instSecs dayNumOf Time.num_seconds_from_midnight
  rw [num_days_spec dt.date (by omega) (by omega) (by omega)]
  simp only [Res.bind]
  rw [hE, hE']
  generalize dayNumYo dt.date.year dt.date.ordinal = g at *
  rw [ckI64_ok (by omega) (by omega)]
  simp only []
  rw [ckI64_ok (by omega) (by omega)]
  simp only []
  rw [ckI64_ok (by omega) (by omega)]

/-- the items of a timestamp-only format: literals, white space, `%s`, `%z`, `%:z` (and the `Z`-printing
offset items no specifier produces) -/
def stampItem : Item → Bool
  | .literal _ | .space _ | .numeric .timestamp _ => true
  | .fixed .timezoneOffset | .fixed .timezoneOffsetColon | .fixed .timezoneOffsetZ
  | .fixed .timezoneOffsetColonZ => true
  | _ => false

/-- some field other than the timestamp and the offset is carried -/
def otherFlags (c : Carries) : Bool :=
  c.year || c.yearDiv || c.yearMod || c.isoYear || c.isoYearDiv || c.isoYearMod || c.quarter || c.month ||
  c.day || c.weekSun || c.weekMon || c.isoWeek || c.weekday || c.ordinal || c.hour24 || c.hour12 || c.ampm ||
  c.minute || c.second || c.nano

theorem mono_otherFlags : ∀ cr it, otherFlags cr = true → otherFlags (carriesItem cr it) = true := by
  intro cr it h
  cases it with
  | numeric n p =>
    cases n <;> first | (simp [carriesItem, otherFlags]; done) | simpa [carriesItem, otherFlags] using h
  | fixed f =>
    cases f <;> first | (simp [carriesItem, otherFlags]; done) | simpa [carriesItem, otherFlags] using h
  | _ => simpa [carriesItem, otherFlags] using h

theorem stamp_items_of_stampOnly (is : List Item) (hi : ∀ it ∈ is, invertible it = true)
    (hso : stampOnly (carries is) = true) : ∀ it ∈ is, stampItem it = true := by
  intro it hm
  by_contra hne
  have hset : ∀ cr, otherFlags (carriesItem cr it) = true := by
    intro cr
    have := hi it hm
    cases it with
    | numeric n p => cases n <;> first | (simp [stampItem] at hne; done) | simp [carriesItem, otherFlags]
    | fixed f =>
      cases f <;> first
        | (simp [stampItem] at hne; done)
        | (simp [invertible] at this; done)
        | simp [carriesItem, otherFlags]
    | literal l => simp [stampItem] at hne
    | space s => simp [stampItem] at hne
    | error => simp [invertible] at this
  have := carries_mem otherFlags mono_otherFlags it hset is {} hm
  obtain ⟨k1, k2, k3, k4, k5, k6, k7, k8, k9, k10, k11, k12, k13, k14, k15, k16, k17, k18, k19, k20, _⟩ :=
    stampOnly_flags _ hso
  unfold carries at k1 k2 k3 k4 k5 k6 k7 k8 k9 k10 k11 k12 k13 k14 k15 k16 k17 k18 k19 k20
  simp [otherFlags, k1, k2, k3, k4, k5, k6, k7, k8, k9, k10, k11, k12, k13, k14, k15, k16, k17, k18, k19, k20] at this

theorem mono_offset : ∀ cr it, Carries.offset cr = true → Carries.offset (carriesItem cr it) = true := by
  intro cr it h
  cases it with
  | numeric n p => cases n <;> simp [carriesItem, h]
  | fixed f => cases f <;> simp [carriesItem, h]
  | _ => simp [carriesItem, h]

/-- without the offset flag no item is an offset item -/
theorem no_offset_items (is : List Item) (ho : (carries is).offset = false) :
    ∀ it ∈ is, (carriesItem {} it).offset = false := by
  intro it hm
  by_contra hne
  have hne' : (carriesItem {} it).offset = true := by simpa using hne
  have hset : ∀ cr, Carries.offset (carriesItem cr it) = true := by
    intro cr
    cases it with
    | numeric n p => cases n <;> simp [carriesItem] at hne' ⊢
    | fixed f => cases f <;> simp [carriesItem] at hne' ⊢
    | _ => simp [carriesItem] at hne'
  have := carries_mem Carries.offset mono_offset it hset is {} hm
  unfold carries at ho
  rw [ho] at this
  cases this

/-- what a timestamp-only item that is no offset item prints depends on the context only through
`timestamp() − offset`: two contexts that agree on it print alike -/
theorem format_stamp_item_congr (d d' : Date) (t t' : Time) (off off' : Option (List Nat × Int)) (a a' : Int)
    (hts : NaiveDT.timestamp ⟨d, t⟩ = .ok a) (hts' : NaiveDT.timestamp ⟨d', t'⟩ = .ok a')
    (he : a - (off.map (·.2)).getD 0 = a' - (off'.map (·.2)).getD 0)
    (it : Item) (hs : stampItem it = true) (hno : (carriesItem {} it).offset = false) :
    Format.format_item (some d) (some t) off it = Format.format_item (some d') (some t') off' it := by
  cases it with
  | literal l => rfl
  | space s => rfl
  | error => simp [stampItem] at hs
  | numeric n pad =>
    cases n <;> first
      | (simp [stampItem] at hs; done)
      | simp only [Format.format_item, Format.format_numeric, hts, hts', Format.W.ofRes, he]
  | fixed f =>
    cases f <;> first
      | (simp [stampItem] at hs; done)
      | (simp [carriesItem] at hno; done)

theorem format_stamp_congr (d d' : Date) (t t' : Time) (off off' : Option (List Nat × Int)) (a a' : Int)
    (hts : NaiveDT.timestamp ⟨d, t⟩ = .ok a) (hts' : NaiveDT.timestamp ⟨d', t'⟩ = .ok a')
    (he : a - (off.map (·.2)).getD 0 = a' - (off'.map (·.2)).getD 0) :
    ∀ (is : List Item), (∀ it ∈ is, stampItem it = true) → (∀ it ∈ is, (carriesItem {} it).offset = false) →
      Format.formatItemsR (some d) (some t) off is = Format.formatItemsR (some d') (some t') off' is := by
  intro is
  induction is with
  | nil => intro _ _; rfl
  | cons it is ih =>
    intro hs hn
    simp only [Format.formatItemsR,
      format_stamp_item_congr d d' t t' off off' a a' hts hts' he it (hs it List.mem_cons_self)
        (hn it List.mem_cons_self),
      ih (fun x hx => hs x (List.mem_cons_of_mem _ hx)) (fun x hx => hn x (List.mem_cons_of_mem _ hx))]

end Chrono.Proofs.RoundTrip
