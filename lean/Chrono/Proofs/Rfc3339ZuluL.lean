/-
  C10, audit2 gap L3: the `Z` the writer prints on request for offset zero is the UPPER-CASE `Z` (byte 90).
  `Matches` (and the harness's grammar oracle) accept `z` too, so without this only the byte-for-byte model
  comparison fixed the case.  Namespace `Chrono.Proofs.Rfc3339`.
-/
import Chrono.Proofs.Rfc3339WriteL

namespace Chrono.Proofs.Rfc3339
open Chrono Chrono.M Chrono.M.Format Chrono.M.Rfc3339 Chrono.Spec Chrono.Spec.Rfc3339

theorem getLast_snoc90 (a : List Nat) : (a ++ [90]).getLast? = some 90 := by simp

theorem writer_zulu_upper (z : Zoned) (hz : ZInv z) (hy : WallYear0to9999 (wallSecs z)) (h0 : z.off = 0)
    (sf : SecondsFormat) (t : List Nat) (h : to_rfc3339_opts z sf true = .ok t) :
    t.getLast? = some 90 := by
  obtain ⟨l, h1, h2, h3, h4, _, _⟩ := naive_local_spec z hz
  obtain ⟨he, v1, v2, v3, v4⟩ := ext_eq l.date h2.1
  obtain ⟨t1, t2, t3, t4⟩ := h2.2
  have hsecs := instSecs_ext l h2.1
  rw [h3] at hsecs
  generalize hyv : l.date.year = y at *
  generalize hov : l.date.ordinal.toNat = o at *
  have hyr := wall_year y o ⟨v3, v4⟩ l.time.secs ⟨t1, t2⟩ (hsecs ▸ hy)
  obtain ⟨m1, m2, m3, m4⟩ := month_day_spec y o v3 v4
  obtain ⟨b1, b2, b3, b4⟩ := validYmd_bounds _ _ _ m3
  have hr := hz.2
  unfold OffValid at hr
  have hw := write_rfc3339_eq l.date l.time z.off sf true (monthOfYo y o) (dayOfYo y o) (by rw [hyv]; exact hyr)
    (by rw [he]; exact m1) (by rw [he]; exact m2) (by omega) (by omega) ⟨t1, t2, t3, t4⟩ hr
  have ho : offText true z.off = [90] := by rw [h0]; rfl
  rw [ho] at hw
  unfold to_rfc3339_opts at h
  rw [h1] at h
  change expectText (write_rfc3339 ⟨l.date, l.time⟩ z.off sf true) = _ at h
  rw [hw] at h
  have ht : t = _ := (Res.ok.inj h).symm
  rw [ht]
  simp only [← List.append_assoc, ← List.cons_append]
  exact getLast_snoc90 _

end Chrono.Proofs.Rfc3339
