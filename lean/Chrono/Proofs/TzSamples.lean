/- Concrete files / rules for the kernel-evaluated statements of C16, and their evaluation. -/
import Chrono.Spec.TzSpec

namespace Chrono.Proofs.Tz
open Chrono Chrono.M.Tz Chrono.Spec.Tz

def asc (s : String) : List Nat := s.toList.map Char.toNat

def estEdt : List Nat := asc "EST" ++ [0] ++ asc "EDT" ++ [0]

/-- version 1: two transitions, two types, one leap second, indicators -/
def sampleV1 : TzFile :=
  { version := .V1
    v1 := { trans := [(-1000000000, 1), (1000000000, 0)]
            types := [⟨-18000, false, 0⟩, ⟨-14400, true, 4⟩]
            names := estEdt
            leaps := [(78796800, 1)]
            stdWalls := [1, 0]
            utLocals := [1, 0] }
    v2 := ⟨[], [], [], [], [], []⟩
    footer := [] }

/-- version 2, footer `EST5EDT,M3.2.0,M11.1.0`; the last transition (2023-11-14) is standard time -/
def sampleV2 : TzFile :=
  { version := .V2
    v1 := { trans := [], types := [⟨0, false, 0⟩], names := [0], leaps := [], stdWalls := [], utLocals := [] }
    v2 := { trans := [(1000000000, 1), (1700000000, 0)]
            types := [⟨-18000, false, 0⟩, ⟨-14400, true, 4⟩]
            names := estEdt
            leaps := []
            stdWalls := []
            utLocals := [] }
    footer := asc "EST5EDT,M3.2.0,M11.1.0" }

def sampleRule2 : Rule :=
  .alt ⟨⟨-18000, false, some (asc "EST")⟩, ⟨-14400, true, some (asc "EDT")⟩, .mwd 3 2 0, 7200, .mwd 11 1 0, 7200⟩

/-- version 3, footer with extensions (Greenland: negative rule times); the first transition needs
64 bits, the last one (2023-07-01) is daylight time -/
def sampleV3 : TzFile :=
  { version := .V3
    v1 := { trans := [(0, 0)], types := [⟨-10800, false, 0⟩], names := asc "-03" ++ [0], leaps := [],
            stdWalls := [0], utLocals := [0] }
    v2 := { trans := [(-5000000000, 0), (1688169600, 1)]
            types := [⟨-10800, false, 0⟩, ⟨-7200, true, 4⟩]
            names := asc "-03" ++ [0] ++ asc "-02" ++ [0]
            leaps := []
            stdWalls := [0, 0]
            utLocals := [0, 0] }
    footer := asc "<-03>3<-02>,M3.5.0/-2,M10.5.0/-1" }

def sampleRule3 : Rule :=
  .alt ⟨⟨-10800, false, some (asc "-03")⟩, ⟨-7200, true, some (asc "-02")⟩, .mwd 3 5 0, -7200, .mwd 10 5 0, -3600⟩

/-- the file of finding #10 (DESIGN.md §9): version 2, transitions at `0` and `i64::MAX − 5`, the
second one switching to UTC+2; no footer.  `transition time + offset` exceeds `i64::MAX`. -/
def sampleF10 : TzFile :=
  { version := .V2
    v1 := { trans := [], types := [⟨0, false, 0⟩], names := [0], leaps := [], stdWalls := [], utLocals := [] }
    v2 := { trans := [(0, 0), (9223372036854775802, 1)]
            types := [⟨0, false, 0⟩, ⟨7200, true, 4⟩]
            names := asc "UTC" ++ [0] ++ asc "XDT" ++ [0]
            leaps := []
            stdWalls := []
            utLocals := [] }
    footer := [] }

/-- offset of the footer's first newline in a written v2/v3 file -/
def footerStart (f : TzFile) : Nat := (encodeTzif f).length - (f.footer.length + 2)

theorem tzif_roundtrip_samples :
    parse (encodeTzif sampleV1) = .ok (absBlock sampleV1.v1 none)
      ∧ parse (encodeTzif sampleV2) = .ok (absBlock sampleV2.v2 (some sampleRule2))
      ∧ parse (encodeTzif sampleV3) = .ok (absBlock sampleV3.v2 (some sampleRule3)) := by
  decide +kernel

def allCutsErr (f : TzFile) (skip : Option Nat) : Bool :=
  (List.range (encodeTzif f).length).all fun k =>
    (skip == some k) || (parse ((encodeTzif f).take k) == .err)

theorem cuts_v1 : allCutsErr sampleV1 none = true := by decide +kernel
theorem cuts_v2 : allCutsErr sampleV2 (some (footerStart sampleV2 + 1)) = true := by decide +kernel
theorem cuts_v3 : allCutsErr sampleV3 (some (footerStart sampleV3 + 1)) = true := by decide +kernel

theorem allCutsErr_spec {f : TzFile} {skip : Option Nat} (h : allCutsErr f skip = true) (k : Nat)
    (hk : k < (encodeTzif f).length) (hs : skip ≠ some k) : parse ((encodeTzif f).take k) = .err := by
  unfold allCutsErr at h
  rw [List.all_eq_true] at h
  have := h k (List.mem_range.mpr hk)
  simp only [Bool.or_eq_true, beq_iff_eq] at this
  rcases this with h1 | h1
  · exact absurd h1 hs
  · exact h1

theorem rejects_truncated_samples :
    (∀ k, k < (encodeTzif sampleV1).length → parse ((encodeTzif sampleV1).take k) = .err)
      ∧ (∀ k, k < (encodeTzif sampleV2).length → k ≠ footerStart sampleV2 + 1 →
          parse ((encodeTzif sampleV2).take k) = .err)
      ∧ (∀ k, k < (encodeTzif sampleV3).length → k ≠ footerStart sampleV3 + 1 →
          parse ((encodeTzif sampleV3).take k) = .err) := by
  refine ⟨fun k hk => allCutsErr_spec cuts_v1 k hk (by simp), fun k hk hs => allCutsErr_spec cuts_v2 k hk ?_,
    fun k hk hs => allCutsErr_spec cuts_v3 k hk ?_⟩
  · intro h; apply hs; injection h with h; exact h.symm
  · intro h; apply hs; injection h with h; exact h.symm

def ltt (off : Int) (dst : Bool) (n : String) : Ltt := ⟨off, dst, some (asc n)⟩

/-- (extensions?, rule) -/
def sampleRules : List (Bool × Rule) := [
  (false, .fixed (ltt 0 false "UTC")),
  (false, .fixed (ltt (-36000) false "HST")),
  (true, .fixed (ltt 86399 false "a-b+c12")),
  (false, .fixed (ltt (-86399) false "XYZxyz")),
  (false, .fixed (ltt 19800 false "+0530")),
  (false, .fixed (ltt (-1) false "ABC")),
  (false, sampleRule2),
  (true, sampleRule2),
  (true, sampleRule3),
  (false, .alt ⟨ltt 43200 false "NZST", ltt 46800 true "NZDT", .mwd 9 5 0, 9900, .mwd 4 1 0, 13500⟩),
  (false, .alt ⟨ltt 7200 false "IST", ltt 10800 true "IDT", .julian1 1, 0, .julian1 365, 89999⟩),
  (false, .alt ⟨ltt (-3600) false "AAA", ltt (-3600) true "BBBBBBB", .julian0 0, 1, .julian0 365, 59⟩),
  (true, .alt ⟨ltt 0 false "000", ltt 3600 true "a1+", .mwd 1 1 6, -604799, .mwd 12 5 0, 604799⟩),
  (true, .alt ⟨ltt 86399 false "E+S", ltt (-86399) true "-DS", .julian0 59, -1, .julian1 60, 90000⟩),
  (false, .alt ⟨ltt 3661 false "ABCD", ltt 60 true "EFGHI", .mwd 6 3 3, 3600, .julian0 200, 61⟩)]

theorem tz_roundtrip_samples :
    ∀ p ∈ sampleRules, RuleOk p.1 p.2 ∧ from_tz_string (renderTz p.2) p.1 = .ok p.2 := by
  decide +kernel

/-- (extensions?, text, rule): spellings OTHER than the canonical one — omitted DST offset, omitted
`/time`, `+` signs, zero-padded fields, `hh:mm` / `hh:mm:ss` with zero parts, quoted all-letter names -/
def sampleSpellings : List (Bool × List Nat × Rule) := [
  (false, asc "EST5EDT,M3.2.0,M11.1.0", sampleRule2),
  (true, asc "EST5EDT,M3.2.0,M11.1.0", sampleRule2),
  (false, asc "EST+05:00:00EDT+04,M03.02.00/02:00:00,M11.1.0/2", sampleRule2),
  (false, asc "<EST>5<EDT>,M3.2.0,M11.1.0", sampleRule2),
  (true, asc "<-03>3<-02>,M3.5.0/-2,M10.5.0/-1", sampleRule3),
  (true, asc "<-03>+3<-02>2,M3.5.0/-02:00,M10.5.0/-1:00:00", sampleRule3),
  (false, asc "UTC0", .fixed (ltt 0 false "UTC")),
  (false, asc "UTC-00:00", .fixed (ltt 0 false "UTC")),
  (false, asc "HST10", .fixed (ltt (-36000) false "HST")),
  (false, asc "NZST-12:00:00NZDT-13:00:00,M10.1.0/02:00:00,M3.3.0/02:00:00",
    .alt ⟨ltt 43200 false "NZST", ltt 46800 true "NZDT", .mwd 10 1 0, 7200, .mwd 3 3 0, 7200⟩),
  (false, asc "IST-2IDT,J1/0,365/24:59:59",
    .alt ⟨ltt 7200 false "IST", ltt 10800 true "IDT", .julian1 1, 0, .julian0 365, 89999⟩),
  (true, asc "AAA23:59:59BBB,0/167:59:59,J365/-167:59:59",
    .alt ⟨ltt (-86399) false "AAA", ltt (-82799) true "BBB", .julian0 0, 604799, .julian1 365, -604799⟩),
  (false, asc "AAA-23:59:59", .fixed (ltt 86399 false "AAA")),
  (false, asc "AAA-22:59:59BBB,J1,J365",
    .alt ⟨ltt 82799 false "AAA", ltt 86399 true "BBB", .julian1 1, 7200, .julian1 365, 7200⟩)]

theorem tz_spellings_samples : ∀ p ∈ sampleSpellings, from_tz_string p.2.1 p.1 = .ok p.2.2 := by
  decide +kernel

/-- malformed rule texts (text, extensions?) -/
def badRuleTexts : List (List Nat × Bool) := [
  (asc "", false), (asc "EST", false), (asc "ES5", false), (asc "ABCDEFGH5", false),
  (asc "EST25", false), (asc "EST5:60", false), (asc "EST5:00:60", false), (asc "EST+-5", false),
  (asc "EST99999999999", false), (asc ":EST5", false), (asc "<EST5", false), (asc "<E!T>5", false),
  (asc "EST5EDT", false), (asc "EST5EDT,M3.2.0", false), (asc "EST5EDT25,1,2", false),
  (asc "EST5EDT,M13.2.0,M11.1.0", false), (asc "EST5EDT,M0.2.0,M11.1.0", false),
  (asc "EST5EDT,M3.6.0,M11.1.0", false), (asc "EST5EDT,M3.0.0,M11.1.0", false),
  (asc "EST5EDT,M3.2.7,M11.1.0", false), (asc "EST5EDT,J0,J1", false), (asc "EST5EDT,J366,J1", false),
  (asc "EST5EDT,366,1", false), (asc "EST5EDT,1/25,2", false), (asc "EST5EDT,1/-1,2", false),
  (asc "EST5EDT,1/168,2", true), (asc "EST5EDT,1/1:60,2", true), (asc "EST5EDT,1/1:1:60,2", true),
  (asc "EST5EDT,1,2,", false), (asc "EST5EDT,1,2 ", true), (asc "EST5EDT,65536,2", true),
  (asc "EST5EDT,M256.1.1,2", true), (asc "EST5EDT,J65536,2", true),
  -- F32: a stated or defaulted offset of 24 hours or more (field ranges respected: hh ≤ 24)
  (asc "AAA24", false), (asc "AAA-24", false), (asc "AAA+24:00:00", true), (asc "AAA24:00:01", false),
  (asc "AAA-24:59:59", false), (asc "XXX-24:30", false), (asc "AAA5BBB24,M3.2.0,M11.1.0", false),
  (asc "AAA5BBB-24,M3.2.0,M11.1.0", true), (asc "AAA24BBB5,M3.2.0,M11.1.0", false),
  (asc "AAA-23:00:00BBB,M3.2.0,M11.1.0", false), (asc "AAA-23:59:59BBB,J1,J365", true)]

/-! malformed files, all derived from the accepted `sampleV2` / `sampleV1` / `sampleV3` -/
def withV2 (f : TzFile) (g : Block → Block) : TzFile := { f with v2 := g f.v2 }
def rawFooter (f : TzFile) (foot : List Nat) : List Nat := (encodeTzif f).take (footerStart f) ++ foot
def setCount (bytes : List Nat) (hdr field : Nat) : List Nat :=
  let at_ := hdr + 20 + 4 * field
  bytes.take at_ ++ [255, 255, 255, 255] ++ bytes.drop (at_ + 4)
def hdr2 : Nat := (encHeader .V2 sampleV2.v1 ++ encBody 4 sampleV2.v1).length

def badFiles : List (List Nat) :=
  let b2 := encodeTzif sampleV2
  [ [], asc "TZif", asc "TZif2",
    b2.set 0 116, b2.set 3 70, b2.set 4 1, b2.set 4 49, b2.set 4 52, b2.set 4 0,
    b2.set (hdr2 + 3) 70, b2.set (hdr2 + 4) 52,
    setCount b2 0 0, setCount b2 0 1, setCount b2 0 2, setCount b2 0 3, setCount b2 0 4, setCount b2 0 5,
    setCount b2 hdr2 0, setCount b2 hdr2 1, setCount b2 hdr2 2, setCount b2 hdr2 3, setCount b2 hdr2 4,
    setCount b2 hdr2 5,
    -- unsorted / repeated transitions, indices out of bounds
    encodeTzif (withV2 sampleV2 fun b => { b with trans := [(1700000000, 1), (1000000000, 0)] }),
    encodeTzif (withV2 sampleV2 fun b => { b with trans := [(1700000000, 0), (1700000000, 0)] }),
    encodeTzif (withV2 sampleV2 fun b => { b with trans := [(1000000000, 2), (1700000000, 0)] }),
    encodeTzif (withV2 sampleV2 fun b => { b with types := [⟨-18000, false, 0⟩, ⟨-14400, true, 8⟩] }),
    encodeTzif (withV2 sampleV2 fun b => { b with types := [⟨-18000, false, 0⟩, ⟨-14400, true, 255⟩] }),
    -- DST flag, offset, designations
    (encodeTzif sampleV1).set (44 + 8 + 2 + 4) 2,
    encodeTzif (withV2 sampleV2 fun b => { b with types := [⟨-18000, false, 0⟩, ⟨-2147483648, true, 4⟩] }),
    -- F32: an offset of 24 hours or more in a type record (even one no transition refers to)
    encodeTzif (withV2 sampleV2 fun b => { b with types := [⟨-18000, false, 0⟩, ⟨86400, true, 4⟩] }),
    encodeTzif (withV2 sampleV2 fun b => { b with types := [⟨-18000, false, 0⟩, ⟨-86400, true, 4⟩] }),
    encodeTzif (withV2 sampleV2 fun b => { b with types := [⟨-18000, false, 0⟩, ⟨2147483647, true, 4⟩] }),
    encodeTzif (withV2 sampleV2 fun b => { b with types := [⟨-18000, false, 0⟩, ⟨-14400, true, 4⟩, ⟨90000, false, 0⟩] }),
    encodeTzif { sampleV1 with v1 := { sampleV1.v1 with types := sampleV1.v1.types.map fun t => { t with off := 86400 } } },
    encodeTzif (withV2 sampleV2 fun b => { b with names := asc "E!T" ++ [0] ++ asc "EDT" ++ [0] }),
    encodeTzif (withV2 sampleV2 fun b => { b with names := asc "ES" ++ [0, 0] ++ asc "EDT" ++ [0] }),
    encodeTzif (withV2 sampleV2 fun b => { b with names := asc "ESTTEDTT" }),
    -- indicators: the forbidden couple
    encodeTzif (withV2 sampleV2 fun b => { b with stdWalls := [0, 0], utLocals := [1, 0] }),
    encodeTzif (withV2 sampleV2 fun b => { b with utLocals := [0, 1] }),
    -- leap seconds
    encodeTzif (withV2 sampleV2 fun b => { b with leaps := [(78796800, 2)] }),
    encodeTzif (withV2 sampleV2 fun b => { b with leaps := [(-1, 1)] }),
    encodeTzif (withV2 sampleV2 fun b => { b with leaps := [(78796800, 1), (78796801, 2)] }),
    -- footer framing and content
    rawFooter sampleV2 [], rawFooter sampleV2 (sampleV2.footer ++ [10]),
    rawFooter sampleV2 ([10] ++ sampleV2.footer), rawFooter sampleV2 ([10, 58] ++ sampleV2.footer ++ [10]),
    rawFooter sampleV2 ([10] ++ sampleV2.footer ++ [0, 10]), rawFooter sampleV2 ([10, 195] ++ sampleV2.footer ++ [10]),
    rawFooter sampleV2 ([10, 11] ++ sampleV2.footer ++ [10]), rawFooter sampleV2 ([32, 10] ++ sampleV2.footer ++ [10]),
    rawFooter sampleV2 (asc "\nEST5EDT\n"), rawFooter sampleV2 (asc "\nnot a rule\n"),
    -- the rule contradicts the last transition; extensions in a version-2 file; trailing data (v1)
    encodeTzif (withV2 sampleV2 fun b => { b with trans := [(1000000000, 1), (1700000000, 1)] }),
    encodeTzif { sampleV3 with version := .V2 },
    encodeTzif sampleV1 ++ [0] ]

end Chrono.Proofs.Tz
