/-
  Lemmas for C12, documentation side (Spec/StrftimeDocSpec.lean): one formatting item on a value that
  has some of the three views; the name of a fixed offset; lists of items.
-/
import Chrono.Proofs.FormatL
import Chrono.Proofs.FormatIsoL
import Chrono.Proofs.FormatRfcL
import Chrono.Spec.StrftimeDocSpec
namespace Chrono.Proofs.StrftimeDoc
open Chrono Chrono.M Chrono.M.Format Chrono.M.Strftime Chrono.Spec Chrono.Spec.Strftime Chrono.Spec.StrftimeDoc
open Chrono.Extracted Chrono.Proofs

/-- the views handed to the formatter -/
def dOf (hv : Views) (y : Int) (o : Nat) : Option Date := if hv.date then some (dateOfYo y o) else none
def tOf (hv : Views) (t : Time) : Option Time := if hv.time then some t else none
def oOf (hv : Views) (off : Int) : Option (List Nat × Int) := if hv.off then some (fixedOffsetName off, off) else none

def toW (r : Option (List Nat)) : W := match r with | some x => wok x | none => werr

/-- `FixedOffset`'s `Display` is `%:z`, or `%::z` when the offset has seconds -/
theorem zone_name_eq (off : Int) (h : -86400 < off ∧ off < 86400) : fixedOffsetName off = zoneText off := by
  unfold fixedOffsetName zoneText renderOffset two
  simp only [FormatL.number_eq]
  have habs : (if off < 0 then -off else off) = (off.natAbs : Int) := by split <;> omega
  rw [habs]
  have ha0 : (0 : Int) ≤ off.natAbs := by omega
  have ha1 : (off.natAbs : Int) < 86400 := by omega
  have hm : (off % 60 = 0) ↔ ((off.natAbs : Int) % 60 = 0) := by omega
  generalize (off.natAbs : Int) = a at *
  by_cases h0 : a % 60 = 0
  · rw [if_pos h0, if_pos (hm.mpr h0)]
    have e1 : (a + 30) / 60 = a / 60 := by omega
    simp only [e1, List.cons_append, List.nil_append, List.append_assoc]
  · rw [if_neg h0, if_neg (fun h => h0 (hm.mp h))]
    simp only [FormatL.div60_60, List.cons_append, List.nil_append, List.append_assoc]

theorem single (d : Option Date) (t : Option Time) (off : Option (List Nat × Int)) (it : Item) :
    formatItemsR d t off [it] = format_item d t off it := by
  simp only [formatItemsR, FormatRfc.seq_nil]

/-! ### one item on a value with the views `hv` -/

theorem numeric_on (y : Int) (o : Nat) (hy : MIN_YEAR ≤ y ∧ y ≤ MAX_YEAR) (ho : 1 ≤ o ∧ o ≤ yearLen y)
    (t : Time) (ht : TValid t) (off : Int) (hoff : -86400 < off ∧ off < 86400) (hv : Views) (n : Numeric) (pad : Pad) :
    format_item (dOf hv y o) (tOf hv t) (oOf hv off) (.numeric n pad) =
      toW (renderItemOn hv (.numeric n pad) y o t off) := by
  obtain ⟨D, T, O⟩ := hv
  have hO : ((oOf ⟨D, T, O⟩ off).map (·.2)) = (if O then some off else none) := by cases O <;> rfl
  have hOg : ((if O then some off else none : Option Int).getD 0) = (if O then off else 0) := by cases O <;> rfl
  have hoff' : ∀ v, (if O then some off else none : Option Int) = some v → -86400 < v ∧ v < 86400 := by
    intro v hv; cases O
    · cases hv
    · injection hv with hv; subst hv; exact hoff
  simp only [format_item, hO]
  cases n
  case timestamp =>
    cases D <;> cases T
    · cases O <;> rfl
    · cases O <;> rfl
    · cases O <;> rfl
    · have := FormatL.numeric_timestamp y o hy ho t ht _ hoff' pad
      simp only [dOf, tOf, if_true]
      rw [this, hOg]; cases O <;> rfl
  case hour | hour12 | minute | second | nanosecond =>
    cases T
    · cases D <;> cases O <;> rfl
    · simp only [tOf, if_true]
      rw [FormatL.numeric_clock t ht _ _ y o (if O then off else 0) pad _ (by decide)]
      cases D <;> cases O <;> rfl
  case weekFromSun | weekFromMon =>
    cases D
    · cases T <;> cases O <;> rfl
    · simp only [dOf, if_true]
      rw [FormatL.numeric_weeks y o hy ho _ _ t (if O then off else 0) pad _ (by decide)]
      cases T <;> cases O <;> rfl
  case isoYear | isoYearDiv100 | isoYearMod100 | isoWeek =>
    cases D
    · cases T <;> cases O <;> rfl
    · simp only [dOf, if_true]
      rw [FormatIsoL.numeric_iso y o hy ho _ _ t (if O then off else 0) pad _ (by decide)]
      cases T <;> cases O <;> rfl
  all_goals
    cases D
    · cases T <;> cases O <;> rfl
    · simp only [dOf, if_true]
      rw [FormatL.numeric_calendar y o hy ho _ _ t (if O then off else 0) pad _ (by decide)]
      cases T <;> cases O <;> rfl

theorem of_some_map {a : W} {r : Option (List Nat)} (h : some a = r.map wok) : r.isSome → a = toW r := by
  intro hs
  cases r with
  | none => cases hs
  | some x => simp only [Option.map_some, Option.some.injEq] at h; exact h

/-- `%+` as text -/
theorem rfc3339_text (y : Int) (o : Nat) (hy : MIN_YEAR ≤ y ∧ y ≤ MAX_YEAR) (ho : 1 ≤ o ∧ o ≤ yearLen y)
    (t : Time) (ht : TValid t) (name : List Nat) (off : Int) (hoff : -86400 < off ∧ off < 86400) :
    format_fixed (some (dateOfYo y o)) (some t) (some (name, off)) .rfc3339 = wok (rfc3339Text y o t off) := by
  obtain ⟨_, _, _, hm, hd, hv, _, _, _⟩ := Props.C01.accessors_ok y o hy ho
  have hb := Proofs.valid_bounds y _ _ hv
  have h := FormatRfc.rfc3339_expansion (dateOfYo y o) t name off _ _ hm hd (by omega) (by omega) ht
  rw [single] at h
  simp only [format_item] at h
  rw [h]
  simp only [FormatRfc.rfc3339Expansion, formatItemsR, format_item, FormatRfc.seq_nil]
  rw [FormatL.numeric_calendar y o hy ho _ _ t off .zero .year (by decide),
    FormatL.numeric_calendar y o hy ho _ _ t off .zero .month (by decide),
    FormatL.numeric_calendar y o hy ho _ _ t off .zero .day (by decide),
    FormatL.numeric_clock t ht _ _ y o off .zero .hour (by decide),
    FormatL.numeric_clock t ht _ _ y o off .zero .minute (by decide),
    FormatL.numeric_clock t ht _ _ y o off .zero .second (by decide),
    of_some_map (FormatL.fixed_clock t ht _ _ y o off .nanosecond (by decide)) rfl,
    of_some_map (FormatL.offset_ok off hoff _ _ name y o t .timezoneOffsetColon (by decide)) rfl]
  simp only [renderFixed, toW, W.seq, wok, rfc3339Text, List.append_assoc]

theorem fixed_on (y : Int) (o : Nat) (hy : MIN_YEAR ≤ y ∧ y ≤ MAX_YEAR) (ho : 1 ≤ o ∧ o ≤ yearLen y)
    (t : Time) (ht : TValid t) (off : Int) (hoff : -86400 < off ∧ off < 86400) (hv : Views) (f : Fixed)
    (hf : f ≠ .rfc2822) :
    format_item (dOf hv y o) (tOf hv t) (oOf hv off) (.fixed f) =
      toW (renderItemOn hv (.fixed f) y o t off) := by
  obtain ⟨D, T, O⟩ := hv
  simp only [format_item]
  cases f
  case rfc2822 => exact absurd rfl hf
  case rfc3339 =>
    cases D <;> cases T <;> cases O <;> try rfl
    simp only [dOf, tOf, oOf, if_true]
    rw [rfc3339_text y o hy ho t ht _ off hoff]; rfl
  case timezoneOffsetPermissive => cases D <;> cases T <;> cases O <;> rfl
  case timezoneName =>
    cases O
    · cases D <;> cases T <;> rfl
    · simp only [oOf, if_true]
      rw [show format_fixed _ _ (some (fixedOffsetName off, off)) .timezoneName = wok (fixedOffsetName off) from (by cases D <;> cases T <;> rfl), zone_name_eq off hoff]
      cases D <;> cases T <;> rfl
  case shortMonthName | longMonthName | shortWeekdayName | longWeekdayName =>
    cases D
    · cases T <;> cases O <;> rfl
    · simp only [dOf, if_true]
      rw [of_some_map (FormatL.fixed_names y o hy ho _ _ t (if O then off else 0) _ (by decide)) rfl]
      cases T <;> cases O <;> rfl
  case timezoneOffset | timezoneOffsetColon | timezoneOffsetDoubleColon | timezoneOffsetTripleColon
      | timezoneOffsetZ | timezoneOffsetColonZ =>
    cases O
    · cases D <;> cases T <;> rfl
    · simp only [oOf, if_true]
      rw [of_some_map (FormatL.offset_ok off hoff _ _ _ y o t _ (by decide)) rfl]
      cases D <;> cases T <;> rfl
  all_goals
    cases T
    · cases D <;> cases O <;> rfl
    · simp only [tOf, if_true]
      rw [of_some_map (FormatL.fixed_clock t ht _ _ y o (if O then off else 0) _ (by decide)) rfl]
      cases D <;> cases O <;> rfl

/-- every item except the RFC 2822 one (which no specifier produces) -/
theorem item_on (y : Int) (o : Nat) (hy : MIN_YEAR ≤ y ∧ y ≤ MAX_YEAR) (ho : 1 ≤ o ∧ o ≤ yearLen y)
    (t : Time) (ht : TValid t) (off : Int) (hoff : -86400 < off ∧ off < 86400) (hv : Views) (it : Item)
    (hf : it ≠ .fixed .rfc2822) :
    format_item (dOf hv y o) (tOf hv t) (oOf hv off) it = toW (renderItemOn hv it y o t off) := by
  cases it with
  | literal s => obtain ⟨D, T, O⟩ := hv; cases D <;> cases T <;> cases O <;> rfl
  | space s => obtain ⟨D, T, O⟩ := hv; cases D <;> cases T <;> cases O <;> rfl
  | error => obtain ⟨D, T, O⟩ := hv; cases D <;> cases T <;> cases O <;> rfl
  | numeric n p => exact numeric_on y o hy ho t ht off hoff hv n p
  | fixed f => exact fixed_on y o hy ho t ht off hoff hv f (fun h => hf (by rw [h]))

/-- a whole item list: the concatenation of the item texts, or failure -/
theorem items_on (y : Int) (o : Nat) (hy : MIN_YEAR ≤ y ∧ y ≤ MAX_YEAR) (ho : 1 ≤ o ∧ o ≤ yearLen y)
    (t : Time) (ht : TValid t) (off : Int) (hoff : -86400 < off ∧ off < 86400) (hv : Views) (is : List Item)
    (hf : Item.fixed .rfc2822 ∉ is) :
    formatItemsR (dOf hv y o) (tOf hv t) (oOf hv off) is = toW (renderItemsOn hv is y o t off) := by
  induction is with
  | nil => rfl
  | cons it rest ih =>
    rw [formatItemsR, item_on y o hy ho t ht off hoff hv it (fun h => hf (by simp [h])),
      ih (fun h => hf (List.mem_cons_of_mem _ h)), renderItemsOn]
    cases renderItemOn hv it y o t off <;> cases renderItemsOn hv rest y o t off <;> rfl

theorem renderItemOn_full (it : Item) (y : Int) (o : Nat) (t : Time) (off : Int) :
    renderItemOn ⟨true, true, true⟩ it y o t off = renderItem it y o t off := by
  unfold renderItemOn
  have : (viewsOf it).le ⟨true, true, true⟩ = true := by unfold Views.le; simp
  rw [this]; rfl

theorem toW_elim (r : Option (List Nat)) : toW r = r.elim werr wok := by cases r <;> rfl

end Chrono.Proofs.StrftimeDoc
