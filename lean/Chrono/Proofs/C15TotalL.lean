/-
  C15: totality ("returns normally, fails by value, builds only valid values") of the text entry
  points, assembled from `Proofs/ParseInTypeL.lean` (every record the parser can build is in type) and
  C14's resolver theorems.  Namespace `Chrono.Proofs.C15Total`.
-/
import Chrono.Proofs.ParseInTypeL
import Chrono.Props.C14
import Chrono.Model.ParseFrom
import Chrono.Model.TextForms
import Chrono.Model.Rfc2822
import Chrono.Model.Rfc3339
import Chrono.Model.SerdeStr

namespace Chrono.Proofs.C15Total
open Chrono Chrono.M Chrono.M.Scan Chrono.M.Parse Chrono.Spec Chrono.Spec.Fields Chrono.Proofs
open Chrono.Proofs.ParsedRes Chrono.Proofs.ParseInType Chrono.Proofs.Ts

/-- a value of one of the four target types satisfies its representation invariant -/
def ValueValid : ParseFrom.Value → Prop
  | .date d => DateInv d
  | .time t => TValid t
  | .naive dt => NDTInv dt
  | .zoned z => ZInv z

/-! ### the resolvers on an in-type record: a valid value or an error kind, never a panic -/

theorem date_total (p : Parsed) (hp : InType p) :
    ∃ r, Parsed.to_naive_date p = .ok r ∧ ∀ d, r = .ok d → DateInv d := by
  obtain ⟨r, hr, hok, _⟩ := date_main p hp
  refine ⟨r, hr, fun d hd => ?_⟩
  obtain ⟨Y, o, ⟨v1, v2, v3, v4⟩, he, _⟩ := hok d hd
  rw [he]; exact (dateInv_of_yo Y o ⟨v1, v2⟩ ⟨v3, v4⟩).1

theorem naive_total (p : Parsed) (hp : InType p) (off : Int) (hoff : -2147483648 ≤ off ∧ off ≤ 2147483647) :
    ∃ r, Parsed.to_naive_datetime_with_offset p off = .ok r ∧ ∀ dt, r = .ok dt → NDTInv dt := by
  obtain ⟨r, hr, _, hok⟩ := dt_main' p hp off hoff
  exact ⟨r, hr, fun dt hd => naiveOk_inv p dt off (hok dt hd)⟩

theorem zoned_total (p : Parsed) (hp : InType p) :
    ∃ r, Parsed.to_datetime p = .ok r ∧ ∀ z, r = .ok z → ZInv z := by
  obtain ⟨r, hr, _, _, hok⟩ := to_datetime_spec p hp
  exact ⟨r, hr, fun z hz => (hok z hz).2.2.1⟩

theorem zoned_tz_total (p : Parsed) (hp : InType p) (zone : Int) (hz : OffValid zone) :
    ∃ r, Parsed.to_datetime_with_timezone p zone = .ok r ∧ ∀ z, r = .ok z → ZInv z := by
  obtain ⟨r, hr, _, hok⟩ := to_datetime_tz_spec p hp zone hz
  exact ⟨r, hr, fun z hz => (hok z hz).2.1⟩

theorem resolve_total (t : ParseFrom.Target) (p : Parsed) (hp : InType p) :
    ∃ r, ParseFrom.resolve t p = .ok r ∧ ∀ v, r = .ok v → ValueValid v ∧ v.target = t := by
  cases t
  · obtain ⟨r, hr, hv⟩ := date_total p hp
    unfold ParseFrom.resolve; simp only [hr, Parsed.RP.bind]
    cases r with
    | error e => exact ⟨_, rfl, fun v h => by cases h⟩
    | ok d => exact ⟨_, rfl, fun v h => by injection h with h; subst h; exact ⟨hv d rfl, rfl⟩⟩
  · unfold ParseFrom.resolve; simp only [Parsed.RP.bind]
    cases ht : Parsed.to_naive_time p with
    | error e => exact ⟨_, rfl, fun v h => by cases h⟩
    | ok x =>
      exact ⟨_, rfl, fun v h => by injection h with h; subst h; exact ⟨(time_sound' p x ht).1.1, rfl⟩⟩
  · obtain ⟨r, hr, hv⟩ := naive_total p hp 0 (by omega)
    unfold ParseFrom.resolve; simp only [hr, Parsed.RP.bind]
    cases r with
    | error e => exact ⟨_, rfl, fun v h => by cases h⟩
    | ok d => exact ⟨_, rfl, fun v h => by injection h with h; subst h; exact ⟨hv d rfl, rfl⟩⟩
  · obtain ⟨r, hr, hv⟩ := zoned_total p hp
    unfold ParseFrom.resolve; simp only [hr, Parsed.RP.bind]
    cases r with
    | error e => exact ⟨_, rfl, fun v h => by cases h⟩
    | ok d => exact ⟨_, rfl, fun v h => by injection h with h; subst h; exact ⟨hv d rfl, rfl⟩⟩

/-! ### `parse_from_str` / `parse_and_remainder`: arbitrary text × arbitrary format string -/

theorem fields_inType (s fmt : List Nat) (p : Parsed) (h : ParseFrom.fields s fmt = .ok p) : InType p :=
  parse_inType _ _ _ _ inType_new h

theorem fieldsRem_inType (s fmt : List Nat) (p : Parsed) (rest : List Nat)
    (h : ParseFrom.fieldsRem s fmt = .ok (p, rest)) : InType p :=
  parse_internal_inType _ _ _ _ _ inType_new h

theorem parse_from_str_total (t : ParseFrom.Target) (s fmt : List Nat) :
    ∃ r, ParseFrom.parse_from_str t s fmt = .ok r ∧ ∀ v, r = .ok v → ValueValid v ∧ v.target = t := by
  unfold ParseFrom.parse_from_str
  cases hf : ParseFrom.fields s fmt with
  | error e => exact ⟨_, rfl, fun v h => by cases h⟩
  | ok p => exact resolve_total t p (fields_inType s fmt p hf)

theorem parse_and_remainder_total (t : ParseFrom.Target) (s fmt : List Nat) :
    ∃ r, ParseFrom.parse_and_remainder t s fmt = .ok r ∧
      ∀ v rest, r = .ok (v, rest) → ValueValid v ∧ v.target = t := by
  unfold ParseFrom.parse_and_remainder
  cases hf : ParseFrom.fieldsRem s fmt with
  | error e => exact ⟨_, rfl, fun v rest h => by cases h⟩
  | ok pr =>
    obtain ⟨p, rest⟩ := pr
    obtain ⟨r, hr, hv⟩ := resolve_total t p (fieldsRem_inType s fmt p rest hf)
    simp only [hr, Parsed.RP.bind]
    cases r with
    | error e => exact ⟨_, rfl, fun v rest h => by cases h⟩
    | ok v =>
      exact ⟨_, rfl, fun v' rest' h => by
        injection h with h; injection h with h1 _; subst h1; exact hv v rfl⟩

/-! ### the RFC 2822 / RFC 3339 readers and the `FromStr` impls -/

theorem rfc2822_total (s : List Nat) :
    ∃ r, Rfc2822.parse_from_rfc2822 s = .ok r ∧ ∀ z, r = .ok z → ZInv z := by
  unfold Rfc2822.parse_from_rfc2822
  cases hp : Parse.parse Parsed.new s Rfc2822.ITEMS with
  | error e => exact ⟨_, rfl, fun z h => by cases h⟩
  | ok p => exact zoned_total p (parse_inType _ _ _ _ inType_new hp)

theorem rfc3339_total (s : List Nat) :
    ∃ r, Rfc3339.parse_from_rfc3339 s = .ok r ∧ ∀ z, r = .ok z → ZInv z := by
  unfold Rfc3339.parse_from_rfc3339
  cases hp : Parse.parse_rfc3339 Parsed.new s with
  | error e => exact ⟨_, rfl, fun z h => by cases h⟩
  | ok pr =>
    obtain ⟨p, rest⟩ := pr
    cases rest with
    | nil => exact zoned_total p (strict_inType _ _ _ _ inType_new hp)
    | cons _ _ => exact ⟨_, rfl, fun z h => by cases h⟩

theorem date_from_str_total (s : List Nat) :
    ∃ r, TextForms.date_from_str s = .ok r ∧ ∀ d, r = .ok d → DateInv d := by
  unfold TextForms.date_from_str
  cases hp : Parse.parse Parsed.new s TextForms.DATE_ITEMS with
  | error e => exact ⟨_, rfl, fun z h => by cases h⟩
  | ok p => exact date_total p (parse_inType _ _ _ _ inType_new hp)

theorem naive_from_str_total (s : List Nat) :
    ∃ r, TextForms.naive_from_str s = .ok r ∧ ∀ d, r = .ok d → NDTInv d := by
  unfold TextForms.naive_from_str
  cases hp : Parse.parse Parsed.new s TextForms.DATETIME_ITEMS with
  | error e => exact ⟨_, rfl, fun z h => by cases h⟩
  | ok p => exact naive_total p (parse_inType _ _ _ _ inType_new hp) 0 (by omega)

theorem fixed_from_str_total (s : List Nat) :
    ∃ r, TextForms.fixed_from_str s = .ok r ∧ ∀ z, r = .ok z → ZInv z := by
  unfold TextForms.fixed_from_str
  cases hp : Parse.parse_rfc3339_relaxed Parsed.new s with
  | error e => exact ⟨_, rfl, fun z h => by cases h⟩
  | ok pr =>
    obtain ⟨p, rest⟩ := pr
    simp only
    split
    · exact ⟨_, rfl, fun z h => by cases h⟩
    · exact zoned_total p (relaxed_inType _ _ _ _ inType_new hp)

theorem time_from_str_valid (s : List Nat) (t : Time) (h : TextForms.time_from_str s = .ok t) : TValid t := by
  unfold TextForms.time_from_str at h
  split at h
  · cases h
  · simp only at h
    repeat' split at h
    all_goals first | exact (time_sound' _ t h).1.1 | cases h

theorem offset_from_str_valid (s : List Nat) (o : Int) (h : TextForms.offset_from_str s = .ok o) : OffValid o := by
  unfold TextForms.offset_from_str at h
  split at h
  · cases h
  · rename_i off _
    unfold Zoned.east_opt at h
    split at h
    · rename_i o' ho
      injection h with h; subst h
      split at ho
      · rename_i hc; injection ho with ho; subst ho; exact hc
      · cases ho
    · cases h

end Chrono.Proofs.C15Total
