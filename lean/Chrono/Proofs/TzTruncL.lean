/- Helper lemmas for C16, part 4: proper prefixes of an accepted TZif file are rejected. -/
import Chrono.Proofs.TzParseL

namespace Chrono.Proofs.Tz
open Chrono Chrono.M.Tz Chrono.Spec.Tz Chrono.Extracted.TzP

/-! ### reading from a longer input: same value, the extra bytes stay in the remainder -/
/-- `r'` is what `r` becomes when `q` is appended to the input -/
def Rel {α} (q : List Nat) (r r' : P (α × Cursor)) : Prop :=
  ∀ a c', r = .ok (a, c') → r' = .ok (a, c' ++ q)

theorem rel_bind {α β} {q : List Nat} {r r' : P (α × Cursor)} {g : α × Cursor → P (β × Cursor)}
    (h1 : Rel q r r') (h2 : ∀ a c1, Rel q (g (a, c1)) (g (a, c1 ++ q))) :
    Rel q (r >>= g) (r' >>= g) := by
  intro b c' e
  cases r with
  | ok x =>
    obtain ⟨a, c1⟩ := x
    rw [h1 a c1 rfl]
    exact h2 a c1 b c' e
  | err => cases e
  | panic => cases e

theorem rel_bind_pure {α β} {q : List Nat} {r : P α} {g g' : α → P (β × Cursor)}
    (h2 : ∀ a, Rel q (g a) (g' a)) : Rel q (r >>= g) (r >>= g') := by
  intro b c' e
  cases r with
  | ok a => exact h2 a b c' e
  | err => cases e
  | panic => cases e

theorem rel_err {α} {q : List Nat} {r' : P (α × Cursor)} : Rel q (.err : P (α × Cursor)) r' := by
  intro a c e; cases e

theorem rel_ok {α} {q : List Nat} (a : α) (c : Cursor) : Rel q (.ok (a, c)) (.ok (a, c ++ q)) := by
  intro a' c' e; cases e; rfl

theorem rel_read_exact (q c : List Nat) (n : Nat) : Rel q (read_exact c n) (read_exact (c ++ q) n) := by
  intro a c' e
  unfold read_exact at e ⊢
  split at e
  · rename_i h
    cases e
    rw [if_pos (by simp; omega)]
    rw [List.take_append_of_le_length h, List.drop_append_of_le_length h]
  · cases e

theorem rel_read_be_u32 (q c : List Nat) : Rel q (read_be_u32 c) (read_be_u32 (c ++ q)) := by
  intro a c' e
  unfold read_be_u32 at e ⊢
  cases h : read_exact c 4 with
  | ok x =>
    obtain ⟨bs, c1⟩ := x
    rw [h] at e
    rw [rel_read_exact q c 4 bs c1 h]
    simp only at e ⊢
    cases e; rfl
  | err => rw [h] at e; cases e
  | panic => rw [h] at e; cases e

theorem rel_header_new (q c : List Nat) : Rel q (Header.new c) (Header.new (c ++ q)) := by
  unfold Header.new
  refine rel_bind (rel_read_exact q c 4) ?_
  intro magic c1
  dsimp only
  split
  · exact rel_err
  · refine rel_bind (rel_read_exact q c1 1) ?_
    intro vb c2
    dsimp only
    split
    · exact rel_err
    · refine rel_bind (rel_read_exact q c2 _) ?_
      intro _ c3
      refine rel_bind (rel_read_be_u32 q c3) ?_
      intro n1 c4
      refine rel_bind (rel_read_be_u32 q c4) ?_
      intro n2 c5
      refine rel_bind (rel_read_be_u32 q c5) ?_
      intro n3 c6
      refine rel_bind (rel_read_be_u32 q c6) ?_
      intro n4 c7
      refine rel_bind (rel_read_be_u32 q c7) ?_
      intro n5 c8
      refine rel_bind (rel_read_be_u32 q c8) ?_
      intro n6 c9
      dsimp only
      split
      · exact rel_err
      · exact rel_ok _ _

theorem rel_state_new (q c : List Nat) (first : Bool) :
    Rel q (State.new c first) (State.new (c ++ q) first) := by
  unfold State.new
  refine rel_bind (rel_header_new q c) ?_
  intro hd c0
  dsimp only
  refine rel_bind_pure ?_
  intro n1
  refine rel_bind (rel_read_exact q c0 _) ?_
  intro tt c1
  refine rel_bind (rel_read_exact q c1 _) ?_
  intro ty c2
  dsimp only
  refine rel_bind_pure ?_
  intro n3
  refine rel_bind (rel_read_exact q c2 _) ?_
  intro lt c3
  refine rel_bind (rel_read_exact q c3 _) ?_
  intro nm c4
  dsimp only
  refine rel_bind_pure ?_
  intro n5
  refine rel_bind (rel_read_exact q c4 _) ?_
  intro ls c5
  refine rel_bind (rel_read_exact q c5 _) ?_
  intro sw c6
  refine rel_bind (rel_read_exact q c6 _) ?_
  intro ul c7
  exact rel_ok _ _

/-! ### proper prefixes -/
theorem bind_eq_ok {α β} {r : P α} {g : α → P β} {z : β} (h : (r >>= g) = .ok z) :
    ∃ a, r = .ok a ∧ g a = .ok z := by
  cases r with
  | ok a => exact ⟨a, rfl, h⟩
  | err => cases h
  | panic => cases h

theorem ite_err_ok {α} {c : Prop} [Decidable c] {a b : α}
    (h : (if c then (.err : P α) else .ok a) = .ok b) : ¬ c ∧ a = b := by
  split at h
  · cases h
  · rename_i hc
    simp only [P.ok.injEq] at h
    exact ⟨hc, h⟩

theorem err_of_not_ok {bytes : List Nat} (h : ∀ z, parse bytes ≠ .ok z) : parse bytes = .err := by
  have np := post_np (post_parse bytes)
  cases hp : parse bytes with
  | ok z => exact absurd hp (h z)
  | err => rfl
  | panic => exact absurd hp np

theorem parseRest_ok_footer {st : State} {f : List Nat} {z : Zone} (h : parseRest st (some f) = .ok z) :
    ∃ r, parseFooter f st.header.version = .ok r := by
  unfold parseRest at h
  obtain ⟨tr, _, h⟩ := bind_eq_ok h
  obtain ⟨ty, _, h⟩ := bind_eq_ok h
  obtain ⟨lp, _, h⟩ := bind_eq_ok h
  split at h
  · cases h
  · obtain ⟨r, hr, _⟩ := bind_eq_ok h
    exact ⟨r, hr⟩

/-- cutting an accepted file: the prefix is rejected, or the cut lies in the footer (both data
blocks are sliced identically and the prefix's footer is the corresponding prefix of the footer) -/
theorem trunc_cases (p q : List Nat) (z : Zone) (hq : q ≠ []) (h : parse (p ++ q) = .ok z) :
    parse p = .err ∨ ∃ st c2, parseBlocks p = .ok (st, some c2)
      ∧ parseBlocks (p ++ q) = .ok (st, some (c2 ++ q)) := by
  have np := post_np (post_parse p)
  cases hS : State.new p true with
  | err => left; simp [parse, parseBlocks, hS]
  | panic => exact absurd (by simp [parse, parseBlocks, hS]) np
  | ok x =>
    obtain ⟨st1, c1⟩ := x
    have hfull := rel_state_new q p true st1 c1 hS
    cases hv : st1.header.version with
    | V1 =>
      exfalso
      simp [parse, parseBlocks, hfull, hv, hq] at h
    | V2 =>
      cases hS2 : State.new c1 false with
      | err => left; simp [parse, parseBlocks, hS, hv, hS2]
      | panic => exact absurd (by simp [parse, parseBlocks, hS, hv, hS2]) np
      | ok y =>
        obtain ⟨st2, c2⟩ := y
        have hfull2 := rel_state_new q c1 false st2 c2 hS2
        by_cases hne : st2.header.version = .V2
        · right
          exact ⟨st2, c2, by simp [parseBlocks, hS, hv, hS2, hne], by simp [parseBlocks, hfull, hv, hfull2, hne]⟩
        · left; simp [parse, parseBlocks, hS, hv, hS2, hne]
    | V3 =>
      cases hS2 : State.new c1 false with
      | err => left; simp [parse, parseBlocks, hS, hv, hS2]
      | panic => exact absurd (by simp [parse, parseBlocks, hS, hv, hS2]) np
      | ok y =>
        obtain ⟨st2, c2⟩ := y
        have hfull2 := rel_state_new q c1 false st2 c2 hS2
        by_cases hne : st2.header.version = .V3
        · right
          exact ⟨st2, c2, by simp [parseBlocks, hS, hv, hS2, hne], by simp [parseBlocks, hfull, hv, hfull2, hne]⟩
        · left; simp [parse, parseBlocks, hS, hv, hS2, hne]

theorem parse_of_blocks {bytes : List Nat} {st : State} {fo : Option (List Nat)}
    (h : parseBlocks bytes = .ok (st, fo)) : parse bytes = parseRest st fo := by
  simp [parse, h]

/-- a cut in the header or in a data block (up to and including the exact end of the last block) -/
theorem rejects_truncated_blocks' (bytes : List Nat) (z : Zone) (h : parse bytes = .ok z) (k : Nat)
    (hk : k < bytes.length) (hcut : k + (footerOf bytes).length ≤ bytes.length) :
    parse (bytes.take k) = .err := by
  have hsplit : bytes.take k ++ bytes.drop k = bytes := List.take_append_drop k bytes
  have hq : bytes.drop k ≠ [] := by
    intro e
    have := congrArg List.length e
    simp at this; omega
  rw [← hsplit] at h
  rcases trunc_cases _ _ z hq h with h1 | ⟨st, c2, hp, hfull⟩
  · exact h1
  · apply err_of_not_ok
    intro z' hz'
    rw [parse_of_blocks hp] at hz'
    obtain ⟨r, hr⟩ := parseRest_ok_footer hz'
    have hfo : footerOf bytes = c2 ++ bytes.drop k := by
      rw [hsplit] at hfull
      unfold footerOf; rw [hfull]
    have hlen : c2.length = 0 := by
      rw [hfo] at hcut
      simp at hcut; omega
    have : c2 = [] := List.eq_nil_of_length_eq_zero hlen
    subst this
    rw [footer_framing' [] _ (by simp)] at hr
    cases hr

/-- a cut inside the footer, other than right after its first newline, when the footer has no
newline between its first and last byte -/
theorem rejects_truncated_footer' (bytes : List Nat) (z : Zone) (h : parse bytes = .ok z) (k : Nat)
    (hk : k < bytes.length) (hin : bytes.length < k + (footerOf bytes).length)
    (hne : k + (footerOf bytes).length ≠ bytes.length + 1)
    (hnl : ∀ j, 0 < j → j + 1 < (footerOf bytes).length → (footerOf bytes)[j]? ≠ some 10) :
    parse (bytes.take k) = .err := by
  have hsplit : bytes.take k ++ bytes.drop k = bytes := List.take_append_drop k bytes
  have hql : (bytes.drop k).length = bytes.length - k := by simp
  have hq : bytes.drop k ≠ [] := by
    intro e
    have := congrArg List.length e
    simp at this; omega
  rw [← hsplit] at h
  rcases trunc_cases _ _ z hq h with h1 | ⟨st, c2, hp, hfull⟩
  · exact h1
  · apply err_of_not_ok
    intro z' hz'
    rw [parse_of_blocks hp] at hz'
    obtain ⟨r, hr⟩ := parseRest_ok_footer hz'
    have hfo : footerOf bytes = c2 ++ bytes.drop k := by
      rw [hsplit] at hfull
      unfold footerOf; rw [hfull]
    have hfl : (footerOf bytes).length = c2.length + (bytes.length - k) := by
      rw [hfo, List.length_append, hql]
    have hc2 : 2 ≤ c2.length := by omega
    have hlast : c2.getLast? ≠ some 10 := by
      rw [List.getLast?_eq_getElem?]
      have := hnl (c2.length - 1) (by omega) (by omega)
      rw [hfo, List.getElem?_append_left (by omega)] at this
      exact this
    rw [footer_framing' c2 _ (fun hh => hlast hh.2)] at hr
    cases hr

end Chrono.Proofs.Tz
