/-
  C13, seventh lemma file: the RFC 3339 item `%+`.  What `%+` prints is `write_rfc3339(wall clock,
  offset, AutoSi, use_z = false)`: the `Debug` text of the wall clock followed by `+hh:mm`
  (C20's `write_rfc3339_autoSi_debug`), which is the `Debug` text of a `DateTime<FixedOffset>` — the text
  C09 proves the relaxed reader `parse_rfc3339_relaxed` (the reader of `%+`) reads back.
  Namespace `Chrono.Proofs.RoundTrip`.
-/
import Chrono.Proofs.RoundTripStampL
import Chrono.Proofs.SerdeStrL

namespace Chrono.Proofs.RoundTrip
open Chrono Chrono.M Chrono.M.Scan Chrono.M.Format Chrono.M.TextForms
open Chrono.Spec Chrono.Spec.Text Chrono.Spec.Fields Chrono.Extracted Chrono.Proofs Chrono.Proofs.TextForms
open Chrono.Proofs.ParsedRes

/-- the offset as `%+` shows it (no `Z`): `+hh:mm` / `-hh:mm`, also for zero -/
theorem offset_rfc3339_noz_text (off : Int) (h : WholeMinute off) :
    OffsetFormat.format ⟨.minutes, .colon, false, .zero⟩ off = wok (offsetText off) := by
  obtain ⟨h1, h2, h3⟩ := h
  rw [Chrono.Proofs.RenderScan.offset_minutes_eq .colon false off ⟨h1, h2⟩]
  rw [if_neg (fun hh => by cases hh.1)]
  obtain ⟨p1, p2⟩ := Chrono.Proofs.RenderScan.whole_minute_parts off h3
  rw [p1, p2]
  unfold offsetText Chrono.Proofs.RenderScan.colonText
  rw [if_pos rfl]
  have e1 : ((if off < 0 then -off else off) / 3600).toNat = off.natAbs / 3600 := by split <;> omega
  have e2 : ((if off < 0 then -off else off) / 60 % 60).toNat = off.natAbs / 60 % 60 := by split <;> omega
  rw [e1, e2, decN_two _ (by omega), decN_two _ (by omega)]

/-- **what `%+` writes**: for a well-formed value with a whole-minute offset whose wall clock `l` is in
range, the wall clock in its `Debug` form (`T` separator, `AutoSi` fraction, leap second as `60`)
followed by `+hh:mm` -/
theorem rfc3339_item_text (z : Zoned) (hz : ZInv z) (hm : WholeMinute z.off)
    (hs : TStrict z.utc.time) (l : NaiveDT) (hl : Zoned.naive_local z = .ok l) :
    Zoned.overflowing_naive_local z = .ok l ∧
    write_rfc3339 l z.off .autoSi false = wok (naiveText 84 l ++ offsetText z.off) := by
  obtain ⟨Y, O, hvd, he, hst, hov⟩ := local_facts z hz hm.2.2 hs l hl
  refine ⟨hov, ?_⟩
  rw [Chrono.Proofs.SerdeStr.write_rfc3339_autoSi_debug, offset_rfc3339_noz_text z.off hm]
  have hd : naive_debug l = wok (naiveText 84 l) := by
    have ht : naiveText 84 l = dateText Y (monthOfYo Y O) (dayOfYo Y O) ++ (84 :: timeText l.time) := by
      unfold naiveText
      have : l.date = dateOfYo Y O := by rw [he]
      rw [this, dateTextOf_yo Y O hvd]
    rw [ht]
    conv => lhs; rw [he]
    exact naive_debug_text Y O hvd _ hst.1
  rw [hd]
  rfl

/-- **what the reader of `%+` makes of it**: `parse_rfc3339_relaxed` on a fresh record consumes the
whole text and stores year, month, day, hour, minute, second, nanosecond and offset, which
`to_datetime` resolves to the value -/
theorem rfc3339_item_reads (z : Zoned) (hz : ZInv z) (hm : WholeMinute z.off)
    (hs : TStrict z.utc.time) (l : NaiveDT) (hl : Zoned.naive_local z = .ok l) :
    ∃ p, Parse.parse_rfc3339_relaxed Parsed.new (naiveText 84 l ++ offsetText z.off) = .ok (p, []) ∧
      Parsed.to_datetime p = .ok (.ok z) := by
  obtain ⟨Y, O, hvd, he, hst, _⟩ := local_facts z hz hm.2.2 hs l hl
  obtain ⟨_, fread⟩ := offset_fin z.off hm
  unfold offsetReadOk at fread
  simp only [Bool.and_eq_true, Bool.not_eq_true', beq_iff_eq] at fread
  obtain ⟨⟨⟨⟨r1, _⟩, r3⟩, r4⟩, r5⟩ := fread
  obtain ⟨c, tl, hc⟩ : ∃ c tl, offsetText z.off = c :: tl := ⟨_, _, rfl⟩
  have htail : TailOk (offsetText z.off) := by
    rw [hc] at r5 ⊢
    simp only [Bool.and_eq_true, Bool.not_eq_true', bne_iff_ne, ne_eq] at r5
    exact tailOk_cons c tl r5.1 r5.2
  have htrim := trimStart_of_wsLen_zero _ r3
  have hT : (if (offsetText z.off).length ≥ 3 ∧ lowerS (List.take 3 (offsetText z.off)) = [117, 116, 99] then
        Except.ok (List.drop 3 (offsetText z.off), (0 : Int))
      else Scan.timezone_offset (offsetText z.off) .colonOrSpace true false true) = .ok ([], z.off) := by
    have hno : ¬ ((offsetText z.off).length ≥ 3 ∧ lowerS (List.take 3 (offsetText z.off)) = [117, 116, 99]) := by
      intro hh
      simp only [Bool.and_eq_false_iff, decide_eq_false_iff_not] at r4
      rcases r4 with r4 | r4
      · exact r4 hh.1
      · rw [hh.2] at r4; simp at r4
    rw [if_neg hno]
    revert r1
    cases Scan.timezone_offset (offsetText z.off) .colonOrSpace true false true with
    | error e => intro h; cases h
    | ok r =>
      obtain ⟨rs, v⟩ := r
      cases rs with
      | nil => intro h; simp only [beq_iff_eq] at h; rw [h]
      | cons _ _ => intro h; cases h
  have ho : -86400 < z.off ∧ z.off < 86400 := hz.2
  have htext : naiveText 84 l ++ offsetText z.off =
      dateText Y (monthOfYo Y O) (dayOfYo Y O) ++ (84 :: (timeText l.time ++ offsetText z.off)) := by
    unfold naiveText
    have : l.date = dateOfYo Y O := by rw [he]
    rw [this, dateTextOf_yo Y O hvd, List.append_assoc, List.cons_append]
  obtain ⟨a1, a2, a3, a4, a5, a6⟩ := vd_month_day Y O hvd
  refine ⟨dtRecord Y (monthOfYo Y O) (dayOfYo Y O) l.time (some z.off), ?_,
    to_datetime_record z hz l hl Y O hvd he hst⟩
  rw [htext]
  exact relaxed_on_text Y ⟨a1, a2⟩ _ _ ⟨a3, a4⟩ ⟨a5, a6⟩ l.time hst 84 (Or.inl rfl) _ _ z.off (by omega)
    htail (by rw [htrim, htrim]) hT

/-- **round trip of the format `%+`** (any format string whose only item is the RFC 3339 item) -/
theorem family_rfc3339 (is : List Item) (his : is = [.fixed .rfc3339]) (z : Zoned) (hz : ZInv z)
    (hm : WholeMinute z.off) (hs : TStrict z.utc.time) (l : NaiveDT) (hl : Zoned.naive_local z = .ok l) :
    ParseFrom.formatItemsOf (.zoned z) is = wok (naiveText 84 l ++ offsetText z.off) ∧
    ∃ p, Parse.parse Parsed.new (naiveText 84 l ++ offsetText z.off) is = .ok p ∧
      ParseFrom.resolve .zoned p = .ok (.ok (.zoned z)) := by
  subst his
  obtain ⟨hov, hw⟩ := rfc3339_item_text z hz hm hs l hl
  obtain ⟨p, hp, hres⟩ := rfc3339_item_reads z hz hm hs l hl
  refine ⟨?_, p, ?_, ?_⟩
  · simp only [ParseFrom.formatItemsOf, hov, W.ofRes, formatItemsR, format_item, format_fixed]
    cases l with
    | mk d t =>
      simp only [hw]
      show (wok _).seq (wok []) = _
      simp only [W.seq, wok, List.append_nil]
  · simp only [Parse.parse, Parse.parse_internal, hp]
  · simp only [ParseFrom.resolve, hres, Parsed.RP.bind]

end Chrono.Proofs.RoundTrip
