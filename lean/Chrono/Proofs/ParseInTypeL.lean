/-
  C15, parser side: every field record that the item-driven parser (`Parse.parse_internal`,
  `Parse.parse`), the RFC 2822 scanner, the relaxed and the strict RFC 3339 scanner can build holds
  values of the Rust field types (`Spec.InType`), whatever the text and whatever the items.  This is
  the hypothesis C14's resolver theorems need, so `parse_from_str` & co. are total.
  Namespace `Chrono.Proofs.ParseInType`.
-/
import Chrono.Proofs.Rfc3339L

namespace Chrono.Proofs.ParseInType
open Chrono Chrono.M Chrono.M.Scan Chrono.M.Parse Chrono.Spec Chrono.Spec.Fields

/-! ### the record -/

theorem inType_new : InType Parsed.new := by
  unfold InType optIn Parsed.new
  refine ⟨?_, ?_, ?_, ?_, ?_, ?_, ?_, ?_, ?_, ?_, ?_, ?_, ?_, ?_, ?_, ?_, ?_, ?_, ?_, ?_⟩ <;>
    (intro x hx; cases hx)

theorem with_weekday (p : Parsed) (hp : InType p) (o : Option Weekday) : InType { p with weekday := o } := hp

theorem with_year (p : Parsed) (hp : InType p) (o : Option Int) (ho : optIn o (-2147483648) 2147483647) :
    InType { p with year := o } := by
  obtain ⟨h0, h1, h2, h3, h4, h5, h6, h7, h8, h9, h10, h11, h12, h13, h14, h15, h16, h17, h18, h19⟩ := hp
  exact ⟨ho, h1, h2, h3, h4, h5, h6, h7, h8, h9, h10, h11, h12, h13, h14, h15, h16, h17, h18, h19⟩

theorem with_year_div_100 (p : Parsed) (hp : InType p) (o : Option Int) (ho : optIn o (-2147483648) 2147483647) :
    InType { p with year_div_100 := o } := by
  obtain ⟨h0, h1, h2, h3, h4, h5, h6, h7, h8, h9, h10, h11, h12, h13, h14, h15, h16, h17, h18, h19⟩ := hp
  exact ⟨h0, ho, h2, h3, h4, h5, h6, h7, h8, h9, h10, h11, h12, h13, h14, h15, h16, h17, h18, h19⟩

theorem with_year_mod_100 (p : Parsed) (hp : InType p) (o : Option Int) (ho : optIn o (-2147483648) 2147483647) :
    InType { p with year_mod_100 := o } := by
  obtain ⟨h0, h1, h2, h3, h4, h5, h6, h7, h8, h9, h10, h11, h12, h13, h14, h15, h16, h17, h18, h19⟩ := hp
  exact ⟨h0, h1, ho, h3, h4, h5, h6, h7, h8, h9, h10, h11, h12, h13, h14, h15, h16, h17, h18, h19⟩

theorem with_isoyear (p : Parsed) (hp : InType p) (o : Option Int) (ho : optIn o (-2147483648) 2147483647) :
    InType { p with isoyear := o } := by
  obtain ⟨h0, h1, h2, h3, h4, h5, h6, h7, h8, h9, h10, h11, h12, h13, h14, h15, h16, h17, h18, h19⟩ := hp
  exact ⟨h0, h1, h2, ho, h4, h5, h6, h7, h8, h9, h10, h11, h12, h13, h14, h15, h16, h17, h18, h19⟩

theorem with_isoyear_div_100 (p : Parsed) (hp : InType p) (o : Option Int) (ho : optIn o (-2147483648) 2147483647) :
    InType { p with isoyear_div_100 := o } := by
  obtain ⟨h0, h1, h2, h3, h4, h5, h6, h7, h8, h9, h10, h11, h12, h13, h14, h15, h16, h17, h18, h19⟩ := hp
  exact ⟨h0, h1, h2, h3, ho, h5, h6, h7, h8, h9, h10, h11, h12, h13, h14, h15, h16, h17, h18, h19⟩

theorem with_isoyear_mod_100 (p : Parsed) (hp : InType p) (o : Option Int) (ho : optIn o (-2147483648) 2147483647) :
    InType { p with isoyear_mod_100 := o } := by
  obtain ⟨h0, h1, h2, h3, h4, h5, h6, h7, h8, h9, h10, h11, h12, h13, h14, h15, h16, h17, h18, h19⟩ := hp
  exact ⟨h0, h1, h2, h3, h4, ho, h6, h7, h8, h9, h10, h11, h12, h13, h14, h15, h16, h17, h18, h19⟩

theorem with_quarter (p : Parsed) (hp : InType p) (o : Option Int) (ho : optIn o 0 4294967295) :
    InType { p with quarter := o } := by
  obtain ⟨h0, h1, h2, h3, h4, h5, h6, h7, h8, h9, h10, h11, h12, h13, h14, h15, h16, h17, h18, h19⟩ := hp
  exact ⟨h0, h1, h2, h3, h4, h5, ho, h7, h8, h9, h10, h11, h12, h13, h14, h15, h16, h17, h18, h19⟩

theorem with_month (p : Parsed) (hp : InType p) (o : Option Int) (ho : optIn o 0 4294967295) :
    InType { p with month := o } := by
  obtain ⟨h0, h1, h2, h3, h4, h5, h6, h7, h8, h9, h10, h11, h12, h13, h14, h15, h16, h17, h18, h19⟩ := hp
  exact ⟨h0, h1, h2, h3, h4, h5, h6, ho, h8, h9, h10, h11, h12, h13, h14, h15, h16, h17, h18, h19⟩

theorem with_week_from_sun (p : Parsed) (hp : InType p) (o : Option Int) (ho : optIn o 0 4294967295) :
    InType { p with week_from_sun := o } := by
  obtain ⟨h0, h1, h2, h3, h4, h5, h6, h7, h8, h9, h10, h11, h12, h13, h14, h15, h16, h17, h18, h19⟩ := hp
  exact ⟨h0, h1, h2, h3, h4, h5, h6, h7, ho, h9, h10, h11, h12, h13, h14, h15, h16, h17, h18, h19⟩

theorem with_week_from_mon (p : Parsed) (hp : InType p) (o : Option Int) (ho : optIn o 0 4294967295) :
    InType { p with week_from_mon := o } := by
  obtain ⟨h0, h1, h2, h3, h4, h5, h6, h7, h8, h9, h10, h11, h12, h13, h14, h15, h16, h17, h18, h19⟩ := hp
  exact ⟨h0, h1, h2, h3, h4, h5, h6, h7, h8, ho, h10, h11, h12, h13, h14, h15, h16, h17, h18, h19⟩

theorem with_isoweek (p : Parsed) (hp : InType p) (o : Option Int) (ho : optIn o 0 4294967295) :
    InType { p with isoweek := o } := by
  obtain ⟨h0, h1, h2, h3, h4, h5, h6, h7, h8, h9, h10, h11, h12, h13, h14, h15, h16, h17, h18, h19⟩ := hp
  exact ⟨h0, h1, h2, h3, h4, h5, h6, h7, h8, h9, ho, h11, h12, h13, h14, h15, h16, h17, h18, h19⟩

theorem with_ordinal (p : Parsed) (hp : InType p) (o : Option Int) (ho : optIn o 0 4294967295) :
    InType { p with ordinal := o } := by
  obtain ⟨h0, h1, h2, h3, h4, h5, h6, h7, h8, h9, h10, h11, h12, h13, h14, h15, h16, h17, h18, h19⟩ := hp
  exact ⟨h0, h1, h2, h3, h4, h5, h6, h7, h8, h9, h10, ho, h12, h13, h14, h15, h16, h17, h18, h19⟩

theorem with_day (p : Parsed) (hp : InType p) (o : Option Int) (ho : optIn o 0 4294967295) :
    InType { p with day := o } := by
  obtain ⟨h0, h1, h2, h3, h4, h5, h6, h7, h8, h9, h10, h11, h12, h13, h14, h15, h16, h17, h18, h19⟩ := hp
  exact ⟨h0, h1, h2, h3, h4, h5, h6, h7, h8, h9, h10, h11, ho, h13, h14, h15, h16, h17, h18, h19⟩

theorem with_hour_div_12 (p : Parsed) (hp : InType p) (o : Option Int) (ho : optIn o 0 4294967295) :
    InType { p with hour_div_12 := o } := by
  obtain ⟨h0, h1, h2, h3, h4, h5, h6, h7, h8, h9, h10, h11, h12, h13, h14, h15, h16, h17, h18, h19⟩ := hp
  exact ⟨h0, h1, h2, h3, h4, h5, h6, h7, h8, h9, h10, h11, h12, ho, h14, h15, h16, h17, h18, h19⟩

theorem with_hour_mod_12 (p : Parsed) (hp : InType p) (o : Option Int) (ho : optIn o 0 4294967295) :
    InType { p with hour_mod_12 := o } := by
  obtain ⟨h0, h1, h2, h3, h4, h5, h6, h7, h8, h9, h10, h11, h12, h13, h14, h15, h16, h17, h18, h19⟩ := hp
  exact ⟨h0, h1, h2, h3, h4, h5, h6, h7, h8, h9, h10, h11, h12, h13, ho, h15, h16, h17, h18, h19⟩

theorem with_minute (p : Parsed) (hp : InType p) (o : Option Int) (ho : optIn o 0 4294967295) :
    InType { p with minute := o } := by
  obtain ⟨h0, h1, h2, h3, h4, h5, h6, h7, h8, h9, h10, h11, h12, h13, h14, h15, h16, h17, h18, h19⟩ := hp
  exact ⟨h0, h1, h2, h3, h4, h5, h6, h7, h8, h9, h10, h11, h12, h13, h14, ho, h16, h17, h18, h19⟩

theorem with_second (p : Parsed) (hp : InType p) (o : Option Int) (ho : optIn o 0 4294967295) :
    InType { p with second := o } := by
  obtain ⟨h0, h1, h2, h3, h4, h5, h6, h7, h8, h9, h10, h11, h12, h13, h14, h15, h16, h17, h18, h19⟩ := hp
  exact ⟨h0, h1, h2, h3, h4, h5, h6, h7, h8, h9, h10, h11, h12, h13, h14, h15, ho, h17, h18, h19⟩

theorem with_nanosecond (p : Parsed) (hp : InType p) (o : Option Int) (ho : optIn o 0 4294967295) :
    InType { p with nanosecond := o } := by
  obtain ⟨h0, h1, h2, h3, h4, h5, h6, h7, h8, h9, h10, h11, h12, h13, h14, h15, h16, h17, h18, h19⟩ := hp
  exact ⟨h0, h1, h2, h3, h4, h5, h6, h7, h8, h9, h10, h11, h12, h13, h14, h15, h16, ho, h18, h19⟩

theorem with_timestamp (p : Parsed) (hp : InType p) (o : Option Int) (ho : optIn o (-9223372036854775808) 9223372036854775807) :
    InType { p with timestamp := o } := by
  obtain ⟨h0, h1, h2, h3, h4, h5, h6, h7, h8, h9, h10, h11, h12, h13, h14, h15, h16, h17, h18, h19⟩ := hp
  exact ⟨h0, h1, h2, h3, h4, h5, h6, h7, h8, h9, h10, h11, h12, h13, h14, h15, h16, h17, ho, h19⟩

theorem with_offset (p : Parsed) (hp : InType p) (o : Option Int) (ho : optIn o (-2147483648) 2147483647) :
    InType { p with offset := o } := by
  obtain ⟨h0, h1, h2, h3, h4, h5, h6, h7, h8, h9, h10, h11, h12, h13, h14, h15, h16, h17, h18, h19⟩ := hp
  exact ⟨h0, h1, h2, h3, h4, h5, h6, h7, h8, h9, h10, h11, h12, h13, h14, h15, h16, h17, h18, ho⟩

/-! ### the setters -/

theorem setIf_some {α} [DecidableEq α] (old : Option α) (v : α) (f : Option α)
    (h : Parsed.setIf old v = .ok f) : f = some v := by
  unfold Parsed.setIf at h
  cases old with
  | none => injection h with h; exact h.symm
  | some o =>
    simp only at h
    split at h
    · cases h
    · injection h with h; exact h.symm

theorem optIn_some (v lo hi : Int) (h : lo ≤ v ∧ v ≤ hi) : optIn (some v) lo hi := by
  intro x hx; injection hx with hx; rw [← hx]; exact h

theorem toI32_inv (v x : Int) (h : Parsed.toI32 v = .ok x) : -2147483648 ≤ x ∧ x ≤ 2147483647 := by
  unfold Parsed.toI32 at h
  split at h
  · rename_i hc
    injection h with h
    subst h
    have hc' : inI32 v = true := hc
    unfold inI32 I32_MIN I32_MAX at hc'
    simpa using hc'
  · cases h

theorem inRange_inv (v lo hi x : Int) (h : Parsed.inRange v lo hi = .ok x) : x = v ∧ lo ≤ v ∧ v ≤ hi := by
  unfold Parsed.inRange at h
  split at h
  · rename_i hc; injection h with h; exact ⟨h.symm, hc⟩
  · cases h

/-- the common shape of a setter: check, `set_if_consistent`, store -/
theorem set_generic (chk : PRes Int) (g : Int → Int) (old : Option Int) (upd : Option Int → Parsed) (p' : Parsed)
    (lo hi : Int) (hchk : ∀ x, chk = .ok x → lo ≤ g x ∧ g x ≤ hi)
    (hupd : ∀ o, optIn o lo hi → InType (upd o))
    (h : (chk >>= fun x => Parsed.setIf old (g x) >>= fun f => pure (upd f)) = .ok p') : InType p' := by
  obtain ⟨x, hx, h⟩ := (Rfc3339.bind_ok_iff _ _ _).mp h
  obtain ⟨f, hf, h⟩ := (Rfc3339.bind_ok_iff _ _ _).mp h
  injection h with h
  rw [← h, setIf_some _ _ _ hf]
  exact hupd _ (optIn_some _ _ _ (hchk x hx))

theorem set_year (p p' : Parsed) (v : Int) (hp : InType p) (h : Parsed.set_year p v = .ok p') : InType p' :=
  set_generic (Parsed.toI32 v) id p.year (fun f => { p with year := f }) p' _ _
    (fun x hx => toI32_inv v x hx) (with_year p hp) h
theorem set_isoyear (p p' : Parsed) (v : Int) (hp : InType p) (h : Parsed.set_isoyear p v = .ok p') : InType p' :=
  set_generic (Parsed.toI32 v) id p.isoyear (fun f => { p with isoyear := f }) p' _ _
    (fun x hx => toI32_inv v x hx) (with_isoyear p hp) h
theorem set_offset (p p' : Parsed) (v : Int) (hp : InType p) (h : Parsed.set_offset p v = .ok p') : InType p' :=
  set_generic (Parsed.toI32 v) id p.offset (fun f => { p with offset := f }) p' _ _
    (fun x hx => toI32_inv v x hx) (with_offset p hp) h

theorem i32max : I32_MAX = 2147483647 := rfl

theorem set_year_div_100 (p p' : Parsed) (v : Int) (hp : InType p) (h : Parsed.set_year_div_100 p v = .ok p') :
    InType p' :=
  set_generic (Parsed.inRange v 0 I32_MAX) id p.year_div_100 (fun f => { p with year_div_100 := f }) p' _ _
    (fun x hx => by have := inRange_inv _ _ _ _ hx; have := i32max; simp only [id]; omega)
    (with_year_div_100 p hp) h
theorem set_isoyear_div_100 (p p' : Parsed) (v : Int) (hp : InType p)
    (h : Parsed.set_isoyear_div_100 p v = .ok p') : InType p' :=
  set_generic (Parsed.inRange v 0 I32_MAX) id p.isoyear_div_100 (fun f => { p with isoyear_div_100 := f }) p' _ _
    (fun x hx => by have := inRange_inv _ _ _ _ hx; have := i32max; simp only [id]; omega)
    (with_isoyear_div_100 p hp) h
theorem set_year_mod_100 (p p' : Parsed) (v : Int) (hp : InType p) (h : Parsed.set_year_mod_100 p v = .ok p') :
    InType p' :=
  set_generic (Parsed.inRange v 0 99) id p.year_mod_100 (fun f => { p with year_mod_100 := f }) p' _ _
    (fun x hx => by have := inRange_inv _ _ _ _ hx; simp only [id]; omega) (with_year_mod_100 p hp) h
theorem set_isoyear_mod_100 (p p' : Parsed) (v : Int) (hp : InType p)
    (h : Parsed.set_isoyear_mod_100 p v = .ok p') : InType p' :=
  set_generic (Parsed.inRange v 0 99) id p.isoyear_mod_100 (fun f => { p with isoyear_mod_100 := f }) p' _ _
    (fun x hx => by have := inRange_inv _ _ _ _ hx; simp only [id]; omega) (with_isoyear_mod_100 p hp) h
theorem set_quarter (p p' : Parsed) (v : Int) (hp : InType p) (h : Parsed.set_quarter p v = .ok p') : InType p' :=
  set_generic (Parsed.inRange v 1 4) id p.quarter (fun f => { p with quarter := f }) p' _ _
    (fun x hx => by have := inRange_inv _ _ _ _ hx; simp only [id]; omega) (with_quarter p hp) h
theorem set_month (p p' : Parsed) (v : Int) (hp : InType p) (h : Parsed.set_month p v = .ok p') : InType p' :=
  set_generic (Parsed.inRange v 1 12) id p.month (fun f => { p with month := f }) p' _ _
    (fun x hx => by have := inRange_inv _ _ _ _ hx; simp only [id]; omega) (with_month p hp) h
theorem set_week_from_sun (p p' : Parsed) (v : Int) (hp : InType p) (h : Parsed.set_week_from_sun p v = .ok p') :
    InType p' :=
  set_generic (Parsed.inRange v 0 53) id p.week_from_sun (fun f => { p with week_from_sun := f }) p' _ _
    (fun x hx => by have := inRange_inv _ _ _ _ hx; simp only [id]; omega) (with_week_from_sun p hp) h
theorem set_week_from_mon (p p' : Parsed) (v : Int) (hp : InType p) (h : Parsed.set_week_from_mon p v = .ok p') :
    InType p' :=
  set_generic (Parsed.inRange v 0 53) id p.week_from_mon (fun f => { p with week_from_mon := f }) p' _ _
    (fun x hx => by have := inRange_inv _ _ _ _ hx; simp only [id]; omega) (with_week_from_mon p hp) h
theorem set_isoweek (p p' : Parsed) (v : Int) (hp : InType p) (h : Parsed.set_isoweek p v = .ok p') : InType p' :=
  set_generic (Parsed.inRange v 1 53) id p.isoweek (fun f => { p with isoweek := f }) p' _ _
    (fun x hx => by have := inRange_inv _ _ _ _ hx; simp only [id]; omega) (with_isoweek p hp) h
theorem set_ordinal (p p' : Parsed) (v : Int) (hp : InType p) (h : Parsed.set_ordinal p v = .ok p') : InType p' :=
  set_generic (Parsed.inRange v 1 366) id p.ordinal (fun f => { p with ordinal := f }) p' _ _
    (fun x hx => by have := inRange_inv _ _ _ _ hx; simp only [id]; omega) (with_ordinal p hp) h
theorem set_day (p p' : Parsed) (v : Int) (hp : InType p) (h : Parsed.set_day p v = .ok p') : InType p' :=
  set_generic (Parsed.inRange v 1 31) id p.day (fun f => { p with day := f }) p' _ _
    (fun x hx => by have := inRange_inv _ _ _ _ hx; simp only [id]; omega) (with_day p hp) h
theorem set_minute (p p' : Parsed) (v : Int) (hp : InType p) (h : Parsed.set_minute p v = .ok p') : InType p' :=
  set_generic (Parsed.inRange v 0 59) id p.minute (fun f => { p with minute := f }) p' _ _
    (fun x hx => by have := inRange_inv _ _ _ _ hx; simp only [id]; omega) (with_minute p hp) h
theorem set_second (p p' : Parsed) (v : Int) (hp : InType p) (h : Parsed.set_second p v = .ok p') : InType p' :=
  set_generic (Parsed.inRange v 0 60) id p.second (fun f => { p with second := f }) p' _ _
    (fun x hx => by have := inRange_inv _ _ _ _ hx; simp only [id]; omega) (with_second p hp) h
theorem set_nanosecond (p p' : Parsed) (v : Int) (hp : InType p) (h : Parsed.set_nanosecond p v = .ok p') :
    InType p' :=
  set_generic (Parsed.inRange v 0 999999999) id p.nanosecond (fun f => { p with nanosecond := f }) p' _ _
    (fun x hx => by have := inRange_inv _ _ _ _ hx; simp only [id]; omega) (with_nanosecond p hp) h
theorem set_hour12 (p p' : Parsed) (v : Int) (hp : InType p) (h : Parsed.set_hour12 p v = .ok p') : InType p' :=
  set_generic (Parsed.inRange v 1 12) (fun x => if x = 12 then 0 else x) p.hour_mod_12
    (fun f => { p with hour_mod_12 := f }) p' _ _
    (fun x hx => by have := inRange_inv _ _ _ _ hx; split <;> omega) (with_hour_mod_12 p hp) h

theorem set_timestamp (p p' : Parsed) (v : Int) (hp : InType p)
    (hv : -9223372036854775808 ≤ v ∧ v ≤ 9223372036854775807)
    (h : Parsed.set_timestamp p v = .ok p') : InType p' := by
  unfold Parsed.set_timestamp at h
  obtain ⟨f, hf, h⟩ := (Rfc3339.bind_ok_iff _ _ _).mp h
  injection h with h
  rw [← h, setIf_some _ _ _ hf]
  exact with_timestamp p hp _ (optIn_some _ _ _ hv)

theorem set_weekday (p p' : Parsed) (w : Weekday) (hp : InType p) (h : Parsed.set_weekday p w = .ok p') :
    InType p' := by
  unfold Parsed.set_weekday at h
  obtain ⟨f, _, h⟩ := (Rfc3339.bind_ok_iff _ _ _).mp h
  injection h with h
  rw [← h]
  exact with_weekday p hp f

theorem set_ampm (p p' : Parsed) (pm : Bool) (hp : InType p) (h : Parsed.set_ampm p pm = .ok p') : InType p' := by
  unfold Parsed.set_ampm at h
  obtain ⟨f, hf, h⟩ := (Rfc3339.bind_ok_iff _ _ _).mp h
  injection h with h
  rw [← h, setIf_some _ _ _ hf]
  exact with_hour_div_12 p hp _ (optIn_some _ _ _ (by cases pm <;> simp))

theorem set_hour_eq (p : Parsed) (v : Int) :
    Parsed.set_hour p v = (Parsed.inRange v 0 23 >>= fun x =>
      Parsed.setIf p.hour_div_12 (if x ≤ 11 then 0 else 1) >>= fun f =>
      Parsed.setIf p.hour_mod_12 (if x ≤ 11 then x else x - 12) >>= fun g =>
      pure { p with hour_div_12 := f, hour_mod_12 := g }) := by
  unfold Parsed.set_hour
  cases Parsed.inRange v 0 23 with
  | error e => rfl
  | ok x =>
    by_cases hc : x ≤ 11
    · simp only [Rfc3339.ok_bind, hc, if_true]
    · simp only [Rfc3339.ok_bind, hc, if_false]

theorem set_hour (p p' : Parsed) (v : Int) (hp : InType p) (h : Parsed.set_hour p v = .ok p') : InType p' := by
  rw [set_hour_eq] at h
  obtain ⟨x, hx, h⟩ := (Rfc3339.bind_ok_iff _ _ _).mp h
  obtain ⟨hxv, hx1, hx2⟩ := inRange_inv _ _ _ _ hx
  obtain ⟨f, hf, h⟩ := (Rfc3339.bind_ok_iff _ _ _).mp h
  obtain ⟨g, hg, h⟩ := (Rfc3339.bind_ok_iff _ _ _).mp h
  injection h with h
  rw [← h, setIf_some _ _ _ hf, setIf_some _ _ _ hg]
  exact with_hour_mod_12 _ (with_hour_div_12 p hp _ (optIn_some _ _ _ (by split <;> omega))) _
    (optIn_some _ _ _ (by split <;> omega))

theorem set_wd_sun (p p' : Parsed) (v : Int) (hp : InType p)
    (h : Parsed.set_weekday_with_num_days_from_sunday p v = .ok p') : InType p' := by
  unfold Parsed.set_weekday_with_num_days_from_sunday at h
  repeat' split at h
  all_goals first | exact set_weekday _ _ _ hp h | cases h

theorem set_wd_mon (p p' : Parsed) (v : Int) (hp : InType p)
    (h : Parsed.set_weekday_with_number_from_monday p v = .ok p') : InType p' := by
  unfold Parsed.set_weekday_with_number_from_monday at h
  repeat' split at h
  all_goals first | exact set_weekday _ _ _ hp h | cases h

/-! ### `scan::number` yields a non-negative `i64` -/

theorem numberAux_bound : ∀ (s : List Nat) (i min : Nat) (max : Option Nat) (n : Int) (rest : List Nat) (v : Int),
    0 ≤ n → n ≤ 9223372036854775807 → Scan.numberAux s i min max n = .ok (rest, v) →
    0 ≤ v ∧ v ≤ 9223372036854775807 := by
  intro s
  induction s with
  | nil =>
    intro i min max n rest v h0 h1 h
    have : v = n := by
      cases max with
      | none =>
        rw [Scan.numberAux.eq_2, Scan.numberAux.step.eq_1] at h
        injection h with h; injection h with _ b; exact b.symm
      | some m =>
        rw [Scan.numberAux.eq_1] at h
        split at h
        · injection h with h; injection h with _ b; exact b.symm
        · rw [Scan.numberAux.step.eq_1] at h; injection h with h; injection h with _ b; exact b.symm
    subst this; exact ⟨h0, h1⟩
  | cons c t ih =>
    intro i min max n rest v h0 h1 h
    have hstep : Scan.numberAux.step (c :: t) i min max n = .ok (rest, v) →
        0 ≤ v ∧ v ≤ 9223372036854775807 := by
      intro hs
      rw [Scan.numberAux.step.eq_2] at hs
      by_cases hd : Scan.isDigit c = true
      · simp only [hd, Bool.not_true, Bool.false_eq_true, if_false] at hs
        split at hs
        · cases hs
        · rename_i hle
          have hmx : I64_MAX = 9223372036854775807 := rfl
          exact ih (i + 1) min max _ rest v (by omega) (by omega) hs
      · simp only [hd, Bool.not_false, if_true] at hs
        split at hs
        · cases hs
        · injection hs with hs; injection hs with _ b; subst b; exact ⟨h0, h1⟩
    cases max with
    | none => rw [Scan.numberAux.eq_2] at h; exact hstep h
    | some m =>
      rw [Scan.numberAux.eq_1] at h
      split at h
      · injection h with h; injection h with _ b; subst b; exact ⟨h0, h1⟩
      · exact hstep h

theorem number_bound (s : List Nat) (min : Nat) (max : Option Nat) (rest : List Nat) (v : Int)
    (h : Scan.number s min max = .ok (rest, v)) : 0 ≤ v ∧ v ≤ 9223372036854775807 := by
  unfold Scan.number at h
  split at h
  · cases h
  · exact numberAux_bound s 0 min max 0 rest v (by omega) (by omega) h

/-! ### the items -/

theorem numericSpec_set (n : Numeric) (p p' : Parsed) (v : Int) (hp : InType p)
    (hv : -9223372036854775808 ≤ v ∧ v ≤ 9223372036854775807)
    (h : (numericSpec n).2.2 p v = .ok p') : InType p' := by
  cases n
  · exact set_year p p' v hp h
  · exact set_year_div_100 p p' v hp h
  · exact set_year_mod_100 p p' v hp h
  · exact set_isoyear p p' v hp h
  · exact set_isoyear_div_100 p p' v hp h
  · exact set_isoyear_mod_100 p p' v hp h
  · exact set_quarter p p' v hp h
  · exact set_month p p' v hp h
  · exact set_day p p' v hp h
  · exact set_week_from_sun p p' v hp h
  · exact set_week_from_mon p p' v hp h
  · exact set_isoweek p p' v hp h
  · exact set_wd_sun p p' v hp h
  · exact set_wd_mon p p' v hp h
  · exact set_ordinal p p' v hp h
  · exact set_hour p p' v hp h
  · exact set_hour12 p p' v hp h
  · exact set_minute p p' v hp h
  · exact set_second p p' v hp h
  · exact set_nanosecond p p' v hp h
  · exact set_timestamp p p' v hp hv h

theorem parseNumeric_inv (p : Parsed) (s : List Nat) (n : Numeric) (p' : Parsed) (s' : List Nat)
    (h : parseNumeric p s n = .ok (p', s')) :
    ∃ v, (-9223372036854775808 ≤ v ∧ v ≤ 9223372036854775807) ∧ (numericSpec n).2.2 p v = .ok p' := by
  unfold parseNumeric at h
  generalize numericSpec n = spec at h ⊢
  obtain ⟨width, signed, set⟩ := spec
  simp only at h
  split at h
  · cases h
  · rename_i s1 v hr
    split at h
    · rename_i q hset
      injection h with h; injection h with h1 h2
      subst h1
      refine ⟨v, ?_, hset⟩
      split at hr
      · split at hr
        · split at hr
          · rename_i s2 w hn
            injection hr with hr; injection hr with _ hr
            have := number_bound _ _ _ _ _ hn
            omega
          · cases hr
        · have := number_bound _ _ _ _ _ hr; omega
        · have := number_bound _ _ _ _ _ hr; omega
      · have := number_bound _ _ _ _ _ hr; omega
    · cases h

theorem parseNumeric_inType (p : Parsed) (s : List Nat) (n : Numeric) (p' : Parsed) (s' : List Nat)
    (hp : InType p) (h : parseNumeric p s n = .ok (p', s')) : InType p' := by
  obtain ⟨v, hv, hs⟩ := parseNumeric_inv p s n p' s' h
  exact numericSpec_set n p p' v hp hv hs

theorem map_pair_inv {α : Type} (r : PRes Parsed) (a : α) (p' : Parsed) (b : α)
    (h : (r.map fun q => (q, a)) = .ok (p', b)) : r = .ok p' := by
  cases r with
  | error e => cases h
  | ok q => injection h with h; injection h with h1 _; rw [h1]

theorem setNano_inType (p : Parsed) (r : PRes (List Nat × Int)) (p' : Parsed) (s' : List Nat) (hp : InType p)
    (h : setNano p r = .ok (p', s')) : InType p' := by
  unfold setNano at h
  split at h
  · cases h
  · split at h
    · rename_i q hset
      injection h with h; injection h with h1 _; subst h1
      exact set_nanosecond _ _ _ hp hset
    · cases h

theorem setOffset_inType (p : Parsed) (r : PRes (List Nat × Int)) (p' : Parsed) (s' : List Nat) (hp : InType p)
    (h : setOffset p r = .ok (p', s')) : InType p' := by
  unfold setOffset at h
  split at h
  · cases h
  · split at h
    · rename_i q hset
      injection h with h; injection h with h1 _; subst h1
      exact set_offset _ _ _ hp hset
    · cases h

theorem setField_inType (set : Parsed → Int → PRes Parsed)
    (hset : ∀ p p' v, InType p → set p v = .ok p' → InType p')
    (p : Parsed) (r : PRes (List Nat × Int)) (p' : Parsed) (s' : List Nat) (hp : InType p)
    (h : setField set p r = .ok (p', s')) : InType p' := by
  obtain ⟨v, _, hs⟩ := (Rfc3339.setField_ok_iff set p r p' s').mp h
  exact hset p p' v hp hs

theorem parseFixedBase_inType (p : Parsed) (s : List Nat) (f : Fixed) (p' : Parsed) (s' : List Nat)
    (hp : InType p) (h : parseFixedBase p s f = .ok (p', s')) : InType p' := by
  cases f <;> unfold parseFixedBase at h <;> simp only at h
  all_goals repeat' split at h
  all_goals first
    | exact set_month _ _ _ hp (map_pair_inv _ _ _ _ h)
    | exact set_weekday _ _ _ hp (map_pair_inv _ _ _ _ h)
    | exact set_ampm _ _ _ hp (map_pair_inv _ _ _ _ h)
    | exact setNano_inType _ _ _ _ hp h
    | exact setOffset_inType _ _ _ _ hp h
    | (injection h with h; injection h with h1 _; rw [← h1]; exact hp)
    | cases h

theorem parseItemBase_inType (p : Parsed) (s : List Nat) (it : Item) (p' : Parsed) (s' : List Nat)
    (hp : InType p) (h : parseItemBase p s it = .ok (p', s')) : InType p' := by
  unfold parseItemBase at h
  split at h
  · cases hl : parseLiteral s _ with
    | error e => rw [hl] at h; cases h
    | ok q => rw [hl] at h; injection h with h; injection h with h1 _; rw [← h1]; exact hp
  · injection h with h; injection h with h1 _; rw [← h1]; exact hp
  · exact parseNumeric_inType _ _ _ _ _ hp h
  · exact parseFixedBase_inType _ _ _ _ _ hp h
  · cases h

theorem parseItemsBase_inType : ∀ (items : List Item) (p : Parsed) (s : List Nat) (p' : Parsed) (s' : List Nat),
    InType p → parseItemsBase p s items = .ok (p', s') → InType p' := by
  intro items
  induction items with
  | nil =>
    intro p s p' s' hp h
    unfold parseItemsBase at h
    injection h with h; injection h with h1 _; rw [← h1]; exact hp
  | cons it rest ih =>
    intro p s p' s' hp h
    unfold parseItemsBase at h
    split at h
    · rename_i p1 s1 h1
      exact ih p1 s1 p' s' (parseItemBase_inType _ _ _ _ _ hp h1) h
    · cases h

/-! ### the composite scanners -/

theorem relaxed_inType (p : Parsed) (s : List Nat) (p' : Parsed) (s' : List Nat) (hp : InType p)
    (h : parse_rfc3339_relaxed p s = .ok (p', s')) : InType p' := by
  unfold parse_rfc3339_relaxed at h
  obtain ⟨⟨p1, s1⟩, h1, h⟩ := (Rfc3339.bind_ok_iff _ _ _).mp h
  have hp1 := parseItemsBase_inType _ _ _ _ _ hp h1
  simp only at h
  obtain ⟨s2, _, h⟩ := (Rfc3339.bind_ok_iff _ _ _).mp h
  obtain ⟨⟨p3, s3⟩, h3, h⟩ := (Rfc3339.bind_ok_iff _ _ _).mp h
  have hp3 := parseItemsBase_inType _ _ _ _ _ hp1 h3
  simp only at h
  obtain ⟨⟨s4, off⟩, _, h⟩ := (Rfc3339.bind_ok_iff _ _ _).mp h
  simp only at h
  obtain ⟨p5, h5, h⟩ := (Rfc3339.bind_ok_iff _ _ _).mp h
  injection h with h; injection h with ha _
  rw [← ha]
  exact set_offset _ _ _ hp3 h5

theorem strict_inType (p : Parsed) (s : List Nat) (p' : Parsed) (s' : List Nat) (hp : InType p)
    (h : parse_rfc3339 p s = .ok (p', s')) : InType p' := by
  unfold parse_rfc3339 at h
  obtain ⟨⟨p1, s1⟩, h1, h⟩ := (Rfc3339.bind_ok_iff _ _ _).mp h
  have hp1 := setField_inType _ set_year _ _ _ _ hp h1
  simp only at h
  obtain ⟨s2, _, h⟩ := (Rfc3339.bind_ok_iff _ _ _).mp h
  obtain ⟨⟨p3, s3⟩, h3, h⟩ := (Rfc3339.bind_ok_iff _ _ _).mp h
  have hp3 := setField_inType _ set_month _ _ _ _ hp1 h3
  simp only at h
  obtain ⟨s4, _, h⟩ := (Rfc3339.bind_ok_iff _ _ _).mp h
  obtain ⟨⟨p5, s5⟩, h5, h⟩ := (Rfc3339.bind_ok_iff _ _ _).mp h
  have hp5 := setField_inType _ set_day _ _ _ _ hp3 h5
  simp only at h
  obtain ⟨s6, _, h⟩ := (Rfc3339.bind_ok_iff _ _ _).mp h
  obtain ⟨⟨p7, s7⟩, h7, h⟩ := (Rfc3339.bind_ok_iff _ _ _).mp h
  have hp7 := setField_inType _ set_hour _ _ _ _ hp5 h7
  simp only at h
  obtain ⟨s8, _, h⟩ := (Rfc3339.bind_ok_iff _ _ _).mp h
  obtain ⟨⟨p9, s9⟩, h9, h⟩ := (Rfc3339.bind_ok_iff _ _ _).mp h
  have hp9 := setField_inType _ set_minute _ _ _ _ hp7 h9
  simp only at h
  obtain ⟨s10, _, h⟩ := (Rfc3339.bind_ok_iff _ _ _).mp h
  obtain ⟨⟨p11, s11⟩, h11, h⟩ := (Rfc3339.bind_ok_iff _ _ _).mp h
  have hp11 := setField_inType _ set_second _ _ _ _ hp9 h11
  simp only at h
  obtain ⟨⟨p12, s12⟩, h12, h⟩ := (Rfc3339.bind_ok_iff _ _ _).mp h
  have hp12 : InType p12 := by
    split at h12
    · exact setNano_inType _ _ _ _ hp11 h12
    · injection h12 with h12; injection h12 with ha _; rw [← ha]; exact hp11
  simp only at h
  obtain ⟨⟨s13, off⟩, _, h⟩ := (Rfc3339.bind_ok_iff _ _ _).mp h
  simp only at h
  split at h
  · cases h
  · obtain ⟨p14, h14, h⟩ := (Rfc3339.bind_ok_iff _ _ _).mp h
    injection h with h; injection h with ha _
    rw [← ha]
    exact set_offset _ _ _ hp12 h14

theorem rfc2822_inType (p : Parsed) (s : List Nat) (p' : Parsed) (s' : List Nat) (hp : InType p)
    (h : parse_rfc2822 p s = .ok (p', s')) : InType p' := by
  unfold parse_rfc2822 at h
  simp only at h
  obtain ⟨⟨p1, s1⟩, h1, h⟩ := (Rfc3339.bind_ok_iff _ _ _).mp h
  have hp1 : InType p1 := by
    split at h1
    · split at h1
      · exact set_weekday _ _ _ hp (map_pair_inv _ _ _ _ h1)
      · cases h1
    · injection h1 with h1; injection h1 with ha _; rw [← ha]; exact hp
  simp only at h
  obtain ⟨⟨p2, s2⟩, h2, h⟩ := (Rfc3339.bind_ok_iff _ _ _).mp h
  have hp2 := setField_inType _ set_day _ _ _ _ hp1 h2
  simp only at h
  obtain ⟨s3, _, h⟩ := (Rfc3339.bind_ok_iff _ _ _).mp h
  obtain ⟨⟨p4, s4⟩, h4, h⟩ := (Rfc3339.bind_ok_iff _ _ _).mp h
  have hp4 : InType p4 := by
    split at h4
    · exact set_month _ _ _ hp2 (map_pair_inv _ _ _ _ h4)
    · cases h4
    · cases h4
  simp only at h
  obtain ⟨s5, _, h⟩ := (Rfc3339.bind_ok_iff _ _ _).mp h
  obtain ⟨⟨s6, year⟩, _, h⟩ := (Rfc3339.bind_ok_iff _ _ _).mp h
  simp only at h
  obtain ⟨p7, h7, h⟩ := (Rfc3339.bind_ok_iff _ _ _).mp h
  have hp7 := set_year _ _ _ hp4 h7
  obtain ⟨s8, _, h⟩ := (Rfc3339.bind_ok_iff _ _ _).mp h
  obtain ⟨⟨p9, s9⟩, h9, h⟩ := (Rfc3339.bind_ok_iff _ _ _).mp h
  have hp9 := setField_inType _ set_hour _ _ _ _ hp7 h9
  simp only at h
  obtain ⟨s10, _, h⟩ := (Rfc3339.bind_ok_iff _ _ _).mp h
  obtain ⟨⟨p11, s11⟩, h11, h⟩ := (Rfc3339.bind_ok_iff _ _ _).mp h
  have hp11 := setField_inType _ set_minute _ _ _ _ hp9 h11
  simp only at h
  obtain ⟨⟨p12, s12⟩, h12, h⟩ := (Rfc3339.bind_ok_iff _ _ _).mp h
  have hp12 : InType p12 := by
    split at h12
    · exact setField_inType _ set_second _ _ _ _ hp11 h12
    · injection h12 with h12; injection h12 with ha _; rw [← ha]; exact hp11
  simp only at h
  obtain ⟨s13, _, h⟩ := (Rfc3339.bind_ok_iff _ _ _).mp h
  obtain ⟨⟨s14, off⟩, _, h⟩ := (Rfc3339.bind_ok_iff _ _ _).mp h
  simp only at h
  obtain ⟨p15, h15, h⟩ := (Rfc3339.bind_ok_iff _ _ _).mp h
  injection h with h; injection h with ha _
  rw [← ha]
  exact set_offset _ _ _ hp12 h15

/-! ### the item-driven parser -/

/-- **every record `parse_internal` can build is in type**, whatever the text, whatever the items
(format-string items, `RFC2822`, `RFC3339` and `Error` items included), from any in-type record -/
theorem parse_internal_inType : ∀ (items : List Item) (p : Parsed) (s : List Nat) (p' : Parsed) (s' : List Nat),
    InType p → parse_internal p s items = .ok (p', s') → InType p' := by
  intro items
  induction items with
  | nil =>
    intro p s p' s' hp h
    unfold parse_internal at h
    injection h with h; injection h with h1 _; rw [← h1]; exact hp
  | cons it rest ih =>
    intro p s p' s' hp h
    unfold parse_internal at h
    simp only at h
    split at h
    · rename_i p1 s1 h1
      refine ih p1 s1 p' s' ?_ h
      split at h1
      · exact rfc2822_inType _ _ _ _ hp h1
      · exact relaxed_inType _ _ _ _ hp h1
      · exact parseItemBase_inType _ _ _ _ _ hp h1
    · cases h

/-- the same for `format::parse` (everything consumed) -/
theorem parse_inType (items : List Item) (p : Parsed) (s : List Nat) (p' : Parsed)
    (hp : InType p) (h : parse p s items = .ok p') : InType p' := by
  unfold parse at h
  split at h
  · rename_i q hq
    injection h with h; subst h
    exact parse_internal_inType items p s _ _ hp hq
  · cases h
  · cases h

end Chrono.Proofs.ParseInType
