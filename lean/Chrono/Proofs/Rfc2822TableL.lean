/-
  C11, audit-2 gap G1 (data-extraction variant): interpreters of the data that
  tools/extractors/rfc2822_rules.py re-extracts from the Rust source on every run
  (`Extracted.YEAR_RULE_2822`, `YEAR_GUARD_2822`, `WRITE_2822`, `WRITE_HUNDREDS`), and the lemmas that the
  interpreted data are the hand-written models.  The interpreters give every opcode of the extractor its
  meaning in terms of the model's leaf writers; nothing here knows the literals of the source.
-/
import Chrono.Model.Format
import Chrono.Extracted.Rfc2822Rules
namespace Chrono.Proofs.Rfc2822Table
open Chrono Chrono.M Chrono.M.Format Chrono.Extracted

/-! ### the year rule: a Rust `match` on `(yearlen, year)` with literal / range / wildcard patterns -/

/-- does the arm `(len pattern, year pattern, _)` match `(len, year)`? -/
def armMatches (arm : Option Nat × Option (Int × Int) × Int) (len : Nat) (year : Int) : Bool :=
  (match arm.1 with | none => true | some l => decide (len = l)) &&
  (match arm.2.1 with | none => true | some (lo, hi) => decide (lo ≤ year) && decide (year ≤ hi))

/-- first matching arm, its `year += N` applied; an exhausted list leaves the year as it is (a Rust `match`
is exhaustive: `year_table_total` shows the extracted list ends in the wildcard arm) -/
def applyYearRule : List (Option Nat × Option (Int × Int) × Int) → Nat → Int → Int
  | [], _, year => year
  | arm :: rest, len, year => if armMatches arm len year then year + arm.2.2 else applyYearRule rest len year

/-! ### `write_hundreds` -/

/-- `if n >= L { Err } else { write_char(b'0' + n / D); write_char(b'0' + n % M) }` -/
def interpHundreds (t : Int × Int × Int × Int) (n : Int) : W :=
  if n ≥ t.1 then werr else wok [(t.2.1 + n / t.2.2.1).toNat, (t.2.1 + n % t.2.2.2).toNat]

/-! ### `write_rfc2822`: one output statement per opcode -/

def precOf : Int → OffsetPrecision
  | 0 => .hours | 1 => .minutes | 2 => .seconds | 3 => .optionalMinutes | 4 => .optionalSeconds
  | _ => .optionalMinutesAndSeconds
def colonsOf : Int → Colons
  | 0 => .none | 1 => .colon | _ => .maybe
def padOf : Int → Pad
  | 0 => .none | 1 => .zero | _ => .space

/-- the statement `(opcode, literal arguments)` on the value `dt`, offset `off` (`month`, `day` = the
already evaluated accessors) -/
def stepW (dt : NaiveDT) (off : Int) (month day : Nat) (st : Nat × List Int) : W :=
  match st with
  | (0, bs) => wok (bs.map Int.toNat)
  | (1, []) => wok (LOC_SHORT_WEEKDAYS.getD dt.date.weekday.num_days_from_sunday [])
  | (2, [a, z]) => if day < a.toNat then wok (pushChar (z + asU8 day).toNat) else write_hundreds (asU8 day)
  | (3, []) => wok (LOC_SHORT_MONTHS.getD (month - 1) [])
  | (4, [a]) => write_hundreds (asU8 (Int.tdiv dt.date.year a))
  | (5, [a]) => write_hundreds (asU8 (Int.tmod dt.date.year a))
  | (6, []) => write_hundreds (asU8 dt.time.hms.1)
  | (7, []) => write_hundreds (asU8 dt.time.hms.2.1)
  | (8, [a]) => write_hundreds (asU8 (dt.time.hms.2.2 + dt.time.nanosecond / a))
  | (9, [p, c, z, pd]) => OffsetFormat.format ⟨precOf p, colonsOf c, decide (z ≠ 0), padOf pd⟩ off
  | _ => werr

/-- `a?; b?; …; last` -/
def seqAll : List W → W
  | [] => wok []
  | [a] => a
  | a :: b :: rest => a.seq (seqAll (b :: rest))

/-- the guard, then the statements in order -/
def interpWrite (guard : Int × Int) (steps : List (Nat × List Int)) (dt : NaiveDT) (off : Int) : W :=
  if ¬ (guard.1 ≤ dt.date.year ∧ dt.date.year ≤ guard.2) then werr else
  W.ofRes dt.date.month fun month =>
  W.ofRes dt.date.day fun day =>
  seqAll (steps.map (stepW dt off month day))

/-! ### the interpreted data are the models -/

theorem hundreds_eq (n : Int) : interpHundreds WRITE_HUNDREDS n = write_hundreds n := rfl

theorem write_eq (dt : NaiveDT) (off : Int) :
    interpWrite YEAR_GUARD_2822 WRITE_2822 dt off = write_rfc2822 dt off := rfl

/-- the extracted arms, applied, are the `if` chain of the model `Parse.parse_rfc2822` (the expression
between `number s 2 none` and `Parsed.set_year`) -/
theorem year_rule_model (yearlen : Nat) (year : Int) :
    applyYearRule YEAR_RULE_2822 yearlen year =
      (if yearlen = 2 ∧ 0 ≤ year ∧ year ≤ 49 then year + 2000
       else if yearlen = 2 ∧ 50 ≤ year ∧ year ≤ 99 then year + 1900
       else if yearlen = 3 then year + 1900
       else year) := by
  simp only [YEAR_RULE_2822, applyYearRule, armMatches, Bool.and_eq_true, decide_eq_true_eq,
    Bool.and_true, if_true, Int.add_zero]

end Chrono.Proofs.Rfc2822Table
