/- Helper lemmas for C19, second batch (conversion tables, set extras).  No property statements here. -/
import Chrono.Proofs.WeekdayL
import Chrono.Model.WeekdayConv
import Chrono.Model.WeekdaySetX
import Chrono.Spec.WeekdayLitSpec

namespace Chrono.Proofs.WeekdayConv
open Chrono Chrono.M Chrono.Spec Chrono.Proofs

/-- a `match` table with distinct literals and a rejecting wildcard arm returns `v` for `n` exactly
when `(n, v)` is one of its arms -/
theorem matchArms_none_iff (arms : List (Int × Nat)) (hnd : (arms.map Prod.fst).Nodup)
    (n : Int) (v : Nat) : Conv.matchArms arms none n = some v ↔ (n, v) ∈ arms := by
  induction arms with
  | nil => simp [Conv.matchArms]
  | cons p rest ih =>
    obtain ⟨k, x⟩ := p
    simp only [List.map_cons, List.nodup_cons] at hnd
    obtain ⟨hk, hrest⟩ := hnd
    rw [Conv.matchArms]
    by_cases h : n = k
    · subst h
      rw [if_pos rfl]
      constructor
      · intro hv
        simp only [Option.some.injEq] at hv
        subst hv
        exact List.mem_cons_self
      · intro hm
        rcases List.mem_cons.mp hm with hm | hm
        · simp only [Prod.mk.injEq] at hm
          rw [hm.2]
        · exfalso
          exact hk (List.mem_map.mpr ⟨(n, v), hm, rfl⟩)
    · rw [if_neg h, ih hrest]
      constructor
      · intro hm; exact List.mem_cons_of_mem _ hm
      · intro hm
        rcases List.mem_cons.mp hm with hm | hm
        · simp only [Prod.mk.injEq] at hm
          exact absurd hm.1 h
        · exact hm

/-- the generic step from "this extracted table is the numbering of the type, arm by arm" to "the
lookup accepts exactly the number of each value" -/
theorem conv_iff_of_table {α : Type} (all : List α) (num : α → Int) (disc : α → Nat)
    (ofDisc : Nat → Option α) (arms : List (Int × Nat))
    (htab : arms = all.map (fun a => (num a, disc a)))
    (hnum : (all.map num).Nodup)
    (hof : ∀ i a, ofDisc i = some a ↔ i = disc a)
    (hinj : ∀ a b, disc a = disc b → a = b)
    (hall : ∀ a, a ∈ all) (n : Int) (a : α) :
    (Conv.matchArms arms none n).bind ofDisc = some a ↔ n = num a := by
  have hnd : (arms.map Prod.fst).Nodup := by
    rw [htab, List.map_map]
    exact hnum
  constructor
  · intro h
    cases hm : Conv.matchArms arms none n with
    | none => rw [hm] at h; cases h
    | some v =>
      rw [hm] at h
      simp only [Option.bind_some] at h
      have hv := (hof v a).mp h
      have hmem := (matchArms_none_iff arms hnd n v).mp hm
      rw [htab] at hmem
      obtain ⟨b, _, hb⟩ := List.mem_map.mp hmem
      simp only [Prod.mk.injEq] at hb
      have : b = a := hinj b a (by rw [hb.2, hv])
      rw [← this, hb.1]
  · intro h
    have hmem : (n, disc a) ∈ arms := by
      rw [htab]
      exact List.mem_map.mpr ⟨a, hall a, by rw [h]⟩
    rw [(matchArms_none_iff arms hnd n (disc a)).mpr hmem]
    simp only [Option.bind_some]
    exact (hof _ a).mpr rfl

theorem weekday_ofDisc_iff (i : Nat) (w : Weekday) : Weekday.ofDisc i = some w ↔ i = w.toNat :=
  weekdayOfIdx_iff i w

theorem month_ofDisc_iff (i : Nat) (m : Month) : Month.ofDisc i = some m ↔ i = m.toNat := by
  unfold Month.ofDisc Month.all
  constructor
  · intro h
    match i, h with
    | 0, h | 1, h | 2, h | 3, h | 4, h | 5, h | 6, h | 7, h | 8, h | 9, h | 10, h | 11, h =>
      simp at h; subst h; rfl
    | n + 12, h => simp at h
  · intro h; subst h; cases m <;> rfl

theorem weekday_toNat_inj (a b : Weekday) (h : a.toNat = b.toNat) : a = b := by
  cases a <;> cases b <;> first | rfl | (exact absurd h (by decide))

theorem month_toNat_inj (a b : Month) (h : a.toNat = b.toNat) : a = b := by
  cases a <;> cases b <;> first | rfl | (exact absurd h (by decide))

/-- a weekday table that is the numbering `0 … 6` arm by arm accepts exactly `w.toNat` for `w` -/
theorem weekday_table_iff (arms : List (Int × Nat))
    (htab : arms = Weekday.all.map (fun w => ((w.toNat : Int), w.toNat))) (n : Int) (w : Weekday) :
    (Conv.matchArms arms none n).bind Weekday.ofDisc = some w ↔ n = w.toNat :=
  conv_iff_of_table Weekday.all (fun w => (w.toNat : Int)) Weekday.toNat Weekday.ofDisc arms htab
    (by decide) weekday_ofDisc_iff weekday_toNat_inj weekday_all_complete n w

/-- a month table that is the numbering `1 … 12` arm by arm accepts exactly `number_from_month` -/
theorem month_table_iff (arms : List (Int × Nat))
    (htab : arms = Month.all.map (fun m => ((m.number_from_month : Int), m.toNat))) (n : Int) (m : Month) :
    (Conv.matchArms arms none n).bind Month.ofDisc = some m ↔ n = m.number_from_month :=
  conv_iff_of_table Month.all (fun m => (m.number_from_month : Int)) Month.toNat Month.ofDisc arms htab
    (by decide) month_ofDisc_iff month_toNat_inj month_all_complete n m

/-- range-checked forwarding keeps an iff whose right-hand side is a small non-negative number -/
theorem via_checked_iff {α : Type} (f : Int → Option α) (n k : Int) (a : α)
    (hf : f n = some a ↔ n = k) (hk : inU32 k = true) :
    (Conv.viaU32 0 n).bind f = some a ↔ n = k := by
  unfold Conv.viaU32
  rw [if_pos rfl]
  by_cases hu : inU32 n = true
  · rw [if_pos hu]; simp only [Option.bind_some]; exact hf
  · rw [if_neg hu]
    constructor
    · intro h; cases h
    · intro h; subst h; exact absurd hk hu

theorem to_i64_bind_iff {α : Type} (f : Int → Option α) (n k : Int) (a : α)
    (hf : f n = some a ↔ n = k) (hk : inI64 k = true) :
    (Conv.NumTraits.to_i64 n).bind f = some a ↔ n = k := by
  unfold Conv.NumTraits.to_i64
  by_cases hu : inI64 n = true
  · rw [if_pos hu]; simp only [Option.bind_some]; exact hf
  · rw [if_neg hu]
    constructor
    · intro h; cases h
    · intro h; subst h; exact absurd hk hu

theorem to_u64_bind_iff {α : Type} (f : Int → Option α) (n k : Int) (a : α)
    (hf : f n = some a ↔ n = k) (hk : inU64 k = true) :
    (Conv.NumTraits.to_u64 n).bind f = some a ↔ n = k := by
  unfold Conv.NumTraits.to_u64
  by_cases hu : inU64 n = true
  · rw [if_pos hu]; simp only [Option.bind_some]; exact hf
  · rw [if_neg hu]
    constructor
    · intro h; cases h
    · intro h; subst h; exact absurd hk hu

/-! ### iterator: fusedness -/

/-- a front pull that returns `None` left the iterator unchanged and the set is empty -/
theorem next_none (it it' : WeekdaySet.Iter) (h : it.next = .ok (none, it')) :
    WeekdaySet.is_empty it.days = true ∧ it' = it := by
  unfold WeekdaySet.Iter.next at h
  by_cases he : WeekdaySet.is_empty it.days = true
  · rw [if_pos he] at h
    injection h with h
    injection h with _ h
    exact ⟨he, h.symm⟩
  · rw [if_neg he] at h
    exfalso
    revert h
    dsimp only
    split
    · intro h; injection h with h; injection h with h _; cases h
    · intro h; cases h

theorem next_back_none (it it' : WeekdaySet.Iter) (h : it.next_back = .ok (none, it')) :
    WeekdaySet.is_empty it.days = true ∧ it' = it := by
  unfold WeekdaySet.Iter.next_back at h
  by_cases he : WeekdaySet.is_empty it.days = true
  · rw [if_pos he] at h
    injection h with h
    injection h with _ h
    exact ⟨he, h.symm⟩
  · rw [if_neg he] at h
    exfalso
    revert h
    dsimp only
    split
    · intro h; injection h with h; injection h with h _; cases h
    · intro h; cases h

theorem empty_next (it : WeekdaySet.Iter) (he : WeekdaySet.is_empty it.days = true) :
    it.next = .ok (none, it) ∧ it.next_back = .ok (none, it) := by
  unfold WeekdaySet.Iter.next WeekdaySet.Iter.next_back
  rw [if_pos he, if_pos he]
  exact ⟨rfl, rfl⟩

theorem empty_runSchedule (sched : List Bool) (it : WeekdaySet.Iter)
    (he : WeekdaySet.is_empty it.days = true) :
    WeekdaySet.runSchedule sched it = .ok ([], [], it) := by
  induction sched with
  | nil => rfl
  | cons b bs ih =>
    obtain ⟨h1, h2⟩ := empty_next it he
    cases b
    · simp only [WeekdaySet.runSchedule, Bool.false_eq_true, if_false, h2, ih]
    · simp only [WeekdaySet.runSchedule, if_true, h1, ih]

end Chrono.Proofs.WeekdayConv
