/-
  C16, part 2: `TimeZone::validate` characterised.
  * the copy of the rule lookup that `validate`'s model calls (`find_ltt_for_validate`, three-valued,
    every arithmetic step checked) equals C05's model `TransitionRule::find_local_time_type`
    (`Option`-valued, unchecked arithmetic) on every rule `from_tz_string` can build;
  * `unix_leap_time_to_unix_time` equals its specification `leapToUnix`;
  * `validate z = ok ()` iff the structural conditions and `RuleAgrees z` hold.
-/
import Chrono.Spec.TzValidSpec
import Chrono.Proofs.TzEncL
import Chrono.Proofs.TzLookupL

set_option linter.unusedSimpArgs false
set_option linter.unusedVariables false

namespace Chrono.Proofs.TzValid
open Chrono Chrono.M.Tz Chrono.Spec.Tz Chrono.Proofs Chrono.Proofs.Tz

/-- `Result<T, Error>` of the `Option` models as the three-valued result of the `P` models -/
def toP {α} : Option α → P α
  | some a => .ok a
  | none => .err

/-! ### the second calendar, both copies -/

theorem leap_same (y : Int) : M.Tz.is_leap_year y = M.TzL.is_leap_year y := rfl

theorem bsearch_rank (l : List Int) (k : Int) : bsearchUpper l k = M.TzL.rankLE l k := by
  unfold bsearchUpper
  induction l with
  | nil => rfl
  | cons x xs ih =>
    simp only [List.takeWhile_cons, M.TzL.rankLE]
    by_cases c : x ≤ k
    · simp only [c, decide_true, if_true, List.length_cons, ih]
    · simp only [c, decide_false, if_false, List.length_nil, Bool.false_eq_true]

theorem ck64_np {x : Int} (h : ck64 x ≠ .panic) : ck64 x = .ok x := by
  unfold ck64 at *
  split
  · rfl
  · rename_i g; rw [if_neg g] at h; exact absurd rfl h

theorem idxI_getD (l : List Int) (i : Nat) (h : i < l.length) : idxI l i = .ok (l.getD i 0) := by
  unfold idxI
  rw [List.getElem?_eq_getElem h]
  simp [List.getD, List.getElem?_eq_getElem h]

theorem dse_val (y : Int) (m : Nat) (d : Int) (hy : I32r y) (hm : 1 ≤ m ∧ m ≤ 12)
    (hd : -100 ≤ d ∧ d ≤ 100) :
    M.Tz.days_since_unix_epoch y m d = .ok (M.TzL.days_since_unix_epoch y m d) := by
  have hp : M.Tz.days_since_unix_epoch y m d ≠ .panic := post_np (post_days y m d hy hm hd)
  have e : M.Tz.days_since_unix_epoch y m d = ck64 (M.TzL.days_since_unix_epoch y m d) := by
    unfold M.Tz.days_since_unix_epoch M.TzL.days_since_unix_epoch
    rw [if_neg (by omega)]
    rw [idxI_getD _ _ (by show m - 1 < 12; omega)]
    rfl
  rw [e] at hp ⊢
  exact ck64_np hp

theorem dse_bound (y : Int) (m : Nat) (d : Int) (hy : I32r y) (hm : 1 ≤ m ∧ m ≤ 12)
    (hd : -100 ≤ d ∧ d ≤ 100) :
    -800000000000 ≤ M.TzL.days_since_unix_epoch y m d ∧ M.TzL.days_since_unix_epoch y m d ≤ 800000000000 :=
  post_spec (post_days y m d hy hm hd) (dse_val y m d hy hm hd)

theorem rank_pos (x : Int) (xs : List Int) (k : Int) (h : x ≤ k) : 0 < M.TzL.rankLE (x :: xs) k := by
  simp [M.TzL.rankLE, h]

theorem rank_le_len (l : List Int) (k : Int) : M.TzL.rankLE l k ≤ l.length := by
  induction l with
  | nil => simp [M.TzL.rankLE]
  | cons x xs ih =>
    simp only [M.TzL.rankLE]
    split
    · simp; omega
    · simp

theorem julian0Date_val (lp : Int) (n : Nat) :
    julian0Date lp (n : Int) = .ok (M.TzL.rankLE (cumulLeap lp) (n : Int),
      1 + (n : Int) - (cumulLeap lp).getD (M.TzL.rankLE (cumulLeap lp) (n : Int) - 1) 0) := by
  unfold julian0Date
  rw [bsearch_rank]
  have h1 : 0 < M.TzL.rankLE (cumulLeap lp) (n : Int) := rank_pos _ _ _ (by omega)
  have h2 := rank_le_len (cumulLeap lp) (n : Int)
  have h3 : (cumulLeap lp).length = 12 := rfl
  rw [if_neg (by omega), idxI_getD _ _ (by omega)]
  rfl

theorem transition_date_val (d : RuleDay) (y : Int) (hd : DayOk d) (hy : I32r y) :
    d.transition_date y = .ok (M.TzL.transition_date d y) := by
  cases d with
  | julian1 n =>
    simp only [DayOk] at hd
    simp only [RuleDay.transition_date, julian1Date, M.TzL.transition_date, bsearch_rank]
    have h1 : 0 < M.TzL.rankLE Extracted.TzP.CUMUL_DAY_IN_MONTHS_NORMAL_YEAR ((n : Int) - 1) :=
      rank_pos _ _ _ (by omega)
    have h2 := rank_le_len Extracted.TzP.CUMUL_DAY_IN_MONTHS_NORMAL_YEAR ((n : Int) - 1)
    rw [if_neg (by omega), idxI_getD _ _ (by omega)]
    rfl
  | julian0 n =>
    simp only [RuleDay.transition_date]
    rw [julian0Date_val]
    rfl
  | mwd m w wd =>
    simp only [DayOk] at hd
    simp only [RuleDay.transition_date, M.TzL.transition_date]
    rw [if_neg (by omega), idxI_getD _ _ (by show m - 1 < 12; omega)]
    simp only [P.bind_ok]
    rw [dse_val y m 1 hy ⟨hd.1, hd.2.1⟩ (by omega)]
    rfl

theorem unix_time_val (d : RuleDay) (y t : Int) (hd : DayOk d) (hy : I32r y)
    (ht : -1000000 ≤ t ∧ t ≤ 1000000) : d.unix_time y t = .ok (M.TzL.unix_time d y t) := by
  have hdv : DateV (M.TzL.transition_date d y) :=
    post_spec (post_transition_date d y hd hy) (transition_date_val d y hd hy)
  obtain ⟨h1, h2, h3, h4⟩ := hdv
  unfold RuleDay.unix_time M.TzL.unix_time
  rw [transition_date_val d y hd hy]
  simp only [P.bind_ok]
  rw [dse_val y _ _ hy ⟨h1, h2⟩ (by omega)]
  simp only [P.bind_ok]
  have hb := dse_bound y (M.TzL.transition_date d y).1 (M.TzL.transition_date d y).2 hy ⟨h1, h2⟩ (by omega)
  have k : Extracted.TzP.SECONDS_PER_DAY = 86400 := rfl
  have k' : Extracted.TzL.SECONDS_PER_DAY = 86400 := rfl
  rw [k, k', ck64_ok (by omega) (by omega)]
  simp only [P.bind_ok]
  rw [ck64_ok (by omega) (by omega)]

theorem monthLoop_same (l : List Int) : ∀ (rd : Int) (m : Nat),
    (M.TzL.monthLoop l rd (m : Int)).2 = ((M.Tz.monthLoop l rd m : Nat) : Int) := by
  induction l with
  | nil => intro rd m; rfl
  | cons x xs ih =>
    intro rd m
    simp only [M.TzL.monthLoop, M.Tz.monthLoop]
    split
    · rfl
    · have := ih (rd - x) (m + 1)
      rw [← this]
      simp

theorem toP_ite (c : Prop) [Decidable c] (y : Int) (f : M.TzL.UtcDateTime) (hf : f.year = y) :
    (if c then P.ok y else .err) = toP (Option.map (·.year) (if c then some f else none)) := by
  split <;> simp [toP, hf]

theorem from_timespec_year_val (t : Int) :
    from_timespec_year t = toP ((M.TzL.from_timespec t).map (·.year)) := by
  unfold from_timespec_year M.TzL.from_timespec
  have e : Extracted.TzL.UNIX_OFFSET_SECS = Extracted.TzP.UNIX_OFFSET_SECS := rfl
  rw [e]
  cases optI64 (t - Extracted.TzP.UNIX_OFFSET_SECS) with
  | none => rfl
  | some s =>
    have ml0 : ∀ rd, (M.TzL.monthLoop Extracted.TzL.DAY_IN_MONTHS_LEAP_YEAR_FROM_MARCH rd 0).2
        = ((M.Tz.monthLoop Extracted.TzP.DAY_IN_MONTHS_LEAP_YEAR_FROM_MARCH rd 0 : Nat) : Int) :=
      fun rd => monthLoop_same _ rd 0
    have k1 : Extracted.TzL.SECONDS_PER_DAY = Extracted.TzP.SECONDS_PER_DAY := rfl
    have k2 : Extracted.TzL.DAYS_PER_400_YEARS = Extracted.TzP.DAYS_PER_400_YEARS := rfl
    have k3 : Extracted.TzL.DAYS_PER_100_YEARS = Extracted.TzP.DAYS_PER_100_YEARS := rfl
    have k4 : Extracted.TzL.DAYS_PER_4_YEARS = Extracted.TzP.DAYS_PER_4_YEARS := rfl
    have k5 : Extracted.TzL.DAYS_PER_NORMAL_YEAR = Extracted.TzP.DAYS_PER_NORMAL_YEAR := rfl
    have k6 : Extracted.TzL.OFFSET_YEAR = Extracted.TzP.OFFSET_YEAR := rfl
    have k7 : Extracted.TzL.MONTHS_PER_YEAR = Extracted.TzP.MONTHS_PER_YEAR := rfl
    simp only [k1, k2, k3, k4, k5, k6, k7, ml0, Int.natCast_add, Int.cast_ofNat_Int]
    exact toP_ite _ _ _ rfl

/-! ### the rule lookup: `validate`'s checked copy = C05's model -/

theorem alt_find_val (a : Alt) (t : Int) (h : RuleV (.alt a)) :
    a.find_ltt_for_validate t = toP (a.find_local_time_type t) := by
  obtain ⟨hs, hd, hd1, hd2, ht1, ht2, -, -⟩ := h
  unfold LttV at hs hd
  unfold TimeV at ht1 ht2
  unfold Alt.find_ltt_for_validate Alt.find_local_time_type
  rw [from_timespec_year_val]
  cases hft : M.TzL.from_timespec t with
  | none => rfl
  | some dt =>
    simp only [Option.map_some, toP, P.bind_ok]
    have hcy : I32r dt.year := by
      have := post_from_timespec_year t
      rw [from_timespec_year_val, hft] at this
      exact this
    by_cases g : I32_MIN + 2 ≤ dt.year ∧ dt.year ≤ I32_MAX - 2
    · have g' := g
      simp only [I32_MIN, I32_MAX] at g'
      unfold I32r at hcy
      rw [if_neg (by simp [g.1, g.2]), if_pos g]
      rw [unix_time_val _ dt.year _ hd1 hcy (by omega), unix_time_val _ dt.year _ hd2 hcy (by omega)]
      simp only [P.bind_ok]
      rw [ck32_ok (x := dt.year - 1) (by omega) (by omega), ck32_ok (x := dt.year + 1) (by omega) (by omega)]
      simp only [P.bind_ok]
      rw [unix_time_val _ (dt.year - 1) _ hd1 ⟨by omega, by omega⟩ (by omega),
        unix_time_val _ (dt.year - 1) _ hd2 ⟨by omega, by omega⟩ (by omega),
        unix_time_val _ (dt.year + 1) _ hd1 ⟨by omega, by omega⟩ (by omega),
        unix_time_val _ (dt.year + 1) _ hd2 ⟨by omega, by omega⟩ (by omega)]
      simp only [P.bind_ok]
      refine (congrArg (fun x => x >>= fun b => P.ok (if b = true then a.dst else a.std))
        (?_ : _ = P.ok (M.TzL.alt_is_dst a dt.year t))).trans rfl
      unfold M.TzL.alt_is_dst
      simp only []
      repeat' split
      all_goals rfl
    · have g2 : (!(decide (I32_MIN + 2 ≤ dt.year) && decide (dt.year ≤ I32_MAX - 2))) = true := by
        simp only [Bool.not_eq_true', Bool.and_eq_false_iff, decide_eq_false_iff_not]
        by_cases c : I32_MIN + 2 ≤ dt.year
        · exact Or.inr (fun h => g ⟨c, h⟩)
        · exact Or.inl c
      rw [if_pos g2, if_neg g]

/-- the copy of the rule lookup that `validate`'s model calls IS C05's model of
`TransitionRule::find_local_time_type`, on every rule `from_tz_string` can build -/
theorem rule_find_val (r : Rule) (t : Int) (h : RuleV r) :
    r.find_ltt_for_validate t = toP (r.find_local_time_type t) := by
  cases r with
  | fixed x => rfl
  | alt a => exact alt_find_val a t h

/-! ### `unix_leap_time_to_unix_time` -/

theorem bsearch_le_len (l : List Int) (k : Int) : bsearchUpper l k ≤ l.length :=
  takeWhile_len_le _ _

theorem filter_nil_of_ge (ls : List LeapSecond) (k : Int) (h : ∀ l ∈ ls, k ≤ l.time) :
    ls.filter (fun l => decide (l.time < k)) = [] := by
  rw [List.filter_eq_nil_iff]
  intro a ha
  have := h a ha
  simp only [decide_eq_true_eq]; omega

/-- on a sorted leap-second table: the last record strictly before `k`, by binary-search rank -/
theorem leap_last (ls : List LeapSecond) (k : Int) (hs : LeapsSorted ls) :
    (ls.filter (fun l => decide (l.time < k))).getLast? =
      (if 0 < bsearchUpper (ls.map (·.time)) (k - 1)
        then ls[bsearchUpper (ls.map (·.time)) (k - 1) - 1]? else none) := by
  induction ls with
  | nil => simp [bsearchUpper]
  | cons x xs ih =>
    have hs' : LeapsSorted xs := (List.pairwise_cons.mp hs).2
    have hx := (List.pairwise_cons.mp hs).1
    have hb : bsearchUpper ((x :: xs).map (·.time)) (k - 1)
        = if x.time ≤ k - 1 then bsearchUpper (xs.map (·.time)) (k - 1) + 1 else 0 := by
      simp only [bsearchUpper, List.map_cons, List.takeWhile_cons]
      by_cases c : x.time ≤ k - 1 <;> simp [c]
    rw [hb]
    by_cases c : x.time < k
    · have c' : x.time ≤ k - 1 := by omega
      simp only [List.filter_cons, c, decide_true, if_true, c']
      rw [List.getLast?_cons, ih hs']
      have hle := bsearch_le_len (xs.map (·.time)) (k - 1)
      simp only [List.length_map] at hle
      by_cases g : 0 < bsearchUpper (xs.map (·.time)) (k - 1)
      · have e : bsearchUpper (xs.map (·.time)) (k - 1) + 1 - 1
            = (bsearchUpper (xs.map (·.time)) (k - 1) - 1) + 1 := by omega
        have hlt : bsearchUpper (xs.map (·.time)) (k - 1) - 1 < xs.length := by omega
        simp only [g, if_true, e, List.getElem?_cons_succ, List.getElem?_eq_getElem hlt,
          Option.getD_some, Nat.zero_lt_succ]
      · have g0 : bsearchUpper (xs.map (·.time)) (k - 1) = 0 := by omega
        simp [g0]
    · have c' : ¬ x.time ≤ k - 1 := by omega
      rw [filter_nil_of_ge]
      · simp [c']
      · intro l hl
        rcases List.mem_cons.mp hl with e | e
        · subst e; omega
        · have := hx l e; omega

theorem ulttut_val (leaps : List LeapSecond) (t : Int) (ht : I64r t) (hs : LeapsSorted leaps) :
    unix_leap_time_to_unix_time leaps t = toP (leapToUnix leaps t) := by
  unfold unix_leap_time_to_unix_time leapToUnix
  unfold I64r at ht
  by_cases g : t = I64_MIN
  · rw [if_pos g, if_pos g]; rfl
  · rw [if_neg g, if_neg g]
    have g' := g
    simp only [I64_MIN] at g'
    rw [ck64_ok (by omega) (by omega)]
    simp only [P.bind_ok]
    unfold leapCorrBefore
    rw [leap_last leaps t hs]
    have hle := bsearch_le_len (leaps.map (·.time)) (t - 1)
    simp only [List.length_map] at hle
    generalize bsearchUpper (leaps.map (·.time)) (t - 1) = idx at hle ⊢
    by_cases c : idx > 0
    · have c2 : 0 < idx := c
      have hlt : idx - 1 < leaps.length := by omega
      rw [if_pos c, if_pos c2, List.getElem?_eq_getElem hlt]
      simp only [P.bind_ok]
      cases optI64 (t - leaps[idx - 1].corr) <;> rfl
    · have c2 : ¬ 0 < idx := c
      rw [if_neg c, if_neg c2]
      simp only [P.bind_ok]
      cases optI64 (t - 0) <;> rfl

theorem satI64_gt (d : Int) (h : M.Tz.satI64 d ≥ Extracted.TzP.SECONDS_PER_28_DAYS - 1) : 0 < d := by
  have k : Extracted.TzP.SECONDS_PER_28_DAYS = 2419200 := rfl
  unfold M.Tz.satI64 at h
  simp only [I64_MAX, I64_MIN, k] at h
  omega

theorem checkLeapPairs_sorted (ls : List LeapSecond) (h : checkLeapPairs ls = true) : LeapsSorted ls := by
  induction ls with
  | nil => exact List.Pairwise.nil
  | cons x0 rest ih =>
    simp only [checkLeapPairs, Bool.and_eq_true] at h
    have hr := ih h.2
    refine List.pairwise_cons.mpr ⟨?_, hr⟩
    cases rest with
    | nil => intro y hy; cases hy
    | cons x1 r2 =>
      have h1 := h.1
      simp only [Bool.and_eq_true, decide_eq_true_eq] at h1
      have lt01 : x0.time < x1.time := by have := satI64_gt _ h1.1; omega
      intro y hy
      rcases List.mem_cons.mp hy with e | e
      · subst e; exact lt01
      · have := (List.pairwise_cons.mp hr).1 y e; omega

theorem checkLeaps_sorted (ls : List LeapSecond) (h : checkLeaps ls = true) : LeapsSorted ls := by
  unfold checkLeaps at h
  simp only [Bool.and_eq_true] at h
  exact checkLeapPairs_sorted ls h.2

/-! ### `validate` -/

theorem ltt_check_iff (a b : Ltt) :
    (a.off == b.off && a.dst == b.dst && nameEq a.name b.name) = true ↔ a = b := by
  obtain ⟨ao, ad, an⟩ := a
  obtain ⟨bo, bd, bn⟩ := b
  simp only [Bool.and_eq_true, beq_iff_eq, Ltt.mk.injEq]
  have hn : nameEq an bn = true ↔ an = bn := by
    cases an <;> cases bn <;> simp [nameEq]
  rw [hn, and_assoc]

theorem toP_ok {α} {o : Option α} {a : α} : toP o = .ok a ↔ o = some a := by
  cases o <;> simp [toP]

/-- the rule/transition part of `validate`, given the structural checks -/
theorem agree_core (leaps : List LeapSecond) (rule : Rule) (lastTime : Int) (lt : Ltt)
    (ht : I64r lastTime) (hr : RuleV rule) (hl : checkLeaps leaps = true) :
    (unix_leap_time_to_unix_time leaps lastTime >>= fun unix_time =>
      rule.find_ltt_for_validate unix_time >>= fun rule_ltt =>
      if lt.off == rule_ltt.off && lt.dst == rule_ltt.dst && nameEq lt.name rule_ltt.name
      then P.ok () else P.err) = P.ok () ↔
    ∃ ut, leapToUnix leaps lastTime = some ut ∧ rule.find_local_time_type ut = some lt := by
  rw [ulttut_val _ _ ht (checkLeaps_sorted _ hl)]
  cases hu : leapToUnix leaps lastTime with
  | none =>
    simp only [toP, P.bind_err]
    constructor
    · intro h; cases h
    · rintro ⟨ut', h1, -⟩; cases h1
  | some ut =>
    simp only [toP, P.bind_ok]
    rw [rule_find_val rule ut hr]
    cases hf : rule.find_local_time_type ut with
    | none =>
      simp only [toP, P.bind_err]
      constructor
      · intro h; cases h
      · rintro ⟨ut', h1, h3⟩
        cases h1
        rw [hf] at h3; cases h3
    | some rl =>
      simp only [toP, P.bind_ok]
      constructor
      · intro h
        split at h
        · rename_i c
          exact ⟨ut, rfl, by rw [hf, (ltt_check_iff _ _).mp c]⟩
        · cases h
      · rintro ⟨ut', h1, h3⟩
        cases h1
        rw [hf] at h3; cases h3
        rw [if_pos ((ltt_check_iff _ _).mpr rfl)]

/-- `TimeZone::validate` characterised: it accepts exactly the zones with at least one local time
type, strictly increasing transitions, type indices in range, a leap-second table meeting its
constraints, and whose rule agrees with the last transition (`RuleAgrees`).  Hypotheses: what the Rust
types guarantee of a constructed `TimeZone` (transition times are `i64`; a rule is one the constructors
`from_tz_string` goes through can build). -/
theorem validate_iff' (z : Zone) (ht : ∀ t ∈ z.transitions, I64r t.time)
    (hr : ∀ r, z.rule = some r → RuleV r) :
    validate z = .ok () ↔
      (z.types ≠ [] ∧ SortedStrict z.transitions ∧ (∀ t ∈ z.transitions, t.idx < z.types.length)
        ∧ checkLeaps z.leaps = true ∧ RuleAgrees z) := by
  unfold validate
  by_cases g0 : z.types.length = 0
  · rw [if_pos g0]
    constructor
    · intro h; cases h
    · rintro ⟨h, -⟩; exact absurd (List.eq_nil_of_length_eq_zero g0) h
  · rw [if_neg g0]
    have hne : z.types ≠ [] := by intro h; apply g0; rw [h]; rfl
    by_cases g1 : checkTransitions z.types.length z.transitions = true
    · rw [if_neg (by simp [g1])]
      have hv := checkTransitions_spec _ _ g1
      by_cases g2 : checkLeaps z.leaps = true
      · rw [if_neg (by simp [g2])]
        suffices hh : _ ↔ RuleAgrees z from
          hh.trans ⟨fun h => ⟨hne, hv.1, hv.2, g2, h⟩, fun h => h.2.2.2.2⟩
        unfold RuleAgrees
        cases hrule : z.rule with
        | none => simp
        | some rule =>
          cases hlast : z.transitions.getLast? with
          | none => simp
          | some last =>
            have hmem : last ∈ z.transitions := List.mem_of_getLast? hlast
            have hi := hv.2 last hmem
            simp only [List.getElem?_eq_getElem hi, P.bind_ok]
            refine (agree_core z.leaps rule last.time z.types[last.idx] (ht last hmem)
              (hr rule hrule) g2).trans ⟨?_, ?_⟩
            · rintro ⟨ut, h1, h2⟩ rule' last' e1 e2
              cases e1; cases e2
              exact ⟨ut, _, h1, List.getElem?_eq_getElem hi, h2⟩
            · intro h
              obtain ⟨ut, t, h1, h2, h3⟩ := h rule last rfl rfl
              rw [List.getElem?_eq_getElem hi] at h2
              cases h2
              exact ⟨ut, h1, h3⟩
      · rw [if_pos (by simp [g2])]
        constructor
        · intro h; cases h
        · rintro ⟨-, -, -, h, -⟩; exact absurd h g2
    · rw [if_pos (by simp [g1])]
      constructor
      · intro h; cases h
      · rintro ⟨-, h1, h2, -, -⟩; exact absurd (checkTransitions_of _ _ h1 h2) g1

/-! ### through C05's specification of a rule -/

theorem dayOk_validDay (d : RuleDay) : DayOk d ↔ TzL.ValidDay d := by
  cases d <;> exact Iff.rfl

/-- C05: under its restriction on rules (`TzL.RuleOk`: transitions more than a day inside the year)
and within ±2^55 s, the rule lookup is the specification `ruleOff` -/
theorem rule_find_spec (r : Rule) (t : Int) (hr : TzL.RuleOk (some r))
    (h : -36028797018963968 ≤ t ∧ t ≤ 36028797018963968) :
    r.find_local_time_type t = some (Spec.Zone.ruleOff r t) := by
  cases r with
  | fixed l => rfl
  | alt a => exact TzL.alt_find_ruleOff a hr.1 hr.2.1 t hr.2.2 h

theorem ruleAgrees_iff_spec' (z : Zone) (hr : TzL.RuleOk z.rule)
    (hb : ∀ last ut, z.transitions.getLast? = some last → leapToUnix z.leaps last.time = some ut →
      -36028797018963968 ≤ ut ∧ ut ≤ 36028797018963968) :
    RuleAgrees z ↔ RuleAgreesSpec z := by
  unfold RuleAgrees RuleAgreesSpec
  constructor
  · intro h rule last h1 h2
    obtain ⟨ut, t, e1, e2, e3⟩ := h rule last h1 h2
    rw [rule_find_spec rule ut (h1 ▸ hr) (hb last ut h2 e1)] at e3
    cases e3
    exact ⟨ut, e1, e2⟩
  · intro h rule last h1 h2
    obtain ⟨ut, e1, e2⟩ := h rule last h1 h2
    exact ⟨ut, _, e1, e2, rule_find_spec rule ut (h1 ▸ hr) (hb last ut h2 e1)⟩

theorem leapToUnix_nil (t : Int) (ht : I64r t) (h : t ≠ I64_MIN) : leapToUnix [] t = some t := by
  unfold leapToUnix leapCorrBefore
  unfold I64r at ht
  rw [if_neg h]
  simp only [List.filter_nil, List.getLast?_nil, Int.sub_zero]
  unfold optI64 inI64
  have k1 : I64_MIN = -9223372036854775808 := rfl
  have k2 : I64_MAX = 9223372036854775807 := rfl
  refine ite_pos' _ _ ?_
  simp only [Bool.and_eq_true, decide_eq_true_eq]
  omega

/-! ### the round trip with `validate` replaced by what it means -/

theorem ruleOk_ruleV (ext : Bool) (r : Rule) (h : RuleOk ext r) : RuleV r := by
  have lv : ∀ (t : Ltt) (d : Bool), LttOk t d → LttV t ∧ LttN t d := by
    intro t d ht
    obtain ⟨h1, h2, h3, h4⟩ := ht
    refine ⟨⟨by omega, by omega⟩, h1, ?_⟩
    cases hn : t.name with
    | none => rw [hn] at h2; exact h2.elim
    | some n => rw [hn] at h2; exact ⟨n, rfl, h2⟩
  have tv : ∀ t, TimeOk ext t → TimeV t := by
    intro t ht
    unfold TimeOk at ht
    unfold TimeV
    cases ext
    · have := ht.2 rfl; omega
    · exact ht.1 rfl
  cases r with
  | fixed t => exact lv t false h
  | alt a =>
    obtain ⟨h1, h2, h3, h4, h5, h6⟩ := h
    exact ⟨(lv _ _ h1).1, (lv _ _ h2).1, h3, h4, tv _ h5, tv _ h6, (lv _ _ h1).2, (lv _ _ h2).2⟩

theorem validate_abs (v : Version) (b : Block) (rule : Option Rule) (hs : BlockShape b)
    (hv : BlockVals v 8 b) (hfoot : ∀ r, rule = some r → RuleV r)
    (h1 : SortedStrict (absBlock b rule).transitions)
    (h2 : ∀ t ∈ (absBlock b rule).transitions, t.idx < (absBlock b rule).types.length)
    (h3 : checkLeaps (absBlock b rule).leaps = true) (h4 : RuleAgrees (absBlock b rule)) :
    validate (absBlock b rule) = .ok () := by
  refine (validate_iff' _ ?_ hfoot).mpr ⟨?_, h1, h2, h3, h4⟩
  · intro t ht
    simp only [absBlock, List.mem_map] at ht
    obtain ⟨p, hp, rfl⟩ := ht
    rcases hv.trans p hp with ⟨-, h8, -⟩ | ⟨-, -, h64⟩
    · omega
    · exact h64
  · intro e
    have : b.types.length = 0 := by
      simp only [absBlock] at e
      simpa using congrArg List.length e
    exact hs.ty0 this

theorem tzif_roundtrip_v2_full' (f : TzFile) (hver : f.version ≠ .V1) (hs1 : BlockShape f.v1)
    (hs2 : BlockShape f.v2) (hv : BlockVals f.version 8 f.v2) (rule : Option Rule)
    (hfoot : FooterOk f.version f.footer rule)
    (h1 : SortedStrict (absBlock f.v2 rule).transitions)
    (h2 : ∀ t ∈ (absBlock f.v2 rule).transitions, t.idx < (absBlock f.v2 rule).types.length)
    (h3 : checkLeaps (absBlock f.v2 rule).leaps = true) (h4 : RuleAgrees (absBlock f.v2 rule)) :
    parse (encodeTzif f) = .ok (absBlock f.v2 rule) := by
  refine tzif_roundtrip_v2' f hver hs1 hs2 hv rule hfoot
    (validate_abs f.version f.v2 rule hs2 hv ?_ h1 h2 h3 h4)
  intro r hr
  rcases hfoot with ⟨-, e⟩ | ⟨r', e, hden⟩
  · rw [e] at hr; cases hr
  · rw [e] at hr; cases hr
    exact post_spec (post_from_tz_string _ _) (tz_accepts_all' _ _ _ hden)

/-! ### what the parser guarantees of an accepted zone (for C05's lookup theorems) -/

/-- everything `parse` establishes about the zone it returns -/
def Accepted (z : Zone) : Prop :=
  validate z = .ok () ∧ (∀ t ∈ z.transitions, I64r t.time) ∧ (∀ t ∈ z.types, LttOkZ t)
    ∧ (∀ r, z.rule = some r → RuleV r)

theorem post_parse_accepted (bytes : List Nat) : Post (parse bytes) Accepted := by
  unfold parse
  refine post_bind (post_parseBlocks bytes) ?_
  rintro ⟨st, footer⟩ - hs
  dsimp only at hs ⊢
  unfold parseRest
  have hts : st.time_size = 4 ∨ st.time_size = 8 := by
    rcases hs with h | h
    · exact Or.inl (by simpa using h.2.1)
    · exact Or.inr (by simpa using h.2.1)
  have hh : HeaderV st.header ∧ st.names.length = st.header.char_count := by
    rcases hs with h | h <;> exact ⟨h.1, h.2.2.2.2.2.1⟩
  obtain ⟨hhv, hnames⟩ := hh
  refine post_bind (post_parseTransitions _ _ (by omega) _ ?_) ?_
  · rintro ⟨a, ty⟩ hp
    exact chunks_exact_len _ _ a (List.of_mem_zip hp).1
  · intro tr _ htr
    refine post_bind (post_parseTypes _ _ hnames hhv.2.2.2.2.2.1 _ (chunks_exact_len 6 _)) ?_
    intro ty _ ⟨_, hty⟩
    refine post_bind (post_parseLeaps _ _ hts _ (chunks_exact_len _ _)) ?_
    intro lp _ _
    split
    · exact post_err
    · refine post_bind (Q := fun r => ∀ x, r = some x → RuleV x) ?_ ?_
      · cases footer with
        | none => exact post_ok (by simp)
        | some f => exact post_parseFooter _ _
      · intro r _ hr
        unfold Zone.new
        have hp := post_validate ⟨tr, ty, lp, r⟩ htr hr
        cases hval : validate ⟨tr, ty, lp, r⟩ with
        | ok u => exact post_ok ⟨by cases u; exact hval, htr, hty, hr⟩
        | err => exact post_err
        | panic => rw [hval] at hp; exact hp.elim

theorem sortedStrict_pairwise (l : List Transition) (h : SortedStrict l) : TzL.Sorted l := by
  unfold TzL.Sorted
  induction l with
  | nil => exact List.Pairwise.nil
  | cons a rest ih =>
    cases rest with
    | nil => exact List.pairwise_cons.mpr ⟨fun y hy => (by cases hy), List.Pairwise.nil⟩
    | cons b r2 =>
      obtain ⟨hab, hs⟩ := h
      have hr := ih hs
      refine List.pairwise_cons.mpr ⟨?_, hr⟩
      intro y hy
      rcases List.mem_cons.mp hy with e | e
      · subst e; exact hab
      · have := (List.pairwise_cons.mp hr).1 y e; omega

theorem parsed_zone_wellformed' (bytes : List Nat) (z : Zone) (h : parse bytes = .ok z) :
    Spec.Zone.Valid z ∧ TzL.Sorted z.transitions
      ∧ (∀ i, -2147483648 ≤ (M.TzL.typeAt z i).off ∧ (M.TzL.typeAt z i).off ≤ 2147483647)
      ∧ (∀ t ∈ z.transitions, I64r t.time)
      ∧ (∀ a, z.rule = some (.alt a) → TzL.ValidDay a.dstStart ∧ TzL.ValidDay a.dstEnd)
      ∧ LeapsSorted z.leaps ∧ RuleAgrees z := by
  obtain ⟨hval, htr, hty, hr⟩ := post_spec (post_parse_accepted bytes) h
  obtain ⟨v0, v1, v2, v3, v4⟩ := (validate_iff' z htr hr).mp hval
  have hs := sortedStrict_pairwise _ v1
  refine ⟨⟨v0, v2, hs⟩, hs, ?_, htr, ?_, checkLeaps_sorted _ v3, v4⟩
  · intro i
    unfold M.TzL.typeAt
    by_cases c : i < z.types.length
    · have e : z.types.getD i default = z.types[i] := by simp [List.getD, List.getElem?_eq_getElem c]
      rw [e]
      exact (hty _ (List.getElem_mem c)).1
    · have e : z.types.getD i default = default := by
        simp [List.getD, List.getElem?_eq_none (by omega : z.types.length ≤ i)]
      rw [e]
      exact ⟨(by decide), (by decide)⟩
  · intro a ha
    obtain ⟨-, -, d1, d2, -⟩ := hr _ ha
    exact ⟨(dayOk_validDay _).mp d1, (dayOk_validDay _).mp d2⟩

/-- for an accepted zone without leap-second records whose rule is in C05's scope: at the last
transition `T` the rule's specification prescribes exactly the type the table switches to (the first
clause of C05's `JoinSeparated`, here a consequence of acceptance) -/
theorem parsed_zone_join' (bytes : List Nat) (z : Zone) (h : parse bytes = .ok z) (hl : z.leaps = [])
    (rule : Rule) (last : Transition) (hrule : z.rule = some rule)
    (hlast : z.transitions.getLast? = some last) (hr : TzL.RuleOk (some rule))
    (hb : -36028797018963968 ≤ last.time ∧ last.time ≤ 36028797018963968) :
    Spec.Zone.ruleOff rule last.time = M.TzL.typeAt z last.idx := by
  obtain ⟨hv, -, -, htr, -, -, hag⟩ := parsed_zone_wellformed' bytes z h
  obtain ⟨ut, t, e1, e2, e3⟩ := hag rule last hrule hlast
  have hmem : last ∈ z.transitions := List.mem_of_getLast? hlast
  rw [hl, leapToUnix_nil _ (htr last hmem) (by simp only [I64_MIN]; omega)] at e1
  cases e1
  rw [rule_find_spec rule _ hr hb] at e3
  cases e3
  unfold M.TzL.typeAt
  simp [List.getD, e2]

/-- `sampleV2`'s zone with the last transition (mid-November) switching to DAYLIGHT time: the footer
rule `EST5EDT,M3.2.0,M11.1.0` disagrees -/
def sampleBadZone : Zone :=
  absBlock { sampleV2.v2 with trans := [(1000000000, 1), (1700000000, 1)] } (some sampleRule2)

end Chrono.Proofs.TzValid

/-! ### added for F32: the leap-second records of an accepted zone fit their fields -/
namespace Chrono.Proofs.TzValid
open Chrono Chrono.M.Tz Chrono.Spec.Tz Chrono.Proofs.Tz

theorem post_parse_leaps (bytes : List Nat) : Post (parse bytes) (fun z => ∀ x ∈ z.leaps, LeapOkZ x) := by
  unfold parse
  refine post_bind (post_parseBlocks bytes) ?_
  rintro ⟨st, footer⟩ - hs
  dsimp only at hs ⊢
  unfold parseRest
  have hts : st.time_size = 4 ∨ st.time_size = 8 := by
    rcases hs with h | h
    · exact Or.inl (by simpa using h.2.1)
    · exact Or.inr (by simpa using h.2.1)
  have hh : HeaderV st.header ∧ st.names.length = st.header.char_count := by
    rcases hs with h | h <;> exact ⟨h.1, h.2.2.2.2.2.1⟩
  obtain ⟨hhv, hnames⟩ := hh
  refine post_bind (post_parseTransitions _ _ (by omega) _ ?_) ?_
  · rintro ⟨a, ty⟩ hp
    exact chunks_exact_len _ _ a (List.of_mem_zip hp).1
  · intro tr _ htr
    refine post_bind (post_parseTypes _ _ hnames hhv.2.2.2.2.2.1 _ (chunks_exact_len 6 _)) ?_
    intro ty _ ⟨_, hty⟩
    refine post_bind (post_parseLeaps _ _ hts _ (chunks_exact_len _ _)) ?_
    intro lp _ hlp
    split
    · exact post_err
    · refine post_bind (Q := fun r => ∀ x, r = some x → RuleV x) ?_ ?_
      · cases footer with
        | none => exact post_ok (by simp)
        | some f => exact post_parseFooter _ _
      · intro r _ hr
        unfold Zone.new
        have hp := post_validate ⟨tr, ty, lp, r⟩ htr hr
        cases hval : validate ⟨tr, ty, lp, r⟩ with
        | ok u => exact post_ok hlp
        | err => exact post_err
        | panic => rw [hval] at hp; exact hp.elim

end Chrono.Proofs.TzValid
