/-
  Helper lemmas for C10, writer side: the text `Format.write_rfc3339` produces for a wall clock with
  year 0–9999, and that this text is in the grammar of Spec/Rfc3339Spec.lean showing exactly the
  wall-clock fields.
-/
import Chrono.Proofs.Rfc3339L

namespace Chrono.Proofs.Rfc3339
open Chrono Chrono.M Chrono.M.Scan Chrono.M.Format Chrono.Spec Chrono.Spec.Rfc3339 Chrono.Proofs.RenderScan
open Chrono.Extracted Chrono.Proofs

theorem seq_wok (a b : List Nat) : (wok a).seq (wok b) = wok (a ++ b) := rfl

/-- the fraction text `write_rfc3339` appends for sub-second nanoseconds `n` -/
def fracText (sf : SecondsFormat) (n : Int) : List Nat :=
  match sf with
  | .secs => []
  | .millis => [46] ++ fmtInt (n / 1000000) 3 .zero false
  | .micros => [46] ++ fmtInt (n / 1000) 6 .zero false
  | .nanos => [46] ++ fmtInt n 9 .zero false
  | .autoSi =>
    if n = 0 then []
    else if n % 1000000 = 0 then [46] ++ fmtInt (n / 1000000) 3 .zero false
    else if n % 1000 = 0 then [46] ++ fmtInt (n / 1000) 6 .zero false
    else [46] ++ fmtInt n 9 .zero false

/-- the offset text at minute precision with a colon (`Z` on request for offset zero) -/
def offText (use_z : Bool) (off : Int) : List Nat :=
  if use_z = true ∧ off = 0 then [90]
  else (if off < 0 then 45 else 43) ::
    (two (((if off < 0 then -off else off) + 30) / 60 / 60).toNat ++ [58] ++
     two (((if off < 0 then -off else off) + 30) / 60 % 60).toNat)

/-- `write_rfc3339` with its `let`s expanded (definitional) -/
theorem write_rfc3339_unfold (date : Date) (time : Time) (off : Int) (sf : SecondsFormat) (use_z : Bool) :
    write_rfc3339 ⟨date, time⟩ off sf use_z =
      W.ofRes date.month fun month =>
      W.ofRes date.day fun day =>
      (if 0 ≤ date.year ∧ date.year ≤ 9999 then
        (write_hundreds (asU8 (Int.tdiv date.year 100))).seq (write_hundreds (asU8 (Int.tmod date.year 100)))
       else wok (fmtInt date.year 5 .zero true)).seq <| (wok [45]).seq <| (write_hundreds (asU8 month)).seq <|
      (wok [45]).seq <| (write_hundreds (asU8 day)).seq <| (wok [84]).seq <|
      (write_hundreds (asU8 (time.secs / 60 / 60))).seq <| (wok [58]).seq <|
      (write_hundreds (asU8 (time.secs / 60 % 60))).seq <| (wok [58]).seq <|
      (write_hundreds (asU8 (if time.frac ≥ 1000000000 then time.secs % 60 + 1 else time.secs % 60))).seq <|
      (wok (fracText sf (if time.frac ≥ 1000000000 then time.frac - 1000000000 else time.frac))).seq <|
      OffsetFormat.format ⟨.minutes, .colon, use_z, .zero⟩ off := by
  cases sf <;> rfl

/-- **the text of `write_rfc3339`** for a date with year 0–9999 -/
theorem write_rfc3339_eq (date : Date) (time : Time) (off : Int) (sf : SecondsFormat) (use_z : Bool)
    (mo d : Nat) (hy : 0 ≤ date.year ∧ date.year ≤ 9999) (hmo : date.month = .ok mo) (hd : date.day = .ok d)
    (hmo' : mo ≤ 99) (hd' : d ≤ 99) (ht : TValid time) (hoff : -86400 < off ∧ off < 86400) :
    write_rfc3339 ⟨date, time⟩ off sf use_z =
      wok (two (date.year / 100).toNat ++ (two (date.year % 100).toNat ++ (45 :: (two mo ++ (45 :: (two d ++
        (84 :: (two (time.secs / 3600).toNat ++ (58 :: (two (time.secs / 60 % 60).toNat ++ (58 ::
        (two (time.secs % 60 + (if time.frac ≥ 1000000000 then 1 else 0)).toNat ++
        (fracText sf (if time.frac ≥ 1000000000 then time.frac - 1000000000 else time.frac) ++
         offText use_z off))))))))))))) := by
  obtain ⟨t1, t2, t3, t4⟩ := ht
  rw [write_rfc3339_unfold, hmo, hd]
  simp only [W.ofRes]
  have hyd : Int.tdiv date.year 100 = date.year / 100 := Int.tdiv_eq_ediv_of_nonneg hy.1
  have hym : Int.tmod date.year 100 = date.year % 100 := Int.tmod_eq_emod_of_nonneg hy.1
  have u8 : ∀ x : Int, 0 ≤ x → x < 256 → asU8 x = x := by intro x h1 h2; unfold asU8; omega
  rw [if_pos hy, hyd, hym, u8 _ (by omega) (by omega), u8 _ (by omega) (by omega),
    u8 (mo : Int) (by omega) (by omega), u8 (d : Int) (by omega) (by omega),
    u8 (time.secs / 60 / 60) (by omega) (by omega), u8 (time.secs / 60 % 60) (by omega) (by omega)]
  have hsec : asU8 (if time.frac ≥ 1000000000 then time.secs % 60 + 1 else time.secs % 60) =
      time.secs % 60 + (if time.frac ≥ 1000000000 then 1 else 0) := by
    rw [u8 _ (by split <;> omega) (by split <;> omega)]; split <;> omega
  rw [hsec]
  rw [write_hundreds_eq _ (by omega) (by omega), write_hundreds_eq _ (by omega) (by omega),
    write_hundreds_eq (mo : Int) (by omega) (by omega), write_hundreds_eq (d : Int) (by omega) (by omega),
    write_hundreds_eq (time.secs / 60 / 60) (by omega) (by omega),
    write_hundreds_eq (time.secs / 60 % 60) (by omega) (by omega),
    write_hundreds_eq (time.secs % 60 + (if time.frac ≥ 1000000000 then 1 else 0)) (by split <;> omega)
      (by split <;> omega)]
  rw [offset_minutes_eq .colon use_z off hoff]
  have hoffw : (if use_z = true ∧ off = 0 then wok [90]
      else wok ((if off < 0 then 45 else 43) ::
        (two (((if off < 0 then -off else off) + 30) / 60 / 60).toNat ++ colonText .colon ++
         two (((if off < 0 then -off else off) + 30) / 60 % 60).toNat))) = wok (offText use_z off) := by
    unfold offText colonText; split <;> rfl
  rw [hoffw]
  simp only [seq_wok, Int.toNat_natCast, List.singleton_append]
  have e1 : time.secs / 60 / 60 = time.secs / 3600 := by omega
  rw [e1, List.append_assoc]

/-! ### the text is in the grammar -/

theorem isDig_two (n : Nat) (h : n ≤ 99) : IsDig (48 + n / 10) ∧ IsDig (48 + n % 10) := by
  unfold IsDig; omega

theorem num2_two (n : Nat) (h : n ≤ 99) : num2 (48 + n / 10) (48 + n % 10) = n := by
  simp only [num2, dval]; omega

/-- a text assembled from two-digit groups, a fraction text and an offset text is in the grammar and
shows the numbers it was assembled from -/
theorem text_matches (Y mo d hh mi ss : Nat) (hY : Y ≤ 9999) (hmo : mo ≤ 99) (hd : d ≤ 99) (hhh : hh ≤ 99)
    (hmi : mi ≤ 99) (hss : ss ≤ 99) (fr ds offt : List Nat) (zulu neg : Bool) (H M : Nat)
    (hfr : FracText fr ds) (hoff : OffsetText offt zulu neg H M) :
    Matches (two (Y / 100) ++ (two (Y % 100) ++ (45 :: (two mo ++ (45 :: (two d ++ (84 :: (two hh ++ (58 ::
      (two mi ++ (58 :: (two ss ++ (fr ++ offt)))))))))))))
      ⟨Y, mo, d, hh, mi, ss, ds, zulu, neg, H, M⟩ := by
  have a1 := isDig_two (Y / 100) (by omega)
  have a2 := isDig_two (Y % 100) (by omega)
  refine ⟨48 + Y / 100 / 10, 48 + Y / 100 % 10, 48 + Y % 100 / 10, 48 + Y % 100 % 10, 48 + mo / 10, 48 + mo % 10,
    48 + d / 10, 48 + d % 10, 84, 48 + hh / 10, 48 + hh % 10, 48 + mi / 10, 48 + mi % 10, 48 + ss / 10, 48 + ss % 10,
    fr, offt, ⟨a1.1, a1.2, a2.1, a2.2⟩, isDig_two mo hmo, isDig_two d hd, Or.inl rfl, isDig_two hh hhh,
    isDig_two mi hmi, isDig_two ss hss, hfr, hoff, ?_, ?_, (num2_two mo hmo).symm, (num2_two d hd).symm,
    (num2_two hh hhh).symm, (num2_two mi hmi).symm, (num2_two ss hss).symm⟩
  · simp [two]
  · simp only [num4, dval]; omega

/-- the fraction digits `write_rfc3339` shows -/
def fracDigitsOf (sf : SecondsFormat) (n : Int) : List Nat := (fracText sf n).tail

theorem fracText_spec (sf : SecondsFormat) (n : Int) (h0 : 0 ≤ n) (h9 : n < 1000000000) :
    FracText (fracText sf n) (fracDigitsOf sf n) ∧ AllDigits (fracDigitsOf sf n) ∧
    ((fracDigitsOf sf n).length, valOf (fracDigitsOf sf n)) = wantedFrac sf n.toNat := by
  have key : ∀ (v : Int) (k : Nat), 0 ≤ v → 1 ≤ k → v < ((10 ^ k : Nat) : Int) →
      FracText ([46] ++ fmtInt v k .zero false) ([46] ++ fmtInt v k .zero false).tail ∧
      AllDigits ([46] ++ fmtInt v k .zero false).tail ∧
      (([46] ++ fmtInt v k .zero false).tail.length, valOf ([46] ++ fmtInt v k .zero false).tail) = (k, v.toNat) := by
    intro v k hv hk hlt
    obtain ⟨p1, p2, p3⟩ := fmtInt_pad_spec v k hv hk hlt
    simp only [List.singleton_append, List.tail_cons]
    refine ⟨FracText.present _ ?_ ((allDigits_iff _).mpr p1), p1, by rw [p2, p3]⟩
    intro e; rw [e] at p2; simp at p2; omega
  unfold fracDigitsOf
  cases sf with
  | secs => exact ⟨FracText.absent, allDigits_nil, rfl⟩
  | millis =>
    have := key (n / 1000000) 3 (by omega) (by omega) (by norm_num; omega)
    simp only [fracText, wantedFrac]
    rw [show (n / 1000000).toNat = n.toNat / 1000000 by omega] at this
    exact this
  | micros =>
    have := key (n / 1000) 6 (by omega) (by omega) (by norm_num; omega)
    simp only [fracText, wantedFrac]
    rw [show (n / 1000).toNat = n.toNat / 1000 by omega] at this
    exact this
  | nanos =>
    have := key n 9 (by omega) (by omega) (by norm_num; omega)
    simp only [fracText, wantedFrac]
    exact this
  | autoSi =>
    simp only [fracText, wantedFrac]
    by_cases h1 : n = 0
    · rw [if_pos h1, if_pos (show n.toNat = 0 by omega)]; exact ⟨FracText.absent, allDigits_nil, rfl⟩
    · rw [if_neg h1, if_neg (show ¬ n.toNat = 0 by omega)]
      by_cases h2 : n % 1000000 = 0
      · rw [if_pos h2, if_pos (show n.toNat % 1000000 = 0 by omega)]
        have := key (n / 1000000) 3 (by omega) (by omega) (by norm_num; omega)
        rw [show (n / 1000000).toNat = n.toNat / 1000000 by omega] at this
        exact this
      · rw [if_neg h2, if_neg (show ¬ n.toNat % 1000000 = 0 by omega)]
        by_cases h3 : n % 1000 = 0
        · rw [if_pos h3, if_pos (show n.toNat % 1000 = 0 by omega)]
          have := key (n / 1000) 6 (by omega) (by omega) (by norm_num; omega)
          rw [show (n / 1000).toNat = n.toNat / 1000 by omega] at this
          exact this
        · rw [if_neg h3, if_neg (show ¬ n.toNat % 1000 = 0 by omega)]
          exact key n 9 (by omega) (by omega) (by norm_num; omega)

/-- the offset fields `write_rfc3339` shows for a whole-minute offset -/
def offZulu (use_z : Bool) (off : Int) : Bool := use_z && decide (off = 0)
def offNeg (use_z : Bool) (off : Int) : Bool := !(offZulu use_z off) && decide (off < 0)
def offHours (use_z : Bool) (off : Int) : Nat := if offZulu use_z off then 0 else (off.natAbs / 3600)
def offMinutes (use_z : Bool) (off : Int) : Nat := if offZulu use_z off then 0 else (off.natAbs / 60 % 60)

theorem offText_spec (use_z : Bool) (off : Int) (hr : -86400 < off ∧ off < 86400) (hm : off % 60 = 0) :
    OffsetText (offText use_z off) (offZulu use_z off) (offNeg use_z off) (offHours use_z off)
      (offMinutes use_z off) := by
  unfold offText offNeg offHours offMinutes
  by_cases hz : use_z = true ∧ off = 0
  · have : offZulu use_z off = true := by unfold offZulu; simp [hz.1, hz.2]
    rw [if_pos hz, this]; exact OffsetText.upperZ
  · have hzf : offZulu use_z off = false := by
      unfold offZulu
      cases use_z with
      | false => rfl
      | true => simp at hz; simp [hz]
    rw [if_neg hz, hzf]
    simp only [Bool.not_false, Bool.true_and, Bool.false_eq_true, if_false]
    obtain ⟨e1, e2⟩ := whole_minute_parts off hm
    rw [e1, e2]
    by_cases hn : off < 0
    · have eh : ((if off < 0 then -off else off) / 3600).toNat = off.natAbs / 3600 := by rw [if_pos hn]; omega
      have em : ((if off < 0 then -off else off) / 60 % 60).toNat = off.natAbs / 60 % 60 := by rw [if_pos hn]; omega
      rw [eh, em, if_pos hn]
      have b1 : off.natAbs / 3600 ≤ 99 := by omega
      have b2 : off.natAbs / 60 % 60 ≤ 99 := by omega
      have := OffsetText.hyphen (48 + off.natAbs / 3600 / 10) (48 + off.natAbs / 3600 % 10)
        (48 + off.natAbs / 60 % 60 / 10) (48 + off.natAbs / 60 % 60 % 10)
        ⟨(isDig_two _ b1).1, (isDig_two _ b1).2, (isDig_two _ b2).1, (isDig_two _ b2).2⟩
      rw [num2_two _ b1, num2_two _ b2] at this
      simpa [two, hn] using this
    · have eh : ((if off < 0 then -off else off) / 3600).toNat = off.natAbs / 3600 := by rw [if_neg hn]; omega
      have em : ((if off < 0 then -off else off) / 60 % 60).toNat = off.natAbs / 60 % 60 := by rw [if_neg hn]; omega
      rw [eh, em, if_neg hn]
      have b1 : off.natAbs / 3600 ≤ 99 := by omega
      have b2 : off.natAbs / 60 % 60 ≤ 99 := by omega
      have := OffsetText.plus (48 + off.natAbs / 3600 / 10) (48 + off.natAbs / 3600 % 10)
        (48 + off.natAbs / 60 % 60 / 10) (48 + off.natAbs / 60 % 60 % 10)
        ⟨(isDig_two _ b1).1, (isDig_two _ b1).2, (isDig_two _ b2).1, (isDig_two _ b2).2⟩
      rw [num2_two _ b1, num2_two _ b2] at this
      simpa [two, hn] using this

/-! ### the writer on a zone-aware value -/

theorem wall_consts : dayNum 0 1 1 = -365 ∧ dayNum 10000 1 1 = 3652060 := by decide

/-- a wall clock between 0000-01-01 and 9999-12-31 has a year between 0 and 9999 -/
theorem wall_year (y : Int) (o : Nat) (ho : 1 ≤ o ∧ o ≤ yearLen y) (secs : Int) (hs : 0 ≤ secs ∧ secs < 86400)
    (h : WallYear0to9999 ((dayNumYo y o - EPOCH_DAY) * 86400 + secs)) : 0 ≤ y ∧ y ≤ 9999 := by
  obtain ⟨c1, c2⟩ := wall_consts
  unfold WallYear0to9999 at h
  rw [c1, c2] at h
  have hstep := dby_step y
  have h0 : daysBeforeYear 0 = -366 := by decide
  have h1 : daysBeforeYear 10000 = 3652059 := by decide
  have hyl := yearLen_ge y
  unfold dayNumYo at h
  constructor
  · by_contra hc
    have := dby_mono (y + 1) 0 (by omega)
    omega
  · by_contra hc
    have := dby_mono 10000 y (by omega)
    omega

theorem fracVal_short (ds : List Nat) (h : ds.length ≤ 9) : fracVal ds = valOf ds * 10 ^ (9 - ds.length) := by
  unfold fracVal; rw [List.take_of_length_le h]

open Chrono.M.Rfc3339 in
/-- **the writer**: for a well-formed value with a whole-minute offset whose wall clock lies in the
years 0–9999 the rendering exists, is in the grammar, and shows exactly the wall-clock fields -/
theorem writer_main (z : Zoned) (hz : ZInv z) (hoff : z.off % 60 = 0) (hy : WallYear0to9999 (wallSecs z))
    (sf : SecondsFormat) (use_z : Bool) :
    ∃ t f, to_rfc3339_opts z sf use_z = .ok t ∧ Matches t f ∧ Valid f ∧
      dayNum f.year f.month f.day = EPOCH_DAY + wallSecs z / 86400 ∧
      (f.hour : Int) = wallSecs z % 86400 / 3600 ∧ (f.minute : Int) = wallSecs z % 86400 / 60 % 60 ∧
      (f.second : Int) = wallSecs z % 86400 % 60 + (if z.utc.time.frac ≥ 1000000000 then 1 else 0) ∧
      (f.fracDigits.length, digitsVal f.fracDigits 0) = wantedFrac sf (z.utc.time.frac % 1000000000).toNat ∧
      (f.zulu = true ↔ (use_z = true ∧ z.off = 0)) ∧ offsetOf f = z.off ∧
      t.getD 10 0 = 84 ∧ (∀ c ∈ t, c < 128) := by
  obtain ⟨l, h1, h2, h3, h4, _, _⟩ := naive_local_spec z hz
  obtain ⟨he, v1, v2, v3, v4⟩ := ext_eq l.date h2.1
  obtain ⟨t1, t2, t3, t4⟩ := h2.2
  have hsecs := instSecs_ext l h2.1
  rw [h3] at hsecs
  generalize hyv : l.date.year = y at *
  generalize hov : l.date.ordinal.toNat = o at *
  have hyr := wall_year y o ⟨v3, v4⟩ l.time.secs ⟨t1, t2⟩ (hsecs ▸ hy)
  obtain ⟨m1, m2, m3, m4⟩ := month_day_spec y o v3 v4
  obtain ⟨b1, b2, b3, b4⟩ := validYmd_bounds _ _ _ m3
  have hr := hz.2
  unfold OffValid at hr
  have hw := write_rfc3339_eq l.date l.time z.off sf use_z (monthOfYo y o) (dayOfYo y o) (by rw [hyv]; exact hyr)
    (by rw [he]; exact m1) (by rw [he]; exact m2) (by omega) (by omega) ⟨t1, t2, t3, t4⟩ hr
  rw [hyv] at hw
  generalize hn : (if l.time.frac ≥ 1000000000 then l.time.frac - 1000000000 else l.time.frac) = n at hw
  have hnb : 0 ≤ n ∧ n < 1000000000 := by rw [← hn]; split <;> omega
  have hnm : n = z.utc.time.frac % 1000000000 := by rw [← hn, h4] at *; split <;> omega
  obtain ⟨q1, q2, q3⟩ := fracText_spec sf n hnb.1 hnb.2
  have hot := offText_spec use_z z.off hr hoff
  generalize hss : (l.time.secs % 60 + if l.time.frac ≥ 1000000000 then 1 else 0) = ss at hw
  have hssb : 0 ≤ ss ∧ ss ≤ 60 := by rw [← hss]; split <;> omega
  have hm := text_matches y.toNat (monthOfYo y o) (dayOfYo y o) (l.time.secs / 3600).toNat
    (l.time.secs / 60 % 60).toNat ss.toNat (by omega) (by omega) (by omega) (by omega) (by omega) (by omega)
    _ _ _ _ _ _ _ q1 hot
  rw [show (y / 100).toNat = y.toNat / 100 by omega, show (y % 100).toNat = y.toNat % 100 by omega] at hw
  refine ⟨_, _, ?_, hm, ?_, ?_, ?_, ?_, ?_, ?_, ?_, ?_, ?_, ?_⟩
  · unfold to_rfc3339_opts
    rw [h1]
    show expectText (write_rfc3339 ⟨l.date, l.time⟩ z.off sf use_z) = _
    rw [hw]; rfl
  · unfold Valid
    dsimp only
    rw [Int.toNat_of_nonneg hyr.1]
    refine ⟨m3, by omega, by omega, by omega, ?_, ?_⟩
    · unfold offHours; split <;> omega
    · unfold offMinutes; split <;> omega
  · dsimp only
    rw [Int.toNat_of_nonneg hyr.1]
    unfold dayNum
    rw [m4]
    omega
  · dsimp only; omega
  · dsimp only; omega
  · dsimp only; rw [← hss, h4] at *; omega
  · dsimp only
    rw [digitsVal_eq]
    rw [← hnm]
    exact q3
  · dsimp only
    unfold offZulu
    simp
  · unfold offsetOf
    dsimp only
    unfold offNeg offHours offMinutes offZulu
    by_cases hzz : use_z = true ∧ z.off = 0
    · simp [hzz.1, hzz.2]
    · have : (use_z && decide (z.off = 0)) = false := by
        cases use_z with
        | false => rfl
        | true => simp at hzz; simp [hzz]
      rw [this]
      simp only [Bool.not_false, Bool.true_and, Bool.false_eq_true, if_false, decide_eq_true_eq]
      split <;> omega
  · simp [two]
  · intro c hc
    have hq : ∀ c ∈ fracText sf n, c < 128 := by
      intro c hc
      generalize fracText sf n = ft at q1 hc
      generalize fracDigitsOf sf n = fd at q1 q2
      cases q1 with
      | absent => simp at hc
      | present _ hne hd =>
        rcases List.mem_cons.mp hc with rfl | hc
        · omega
        · have := (isDigit_iff c).mp (q2 c hc); omega
    have ho : ∀ c ∈ offText use_z z.off, c < 128 := by
      intro c hc
      unfold offText at hc
      split at hc
      · simp at hc; omega
      · simp only [two, List.mem_cons, List.mem_append, List.not_mem_nil, or_false] at hc
        rcases hc with h | h | h | h | h | h <;> (try split at h) <;> omega
    simp only [two, List.mem_cons, List.mem_append, List.cons_append, List.nil_append] at hc
    rcases hc with h | h | h | h | h | h | h | h | h | h | h | h | h | h | h | h | h | h | h | h | h
    all_goals first | omega | exact hq c h | exact ho c h

theorem wantedFrac_le (sf : SecondsFormat) (n : Nat) : (wantedFrac sf n).1 ≤ 9 := by
  unfold wantedFrac
  cases sf <;> simp only <;> (repeat' split) <;> omega

/-- the nanoseconds a shown fraction denotes are the nanoseconds the precision keeps -/
theorem fracNanos_kept (ds : List Nat) (sf : SecondsFormat) (n : Nat)
    (h : (ds.length, digitsVal ds 0) = wantedFrac sf n) : fracNanos ds = keptNanos sf n := by
  have hl := wantedFrac_le sf n
  rw [fracNanos_eq, fracVal_short ds (by rw [← h] at hl; exact hl)]
  unfold keptNanos
  rw [← h]
  dsimp only
  rw [digitsVal_eq]; rfl

open Chrono.M.Rfc3339 in
/-- **round trip**: the rendering parses back to a well-formed value with the same offset whose instant
is the original one with the sub-second part truncated to the requested precision; when nothing is
truncated and the value is one the public constructors build (leap second only on second 59), it is
the original value itself -/
theorem roundtrip_main (z : Zoned) (hz : ZInv z) (hoff : z.off % 60 = 0) (hy : WallYear0to9999 (wallSecs z))
    (sf : SecondsFormat) (use_z : Bool) :
    ∃ t v, to_rfc3339_opts z sf use_z = .ok t ∧ parse_from_rfc3339 t = .ok (.ok v) ∧ ZInv v ∧ v.off = z.off ∧
      instNs v.utc = instSecs z.utc * 1000000000 + (if z.utc.time.frac ≥ 1000000000 then 1000000000 else 0) +
        (keptNanos sf (z.utc.time.frac % 1000000000).toNat : Int) ∧
      (keptNanos sf (z.utc.time.frac % 1000000000).toNat = (z.utc.time.frac % 1000000000).toNat →
        TStrict z.utc.time → v = z) := by
  obtain ⟨t, f, w1, hm, hv, w2, w3, w4, w5, w6, w7, w8, _, _⟩ := writer_main z hz hoff hy sf use_z
  obtain ⟨v, p1, ⟨p2, p3, p4, p5⟩⟩ := parse_complete t f hm hv
  have hk := fracNanos_kept f.fracDigits sf _ w6
  have hW : wallSecs z = instSecs z.utc + z.off := rfl
  have hE : EPOCH_DAY = 719163 := rfl
  obtain ⟨⟨_, tz1, tz2, tz3, tz4⟩, _⟩ := hz
  have hws : wallSecsOf f * 1000000000 + fracOf f = wallSecs z * 1000000000 +
      (if z.utc.time.frac ≥ 1000000000 then 1000000000 else 0) + (fracNanos f.fracDigits : Int) := by
    unfold wallSecsOf fracOf
    rw [w2, w3, w4]
    by_cases hl : z.utc.time.frac ≥ 1000000000
    · rw [if_pos hl] at w5 ⊢
      by_cases h60 : f.second = 60
      · rw [if_pos h60, if_pos h60]; omega
      · rw [if_neg h60, if_neg h60]; omega
    · rw [if_neg hl] at w5 ⊢
      have h60 : ¬ f.second = 60 := by omega
      rw [if_neg h60, if_neg h60]; omega
  refine ⟨t, v, w1, p1, p2, by rw [p3, w8], ?_, ?_⟩
  · unfold instNs
    rw [p4, p5, w8, ← hk]
    have : (wallSecsOf f - z.off) * 1000000000 + fracOf f = wallSecsOf f * 1000000000 + fracOf f - z.off * 1000000000 := by
      omega
    rw [this, hws, hW]; omega
  · intro hkept hstrict
    obtain ⟨_, hleap⟩ := hstrict
    have hd : Denotes f z := by
      refine ⟨⟨⟨by assumption, tz1, tz2, tz3, tz4⟩, by assumption⟩, w8.symm, ?_, ?_⟩
      · rw [w8]
        have hsm : instSecs z.utc % 60 = z.utc.time.secs % 60 := by unfold instSecs; omega
        unfold wallSecsOf
        rw [w2, w3, w4]
        by_cases hl : z.utc.time.frac ≥ 1000000000
        · rw [if_pos hl] at w5
          have : f.second = 60 := by omega
          rw [if_pos this]; omega
        · rw [if_neg hl] at w5
          have : ¬ f.second = 60 := by omega
          rw [if_neg this]; omega
      · unfold fracOf
        rw [hk, hkept]
        have hsm : instSecs z.utc % 60 = z.utc.time.secs % 60 := by unfold instSecs; omega
        by_cases hl : z.utc.time.frac ≥ 1000000000
        · rw [if_pos hl] at w5
          have : f.second = 60 := by omega
          rw [if_pos this]; omega
        · rw [if_neg hl] at w5
          have : ¬ f.second = 60 := by omega
          rw [if_neg this]; omega
    obtain ⟨⟨a1, _⟩, a2, a3, a4⟩ := hd
    have hu : v.utc = z.utc := Chrono.Proofs.Ts.inst_inj v.utc z.utc p2.1 a1 (by rw [p4, a3]) (by rw [p5, a4])
    have ho : v.off = z.off := by rw [p3, a2]
    cases v; cases z
    simp only [Zoned.mk.injEq]
    exact ⟨hu, ho⟩

end Chrono.Proofs.Rfc3339
