/-
  Proof layer for the theorems added after the repair of finding F32 (a zone whose UTC offset is 24
  hours or more in magnitude used to be accepted by the readers and then made `Local` panic):
  every local time type of every accepted zone is strictly within 24 h of UTC, the zone lookup by
  instant answers (`some`) for every instant a `NaiveDateTime` can hold, and therefore the `unwrap`
  of `<Local as TimeZone>::offset_from_utc_datetime` (`M.TzL.local_offset_from_utc_datetime`) cannot
  fire for a zone that comes from the readers.
-/
import Chrono.Model.TzLocal
import Chrono.Proofs.TzLayoutL
import Chrono.Proofs.TzLookupPL

namespace Chrono.Proofs.TzLocal
open Chrono Chrono.M.Tz Chrono.M.TzL Chrono.Spec.Tz Chrono.Proofs Chrono.Proofs.Tz Chrono.Proofs.TzValid

/-- the local time types a rule can answer with -/
def ruleTypes : Rule → List Ltt
  | .fixed t => [t]
  | .alt a => [a.std, a.dst]

/-- every local time type a zone can answer with: those of its table and those of its rule -/
def zoneTypes (z : Zone) : List Ltt :=
  z.types ++ (match z.rule with | some r => ruleTypes r | none => [])

/-- what the totality of the lookup by instant rests on (all of it guaranteed by the readers) -/
structure InstantSafe (z : Zone) : Prop where
  ty0 : z.types ≠ []
  idx : ∀ t ∈ z.transitions, t.idx < z.types.length
  leaps : ∀ l ∈ z.leaps, -2147483648 ≤ l.corr ∧ l.corr ≤ 2147483647

theorem denotes_within {ext : Bool} {s : List Nat} {r : Rule} (h : Denotes ext s r) :
    ∀ t ∈ ruleTypes r, Within24h t.off := by
  cases h with
  | fixed pn po ho =>
    intro t ht
    simp only [ruleTypes, List.mem_singleton] at ht
    subst ht
    unfold Within24h at *
    dsimp only
    omega
  | alt pn1 po1 pn2 po2 pd1 pd2 ho1 ho2 =>
    intro t ht
    simp only [ruleTypes, List.mem_cons, List.not_mem_nil, or_false] at ht
    unfold Within24h at *
    rcases ht with ht | ht <;> subst ht <;> dsimp only <;> omega

theorem rule_within (text : List Nat) (ext : Bool) (r : Rule) (h : from_tz_string text ext = .ok r) :
    ∀ t ∈ ruleTypes r, Within24h t.off :=
  denotes_within (tz_accepts_only' ext text r h)

theorem parsed_within (bytes : List Nat) (z : Zone) (h : parse bytes = .ok z) :
    ∀ t ∈ zoneTypes z, Within24h t.off := by
  intro t ht
  unfold zoneTypes at ht
  rcases List.mem_append.mp ht with ht | ht
  · exact ((post_spec (post_parse bytes) h).2.2.2 t ht).1
  · cases hr : z.rule with
    | none => rw [hr] at ht; cases ht
    | some r =>
      rw [hr] at ht
      dsimp only at ht
      have hf := accepted_footer' bytes z h
      by_cases hv : versionOf ((bytes.drop 4).take 1) = some .V1
      · have := hf.1 hv
        rw [hr] at this
        cases this
      · obtain ⟨-, -, -, hd⟩ := hf.2 hv
        rcases hd with ⟨-, hn⟩ | ⟨ext, x, hx, hden⟩
        · rw [hr] at hn; cases hn
        · rw [hr] at hx
          cases hx
          exact denotes_within hden t ht

theorem parsed_instantSafe (bytes : List Nat) (z : Zone) (h : parse bytes = .ok z) : InstantSafe z := by
  obtain ⟨h0, h1, -⟩ := parsed_lookupSafe bytes z h
  refine ⟨h0, h1, fun l hl => ?_⟩
  have := (post_spec (post_parse_leaps bytes) h l hl).2
  unfold I32r at this
  exact this

theorem zoneOfRule_instantSafe (r : Rule) : InstantSafe (zoneOfRule r) := by
  refine ⟨?_, ?_, ?_⟩
  · cases r <;> simp [zoneOfRule]
  · intro t ht; simp [zoneOfRule] at ht
  · intro l hl; simp [zoneOfRule] at hl

theorem zoneOfRule_types (r : Rule) : ∀ t ∈ zoneTypes (zoneOfRule r), t ∈ ruleTypes r := by
  intro t ht
  unfold zoneTypes zoneOfRule at ht
  cases r with
  | fixed l => simp [ruleTypes] at ht ⊢; exact ht
  | alt a =>
    simp [ruleTypes] at ht ⊢
    rcases ht with h | h | h | h <;> simp [h]

/-! ### the lookup by instant answers inside the `NaiveDateTime` range -/

theorem toLeapLoop_some (ls : List LeapSecond) (ut : Int)
    (hut : -4611686018427387904 ≤ ut ∧ ut ≤ 4611686018427387904)
    (hc : ∀ l ∈ ls, -2147483648 ≤ l.corr ∧ l.corr ≤ 2147483647) :
    ∀ cur, ∃ c, toLeapLoop ls ut cur = some c := by
  induction ls with
  | nil => intro cur; exact ⟨cur, rfl⟩
  | cons l rest ih =>
    intro cur
    unfold toLeapLoop
    split
    · exact ⟨cur, rfl⟩
    · have hl := hc l (by simp)
      have e : optI64 (ut + l.corr) = some (ut + l.corr) := optI64_some (by omega) (by omega)
      rw [e]
      exact ih (fun x hx => hc x (by simp [hx])) _

theorem typeAt_mem (z : Zone) (i : Nat) (h : i < z.types.length) : typeAt z i ∈ z.types := by
  unfold typeAt
  have e : z.types.getD i default = z.types[i] := by simp [List.getD, List.getElem?_eq_getElem h]
  rw [e]
  exact List.getElem_mem h

theorem getD_idx_lt (z : Zone) (hi : InstantSafe z) (k : Nat) :
    (z.transitions.getD k ⟨0, 0⟩).idx < z.types.length := by
  by_cases c : k < z.transitions.length
  · have e : z.transitions.getD k ⟨0, 0⟩ = z.transitions[k] := by
      simp [List.getD, List.getElem?_eq_getElem c]
    rw [e]
    exact hi.idx _ (List.getElem_mem c)
  · have e : z.transitions.getD k ⟨0, 0⟩ = ⟨0, 0⟩ := by
      simp [List.getD, List.getElem?_eq_none (by omega : z.transitions.length ≤ k)]
    rw [e]
    exact List.length_pos_iff.mpr hi.ty0

theorem alt_find_some (a : Alt) (t : Int) (ht : NDT_MIN_TS ≤ t ∧ t ≤ NDT_MAX_TS) :
    ∃ l, a.find_local_time_type t = some l ∧ (l = a.std ∨ l = a.dst) := by
  simp only [NDT_MIN_TS, NDT_MAX_TS] at ht
  obtain ⟨dt, hdt, hY, -⟩ := TzL.from_timespec_ok' t (by omega)
  have hb := TzL.year_bound _ _ hY (by omega)
  unfold Alt.find_local_time_type
  rw [hdt]
  dsimp only
  have : I32_MIN + 2 ≤ dt.year ∧ dt.year ≤ I32_MAX - 2 := by
    simp only [I32_MIN, I32_MAX]; omega
  rw [if_pos this]
  refine ⟨_, rfl, ?_⟩
  split
  · exact Or.inr rfl
  · exact Or.inl rfl

theorem rule_find_some (r : Rule) (t : Int) (ht : NDT_MIN_TS ≤ t ∧ t ≤ NDT_MAX_TS) :
    ∃ l, r.find_local_time_type t = some l ∧ l ∈ ruleTypes r := by
  cases r with
  | fixed l => exact ⟨l, rfl, by simp [ruleTypes]⟩
  | alt a =>
    obtain ⟨l, h1, h2⟩ := alt_find_some a t ht
    refine ⟨l, h1, ?_⟩
    rcases h2 with h2 | h2 <;> subst h2 <;> simp [ruleTypes]

/-- the lookup by instant of ANY zone with a type, in-range indices and `i32` leap corrections answers
with one of the zone's own local time types, for every instant a `NaiveDateTime` can hold -/
theorem zone_find_some (z : Zone) (hi : InstantSafe z) (t : Int) (ht : NDT_MIN_TS ≤ t ∧ t ≤ NDT_MAX_TS) :
    ∃ l, z.find_local_time_type t = some l ∧ l ∈ zoneTypes z := by
  have h0 : typeAt z 0 ∈ zoneTypes z :=
    List.mem_append_left _ (typeAt_mem z 0 (List.length_pos_iff.mpr hi.ty0))
  have hrule : ∀ r, z.rule = some r → ∃ l, r.find_local_time_type t = some l ∧ l ∈ zoneTypes z := by
    intro r hr
    obtain ⟨l, h1, h2⟩ := rule_find_some r t ht
    refine ⟨l, h1, ?_⟩
    unfold zoneTypes
    rw [hr]
    exact List.mem_append_right _ h2
  unfold Zone.find_local_time_type
  cases hlast : z.transitions.getLast? with
  | none =>
    dsimp only
    cases hr : z.rule with
    | none => exact ⟨_, rfl, h0⟩
    | some r => exact hrule r hr
  | some last =>
    dsimp only
    have ht' := ht
    simp only [NDT_MIN_TS, NDT_MAX_TS] at ht'
    obtain ⟨c, hc⟩ := toLeapLoop_some z.leaps t (by omega) hi.leaps t
    unfold unix_time_to_unix_leap_time
    rw [hc]
    dsimp only
    split
    · cases hr : z.rule with
      | none =>
        refine ⟨_, rfl, List.mem_append_left _ (typeAt_mem z _ ?_)⟩
        exact hi.idx _ (List.mem_of_getLast? hlast)
      | some r => exact hrule r hr
    · refine ⟨_, rfl, List.mem_append_left _ (typeAt_mem z _ ?_)⟩
      split
      · exact getD_idx_lt z hi _
      · exact List.length_pos_iff.mpr hi.ty0

/-! ### hence the `unwrap` of `Local::offset_from_utc_datetime` cannot fire -/

theorem local_offset_ok (z : Zone) (hi : InstantSafe z) (hw : ∀ t ∈ zoneTypes z, Within24h t.off)
    (x : Int) (hx : NDT_MIN_TS ≤ x ∧ x ≤ NDT_MAX_TS) :
    ∃ o, local_offset_from_utc_datetime z x = .ok o ∧ cache_offset z x false = .ok (.single o)
      ∧ Within24h o ∧ ∃ l ∈ zoneTypes z, l.off = o := by
  obtain ⟨l, hl, hm⟩ := zone_find_some z hi x hx
  have hwl := hw l hm
  have hc : cache_offset z x false = .ok (.single l.off) := by
    unfold cache_offset
    simp only [Bool.not_false, if_true]
    rw [hl]
    dsimp only
    unfold east_opt
    unfold Within24h at hwl
    rw [if_pos hwl]
  refine ⟨l.off, ?_, hc, hwl, l, hm, rfl⟩
  unfold local_offset_from_utc_datetime
  rw [hc]

theorem local_timestamp_ok (z : Zone) (hi : InstantSafe z) (hw : ∀ t ∈ zoneTypes z, Within24h t.off)
    (secs : Int) :
    (¬ (NDT_MIN_TS ≤ secs ∧ secs ≤ NDT_MAX_TS) → local_timestamp_opt z secs = .ok .none)
      ∧ ((NDT_MIN_TS ≤ secs ∧ secs ≤ NDT_MAX_TS) →
          ∃ o, local_timestamp_opt z secs = .ok (.single (secs, o)) ∧ Within24h o) := by
  constructor
  · intro h
    unfold local_timestamp_opt
    rw [if_neg h]
  · intro h
    obtain ⟨o, ho, -, hwo, -⟩ := local_offset_ok z hi hw secs h
    refine ⟨o, ?_, hwo⟩
    unfold local_timestamp_opt local_from_utc_datetime
    rw [if_pos h, ho]

end Chrono.Proofs.TzLocal
