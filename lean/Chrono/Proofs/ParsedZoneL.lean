/-
  C14 for arbitrary time zones: `to_datetime_with_timezone_gen` (Model/ParsedZone.lean) decomposed
  into its three stages (guessed offset, naive resolution, choice among the zone's candidates), the
  choice characterised through the list of candidates consistent with the offset field, the
  fixed-zone model as an instance, and the step zones.
-/
import Chrono.Proofs.ParsedZonedL
import Chrono.Model.ParsedZone
namespace Chrono.Proofs.ParsedZone
open Chrono Chrono.M Chrono.M.TzL Chrono.Spec Chrono.Spec.Fields Chrono.Spec.Ts Chrono.Extracted
open Chrono.Proofs Chrono.Proofs.Ts Chrono.Proofs.ParsedRes

/-! ### the three stages -/

/-- stage 1: `guessed_offset` — 0 without a timestamp field, else the zone's offset at the instant
of the timestamp (OUT_OF_RANGE when that instant is not representable) -/
def guessed_offset (p : Parsed) (ofu : NaiveDT → Res Int) : Parsed.RP Int :=
  match p.timestamp with
  | some timestamp =>
    Parsed.RP.bind (Parsed.okOr (NaiveDT.from_timestamp timestamp (p.nanosecond.getD 0)) .outOfRange)
      fun dt => (match ofu dt with
        | .ok o => .ok (.ok o)
        | .panic => .panic : Parsed.RP Int)
  | none => .ok (.ok 0)

/- `Consistent`, `GuessIs`, `StepCandidate` are statement-level predicates: defined in
Spec/ParsedZoneSpec.lean (`Chrono.Spec.Fields`), re-exported here under their old names -/
export Chrono.Spec.Fields (Consistent GuessIs StepCandidate)

/-- `Consistent`, executable -/
def consistentB (p : Parsed) (c : Zoned) : Bool :=
  (match p.offset with
   | some x => c.off == x
   | none => true) &&
  (match p.timestamp with
   | some ts => decide (ts = instSecs c.utc) || (decide (1000000000 ≤ c.utc.time.frac) && decide (ts = instSecs c.utc + 1))
   | none => true)

theorem consistentB_iff (p : Parsed) (c : Zoned) : consistentB p c = true ↔ Consistent p c := by
  unfold consistentB Consistent
  cases p.offset <;> cases p.timestamp <;> simp

/-- the candidates of `m` that are consistent with the offset and timestamp fields, in order -/
def consistent (p : Parsed) (m : Mapped Zoned) : List Zoned := m.toList.filter (consistentB p)

/-- none → IMPOSSIBLE, exactly one → that one, two → NOT_ENOUGH -/
def choose : List Zoned → PRes Zoned
  | [] => .error .impossible
  | [c] => .ok c
  | _ => .error .notEnough

theorem zoned_nanosecond (c : Zoned) (hc : ZInv c) : Zoned.nanosecond c = .ok c.utc.time.frac := by
  obtain ⟨l, h1, _, _, h4, _⟩ := naive_local_spec c hc
  unfold Zoned.nanosecond
  rw [h1]
  show Res.ok l.time.frac = _
  rw [h4]

/-- the closure `check_offset` on a well-formed value: never panics, and says exactly whether the
value is consistent with the offset and timestamp fields -/
theorem check_offset_spec (p : Parsed) (c : Zoned) (hc : ZInv c) :
    Parsed.check_offset p c = .ok (consistentB p c) := by
  unfold Parsed.check_offset consistentB
  rw [timestamp_spec c.utc hc.1, zoned_nanosecond c hc]
  cases p.offset with
  | none =>
    cases p.timestamp with
    | none => rfl
    | some ts =>
      simp only [Res.bind]
      by_cases h : ts = instSecs c.utc
      · simp [h]
      · simp [h]
  | some x =>
    by_cases hx : c.off = x
    · cases p.timestamp with
      | none => simp [hx]
      | some ts =>
        simp only [Res.bind]
        by_cases h : ts = instSecs c.utc
        · simp [h, hx]
        · simp [h, hx]
    · simp [hx]

/-- stage 3: the `match tz.from_local_datetime(&datetime)` of the Rust function -/
def pickR (p : Parsed) (m : Mapped Zoned) : Parsed.RP Zoned :=
  match m with
  | .none => .ok (.error .impossible)
  | .single t =>
    (match Parsed.check_offset p t with
     | .panic => .panic
     | .ok true => .ok (.ok t)
     | .ok false => .ok (.error .impossible))
  | .ambiguous min max =>
    match Parsed.check_offset p min, Parsed.check_offset p max with
    | .panic, _ => .panic
    | _, .panic => .panic
    | .ok false, .ok false => .ok (.error .impossible)
    | .ok false, .ok true => .ok (.ok max)
    | .ok true, .ok false => .ok (.ok min)
    | .ok true, .ok true => .ok (.error .notEnough)

/-- the choice among well-formed candidates, read off the list of consistent candidates -/
theorem pickR_eq (p : Parsed) (m : Mapped Zoned) (hm : ∀ c ∈ m.toList, ZInv c) :
    pickR p m = .ok (choose (consistent p m)) := by
  unfold pickR consistent
  cases m with
  | none => rfl
  | single t =>
    simp only [Mapped.toList, List.filter]
    rw [check_offset_spec p t (hm t (by simp [Mapped.toList]))]
    cases consistentB p t <;> rfl
  | ambiguous a b =>
    simp only [Mapped.toList, List.filter]
    rw [check_offset_spec p a (hm a (by simp [Mapped.toList])),
      check_offset_spec p b (hm b (by simp [Mapped.toList]))]
    cases consistentB p a <;> cases consistentB p b <;> rfl

/-- the function is the composition of its three stages -/
theorem gen_eq (p : Parsed) (ofu : NaiveDT → Res Int) (fl : NaiveDT → Res (Mapped Zoned)) :
    Parsed.to_datetime_with_timezone_gen p ofu fl =
      Parsed.RP.bind (guessed_offset p ofu) fun g =>
      Parsed.RP.bind (Parsed.to_naive_datetime_with_offset p g) fun dt =>
      match fl dt with
      | .panic => .panic
      | .ok m => pickR p m := by
  unfold Parsed.to_datetime_with_timezone_gen guessed_offset
  congr 1
  funext g
  congr 1
  funext dt
  cases fl dt with
  | panic => rfl
  | ok m =>
    cases m with
    | none => rfl
    | single t => rfl
    | ambiguous a b => rfl

/-! ### stage 1 -/


theorem nano_nonneg (p : Parsed) (hp : InType p) : 0 ≤ p.nanosecond.getD 0 := by
  have hnT := hp.2.2.2.2.2.2.2.2.2.2.2.2.2.2.2.2.2.1
  cases hn : p.nanosecond with
  | none => simp
  | some n => have := hnT n hn; simp; omega

/-- stage 1, every record: OUT_OF_RANGE for a timestamp outside the representable range (or with a
nanosecond field that is no nanosecond), a panic only if the zone's function panics, else a guess -/
theorem guessed_spec (p : Parsed) (hp : InType p) (ofu : NaiveDT → Res Int) :
    (p.timestamp = none ∧ guessed_offset p ofu = .ok (.ok 0)) ∨
    (∃ ts, p.timestamp = some ts ∧ ¬ tsOk ts (p.nanosecond.getD 0) ∧
      guessed_offset p ofu = .ok (.error .outOfRange)) ∨
    (∃ ts u, p.timestamp = some ts ∧ NaiveDT.from_timestamp ts (p.nanosecond.getD 0) = .ok (some u) ∧
      NDTInv u ∧ instSecs u = ts ∧
      guessed_offset p ofu = (match ofu u with
        | .ok o => .ok (.ok o)
        | .panic => .panic)) := by
  have htT := hp.2.2.2.2.2.2.2.2.2.2.2.2.2.2.2.2.2.2.1
  unfold guessed_offset
  cases hts : p.timestamp with
  | none => exact Or.inl ⟨rfl, rfl⟩
  | some ts =>
    right
    obtain ⟨r0, hr0, hnone, hsome⟩ := from_timestamp_spec ts (p.nanosecond.getD 0)
      (by have := htT ts hts; unfold isI64; exact this) (nano_nonneg p hp)
    cases r0 with
    | none =>
      left
      refine ⟨ts, rfl, hnone.mp rfl, ?_⟩
      simp only [hr0, okOr_none, bind_err]
    | some u =>
      right
      obtain ⟨hi, _, hs, _⟩ := hsome u rfl
      refine ⟨ts, u, rfl, hr0, hi, hs, ?_⟩
      simp only [hr0, okOr_some, bind_okok]

theorem guessed_iff (p : Parsed) (hp : InType p) (ofu : NaiveDT → Res Int) (g : Int) :
    guessed_offset p ofu = .ok (.ok g) ↔ GuessIs p ofu g := by
  unfold GuessIs
  rcases guessed_spec p hp ofu with ⟨h1, h2⟩ | ⟨ts, h1, hbad, h2⟩ | ⟨ts, u, h1, h2, h3, h4, h5⟩
  · rw [h2]
    constructor
    · intro h; cases h; exact Or.inl ⟨h1, rfl⟩
    · rintro (⟨_, rfl⟩ | ⟨ts, u, h, _⟩)
      · rfl
      · rw [h1] at h; cases h
  · rw [h2]
    constructor
    · intro h; cases h
    · rintro (⟨h, _⟩ | ⟨ts', u, h, hf, _⟩)
      · rw [h1] at h; cases h
      · exfalso
        rw [h1] at h; cases h
        have htT := hp.2.2.2.2.2.2.2.2.2.2.2.2.2.2.2.2.2.2.1
        obtain ⟨r0, hr0, hnone, _⟩ := from_timestamp_spec ts (p.nanosecond.getD 0)
          (by have := htT ts h1; unfold isI64; exact this) (nano_nonneg p hp)
        rw [hf] at hr0
        cases hr0
        exact absurd (hnone.mpr hbad) (by simp)
  · rw [h5]
    constructor
    · intro h
      right
      refine ⟨ts, u, h1, h2, h3, h4, ?_⟩
      cases hofu : ofu u with
      | panic => rw [hofu] at h; cases h
      | ok o => rw [hofu] at h; cases h; rfl
    · rintro (⟨h, _⟩ | ⟨ts', u', h, hf, _, _, ho⟩)
      · rw [h1] at h; cases h
      · rw [h1] at h; cases h
        rw [h2] at hf; cases hf
        rw [ho]

/-! ### the whole function -/

/-- where a run that does not panic ends -/
theorem gen_reach (p : Parsed) (hp : InType p) (ofu : NaiveDT → Res Int)
    (fl : NaiveDT → Res (Mapped Zoned))
    (hofu : ∀ u o, NDTInv u → ofu u = .ok o → -2147483648 ≤ o ∧ o ≤ 2147483647)
    (hcand : ∀ l m c, NDTInv l → fl l = .ok m → c ∈ m.toList → ZInv c)
    (r : PRes Zoned) (h : Parsed.to_datetime_with_timezone_gen p ofu fl = .ok r) :
    (∃ ts, p.timestamp = some ts ∧ ¬ tsOk ts (p.nanosecond.getD 0) ∧ r = .error .outOfRange) ∨
    (∃ g e, GuessIs p ofu g ∧ Parsed.to_naive_datetime_with_offset p g = .ok (.error e) ∧
      (e = .notEnough ∨ e = .impossible ∨ e = .outOfRange) ∧ r = .error e) ∨
    (∃ g dt m, GuessIs p ofu g ∧ Parsed.to_naive_datetime_with_offset p g = .ok (.ok dt) ∧
      NaiveOk p dt g ∧ fl dt = .ok m ∧ r = choose (consistent p m)) := by
  rw [gen_eq] at h
  have tail : ∀ g, GuessIs p ofu g →
      (Parsed.RP.bind (Parsed.to_naive_datetime_with_offset p g) fun dt =>
        match fl dt with
        | .panic => .panic
        | .ok m => pickR p m : Parsed.RP Zoned) = .ok r →
      (∃ g e, GuessIs p ofu g ∧ Parsed.to_naive_datetime_with_offset p g = .ok (.error e) ∧
        (e = .notEnough ∨ e = .impossible ∨ e = .outOfRange) ∧ r = .error e) ∨
      (∃ g dt m, GuessIs p ofu g ∧ Parsed.to_naive_datetime_with_offset p g = .ok (.ok dt) ∧
        NaiveOk p dt g ∧ fl dt = .ok m ∧ r = choose (consistent p m)) := by
    intro g hg h
    have hgr : -2147483648 ≤ g ∧ g ≤ 2147483647 := by
      rcases hg with ⟨_, rfl⟩ | ⟨ts, u, _, _, hu, _, ho⟩
      · omega
      · exact hofu u g hu ho
    obtain ⟨r', hr', hk, hok⟩ := dt_main' p hp g hgr
    rw [hr'] at h
    cases r' with
    | error e =>
      left
      rw [bind_err] at h
      cases h
      exact ⟨g, e, hg, hr', hk e rfl, rfl⟩
    | ok dt =>
      right
      rw [bind_okok] at h
      have hn := hok dt rfl
      cases hm : fl dt with
      | panic => rw [hm] at h; cases h
      | ok m =>
        rw [hm] at h
        simp only [] at h
        rw [pickR_eq p m (fun c hc => hcand dt m c (naiveOk_inv p dt g hn) hm hc)] at h
        cases h
        exact ⟨g, dt, m, hg, hr', hn, hm, rfl⟩
  rcases guessed_spec p hp ofu with ⟨h1, h2⟩ | ⟨ts, h1, hbad, h2⟩ | ⟨ts, u, h1, h2, h3, h4, h5⟩
  · rw [h2, bind_okok] at h
    exact Or.inr (tail 0 (Or.inl ⟨h1, rfl⟩) h)
  · rw [h2, bind_err] at h
    cases h
    exact Or.inl ⟨ts, h1, hbad, rfl⟩
  · rw [h5] at h
    cases ho : ofu u with
    | panic => rw [ho] at h; cases h
    | ok o =>
      rw [ho] at h
      rw [bind_okok] at h
      exact Or.inr (tail o (Or.inr ⟨ts, u, h1, h2, h3, h4, ho⟩) h)

/-- the converse: once the first two stages succeed and the zone answers, the result is the choice
among the consistent candidates -/
theorem gen_resolution (p : Parsed) (hp : InType p) (ofu : NaiveDT → Res Int)
    (fl : NaiveDT → Res (Mapped Zoned)) (g : Int) (dt : NaiveDT) (m : Mapped Zoned)
    (hg : GuessIs p ofu g) (hdt : Parsed.to_naive_datetime_with_offset p g = .ok (.ok dt))
    (hm : fl dt = .ok m) (hc : ∀ c ∈ m.toList, ZInv c) :
    Parsed.to_datetime_with_timezone_gen p ofu fl = .ok (choose (consistent p m)) := by
  rw [gen_eq, (guessed_iff p hp ofu g).mpr hg, bind_okok, hdt, bind_okok, hm]
  exact pickR_eq p m hc

/-- the function panics only if one of the zone's two functions does (on a valid argument) -/
theorem gen_total (p : Parsed) (hp : InType p) (ofu : NaiveDT → Res Int)
    (fl : NaiveDT → Res (Mapped Zoned))
    (hofu : ∀ u, NDTInv u → ∃ o, ofu u = .ok o ∧ -2147483648 ≤ o ∧ o ≤ 2147483647)
    (hfl : ∀ l, NDTInv l → ∃ m, fl l = .ok m ∧ ∀ c ∈ m.toList, ZInv c) :
    ∃ r, Parsed.to_datetime_with_timezone_gen p ofu fl = .ok r := by
  rw [gen_eq]
  have tail : ∀ g, (-2147483648 ≤ g ∧ g ≤ 2147483647) →
      ∃ r, (Parsed.RP.bind (Parsed.to_naive_datetime_with_offset p g) fun dt =>
        match fl dt with
        | .panic => .panic
        | .ok m => pickR p m : Parsed.RP Zoned) = .ok r := by
    intro g hgr
    obtain ⟨r', hr', _, hok⟩ := dt_main' p hp g hgr
    rw [hr']
    cases r' with
    | error e => exact ⟨_, rfl⟩
    | ok dt =>
      rw [bind_okok]
      obtain ⟨m, hm, hc⟩ := hfl dt (naiveOk_inv p dt g (hok dt rfl))
      rw [hm]
      simp only []
      rw [pickR_eq p m hc]
      exact ⟨_, rfl⟩
  rcases guessed_spec p hp ofu with ⟨h1, h2⟩ | ⟨ts, h1, hbad, h2⟩ | ⟨ts, u, h1, h2, h3, h4, h5⟩
  · rw [h2, bind_okok]
    exact tail 0 (by omega)
  · rw [h2, bind_err]
    exact ⟨_, rfl⟩
  · rw [h5]
    obtain ⟨o, ho, hr⟩ := hofu u h3
    rw [ho, bind_okok]
    exact tail o hr

/-- a consistent candidate is a candidate, and is consistent -/
theorem consistent_mem (p : Parsed) (m : Mapped Zoned) (c : Zoned) (h : c ∈ consistent p m) :
    c ∈ m.toList ∧ Consistent p c := by
  unfold consistent at h
  rw [List.mem_filter] at h
  exact ⟨h.1, (consistentB_iff p c).mp h.2⟩

/-- what `choose` returns -/
theorem choose_ok (l : List Zoned) (z : Zoned) : choose l = .ok z ↔ l = [z] := by
  unfold choose
  split
  · simp
  · constructor
    · intro h; cases h; rfl
    · intro h; cases h; rfl
  · rename_i h1 h2
    constructor
    · intro h; cases h
    · intro h; exact absurd h (h2 z)

theorem choose_err (l : List Zoned) (e : PErr) (h : choose l = .error e) :
    (e = .impossible ∧ l = []) ∨ (e = .notEnough ∧ 2 ≤ l.length) := by
  unfold choose at h
  split at h
  · cases h; exact Or.inl ⟨rfl, rfl⟩
  · cases h
  · rename_i h1 h2
    cases h
    right
    refine ⟨rfl, ?_⟩
    match l, h1, h2 with
    | [], h1, _ => exact absurd rfl h1
    | [c], _, h2 => exact absurd rfl (h2 c)
    | _ :: _ :: _, _, _ => simp

/-! ### fixed zones -/

/-- nothing already proved is lost: the fixed-zone model of Model/ParsedResolve.lean is the generic
one at a zone whose offset is constant and whose `from_local_datetime` is `Single`/`None` — the
timestamp test of `check_offset`, which the fixed-zone model does not contain, always passes there -/
theorem fixed_is_instance (p : Parsed) (hp : InType p) (z : Int) (hz : OffValid z) :
    Parsed.to_datetime_with_timezone p z =
      Parsed.to_datetime_with_timezone_gen p (Parsed.fixed_offset_from_utc z) (Parsed.fixed_from_local z) := by
  rw [gen_eq]
  have hl : Parsed.to_datetime_with_timezone p z =
      Parsed.RP.bind (guessed_offset p (Parsed.fixed_offset_from_utc z)) fun g =>
      Parsed.RP.bind (Parsed.to_naive_datetime_with_offset p g) fun dt =>
        match Zoned.from_local_datetime z dt with
        | .panic => .panic
        | .ok none => .ok (.error .impossible)
        | .ok (some t) =>
          if (match p.offset with
              | some offset => t.off == offset
              | none => true) then .ok (.ok t) else .ok (.error .impossible) := by
    unfold Parsed.to_datetime_with_timezone guessed_offset Parsed.fixed_offset_from_utc
    rfl
  rw [hl]
  have tail : ∀ g, (-2147483648 ≤ g ∧ g ≤ 2147483647) → (p.timestamp ≠ none → g = z) →
      (Parsed.RP.bind (Parsed.to_naive_datetime_with_offset p g) fun dt =>
        match Zoned.from_local_datetime z dt with
        | .panic => .panic
        | .ok none => .ok (.error .impossible)
        | .ok (some t) =>
          if (match p.offset with
              | some offset => t.off == offset
              | none => true) then .ok (.ok t) else .ok (.error .impossible) : Parsed.RP Zoned) =
      (Parsed.RP.bind (Parsed.to_naive_datetime_with_offset p g) fun dt =>
        match Parsed.fixed_from_local z dt with
        | .panic => .panic
        | .ok m => pickR p m) := by
    intro g hgr hgz
    obtain ⟨r', hr', _, hok⟩ := dt_main' p hp g hgr
    rw [hr']
    cases r' with
    | error e => rfl
    | ok dt =>
      rw [bind_okok, bind_okok]
      have hn := hok dt rfl
      have hdi := naiveOk_inv p dt g hn
      unfold Parsed.fixed_from_local
      obtain ⟨r2, hr2, _⟩ := Chrono.Props.C04.fromLocal_fails_iff z dt hz hdi
      rw [hr2]
      cases r2 with
      | none => rfl
      | some t =>
        obtain ⟨a, b, _, _, e1, e2⟩ := Chrono.Props.C04.local_of_fromLocal z dt hz hdi t hr2
        simp only []
        unfold pickR
        simp only []
        rw [check_offset_spec p t b]
        have hts : consistentB p t = (match p.offset with
              | some offset => t.off == offset
              | none => true) := by
          unfold consistentB
          cases hts : p.timestamp with
          | none => simp
          | some ts =>
            obtain ⟨_, _, _, _, _, _, _, hstamp⟩ := hn
            have hg := hgz (by rw [hts]; simp)
            have hloc : timestampIs.instSecsLocal dt = instSecs dt := rfl
            have := hstamp ts hts
            rw [hloc, hg] at this
            have hc : (decide (ts = instSecs t.utc) ||
                (decide (1000000000 ≤ t.utc.time.frac) && decide (ts = instSecs t.utc + 1))) = true := by
              rw [e1, e2]
              rcases this with h | ⟨h1, h2⟩
              · simp [h]
              · simp [h1, h2]
            simp only [hc, Bool.and_true]
        rw [hts]
        generalize (match p.offset with
              | some offset => t.off == offset
              | none => true) = bb
        cases bb <;> rfl
  rcases guessed_spec p hp (Parsed.fixed_offset_from_utc z) with
    ⟨h1, h2⟩ | ⟨ts, h1, hbad, h2⟩ | ⟨ts, u, h1, h2, h3, h4, h5⟩
  · rw [h2, bind_okok, bind_okok]
    exact tail 0 (by omega) (fun h => absurd h1 h)
  · rw [h2, bind_err, bind_err]
  · have h5' : guessed_offset p (Parsed.fixed_offset_from_utc z) = .ok (.ok z) := h5
    unfold OffValid at hz
    rw [h5', bind_okok, bind_okok]
    exact tail z (by omega) (fun _ => rfl)

/-! ### step zones -/

/-- first principles: the instants `u` that read `s` on the local clock of the step zone are exactly
`s − o` for the offsets `o` listed by `local_offsets` -/
theorem candidates_iff (z : StepZone) (s u : Int) :
    u + z.offset_at u = s ↔ (s - u) ∈ (z.local_offsets s).toList := by
  unfold StepZone.offset_at StepZone.local_offsets
  by_cases h1 : s - z.o1 < z.T <;> by_cases h2 : z.T ≤ s - z.o2 <;>
    simp only [h1, h2, decide_true, decide_false, Mapped.toList, List.mem_cons, List.not_mem_nil,
      or_false] <;> split <;> (constructor <;> intro hh <;> first | omega | exact hh.elim)

/-- no instant is listed twice, and the earlier instant comes first -/
theorem ambiguous_order (z : StepZone) (s a b : Int) (h : z.local_offsets s = .ambiguous a b) :
    a = z.o1 ∧ b = z.o2 ∧ s - a < z.T ∧ z.T ≤ s - b ∧ s - a < s - b := by
  unfold StepZone.local_offsets at h
  by_cases h1 : s - z.o1 < z.T <;> by_cases h2 : z.T ≤ s - z.o2 <;>
    simp only [h1, h2, decide_true, decide_false] at h <;> cases h
  exact ⟨rfl, rfl, h1, h2, by omega⟩

theorem local_offsets_mem (z : StepZone) (s o : Int) (h : o ∈ (z.local_offsets s).toList) :
    (o = z.o1 ∨ o = z.o2) ∧ z.offset_at (s - o) = o := by
  have h' : (s - (s - o)) ∈ (z.local_offsets s).toList := by
    have : s - (s - o) = o := by omega
    rw [this]; exact h
  have := (candidates_iff z s (s - o)).mpr h'
  refine ⟨?_, by omega⟩
  unfold StepZone.offset_at at this
  split at this <;> omega

/-- `checked_sub_offset` behind `Zoned.from_local_datetime` -/
theorem csub_spec (o : Int) (l : NaiveDT) (ho : OffValid o) (hl : NDTInv l) :
    ∃ r, l.checked_sub_offset o = .ok r ∧
      ∀ u, r = some u → ZInv ⟨u, o⟩ ∧ Zoned.naive_local ⟨u, o⟩ = .ok l ∧
        instSecs u = instSecs l - o ∧ u.time.frac = l.time.frac := by
  obtain ⟨r, hr, _⟩ := Chrono.Props.C04.fromLocal_fails_iff o l ho hl
  cases hcs : l.checked_sub_offset o with
  | panic =>
    unfold Zoned.from_local_datetime at hr
    rw [hcs] at hr
    cases hr
  | ok r' =>
    refine ⟨r', rfl, ?_⟩
    intro u hu
    subst hu
    have hz : Zoned.from_local_datetime o l = .ok (some ⟨u, o⟩) := by
      unfold Zoned.from_local_datetime
      rw [hcs]
      rfl
    obtain ⟨_, b, c, _, e1, e2⟩ := Chrono.Props.C04.local_of_fromLocal o l ho hl _ hz
    exact ⟨b, c, e1, e2⟩


/-- `from_local_datetime` of a step zone on a valid local date-time: never panics; every candidate
is a `StepCandidate`; the candidates' offsets are among `local_offsets`; two candidates are in
order of their instants -/
theorem step_from_local_spec (z : StepZone) (h1 : OffValid z.o1) (h2 : OffValid z.o2)
    (l : NaiveDT) (hl : NDTInv l) :
    ∃ m, z.from_local_datetime l = .ok m ∧
      (∀ c ∈ m.toList, StepCandidate z l c ∧ c.off ∈ (z.local_offsets (instSecs l)).toList) ∧
      (∀ a b, m = .ambiguous a b → instSecs a.utc < instSecs b.utc) := by
  have hov : ∀ o, o ∈ (z.local_offsets (instSecs l)).toList →
      OffValid o ∧ z.offset_at (instSecs l - o) = o := by
    intro o ho
    obtain ⟨hh, he⟩ := local_offsets_mem z _ o ho
    refine ⟨?_, he⟩
    rcases hh with rfl | rfl
    · exact h1
    · exact h2
  have one : ∀ o u, o ∈ (z.local_offsets (instSecs l)).toList → l.checked_sub_offset o = .ok (some u) →
      StepCandidate z l ⟨u, o⟩ := by
    intro o u ho hcs
    obtain ⟨hv, he⟩ := hov o ho
    obtain ⟨r, hr, hs⟩ := csub_spec o l hv hl
    rw [hcs] at hr
    cases hr
    obtain ⟨a, b, c, d⟩ := hs u rfl
    refine ⟨a, b, c, d, ?_⟩
    show z.offset_at (instSecs u) = o
    rw [c]; exact he
  unfold StepZone.from_local_datetime StepZone.offset_from_local_datetime
  rw [timestamp_spec l hl]
  simp only [Res.bind]
  cases hm : z.local_offsets (instSecs l) with
  | none =>
    exact ⟨.none, rfl, (fun c hc => by simp [Mapped.toList] at hc), (fun a b h => by cases h)⟩
  | single o =>
    simp only []
    have ho : o ∈ (z.local_offsets (instSecs l)).toList := by rw [hm]; simp [Mapped.toList]
    obtain ⟨r, hr, _⟩ := csub_spec o l (hov o ho).1 hl
    rw [hr]
    cases r with
    | none =>
      exact ⟨.none, rfl, (fun c hc => by simp [Mapped.toList] at hc), (fun a b h => by cases h)⟩
    | some u =>
      refine ⟨.single ⟨u, o⟩, rfl, ?_, (fun a b h => by cases h)⟩
      intro c hc
      simp only [Mapped.toList, List.mem_cons, List.not_mem_nil, or_false] at hc
      subst hc
      exact ⟨one o u ho hr, by rw [← hm]; exact ho⟩
  | ambiguous a b =>
    simp only []
    have ha : a ∈ (z.local_offsets (instSecs l)).toList := by rw [hm]; simp [Mapped.toList]
    have hb : b ∈ (z.local_offsets (instSecs l)).toList := by rw [hm]; simp [Mapped.toList]
    obtain ⟨ra, hra, _⟩ := csub_spec a l (hov a ha).1 hl
    obtain ⟨rb, hrb, _⟩ := csub_spec b l (hov b hb).1 hl
    rw [hra, hrb]
    cases ra with
    | none =>
      exact ⟨.none, rfl, (fun c hc => by simp [Mapped.toList] at hc), (fun a b h => by cases h)⟩
    | some ua =>
      cases rb with
      | none =>
        exact ⟨.none, rfl, (fun c hc => by simp [Mapped.toList] at hc), (fun a b h => by cases h)⟩
      | some ub =>
        have ca := one a ua ha hra
        have cb := one b ub hb hrb
        refine ⟨.ambiguous ⟨ua, a⟩ ⟨ub, b⟩, rfl, ?_, ?_⟩
        · intro c hc
          simp only [Mapped.toList, List.mem_cons, List.not_mem_nil, or_false] at hc
          rcases hc with rfl | rfl
          · exact ⟨ca, by rw [← hm]; exact ha⟩
          · exact ⟨cb, by rw [← hm]; exact hb⟩
        · intro a' b' h
          cases h
          obtain ⟨_, _, _, _, hlt⟩ := ambiguous_order z _ a b hm
          have e1 : instSecs ua = instSecs l - a := ca.2.2.1
          have e2 : instSecs ub = instSecs l - b := cb.2.2.1
          show instSecs ua < instSecs ub
          omega

/-- `offset_from_utc_datetime` of a step zone on a valid UTC date-time -/
theorem step_ofu_spec (z : StepZone) (h1 : OffValid z.o1) (h2 : OffValid z.o2)
    (u : NaiveDT) (hu : NDTInv u) :
    z.offset_from_utc_datetime u = .ok (z.offset_at (instSecs u)) ∧ OffValid (z.offset_at (instSecs u)) := by
  unfold StepZone.offset_from_utc_datetime
  rw [timestamp_spec u hu]
  refine ⟨rfl, ?_⟩
  unfold StepZone.offset_at
  split
  · exact h1
  · exact h2

/-! ### consequences used by Props/C14.lean -/

theorem consistent_pair (p : Parsed) (a b : Zoned) :
    consistent p (.ambiguous a b) =
      (bif consistentB p a then [a] else []) ++ (bif consistentB p b then [b] else []) := by
  unfold consistent
  simp only [Mapped.toList, List.filter]
  cases consistentB p a <;> cases consistentB p b <;> rfl

theorem consistentB_false (p : Parsed) (c : Zoned) (h : ¬ Consistent p c) : consistentB p c = false := by
  cases h' : consistentB p c with
  | false => rfl
  | true => exact absurd ((consistentB_iff p c).mp h') h

/-- two consistent candidates: an `Ambiguous` pair, both consistent -/
theorem consistent_two (p : Parsed) (m : Mapped Zoned) (h : 2 ≤ (consistent p m).length) :
    ∃ a b, m = .ambiguous a b ∧ Consistent p a ∧ Consistent p b := by
  cases m with
  | none => simp [consistent, Mapped.toList] at h
  | single t =>
    unfold consistent at h
    simp only [Mapped.toList, List.filter] at h
    cases hb : consistentB p t <;> rw [hb] at h <;> simp at h
  | ambiguous a b =>
    rw [consistent_pair] at h
    cases ha : consistentB p a <;> cases hb : consistentB p b <;> rw [ha, hb] at h <;>
      simp at h
    exact ⟨a, b, rfl, (consistentB_iff p a).mp ha, (consistentB_iff p b).mp hb⟩

theorem offValid_i32 (o : Int) (h : OffValid o) : -2147483648 ≤ o ∧ o ≤ 2147483647 := by
  unfold OffValid at h; omega

theorem step_hofu (z : StepZone) (h1 : OffValid z.o1) (h2 : OffValid z.o2) :
    ∀ u o, NDTInv u → z.offset_from_utc_datetime u = .ok o → -2147483648 ≤ o ∧ o ≤ 2147483647 := by
  intro u o hu ho
  obtain ⟨e, hv⟩ := step_ofu_spec z h1 h2 u hu
  rw [e] at ho
  cases ho
  exact offValid_i32 _ hv

theorem step_hcand (z : StepZone) (h1 : OffValid z.o1) (h2 : OffValid z.o2) :
    ∀ l m c, NDTInv l → z.from_local_datetime l = .ok m → c ∈ m.toList →
      StepCandidate z l c ∧ c.off ∈ (z.local_offsets (instSecs l)).toList := by
  intro l m c hl hm hc
  obtain ⟨m', hm', hcs, _⟩ := step_from_local_spec z h1 h2 l hl
  rw [hm] at hm'
  cases hm'
  exact hcs c hc

theorem step_sound (p : Parsed) (hp : InType p) (z : StepZone) (h1 : OffValid z.o1)
    (h2 : OffValid z.o2) :
    ∃ r, Parsed.to_datetime_with_step_zone p z = .ok r ∧
      (∀ e, r = .error e → e = .notEnough ∨ e = .impossible ∨ e = .outOfRange) ∧
      (∀ v, r = .ok v → Consistent p v ∧ ∃ g dt, NaiveOk p dt g ∧ StepCandidate z dt v) := by
  unfold Parsed.to_datetime_with_step_zone
  have hcand : ∀ l m c, NDTInv l → z.from_local_datetime l = .ok m → c ∈ m.toList → ZInv c :=
    fun l m c hl hm hc => (step_hcand z h1 h2 l m c hl hm hc).1.1
  obtain ⟨r, hr⟩ := gen_total p hp z.offset_from_utc_datetime z.from_local_datetime
    (fun u hu => ⟨_, (step_ofu_spec z h1 h2 u hu).1, offValid_i32 _ (step_ofu_spec z h1 h2 u hu).2⟩)
    (fun l hl => by
      obtain ⟨m, hm, hcs, _⟩ := step_from_local_spec z h1 h2 l hl
      exact ⟨m, hm, fun c hc => (hcs c hc).1.1⟩)
  refine ⟨r, hr, ?_, ?_⟩
  · intro e he
    subst he
    rcases gen_reach p hp _ _ (step_hofu z h1 h2) hcand _ hr with ⟨_, _, _, h3⟩ | ⟨_, e', _, _, hk, h3⟩ |
      ⟨g, dt, m, hg, hdt, hn, hm, h3⟩
    · cases h3; simp
    · cases h3; exact hk
    · rcases choose_err _ e h3.symm with ⟨rfl, _⟩ | ⟨rfl, _⟩ <;> simp
  · intro v hv
    subst hv
    rcases gen_reach p hp _ _ (step_hofu z h1 h2) hcand _ hr with ⟨_, _, _, h3⟩ | ⟨_, e', _, _, hk, h3⟩ |
      ⟨g, dt, m, hg, hdt, hn, hm, h3⟩
    · cases h3
    · cases h3
    · have hl := (choose_ok _ v).mp h3.symm
      obtain ⟨hmem, hcons⟩ := consistent_mem p m v (by rw [hl]; simp)
      exact ⟨hcons, g, dt, hn, (step_hcand z h1 h2 dt m v (naiveOk_inv p dt g hn) hm hmem).1⟩

theorem step_timestamp_decides (p : Parsed) (hp : InType p) (z : StepZone) (h1 : OffValid z.o1)
    (h2 : OffValid z.o2) (hw : z.o1 - z.o2 ≠ 1) (ts : Int) (hts : p.timestamp = some ts)
    (h : Parsed.to_datetime_with_step_zone p z = .ok (.error .notEnough)) :
    ∃ g, GuessIs p z.offset_from_utc_datetime g ∧
      Parsed.to_naive_datetime_with_offset p g = .ok (.error .notEnough) := by
  unfold Parsed.to_datetime_with_step_zone at h
  have hcand : ∀ l m c, NDTInv l → z.from_local_datetime l = .ok m → c ∈ m.toList → ZInv c :=
    fun l m c hl hm hc => (step_hcand z h1 h2 l m c hl hm hc).1.1
  rcases gen_reach p hp _ _ (step_hofu z h1 h2) hcand _ h with ⟨_, _, _, h3⟩ | ⟨g, e', hg, hdt, _, h3⟩ |
    ⟨g, dt, m, hg, hdt, hn, hm, h3⟩
  · cases h3
  · cases h3
    exact ⟨g, hg, hdt⟩
  · exfalso
    rcases choose_err _ _ h3.symm with ⟨hh, _⟩ | ⟨_, hl⟩
    · cases hh
    · obtain ⟨a, b, hab, ha, hb⟩ := consistent_two p m hl
      subst hab
      have hdi := naiveOk_inv p dt g hn
      obtain ⟨⟨_, _, ea, _, ca⟩, ma⟩ := step_hcand z h1 h2 dt _ a hdi hm (by simp [Mapped.toList])
      obtain ⟨⟨_, _, eb, _, cb⟩, mb⟩ := step_hcand z h1 h2 dt _ b hdi hm (by simp [Mapped.toList])
      obtain ⟨m', hm', _, hord⟩ := step_from_local_spec z h1 h2 dt hdi
      rw [hm] at hm'
      cases hm'
      have hlt := hord a b rfl
      have oa := (local_offsets_mem z _ _ ma).1
      have ob := (local_offsets_mem z _ _ mb).1
      have hta := ha.2 ts hts
      have htb := hb.2 ts hts
      unfold StepZone.offset_at at ca cb
      omega

end Chrono.Proofs.ParsedZone
