/-
  Helper lemmas for C08's audit gaps MEDIUM-1 / LOW-3 / LOW-6 / LOW-7: the operator forms
  `+ Months` / `- Months` (Model/MonthsOps.lean: `expect` of the checked forms), the `Datelike` defaults
  inherited by `NaiveDateTime` / `DateTime<Tz>`, and the wall-clock meaning of month stepping for every
  reading of the extended calendar.
-/
import Chrono.Proofs.DateTimeOpsL
import Chrono.Model.MonthsOps
import Chrono.Spec.MonthsOpsSpec

namespace Chrono.Proofs.MOps
open Chrono Chrono.M Chrono.Spec Chrono.Proofs Chrono.Proofs.ZN Chrono.Proofs.DTO Chrono.Extracted
  Chrono.Extracted.DateOps

theorem expectSome_ok {α} (r : Option α) : expectSome (Res.ok r) = orPanic r := by
  cases r <;> rfl

theorem orPanic_panic_iff {α} (r : Option α) : orPanic r = .panic ↔ r = none := by
  cases r with
  | none => exact ⟨fun _ => rfl, fun _ => rfl⟩
  | some a => exact ⟨fun h => (by cases h), fun h => (by cases h)⟩

theorem orPanic_ok_iff {α} (r : Option α) (a : α) : orPanic r = .ok a ↔ r = some a := by
  cases r with
  | none => exact ⟨fun h => (by cases h), fun h => (by cases h)⟩
  | some b =>
    constructor
    · intro h; unfold orPanic at h; dsimp only at h; injection h with h; rw [h]
    · intro h; injection h with h; rw [h]; rfl

/-! ### `NaiveDate ± Months` -/

theorem date_months_op (y : Int) (o : Nat) (hy : MIN_YEAR ≤ y ∧ y ≤ MAX_YEAR) (ho : 1 ≤ o ∧ o ≤ yearLen y)
    (n : Nat) :
    (dateOfYo y o).add_months_op n = orPanic (addMonths? y (monthOfYo y o) (dayOfYo y o) n) ∧
    (dateOfYo y o).sub_months_op n = orPanic (addMonths? y (monthOfYo y o) (dayOfYo y o) (-(n : Int))) := by
  unfold Date.add_months_op Date.sub_months_op
  rw [add_months_spec y o hy ho n, sub_months_spec y o hy ho n, expectSome_ok, expectSome_ok]
  exact ⟨rfl, rfl⟩

/-! ### `NaiveDateTime ± Months`, every reading of the extended calendar -/

theorem ndt_months_op (l : NaiveDT) (hext : ExtDateInv l.date) (k : Nat) :
    l.add_months_op k = orPanic ((if k = 0 then some l.date else
        addMonths? l.date.year (monthOfYo l.date.year l.date.ordinal.toNat)
          (dayOfYo l.date.year l.date.ordinal.toNat) k).map fun d => ⟨d, l.time⟩) ∧
    l.sub_months_op k = orPanic ((if k = 0 then some l.date else
        addMonths? l.date.year (monthOfYo l.date.year l.date.ordinal.toNat)
          (dayOfYo l.date.year l.date.ordinal.toNat) (-(k : Int))).map fun d => ⟨d, l.time⟩) := by
  obtain ⟨_, _, _, _, _, _, _, n8, n9⟩ := ndt_ops_ext l hext 0 k 0
  unfold NaiveDT.add_months_op NaiveDT.sub_months_op
  rw [n8, n9, expectSome_ok, expectSome_ok]
  exact ⟨rfl, rfl⟩

/-! ### `DateTime<Tz> ± Months` -/

/-- the checked form, its operator, and when the operator panics -/
theorem zoned_months_op (z : Zoned) (hz : ZInv z) (l : NaiveDT)
    (hl : Zoned.overflowing_naive_local z = .ok l) (k : Nat) :
    (∃ r0 r, l.checked_add_months k = .ok r0 ∧ Zoned.checked_add_months z k = .ok r ∧
      ActsOnWallWith (fun s _ => InRangeSecs s) z r0 r ∧ (k = 0 → r = some z) ∧
      Zoned.add_months_op z k = orPanic r ∧
      (Zoned.add_months_op z k = .panic ↔
        (r0 = none ∨ ∃ nl, r0 = some nl ∧ ¬ InRangeSecs (instSecs nl - z.off)))) ∧
    (∃ r0 r, l.checked_sub_months k = .ok r0 ∧ Zoned.checked_sub_months z k = .ok r ∧
      ActsOnWallWith (fun s _ => InRangeSecs s) z r0 r ∧ (k = 0 → r = some z) ∧
      Zoned.sub_months_op z k = orPanic r ∧
      (Zoned.sub_months_op z k = .panic ↔
        (r0 = none ∨ ∃ nl, r0 = some nl ∧ ¬ InRangeSecs (instSecs nl - z.off)))) := by
  obtain ⟨_, _, _, _, _, _, _, ⟨ra0, ra, a1, a2, a3⟩, ⟨rs0, rs, s1, s2, s3⟩⟩ := zoned_date_ops z hz l hl 0 k 0
  obtain ⟨⟨ra', a4, a5, _⟩, ⟨rs', s4, s5, _⟩⟩ := zoned_months z hz l hl k
  rw [a2] at a4
  rw [s2] at s4
  injection a4 with a4
  injection s4 with s4
  subst a4 s4
  refine ⟨⟨ra0, ra, a1, a2, a3, a5, ?_, ?_⟩, ⟨rs0, rs, s1, s2, s3, s5, ?_, ?_⟩⟩
  · unfold Zoned.add_months_op; rw [a2, expectSome_ok]
  · unfold Zoned.add_months_op; rw [a2, expectSome_ok, orPanic_panic_iff]; exact a3.2
  · unfold Zoned.sub_months_op; rw [s2, expectSome_ok]
  · unfold Zoned.sub_months_op; rw [s2, expectSome_ok, orPanic_panic_iff]; exact s3.2

/-! ### the closure of `DateTime::with_year` against the specification's reading -/

theorem with_year_local (l : NaiveDT) (hext : ExtDateInv l.date) (y' : Int) :
    withYearLocal y' l = .ok (yearReading? l y') := by
  obtain ⟨n1, _⟩ := ndt_ops_ext l hext 0 0 y'
  unfold withYearLocal yearReading?
  by_cases hc : y' = l.date.year
  · rw [if_pos hc.symm, if_pos hc]
  · rw [if_neg (fun h => hc h.symm), if_neg hc, n1]
    refine congrArg Res.ok ?_
    unfold ymdDate? ymdReading?
    by_cases hr : MIN_YEAR ≤ y' ∧ y' ≤ MAX_YEAR
    · rw [if_pos hr]
      by_cases hv : validYmd y' (monthOfYo l.date.year l.date.ordinal.toNat)
          (dayOfYo l.date.year l.date.ordinal.toNat) = true
      · rw [if_pos ⟨hr.1, hr.2, hv⟩, if_pos hv]; rfl
      · rw [if_neg (fun h => hv h.2.2), if_neg hv]; rfl
    · rw [if_neg hr, if_neg (fun h => hr ⟨h.1, h.2.1⟩)]; rfl

/-! ### the `Datelike` defaults as `NaiveDateTime` / `DateTime<Tz>` inherit them -/

theorem quarter_eq (d : Date) : Datelike.quarter d.month = d.quarter := by
  unfold Datelike.quarter Date.quarter; cases d.month <;> rfl

theorem year_ce_eq (d : Date) : Datelike.year_ce (.ok d.year) = d.year_ce := rfl

theorem num_days_in_month_eq (d : Date) :
    Datelike.num_days_in_month d.month (.ok d.year) = d.num_days_in_month := by
  unfold Datelike.num_days_in_month Date.num_days_in_month
  cases d.month with
  | panic => rfl
  | ok m =>
    dsimp only [Res.bind]
    cases Month.from_u32 m <;> rfl

/-- the three defaults on a date of the calendar extended by one year at each end -/
theorem datelike_ext (d : Date) (hd : HeadOrIn d) :
    Datelike.quarter d.month = .ok ((monthOfYo d.year d.ordinal.toNat - 1) / 3 + 1) ∧
    Datelike.year_ce (.ok d.year) = .ok (if d.year < 1 then (false, 1 - d.year) else (true, d.year)) ∧
    Datelike.num_days_in_month d.month (.ok d.year) =
      .ok (monthLen d.year (monthOfYo d.year d.ordinal.toNat)) := by
  rcases hd with h | h | h
  · have he := (dateInv_iff d).mp h
    obtain ⟨el, vl⟩ := ext_eq d he.1
    have ho : 1 ≤ d.ordinal.toNat ∧ d.ordinal.toNat ≤ yearLen d.year := ⟨vl.2.2.1, vl.2.2.2⟩
    have hyl := yearLen_ge d.year
    have q := quarter_spec d.year d.ordinal.toNat ho
    have c := year_ce_spec d.year d.ordinal.toNat he.2 (by omega)
    have n := num_days_in_month_spec d.year d.ordinal.toNat he.2 ho
    rw [← el] at q c n
    rw [quarter_eq, year_ce_eq, num_days_in_month_eq]
    exact ⟨q, c, n⟩
  · subst h; decide +kernel
  · subst h; decide +kernel

end Chrono.Proofs.MOps
