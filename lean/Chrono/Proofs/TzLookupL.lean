/- Helper lemmas for C05 (proofs of the statements in Props/C05.lean). -/
import Chrono.Spec.ZoneSpec
import Chrono.Proofs.PrimL

namespace Chrono.Proofs.TzL
open Chrono Chrono.M.Tz Chrono.M.TzL Chrono.Spec.Zone Chrono.Extracted.TzL Chrono.Proofs

/-! ### tables and constants -/

theorem consts_ok' :
    SECONDS_PER_DAY = 86400 ∧ DAYS_PER_WEEK = 7 ∧ SECONDS_PER_HOUR = 3600 ∧ SECONDS_PER_MINUTE = 60 ∧
    MINUTES_PER_HOUR = 60 ∧ MONTHS_PER_YEAR = 12 ∧ DAYS_PER_NORMAL_YEAR = 365 ∧ DAYS_PER_4_YEARS = 1461 ∧
    DAYS_PER_100_YEARS = 36524 ∧ DAYS_PER_400_YEARS = 146097 ∧ OFFSET_YEAR = 2000 ∧
    UNIX_OFFSET_SECS = Spec.Zone.dayNum 2000 3 1 * 86400 := by decide

/-- month-length table, cumulative table and the March-based leap-year table against the calendar spec -/
theorem tables_ok' :
    (∀ m, m < 13 → 1 ≤ m → DAY_IN_MONTHS_NORMAL_YEAR.getD (m - 1) 0 = monthLen false m) ∧
    DAY_IN_MONTHS_NORMAL_YEAR.length = 12 ∧
    (∀ m, m < 13 → 1 ≤ m → CUMUL_DAY_IN_MONTHS_NORMAL_YEAR.getD (m - 1) 0 = daysBeforeMonth false m) ∧
    CUMUL_DAY_IN_MONTHS_NORMAL_YEAR.length = 12 ∧
    (∀ k, k < 12 → DAY_IN_MONTHS_LEAP_YEAR_FROM_MARCH.getD k 0 = monthLen true ((k + 2) % 12 + 1)) ∧
    DAY_IN_MONTHS_LEAP_YEAR_FROM_MARCH.length = 12 := by decide

/-! ### the second calendar -/

theorem is_leap_year_eq (y : Int) : is_leap_year y = leap y := by
  unfold is_leap_year leap
  rw [tmod_eq, tmod_eq, tmod_eq]
  by_cases h : 0 ≤ y
  · simp only [h, if_true]
    rw [Bool.eq_iff_iff]
    simp only [Bool.or_eq_true, Bool.and_eq_true, beq_iff_eq, bne_iff_ne, decide_eq_true_eq]
    omega
  · simp only [h, if_false]
    rw [Bool.eq_iff_iff]
    simp only [Bool.or_eq_true, Bool.and_eq_true, beq_iff_eq, bne_iff_ne, decide_eq_true_eq]
    omega

end Chrono.Proofs.TzL
