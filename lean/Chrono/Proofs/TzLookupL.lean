/- Helper lemmas for C05 (proofs of the statements in Props/C05.lean). -/
import Chrono.Spec.ZoneSpec
import Chrono.Proofs.PrimL

set_option linter.unusedSimpArgs false
set_option linter.unusedVariables false

namespace Chrono.Proofs.TzL
open Chrono Chrono.M.Tz Chrono.M.TzL Chrono.Spec.Zone Chrono.Extracted.TzL Chrono.Proofs

/-! ### tables and constants -/

theorem consts_ok' :
    SECONDS_PER_DAY = 86400 ∧ DAYS_PER_WEEK = 7 ∧ SECONDS_PER_HOUR = 3600 ∧ SECONDS_PER_MINUTE = 60 ∧
    MINUTES_PER_HOUR = 60 ∧ MONTHS_PER_YEAR = 12 ∧ DAYS_PER_NORMAL_YEAR = 365 ∧ DAYS_PER_4_YEARS = 1461 ∧
    DAYS_PER_100_YEARS = 36524 ∧ DAYS_PER_400_YEARS = 146097 ∧ OFFSET_YEAR = 2000 ∧
    UNIX_OFFSET_SECS = Spec.Zone.dayNum 2000 3 1 * 86400 := by decide

/-- month-length table, cumulative table and the March-based leap-year table against the calendar spec -/
theorem tables_ok' :
    (∀ m, m < 13 → 1 ≤ m → DAY_IN_MONTHS_NORMAL_YEAR.getD (m - 1) 0 = monthLen false m) ∧
    DAY_IN_MONTHS_NORMAL_YEAR.length = 12 ∧
    (∀ m, m < 13 → 1 ≤ m → CUMUL_DAY_IN_MONTHS_NORMAL_YEAR.getD (m - 1) 0 = daysBeforeMonth false m) ∧
    CUMUL_DAY_IN_MONTHS_NORMAL_YEAR.length = 12 ∧
    (∀ k, k < 12 → DAY_IN_MONTHS_LEAP_YEAR_FROM_MARCH.getD k 0 = monthLen true ((k + 2) % 12 + 1)) ∧
    DAY_IN_MONTHS_LEAP_YEAR_FROM_MARCH.length = 12 := by decide

/-! ### the second calendar -/

theorem is_leap_year_eq (y : Int) : is_leap_year y = leap y := by
  unfold is_leap_year leap
  rw [tmod_eq, tmod_eq, tmod_eq]
  by_cases h : 0 ≤ y
  · simp only [h, if_true]
    rw [Bool.eq_iff_iff]
    simp only [Bool.or_eq_true, Bool.and_eq_true, beq_iff_eq, bne_iff_ne, decide_eq_true_eq]
    omega
  · simp only [h, if_false]
    rw [Bool.eq_iff_iff]
    simp only [Bool.or_eq_true, Bool.and_eq_true, beq_iff_eq, bne_iff_ne, decide_eq_true_eq]
    omega


/-! single-divisor facts (each by `omega`), supplied to `omega` where several divisors meet -/
theorem step4 (y : Int) : y / 4 = (y - 1) / 4 + (if y % 4 = 0 then 1 else 0) := by split <;> omega
theorem step100 (y : Int) : y / 100 = (y - 1) / 100 + (if y % 100 = 0 then 1 else 0) := by split <;> omega
theorem step400 (y : Int) : y / 400 = (y - 1) / 400 + (if y % 400 = 0 then 1 else 0) := by split <;> omega
theorem neg4 (y : Int) : (-y) / 4 = -(y / 4) - (if y % 4 = 0 then 0 else 1) := by split <;> omega
theorem neg100 (y : Int) : (-y) / 100 = -(y / 100) - (if y % 100 = 0 then 0 else 1) := by split <;> omega
theorem neg400 (y : Int) : (-y) / 400 = -(y / 400) - (if y % 400 = 0 then 0 else 1) := by split <;> omega
theorem mod_rel (y : Int) : (y % 400 = 0 → y % 100 = 0) ∧ (y % 100 = 0 → y % 4 = 0) := by
  constructor <;> intro h <;> omega

theorem leapsThrough_step (y : Int) :
    leapsThrough y = leapsThrough (y - 1) + (if leap y then 1 else 0) := by
  unfold leapsThrough leap
  have h4 := step4 y; have h100 := step100 y; have h400 := step400 y
  have hr := mod_rel y
  by_cases c4 : y % 4 = 0 <;> by_cases c100 : y % 100 = 0 <;> by_cases c400 : y % 400 = 0 <;>
    simp only [c4, c100, c400, if_true, if_false, ne_eq, not_true_eq_false, not_false_eq_true,
      or_true, or_false, and_true, and_false, true_and, false_and, decide_true, decide_false,
      Bool.false_eq_true] at * <;> omega

/-- spec validation: the day count satisfies the textbook recurrence and starts at the epoch -/
theorem daysBeforeYear_rec (y : Int) :
    daysBeforeYear 1970 = 0 ∧ daysBeforeYear (y + 1) = daysBeforeYear y + (if leap y then 366 else 365) := by
  constructor
  · decide
  · unfold daysBeforeYear
    have e : y + 1 - 1 = y := by omega
    rw [e, leapsThrough_step y]
    split <;> omega

theorem cumul_getD (m : Nat) (h1 : 1 ≤ m) (h2 : m ≤ 12) :
    CUMUL_DAY_IN_MONTHS_NORMAL_YEAR.getD (m - 1) 0 = daysBeforeMonth false m :=
  tables_ok'.2.2.1 m (by omega) h1

theorem daysBeforeMonth_leap (lp : Bool) (m : Nat) (h1 : 1 ≤ m) (h2 : m ≤ 12) :
    daysBeforeMonth lp m = daysBeforeMonth false m + (if lp ∧ m ≥ 3 then 1 else 0) := by
  have : ∀ lp : Bool, ∀ m, m < 13 → 1 ≤ m →
      daysBeforeMonth lp m = daysBeforeMonth false m + (if lp ∧ m ≥ 3 then 1 else 0) := by decide
  exact this lp m (by omega) h1

/-- `days_since_unix_epoch` is the calendar day count, for every year -/
theorem dse_eq (y : Int) (m : Nat) (d : Int) (h1 : 1 ≤ m) (h2 : m ≤ 12) :
    days_since_unix_epoch y m d = dayNum y m d := by
  unfold days_since_unix_epoch dayNum
  rw [cumul_getD m h1 h2, daysBeforeMonth_leap (leap y) m h1 h2, is_leap_year_eq]
  unfold daysBeforeYear leapsThrough
  simp only [tdiv_eq]
  have hl : leap y = true ↔ (y % 4 = 0 ∧ (y % 100 ≠ 0 ∨ y % 400 = 0)) := by
    unfold leap; simp
  by_cases hlp : leap y = true
  · have hl' := hl.mp hlp
    simp only [hlp, Bool.true_and, true_and, decide_eq_true_eq]
    by_cases hm : m < 3
    · have hm' : ¬ (m ≥ 3) := by omega
      simp only [hm, hm', if_true, if_false]
      split <;> omega
    · have hm' : m ≥ 3 := by omega
      simp only [hm, hm', if_true, if_false]
      split <;> omega
  · have hlp' : leap y = false := by simpa using hlp
    have hl' : ¬ (y % 4 = 0 ∧ (y % 100 ≠ 0 ∨ y % 400 = 0)) := fun h => hlp (hl.mpr h)
    simp only [hlp', Bool.false_and, Bool.false_eq_true, false_and, if_false]
    split <;> omega


/-! ### rule days -/

/-- the ranges `RuleDay::{julian_1, julian_0, month_weekday}` enforce (property C16 covers the reader) -/
def ValidDay : RuleDay → Prop
  | .julian1 n => 1 ≤ n ∧ n ≤ 365
  | .julian0 n => n ≤ 365
  | .mwd m w d => 1 ≤ m ∧ m ≤ 12 ∧ 1 ≤ w ∧ w ≤ 5 ∧ d ≤ 6

theorem dayNum_shift (y : Int) (m : Nat) (d : Int) : dayNum y m d = dayNum y m 1 + d - 1 := by
  unfold dayNum; omega

theorem julian1_fin : ∀ n : Nat, n < 366 → 1 ≤ n →
    (let month := rankLE CUMUL_DAY_IN_MONTHS_NORMAL_YEAR ((n : Int) - 1)
     1 ≤ month ∧ month ≤ 12 ∧
     daysBeforeMonth false month + ((n : Int) - CUMUL_DAY_IN_MONTHS_NORMAL_YEAR.getD (month - 1) 0) - 1 = (n : Int) - 1 ∧
     (decide (month ≥ 3) = decide (n ≥ 60))) := by decide +kernel

def cumulOf (leap : Int) : List Int := [0, 31, 59 + leap, 90 + leap, 120 + leap, 151 + leap, 181 + leap,
      212 + leap, 243 + leap, 273 + leap, 304 + leap, 334 + leap]

theorem julian0_fin : ∀ lp : Bool, ∀ n : Nat, n < 366 →
    (let cumul := cumulOf (if lp then 1 else 0)
     let month := rankLE cumul (n : Int)
     1 ≤ month ∧ month ≤ 12 ∧
     daysBeforeMonth lp month + (1 + (n : Int) - cumul.getD (month - 1) 0) - 1 = (n : Int)) := by decide +kernel

theorem monthLen_leap : ∀ lp : Bool, ∀ m, m < 13 → 1 ≤ m →
    monthLen lp m = DAY_IN_MONTHS_NORMAL_YEAR.getD (m - 1) 0 + (if m = 2 then (if lp then 1 else 0) else 0) := by
  decide

theorem transition_date_month (d : RuleDay) (hv : ValidDay d) (y : Int) :
    1 ≤ (transition_date d y).1 ∧ (transition_date d y).1 ≤ 12 := by
  cases d with
  | julian1 n =>
    have h := julian1_fin n (by have := hv.2; omega) hv.1
    exact ⟨h.1, h.2.1⟩
  | julian0 n =>
    have h := julian0_fin (is_leap_year y) n (by have := hv; unfold ValidDay at this; omega)
    unfold transition_date
    cases hl : is_leap_year y <;> simp only [hl, if_true, if_false, Bool.false_eq_true] at h ⊢ <;>
      exact ⟨h.1, h.2.1⟩
  | mwd m w wd =>
    unfold transition_date
    exact ⟨hv.1, hv.2.1⟩

/-- `RuleDay::unix_time` is the POSIX rule day of the year at the given time of day -/
theorem unix_time_eq (d : RuleDay) (hv : ValidDay d) (y dt : Int) :
    unix_time d y dt = ruleDayNum d y * 86400 + dt := by
  have hm := transition_date_month d hv y
  unfold unix_time
  dsimp only
  rw [dse_eq y _ _ hm.1 hm.2, consts_ok'.1]
  congr 2
  cases d with
  | julian1 n =>
    have h := julian1_fin n (by have := hv.2; omega) hv.1
    unfold transition_date ruleDayNum dayNum
    simp only at h ⊢
    rw [daysBeforeMonth_leap (leap y) _ h.1 h.2.1]
    generalize rankLE CUMUL_DAY_IN_MONTHS_NORMAL_YEAR ((n : Int) - 1) = month at *
    generalize CUMUL_DAY_IN_MONTHS_NORMAL_YEAR.getD (month - 1) 0 = g at *
    have h3 := h.2.2.2
    have h2 := h.2.2.1
    by_cases c : month ≥ 3
    · have c' : n ≥ 60 := by simpa [c] using h3
      simp only [c, c', and_true]
      cases leap y <;> simp <;> omega
    · have c' : ¬ (n ≥ 60) := by simpa [c] using h3
      simp only [c, c', and_false]
      cases leap y <;> simp <;> omega
  | julian0 n =>
    have h := julian0_fin (is_leap_year y) n (by have := hv; unfold ValidDay at this; omega)
    unfold transition_date ruleDayNum dayNum
    rw [← is_leap_year_eq]
    cases hl : is_leap_year y <;> simp only [hl, if_true, if_false, Bool.false_eq_true, cumulOf] at h ⊢ <;>
      omega
  | mwd m w wd =>
    obtain ⟨h1, h2, h3, h4, h5⟩ := hv
    unfold transition_date ruleDayNum
    simp only
    rw [dse_eq y m 1 h1 h2, consts_ok'.2.1, is_leap_year_eq]
    have hml := monthLen_leap (leap y) m (by omega) h1
    rw [dayNum_shift]
    unfold weekdayOf
    have e : (4 + dayNum y m 1) = (dayNum y m 1 + 4) := by omega
    rw [e]
    generalize dayNum y m 1 = first at *
    generalize ((wd : Int) - (first + 4) % 7) % 7 = k at *
    rw [hml]
    by_cases c2 : m = 2
    · simp only [c2, if_true]
      cases leap y <;> simp <;> split <;> split <;> omega
    · simp only [c2, if_false]
      split <;> split <;> omega

/-! ### lookup by instant: the transition table -/

def Sorted (ts : List Transition) : Prop := List.Pairwise (fun a b : Transition => a.time < b.time) ts

theorem filter_nil_of_gt (ts : List Transition) (t : Int) (h : ∀ tr ∈ ts, t < tr.time) :
    ts.filter (fun tr => decide (tr.time ≤ t)) = [] := by
  rw [List.filter_eq_nil_iff]
  intro a ha
  have := h a ha
  simp only [decide_eq_true_eq]; omega

/-- on a sorted table: the last transition at or before `t`, by the rank of `t` -/
theorem lastLE_rank (ts : List Transition) (t : Int) (hs : Sorted ts) :
    (ts.filter (fun tr => decide (tr.time ≤ t))).getLast? =
      (if rankLE (ts.map (·.time)) t > 0 then some (ts.getD (rankLE (ts.map (·.time)) t - 1) ⟨0, 0⟩) else none) := by
  induction ts with
  | nil => simp [rankLE]
  | cons x xs ih =>
    have hs' : Sorted xs := (List.pairwise_cons.mp hs).2
    have hx := (List.pairwise_cons.mp hs).1
    by_cases c : x.time ≤ t
    · simp only [List.filter_cons, c, decide_true, if_true, List.map_cons, rankLE]
      rw [List.getLast?_cons, ih hs']
      by_cases k : rankLE (xs.map (·.time)) t > 0
      · simp only [k, if_true, Option.getD_some]
        have : rankLE (xs.map (·.time)) t + 1 - 1 = (rankLE (xs.map (·.time)) t - 1) + 1 := by omega
        rw [this]
        simp
      · have k0 : rankLE (xs.map (·.time)) t = 0 := by omega
        simp [k0]
    · have : (x :: xs).filter (fun tr => decide (tr.time ≤ t)) = [] := by
        apply filter_nil_of_gt
        intro tr htr
        rcases List.mem_cons.mp htr with e | e
        · subst e; omega
        · have := hx tr e; omega
      rw [this]
      simp [rankLE, c]

theorem filter_all_of_le (ts : List Transition) (t : Int) (h : ∀ tr ∈ ts, tr.time ≤ t) :
    ts.filter (fun tr => decide (tr.time ≤ t)) = ts := by
  rw [List.filter_eq_self]
  intro a ha
  simp only [decide_eq_true_eq]; exact h a ha

theorem sorted_le_last (ts : List Transition) (l : Transition) (hs : Sorted ts)
    (hl : ts.getLast? = some l) : ∀ tr ∈ ts, tr.time ≤ l.time := by
  induction ts with
  | nil => intro tr h; cases h
  | cons x xs ih =>
    have hs' : Sorted xs := (List.pairwise_cons.mp hs).2
    have hx := (List.pairwise_cons.mp hs).1
    rw [List.getLast?_cons] at hl
    intro tr htr
    cases hxs : xs.getLast? with
    | none =>
      have : xs = [] := by simpa using hxs
      subst this
      simp only [hxs, Option.getD_none, Option.some.injEq] at hl
      subst hl
      simp at htr; subst htr; omega
    | some l' =>
      simp only [hxs, Option.getD_some, Option.some.injEq] at hl
      subst hl
      have hmem : l' ∈ xs := List.mem_of_getLast? hxs
      rcases List.mem_cons.mp htr with e | e
      · subst e; have := hx l' hmem; omega
      · exact ih hs' hxs tr e

/-- lookup by instant on a zone without leap-second records: the table part is the specification,
the rule is consulted exactly at or after the last transition -/
theorem find_table' (z : Zone) (t : Int) (hs : Sorted z.transitions) (hl : z.leaps = []) :
    z.find_local_time_type t =
      (if afterLast z t then
        match z.rule with
        | some r => r.find_local_time_type t
        | none => some (tableAt z t)
      else some (tableAt z t)) := by
  unfold Zone.find_local_time_type afterLast tableAt unix_time_to_unix_leap_time
  rw [hl]
  simp only [toLeapLoop]
  cases hlast : z.transitions.getLast? with
  | none =>
    have : z.transitions = [] := by simpa using hlast
    simp [this]
    cases z.rule <;> rfl
  | some l =>
    simp only
    by_cases c : l.time ≤ t
    · have c' : t ≥ l.time := c
      simp only [c, c', decide_true, if_true]
      cases z.rule with
      | some r => rfl
      | none =>
        simp only
        rw [filter_all_of_le z.transitions t (fun tr h => by have := sorted_le_last _ l hs hlast tr h; omega), hlast]
    · have c' : ¬ (t ≥ l.time) := c
      simp only [c, c', decide_false, if_false, Bool.false_eq_true]
      rw [lastLE_rank z.transitions t hs]
      split <;> simp_all

/-! ### `UtcDateTime::from_timespec` -/

/-- the month loop over the March-based table, on every remaining-day count it can see -/
theorem monthLoop_fin : ∀ rd : Nat, rd < 366 →
    (let lm := monthLoop DAY_IN_MONTHS_LEAP_YEAR_FROM_MARCH (rd : Int) 0
     0 ≤ lm.2 ∧ lm.2 ≤ 11 ∧ 0 ≤ lm.1 ∧ decide (lm.2 ≥ 10) = decide (rd ≥ 306) ∧
     (∀ lp : Bool, rd < 306 → daysBeforeMonth lp (lm.2 + 3).toNat + lm.1 = 59 + (if lp then 1 else 0) + (rd : Int)) ∧
     (∀ lp : Bool, rd ≥ 306 → daysBeforeMonth lp (lm.2 - 9).toNat + lm.1 = (rd : Int) - 306)) := by
  decide +kernel

theorem floor_parts (Y ry c4 c100 c400 : Int) (hY : Y = 2000 + ry + c4 * 4 + c100 * 100 + c400 * 400)
    (h1 : 0 ≤ ry ∧ ry ≤ 3) (h2 : 0 ≤ c4 ∧ c4 ≤ 24) (h3 : 0 ≤ c100 ∧ c100 ≤ 3) :
    leapsThrough Y = 485 + c4 + 24 * c100 + 97 * c400 := by
  unfold leapsThrough
  have a : Y / 4 = 500 + c4 + 25 * c100 + 100 * c400 := by omega
  have b : Y / 100 = 20 + c100 + 4 * c400 := by omega
  have c : Y / 400 = 5 + c400 := by omega
  omega

/-- is `Y + 1` a leap year, from the cycle counters -/
theorem leap_next (Y ry c4 c100 c400 : Int) (hY : Y = 2000 + ry + c4 * 4 + c100 * 100 + c400 * 400)
    (h1 : ry = 3) (h2 : 0 ≤ c4 ∧ c4 ≤ 24) (h3 : 0 ≤ c100 ∧ c100 ≤ 3) (h : c4 < 24 ∨ c100 = 3) :
    leap (Y + 1) = true := by
  unfold leap
  simp only [decide_eq_true_eq]
  omega

theorem from_timespec_ok' (t : Int) (h : -36028797018963968 ≤ t ∧ t ≤ 36028797018963968) :
    ∃ dt, from_timespec t = some dt ∧ IsYearOf (t / 86400) dt.year ∧
      1 ≤ dt.month ∧ dt.month ≤ 12 ∧ 1 ≤ dt.month_day ∧
      dayNum dt.year dt.month.toNat dt.month_day = t / 86400 ∧
      dt.hour * 3600 + dt.minute * 60 + dt.second = t % 86400 ∧
      0 ≤ dt.hour ∧ dt.hour < 24 ∧ 0 ≤ dt.minute ∧ dt.minute < 60 ∧ 0 ≤ dt.second ∧ dt.second < 60 := by
  unfold from_timespec
  have hU : UNIX_OFFSET_SECS = 951868800 := rfl
  have hD : SECONDS_PER_DAY = 86400 := rfl
  have h400 : DAYS_PER_400_YEARS = 146097 := rfl
  have h100 : DAYS_PER_100_YEARS = 36524 := rfl
  have h4 : DAYS_PER_4_YEARS = 1461 := rfl
  have h1 : DAYS_PER_NORMAL_YEAR = 365 := rfl
  have hOY : OFFSET_YEAR = 2000 := rfl
  have hMY : MONTHS_PER_YEAR = 12 := rfl
  have hSH : SECONDS_PER_HOUR = 3600 := rfl
  have hSM : SECONDS_PER_MINUTE = 60 := rfl
  have hMH : MINUTES_PER_HOUR = 60 := rfl
  rw [optI64_some (by omega) (by omega)]
  dsimp -zeta only
  extract_lets rd0 rs0 rd1 rs c400a rd2a c400 rd2 c100 rd3 c4 rd4 ry rd5 year0 lm m1 m2 year
  have d_rd0 : rd0 = (t - UNIX_OFFSET_SECS).tdiv SECONDS_PER_DAY := rfl
  have d_rs0 : rs0 = (t - UNIX_OFFSET_SECS).tmod SECONDS_PER_DAY := rfl
  have d_rd1 : rd1 = if rs0 < 0 then rd0 - 1 else rd0 := rfl
  have d_rs : rs = if rs0 < 0 then rs0 + SECONDS_PER_DAY else rs0 := rfl
  have d_c400a : c400a = rd1.tdiv DAYS_PER_400_YEARS := rfl
  have d_rd2a : rd2a = rd1.tmod DAYS_PER_400_YEARS := rfl
  have d_c400 : c400 = if rd2a < 0 then c400a - 1 else c400a := rfl
  have d_rd2 : rd2 = if rd2a < 0 then rd2a + DAYS_PER_400_YEARS else rd2a := rfl
  have d_c100 : c100 = min (rd2.tdiv DAYS_PER_100_YEARS) 3 := rfl
  have d_rd3 : rd3 = rd2 - c100 * DAYS_PER_100_YEARS := rfl
  have d_c4 : c4 = min (rd3.tdiv DAYS_PER_4_YEARS) 24 := rfl
  have d_rd4 : rd4 = rd3 - c4 * DAYS_PER_4_YEARS := rfl
  have d_ry : ry = min (rd4.tdiv DAYS_PER_NORMAL_YEAR) 3 := rfl
  have d_rd5 : rd5 = rd4 - ry * DAYS_PER_NORMAL_YEAR := rfl
  have eY : year0 = OFFSET_YEAR + ry + c4 * 4 + c100 * 100 + c400 * 400 := rfl
  have hlm : lm = monthLoop DAY_IN_MONTHS_LEAP_YEAR_FROM_MARCH rd5 0 := rfl
  have d_m1 : m1 = lm.2 + 2 := rfl
  have d_m2 : m2 = if m1 ≥ MONTHS_PER_YEAR then m1 - MONTHS_PER_YEAR else m1 := rfl
  have d_year : year = if m1 ≥ MONTHS_PER_YEAR then year0 + 1 else year0 := rfl
  clear_value rd0 rs0 rd1 rs c400a rd2a c400 rd2 c100 rd3 c4 rd4 ry rd5 year0 lm m1 m2 year
  generalize hS : t - UNIX_OFFSET_SECS = S at *
  rw [hD] at d_rd0 d_rs0 d_rs
  rw [h400] at d_c400a d_rd2a d_rd2
  rw [h100] at d_c100 d_rd3
  rw [h4] at d_c4 d_rd4
  rw [h1] at d_ry d_rd5
  rw [hOY] at eY
  rw [hMY] at d_m2 d_year
  have e1 : rd1 = S / 86400 ∧ rs = S % 86400 := by
    rw [d_rd1, d_rs, d_rd0, d_rs0, tdiv_eq, tmod_eq]
    constructor <;> split <;> split <;> omega
  clear d_rd1 d_rs d_rd0 d_rs0
  have e2 : c400 = rd1 / 146097 ∧ rd2 = rd1 % 146097 := by
    rw [d_c400, d_rd2, d_c400a, d_rd2a, tdiv_eq, tmod_eq]
    constructor <;> split <;> split <;> omega
  clear d_c400 d_rd2 d_c400a d_rd2a
  have b2 : 0 ≤ rd2 ∧ rd2 < 146097 := by omega
  have e3 : c100 = min (rd2 / 36524) 3 := by
    rw [d_c100, tdiv_eq, if_pos b2.1]
  clear d_c100
  have b3 : 0 ≤ c100 ∧ c100 ≤ 3 ∧ 0 ≤ rd3 ∧ rd3 ≤ 36524 ∧ (rd3 = 36524 → c100 = 3) := by omega
  have e4 : c4 = min (rd3 / 1461) 24 := by
    rw [d_c4, tdiv_eq, if_pos b3.2.2.1]
  clear d_c4
  have b4 : 0 ≤ c4 ∧ c4 ≤ 24 ∧ 0 ≤ rd4 ∧ rd4 ≤ 1460 ∧ (c4 = 24 ∧ rd4 = 1460 → c100 = 3) := by omega
  have e5 : ry = min (rd4 / 365) 3 := by
    rw [d_ry, tdiv_eq, if_pos b4.2.2.1]
  clear d_ry
  have b5 : 0 ≤ ry ∧ ry ≤ 3 ∧ 0 ≤ rd5 ∧ rd5 ≤ 365 ∧ (rd5 = 365 → ry = 3 ∧ rd4 = 1460) := by omega
  -- the day number since 2000-03-01 decomposes over the cycles
  have eD : rd1 = 146097 * c400 + 36524 * c100 + 1461 * c4 + 365 * ry + rd5 := by omega
  have eL := floor_parts year0 ry c4 c100 c400 eY ⟨b5.1, b5.2.1⟩ ⟨b4.1, b4.2.1⟩ ⟨b3.1, b3.2.1⟩
  -- day of `t`
  have eT : t / 86400 = rd1 + 11017 := by omega
  -- March 1 of year0
  have eM : daysBeforeYear year0 + 59 + (if leap year0 then 1 else 0) = 11017 + (rd1 - rd5) := by
    unfold daysBeforeYear
    have := leapsThrough_step year0
    omega
  have eN : daysBeforeYear (year0 + 1) = daysBeforeYear year0 + 365 + (if leap year0 then 1 else 0) := by
    rw [(daysBeforeYear_rec year0).2]; split <;> omega
  have eN2 : daysBeforeYear (year0 + 2) = daysBeforeYear (year0 + 1) + 365 + (if leap (year0 + 1) then 1 else 0) := by
    have e2y : year0 + 2 = year0 + 1 + 1 := by omega
    rw [e2y, (daysBeforeYear_rec (year0 + 1)).2]; split <;> omega
  have hleap : rd5 = 365 → (if leap (year0 + 1) then (1 : Int) else 0) = 1 := by
    intro h365
    have h3 := b5.2.2.2.2 h365
    have hc : c4 < 24 ∨ c100 = 3 := by
      by_cases c24 : c4 < 24
      · exact Or.inl c24
      · exact Or.inr (b4.2.2.2.2 ⟨by omega, h3.2⟩)
    rw [leap_next year0 ry c4 c100 c400 eY h3.1 ⟨b4.1, b4.2.1⟩ ⟨b3.1, b3.2.1⟩ hc]
    rfl
  have hI0 : (0 : Int) ≤ (if leap year0 then 1 else 0) ∧ (if leap year0 then (1 : Int) else 0) ≤ 1 := by
    split <;> omega
  have hI1 : (0 : Int) ≤ (if leap (year0 + 1) then 1 else 0) ∧ (if leap (year0 + 1) then (1 : Int) else 0) ≤ 1 := by
    split <;> omega
  -- the month loop
  obtain ⟨n, hn⟩ : ∃ n : Nat, rd5 = (n : Int) := ⟨rd5.toNat, by omega⟩
  have hn366 : n < 366 := by omega
  have hml := monthLoop_fin n hn366
  simp only [← hn] at hml
  rw [← hlm] at hml
  obtain ⟨l1, l2, l3, l4, l5, l6⟩ := hml
  have hy32 : inI32 year = true := by
    simp only [inI32, I32_MIN, I32_MAX, Bool.and_eq_true, decide_eq_true_eq]
    rw [d_year]
    refine ⟨decide_eq_true ?_, decide_eq_true ?_⟩ <;> split <;> omega
  rw [if_pos hy32]
  refine ⟨_, rfl, ?_⟩
  dsimp only
  have hsec : 0 ≤ rs ∧ rs < 86400 := by omega
  have hrs : t % 86400 = rs := by omega
  have htime : rs.tdiv SECONDS_PER_HOUR * 3600 + (rs.tdiv SECONDS_PER_MINUTE).tmod MINUTES_PER_HOUR * 60 +
        rs.tmod SECONDS_PER_MINUTE = rs ∧
      0 ≤ rs.tdiv SECONDS_PER_HOUR ∧ rs.tdiv SECONDS_PER_HOUR < 24 ∧
      0 ≤ (rs.tdiv SECONDS_PER_MINUTE).tmod MINUTES_PER_HOUR ∧ (rs.tdiv SECONDS_PER_MINUTE).tmod MINUTES_PER_HOUR < 60 ∧
      0 ≤ rs.tmod SECONDS_PER_MINUTE ∧ rs.tmod SECONDS_PER_MINUTE < 60 := by
    simp only [hSH, hSM, hMH, tdiv_eq, tmod_eq, if_pos hsec.1]
    have : 0 ≤ rs / 60 := by omega
    simp only [if_pos this]
    omega
  by_cases c : n < 306
  · -- March … December of year0
    have hm : ¬ (lm.2 ≥ 10) := by
      have : decide (lm.2 ≥ 10) = false := by rw [l4]; simp; omega
      simpa using this
    have hm1 : ¬ (m1 ≥ 12) := by omega
    have ey : year = year0 := by rw [d_year, if_neg hm1]
    have em : m2 + 1 = lm.2 + 3 := by rw [d_m2, if_neg hm1]; omega
    have l5' := l5 (leap year0) c
    have hlp : (if leap year0 = true then (1 : Int) else 0) = (if leap year0 then 1 else 0) := rfl
    rw [ey, em]
    generalize (if leap year0 = true then (1 : Int) else 0) = I0 at *
    refine ⟨?_, by omega, by omega, by omega, ?_, by omega, htime.2.1, htime.2.2.1, htime.2.2.2.1,
      htime.2.2.2.2.1, htime.2.2.2.2.2.1, htime.2.2.2.2.2.2⟩
    · unfold IsYearOf; omega
    · unfold dayNum; omega
  · -- January / February of year0 + 1
    have c' : n ≥ 306 := by omega
    have hm : lm.2 ≥ 10 := by
      have : decide (lm.2 ≥ 10) = true := by rw [l4]; simp; omega
      simpa using this
    have hm1 : m1 ≥ 12 := by omega
    have ey : year = year0 + 1 := by rw [d_year, if_pos hm1]
    have em : m2 + 1 = lm.2 - 9 := by rw [d_m2, if_pos hm1]; omega
    have l6' := l6 (leap (year0 + 1)) c'
    rw [ey, em]
    generalize (if leap year0 = true then (1 : Int) else 0) = I0 at *
    generalize (if leap (year0 + 1) = true then (1 : Int) else 0) = I1 at *
    have e2y : year0 + 1 + 1 = year0 + 2 := by omega
    refine ⟨?_, by omega, by omega, by omega, ?_, by omega, htime.2.1, htime.2.2.1, htime.2.2.2.1,
      htime.2.2.2.2.1, htime.2.2.2.2.2.1, htime.2.2.2.2.2.2⟩
    · unfold IsYearOf; rw [e2y]; omega
    · unfold dayNum; omega

/-! ### rule lookups -/

theorem dBY_mono_nat (y : Int) (k : Nat) : daysBeforeYear y + 365 * k ≤ daysBeforeYear (y + k) := by
  induction k with
  | zero => simp
  | succ n ih =>
    have e : y + ((n + 1 : Nat) : Int) = (y + n) + 1 := by omega
    rw [e, (daysBeforeYear_rec (y + n)).2]
    split <;> omega

theorem dBY_mono (y y' : Int) (h : y ≤ y') : daysBeforeYear y ≤ daysBeforeYear y' := by
  have := dBY_mono_nat y (y' - y).toNat
  have e : y + ((y' - y).toNat : Int) = y' := by omega
  rw [e] at this
  omega

theorem isYearOf_unique (d y y' : Int) (h : IsYearOf d y) (h' : IsYearOf d y') : y = y' := by
  unfold IsYearOf at *
  by_cases c : y < y'
  · have := dBY_mono (y + 1) y' (by omega); omega
  · by_cases c' : y' < y
    · have := dBY_mono (y' + 1) y (by omega); omega
    · omega

theorem yearOf_spec (d : Int) : IsYearOf d (yearOf d) := by
  unfold yearOf IsYearOf
  simp only
  generalize hq : d * 400 / 146097 = q
  have hq1 : 146097 * q ≤ d * 400 := by omega
  have hq2 : d * 400 < 146097 * q + 146097 := by omega
  have r0 := (daysBeforeYear_rec (1970 + q - 1)).2
  have r1 := (daysBeforeYear_rec (1970 + q)).2
  have r2 := (daysBeforeYear_rec (1970 + q + 1)).2
  have e0 : 1970 + q - 1 + 1 = 1970 + q := by omega
  rw [e0] at r0
  have lo : daysBeforeYear (1970 + q - 1) ≤ d := by
    unfold daysBeforeYear leapsThrough; omega
  have hi : d < daysBeforeYear (1970 + q + 1 + 1) := by
    unfold daysBeforeYear leapsThrough; omega
  split
  · constructor
    · exact lo
    · rw [e0]; assumption
  · split
    · constructor
      · assumption
      · exact hi
    · constructor <;> omega

theorem unix_time_start (a : Alt) (hv : ValidDay a.dstStart) (y : Int) :
    unix_time a.dstStart y (a.dstStartTime - a.std.off) = startAt a y := by
  rw [unix_time_eq _ hv]; unfold startAt; omega
theorem unix_time_end (a : Alt) (hv : ValidDay a.dstEnd) (y : Int) :
    unix_time a.dstEnd y (a.dstEndTime - a.dst.off) = endAt a y := by
  rw [unix_time_eq _ hv]; unfold endAt; omega

/-- the previous/current/next-year cascade collapses to the current year for rules whose
transitions lie more than a day inside the year -/
theorem alt_is_dst_inYear (a : Alt) (hvS : ValidDay a.dstStart) (hvE : ValidDay a.dstEnd) (Y t : Int)
    (hin : InsideYear a) (hY : IsYearOf (t / 86400) Y) :
    alt_is_dst a Y t = ruleDstIn a Y t := by
  unfold alt_is_dst ruleDstIn
  simp only [unix_time_start a hvS, unix_time_end a hvE]
  have h0 := hin Y
  have hm := hin (Y - 1)
  have hp := hin (Y + 1)
  have e : Y - 1 + 1 = Y := by omega
  rw [e] at hm
  have hy1 : daysBeforeYear Y * 86400 ≤ t := by have := hY.1; omega
  have hy2 : t < daysBeforeYear (Y + 1) * 86400 := by have := hY.2; omega
  generalize startAt a Y = s0 at *
  generalize endAt a Y = e0 at *
  generalize startAt a (Y - 1) = sm at *
  generalize endAt a (Y - 1) = em at *
  generalize startAt a (Y + 1) = sp at *
  generalize endAt a (Y + 1) = ep at *
  generalize daysBeforeYear Y = d0 at *
  generalize daysBeforeYear (Y + 1) = d1 at *
  generalize daysBeforeYear (Y + 1 + 1) = d2 at *
  generalize daysBeforeYear (Y - 1) = dm at *
  by_cases c : s0 ≤ e0
  · simp only [c, if_true]
    by_cases c1 : t < s0
    · have : ¬ (t < em) := by omega
      have c1' : ¬ (s0 ≤ t ∧ t < e0) := by omega
      simp [c1, this, c1']
    · by_cases c2 : t < e0
      · have c1' : (s0 ≤ t ∧ t < e0) := by omega
        simp [c1, c2, c1']
      · have : ¬ (sp ≤ t) := by omega
        have c1' : ¬ (s0 ≤ t ∧ t < e0) := by omega
        simp [c1, c2, this, c1']
  · simp only [c, if_false]
    by_cases c1 : t < e0
    · have : ¬ (t < sm) := by omega
      have c1' : ¬ (e0 ≤ t ∧ t < s0) := by omega
      simp [c1, this, c1']
    · by_cases c2 : t < s0
      · have c1' : (e0 ≤ t ∧ t < s0) := by omega
        simp [c1, c2, c1']
      · have : ¬ (ep ≤ t) := by omega
        have c1' : ¬ (e0 ≤ t ∧ t < s0) := by omega
        simp [c1, c2, this, c1']

/-- the year found by `from_timespec` is within the range the rule code accepts -/
theorem year_bound (d Y : Int) (h : IsYearOf d Y) (hd : -417000000000 ≤ d ∧ d ≤ 417000000000) :
    -2147483648 + 2 ≤ Y ∧ Y ≤ 2147483647 - 2 := by
  unfold IsYearOf daysBeforeYear leapsThrough at h
  have e : Y + 1 - 1 = Y := by omega
  rw [e] at h
  constructor <;> omega

/-- lookup by instant under a rule: the rule transitions of the calendar year containing `t` decide -/
theorem alt_find' (a : Alt) (hvS : ValidDay a.dstStart) (hvE : ValidDay a.dstEnd) (t : Int)
    (hin : InsideYear a) (h : -36028797018963968 ≤ t ∧ t ≤ 36028797018963968) :
    ∃ Y, IsYearOf (t / 86400) Y ∧
      a.find_local_time_type t = some (if ruleDstIn a Y t then a.dst else a.std) := by
  obtain ⟨dt, hdt, hY, _⟩ := from_timespec_ok' t h
  refine ⟨dt.year, hY, ?_⟩
  unfold Alt.find_local_time_type
  rw [hdt]
  dsimp only
  have hb := year_bound _ _ hY (by omega)
  have : I32_MIN + 2 ≤ dt.year ∧ dt.year ≤ I32_MAX - 2 := by
    simp only [I32_MIN, I32_MAX]; omega
  rw [if_pos this, alt_is_dst_inYear a hvS hvE dt.year t hin hY]

theorem rule_classifies' (a : Alt) (S E ℓ : Int) (hsep : RuleSeparated a S E)
    (hS : a.std.off ≠ a.dst.off → ℓ ≠ S) (hE : a.std.off ≠ a.dst.off → ℓ ≠ E) :
    Classifies (yearOff a S E) ℓ
      (alt_classify a (decide (S < E)) (S, S + a.dst.off - a.std.off, E, E + a.std.off - a.dst.off) ℓ) := by
  unfold alt_classify RuleSeparated at *
  dsimp only
  by_cases c0 : a.std.off = a.dst.off
  · rw [if_pos c0]
    unfold Classifies yearOff
    intro t; split <;> split <;> omega
  · have hS' := hS c0
    have hE' := hE c0
    clear hS hE
    rw [if_neg c0]
    by_cases c1 : a.std.off < a.dst.off <;> by_cases c2 : S < E <;>
      simp only [c1, c2, if_true, if_false, decide_true, decide_false, Bool.false_eq_true] <;>
      (repeat' split) <;>
      (unfold Classifies yearOff; simp only [c2, if_true, if_false]) <;>
      first
        | (intro t; split <;> omega)
        | (refine ⟨by omega, ?_⟩; intro t; split <;> omega)

/-! ### assembling the zone-level statements -/

/-- a rule as `TransitionRule::from_tz_string` can build it, restricted as the property says -/
def RuleOk : Option Rule → Prop
  | some (.alt a) => ValidDay a.dstStart ∧ ValidDay a.dstEnd ∧ InsideYear a
  | _ => True

theorem alt_find_ruleOff (a : Alt) (hvS : ValidDay a.dstStart) (hvE : ValidDay a.dstEnd) (t : Int)
    (hin : InsideYear a) (h : -36028797018963968 ≤ t ∧ t ≤ 36028797018963968) :
    a.find_local_time_type t = some (ruleOff (.alt a) t) := by
  obtain ⟨Y, hY, hf⟩ := alt_find' a hvS hvE t hin h
  rw [hf]
  unfold ruleOff ruleDst
  rw [isYearOf_unique _ _ _ (yearOf_spec (t / 86400)) hY]

/-- lookup by instant = the zone's step function -/
theorem offAt_ok' (z : Zone) (t : Int) (hs : Sorted z.transitions) (hl : z.leaps = [])
    (hr : RuleOk z.rule) (h : -36028797018963968 ≤ t ∧ t ≤ 36028797018963968) :
    z.find_local_time_type t = some (ltAt z t) := by
  rw [find_table' z t hs hl]
  unfold ltAt
  cases hrule : z.rule with
  | none => simp
  | some r =>
    cases r with
    | fixed l =>
      simp only [Rule.find_local_time_type, ruleOff]
      split <;> rfl
    | alt a =>
      rw [hrule] at hr
      obtain ⟨h1, h2, h3⟩ := hr
      simp only [Rule.find_local_time_type, alt_find_ruleOff a h1 h2 t h3 h]
      split <;> rfl

theorem satI64_id {x : Int} (h1 : -9223372036854775808 ≤ x) (h2 : x ≤ 9223372036854775807) : satI64 x = x := by
  have a : ¬ x > I64_MAX := by show ¬ x > 9223372036854775807; omega
  have b : ¬ x < I64_MIN := by show ¬ x < -9223372036854775808; omega
  unfold satI64; rw [ite_neg' _ _ a, ite_neg' _ _ b]

/-- the step function of a table with a single transition -/
def oneOff (p T a : Int) (t : Int) : Int := if T ≤ t then a else p

/-- what the loop's outcome becomes when no rule follows the table -/
def outMap : LoopOut → Mapped Ltt
  | .ret m => m
  | .fell l => .single l

/-- the table loop on a single transition classifies every wall-clock reading other than the one
excluded boundary second `T + prevOff` -/
theorem one_transition_classifies' (z : Zone) (tr : Transition) (prev : Ltt) (ℓ : Int)
    (hT : -4611686018427387904 ≤ tr.time ∧ tr.time ≤ 4611686018427387904)
    (hp : -2147483648 ≤ prev.off ∧ prev.off ≤ 2147483647)
    (ha : -2147483648 ≤ (typeAt z tr.idx).off ∧ (typeAt z tr.idx).off ≤ 2147483647)
    (hx : prev.off ≠ (typeAt z tr.idx).off → ℓ ≠ tr.time + prev.off) :
    Classifies (oneOff prev.off tr.time (typeAt z tr.idx).off) ℓ (outMap (fromLocalLoop z [tr] prev ℓ)) := by
  unfold fromLocalLoop fromLocalLoop
  have s1 : satI64 (tr.time + (typeAt z tr.idx).off) = tr.time + (typeAt z tr.idx).off :=
    satI64_id (by omega) (by omega)
  have s2 : satI64 (tr.time + prev.off) = tr.time + prev.off :=
    satI64_id (by omega) (by omega)
  dsimp only
  simp only [s1, s2]
  generalize (typeAt z tr.idx) = after at *
  (repeat' split) <;> (simp only [outMap, Classifies, oneOff]) <;>
    first
      | (intro t; split <;> omega)
      | (refine ⟨by omega, ?_⟩; intro t; split <;> omega)

/-- any classification contains the round trip -/
theorem classifies_roundtrip (off : Int → Int) (ℓ : Int) (r : Mapped Ltt) (h : Classifies off ℓ r)
    (t : Int) (ht : t + off t = ℓ) : off t ∈ r.toList.map (·.off) := by
  cases r with
  | none => exact absurd ht (h t)
  | single x =>
    have := (h t).mp ht
    simp [Mapped.toList]; omega
  | ambiguous x y =>
    have := (h.2 t).mp ht
    simp [Mapped.toList]; omega

theorem mem_insertU (x a : Int) (l : List Int) : x ∈ insertU a l ↔ x = a ∨ x ∈ l := by
  induction l with
  | nil => simp [insertU]
  | cons y ys ih =>
    unfold insertU
    split
    · simp
    · split
      · rename_i h; subst h; simp
      · simp [ih]; constructor <;> (intro h; rcases h with h | h | h <;> simp [h])

/-- `wallSet` is exactly the set of instants that read `ℓ` (among instants whose offset is one of the zone's) -/
theorem mem_wallSet' (z : Zone) (ℓ t : Int) :
    t ∈ wallSet z ℓ ↔ (t + offAt z t = ℓ ∧ ∃ o ∈ offsets z, t = ℓ - o) := by
  unfold wallSet
  have : ∀ l : List Int, t ∈ l.foldr insertU [] ↔ t ∈ l := by
    intro l
    induction l with
    | nil => simp
    | cons a as ih => simp [List.foldr, mem_insertU, ih]
  rw [this]
  simp only [List.mem_filter, List.mem_map, decide_eq_true_eq]
  constructor
  · rintro ⟨⟨o, ho, rfl⟩, h⟩; exact ⟨h, o, ho, rfl⟩
  · rintro ⟨h, o, ho, rfl⟩; exact ⟨⟨o, ho, rfl⟩, h⟩

/-- wall-clock start / end of daylight time in year `y`, from the POSIX reading of the rule days -/
def wallStart (a : Alt) (y : Int) : Int := ruleDayNum a.dstStart y * 86400 + a.dstStartTime
def wallEnd (a : Alt) (y : Int) : Int := ruleDayNum a.dstEnd y * 86400 + a.dstEndTime

theorem alt_windows_eq (a : Alt) (hvS : ValidDay a.dstStart) (hvE : ValidDay a.dstEnd) (y : Int) :
    alt_windows a y = (wallStart a y, wallStart a y + a.dst.off - a.std.off,
                       wallEnd a y, wallEnd a y + a.std.off - a.dst.off) := by
  unfold alt_windows wallStart wallEnd
  rw [unix_time_eq _ hvS, unix_time_eq _ hvE]
  simp only [Int.add_zero]

/-- lookup by wall clock under a rule, all four hemisphere/sign branches -/
theorem rule_from_local_classifies' (a : Alt) (hvS : ValidDay a.dstStart) (hvE : ValidDay a.dstEnd)
    (y ℓ : Int) (hsep : RuleSeparated a (wallStart a y) (wallEnd a y))
    (hS : a.std.off ≠ a.dst.off → ℓ ≠ wallStart a y) (hE : a.std.off ≠ a.dst.off → ℓ ≠ wallEnd a y) :
    Classifies (yearOff a (wallStart a y) (wallEnd a y)) ℓ (a.find_local_time_type_from_local y ℓ) := by
  unfold Alt.find_local_time_type_from_local
  rw [alt_windows_eq a hvS hvE y]
  exact rule_classifies' a _ _ ℓ hsep hS hE

/-- the in-year step function used for the wall-clock statement is the one of the instant lookup -/
theorem yearOff_eq (a : Alt) (y t : Int) (hsep : RuleSeparated a (wallStart a y) (wallEnd a y)) :
    yearOff a (wallStart a y) (wallEnd a y) t = (if ruleDstIn a y t then a.dst else a.std).off := by
  unfold yearOff ruleDstIn RuleSeparated at *
  have e1 : startAt a y = wallStart a y - a.std.off := by unfold startAt wallStart; omega
  have e2 : endAt a y = wallEnd a y - a.dst.off := by unfold endAt wallEnd; omega
  rw [e1, e2]
  generalize wallStart a y = S at *
  generalize wallEnd a y = E at *
  by_cases c : S < E
  · have c' : S - a.std.off ≤ E - a.dst.off := by have := hsep.1 c; omega
    simp only [c, c', if_true]
    by_cases d : S - a.std.off ≤ t ∧ t < E - a.dst.off <;> simp [d]
  · have c' : ¬ (S - a.std.off ≤ E - a.dst.off) := by have := hsep.2 c; omega
    simp only [c, c', if_false]
    by_cases d : E - a.dst.off ≤ t ∧ t < S - a.std.off <;> simp [d]

/-! ### lookup by wall clock: the transition table, any length -/

/-- the table's step function by recursion: `p` is the offset in force before the head transition -/
def stepOff (z : Zone) : Int → List Transition → Int → Int
  | p, [], _ => p
  | p, tr :: rest, t => if tr.time ≤ t then stepOff z (typeAt z tr.idx).off rest t else p

/-- `ℓ` is none of the excluded boundary seconds `T + prevOff` -/
def NoBoundary (z : Zone) : Int → List Transition → Int → Prop
  | _, [], _ => True
  | p, tr :: rest, ℓ => ℓ ≠ tr.time + p ∧ NoBoundary z (typeAt z tr.idx).off rest ℓ

/-- `ℓ` is none of the boundary seconds `T + prevOff` of the transitions that CHANGE the offset (the
only seconds the property excepts: an offset-preserving transition ends no skipped or repeated interval) -/
def NoBoundary' (z : Zone) : Int → List Transition → Int → Prop
  | _, [], _ => True
  | p, tr :: rest, ℓ =>
    (p ≠ (typeAt z tr.idx).off → ℓ ≠ tr.time + p) ∧ NoBoundary' z (typeAt z tr.idx).off rest ℓ

theorem noBoundary'_of (z : Zone) (ℓ : Int) (ts : List Transition) :
    ∀ p, NoBoundary z p ts ℓ → NoBoundary' z p ts ℓ := by
  induction ts with
  | nil => intro p _; trivial
  | cons tr rest ih => intro p h; exact ⟨fun _ => h.1, ih _ h.2⟩

theorem classifies_congr (off off' : Int → Int) (ℓ : Int) (r : Mapped Ltt)
    (h : ∀ t, t + off t = ℓ ↔ t + off' t = ℓ) : Classifies off' ℓ r → Classifies off ℓ r := by
  cases r with
  | none => intro hc t hh; exact hc t ((h t).mp hh)
  | single x => intro hc t; rw [h t]; exact hc t
  | ambiguous x y => intro hc; exact ⟨hc.1, fun t => by rw [h t]; exact hc.2 t⟩

/-- on a sorted table the recursive step function is "the last transition at or before `t`" -/
theorem stepOff_eq (z : Zone) (p : Int) (ts : List Transition) (t : Int) (hs : Sorted ts) :
    stepOff z p ts t =
      (match (ts.filter (fun tr => decide (tr.time ≤ t))).getLast? with
       | some tr => (typeAt z tr.idx).off
       | none => p) := by
  induction ts generalizing p with
  | nil => simp [stepOff]
  | cons x xs ih =>
    have hs' : Sorted xs := (List.pairwise_cons.mp hs).2
    have hx := (List.pairwise_cons.mp hs).1
    unfold stepOff
    by_cases c : x.time ≤ t
    · simp only [c, if_true, List.filter_cons, decide_true]
      rw [List.getLast?_cons, ih _ hs']
      cases (xs.filter (fun tr => decide (tr.time ≤ t))).getLast? <;> simp
    · have : (x :: xs).filter (fun tr => decide (tr.time ≤ t)) = [] := by
        apply filter_nil_of_gt
        intro tr htr
        rcases List.mem_cons.mp htr with e | e
        · subst e; omega
        · have := hx tr e; omega
      rw [this]; simp [c]

/-- later windows lie above the head window -/
theorem later_ge (z : Zone) (ts : List Transition) : ∀ (p : Int) (lo : Option Int),
    Sorted ts → sepFrom z ts p lo = true → ∀ tr rest, ts = tr :: rest → ∀ t, tr.time ≤ t →
    tr.time + min p (typeAt z tr.idx).off ≤ t + stepOff z p ts t := by
  induction ts with
  | nil => intro p lo _ _ tr rest h; cases h
  | cons x xs ih =>
    intro p lo hs hsep tr rest heq t ht
    have hs' : Sorted xs := (List.pairwise_cons.mp hs).2
    cases heq
    unfold stepOff
    simp only [ht, if_true]
    cases xs with
    | nil => simp only [stepOff]; omega
    | cons x2 xs2 =>
      unfold sepFrom at hsep
      simp only [Bool.and_eq_true] at hsep
      have hsep2 := hsep.2
      have hsep2' := hsep2
      unfold sepFrom at hsep2'
      simp only [Bool.and_eq_true, decide_eq_true_eq] at hsep2'
      by_cases c : x2.time ≤ t
      · have := ih (typeAt z x.idx).off _ hs' hsep2 x2 xs2 rfl t c
        omega
      · unfold stepOff; simp only [c, if_false]; omega

/-- offsets are `i32`, transition times stay clear of the `i64` ends (no saturation) -/
def InRange (z : Zone) (ts : List Transition) : Prop :=
  (∀ i, -2147483648 ≤ (typeAt z i).off ∧ (typeAt z i).off ≤ 2147483647) ∧
  (∀ tr ∈ ts, -4611686018427387904 ≤ tr.time ∧ tr.time ≤ 4611686018427387904)

theorem loop_cons_ret (z : Zone) (tr : Transition) (rest : List Transition) (prev : Ltt) (ℓ : Int)
    (hT : -4611686018427387904 ≤ tr.time ∧ tr.time ≤ 4611686018427387904)
    (hp : -2147483648 ≤ prev.off ∧ prev.off ≤ 2147483647)
    (ha : -2147483648 ≤ (typeAt z tr.idx).off ∧ (typeAt z tr.idx).off ≤ 2147483647)
    (h : ℓ ≤ tr.time + max prev.off (typeAt z tr.idx).off) :
    fromLocalLoop z (tr :: rest) prev ℓ = fromLocalLoop z [tr] prev ℓ := by
  unfold fromLocalLoop
  have s1 : satI64 (tr.time + (typeAt z tr.idx).off) = tr.time + (typeAt z tr.idx).off :=
    satI64_id (by omega) (by omega)
  have s2 : satI64 (tr.time + prev.off) = tr.time + prev.off :=
    satI64_id (by omega) (by omega)
  dsimp only
  simp only [s1, s2]
  generalize (typeAt z tr.idx) = after at *
  (repeat' split) <;> first | rfl | omega

theorem loop_cons_cont (z : Zone) (tr : Transition) (rest : List Transition) (prev : Ltt) (ℓ : Int)
    (hT : -4611686018427387904 ≤ tr.time ∧ tr.time ≤ 4611686018427387904)
    (hp : -2147483648 ≤ prev.off ∧ prev.off ≤ 2147483647)
    (ha : -2147483648 ≤ (typeAt z tr.idx).off ∧ (typeAt z tr.idx).off ≤ 2147483647)
    (h : tr.time + max prev.off (typeAt z tr.idx).off < ℓ) :
    fromLocalLoop z (tr :: rest) prev ℓ = fromLocalLoop z rest (typeAt z tr.idx) ℓ := by
  conv => lhs; unfold fromLocalLoop
  have s1 : satI64 (tr.time + (typeAt z tr.idx).off) = tr.time + (typeAt z tr.idx).off :=
    satI64_id (by omega) (by omega)
  have s2 : satI64 (tr.time + prev.off) = tr.time + prev.off :=
    satI64_id (by omega) (by omega)
  dsimp only
  simp only [s1, s2]
  generalize (typeAt z tr.idx) = after at *
  (repeat' split) <;> first | rfl | omega

/-- the transition-table loop classifies every wall-clock reading other than the excluded boundary
seconds, for a table of any length whose windows are separated -/
theorem loop_classifies (z : Zone) (ℓ : Int) (ts : List Transition) : ∀ (prev : Ltt) (lo : Option Int),
    Sorted ts → sepFrom z ts prev.off lo = true → NoBoundary' z prev.off ts ℓ → InRange z ts →
    (-2147483648 ≤ prev.off ∧ prev.off ≤ 2147483647) →
    Classifies (stepOff z prev.off ts) ℓ (outMap (fromLocalLoop z ts prev ℓ)) := by
  induction ts with
  | nil =>
    intro prev lo _ _ _ _ _
    simp only [fromLocalLoop, outMap, Classifies, stepOff]
    intro t; omega
  | cons tr rest ih =>
    intro prev lo hs hsep hnb hr hp
    have hs' : Sorted rest := (List.pairwise_cons.mp hs).2
    have hx := (List.pairwise_cons.mp hs).1
    have hT := hr.2 tr (List.mem_cons_self ..)
    have ha := hr.1 tr.idx
    have hr' : InRange z rest := ⟨hr.1, fun x hx' => hr.2 x (List.mem_cons_of_mem _ hx')⟩
    have hsep' : sepFrom z rest (typeAt z tr.idx).off (some (tr.time + max prev.off (typeAt z tr.idx).off)) = true := by
      unfold sepFrom at hsep
      simp only [Bool.and_eq_true] at hsep
      exact hsep.2
    -- beyond the head transition the step function is the tail's; it stays above the head window
    have hge : ∀ t, tr.time ≤ t → stepOff z prev.off (tr :: rest) t = stepOff z (typeAt z tr.idx).off rest t := by
      intro t ht; simp only [stepOff, ht, if_true]
    have hlt : ∀ t, t < tr.time → stepOff z prev.off (tr :: rest) t = prev.off := by
      intro t ht
      have : ¬ tr.time ≤ t := by omega
      simp only [stepOff, this, if_false]
    have htail : ∀ t, tr.time ≤ t →
        (stepOff z (typeAt z tr.idx).off rest t = (typeAt z tr.idx).off ∨
         (tr.time + max prev.off (typeAt z tr.idx).off < t + stepOff z (typeAt z tr.idx).off rest t ∧
          tr.time + max prev.off (typeAt z tr.idx).off < t + (typeAt z tr.idx).off)) := by
      intro t ht
      cases hrest : rest with
      | nil => left; simp [stepOff]
      | cons x2 xs2 =>
        by_cases c : x2.time ≤ t
        · right
          rw [hrest] at hsep' hs'
          have h1 := later_ge z (x2 :: xs2) _ _ hs' hsep' x2 xs2 rfl t c
          unfold sepFrom at hsep'
          simp only [Bool.and_eq_true, decide_eq_true_eq] at hsep'
          constructor <;> omega
        · left; simp only [stepOff, c, if_false]
    by_cases c : ℓ ≤ tr.time + max prev.off (typeAt z tr.idx).off
    · rw [loop_cons_ret z tr rest prev ℓ hT hp ha c]
      apply classifies_congr _ (oneOff prev.off tr.time (typeAt z tr.idx).off) ℓ _ _
        (one_transition_classifies' z tr prev ℓ hT hp ha hnb.1)
      intro t
      unfold oneOff
      by_cases ct : tr.time ≤ t
      · rw [hge t ct, if_pos ct]
        rcases htail t ct with h | h
        · rw [h]
        · constructor <;> intro hh <;> omega
      · have ct' : t < tr.time := by omega
        rw [hlt t ct', if_neg ct]
    · have c' : tr.time + max prev.off (typeAt z tr.idx).off < ℓ := by omega
      rw [loop_cons_cont z tr rest prev ℓ hT hp ha c']
      apply classifies_congr _ (stepOff z (typeAt z tr.idx).off rest) ℓ _ _
        (ih (typeAt z tr.idx) _ hs' hsep' hnb.2 hr' ha)
      intro t
      by_cases ct : tr.time ≤ t
      · rw [hge t ct]
      · have ct' : t < tr.time := by omega
        rw [hlt t ct']
        have : stepOff z (typeAt z tr.idx).off rest t = (typeAt z tr.idx).off := by
          cases hrest : rest with
          | nil => simp [stepOff]
          | cons x2 xs2 =>
            have := hx x2 (by rw [hrest]; exact List.mem_cons_self ..)
            have c2 : ¬ x2.time ≤ t := by omega
            simp only [stepOff, c2, if_false]
        rw [this]
        constructor <;> intro hh <;> omega

theorem offAt_table_stepOff (z : Zone) (t : Int) (hrule : z.rule = none) (hs : Sorted z.transitions) :
    offAt z t = stepOff z (typeAt z 0).off z.transitions t := by
  rw [stepOff_eq z _ _ t hs]
  unfold offAt ltAt tableAt
  rw [hrule]
  simp only
  cases (z.transitions.filter (fun tr => decide (tr.time ≤ t))).getLast? <;> simp

/-- lookup by wall clock on a zone given by its transition table (no rule), any number of transitions -/
theorem from_local_classifies' (z : Zone) (ℓ : Int) (hrule : z.rule = none) (hs : Sorted z.transitions)
    (hsep : WellSeparated z) (hnb : NoBoundary' z (typeAt z 0).off z.transitions ℓ)
    (hr : InRange z z.transitions) :
    Classifies (offAt z) ℓ (z.find_local_time_type_from_local ℓ) := by
  have hres : z.find_local_time_type_from_local ℓ = outMap (fromLocalLoop z z.transitions (typeAt z 0) ℓ) := by
    unfold Zone.find_local_time_type_from_local
    rw [hrule]
    cases htr : z.transitions with
    | nil => simp [fromLocalLoop, outMap]
    | cons x xs =>
      simp only [List.isEmpty_cons, Bool.false_eq_true, if_false]
      cases fromLocalLoop z (x :: xs) (typeAt z 0) ℓ <;> rfl
  rw [hres]
  apply classifies_congr _ (stepOff z (typeAt z 0).off z.transitions) ℓ _ _
    (loop_classifies z ℓ z.transitions (typeAt z 0) none hs hsep hnb hr (hr.1 0))
  intro t
  rw [offAt_table_stepOff z t hrule hs]

/-! ### table followed by a footer rule: the composed wall-clock statement -/

theorem wallStart_eq (a : Alt) (y : Int) : wallStart a y = startAt a y + a.std.off := by
  unfold wallStart startAt; omega
theorem wallEnd_eq (a : Alt) (y : Int) : wallEnd a y = endAt a y + a.dst.off := by
  unfold wallEnd endAt; omega

/-- the rule's global step function -/
def ruleG (a : Alt) (t : Int) : Int := (ruleOff (.alt a) t).off

theorem ruleG_eq (a : Alt) (t Y : Int) (h : IsYearOf (t / 86400) Y) :
    ruleG a t = (if ruleDstIn a Y t then a.dst else a.std).off := by
  unfold ruleG ruleOff ruleDst
  rw [isYearOf_unique _ _ _ (yearOf_spec (t / 86400)) h]

theorem isYearOf_of_bounds (t Y : Int) (h1 : daysBeforeYear Y * 86400 ≤ t)
    (h2 : t < daysBeforeYear (Y + 1) * 86400) : IsYearOf (t / 86400) Y := by
  unfold IsYearOf; constructor <;> omega

theorem bounds_of_isYearOf (t Y : Int) (h : IsYearOf (t / 86400) Y) :
    daysBeforeYear Y * 86400 ≤ t ∧ t < daysBeforeYear (Y + 1) * 86400 := by
  unfold IsYearOf at h; constructor <;> omega

/-- no rule transition in `(u, v]`, `v` in the year of `u` or the next: the rule prescribes the same type -/
theorem rule_const (a : Alt) (hy : RuleYearly a) (u v yu yv : Int)
    (hu : IsYearOf (u / 86400) yu) (hv : IsYearOf (v / 86400) yv) (huv : u ≤ v)
    (hyy : yv = yu ∨ yv = yu + 1)
    (h1 : ¬ (u < startAt a yu ∧ startAt a yu ≤ v)) (h2 : ¬ (u < endAt a yu ∧ endAt a yu ≤ v))
    (h3 : ¬ (u < startAt a yv ∧ startAt a yv ≤ v)) (h4 : ¬ (u < endAt a yv ∧ endAt a yv ≤ v)) :
    ruleDstIn a yu u = ruleDstIn a yv v := by
  have bu := bounds_of_isYearOf u yu hu
  have bv := bounds_of_isYearOf v yv hv
  rcases hyy with e | e
  · subst e
    unfold ruleDstIn
    by_cases c : startAt a yv ≤ endAt a yv
    · simp only [c, if_true]
      by_cases d : startAt a yv ≤ u ∧ u < endAt a yv
      · have d' : startAt a yv ≤ v ∧ v < endAt a yv := by omega
        simp [d, d']
      · have d' : ¬ (startAt a yv ≤ v ∧ v < endAt a yv) := by omega
        simp [d, d']
    · simp only [c, if_false]
      by_cases d : endAt a yv ≤ u ∧ u < startAt a yv
      · have d' : endAt a yv ≤ v ∧ v < startAt a yv := by omega
        simp [d, d']
      · have d' : ¬ (endAt a yv ≤ v ∧ v < startAt a yv) := by omega
        simp [d, d']
  · subst e
    have r0 := hy yu
    have r1 := hy (yu + 1)
    unfold inYear at r0 r1
    have sh := r0.2.2.2.2.2.2.1
    unfold ruleDstIn
    by_cases c : startAt a yu ≤ endAt a yu
    · have c' : startAt a (yu + 1) ≤ endAt a (yu + 1) := sh.mp c
      simp only [c, c', if_true]
      have d : ¬ (startAt a yu ≤ u ∧ u < endAt a yu) := by omega
      have d' : ¬ (startAt a (yu + 1) ≤ v ∧ v < endAt a (yu + 1)) := by omega
      simp [d, d']
    · have c' : ¬ startAt a (yu + 1) ≤ endAt a (yu + 1) := fun h => c (sh.mpr h)
      simp only [c, c', if_false]
      have d : ¬ (endAt a yu ≤ u ∧ u < startAt a yu) := by omega
      have d' : ¬ (endAt a (yu + 1) ≤ v ∧ v < startAt a (yu + 1)) := by omega
      simp [d, d']

/-- a candidate instant `ℓ - o` of a reading in year `Y` is judged alike by its own year's rule and by year `Y`'s -/
theorem rule_year_shift (a : Alt) (hy : RuleYearly a) (ℓ Y o : Int) (hℓ : IsYearOf (ℓ / 86400) Y)
    (ho : o = a.std.off ∨ o = a.dst.off) :
    ruleG a (ℓ - o) = (if ruleDstIn a Y (ℓ - o) then a.dst else a.std).off := by
  have bl := bounds_of_isYearOf ℓ Y hℓ
  have r0 := hy Y
  have rm := hy (Y - 1)
  have rp := hy (Y + 1)
  have em : Y - 1 + 1 = Y := by omega
  unfold inYear at r0 rm rp
  rw [em] at rm
  by_cases c1 : ℓ - o < daysBeforeYear Y * 86400
  · -- the instant lies in year Y - 1, after both of its transitions
    have hyr : IsYearOf ((ℓ - o) / 86400) (Y - 1) := by
      apply isYearOf_of_bounds
      · rcases ho with e | e <;> subst e <;> omega
      · rw [em]; exact c1
    rw [ruleG_eq a _ _ hyr]
    have := rule_const a hy (ℓ - o) (ℓ - o) (Y - 1) (Y - 1) hyr hyr (by omega) (Or.inl rfl)
      (by omega) (by omega) (by omega) (by omega)
    -- compare end-of-year state of Y-1 with begin-of-year state of Y
    have sh := rm.2.2.2.2.2.2.1
    unfold ruleDstIn
    by_cases c : startAt a (Y - 1) ≤ endAt a (Y - 1)
    · have c' := sh.mp c
      simp only [c, c', if_true]
      have d : ¬ (startAt a (Y - 1) ≤ ℓ - o ∧ ℓ - o < endAt a (Y - 1)) := by
        rcases ho with e | e <;> subst e <;> omega
      have d' : ¬ (startAt a Y ≤ ℓ - o ∧ ℓ - o < endAt a Y) := by omega
      simp [d, d']
    · have c' : ¬ startAt a Y ≤ endAt a Y := fun h => c (sh.mpr h)
      simp only [c, c', if_false]
      have d : ¬ (endAt a (Y - 1) ≤ ℓ - o ∧ ℓ - o < startAt a (Y - 1)) := by
        rcases ho with e | e <;> subst e <;> omega
      have d' : ¬ (endAt a Y ≤ ℓ - o ∧ ℓ - o < startAt a Y) := by omega
      simp [d, d']
  · by_cases c2 : ℓ - o < daysBeforeYear (Y + 1) * 86400
    · exact ruleG_eq a _ _ (isYearOf_of_bounds _ _ (by omega) c2)
    · -- the instant lies in year Y + 1, before both of its transitions
      have hyr : IsYearOf ((ℓ - o) / 86400) (Y + 1) := by
        apply isYearOf_of_bounds
        · omega
        · rcases ho with e | e <;> subst e <;> omega
      rw [ruleG_eq a _ _ hyr]
      have sh := r0.2.2.2.2.2.2.1
      unfold ruleDstIn
      by_cases c : startAt a Y ≤ endAt a Y
      · have c' := sh.mp c
        simp only [c, c', if_true]
        have d : ¬ (startAt a Y ≤ ℓ - o ∧ ℓ - o < endAt a Y) := by omega
        have d' : ¬ (startAt a (Y + 1) ≤ ℓ - o ∧ ℓ - o < endAt a (Y + 1)) := by
          rcases ho with e | e <;> subst e <;> omega
        simp [d, d']
      · have c' : ¬ startAt a (Y + 1) ≤ endAt a (Y + 1) := fun h => c (sh.mpr h)
        simp only [c, c', if_false]
        have d : ¬ (endAt a Y ≤ ℓ - o ∧ ℓ - o < startAt a Y) := by omega
        have d' : ¬ (endAt a (Y + 1) ≤ ℓ - o ∧ ℓ - o < startAt a (Y + 1)) := by
          rcases ho with e | e <;> subst e <;> omega
        simp [d, d']

theorem ruleG_mem (a : Alt) (t : Int) : ruleG a t = a.std.off ∨ ruleG a t = a.dst.off := by
  unfold ruleG ruleOff; dsimp only; split
  · exact Or.inr rfl
  · exact Or.inl rfl

theorem yearOff_mem (a : Alt) (S E t : Int) : yearOff a S E t = a.std.off ∨ yearOff a S E t = a.dst.off := by
  unfold yearOff; split <;> split <;> simp

theorem naiveYear_spec (ℓ : Int) (h : -36028797018963968 ≤ ℓ ∧ ℓ ≤ 36028797018963968) :
    IsYearOf (ℓ / 86400) (naiveYear ℓ) := by
  obtain ⟨dt, hdt, hY, _⟩ := from_timespec_ok' ℓ h
  unfold naiveYear; rw [hdt]; exact hY

/-- lookup by wall clock under a rule against the rule's GLOBAL step function (all years) -/
theorem rule_from_local_global (a : Alt) (hvS : ValidDay a.dstStart) (hvE : ValidDay a.dstEnd)
    (hy : RuleYearly a) (ℓ : Int) (hr : -36028797018963968 ≤ ℓ ∧ ℓ ≤ 36028797018963968)
    (hS : a.std.off ≠ a.dst.off → ℓ ≠ wallStart a (naiveYear ℓ))
    (hE : a.std.off ≠ a.dst.off → ℓ ≠ wallEnd a (naiveYear ℓ)) :
    Classifies (ruleG a) ℓ (a.find_local_time_type_from_local (naiveYear ℓ) ℓ) := by
  have hY := naiveYear_spec ℓ hr
  generalize naiveYear ℓ = Y at *
  have hsep : RuleSeparated a (wallStart a Y) (wallEnd a Y) := by
    rw [wallStart_eq, wallEnd_eq]; exact (hy Y).2.2.2.2.2.2.2
  apply classifies_congr _ (yearOff a (wallStart a Y) (wallEnd a Y)) ℓ _ _
    (rule_from_local_classifies' a hvS hvE Y ℓ hsep hS hE)
  have key : ∀ o, (o = a.std.off ∨ o = a.dst.off) →
      ruleG a (ℓ - o) = yearOff a (wallStart a Y) (wallEnd a Y) (ℓ - o) := by
    intro o ho
    rw [rule_year_shift a hy ℓ Y o hY ho, yearOff_eq a Y (ℓ - o) hsep]
  intro t
  constructor
  · intro h
    have e : t = ℓ - ruleG a t := by omega
    have k := key (ruleG a t) (ruleG_mem a t)
    rw [← e] at k
    omega
  · intro h
    have e : t = ℓ - yearOff a (wallStart a Y) (wallEnd a Y) t := by omega
    have k := key _ (yearOff_mem a (wallStart a Y) (wallEnd a Y) t)
    rw [← e] at k
    omega

theorem head_le_hiLast (z : Zone) (ts : List Transition) : ∀ (p : Int) (lo : Option Int),
    sepFrom z ts p lo = true → ∀ tr rest, ts = tr :: rest →
    tr.time + max p (typeAt z tr.idx).off ≤ hiLast z p ts := by
  induction ts with
  | nil => intro p lo _ tr rest h; cases h
  | cons x xs ih =>
    intro p lo hsep tr rest heq
    cases heq
    cases xs with
    | nil => simp [hiLast]
    | cons x2 xs2 =>
      unfold sepFrom at hsep
      simp only [Bool.and_eq_true] at hsep
      have h2 := ih (typeAt z x.idx).off _ hsep.2 x2 xs2 rfl
      have hsep2 := hsep.2
      unfold sepFrom at hsep2
      simp only [Bool.and_eq_true, decide_eq_true_eq] at hsep2
      simp only [hiLast]
      omega

theorem hiLast_ge (z : Zone) (ts : List Transition) : ∀ (p : Int) (last : Transition),
    ts.getLast? = some last → last.time + (typeAt z last.idx).off ≤ hiLast z p ts := by
  induction ts with
  | nil => intro p last h; cases h
  | cons x xs ih =>
    intro p last h
    cases xs with
    | nil =>
      simp at h; subst h; simp only [hiLast]; omega
    | cons x2 xs2 =>
      simp only [hiLast]
      apply ih
      simpa [List.getLast?_cons_cons] using h

theorem stepOff_after (z : Zone) (ts : List Transition) : ∀ (p : Int) (last : Transition),
    Sorted ts → ts.getLast? = some last → ∀ t, last.time ≤ t →
    stepOff z p ts t = (typeAt z last.idx).off := by
  induction ts with
  | nil => intro p last _ h; cases h
  | cons x xs ih =>
    intro p last hs h t ht
    have hx := sorted_le_last (x :: xs) last hs h x (List.mem_cons_self ..)
    have c : x.time ≤ t := by omega
    simp only [stepOff, c, if_true]
    cases xs with
    | nil => simp at h; subst h; simp [stepOff]
    | cons x2 xs2 =>
      apply ih _ _ (List.pairwise_cons.mp hs).2 _ t ht
      simpa [List.getLast?_cons_cons] using h

theorem stepOff_before (z : Zone) (ts : List Transition) : ∀ (p : Int) (lo : Option Int) (last : Transition),
    Sorted ts → sepFrom z ts p lo = true → ts.getLast? = some last → ∀ t, t < last.time →
    t + stepOff z p ts t ≤ hiLast z p ts := by
  induction ts with
  | nil => intro p lo last _ _ h; cases h
  | cons x xs ih =>
    intro p lo last hs hsep h t ht
    have hhead := head_le_hiLast z (x :: xs) p lo hsep x xs rfl
    by_cases c : x.time ≤ t
    · simp only [stepOff, c, if_true]
      cases xs with
      | nil => simp at h; subst h; omega
      | cons x2 xs2 =>
        unfold sepFrom at hsep
        simp only [Bool.and_eq_true] at hsep
        have := ih (typeAt z x.idx).off _ last (List.pairwise_cons.mp hs).2 hsep.2
          (by simpa [List.getLast?_cons_cons] using h) t ht
        simpa [hiLast] using this
    · simp only [stepOff, c, if_false]; omega

theorem one_ret (z : Zone) (tr : Transition) (prev : Ltt) (ℓ : Int)
    (hT : -4611686018427387904 ≤ tr.time ∧ tr.time ≤ 4611686018427387904)
    (hp : -2147483648 ≤ prev.off ∧ prev.off ≤ 2147483647)
    (ha : -2147483648 ≤ (typeAt z tr.idx).off ∧ (typeAt z tr.idx).off ≤ 2147483647)
    (h : ℓ ≤ tr.time + max prev.off (typeAt z tr.idx).off) :
    ∃ m, fromLocalLoop z [tr] prev ℓ = .ret m := by
  unfold fromLocalLoop fromLocalLoop
  have s1 : satI64 (tr.time + (typeAt z tr.idx).off) = tr.time + (typeAt z tr.idx).off :=
    satI64_id (by omega) (by omega)
  have s2 : satI64 (tr.time + prev.off) = tr.time + prev.off :=
    satI64_id (by omega) (by omega)
  dsimp only
  simp only [s1, s2]
  generalize (typeAt z tr.idx) = after at *
  (repeat' split) <;> first | exact ⟨_, rfl⟩ | omega

/-- what the loop returns on a non-empty separated table: an early result exactly when `ℓ` is not
beyond the last window, otherwise the type of the last transition -/
theorem loop_out (z : Zone) (ℓ : Int) (ts : List Transition) : ∀ (prev : Ltt) (lo : Option Int) (last : Transition),
    sepFrom z ts prev.off lo = true → InRange z ts → (-2147483648 ≤ prev.off ∧ prev.off ≤ 2147483647) →
    ts.getLast? = some last →
    ((∃ m, fromLocalLoop z ts prev ℓ = .ret m ∧ ℓ ≤ hiLast z prev.off ts) ∨
     (fromLocalLoop z ts prev ℓ = .fell (typeAt z last.idx) ∧ hiLast z prev.off ts < ℓ)) := by
  induction ts with
  | nil => intro prev lo last _ _ _ h; cases h
  | cons tr rest ih =>
    intro prev lo last hsep hr hp hl
    have hT := hr.2 tr (List.mem_cons_self ..)
    have ha := hr.1 tr.idx
    have hhead := head_le_hiLast z (tr :: rest) prev.off lo hsep tr rest rfl
    by_cases c : ℓ ≤ tr.time + max prev.off (typeAt z tr.idx).off
    · left
      obtain ⟨m, hm⟩ := one_ret z tr prev ℓ hT hp ha c
      exact ⟨m, by rw [loop_cons_ret z tr rest prev ℓ hT hp ha c, hm], by omega⟩
    · have c' : tr.time + max prev.off (typeAt z tr.idx).off < ℓ := by omega
      rw [loop_cons_cont z tr rest prev ℓ hT hp ha c']
      cases rest with
      | nil =>
        right
        simp at hl; subst hl
        exact ⟨by simp [fromLocalLoop], by simpa [hiLast] using c'⟩
      | cons x2 xs2 =>
        unfold sepFrom at hsep
        simp only [Bool.and_eq_true] at hsep
        have hr' : InRange z (x2 :: xs2) := ⟨hr.1, fun x hx' => hr.2 x (List.mem_cons_of_mem _ hx')⟩
        have := ih (typeAt z tr.idx) _ last hsep.2 hr' ha (by simpa [List.getLast?_cons_cons] using hl)
        simpa [hiLast] using this

/-- generic composition: a separated table followed by a step function `G` in force from the last
transition on, whose wall-clock lookup `R` is exact beyond the last window -/
theorem compose (z : Zone) (ℓ : Int) (G : Int → Int) (R : Mapped Ltt) (last : Transition)
    (hl : z.transitions.getLast? = some last) (hs : Sorted z.transitions) (hsep : WellSeparated z)
    (hnb : NoBoundary' z (typeAt z 0).off z.transitions ℓ) (hr : InRange z z.transitions)
    (J1 : ∀ t, last.time ≤ t → G t = (typeAt z last.idx).off ∨
      (hiLast z (typeAt z 0).off z.transitions < t + G t ∧
       hiLast z (typeAt z 0).off z.transitions < t + (typeAt z last.idx).off))
    (J2 : ∀ t, t < last.time → G t = (typeAt z last.idx).off ∨
      t + G t ≤ hiLast z (typeAt z 0).off z.transitions)
    (HR : hiLast z (typeAt z 0).off z.transitions < ℓ → Classifies G ℓ R) :
    Classifies (fun t => if last.time ≤ t then G t else stepOff z (typeAt z 0).off z.transitions t) ℓ
      (match fromLocalLoop z z.transitions (typeAt z 0) ℓ with
       | .ret m => m
       | .fell _ => R) := by
  have hp := hr.1 0
  have hge := hiLast_ge z z.transitions (typeAt z 0).off last hl
  rcases loop_out z ℓ z.transitions (typeAt z 0) none last hsep hr hp hl with ⟨m, hm, hle⟩ | ⟨hf, hgt⟩
  · rw [hm]
    have hc := loop_classifies z ℓ z.transitions (typeAt z 0) none hs hsep hnb hr hp
    rw [hm] at hc
    simp only [outMap] at hc
    apply classifies_congr _ _ ℓ _ _ hc
    intro t
    by_cases c : last.time ≤ t
    · simp only [c, if_true]
      rw [stepOff_after z z.transitions _ last hs hl t c]
      rcases J1 t c with h | h
      · rw [h]
      · constructor <;> intro hh <;> omega
    · simp only [c, if_false]
  · rw [hf]
    apply classifies_congr _ _ ℓ _ _ (HR hgt)
    intro t
    by_cases c : last.time ≤ t
    · simp only [c, if_true]
    · simp only [c, if_false]
      have hb := stepOff_before z z.transitions _ none last hs hsep hl t (by omega)
      rcases J2 t (by omega) with h | h
      · rw [h]; constructor <;> intro hh <;> omega
      · constructor <;> intro hh <;> omega

theorem offAt_with_rule (z : Zone) (r : Rule) (last : Transition) (t : Int) (hrule : z.rule = some r)
    (hl : z.transitions.getLast? = some last) (hs : Sorted z.transitions) :
    offAt z t = (if last.time ≤ t then (ruleOff r t).off else stepOff z (typeAt z 0).off z.transitions t) := by
  rw [stepOff_eq z _ _ t hs]
  unfold offAt ltAt afterLast tableAt
  rw [hrule, hl]
  by_cases c : last.time ≤ t
  · simp [c]
  · simp only [c, decide_false, Bool.false_eq_true, if_false]
    cases (z.transitions.filter (fun tr => decide (tr.time ≤ t))).getLast? <;> rfl

theorem from_local_with_rule (z : Zone) (r : Rule) (last : Transition) (ℓ : Int) (hrule : z.rule = some r)
    (hl : z.transitions.getLast? = some last) :
    z.find_local_time_type_from_local ℓ =
      (match fromLocalLoop z z.transitions (typeAt z 0) ℓ with
       | .ret m => m
       | .fell _ => r.find_local_time_type_from_local (naiveYear ℓ) ℓ) := by
  unfold Zone.find_local_time_type_from_local
  rw [hrule]
  have : z.transitions.isEmpty = false := by
    cases h : z.transitions with
    | nil => rw [h] at hl; cases hl
    | cons _ _ => rfl
  rw [this]
  dsimp only
  simp only [Bool.false_eq_true, if_false]
  cases fromLocalLoop z z.transitions (typeAt z 0) ℓ <;> rfl

/-- `joinSeparatedB` unpacked for an alternate-time rule -/
theorem join_alt (z : Zone) (a : Alt) (last : Transition) (hrule : z.rule = some (.alt a))
    (hl : z.transitions.getLast? = some last) (hj : JoinSeparated z) :
    ruleG a last.time = (typeAt z last.idx).off ∧
    ∀ y, (y = yearOf (last.time / 86400) - 1 ∨ y = yearOf (last.time / 86400) ∨ y = yearOf (last.time / 86400) + 1) →
      ∀ X, (X = startAt a y ∨ X = endAt a y) →
        (X ≤ last.time ∧ X + max a.std.off a.dst.off ≤ hiLast z (typeAt z 0).off z.transitions) ∨
        (last.time < X ∧ hiLast z (typeAt z 0).off z.transitions < X + min a.std.off a.dst.off) := by
  unfold JoinSeparated joinSeparatedB at hj
  rw [hrule, hl] at hj
  simp only [Bool.and_eq_true, decide_eq_true_eq, List.all_cons, List.all_nil, Bool.and_true,
    Bool.or_eq_true] at hj
  refine ⟨hj.1, ?_⟩
  intro y hy X hX
  rcases hy with e | e | e <;> subst e <;> rcases hX with e | e <;> subst e
  · exact hj.2.1.1
  · exact hj.2.1.2
  · exact hj.2.2.1.1
  · exact hj.2.2.1.2
  · exact hj.2.2.2.1
  · exact hj.2.2.2.2

theorem join_J1 (z : Zone) (a : Alt) (last : Transition) (hrule : z.rule = some (.alt a))
    (hl : z.transitions.getLast? = some last) (hj : JoinSeparated z) (hy : RuleYearly a) :
    ∀ t, last.time ≤ t → ruleG a t = (typeAt z last.idx).off ∨
      (hiLast z (typeAt z 0).off z.transitions < t + ruleG a t ∧
       hiLast z (typeAt z 0).off z.transitions < t + (typeAt z last.idx).off) := by
  intro t ht
  obtain ⟨hc, hX⟩ := join_alt z a last hrule hl hj
  generalize hiLast z (typeAt z 0).off z.transitions = hi at *
  generalize (typeAt z last.idx).off = aL at *
  have hY0 := yearOf_spec (last.time / 86400)
  generalize yearOf (last.time / 86400) = y0 at *
  generalize last.time = T at *
  have bT := bounds_of_isYearOf T y0 hY0
  have m1 := ruleG_mem a t
  have m2 := ruleG_mem a T
  have x1 := hX y0 (Or.inr (Or.inl rfl)) _ (Or.inl rfl)
  have x2 := hX y0 (Or.inr (Or.inl rfl)) _ (Or.inr rfl)
  have x3 := hX (y0 + 1) (Or.inr (Or.inr rfl)) _ (Or.inl rfl)
  have x4 := hX (y0 + 1) (Or.inr (Or.inr rfl)) _ (Or.inr rfl)
  have r0 := hy y0
  have r1 := hy (y0 + 1)
  unfold inYear at r0 r1
  by_cases cA : (T < startAt a y0 ∧ startAt a y0 ≤ t) ∨ (T < endAt a y0 ∧ endAt a y0 ≤ t) ∨
      (T < startAt a (y0 + 1) ∧ startAt a (y0 + 1) ≤ t) ∨ (T < endAt a (y0 + 1) ∧ endAt a (y0 + 1) ≤ t)
  · right
    rcases cA with h | h | h | h <;> constructor <;> omega
  · left
    have n1 : ¬ (T < startAt a y0 ∧ startAt a y0 ≤ t) := fun h => cA (Or.inl h)
    have n2 : ¬ (T < endAt a y0 ∧ endAt a y0 ≤ t) := fun h => cA (Or.inr (Or.inl h))
    have n3 : ¬ (T < startAt a (y0 + 1) ∧ startAt a (y0 + 1) ≤ t) := fun h => cA (Or.inr (Or.inr (Or.inl h)))
    have n4 : ¬ (T < endAt a (y0 + 1) ∧ endAt a (y0 + 1) ≤ t) := fun h => cA (Or.inr (Or.inr (Or.inr h)))
    have hlt : t < daysBeforeYear (y0 + 1 + 1) * 86400 := by omega
    by_cases cy : t < daysBeforeYear (y0 + 1) * 86400
    · have hyt := isYearOf_of_bounds t y0 (by omega) cy
      have := rule_const a hy T t y0 y0 hY0 hyt ht (Or.inl rfl) n1 n2 n1 n2
      rw [ruleG_eq a t y0 hyt, ← this, ← ruleG_eq a T y0 hY0]; exact hc
    · have hyt := isYearOf_of_bounds t (y0 + 1) (by omega) hlt
      have := rule_const a hy T t y0 (y0 + 1) hY0 hyt ht (Or.inr rfl) n1 n2 n3 n4
      rw [ruleG_eq a t (y0 + 1) hyt, ← this, ← ruleG_eq a T y0 hY0]; exact hc

theorem join_J2 (z : Zone) (a : Alt) (last : Transition) (hrule : z.rule = some (.alt a))
    (hl : z.transitions.getLast? = some last) (hj : JoinSeparated z) (hy : RuleYearly a) :
    ∀ t, t < last.time → ruleG a t = (typeAt z last.idx).off ∨
      t + ruleG a t ≤ hiLast z (typeAt z 0).off z.transitions := by
  intro t ht
  obtain ⟨hc, hX⟩ := join_alt z a last hrule hl hj
  generalize hiLast z (typeAt z 0).off z.transitions = hi at *
  generalize (typeAt z last.idx).off = aL at *
  have hY0 := yearOf_spec (last.time / 86400)
  generalize yearOf (last.time / 86400) = y0 at *
  generalize last.time = T at *
  have bT := bounds_of_isYearOf T y0 hY0
  have m1 := ruleG_mem a t
  have x1 := hX y0 (Or.inr (Or.inl rfl)) _ (Or.inl rfl)
  have x2 := hX y0 (Or.inr (Or.inl rfl)) _ (Or.inr rfl)
  have x3 := hX (y0 - 1) (Or.inl rfl) _ (Or.inl rfl)
  have x4 := hX (y0 - 1) (Or.inl rfl) _ (Or.inr rfl)
  have r0 := hy y0
  have rm := hy (y0 - 1)
  have em : y0 - 1 + 1 = y0 := by omega
  unfold inYear at r0 rm
  rw [em] at rm
  by_cases cA : (t < startAt a y0 ∧ startAt a y0 ≤ T) ∨ (t < endAt a y0 ∧ endAt a y0 ≤ T) ∨
      (t < startAt a (y0 - 1) ∧ startAt a (y0 - 1) ≤ T) ∨ (t < endAt a (y0 - 1) ∧ endAt a (y0 - 1) ≤ T)
  · right
    rcases cA with h | h | h | h <;> omega
  · left
    have n1 : ¬ (t < startAt a y0 ∧ startAt a y0 ≤ T) := fun h => cA (Or.inl h)
    have n2 : ¬ (t < endAt a y0 ∧ endAt a y0 ≤ T) := fun h => cA (Or.inr (Or.inl h))
    have n3 : ¬ (t < startAt a (y0 - 1) ∧ startAt a (y0 - 1) ≤ T) := fun h => cA (Or.inr (Or.inr (Or.inl h)))
    have n4 : ¬ (t < endAt a (y0 - 1) ∧ endAt a (y0 - 1) ≤ T) := fun h => cA (Or.inr (Or.inr (Or.inr h)))
    have hge : daysBeforeYear (y0 - 1) * 86400 ≤ t := by omega
    by_cases cy : daysBeforeYear y0 * 86400 ≤ t
    · have hyt := isYearOf_of_bounds t y0 cy (by omega)
      have := rule_const a hy t T y0 y0 hyt hY0 (by omega) (Or.inl rfl) n1 n2 n1 n2
      rw [ruleG_eq a t y0 hyt, this, ← ruleG_eq a T y0 hY0]; exact hc
    · have hyt := isYearOf_of_bounds t (y0 - 1) hge (by rw [em]; omega)
      have := rule_const a hy t T (y0 - 1) y0 hyt hY0 (by omega) (Or.inr (by omega)) n3 n4 n1 n2
      rw [ruleG_eq a t (y0 - 1) hyt, this, ← ruleG_eq a T y0 hY0]; exact hc

/-- table + alternate-time footer rule -/
theorem composed_alt' (z : Zone) (a : Alt) (last : Transition) (ℓ : Int)
    (hrule : z.rule = some (.alt a)) (hl : z.transitions.getLast? = some last)
    (hs : Sorted z.transitions) (hsep : WellSeparated z) (hj : JoinSeparated z)
    (hvS : ValidDay a.dstStart) (hvE : ValidDay a.dstEnd) (hy : RuleYearly a)
    (hnb : NoBoundary' z (typeAt z 0).off z.transitions ℓ)
    (hS : a.std.off ≠ a.dst.off → ℓ ≠ wallStart a (naiveYear ℓ))
    (hE : a.std.off ≠ a.dst.off → ℓ ≠ wallEnd a (naiveYear ℓ))
    (hr : InRange z z.transitions) (hℓ : -36028797018963968 ≤ ℓ ∧ ℓ ≤ 36028797018963968) :
    Classifies (offAt z) ℓ (z.find_local_time_type_from_local ℓ) := by
  rw [from_local_with_rule z (.alt a) last ℓ hrule hl]
  have hc := compose z ℓ (ruleG a) (a.find_local_time_type_from_local (naiveYear ℓ) ℓ) last hl hs hsep hnb hr
    (join_J1 z a last hrule hl hj hy) (join_J2 z a last hrule hl hj hy)
    (fun _ => rule_from_local_global a hvS hvE hy ℓ hℓ hS hE)
  apply classifies_congr _ _ ℓ _ _ hc
  intro t
  rw [offAt_with_rule z (.alt a) last t hrule hl hs]
  rfl

/-- table + fixed footer rule -/
theorem composed_fixed' (z : Zone) (l : Ltt) (last : Transition) (ℓ : Int)
    (hrule : z.rule = some (.fixed l)) (hl : z.transitions.getLast? = some last)
    (hs : Sorted z.transitions) (hsep : WellSeparated z) (hj : JoinSeparated z)
    (hnb : NoBoundary' z (typeAt z 0).off z.transitions ℓ) (hr : InRange z z.transitions) :
    Classifies (offAt z) ℓ (z.find_local_time_type_from_local ℓ) := by
  have hjo : l.off = (typeAt z last.idx).off := by
    unfold JoinSeparated joinSeparatedB at hj
    rw [hrule, hl] at hj
    simpa using hj
  rw [from_local_with_rule z (.fixed l) last ℓ hrule hl]
  have hc := compose z ℓ (fun _ => l.off) (.single l) last hl hs hsep hnb hr
    (fun _ _ => Or.inl hjo) (fun _ _ => Or.inl hjo)
    (fun _ => by simp only [Classifies]; intro t; omega)
  apply classifies_congr _ _ ℓ _ _ hc
  intro t
  rw [offAt_with_rule z (.fixed l) last t hrule hl hs]
  rfl

/-- no table, alternate-time rule (a POSIX `TZ` value) -/
theorem rule_only' (z : Zone) (a : Alt) (ℓ : Int) (hrule : z.rule = some (.alt a)) (ht : z.transitions = [])
    (hvS : ValidDay a.dstStart) (hvE : ValidDay a.dstEnd) (hy : RuleYearly a)
    (hS : a.std.off ≠ a.dst.off → ℓ ≠ wallStart a (naiveYear ℓ))
    (hE : a.std.off ≠ a.dst.off → ℓ ≠ wallEnd a (naiveYear ℓ))
    (hℓ : -36028797018963968 ≤ ℓ ∧ ℓ ≤ 36028797018963968) :
    Classifies (offAt z) ℓ (z.find_local_time_type_from_local ℓ) := by
  have e1 : z.find_local_time_type_from_local ℓ = a.find_local_time_type_from_local (naiveYear ℓ) ℓ := by
    unfold Zone.find_local_time_type_from_local
    rw [hrule, ht]; rfl
  have e2 : ∀ t, offAt z t = ruleG a t := by
    intro t
    unfold offAt ltAt afterLast ruleG
    rw [hrule, ht]; rfl
  rw [e1]
  apply classifies_congr _ _ ℓ _ _ (rule_from_local_global a hvS hvE hy ℓ hℓ hS hE)
  intro t; rw [e2 t]

end Chrono.Proofs.TzL
