/-
  C10, gaps G3–G5: a text has at most one reading in the grammar (`matches_unique`); the calendar date
  of a day number is unique (`ymd_of_dayNum_unique`, from C01's `ymd_unique` and the monotone
  `daysBeforeYear`); the `AutoSi` digit count is the least of 0/3/6/9 that loses nothing.
  Namespace `Chrono.Proofs.Rfc3339U`.
-/
import Chrono.Proofs.Rfc3339WriteL

namespace Chrono.Proofs.Rfc3339U
open Chrono Chrono.M Chrono.Spec Chrono.Spec.Rfc3339 Chrono.Proofs

/-! ### G3: one reading per text -/

/-- an offset text starts with a byte that is neither a digit nor `.` -/
theorem offsetText_head (off : List Nat) (z n : Bool) (H M : Nat) (h : OffsetText off z n H M) :
    ∃ c t, off = c :: t ∧ ¬ IsDig c ∧ c ≠ 46 := by
  cases h
  · exact ⟨90, [], rfl, by unfold IsDig; omega, by omega⟩
  · exact ⟨122, [], rfl, by unfold IsDig; omega, by omega⟩
  · exact ⟨43, _, rfl, by unfold IsDig; omega, by omega⟩
  · exact ⟨45, _, rfl, by unfold IsDig; omega, by omega⟩
  · exact ⟨226, _, rfl, by unfold IsDig; omega, by omega⟩

/-- a run of digits followed by a non-digit splits in one way only -/
theorem digits_split : ∀ (ds ds' : List Nat) (c c' : Nat) (t t' : List Nat),
    (∀ x ∈ ds, IsDig x) → (∀ x ∈ ds', IsDig x) → ¬ IsDig c → ¬ IsDig c' →
    ds ++ c :: t = ds' ++ c' :: t' → ds = ds' ∧ c :: t = c' :: t' := by
  intro ds
  induction ds with
  | nil =>
    intro ds' c c' t t' _ hd' hc _ h
    cases ds' with
    | nil => exact ⟨rfl, h⟩
    | cons a r =>
      simp only [List.nil_append, List.cons_append, List.cons.injEq] at h
      exact absurd (h.1 ▸ hd' a (by simp)) hc
  | cons a r ih =>
    intro ds' c c' t t' hd hd' hc hc' h
    cases ds' with
    | nil =>
      simp only [List.nil_append, List.cons_append, List.cons.injEq] at h
      exact absurd (h.1 ▸ hd a (by simp)) hc'
    | cons a' r' =>
      simp only [List.cons_append, List.cons.injEq] at h
      obtain ⟨e1, e2⟩ := ih r' c c' t t' (fun x hx => hd x (List.mem_cons_of_mem _ hx))
        (fun x hx => hd' x (List.mem_cons_of_mem _ hx)) hc hc' h.2
      exact ⟨by rw [h.1, e1], e2⟩

/-- fraction text and offset text are determined by their concatenation -/
theorem frac_off_unique (fr fr' a a' off off' : List Nat) (z z' n n' : Bool) (H H' M M' : Nat)
    (hf : FracText fr a) (hf' : FracText fr' a') (ho : OffsetText off z n H M) (ho' : OffsetText off' z' n' H' M')
    (h : fr ++ off = fr' ++ off') : a = a' ∧ off = off' := by
  obtain ⟨c, t, e, hc, hc46⟩ := offsetText_head off z n H M ho
  obtain ⟨c', t', e', hc', hc46'⟩ := offsetText_head off' z' n' H' M' ho'
  subst e; subst e'
  cases hf with
  | absent =>
    cases hf' with
    | absent => exact ⟨rfl, h⟩
    | present ds' _ _ =>
      simp only [List.nil_append, List.cons_append, List.cons.injEq] at h
      exact absurd h.1 hc46
  | present _ _ hd =>
    cases hf' with
    | absent =>
      simp only [List.nil_append, List.cons_append, List.cons.injEq] at h
      exact absurd h.1.symm hc46'
    | present _ _ hd' =>
      simp only [List.cons_append, List.cons.injEq, true_and] at h
      exact digits_split a a' c c' t t' hd hd' hc hc' h

/-- the offset fields read off an offset text -/
def offFields : List Nat → Bool × Bool × Nat × Nat
  | [90] => (true, false, 0, 0)
  | [122] => (true, false, 0, 0)
  | [43, a, b, 58, c, d] => (false, false, num2 a b, num2 c d)
  | [45, a, b, 58, c, d] => (false, true, num2 a b, num2 c d)
  | [226, 136, 146, a, b, 58, c, d] => (false, true, num2 a b, num2 c d)
  | _ => (false, false, 0, 0)

theorem offFields_spec (off : List Nat) (z n : Bool) (H M : Nat) (h : OffsetText off z n H M) :
    offFields off = (z, n, H, M) := by
  cases h <;> rfl

/-- an offset text shows one set of offset fields -/
theorem offsetText_unique (off off' : List Nat) (z z' n n' : Bool) (H H' M M' : Nat)
    (h : OffsetText off z n H M) (h' : OffsetText off' z' n' H' M') (e : off = off') :
    z = z' ∧ n = n' ∧ H = H' ∧ M = M' := by
  have e1 := offFields_spec off z n H M h
  have e2 := offFields_spec off' z' n' H' M' h'
  rw [e, e2] at e1
  simp only [Prod.mk.injEq] at e1
  exact ⟨e1.1.symm, e1.2.1.symm, e1.2.2.1.symm, e1.2.2.2.symm⟩

/-- **matches_unique**: the grammar is unambiguous — fixed widths up to the seconds, then a fraction
that ends at the first non-digit, then an offset whose form is fixed by its first byte -/
theorem matches_unique (s : List Nat) (f g : Fields) (hf : Matches s f) (hg : Matches s g) : f = g := by
  obtain ⟨y1, y2, y3, y4, mo1, mo2, d1, d2, sep, h1, h2, mi1, mi2, s1, s2, fr, off, _, _, _, _, _, _, _, hfr, hoff,
    hs, e1, e2, e3, e4, e5, e6⟩ := hf
  obtain ⟨y1', y2', y3', y4', mo1', mo2', d1', d2', sep', h1', h2', mi1', mi2', s1', s2', fr', off', _, _, _, _, _, _, _,
    hfr', hoff', hs', e1', e2', e3', e4', e5', e6'⟩ := hg
  rw [hs] at hs'
  simp only [List.cons_append, List.nil_append, List.cons.injEq, true_and] at hs'
  obtain ⟨rfl, rfl, rfl, rfl, rfl, rfl, rfl, rfl, rfl, rfl, rfl, rfl, rfl, rfl, rfl, htail⟩ := hs'
  obtain ⟨ea, eo⟩ := frac_off_unique fr fr' _ _ off off' _ _ _ _ _ _ _ _ hfr hfr' hoff hoff' htail
  obtain ⟨ez, en, eH, eM⟩ := offsetText_unique off off' _ _ _ _ _ _ _ _ hoff hoff' eo
  cases f; cases g
  simp only [Fields.mk.injEq]
  dsimp only at *
  exact ⟨by rw [e1, e1'], by rw [e2, e2'], by rw [e3, e3'], by rw [e4, e4'], by rw [e5, e5'], by rw [e6, e6'],
    ea, ez, en, eH, eM⟩

/-! ### G5: one calendar date per day number -/

theorem dayNumYo_inj (y y' : Int) (o o' : Nat) (ho : 1 ≤ o ∧ o ≤ yearLen y) (ho' : 1 ≤ o' ∧ o' ≤ yearLen y')
    (h : dayNumYo y o = dayNumYo y' o') : y = y' ∧ o = o' := by
  unfold dayNumYo at h
  have hy : y = y' := by
    rcases Int.lt_trichotomy y y' with hlt | heq | hgt
    · have := dby_mono (y + 1) y' (by omega)
      have := dby_step y
      omega
    · exact heq
    · have := dby_mono (y' + 1) y (by omega)
      have := dby_step y'
      omega
  subst hy
  exact ⟨rfl, by omega⟩

/-- the calendar date of a day number is unique (C01: `ymd_unique` + strictly increasing year starts) -/
theorem ymd_of_dayNum_unique (y y' : Int) (m d m' d' : Nat) (h : validYmd y m d = true)
    (h' : validYmd y' m' d' = true) (e : dayNum y m d = dayNum y' m' d') : y = y' ∧ m = m' ∧ d = d' := by
  have b := ParsedRes.ordinal_bounds y m d h
  have b' := ParsedRes.ordinal_bounds y' m' d' h'
  unfold dayNum at e
  obtain ⟨ey, eo⟩ := dayNumYo_inj y y' _ _ b b' e
  subst ey
  obtain ⟨u1, u2⟩ := ymd_unique y m d h
  obtain ⟨u1', u2'⟩ := ymd_unique y m' d' h'
  rw [eo] at u1 u2
  exact ⟨rfl, by rw [← u1, u1'], by rw [← u2, u2']⟩

/-! ### G4: `AutoSi` is the shortest lossless precision -/

/-- for sub-second nanoseconds `n`, the digit count `k` chosen by `AutoSi` is one of 0, 3, 6, 9, the
value shown is `n / 10^(9−k)` with nothing lost (`10^(9−k) ∣ n`), and every shorter count of the four
would lose something -/
theorem autoSi_shortest (n : Nat) (hn : n < 1000000000) :
    (wantedFrac .autoSi n).1 ∈ [0, 3, 6, 9] ∧ n % 10 ^ (9 - (wantedFrac .autoSi n).1) = 0 ∧
    (wantedFrac .autoSi n).2 = n / 10 ^ (9 - (wantedFrac .autoSi n).1) ∧
    ∀ k' ∈ [0, 3, 6, 9], k' < (wantedFrac .autoSi n).1 → n % 10 ^ (9 - k') ≠ 0 := by
  unfold wantedFrac
  by_cases h1 : n = 0
  · subst h1
    simp
  · by_cases h2 : n % 1000000 = 0
    · simp only [h1, h2, if_true, if_false]
      refine ⟨by simp, by norm_num; omega, by norm_num, ?_⟩
      intro k' hk' hlt
      simp only [List.mem_cons, List.not_mem_nil, or_false] at hk'
      rcases hk' with rfl | rfl | rfl | rfl <;> omega
    · by_cases h3 : n % 1000 = 0
      · simp only [h1, h2, h3, if_true, if_false]
        refine ⟨by simp, by norm_num; omega, by norm_num, ?_⟩
        intro k' hk' hlt
        simp only [List.mem_cons, List.not_mem_nil, or_false] at hk'
        rcases hk' with rfl | rfl | rfl | rfl <;> omega
      · simp only [h1, h2, h3, if_false]
        refine ⟨by simp, Nat.mod_one n, by simp, ?_⟩
        intro k' hk' hlt
        simp only [List.mem_cons, List.not_mem_nil, or_false] at hk'
        rcases hk' with rfl | rfl | rfl | rfl <;> omega

end Chrono.Proofs.Rfc3339U
