/-
  C16, part 6: decode soundness for ARBITRARY accepted bytes — the zone `parse` returns is, field by
  field, what the bytes say at the offsets the header counts determine (Spec/TzDecodeSpec.lean); and
  the version field of the second header.
-/
import Chrono.Proofs.TzLayoutL
import Chrono.Spec.TzDecodeSpec

set_option linter.unusedSimpArgs false
set_option linter.unusedVariables false

namespace Chrono.Proofs.TzDecode
open Chrono Chrono.M.Tz Chrono.Spec.Tz Chrono.Proofs Chrono.Proofs.Tz Chrono.Proofs.TzValid
  Chrono.Extracted.TzP

/-! ### the arrays `State.new` slices -/
theorem post_state_fields (c : Cursor) (first : Bool) :
    Post (State.new c first) (fun r =>
      r.1.time_size = (if first then 4 else 8)
        ∧ versionOf ((c.drop 4).take 1) = some r.1.header.version
        ∧ r.1.header.transition_count = hdrCount c 3 ∧ r.1.header.type_count = hdrCount c 4
        ∧ r.1.header.leap_count = hdrCount c 2 ∧ r.1.header.char_count = hdrCount c 5
        ∧ r.1.transition_times = timesArr (if first then 4 else 8) c
        ∧ r.1.transition_types = idxArr (if first then 4 else 8) c
        ∧ r.1.local_time_types = typesArr (if first then 4 else 8) c
        ∧ r.1.names = namesArr (if first then 4 else 8) c
        ∧ r.1.leap_seconds = leapsArr (if first then 4 else 8) c
        ∧ r.1.transition_times.length = hdrCount c 3 * (if first then 4 else 8)
        ∧ r.1.transition_types.length = hdrCount c 3
        ∧ r.1.local_time_types.length = hdrCount c 4 * 6
        ∧ r.1.names.length = hdrCount c 5
        ∧ r.1.leap_seconds.length = hdrCount c 2 * ((if first then 4 else 8) + 4)) := by
  have k : TYPE_RECORD = 6 := rfl
  unfold State.new
  refine post_bind (post_header_layout _) ?_
  rintro ⟨hd, c0⟩ - ⟨e0, l0, hver, q0, q1, q2, q3, q4, q5⟩
  dsimp only at e0 l0 hver q0 q1 q2 q3 q4 q5 ⊢
  generalize hT : (if first = true then 4 else 8) = ts
  have hts : ts ≤ 8 := by rw [← hT]; split <;> omega
  have b3 := hdrCount_lt c 3
  have b4 := hdrCount_lt c 4
  have b2 := hdrCount_lt c 2
  rw [← q3] at b3; rw [← q4] at b4; rw [← q2] at b2
  rw [ckUsz_ok (by
    have : hd.transition_count * ts ≤ 4294967296 * 8 := Nat.mul_le_mul (by omega) hts
    omega)]
  simp only [P.bind_ok]
  refine post_bind (post_read_exact _ _) ?_
  rintro ⟨tt, c1⟩ - ⟨n1, l1, v1, e1⟩
  refine post_bind (post_read_exact _ _) ?_
  rintro ⟨ty, c2⟩ - ⟨n2, l2, v2, e2⟩
  rw [k, ckUsz_ok (by omega)]
  simp only [P.bind_ok]
  refine post_bind (post_read_exact _ _) ?_
  rintro ⟨lt, c3⟩ - ⟨n3, l3, v3, e3⟩
  refine post_bind (post_read_exact _ _) ?_
  rintro ⟨nm, c4⟩ - ⟨n4, l4, v4, e4⟩
  rw [ckUsz_ok (by
    have : hd.leap_count * (ts + 4) ≤ 4294967296 * 12 := Nat.mul_le_mul (by omega) (by omega)
    omega)]
  simp only [P.bind_ok]
  refine post_bind (post_read_exact _ _) ?_
  rintro ⟨ls, c5⟩ - ⟨n5, l5, v5, e5⟩
  refine post_bind (post_read_exact _ _) ?_
  rintro ⟨sw, c6⟩ - ⟨n6, l6, v6, e6⟩
  refine post_bind (post_read_exact _ _) ?_
  rintro ⟨ul, c7⟩ - ⟨n7, l7, v7, e7⟩
  dsimp only at n1 l1 v1 e1 n2 l2 v2 e2 n3 l3 v3 e3 n4 l4 v4 e4 n5 l5 v5 e5 ⊢
  have d1 : c1 = c.drop (44 + hd.transition_count * ts) := by
    rw [e1, e0, List.drop_drop]
  have d2 : c2 = c.drop (44 + hd.transition_count * ts + hd.transition_count) := by
    rw [e2, d1, List.drop_drop]
  have d3 : c3 = c.drop (44 + hd.transition_count * ts + hd.transition_count + hd.type_count * 6) := by
    rw [e3, d2, List.drop_drop]
  have d4 : c4 = c.drop (44 + hd.transition_count * ts + hd.transition_count + hd.type_count * 6
      + hd.char_count) := by
    rw [e4, d3, List.drop_drop]
  refine post_ok ⟨rfl, hver, q3, q4, q2, q5, ?_, ?_, ?_, ?_, ?_, ?_, ?_, ?_, ?_, ?_⟩
  · show tt = _
    rw [v1, e0]; unfold timesArr field; rw [← q3]
  · show ty = _
    rw [v2, d1]; unfold idxArr field offIdx; rw [← q3]
  · show lt = _
    rw [v3, d2]; unfold typesArr field offTypes offIdx; rw [← q3, ← q4]
  · show nm = _
    rw [v4, d3]; unfold namesArr field offNames offTypes offIdx; rw [← q3, ← q4, ← q5]
  · show ls = _
    rw [v5, d4]; unfold leapsArr field offLeaps offNames offTypes offIdx; rw [← q3, ← q4, ← q5, ← q2]
  · show tt.length = _
    rw [n1, q3]
  · show ty.length = _
    rw [n2, q3]
  · show lt.length = _
    rw [n3, q4]
  · show nm.length = _
    rw [n4, q5]
  · show ls.length = _
    rw [n5, q2]

/-! ### `chunks_exact` by index -/
theorem chunksN_eq_range (k n : Nat) (l : List Nat) :
    chunksN k n l = (List.range k).map (fun i => record l n i) := by
  induction k generalizing l with
  | zero => rfl
  | succ k ih =>
    rw [chunksN, ih, List.range_succ_eq_map, List.map_cons, List.map_map]
    congr 1
    · simp [record, field]
    · apply List.map_congr_left
      intro i _
      simp only [Function.comp, record, field, List.drop_drop]
      congr 2
      rw [Nat.succ_mul]; omega

theorem chunks_exact_eq (k n : Nat) (l : List Nat) (hn : 0 < n) (hl : l.length = k * n) :
    chunks_exact n l = (List.range k).map (fun i => record l n i) := by
  unfold chunks_exact
  rw [hl, Nat.mul_div_cancel _ hn, chunksN_eq_range]

theorem record_len (l : List Nat) (n k i : Nat) (hl : l.length = k * n) (hi : i < k) :
    (record l n i).length = n := by
  unfold record field
  have h1 : (i + 1) * n ≤ k * n := Nat.mul_le_mul_right n hi
  rw [Nat.add_mul, Nat.one_mul] at h1
  simp only [List.length_take, List.length_drop]
  omega

theorem zip_range {α} (k : Nat) (f : Nat → α) (tys : List Nat) (h : k ≤ tys.length) :
    ((List.range k).map f).zip tys = (List.range k).map (fun i => (f i, tys.getD i 0)) := by
  induction k generalizing f tys with
  | zero => simp
  | succ k ih =>
    cases tys with
    | nil => simp at h
    | cons ty tys' =>
      rw [List.range_succ_eq_map, List.map_cons, List.map_map, List.zip_cons_cons,
        ih (f ∘ Nat.succ) tys' (by simpa using h), List.map_cons, List.map_map]
      congr 1

/-! ### the three record loops, inverted -/
theorem parse_time_val (a : List Nat) (v : Version) (t : Int) (h : parse_time a v = .ok t) :
    t = fieldTime v a := by
  cases v
  · simp only [parse_time, slice] at h
    split at h
    · simp only [P.bind_ok, read_be_i32] at h
      split at h
      · cases h
      · simp only [P.ok.injEq] at h
        simp only [fieldTime]
        rw [← h]; simp
    · cases h
  all_goals
    simp only [parse_time, read_be_i64] at h
    split at h
    · cases h
    · simp only [P.ok.injEq] at h
      simp only [fieldTime]
      exact h.symm

theorem slice_full (a : List Nat) (n : Nat) (h : a.length = n) : slice a 0 n = .ok a := by
  rw [slice_ok _ _ _ (by omega) (by omega)]
  simp [← h]

theorem parseTransitions_val (ts : Nat) (v : Version) (L : List (List Nat × Nat)) (res : List Transition)
    (hl : ∀ x ∈ L, x.1.length = ts) (h : parseTransitions ts v L = .ok res) :
    res = L.map (fun x => ⟨fieldTime v x.1, x.2⟩) := by
  induction L generalizing res with
  | nil => simp only [parseTransitions, P.ok.injEq] at h; rw [← h]; rfl
  | cons x rest ih =>
    obtain ⟨a, ty⟩ := x
    simp only [parseTransitions] at h
    rw [slice_full a ts (hl (a, ty) (by simp))] at h
    simp only [P.bind_ok] at h
    obtain ⟨t, ht, h⟩ := bind_eq_ok h
    obtain ⟨r', hr', h⟩ := bind_eq_ok h
    simp only [P.ok.injEq] at h
    rw [← h, ih r' (fun y hy => hl y (List.mem_cons_of_mem _ hy)) hr', parse_time_val a v t ht]
    rfl

theorem parseLeap_val (ts : Nat) (v : Version) (arr : List Nat) (l : LeapSecond) (hts : ts ≤ 8)
    (hl : arr.length = ts + 4) (h : parseLeap ts v arr = .ok l) : l = decLeapRec ts v arr := by
  unfold parseLeap at h
  rw [slice_ok _ _ _ (by omega) (by omega)] at h
  simp only [P.bind_ok] at h
  obtain ⟨t, ht, h⟩ := bind_eq_ok h
  rw [ckUsz_ok (by omega)] at h
  simp only [P.bind_ok] at h
  rw [slice_ok _ _ _ (by omega) (by omega)] at h
  simp only [P.bind_ok] at h
  obtain ⟨corr, hc, h⟩ := bind_eq_ok h
  simp only [P.ok.injEq] at h
  rw [← h]
  have e1 := parse_time_val _ v t ht
  unfold read_be_i32 at hc
  split at hc
  · cases hc
  · simp only [P.ok.injEq] at hc
    unfold decLeapRec
    rw [e1, ← hc]
    have e2 : (arr.drop ts).take (ts + 4 - ts) = arr.drop ts := by
      apply List.take_of_length_le
      simp only [List.length_drop]; omega
    rw [e2]
    simp

theorem parseLeaps_val (ts : Nat) (v : Version) (L : List (List Nat)) (res : List LeapSecond)
    (hts : ts ≤ 8) (hl : ∀ x ∈ L, x.length = ts + 4) (h : parseLeaps ts v L = .ok res) :
    res = L.map (decLeapRec ts v) := by
  induction L generalizing res with
  | nil => simp only [parseLeaps, P.ok.injEq] at h; rw [← h]; rfl
  | cons x rest ih =>
    simp only [parseLeaps] at h
    obtain ⟨l, hx, h⟩ := bind_eq_ok h
    obtain ⟨r', hr', h⟩ := bind_eq_ok h
    simp only [P.ok.injEq] at h
    rw [← h, ih r' (fun y hy => hl y (List.mem_cons_of_mem _ hy)) hr',
      parseLeap_val ts v x l hts (hl x (by simp)) hx]
    rfl

/-- one accepted type record: its value and the side conditions on `isdst` / `desigidx` -/
theorem parseType_val (names arr : List Nat) (t : Ltt) (hl : arr.length = 6)
    (hn : names.length < 4294967296) (h : parseType names.length names arr = .ok t) :
    t = decTypeRec names arr ∧ (arr.getD 4 0 = 0 ∨ arr.getD 4 0 = 1) ∧ arr.getD 5 0 < names.length
      ∧ 0 ∈ names.drop (arr.getD 5 0) := by
  obtain ⟨a, b, c, d, x, y, rfl⟩ : ∃ a b c d x y, arr = [a, b, c, d, x, y] := by
    match arr, hl with
    | [a, b, c, d, x, y], _ => exact ⟨a, b, c, d, x, y, rfl⟩
  have i4 : idx [a, b, c, d, x, y] 4 = .ok x := rfl
  have i5 : ∀ x' : Nat, idx [a, b, c, d, x', y] 5 = .ok y := fun _ => rfl
  have hs : slice [a, b, c, d, x, y] 0 4 = .ok [a, b, c, d] := rfl
  unfold parseType at h
  rw [hs] at h
  simp only [P.bind_ok] at h
  have hr : read_be_i32 [a, b, c, d] = .ok (asI32 (beNat [a, b, c, d])) := rfl
  rw [hr, i4] at h
  simp only [P.bind_ok] at h
  have key : ∀ (x' : Nat) (bb : Bool),
      (idx [a, b, c, d, x', y] 5 >>= fun char_index =>
        if char_index ≥ names.length then (.err : P Ltt) else
          sliceFrom names char_index >>= fun tail =>
          match nulPos tail with
          | none => .err
          | some position =>
            ckUsz (char_index + position) >>= fun e =>
            slice names char_index e >>= fun name =>
            Ltt.new (asI32 (beNat [a, b, c, d])) bb (if !name.isEmpty then some name else none)) = .ok t →
      t = ⟨asI32 (beNat [a, b, c, d]), bb, nameAt names y⟩ ∧ y < names.length ∧ 0 ∈ names.drop y := by
    intro x' bb h
    rw [i5] at h
    simp only [P.bind_ok] at h
    by_cases hge : y ≥ names.length
    · rw [if_pos hge] at h; cases h
    · rw [if_neg hge] at h
      have hsf : sliceFrom names y = .ok (names.drop y) := by
        simp [sliceFrom]; omega
      rw [hsf] at h
      simp only [P.bind_ok] at h
      cases hnp : nulPos (names.drop y) with
      | none => rw [hnp] at h; cases h
      | some pos =>
        have hmem := nulPos_some_mem _ _ hnp
        rw [nulPos_takeWhile _ hmem] at h
        simp only at h
        have hpos : ((names.drop y).takeWhile (fun c => c != 0)).length ≤ names.length - y := by
          have := takeWhile_len_le (fun c => c != 0) (names.drop y)
          simpa using this
        have e2 : y + ((names.drop y).takeWhile (fun c => c != 0)).length - y
            = ((names.drop y).takeWhile (fun c => c != 0)).length := by omega
        rw [ckUsz_ok (by omega)] at h
        simp only [P.bind_ok] at h
        rw [slice_ok _ _ _ (by omega) (by omega)] at h
        simp only [P.bind_ok] at h
        rw [e2, take_takeWhile_len] at h
        obtain ⟨ht, -, -⟩ := post_spec (post_ltt_new _ _ _) h
        refine ⟨?_, by omega, hmem⟩
        rw [ht]
        unfold nameAt
        simp only
        cases hemp : ((names.drop y).takeWhile (fun c => c != 0)).isEmpty <;> simp
  match x, h with
  | 0, h =>
    obtain ⟨h1, h2, h3⟩ := key 0 false h
    exact ⟨by rw [h1]; simp [decTypeRec], Or.inl rfl, h2, h3⟩
  | 1, h =>
    obtain ⟨h1, h2, h3⟩ := key 1 true h
    exact ⟨by rw [h1]; simp [decTypeRec], Or.inr rfl, h2, h3⟩
  | n + 2, h => simp at h

theorem parseTypes_val (names : List Nat) (L : List (List Nat)) (res : List Ltt)
    (hn : names.length < 4294967296) (hl : ∀ x ∈ L, x.length = 6)
    (h : parseTypes names.length names L = .ok res) :
    res = L.map (decTypeRec names)
      ∧ ∀ x ∈ L, (x.getD 4 0 = 0 ∨ x.getD 4 0 = 1) ∧ x.getD 5 0 < names.length
          ∧ 0 ∈ names.drop (x.getD 5 0) := by
  induction L generalizing res with
  | nil => simp only [parseTypes, P.ok.injEq] at h; rw [← h]; exact ⟨rfl, by simp⟩
  | cons x rest ih =>
    simp only [parseTypes] at h
    obtain ⟨t, hx, h⟩ := bind_eq_ok h
    obtain ⟨r', hr', h⟩ := bind_eq_ok h
    simp only [P.ok.injEq] at h
    obtain ⟨e1, s1⟩ := parseType_val names x t (hl x (by simp)) hn hx
    obtain ⟨e2, s2⟩ := ih r' (fun y hy => hl y (List.mem_cons_of_mem _ hy)) hr'
    refine ⟨by rw [← h, e1, e2]; rfl, ?_⟩
    intro y hy
    rcases List.mem_cons.mp hy with rfl | hy
    · exact s1
    · exact s2 y hy

/-! ### the zone of an accepted file -/
/-- `st` is the state `State.new` slices from a block starting at the start of `blk` -/
def Sliced (st : State) (blk : List Nat) (ts : Nat) : Prop :=
  st.time_size = ts
    ∧ versionOf ((blk.drop 4).take 1) = some st.header.version
    ∧ st.header.transition_count = hdrCount blk 3 ∧ st.header.type_count = hdrCount blk 4
    ∧ st.header.leap_count = hdrCount blk 2 ∧ st.header.char_count = hdrCount blk 5
    ∧ st.transition_times = timesArr ts blk
    ∧ st.transition_types = idxArr ts blk
    ∧ st.local_time_types = typesArr ts blk
    ∧ st.names = namesArr ts blk
    ∧ st.leap_seconds = leapsArr ts blk
    ∧ st.transition_times.length = hdrCount blk 3 * ts
    ∧ st.transition_types.length = hdrCount blk 3
    ∧ st.local_time_types.length = hdrCount blk 4 * 6
    ∧ st.names.length = hdrCount blk 5
    ∧ st.leap_seconds.length = hdrCount blk 2 * (ts + 4)

theorem sliced_of_state {c : Cursor} {first : Bool} {st : State} {c' : Cursor}
    (h : State.new c first = .ok (st, c')) : Sliced st c (if first then 4 else 8) :=
  post_spec (post_state_fields c first) h

theorem parseRest_val {st : State} {fo : Option (List Nat)} {z : Zone} {blk : List Nat} {ts : Nat}
    (hts : ts = 4 ∨ ts = 8) (hs : Sliced st blk ts) (h : parseRest st fo = .ok z) :
    z = decodeBlock ts st.header.version blk z.rule ∧ TypeRecsOk ts blk := by
  obtain ⟨s0, -, q3, q4, q2, q5, f1, f2, f3, f4, f5, l1, l2, l3, l4, l5⟩ := hs
  have k : TYPE_RECORD = 6 := rfl
  have hts0 : 0 < ts := by omega
  unfold parseRest at h
  obtain ⟨tr, htr, h⟩ := bind_eq_ok h
  obtain ⟨ty, hty, h⟩ := bind_eq_ok h
  obtain ⟨lp, hlp, h⟩ := bind_eq_ok h
  split at h
  · cases h
  · obtain ⟨r, hr, h⟩ := bind_eq_ok h
    unfold Zone.new at h
    obtain ⟨u, _, h⟩ := bind_eq_ok h
    simp only [P.ok.injEq] at h
    subst h
    dsimp only
    -- transitions
    rw [s0, chunks_exact_eq (hdrCount blk 3) ts _ hts0 l1, zip_range _ _ _ (by omega)] at htr
    have e1 := parseTransitions_val ts st.header.version _ tr (by
      intro x hx
      simp only [List.mem_map, List.mem_range] at hx
      obtain ⟨i, hi, rfl⟩ := hx
      exact record_len _ _ _ _ l1 hi) htr
    -- types
    rw [q5, ← l4, k, chunks_exact_eq (hdrCount blk 4) 6 _ (by omega) l3] at hty
    obtain ⟨e2, sd⟩ := parseTypes_val st.names _ ty (by rw [l4]; exact hdrCount_lt blk 5) (by
      intro x hx
      simp only [List.mem_map, List.mem_range] at hx
      obtain ⟨i, hi, rfl⟩ := hx
      exact record_len _ _ _ _ l3 hi) hty
    -- leap records
    rw [s0, chunks_exact_eq (hdrCount blk 2) (ts + 4) _ (by omega) l5] at hlp
    have e3 := parseLeaps_val ts st.header.version _ lp (by omega) (by
      intro x hx
      simp only [List.mem_map, List.mem_range] at hx
      obtain ⟨i, hi, rfl⟩ := hx
      exact record_len _ _ _ _ l5 hi) hlp
    refine ⟨?_, ?_⟩
    · unfold decodeBlock
      rw [e1, e2, e3, List.map_map, List.map_map, List.map_map, f1, f2, f3, f4, f5]
      rfl
    · intro i hi
      have := sd (record st.local_time_types 6 i) (by
        simp only [List.mem_map, List.mem_range]
        exact ⟨i, hi, rfl⟩)
      have hlen : (namesArr ts blk).length = hdrCount blk 5 := by rw [← f4]; exact l4
      rw [f3, f4, hlen] at this
      exact this

theorem accepted_decode' (bytes : List Nat) (z : Zone) (h : parse bytes = .ok z) :
    (firstVersion bytes = some .V1 → z = decodeBlock 4 .V1 bytes none ∧ TypeRecsOk 4 bytes)
      ∧ (firstVersion bytes ≠ some .V1 → ∃ v2, secondVersion bytes = some v2
          ∧ firstVersion bytes = some v2
          ∧ z = decodeBlock 8 v2 (bytes.drop (announcedLen 4 bytes)) z.rule
          ∧ TypeRecsOk 8 (bytes.drop (announcedLen 4 bytes))
          ∧ parseFooter (footerOf bytes) v2 = .ok z.rule) := by
  unfold parse at h
  obtain ⟨⟨st, fo⟩, hb, hrest⟩ := bind_eq_ok h
  have hb0 := hb
  have hrule := parseRest_rule hrest
  unfold parseBlocks at hb
  obtain ⟨⟨st1, c1⟩, hs1, hb⟩ := bind_eq_ok hb
  have sl1 := sliced_of_state hs1
  obtain ⟨e1, -, hv1, -, -, -⟩ := post_spec (post_state_layout bytes true) hs1
  simp only [if_true] at e1 sl1
  dsimp only at e1 hv1 hb
  unfold firstVersion
  cases hver : st1.header.version with
  | V1 =>
    rw [hver] at hb hv1
    dsimp only at hb
    refine ⟨fun _ => ?_, fun hne => absurd hv1 hne⟩
    split at hb
    · simp only [P.ok.injEq, Prod.mk.injEq] at hb
      obtain ⟨rfl, rfl⟩ := hb
      obtain ⟨a, b⟩ := parseRest_val (Or.inl rfl) sl1 hrest
      simp only [parseFooterOpt, P.ok.injEq] at hrule
      rw [hver, ← hrule] at a
      exact ⟨a, b⟩
    · cases hb
  | V2 =>
    rw [hver] at hb hv1
    dsimp only at hb
    obtain ⟨⟨st2, c2⟩, hs2, hb⟩ := bind_eq_ok hb
    obtain ⟨hvv, hb⟩ := ite_err_ok hb
    simp only [Prod.mk.injEq] at hb
    obtain ⟨rfl, rfl⟩ := hb
    have sl2 := sliced_of_state hs2
    simp only [Bool.false_eq_true, if_false] at sl2
    refine ⟨fun hv => (by rw [hv1] at hv; cases hv), fun _ => ?_⟩
    have hfo : footerOf bytes = c2 := by unfold footerOf; rw [hb0]
    obtain ⟨a, b⟩ := parseRest_val (Or.inr rfl) sl2 hrest
    refine ⟨st2.header.version, ?_, ?_, ?_, ?_, ?_⟩
    · unfold secondVersion
      rw [← List.drop_drop, ← e1]
      exact sl2.2.1
    · rw [hv1, Classical.not_not.mp hvv]
    · rw [← e1]; exact a
    · rw [← e1]; exact b
    · rw [hfo]; exact hrule
  | V3 =>
    rw [hver] at hb hv1
    dsimp only at hb
    obtain ⟨⟨st2, c2⟩, hs2, hb⟩ := bind_eq_ok hb
    obtain ⟨hvv, hb⟩ := ite_err_ok hb
    simp only [Prod.mk.injEq] at hb
    obtain ⟨rfl, rfl⟩ := hb
    have sl2 := sliced_of_state hs2
    simp only [Bool.false_eq_true, if_false] at sl2
    refine ⟨fun hv => (by rw [hv1] at hv; cases hv), fun _ => ?_⟩
    have hfo : footerOf bytes = c2 := by unfold footerOf; rw [hb0]
    obtain ⟨a, b⟩ := parseRest_val (Or.inr rfl) sl2 hrest
    refine ⟨st2.header.version, ?_, ?_, ?_, ?_, ?_⟩
    · unfold secondVersion
      rw [← List.drop_drop, ← e1]
      exact sl2.2.1
    · rw [hv1, Classical.not_not.mp hvv]
    · rw [← e1]; exact a
    · rw [← e1]; exact b
    · rw [hfo]; exact hrule

/-! ### the cut right after the footer's first newline -/
theorem validate_drop_rule (tr : List Transition) (ty : List Ltt) (lp : List LeapSecond) (r : Option Rule)
    (h : validate ⟨tr, ty, lp, r⟩ = .ok ()) : validate ⟨tr, ty, lp, none⟩ = .ok () := by
  unfold validate at h ⊢
  dsimp only at h ⊢
  split at h
  · cases h
  · rename_i h1
    rw [if_neg h1]
    split at h
    · cases h
    · rename_i h2
      rw [if_neg h2]
      split at h
      · cases h
      · rename_i h3
        rw [if_neg h3]

/-- since the repair of F36: a file cut right after the first newline of its footer is REFUSED
(its footer would be the single byte `"\n"`) -/
theorem trunc_footer_newline' (bytes : List Nat) (z : Zone) (h : parse bytes = .ok z) (k : Nat)
    (hk : k < bytes.length) (he : k + (footerOf bytes).length = bytes.length + 1) :
    parse (bytes.take k) = .err := by
  have hsplit : bytes.take k ++ bytes.drop k = bytes := List.take_append_drop k bytes
  have hql : (bytes.drop k).length = bytes.length - k := by simp
  have hq : bytes.drop k ≠ [] := by
    intro e
    have := congrArg List.length e
    simp at this; omega
  rw [← hsplit] at h
  rcases trunc_cases _ _ z hq h with h1 | ⟨st, c2, hp, hfull⟩
  · exact h1
  · apply err_of_not_ok
    intro z' hz'
    rw [parse_of_blocks hp] at hz'
    obtain ⟨r, hr⟩ := parseRest_ok_footer hz'
    rw [hsplit] at hfull
    have hfo : footerOf bytes = c2 ++ bytes.drop k := by unfold footerOf; rw [hfull]
    have hlen : c2.length = 1 := by
      have := congrArg List.length hfo
      rw [List.length_append, hql] at this
      omega
    rw [footer_short' c2 _ (by omega)] at hr
    cases hr

end Chrono.Proofs.TzDecode
