/-
  C15: result invariants of the date / time / date-time operations ("never builds an invalid value"),
  stated on any value satisfying the representation invariant.  Collected from C01, C03, C07, C08.
  Namespace `Chrono.Proofs.C15Arith`.
-/
import Chrono.Props.C01
import Chrono.Props.C03
import Chrono.Props.C06
import Chrono.Props.C07
import Chrono.Props.C08
import Chrono.Proofs.ParsedDateL
import Chrono.Proofs.TimestampL

namespace Chrono.Proofs.C15Arith
open Chrono Chrono.M Chrono.Spec Chrono.Proofs Chrono.Extracted Chrono.Proofs.Ts

/-- a `Res (Option α)` result: returned normally, and what it holds satisfies `P` -/
def OkAnd {α} (r : Res (Option α)) (P : α → Prop) : Prop := ∃ o, r = .ok o ∧ ∀ x, o = some x → P x

theorem okAnd_of {α} {r : Res (Option α)} {P : α → Prop} (o : Option α) (h : r = .ok o)
    (hp : ∀ x, o = some x → P x) : OkAnd r P := ⟨o, h, hp⟩

theorem ymdDate_inv (y : Int) (m d : Nat) (x : Date) (h : ymdDate? y m d = some x) : DateInv x := by
  unfold ymdDate? at h
  split at h
  · rename_i hc
    injection h with h; subst h
    obtain ⟨o1, o2⟩ := ParsedRes.ordinal_bounds y m d hc.2.2
    exact (dateInv_of_yo y _ ⟨hc.1, hc.2.1⟩ ⟨o1, o2⟩).1
  · cases h

theorem yoDate_inv (y : Int) (o : Nat) (x : Date) (h : yoDate? y o = some x) : DateInv x := by
  unfold yoDate? at h
  split at h
  · rename_i hc
    injection h with h; subst h
    exact (dateInv_of_yo y o ⟨hc.1, hc.2.1⟩ hc.2.2).1
  · cases h

theorem addMonths_inv (y : Int) (m d : Nat) (n : Int) (x : Date) (h : addMonths? y m d n = some x) : DateInv x :=
  ymdDate_inv _ _ _ x h

theorem repr_inv (x : Date) (h : ∃ y o, x = dateOfYo y o ∧ MIN_YEAR ≤ y ∧ y ≤ MAX_YEAR ∧ 1 ≤ o ∧ o ≤ yearLen y) :
    DateInv x := by
  obtain ⟨y, o, he, h1, h2, h3, h4⟩ := h
  rw [he]; exact (dateInv_of_yo y o ⟨h1, h2⟩ ⟨h3, h4⟩).1

/-! ### `NaiveDate` -/

theorem from_days (n : Int) (hn : -2147483648 ≤ n ∧ n ≤ 2147483647) :
    OkAnd (Date.from_num_days_from_ce_opt n) DateInv := by
  obtain ⟨r, h, hv, _⟩ := Chrono.Props.C01.ctor_days n hn
  refine ⟨r, h, fun x hx => ?_⟩
  obtain ⟨y, o, he, a, b, c, d, _⟩ := hv x hx
  exact repr_inv x ⟨y, o, he, a, b, c, d⟩

theorem from_isoywd (y : Int) (w : Nat) (wd : Weekday) : OkAnd (Date.from_isoywd_opt y w wd) DateInv := by
  obtain ⟨r, h, hv, _⟩ := Chrono.Props.C01.ctor_isoywd y w wd
  refine ⟨r, h, fun x hx => ?_⟩
  obtain ⟨Y, o, he, a, b, c, d, _⟩ := hv x hx
  exact repr_inv x ⟨Y, o, he, a, b, c, d⟩

/-- every date-level operation on a date of the range -/
theorem date_ops (d : Date) (hd : DateInv d) (n v : Nat) (y' k : Int) (δ : Delta) (c : Int)
    (hk : -2147483648 ≤ k ∧ k ≤ 2147483647) (hδ : DInv δ) (hc : 0 ≤ c ∧ c ≤ 18446744073709551615) :
    OkAnd d.succ_opt DateInv ∧ OkAnd d.pred_opt DateInv ∧
    OkAnd (d.checked_add_months n) DateInv ∧ OkAnd (d.checked_sub_months n) DateInv ∧
    OkAnd (d.diff_months k) DateInv ∧
    OkAnd (d.with_year y') DateInv ∧ OkAnd (d.with_month v) DateInv ∧ OkAnd (d.with_month0 v) DateInv ∧
    OkAnd (d.with_day v) DateInv ∧ OkAnd (d.with_day0 v) DateInv ∧ OkAnd (d.with_ordinal v) DateInv ∧
    OkAnd (d.with_ordinal0 v) DateInv ∧
    OkAnd (Date.add_days d k) DateInv ∧ OkAnd (Date.checked_add_days d c) DateInv ∧
    OkAnd (Date.checked_sub_days d c) DateInv ∧ OkAnd (Date.checked_add_signed d δ) DateInv ∧
    OkAnd (Date.checked_sub_signed d δ) DateInv := by
  obtain ⟨r13, e13, _, v13⟩ := Chrono.Props.C03.add_days_exact d k hd hk
  obtain ⟨⟨r14, e14, _, v14⟩, ⟨r15, e15, _, v15⟩⟩ := Chrono.Props.C03.checked_days_exact d c hd hc
  obtain ⟨⟨r16, e16, _, v16⟩, ⟨r17, e17, _, v17⟩⟩ := Chrono.Props.C03.date_plus_delta d δ hd hδ
  obtain ⟨o, he, _, hy1, hy2, ho1, ho2⟩ := dateInv_repr d hd
  generalize d.year = y at *
  subst he
  have hy : MIN_YEAR ≤ y ∧ y ≤ MAX_YEAR := ⟨hy1, hy2⟩
  have ho : 1 ≤ o ∧ o ≤ yearLen y := ⟨ho1, ho2⟩
  obtain ⟨r1, e1, _, v1⟩ := Chrono.Props.C01.succ_ok y o hy ho
  obtain ⟨r2, e2, _, v2⟩ := Chrono.Props.C01.pred_ok y o hy ho
  obtain ⟨m1, m2⟩ := Chrono.Props.C08.months_spec y o hy ho n
  have m3 := diff_months_spec y o hy ho k
  obtain ⟨w1, w2, w3, w4, w5, w6, w7⟩ := Chrono.Props.C08.with_field_spec y o hy ho v y'
  refine ⟨⟨r1, e1, fun x hx => ?_⟩, ⟨r2, e2, fun x hx => ?_⟩,
    ⟨_, m1, addMonths_inv _ _ _ _⟩, ⟨_, m2, addMonths_inv _ _ _ _⟩, ⟨_, m3, addMonths_inv _ _ _ _⟩,
    ⟨_, w1, ymdDate_inv _ _ _⟩, ⟨_, w2, ymdDate_inv _ _ _⟩, ⟨_, w3, ymdDate_inv _ _ _⟩,
    ⟨_, w4, ymdDate_inv _ _ _⟩, ⟨_, w5, ymdDate_inv _ _ _⟩, ⟨_, w6, yoDate_inv _ _⟩, ⟨_, w7, yoDate_inv _ _⟩,
    ⟨r13, e13, fun x hx => (v13 x hx).1⟩, ⟨r14, e14, fun x hx => (v14 x hx).1⟩,
    ⟨r15, e15, fun x hx => (v15 x hx).1⟩, ⟨r16, e16, fun x hx => (v16 x hx).1⟩,
    ⟨r17, e17, fun x hx => (v17 x hx).1⟩⟩
  · obtain ⟨y', o', he, a, b, c, d, _⟩ := v1 x hx
    exact repr_inv x ⟨y', o', he, a, b, c, d⟩
  · obtain ⟨y', o', he, a, b, c, d, _⟩ := v2 x hx
    exact repr_inv x ⟨y', o', he, a, b, c, d⟩

/-! ### `NaiveTime` -/

theorem ofFields_valid_of_ok (h m s n : Int) (h0 : 0 ≤ h) (m0 : 0 ≤ m) (s0 : 0 ≤ s) (n0 : 0 ≤ n)
    (hok : okFields h m s n) : TValid (ofFields h m s n) :=
  (Chrono.Props.C07.ctor_reads_back h m s n h0 m0 s0 n0 hok).1.1

/-- the `u32`-argument constructors: whatever they accept is a valid time (the models are
`Option`-valued: they contain no operation that could panic; the `u32` multiplications are `checked_mul`) -/
theorem time_ctors (h m s n : Int) (h0 : 0 ≤ h) (m0 : 0 ≤ m) (s0 : 0 ≤ s) (n0 : 0 ≤ n) (t : Time) :
    (Time.from_hms_opt h m s = some t → TValid t) ∧
    (Time.from_hms_milli_opt h m s n = some t → TValid t) ∧
    (Time.from_hms_micro_opt h m s n = some t → TValid t) ∧
    (Time.from_hms_nano_opt h m s n = some t → TValid t) ∧
    (Time.from_num_seconds_from_midnight_opt s n = some t → TValid t) := by
  refine ⟨?_, ?_, ?_, ?_, ?_⟩
  · intro ht
    rw [Chrono.Props.C07.valid_iff_hms] at ht
    split at ht
    · rename_i hc; injection ht with ht; subst ht
      exact ofFields_valid_of_ok h m s 0 h0 m0 s0 (by omega) ⟨hc.1, hc.2.1, hc.2.2, Or.inl (by omega)⟩
    · cases ht
  · intro ht
    rw [Chrono.Props.C07.valid_iff_hms_milli h m s n n0] at ht
    split at ht
    · rename_i hc; injection ht with ht; subst ht
      exact ofFields_valid_of_ok h m s _ h0 m0 s0 (by omega)
        ⟨hc.1, hc.2.1, hc.2.2.1, by rcases hc.2.2.2 with h | h; exact Or.inl (by omega); exact Or.inr ⟨h.1, by omega⟩⟩
    · cases ht
  · intro ht
    rw [Chrono.Props.C07.valid_iff_hms_micro h m s n n0] at ht
    split at ht
    · rename_i hc; injection ht with ht; subst ht
      exact ofFields_valid_of_ok h m s _ h0 m0 s0 (by omega)
        ⟨hc.1, hc.2.1, hc.2.2.1, by rcases hc.2.2.2 with h | h; exact Or.inl (by omega); exact Or.inr ⟨h.1, by omega⟩⟩
    · cases ht
  · intro ht
    rw [Chrono.Props.C07.valid_iff_hms_nano] at ht
    split at ht
    · rename_i hc; injection ht with ht; subst ht
      exact ofFields_valid_of_ok h m s n h0 m0 s0 n0 hc
    · cases ht
  · intro ht
    rw [Chrono.Props.C07.valid_iff_num_seconds] at ht
    split at ht
    · rename_i hc; injection ht with ht; subst ht
      exact ⟨s0, hc.1, n0, by show n < 2000000000; rcases hc.2 with h | h <;> omega⟩
    · cases ht

/-- arithmetic and single-field replacement on every valid time (leap representations included) -/
theorem time_ops (t u : Time) (d : Delta) (v : Int) (ht : TValid t) (hu : TValid u) (hd : DInv d) (hv : 0 ≤ v) :
    (∃ r, Time.overflowing_add_signed t d = .ok r ∧ TValid r.1) ∧
    (∃ r, Time.overflowing_sub_signed t d = .ok r ∧ TValid r.1) ∧
    (∃ r, Time.signed_duration_since t u = .ok r ∧ DInv r) ∧
    (∀ x, t.with_hour v = some x → TValid x) ∧ (∀ x, t.with_minute v = some x → TValid x) ∧
    (∀ x, t.with_second v = some x → TValid x) ∧ (∀ x, t.with_nanosecond v = some x → TValid x) := by
  obtain ⟨d1, d2, _⟩ := Chrono.Props.C07.diff_spec t u ht hu
  obtain ⟨w1, w2, w3, w4⟩ := Chrono.Props.C07.with_field t v ht hv
  have hf := ht
  obtain ⟨t1, t2, t3, t4⟩ := ht
  have hh : 0 ≤ hourOf t ∧ hourOf t < 24 := by unfold hourOf; omega
  have hm : 0 ≤ minuteOf t ∧ minuteOf t < 60 := by unfold minuteOf; omega
  have hs : 0 ≤ secondOf t ∧ secondOf t < 60 := by unfold secondOf; omega
  refine ⟨⟨_, Chrono.Props.C07.add_spec t d hf hd, (Chrono.Props.C07.add_result t _ hf).1⟩,
    ⟨_, (Chrono.Props.C07.sub_is_add_neg t d hf hd).2, (Chrono.Props.C07.add_result t _ hf).1⟩,
    ⟨_, d1, d2⟩, ?_, ?_, ?_, ?_⟩
  · intro x hx; rw [w1] at hx; split at hx
    · injection hx with hx; subst hx
      exact (Chrono.Props.C07.with_field_reads_back _ _ _ _ ⟨hv, by assumption⟩ hm hs ⟨t3, t4⟩).1
    · cases hx
  · intro x hx; rw [w2] at hx; split at hx
    · injection hx with hx; subst hx
      exact (Chrono.Props.C07.with_field_reads_back _ _ _ _ hh ⟨hv, by assumption⟩ hs ⟨t3, t4⟩).1
    · cases hx
  · intro x hx; rw [w3] at hx; split at hx
    · injection hx with hx; subst hx
      exact (Chrono.Props.C07.with_field_reads_back _ _ _ _ hh hm ⟨hv, by assumption⟩ ⟨t3, t4⟩).1
    · cases hx
  · intro x hx; rw [w4] at hx; split at hx
    · injection hx with hx; subst hx
      exact (Chrono.Props.C07.with_field_reads_back _ _ _ _ hh hm hs ⟨hv, by assumption⟩).1
    · cases hx

/-! ### `NaiveDateTime` -/

/-- `checked_add_signed` / `checked_sub_signed` on EVERY valid date-time, leap-second representations
included -/
theorem datetime_arith (dt : NaiveDT) (δ : Delta) (hdt : NDTInv dt) (hδ : DInv δ) :
    OkAnd (NaiveDT.checked_add_signed dt δ) NDTInv ∧ OkAnd (NaiveDT.checked_sub_signed dt δ) NDTInv := by
  obtain ⟨⟨r1, e1, s1, t1⟩, ⟨r2, e2, s2, t2⟩⟩ := Chrono.Props.C03.add_with_leap_operand dt δ hdt hδ
  refine ⟨⟨r1, e1, fun x hx => ?_⟩, ⟨r2, e2, fun x hx => ?_⟩⟩
  · refine ⟨(s1.2 x.date (by rw [hx]; rfl)).1, ?_⟩
    rw [t1 x hx]; exact (Chrono.Props.C07.add_result dt.time _ hdt.2).1
  · refine ⟨(s2.2 x.date (by rw [hx]; rfl)).1, ?_⟩
    rw [t2 x hx]; exact (Chrono.Props.C07.add_result dt.time _ hdt.2).1

/-! ### `TimeDelta` constructors -/

theorem ofNs_inv (n : Int) (x : Delta) (h : (if nsInRange n then some (ofNs n) else none) = some x) : DInv x := by
  split at h
  · rename_i hc; injection h with h; subst h; exact (Chrono.Props.C06.ofNs_spec n hc).1
  · cases h

/-- `new`, `try_weeks/days/hours/minutes/seconds`, `try_milliseconds`, `microseconds`, `nanoseconds` on
every `i64` (`u32` nanosecond field for `new`): whatever is returned is inside the range -/
theorem delta_ctors (secs nanos n unit : Int) (hn0 : 0 ≤ nanos)
    (hu : unit = 1 ∨ unit = 60 ∨ unit = 3600 ∨ unit = 86400 ∨ unit = 604800)
    (hn : -9223372036854775808 ≤ n ∧ n ≤ 9223372036854775807) (x : Delta) :
    (Delta.new secs nanos = some x → DInv x) ∧ (Delta.try_unit unit n = some x → DInv x) ∧
    (Delta.try_milliseconds n = some x → DInv x) ∧ DInv (Delta.microseconds n) ∧ DInv (Delta.nanoseconds n) := by
  obtain ⟨_, m2, _, m4⟩ := Chrono.Props.C06.micro_nano_exact n hn
  refine ⟨?_, ?_, ?_, m2, m4⟩
  · intro h
    rw [Chrono.Props.C06.new_iff secs nanos hn0] at h
    split at h
    · rename_i hc; injection h with h; subst h; exact ⟨hn0, hc.1, hc.2⟩
    · cases h
  · intro h; rw [Chrono.Props.C06.try_unit_exact unit n hu hn] at h; exact ofNs_inv _ x h
  · intro h; rw [Chrono.Props.C06.try_milliseconds_exact n hn] at h; exact ofNs_inv _ x h

end Chrono.Proofs.C15Arith
