/- Helper lemmas for C19 (no property statements here). -/
import Chrono.Spec.WeekdaySpec

namespace Chrono.Proofs
open Chrono Chrono.M Chrono.Spec

theorem weekday_all_complete (d : Weekday) : d ∈ Weekday.all := by cases d <;> decide
theorem month_all_complete (m : Month) : m ∈ Month.all := by cases m <;> decide

theorem or32_eq_iff_lower (b c : Nat) (hc : 97 ≤ c ∧ c ≤ 122) : or32 b = c ↔ lowerB b = c := by
  unfold or32 lowerB
  split <;> split <;> omega

theorem lowerB_lower (c : Nat) (hc : 97 ≤ c ∧ c ≤ 122) : lowerB c = c := by
  unfold lowerB; split <;> omega

theorem lowerB_idem (b : Nat) : lowerB (lowerB b) = lowerB b := by
  unfold lowerB; split <;> (try split) <;> omega

theorem lowerS_idem (s : List Nat) : lowerS (lowerS s) = lowerS s := by
  unfold lowerS; simp [List.map_map, Function.comp_def, lowerB_idem]

theorem lowerS_of_lower (s : List Nat) (h : allLowerAlpha s = true) : lowerS s = s := by
  induction s with
  | nil => rfl
  | cons c cs ih =>
    simp only [allLowerAlpha, List.all_cons, Bool.and_eq_true, decide_eq_true_eq] at h
    have h2 : allLowerAlpha cs = true := h.2
    simp only [lowerS, List.map_cons, List.cons.injEq]
    exact ⟨lowerB_lower c h.1, ih h2⟩

/-- `findIdx` on a duplicate-free table finds exactly the position of the key -/
theorem findIdx_some_iff (tbl : List (List Nat)) (hnd : tbl.Nodup) (key : List Nat) (i : Nat) :
    findIdx tbl key = some i ↔ tbl[i]? = some key := by
  unfold findIdx
  constructor
  · intro h
    by_cases hlt : List.findIdx (· == key) tbl < tbl.length
    · simp only [hlt, if_true, Option.some.injEq] at h
      subst h
      have := (List.findIdx_eq (p := (· == key)) hlt).mp rfl
      have h1 := this.1
      simp only [beq_iff_eq] at h1
      rw [List.getElem?_eq_getElem hlt, h1]
    · simp [hlt] at h
  · intro h
    have hlt : i < tbl.length := by
      rcases Nat.lt_or_ge i tbl.length with h' | h'
      · exact h'
      · rw [List.getElem?_eq_none h'] at h; cases h
    rw [List.getElem?_eq_getElem hlt] at h
    simp only [Option.some.injEq] at h
    have hidx : List.findIdx (· == key) tbl = i := by
      rw [List.findIdx_eq hlt]
      refine ⟨by simp [h], ?_⟩
      intro j hji
      have hjl : j < tbl.length := Nat.lt_trans hji hlt
      have hne : tbl[j] ≠ tbl[i] := by
        intro heq
        have : j = i := (List.getElem_inj hnd).mp heq
        omega
      simp only [beq_eq_false_iff_ne, ne_eq]
      rw [← h]; exact hne
    rw [hidx]; simp [hlt]

theorem eatSuffix_nil_iff (rest suf : List Nat) :
    eatSuffix rest suf = [] ↔ rest = [] ∨ lowerS rest = lowerS suf := by
  unfold eatSuffix
  split
  · rename_i h
    obtain ⟨hlen, htake⟩ := h
    constructor
    · intro hd
      right
      have hle : rest.length ≤ suf.length := by
        have := List.drop_eq_nil_iff.mp hd; exact this
      have heq : rest.length = suf.length := Nat.le_antisymm hle hlen
      rw [← heq, List.take_length] at htake
      exact htake
    · intro h
      rcases h with h | h
      · subst h; simp
      · have hl : rest.length = suf.length := by
          have := congrArg List.length h
          simpa [lowerS] using this
        rw [← hl]; simp
  · rename_i h
    constructor
    · intro h'; exact Or.inl h'
    · intro h'
      rcases h' with h' | h'
      · exact h'
      · exfalso
        apply h
        have hl : rest.length = suf.length := by
          have := congrArg List.length h'
          simpa [lowerS] using this
        refine ⟨by omega, ?_⟩
        rw [← hl, List.take_length]; exact h'

end Chrono.Proofs

namespace Chrono.Proofs
open Chrono Chrono.M Chrono.Spec

theorem allLower_mem (t : List Nat) (h : allLowerAlpha t = true) (c : Nat) (hc : c ∈ t) :
    97 ≤ c ∧ c ≤ 122 := by
  unfold allLowerAlpha at h
  have := List.all_eq_true.mp h c hc
  simpa using this

/-- `short_name` succeeds with index `i` exactly when the first three bytes, lower-cased, are the
`i`-th table entry -/
theorem short_name_iff (tbl : List (List Nat)) (hnd : tbl.Nodup)
    (hlow : ∀ t ∈ tbl, allLowerAlpha t = true) (s rest : List Nat) (i : Nat) :
    short_name tbl s = .ok (rest, i) ↔
      ∃ b0 b1 b2, s = b0 :: b1 :: b2 :: rest ∧ tbl[i]? = some [lowerB b0, lowerB b1, lowerB b2] := by
  constructor
  · intro h
    match s, h with
    | b0 :: b1 :: b2 :: rest', h =>
      simp only [short_name] at h
      split at h
      · rename_i j hj
        simp only [Except.ok.injEq, Prod.mk.injEq] at h
        obtain ⟨h1, h2⟩ := h
        subst h1; subst h2
        have hk := (findIdx_some_iff tbl hnd _ _).mp hj
        have hmem : [or32 b0, or32 b1, or32 b2] ∈ tbl := List.mem_of_getElem? hk
        have hl := hlow _ hmem
        have e0 := (or32_eq_iff_lower b0 (or32 b0) (allLower_mem _ hl _ (by simp))).mp rfl
        have e1 := (or32_eq_iff_lower b1 (or32 b1) (allLower_mem _ hl _ (by simp))).mp rfl
        have e2 := (or32_eq_iff_lower b2 (or32 b2) (allLower_mem _ hl _ (by simp))).mp rfl
        exact ⟨b0, b1, b2, rfl, by rw [e0, e1, e2]; exact hk⟩
      · cases h
    | [], h => simp [short_name] at h
    | [_], h => simp [short_name] at h
    | [_, _], h => simp [short_name] at h
  · rintro ⟨b0, b1, b2, hs, hk⟩
    subst hs
    have hmem : [lowerB b0, lowerB b1, lowerB b2] ∈ tbl := List.mem_of_getElem? hk
    have hl := hlow _ hmem
    have e0 := (or32_eq_iff_lower b0 (lowerB b0) (allLower_mem _ hl _ (by simp))).mpr rfl
    have e1 := (or32_eq_iff_lower b1 (lowerB b1) (allLower_mem _ hl _ (by simp))).mpr rfl
    have e2 := (or32_eq_iff_lower b2 (lowerB b2) (allLower_mem _ hl _ (by simp))).mpr rfl
    have hj : findIdx tbl [or32 b0, or32 b1, or32 b2] = some i := by
      rw [e0, e1, e2]; exact (findIdx_some_iff tbl hnd _ _).mpr hk
    simp only [short_name, hj]

/-- a byte string whose lower-casing is `t ++ u` with `|t| = 3` splits accordingly -/
theorem lowerS_split3 (s t u : List Nat) (ht : t.length = 3) (h : lowerS s = t ++ u) :
    ∃ b0 b1 b2 rest, s = b0 :: b1 :: b2 :: rest ∧ t = [lowerB b0, lowerB b1, lowerB b2] ∧
      lowerS rest = u := by
  match t, ht with
  | [c0, c1, c2], _ =>
    match s, h with
    | b0 :: b1 :: b2 :: rest, h =>
      simp only [lowerS, List.map_cons, List.cons_append, List.nil_append, List.cons.injEq] at h
      obtain ⟨h0, h1, h2, h3⟩ := h
      exact ⟨b0, b1, b2, rest, rfl, by rw [h0, h1, h2], h3⟩
    | [], h => simp [lowerS] at h
    | [_], h => simp [lowerS] at h
    | [_, _], h => simp [lowerS] at h

/-- the generic "short or long name, nothing left over" characterisation -/
theorem name_nil_iff (tbl : List (List Nat)) (hnd : tbl.Nodup)
    (hlow : ∀ t ∈ tbl, allLowerAlpha t = true ∧ t.length = 3) (suf s : List Nat) (i : Nat) :
    (∃ rest, short_name tbl s = .ok (rest, i) ∧ eatSuffix rest suf = []) ↔
      ∃ t, tbl[i]? = some t ∧ (lowerS s = t ∨ lowerS s = t ++ lowerS suf) := by
  have hlow' : ∀ t ∈ tbl, allLowerAlpha t = true := fun t ht => (hlow t ht).1
  constructor
  · rintro ⟨rest, h1, h2⟩
    obtain ⟨b0, b1, b2, hs, hk⟩ := (short_name_iff tbl hnd hlow' s rest i).mp h1
    refine ⟨_, hk, ?_⟩
    subst hs
    rcases (eatSuffix_nil_iff rest suf).mp h2 with h | h
    · left; subst h; simp [lowerS]
    · right; simp only [lowerS, List.map_cons, List.cons_append, List.nil_append] at h ⊢
      rw [h]
  · rintro ⟨t, hk, h⟩
    have htl : t.length = 3 := (hlow t (List.mem_of_getElem? hk)).2
    have h' : ∃ u, lowerS s = t ++ u ∧ (u = [] ∨ u = lowerS suf) := by
      rcases h with h | h
      · exact ⟨[], by simpa using h, Or.inl rfl⟩
      · exact ⟨_, h, Or.inr rfl⟩
    obtain ⟨u, hu, hu'⟩ := h'
    obtain ⟨b0, b1, b2, rest, hs, ht, hr⟩ := lowerS_split3 s t u htl hu
    refine ⟨rest, (short_name_iff tbl hnd hlow' s rest i).mpr ⟨b0, b1, b2, hs, by rw [← ht]; exact hk⟩, ?_⟩
    apply (eatSuffix_nil_iff rest suf).mpr
    rcases hu' with e | e
    · left
      rw [e] at hr
      cases rest with
      | nil => rfl
      | cons a as => simp [lowerS] at hr
    · right; rw [hr, e]

end Chrono.Proofs

namespace Chrono.Proofs
open Chrono Chrono.M Chrono.Spec

theorem Weekday.parse_eq (s : List Nat) :
    Weekday.parse s =
      match short_name Extracted.SHORT_WEEKDAYS s with
      | .ok (rest, i) =>
        match weekdayOfIdx i with
        | some w => if eatSuffix rest (Extracted.LONG_WEEKDAY_SUFFIXES.getD w.num_days_from_monday []) = [] then some w else none
        | none => none
      | .error _ => none := by
  unfold Weekday.parse short_or_long_weekday short_weekday
  cases short_name Extracted.SHORT_WEEKDAYS s with
  | error e => rfl
  | ok p =>
    obtain ⟨rest, i⟩ := p
    simp only
    cases weekdayOfIdx i with
    | none => rfl
    | some w =>
      simp only
      cases eatSuffix rest (Extracted.LONG_WEEKDAY_SUFFIXES.getD w.num_days_from_monday []) with
      | nil => simp
      | cons a as => simp

theorem Month.parse_eq (s : List Nat) :
    Month.parse s =
      match short_name Extracted.SHORT_MONTHS s with
      | .ok (rest, i) =>
        if eatSuffix rest (Extracted.LONG_MONTH_SUFFIXES.getD i []) = [] then Month.ofIndex0 i else none
      | .error _ => none := by
  unfold Month.parse short_or_long_month0 short_month0
  cases short_name Extracted.SHORT_MONTHS s with
  | error e => rfl
  | ok p =>
    obtain ⟨rest, i⟩ := p
    simp only
    cases eatSuffix rest (Extracted.LONG_MONTH_SUFFIXES.getD i []) with
    | nil => simp
    | cons a as => simp

theorem weekdayOfIdx_iff (i : Nat) (w : Weekday) : weekdayOfIdx i = some w ↔ i = w.toNat := by
  unfold weekdayOfIdx Weekday.all
  constructor
  · intro h
    match i, h with
    | 0, h | 1, h | 2, h | 3, h | 4, h | 5, h | 6, h => simp at h; subst h; rfl
    | n + 7, h => simp at h
  · intro h; subst h; cases w <;> rfl

theorem monthOfIndex0_iff (i : Nat) (m : Month) : Month.ofIndex0 i = some m ↔ i = m.toNat := by
  unfold Month.ofIndex0
  constructor
  · intro h
    split at h <;> first | (cases h; rfl) | cases h
  · intro h; subst h; cases m <;> rfl

end Chrono.Proofs
