/-
  Helper lemmas for C04, part 2: the date-level operations that `DateTime`'s field replacement and
  day / month stepping hand the wall-clock date to, on the calendar extended by one year at each end
  (C08 / C03 prove them for dates of the range; the wall clock of a value at a range end can be
  `BEFORE_MIN` / `AFTER_MAX`).
-/
import Chrono.Proofs.ZonedL
import Chrono.Proofs.DateOpsL
import Chrono.Proofs.DateArithL

namespace Chrono.Proofs.ZN
open Chrono Chrono.M Chrono.Spec Chrono.Proofs Chrono.Extracted Chrono.Extracted.DateOps

/-! ### field replacement, any year -/

/-- the date (y, m, d) if it exists — no range check on the year (`with_mdf` / `with_ordinal` go
through `from_yof`, which does not look at the year) -/
def ymdAny? (y : Int) (m d : Nat) : Option Date :=
  if validYmd y m d = true then some (dateOfYo y (ordinalOf y m d)) else none
def yoAny? (y : Int) (o : Nat) : Option Date :=
  if 1 ≤ o ∧ o ≤ yearLen y then some (dateOfYo y o) else none

theorem with_month_any (y : Int) (o : Nat) (ho : 1 ≤ o ∧ o ≤ yearLen y) (m' : Nat) :
    (dateOfYo y o).with_month m' = .ok (ymdAny? y m' (dayOfYo y o)) := by
  have hyl := yearLen_ge y
  obtain ⟨hmdf, hm12, hd31⟩ := mdf_spec y o ho.1 ho.2
  obtain ⟨hf16, _, _, _⟩ := flagsOf_facts y
  unfold ymdAny? Date.with_month
  rw [hmdf]
  dsimp only
  unfold Mdf.with_month
  by_cases hgt : m' > 12
  · rw [if_pos hgt]
    dsimp only
    congr 1; symm; apply ite_neg'
    intro h; have := valid_bounds y _ _ h; omega
  · rw [if_neg hgt]
    dsimp only
    have e : (monthOfYo y o * 512 + dayOfYo y o * 16 + flagsOf y) % 512 + m' * 512
        = m' * 512 + dayOfYo y o * 16 + flagsOf y := by omega
    rw [e]
    exact with_mdf_spec y o m' (dayOfYo y o) (by omega) (by omega) hd31

theorem with_day_any (y : Int) (o : Nat) (ho : 1 ≤ o ∧ o ≤ yearLen y) (d' : Nat) :
    (dateOfYo y o).with_day d' = .ok (ymdAny? y (monthOfYo y o) d') := by
  have hyl := yearLen_ge y
  obtain ⟨hmdf, hm12, hd31⟩ := mdf_spec y o ho.1 ho.2
  obtain ⟨hf16, _, _, _⟩ := flagsOf_facts y
  unfold ymdAny? Date.with_day
  rw [hmdf]
  dsimp only
  unfold Mdf.with_day
  by_cases hgt : d' > 31
  · rw [if_pos hgt]
    dsimp only
    congr 1; symm; apply ite_neg'
    intro h; have := valid_bounds y _ _ h; omega
  · rw [if_neg hgt]
    dsimp only
    have e : (monthOfYo y o * 512 + dayOfYo y o * 16 + flagsOf y)
          - (monthOfYo y o * 512 + dayOfYo y o * 16 + flagsOf y) / 16 % 32 * 16 + d' * 16
        = monthOfYo y o * 512 + d' * 16 + flagsOf y := by omega
    rw [e]
    exact with_mdf_spec y o (monthOfYo y o) d' (by omega) hm12 (by omega)

theorem with_month0_any (y : Int) (o : Nat) (ho : 1 ≤ o ∧ o ≤ yearLen y) (m0 : Nat) :
    (dateOfYo y o).with_month0 m0 = .ok (ymdAny? y (m0 + 1) (dayOfYo y o)) := by
  unfold Date.with_month0
  have hU : U32_MAX = 4294967295 := rfl
  by_cases h : (m0 : Int) + 1 ≤ U32_MAX
  · rw [if_pos h]; exact with_month_any y o ho (m0 + 1)
  · rw [if_neg h]; unfold ymdAny?
    congr 1; symm; apply ite_neg'
    intro hv; have := valid_bounds y _ _ hv; omega

theorem with_day0_any (y : Int) (o : Nat) (ho : 1 ≤ o ∧ o ≤ yearLen y) (d0 : Nat) :
    (dateOfYo y o).with_day0 d0 = .ok (ymdAny? y (monthOfYo y o) (d0 + 1)) := by
  unfold Date.with_day0
  have hU : U32_MAX = 4294967295 := rfl
  by_cases h : (d0 : Int) + 1 ≤ U32_MAX
  · rw [if_pos h]; exact with_day_any y o ho (d0 + 1)
  · rw [if_neg h]; unfold ymdAny?
    congr 1; symm; apply ite_neg'
    intro hv; have := valid_bounds y _ _ hv; omega

theorem with_ordinal_any (y : Int) (o : Nat) (ho : 1 ≤ o ∧ o ≤ yearLen y) (o' : Nat) :
    (dateOfYo y o).with_ordinal o' = .ok (yoAny? y o') := by
  have hyl := yearLen_ge y
  obtain ⟨_, hord, _, _, _, _⟩ := dateOfYo_fields y o (by omega)
  obtain ⟨hf16, hf8, hleap, _⟩ := flagsOf_facts y
  have hD : DATE_MAX_OL = 5856 := rfl
  have hZ : WO_ZERO = 0 := rfl
  have hM : WO_MAX = 366 := rfl
  unfold yoAny? Date.with_ordinal
  by_cases hr : o' = WO_ZERO ∨ o' > WO_MAX
  · rw [if_pos hr]; congr 1; symm; apply ite_neg'; intro h; omega
  · rw [if_neg hr]
    dsimp only
    have hc : (flagsOf y / 8 : Nat) = (if isLeap y then 0 else 1) := hleap
    have hylc : yearLen y = 366 - flagsOf y / 8 := by
      unfold yearLen; rw [hc]; cases isLeap y <;> simp
    have hol : ((dateOfYo y o).yof - (dateOfYo y o).ordinal * 16 + (o' : Int) * 16) / 8 % 1024 * 8
        = ((o' : Int) * 2 + (flagsOf y / 8 : Nat)) * 8 := by
      rw [hord]; unfold dateOfYo; dsimp only; omega
    rw [hol]
    by_cases hle : o' ≤ yearLen y
    · rw [ite_pos' _ _ (by rw [hD]; omega), replace_ordinal y o o' (by omega) (by omega) hle]
      dsimp only
      rw [if_pos ⟨by omega, hle⟩]
    · rw [ite_neg' _ _ (by rw [hD]; omega)]
      congr 1; symm; apply ite_neg'; intro h; exact hle h.2

theorem with_ordinal0_any (y : Int) (o : Nat) (ho : 1 ≤ o ∧ o ≤ yearLen y) (o0 : Nat) :
    (dateOfYo y o).with_ordinal0 o0 = .ok (yoAny? y (o0 + 1)) := by
  unfold Date.with_ordinal0
  have hU : U32_MAX = 4294967295 := rfl
  have hyl := yearLen_ge y
  by_cases h : (o0 : Int) + 1 ≤ U32_MAX
  · rw [if_pos h]; exact with_ordinal_any y o ho (o0 + 1)
  · rw [if_neg h]; unfold yoAny?
    congr 1; symm; apply ite_neg'
    intro hv; omega

/-! ### month stepping on the extended calendar -/

theorem diff_months_ext (y : Int) (o : Nat) (hy : MIN_YEAR - 1 ≤ y ∧ y ≤ MAX_YEAR + 1)
    (ho : 1 ≤ o ∧ o ≤ yearLen y) (n : Int) :
    (dateOfYo y o).diff_months n = .ok (addMonths? y (monthOfYo y o) (dayOfYo y o) n) := by
  have hyl := yearLen_ge y
  have hMIN : MIN_YEAR = -262143 := rfl
  have hMAX : MAX_YEAR = 262142 := rfl
  obtain ⟨hyear, _, _, _, _, _⟩ := dateOfYo_fields y o (by omega)
  obtain ⟨m1, m2, m3, _⟩ := month_day_spec y o ho.1 ho.2
  obtain ⟨hm1, hm12, hd1, hdl⟩ := (valid_iff y _ _).mp m3
  unfold Date.diff_months
  rw [m1, m2, hyear]
  dsimp only
  rw [show DM_MUL = 12 from rfl, show DM_SUB = 1 from rfl, show DM_DIV = 12 from rfl,
    show DM_REM = 12 from rfl, show DM_ADD = 1 from rfl]
  generalize monthOfYo y o = m at *
  generalize dayOfYo y o = d at *
  rw [ckI32_ok (by omega) (by omega)]
  dsimp only
  rw [ckI32_ok (by omega) (by omega)]
  dsimp only
  rw [ckI32_ok (by omega) (by omega)]
  dsimp only
  unfold addMonths? stepDay stepYear stepMonth monthIndex
  generalize hT : y * 12 + (m : Int) - 1 + n = T
  by_cases hov : -2147483648 ≤ T ∧ T ≤ 2147483647
  · have : optI32 T = some T := by
      unfold optI32 inI32 I32_MIN I32_MAX
      simp [hov.1, hov.2]
    rw [this]
    dsimp only
    have hk0 : 0 ≤ T % 12 := Int.emod_nonneg _ (by decide)
    have hk1 : T % 12 < 12 := Int.emod_lt_of_pos _ (by decide)
    generalize hK : (T % 12).toNat = k
    have hk : k < 12 := by omega
    have hlen : DM_DAYS.length = 12 := rfl
    rw [Nat.add_sub_cancel, if_pos (by rw [hlen]; exact hk)]
    rw [from_year_spec, ndays_spec, dm_day_max (T / 12) k hk]
    rw [ite_min, ctor_ymd']
    rfl
  · have : optI32 T = none := by
      unfold optI32 inI32 I32_MIN I32_MAX
      by_cases h1 : -2147483648 ≤ T
      · have h2 : ¬ (T ≤ 2147483647) := fun h => hov ⟨h1, h⟩
        simp [h2]
      · simp [h1]
    rw [this]
    dsimp only
    congr 1; symm
    unfold ymdDate?
    apply ite_neg'
    intro h
    omega

/-- month stepping of a date of the extended calendar: `Months(0)` returns the date itself (also a
headroom date), otherwise C08's `addMonths?` (which validates the target year) -/
theorem months_ext (y : Int) (o : Nat) (hy : MIN_YEAR - 1 ≤ y ∧ y ≤ MAX_YEAR + 1)
    (ho : 1 ≤ o ∧ o ≤ yearLen y) (n : Nat) :
    (dateOfYo y o).checked_add_months n =
      .ok (if n = 0 then some (dateOfYo y o) else addMonths? y (monthOfYo y o) (dayOfYo y o) n) ∧
    (dateOfYo y o).checked_sub_months n =
      .ok (if n = 0 then some (dateOfYo y o) else addMonths? y (monthOfYo y o) (dayOfYo y o) (-(n : Int))) := by
  have hMIN : MIN_YEAR = -262143 := rfl
  have hMAX : MAX_YEAR = 262142 := rfl
  have hI : I32_MAX = 2147483647 := rfl
  obtain ⟨_, _, m3, _⟩ := month_day_spec y o ho.1 ho.2
  obtain ⟨hm1, hm12, hd1, _⟩ := (valid_iff y _ _).mp m3
  unfold Date.checked_add_months Date.checked_sub_months
  by_cases h0 : n = 0
  · rw [if_pos h0, if_pos h0, if_pos h0, if_pos h0]; exact ⟨rfl, rfl⟩
  · rw [if_neg h0, if_neg h0, if_neg h0, if_neg h0]
    by_cases hle : (n : Int) ≤ I32_MAX
    · rw [if_pos hle, if_pos hle]
      exact ⟨diff_months_ext y o hy ho n, diff_months_ext y o hy ho _⟩
    · rw [if_neg hle, if_neg hle]
      constructor
      · congr 1; symm
        rw [addMonths_none_iff _ _ _ _ hd1]
        right; unfold stepYear monthIndex; omega
      · congr 1; symm
        rw [addMonths_none_iff _ _ _ _ hd1]
        left; unfold stepYear monthIndex; omega


/-! ### day stepping from a wall-clock date (a date of the range or one of the two headroom days) -/

theorem cyclePath_shift (d1 d2 : Date) (n1 n2 : Int) (hq : d1.year / 400 = d2.year / 400)
    (hc : ((Date.yo_to_cycle (d1.year % 400).toNat d1.ordinal.toNat : Nat) : Int) + n1
        = ((Date.yo_to_cycle (d2.year % 400).toNat d2.ordinal.toNat : Nat) : Int) + n2) :
    cyclePath d1 n1 = cyclePath d2 n2 := by
  unfold cyclePath
  dsimp only
  rw [hq, hc]

theorem headroom_cycle_consts :
    Date.BEFORE_MIN.year / 400 = Date.MIN.year / 400 ∧
    ((Date.yo_to_cycle (Date.BEFORE_MIN.year % 400).toNat Date.BEFORE_MIN.ordinal.toNat : Nat) : Int) + 1
      = ((Date.yo_to_cycle (Date.MIN.year % 400).toNat Date.MIN.ordinal.toNat : Nat) : Int) ∧
    Date.AFTER_MAX.year / 400 = Date.MAX.year / 400 ∧
    ((Date.yo_to_cycle (Date.AFTER_MAX.year % 400).toNat Date.AFTER_MAX.ordinal.toNat : Nat) : Int)
      = ((Date.yo_to_cycle (Date.MAX.year % 400).toNat Date.MAX.ordinal.toNat : Nat) : Int) + 1 ∧
    (1 ≤ (Date.yo_to_cycle (Date.AFTER_MAX.year % 400).toNat Date.AFTER_MAX.ordinal.toNat : Nat)) ∧
    Date.BEFORE_MIN.ordinal = 366 ∧ Date.BEFORE_MIN.leap_year = true ∧
    Date.AFTER_MAX.ordinal = 1 ∧ Date.AFTER_MAX.leap_year = false ∧
    isLeap (MIN_YEAR - 1) = true ∧ isLeap (MAX_YEAR + 1) = false ∧ yearLen (MAX_YEAR + 1) = 365 := by
  decide +kernel

/-- `d` is a wall-clock date: in range, or one of the two headroom days -/
def HeadOrIn (d : Date) : Prop := DateInv d ∨ d = Date.BEFORE_MIN ∨ d = Date.AFTER_MAX

theorem day_consts : DAY_MIN = -95746129 ∧ DAY_MAX = 95745399 ∧
    dayNumOf Date.BEFORE_MIN = -95746130 ∧ dayNumOf Date.AFTER_MAX = 95745400 ∧
    ¬ DateInv Date.BEFORE_MIN ∧ ¬ DateInv Date.AFTER_MAX ∧
    ExtDateInv Date.BEFORE_MIN ∧ ExtDateInv Date.AFTER_MAX := by decide

/-- `add_days` from the day before MIN, every count in `(-2³¹, 2³¹)` -/
theorem add_days_before_min (k : Int) (hk : -2147483647 ≤ k ∧ k ≤ 2147483647) :
    ∃ r, Date.add_days Date.BEFORE_MIN k = .ok r ∧
      (∀ d', r = some d' → ExtDateInv d' ∧ dayNumOf d' = dayNumOf Date.BEFORE_MIN + k ∧
        (DateInv d' ∨ k ≤ 0)) ∧
      (r = none → ¬ (DAY_MIN ≤ dayNumOf Date.BEFORE_MIN + k ∧ dayNumOf Date.BEFORE_MIN + k ≤ DAY_MAX)) := by
  obtain ⟨q1, c1, _, _, _, o1, l1, _, _, lp, _, _⟩ := headroom_cycle_consts
  obtain ⟨dm, dM, db, _, _, _, eb, _⟩ := day_consts
  obtain ⟨hb, _, hl366, hmin, _⟩ := headroom_consts
  have hMIN : MIN_YEAR = -262143 := rfl
  rw [add_days_eq, o1, l1]
  have hf := fastOrd_spec (MIN_YEAR - 1) 366 k (by omega) (by omega)
  rw [lp] at hf
  rw [hf, hl366]
  by_cases hfast : 1 ≤ (366 : Int) + k ∧ (366 : Int) + k ≤ ((366 : Nat) : Int)
  · rw [if_pos hfast]
    dsimp only
    obtain ⟨o2, ho2⟩ := Int.eq_ofNat_of_zero_le (show 0 ≤ (366 : Int) + k by omega)
    have hro := replace_ordinal (MIN_YEAR - 1) 366 o2 (by omega) (by omega) (by rw [hl366]; omega)
    rw [← hb, o1, ← ho2] at hro
    rw [hro]
    dsimp only
    refine ⟨_, rfl, ?_, ?_⟩
    · intro d' hd'
      have := Option.some.inj hd'
      subst this
      have hext := ext_of_vyo (MIN_YEAR - 1) o2 ⟨by omega, by omega, by omega, by rw [hl366]; omega⟩
      refine ⟨hext, ?_, Or.inr (by omega)⟩
      rw [dayNumOf_yo _ _ (by omega), db]
      have : dayNumYo (MIN_YEAR - 1) ((366 : Nat) : Int) = -95746130 := by decide
      unfold dayNumYo at *
      push_cast at *
      omega
    · intro h; cases h
  · rw [if_neg hfast]
    have hsh := cyclePath_shift Date.BEFORE_MIN Date.MIN k (k - 1) q1 (by omega)
    rw [hsh, hmin]
    obtain ⟨r, h1, h2, h3⟩ := cyclePath_spec MIN_YEAR 1 (k - 1) ⟨by omega, by omega⟩
      ⟨by omega, by have := yearLen_ge MIN_YEAR; omega⟩ (by omega)
    have hd1 : dayNumYo MIN_YEAR ((1 : Nat) : Int) = -95746129 := by decide
    refine ⟨r, h1, ?_, ?_⟩
    · intro d' hd'
      obtain ⟨y', o', e, b1, b2, b3, b4, b5⟩ := h2 d' hd'
      obtain ⟨i1, i2⟩ := inv_of_yo y' o' ⟨b1, b2⟩ ⟨b3, b4⟩
      rw [e]
      refine ⟨((dateInv_iff _).mp i1).1, ?_, Or.inl i1⟩
      rw [i2, b5, db]; omega
    · intro hr
      have := h3.mp hr
      rw [db, dm, dM]; omega

/-- `add_days` from the day after MAX, every `i32` count -/
theorem add_days_after_max (k : Int) (hk : -2147483648 ≤ k ∧ k ≤ 2147483647) :
    ∃ r, Date.add_days Date.AFTER_MAX k = .ok r ∧
      (∀ d', r = some d' → ExtDateInv d' ∧ dayNumOf d' = dayNumOf Date.AFTER_MAX + k ∧
        (DateInv d' ∨ 0 ≤ k)) ∧
      (r = none → ¬ (DAY_MIN ≤ dayNumOf Date.AFTER_MAX + k ∧ dayNumOf Date.AFTER_MAX + k ≤ DAY_MAX)) := by
  obtain ⟨_, _, q2, c2, c3, _, _, o1, l1, _, lp, yl⟩ := headroom_cycle_consts
  obtain ⟨dm, dM, _, da, _, _, _, ea⟩ := day_consts
  obtain ⟨_, ha, _, _, hmax, _⟩ := headroom_consts
  have hMAX : MAX_YEAR = 262142 := rfl
  have hMIN : MIN_YEAR = -262143 := rfl
  rw [add_days_eq, o1, l1]
  have hf := fastOrd_spec (MAX_YEAR + 1) 1 k (by omega) hk
  rw [lp] at hf
  rw [hf, yl]
  by_cases hfast : 1 ≤ (1 : Int) + k ∧ (1 : Int) + k ≤ ((365 : Nat) : Int)
  · rw [if_pos hfast]
    dsimp only
    obtain ⟨o2, ho2⟩ := Int.eq_ofNat_of_zero_le (show 0 ≤ (1 : Int) + k by omega)
    have hro := replace_ordinal (MAX_YEAR + 1) 1 o2 (by omega) (by omega) (by rw [yl]; omega)
    rw [← ha, o1, ← ho2] at hro
    rw [hro]
    dsimp only
    refine ⟨_, rfl, ?_, ?_⟩
    · intro d' hd'
      have := Option.some.inj hd'
      subst this
      have hext := ext_of_vyo (MAX_YEAR + 1) o2 ⟨by omega, by omega, by omega, by rw [yl]; omega⟩
      refine ⟨hext, ?_, Or.inr (by omega)⟩
      rw [dayNumOf_yo _ _ (by omega), da]
      have : dayNumYo (MAX_YEAR + 1) ((1 : Nat) : Int) = 95745400 := by decide
      unfold dayNumYo at *
      push_cast at *
      omega
    · intro h; cases h
  · rw [if_neg hfast]
    by_cases hov : k + 1 ≤ 2147483647
    · have hsh := cyclePath_shift Date.AFTER_MAX Date.MAX k (k + 1) q2 (by omega)
      rw [hsh, hmax]
      have hyl := yearLen_ge MAX_YEAR
      have hlm : yearLen MAX_YEAR = 365 := by decide
      obtain ⟨r, h1, h2, h3⟩ := cyclePath_spec MAX_YEAR 365 (k + 1) ⟨by omega, by omega⟩
        ⟨by omega, by omega⟩ ⟨by omega, hov⟩
      have hd1 : dayNumYo MAX_YEAR ((365 : Nat) : Int) = 95745399 := by decide
      refine ⟨r, h1, ?_, ?_⟩
      · intro d' hd'
        obtain ⟨y', o', e, b1, b2, b3, b4, b5⟩ := h2 d' hd'
        obtain ⟨i1, i2⟩ := inv_of_yo y' o' ⟨b1, b2⟩ ⟨b3, b4⟩
        rw [e]
        refine ⟨((dateInv_iff _).mp i1).1, ?_, Or.inl i1⟩
        rw [i2, b5, da]; omega
      · intro hr
        have := h3.mp hr
        rw [da, dm, dM]; omega
    · have hc : cyclePath Date.AFTER_MAX k = .ok none := by
        unfold cyclePath
        dsimp only
        rw [optI32_none (by omega)]
      refine ⟨none, hc, ?_, ?_⟩
      · intro d' h; cases h
      · intro _; rw [da, dm, dM]; omega


/-- outcome of stepping a wall-clock date `d` by `k` days: a result is a date of the extended
calendar exactly `k` days away — in range, except for the same-year fast path out of a headroom day
away from the range; a refusal means the target day is outside the range -/
def DayStep (d : Date) (k : Int) (r : Option Date) : Prop :=
  (∀ d', r = some d' → ExtDateInv d' ∧ dayNumOf d' = dayNumOf d + k ∧
    (DateInv d' ∨ (d = Date.BEFORE_MIN ∧ k ≤ 0) ∨ (d = Date.AFTER_MAX ∧ 0 ≤ k))) ∧
  (r = none → ¬ (DAY_MIN ≤ dayNumOf d + k ∧ dayNumOf d + k ≤ DAY_MAX))

theorem dayStep_of_shift (d : Date) (k : Int) (r : Option Date) (h : IsDayShift d k r) : DayStep d k r := by
  obtain ⟨c1, c2, _⟩ := dn_consts
  obtain ⟨dm, dM, _⟩ := day_consts
  refine ⟨?_, ?_⟩
  · intro d' hd'
    obtain ⟨a, b⟩ := h.2 d' hd'
    exact ⟨((dateInv_iff _).mp a).1, b, Or.inl a⟩
  · intro hr
    have := h.1.mp hr
    rw [c1, c2] at this; rw [dm, dM]; omega

theorem dayStep_none (d : Date) (k : Int)
    (h : ¬ (DAY_MIN ≤ dayNumOf d + k ∧ dayNumOf d + k ≤ DAY_MAX)) : DayStep d k none :=
  ⟨fun d' h' => (by cases h'), fun _ => h⟩

theorem wall_checked_days (d : Date) (hd : HeadOrIn d) (c : Int) (hc : 0 ≤ c ∧ c ≤ 18446744073709551615) :
    (∃ r, Date.checked_add_days d c = .ok r ∧ DayStep d c r) ∧
    (∃ r, Date.checked_sub_days d c = .ok r ∧ DayStep d (-c) r) := by
  have hI : I32_MAX = 2147483647 := rfl
  obtain ⟨dm, dM, db, da, _⟩ := day_consts
  rcases hd with hd | hd | hd
  · obtain ⟨r1, a1, b1⟩ := checked_add_days_spec d c hd hc
    obtain ⟨r2, a2, b2⟩ := checked_sub_days_spec d c hd hc
    exact ⟨⟨r1, a1, dayStep_of_shift d c r1 b1⟩, ⟨r2, a2, dayStep_of_shift d (-c) r2 b2⟩⟩
  · subst hd
    unfold Date.checked_add_days Date.checked_sub_days
    by_cases h : c ≤ I32_MAX
    · rw [if_pos h, if_pos h, asI32_id (by omega) (by omega), ckI32_ok (by omega) (by omega)]
      obtain ⟨r1, a1, b1, c1⟩ := add_days_before_min c (by omega)
      obtain ⟨r2, a2, b2, c2⟩ := add_days_before_min (-c) (by omega)
      refine ⟨⟨r1, a1, ?_, c1⟩, ⟨r2, a2, ?_, c2⟩⟩
      · intro d' hd'; obtain ⟨x, y, z⟩ := b1 d' hd'
        exact ⟨x, y, z.elim Or.inl (fun h => Or.inr (Or.inl ⟨rfl, h⟩))⟩
      · intro d' hd'; obtain ⟨x, y, z⟩ := b2 d' hd'
        exact ⟨x, y, z.elim Or.inl (fun h => Or.inr (Or.inl ⟨rfl, h⟩))⟩
    · rw [if_neg h, if_neg h]
      refine ⟨⟨none, rfl, dayStep_none _ _ ?_⟩, ⟨none, rfl, dayStep_none _ _ ?_⟩⟩
      · rw [db, dm, dM]; omega
      · rw [db, dm, dM]; omega
  · subst hd
    unfold Date.checked_add_days Date.checked_sub_days
    by_cases h : c ≤ I32_MAX
    · rw [if_pos h, if_pos h, asI32_id (by omega) (by omega), ckI32_ok (by omega) (by omega)]
      obtain ⟨r1, a1, b1, c1⟩ := add_days_after_max c (by omega)
      obtain ⟨r2, a2, b2, c2⟩ := add_days_after_max (-c) (by omega)
      refine ⟨⟨r1, a1, ?_, c1⟩, ⟨r2, a2, ?_, c2⟩⟩
      · intro d' hd'; obtain ⟨x, y, z⟩ := b1 d' hd'
        exact ⟨x, y, z.elim Or.inl (fun h => Or.inr (Or.inr ⟨rfl, h⟩))⟩
      · intro d' hd'; obtain ⟨x, y, z⟩ := b2 d' hd'
        exact ⟨x, y, z.elim Or.inl (fun h => Or.inr (Or.inr ⟨rfl, h⟩))⟩
    · rw [if_neg h, if_neg h]
      refine ⟨⟨none, rfl, dayStep_none _ _ ?_⟩, ⟨none, rfl, dayStep_none _ _ ?_⟩⟩
      · rw [da, dm, dM]; omega
      · rw [da, dm, dM]; omega

/-- the wall-clock date of a well-formed value is a date of the range or one of the headroom days -/
theorem wall_date_cases (z : Zoned) (hz : ZInv z) (l : NaiveDT)
    (hl : Zoned.overflowing_naive_local z = .ok l) :
    ExtNDTInv l ∧ instSecs l = wallSecs z ∧ l.time.frac = z.utc.time.frac ∧ HeadOrIn l.date ∧
    (l.date = Date.BEFORE_MIN → instSecs z.utc < SECS_MIN + 86400) ∧
    (l.date = Date.AFTER_MAX → SECS_MAX - 86400 < instSecs z.utc) ∧
    InRangeSecs (instSecs z.utc) := by
  obtain ⟨l', a, b, c, d, _, e⟩ := naive_local_spec z hz
  rw [hl] at a
  injection a with a
  subst a
  obtain ⟨dm, dM, db, da, _⟩ := day_consts
  obtain ⟨hb, ha, hl366, _⟩ := headroom_consts
  have hMIN : MIN_YEAR = -262143 := rfl
  have hMAX : MAX_YEAR = 262142 := rfl
  have hue := (dateInv_iff z.utc.date).mp hz.1.1
  obtain ⟨eu, vu⟩ := ext_eq z.utc.date hue.1
  have hur : InRangeSecs (instSecs z.utc) := by
    rw [instSecs_ext z.utc hue.1, inrange_iff _ _ ⟨hz.1.2.1, hz.1.2.2.1⟩, range_iff _ _ ⟨vu.2.2.1, vu.2.2.2⟩]
    exact hue.2
  obtain ⟨el, vl⟩ := ext_eq l.date b.1
  have hls := instSecs_ext l b.1
  have hyl := yearLen_ge l.date.year
  have hdn : dayNumOf l.date = dayNumYo l.date.year l.date.ordinal.toNat := by
    rw [el, dayNumOf_yo _ _ (by have := vl.2.2.2; omega)]
    obtain ⟨f1, f2, _⟩ := dateOfYo_fields l.date.year l.date.ordinal.toNat (by have := vl.2.2.2; omega)
    rw [f1, f2]; simp
  have hoff := hz.2
  unfold OffValid at hoff
  unfold wallSecs at c
  unfold InRangeSecs SECS_MIN SECS_MAX at hur
  rw [dm, dM] at hur
  have hsec := b.2
  unfold TValid at hsec
  have hrange : -95746130 ≤ dayNumYo l.date.year l.date.ordinal.toNat ∧
      dayNumYo l.date.year l.date.ordinal.toNat ≤ 95745400 := by omega
  refine ⟨b, c, d, ?_, ?_, ?_, by unfold InRangeSecs SECS_MIN SECS_MAX; rw [dm, dM]; exact hur⟩
  · by_cases h1 : dayNumYo l.date.year l.date.ordinal.toNat = -95746130
    · right; left
      rw [el, hb]
      apply date_of_daynum_unique _ _ _ _ ⟨vl.2.2.1, vl.2.2.2⟩ ⟨by omega, by rw [hl366]⟩
      rw [h1]; decide
    · by_cases h2 : dayNumYo l.date.year l.date.ordinal.toNat = 95745400
      · right; right
        rw [el, ha]
        apply date_of_daynum_unique _ _ _ _ ⟨vl.2.2.1, vl.2.2.2⟩ ⟨by omega, by have := yearLen_ge (MAX_YEAR + 1); omega⟩
        rw [h2]; decide
      · left
        rw [dateInv_iff]
        refine ⟨b.1, ?_⟩
        rw [← range_iff _ _ ⟨vl.2.2.1, vl.2.2.2⟩, dm, dM]
        omega
  · intro h
    have : dayNumYo l.date.year l.date.ordinal.toNat = -95746130 := by rw [← hdn, h, db]
    unfold SECS_MIN; rw [dm]; omega
  · intro h
    have : dayNumYo l.date.year l.date.ordinal.toNat = 95745400 := by rw [← hdn, h, da]
    unfold SECS_MAX; rw [dM]; omega

end Chrono.Proofs.ZN
