/- Helper lemmas for C06: the panicking constructors, the operator impls, closure of the range,
`is_zero`, the derived relations, the constants (statements in Props/C06.lean). -/
import Chrono.Proofs.DeltaL
import Chrono.Proofs.DeltaDivL
import Chrono.Model.DeltaOps

namespace Chrono.Proofs.DeltaOps
open Chrono Chrono.M Chrono.Spec Chrono.Proofs Chrono.Extracted

theorem expect_ite (c : Prop) [Decidable c] (d : Delta) :
    Delta.expect (if c then some d else none) = if c then .ok d else .panic := by
  split <;> rfl

theorem op_add_exact' (a b : Delta) (ha : DInv a) (hb : DInv b) :
    Delta.add a b = if nsInRange (ns a + ns b) then .ok (ofNs (ns a + ns b)) else .panic := by
  unfold Delta.add
  rw [add_exact' a b ha hb, Res.bind_ok]
  exact expect_ite _ _

theorem op_sub_exact' (a b : Delta) (ha : DInv a) (hb : DInv b) :
    Delta.sub a b = if nsInRange (ns a - ns b) then .ok (ofNs (ns a - ns b)) else .panic := by
  unfold Delta.sub
  rw [sub_exact' a b ha hb, Res.bind_ok]
  exact expect_ite _ _

theorem op_add_assign_exact' (a b : Delta) (ha : DInv a) (hb : DInv b) :
    Delta.add_assign a b = if nsInRange (ns a + ns b) then .ok (ofNs (ns a + ns b)) else .panic := by
  unfold Delta.add_assign
  rw [add_exact' a b ha hb, Res.bind_ok, expect_ite]

theorem op_sub_assign_exact' (a b : Delta) (ha : DInv a) (hb : DInv b) :
    Delta.sub_assign a b = if nsInRange (ns a - ns b) then .ok (ofNs (ns a - ns b)) else .panic := by
  unfold Delta.sub_assign
  rw [sub_exact' a b ha hb, Res.bind_ok, expect_ite]

theorem op_mul_exact' (a : Delta) (k : Int) (ha : DInv a) (hk : -2147483648 ≤ k ∧ k ≤ 2147483647) :
    Delta.mul a k = if nsInRange (ns a * k) then .ok (ofNs (ns a * k)) else .panic := by
  unfold Delta.mul
  rw [mul_exact' a k ha hk, Res.bind_ok]
  exact expect_ite _ _

theorem op_div_zero' (a : Delta) : Delta.div a 0 = .panic := by
  unfold Delta.div
  rw [div_zero' a, Res.bind_ok]
  rfl

theorem op_div_ok' (a : Delta) (k : Int) (r : Delta) (h : Delta.checked_div a k = .ok (some r)) :
    Delta.div a k = .ok r := by
  unfold Delta.div
  rw [h, Res.bind_ok]
  rfl

/-! ### panicking constructors -/

theorem weeks_eq (n : Int) : Delta.weeks n = Delta.expect (Delta.try_unit 604800 n) := rfl
theorem days_eq (n : Int) : Delta.days n = Delta.expect (Delta.try_unit 86400 n) := rfl
theorem hours_eq (n : Int) : Delta.hours n = Delta.expect (Delta.try_unit 3600 n) := rfl
theorem minutes_eq (n : Int) : Delta.minutes n = Delta.expect (Delta.try_unit 60 n) := rfl

theorem unit_panicking_aux (unit n : Int)
    (hu : unit = 1 ∨ unit = 60 ∨ unit = 3600 ∨ unit = 86400 ∨ unit = 604800)
    (hn : -9223372036854775808 ≤ n ∧ n ≤ 9223372036854775807) :
    Delta.expect (Delta.try_unit unit n) =
      if nsInRange (n * unit * 1000000000) then .ok (ofNs (n * unit * 1000000000)) else .panic := by
  rw [try_unit_exact' unit n hu hn]
  exact expect_ite _ _

theorem seconds_exact' (n : Int) :
    Delta.seconds n = if nsInRange (n * 1000000000) then .ok (ofNs (n * 1000000000)) else .panic := by
  unfold Delta.seconds
  rw [try_seconds_exact n]
  exact expect_ite _ _

theorem milliseconds_exact' (n : Int) (hn : -9223372036854775808 ≤ n ∧ n ≤ 9223372036854775807) :
    Delta.milliseconds n = if nsInRange (n * 1000000) then .ok (ofNs (n * 1000000)) else .panic := by
  unfold Delta.milliseconds
  rw [try_milliseconds_exact' n hn]
  exact expect_ite _ _

/-! ### closure -/

theorem range_symm' (n : Int) : nsInRange n ↔ nsInRange (-n) := by
  simp only [nsInRange]; omega

theorem some_ite_inv (n : Int) (r : Delta)
    (h : (if nsInRange n then some (ofNs n) else none) = some r) : DInv r ∧ ns r = n := by
  by_cases hr : nsInRange n
  · rw [ite_pos' _ _ hr] at h
    cases h
    exact ofNs_spec' n hr
  · rw [ite_neg' _ _ hr] at h
    cases h

theorem ok_some_ite_inv (n : Int) (r : Delta)
    (h : (Res.ok (if nsInRange n then some (ofNs n) else none) : Res (Option Delta)) = .ok (some r)) :
    DInv r ∧ ns r = n := by
  cases h' : (if nsInRange n then some (ofNs n) else none) with
  | none => rw [h'] at h; cases h
  | some r' =>
    rw [h'] at h
    cases h
    exact some_ite_inv n _ h'

theorem ok_ite_inv (n : Int) (r : Delta)
    (h : (if nsInRange n then Res.ok (ofNs n) else .panic) = .ok r) : DInv r ∧ ns r = n := by
  by_cases hr : nsInRange n
  · rw [ite_pos' _ _ hr] at h
    cases h
    exact ofNs_spec' n hr
  · rw [ite_neg' _ _ hr] at h
    cases h

theorem neg_inv (a r : Delta) (ha : DInv a) (h : Delta.neg a = .ok r) : DInv r ∧ ns r = -(ns a) := by
  rw [(neg_abs_exact' a ha).1] at h
  cases h
  exact ofNs_spec' _ ((range_symm' _).mp ha.2.2)

theorem abs_inv (a r : Delta) (ha : DInv a) (h : Delta.abs a = .ok r) :
    DInv r ∧ ns r = (if ns a < 0 then -(ns a) else ns a) := by
  rw [(neg_abs_exact' a ha).2] at h
  cases h
  apply ofNs_spec'
  have := ha.2.2
  simp only [nsInRange] at this ⊢
  split <;> omega

theorem div_inv (a : Delta) (k : Int) (r : Delta) (ha : DInv a)
    (hk : -2147483648 ≤ k ∧ k ≤ 2147483647) (h : Delta.checked_div a k = .ok (some r)) : DInv r := by
  by_cases hk0 : k = 0
  · subst hk0; rw [div_zero' a] at h; cases h
  · obtain ⟨r', h1, h2, _⟩ := div_spec' a k ha hk hk0
    rw [h1] at h
    cases h
    exact h2

theorem op_div_inv (a : Delta) (k : Int) (r : Delta) (ha : DInv a)
    (hk : -2147483648 ≤ k ∧ k ≤ 2147483647) (h : Delta.div a k = .ok r) : DInv r := by
  by_cases hk0 : k = 0
  · subst hk0; rw [op_div_zero' a] at h; cases h
  · obtain ⟨r', h1, h2, _⟩ := div_spec' a k ha hk hk0
    rw [op_div_ok' a k r' h1] at h
    cases h
    exact h2

theorem new_inv (secs nanos : Int) (hn : 0 ≤ nanos) (r : Delta) (h : Delta.new secs nanos = some r) :
    DInv r ∧ r = ⟨secs, nanos⟩ := by
  rw [new_iff' secs nanos hn] at h
  by_cases hc : nanos < 1000000000 ∧ nsInRange (ns ⟨secs, nanos⟩)
  · rw [ite_pos' _ _ hc] at h
    cases h
    exact ⟨⟨hn, hc.1, hc.2⟩, rfl⟩
  · rw [ite_neg' _ _ hc] at h
    cases h

theorem from_std_inv (secs nanos : Int) (hs : 0 ≤ secs ∧ secs ≤ 18446744073709551615)
    (hn : 0 ≤ nanos ∧ nanos < 1000000000) (r : Delta) (h : Delta.from_std secs nanos = some r) :
    DInv r ∧ ns r = secs * 1000000000 + nanos := by
  rw [(std_spec' secs nanos hs hn ⟨0, 0⟩ (by decide)).1] at h
  by_cases hc : nsInRange (secs * 1000000000 + nanos)
  · rw [ite_pos' _ _ hc] at h
    cases h
    exact ⟨⟨hn.1, hn.2, hc⟩, rfl⟩
  · rw [ite_neg' _ _ hc] at h
    cases h

theorem sum_inv (xs : List Delta) (acc : Delta) (hacc : DInv acc) (hxs : ∀ x ∈ xs, DInv x) (r : Delta)
    (h : Delta.sum xs acc = .ok r) : DInv r := by
  rw [sum_spec' xs acc hacc hxs] at h
  cases hs : sumNs (xs.map ns) (ns acc) with
  | none => rw [hs] at h; cases h
  | some m =>
    rw [hs] at h
    cases h
    obtain ⟨hm, hall⟩ := (sumNs_iff (xs.map ns) (ns acc) m).mp hs
    apply (ofNs_spec' m _).1
    by_cases hl : (xs.map ns).length = 0
    · have : xs.map ns = [] := List.eq_nil_of_length_eq_zero hl
      rw [this] at hm
      simp only [List.sum_nil] at hm
      have := hacc.2.2
      rw [hm]; simpa using this
    · have := hall (xs.map ns).length (by omega) (Nat.le_refl _)
      rw [List.take_length] at this
      rw [hm]; exact this

/-! ### `is_zero`, derived relations -/

theorem is_zero_spec' (a : Delta) (ha : DInv a) :
    (a.is_zero = true ↔ ns a = 0) ∧ (a.is_zero = true ↔ a = Delta.zero) := by
  obtain ⟨as, an⟩ := a
  simp only [DInv, ns, nsInRange, NS_MAX] at ha
  simp only [Delta.is_zero, Delta.zero, ns, Bool.and_eq_true, beq_iff_eq, Delta.mk.injEq]
  constructor <;> constructor <;> intro h <;> omega

theorem rel_spec' (a b : Delta) (ha : DInv a) (hb : DInv b) :
    Delta.eq a b = decide (ns a = ns b) ∧
    Delta.partial_cmp a b = some (if ns a < ns b then -1 else if ns a > ns b then 1 else 0) ∧
    Delta.lt a b = decide (ns a < ns b) ∧ Delta.le a b = decide (ns a ≤ ns b) ∧
    Delta.gt a b = decide (ns a > ns b) ∧ Delta.ge a b = decide (ns a ≥ ns b) := by
  have hc := cmp_spec' a b ha hb
  unfold Delta.partial_cmp Delta.lt Delta.le Delta.gt Delta.ge
  rw [hc]
  refine ⟨?_, rfl, ?_, ?_, ?_, ?_⟩
  · obtain ⟨as, an⟩ := a; obtain ⟨bs, bn⟩ := b
    simp only [DInv, ns, nsInRange, NS_MAX] at ha hb
    simp only [Delta.eq, ns]
    by_cases h : as * 1000000000 + an = bs * 1000000000 + bn
    · have h1 : as = bs := by omega
      have h2 : an = bn := by omega
      subst h1 h2
      simp
    · simp only [h, decide_false, Bool.and_eq_false_iff, beq_eq_false_iff_ne, ne_eq]
      omega
  all_goals
    by_cases h1 : ns a < ns b
    · simp [h1]; try omega
    · by_cases h2 : ns a > ns b
      · simp [h1, h2]; try omega
      · simp [h1, h2]; try omega

end Chrono.Proofs.DeltaOps
