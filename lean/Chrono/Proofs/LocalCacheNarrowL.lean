/-
  Helper lemmas for C18 (gap G2 of the audit): `honoured_after_1s` under a narrower assumption on the
  hash.  Collisions among older TZ values are tolerated: a cache may then hold the zone of one value
  and the source of another with the same hash.  What is needed is only that no value of the history
  collides with the CURRENT value (the one set by the last change); with TZ unset (or not text) at
  the end nothing is needed at all.  Two phases: up to the last change a weak invariant (no
  assumption), after it the strong one.  Core Lean only.
-/
import Chrono.Proofs.LocalCacheHistL
namespace Chrono.Proofs.LocalCache
open Chrono.M.LocalCache Chrono.Spec.LocalCache Chrono.Extracted.LocalCache

/-- two values of TZ give sources that never look out of date against each other -/
def SameKey (W : World) : Option Bytes → Option Bytes → Prop
  | none, none => True
  | some x, some y => W.hash x = W.hash y
  | _, _ => False

theorem sameKey_trans (W : World) (a b c : Option Bytes) (h1 : SameKey W a b) (h2 : SameKey W b c) :
    SameKey W a c := by
  cases a <;> cases b <;> cases c <;> simp_all [SameKey]

theorem sameKey_refl (W : World) (a : Option Bytes) : SameKey W a a := by
  cases a <;> simp [SameKey]

theorem sameKey_of_fresh (W : World) (l n : Nat) (a b : Option Bytes)
    (h : out_of_date (Source.new W l a) (Source.new W n b) = false) : SameKey W a b := by
  cases a with
  | none =>
    cases b with
    | none => trivial
    | some y =>
      exfalso
      unfold Source.new at h
      cases hm : W.ltMtime <;> simp [hm, out_of_date] at h
  | some x =>
    cases b with
    | none =>
      exfalso
      unfold Source.new at h
      cases hm : W.ltMtime <;> simp [hm, out_of_date] at h
    | some y => simpa [Source.new, out_of_date, SameKey] using h

/-- weak knowledge about a cache: zone of some value `ez`, source of some value `es` with the same
key, both values of the history; if `F` and `g` are given, additionally: both are `F`, or the cache
was last checked before `g` -/
def CacheW (W : World) (S : List Bytes) (fresh : Option Bytes → Option Bytes → Nat → Prop) (c : Cache) : Prop :=
  ∃ ez es : Option Bytes, (∀ a, ez = some a → a ∈ S) ∧ (∀ a, es = some a → a ∈ S) ∧
    c.source = Source.new W c.last_checked es ∧ c.zone = current_zone W ez ∧ SameKey W ez es ∧
    fresh ez es c.last_checked

/-- phase 1: nothing about freshness -/
def anyFresh : Option Bytes → Option Bytes → Nat → Prop := fun _ _ _ => True
/-- phase 2: both are the final value `F`, or last checked before `g` -/
def finFresh (F : Option Bytes) (g : Nat) : Option Bytes → Option Bytes → Nat → Prop :=
  fun ez es l => (ez = F ∧ es = F) ∨ l < g

def WInv (W : World) (S : List Bytes) (fresh : Option Bytes → Option Bytes → Nat → Prop) (s : State) : Prop :=
  (∀ a, env_var s.env = some a → a ∈ S) ∧
  ∀ t c, s.caches t = some c → c.last_checked ≤ s.clock ∧ CacheW W S fresh c

/-- one lookup keeps the weak invariant, whatever the hash does -/
theorem offset_w (W : World) (S : List Bytes) (env : EnvVal) (now : Nat) (c : Cache)
    (hcur : ∀ a, env_var env = some a → a ∈ S) (hc : CacheW W S anyFresh c) :
    CacheW W S anyFresh (Cache.offset W c now env).1 ∧
    ((Cache.offset W c now env).1.last_checked = c.last_checked ∨
      (Cache.offset W c now env).1.last_checked = now) := by
  obtain ⟨ez, es, h1, h2, hsrc, hzone, hk, _⟩ := hc
  unfold Cache.offset
  by_cases hw : within_window c.last_checked now = true
  · rw [if_pos hw]; exact ⟨⟨ez, es, h1, h2, hsrc, hzone, hk, trivial⟩, Or.inl rfl⟩
  · rw [if_neg hw]
    by_cases ho : out_of_date c.source (Source.new W now (env_var env)) = true
    · dsimp only; rw [if_pos ho]
      exact ⟨⟨env_var env, env_var env, hcur, hcur, rfl, rfl, sameKey_refl W _, trivial⟩, Or.inr rfl⟩
    · have ho' : out_of_date c.source (Source.new W now (env_var env)) = false := by
        cases hh : out_of_date c.source (Source.new W now (env_var env)) <;> simp_all
      rw [hsrc] at ho'
      have hk2 := sameKey_of_fresh W _ _ _ _ ho'
      dsimp only; rw [if_neg ho]
      exact ⟨⟨ez, env_var env, h1, hcur, rfl, hzone, sameKey_trans W _ _ _ hk hk2, trivial⟩, Or.inr rfl⟩

/-- one lookup in phase 2 (TZ has its final value `F`, no value of the history shares its key):
the strong invariant is kept, and one second after `g` the zone is the one of `F` -/
theorem offset_f (W : World) (S : List Bytes) (env : EnvVal) (g now : Nat) (c : Cache)
    (hcur : ∀ a, env_var env = some a → a ∈ S)
    (hsep : ∀ e : Option Bytes, (∀ a, e = some a → a ∈ S) → SameKey W e (env_var env) → e = env_var env)
    (hc : CacheW W S (finFresh (env_var env) g) c) :
    CacheW W S (finFresh (env_var env) g) (Cache.offset W c now env).1 ∧
    ((Cache.offset W c now env).1.last_checked = c.last_checked ∨
      (Cache.offset W c now env).1.last_checked = now) ∧
    (g + ONE_SECOND ≤ now + 1 → (Cache.offset W c now env).1.zone = current_zone W (env_var env)) := by
  obtain ⟨ez, es, h1, h2, hsrc, hzone, hk, hf⟩ := hc
  unfold Cache.offset
  by_cases hw : within_window c.last_checked now = true
  · rw [if_pos hw]
    refine ⟨⟨ez, es, h1, h2, hsrc, hzone, hk, hf⟩, Or.inl rfl, ?_⟩
    intro hg
    rcases hf with h | h
    · rw [hzone, h.1]
    · exfalso; rw [within_window_iff] at hw; omega
  · rw [if_neg hw]
    by_cases ho : out_of_date c.source (Source.new W now (env_var env)) = true
    · dsimp only; rw [if_pos ho]
      exact ⟨⟨env_var env, env_var env, hcur, hcur, rfl, rfl, sameKey_refl W _, Or.inl ⟨rfl, rfl⟩⟩,
        Or.inr rfl, fun _ => rfl⟩
    · have ho' : out_of_date c.source (Source.new W now (env_var env)) = false := by
        cases hh : out_of_date c.source (Source.new W now (env_var env)) <;> simp_all
      rw [hsrc] at ho'
      have hk2 := sameKey_of_fresh W _ _ _ _ ho'
      have hez : ez = env_var env := hsep ez h1 (sameKey_trans W _ _ _ hk hk2)
      dsimp only; rw [if_neg ho]
      refine ⟨⟨ez, env_var env, h1, hcur, rfl, hzone, sameKey_trans W _ _ _ hk hk2, Or.inl ⟨hez, rfl⟩⟩,
        Or.inr rfl, fun _ => ?_⟩
      show c.zone = _
      rw [hzone, hez]

theorem default_w (W : World) (S : List Bytes) (env : EnvVal) (now : Nat)
    (fresh : Option Bytes → Option Bytes → Nat → Prop) (hfr : fresh (env_var env) (env_var env) now)
    (hcur : ∀ a, env_var env = some a → a ∈ S) : CacheW W S fresh (Cache.default W now env) :=
  ⟨env_var env, env_var env, hcur, hcur, rfl, rfl, sameKey_refl W _, hfr⟩

/-- phase 1, one step -/
theorem step_w (W : World) (S : List Bytes) (s : State) (x : Step)
    (hI : WInv W S anyFresh s) (hx : StepIn S x) : WInv W S anyFresh (step W s x).1 := by
  obtain ⟨henv, hcs⟩ := hI
  cases x with
  | setTZ v =>
    refine ⟨?_, hcs⟩
    intro a ha
    have : v = a := by simpa [step, env_var] using ha
    subst this; exact hx
  | setNotUnicode => exact ⟨by intro a ha; simp [step, env_var] at ha, hcs⟩
  | unsetTZ => exact ⟨by intro a ha; simp [step, env_var] at ha, hcs⟩
  | advance n =>
    exact ⟨henv, fun t c hc => ⟨Nat.le_trans (hcs t c hc).1 (Nat.le_add_right _ _), (hcs t c hc).2⟩⟩
  | spawn t =>
    refine ⟨henv, ?_⟩
    intro t' c hc
    have hc' : update s.caches t none t' = some c := hc
    unfold update at hc'
    by_cases ht : t' = t
    · rw [if_pos ht] at hc'; cases hc'
    · rw [if_neg ht] at hc'; exact hcs t' c hc'
  | convert t l =>
    have key : ∀ c0 : Cache, c0.last_checked ≤ s.clock → CacheW W S anyFresh c0 →
        WInv W S anyFresh { s with caches := update s.caches t (some (Cache.offset W c0 s.clock s.env).1) } := by
      intro c0 hl hc0
      obtain ⟨h1, h2⟩ := offset_w W S s.env s.clock c0 henv hc0
      refine ⟨henv, ?_⟩
      intro t' c' hc'
      dsimp only at hc'
      unfold update at hc'
      by_cases ht : t' = t
      · rw [if_pos ht] at hc'
        injection hc' with hc'
        subst hc'
        exact ⟨by show (Cache.offset W c0 s.clock s.env).1.last_checked ≤ s.clock; rcases h2 with h | h <;> omega, h1⟩
      · rw [if_neg ht] at hc'; exact hcs t' c' hc'
    show WInv W S anyFresh (inner_offset W s t).1
    unfold inner_offset
    cases hc : s.caches t with
    | some c => exact key c (hcs t c hc).1 (hcs t c hc).2
    | none => exact key (Cache.default W s.clock s.env) (Nat.le_refl _) (default_w W S s.env s.clock _ trivial henv)

theorem exec_w (W : World) (S : List Bytes) (h : List Step) :
    ∀ s, WInv W S anyFresh s → (∀ x ∈ h, StepIn S x) → WInv W S anyFresh (exec W s h) := by
  induction h with
  | nil => intro s hI _; exact hI
  | cons x xs ih =>
    intro s hI hx
    exact ih _ (step_w W S s x hI (hx x (List.mem_cons_self ..))) (fun y hy => hx y (List.mem_cons_of_mem _ hy))

/-- phase 2, one step that does not change TZ: the environment stays `F`, the strong invariant is kept -/
theorem step_f (W : World) (S : List Bytes) (F : Option Bytes) (g : Nat) (s : State) (x : Step)
    (hF : env_var s.env = F)
    (hsep : ∀ e : Option Bytes, (∀ a, e = some a → a ∈ S) → SameKey W e F → e = F)
    (hI : WInv W S (finFresh F g) s) (hx : isChange x = false) :
    WInv W S (finFresh F g) (step W s x).1 ∧ (step W s x).1.env = s.env := by
  obtain ⟨henv, hcs⟩ := hI
  cases x with
  | setTZ v => simp [isChange] at hx
  | setNotUnicode => simp [isChange] at hx
  | unsetTZ => simp [isChange] at hx
  | advance n =>
    exact ⟨⟨henv, fun t c hc => ⟨Nat.le_trans (hcs t c hc).1 (Nat.le_add_right _ _), (hcs t c hc).2⟩⟩, rfl⟩
  | spawn t =>
    refine ⟨⟨henv, ?_⟩, rfl⟩
    intro t' c hc
    have hc' : update s.caches t none t' = some c := hc
    unfold update at hc'
    by_cases ht : t' = t
    · rw [if_pos ht] at hc'; cases hc'
    · rw [if_neg ht] at hc'; exact hcs t' c hc'
  | convert t l =>
    have key : ∀ c0 : Cache, c0.last_checked ≤ s.clock → CacheW W S (finFresh F g) c0 →
        WInv W S (finFresh F g) { s with caches := update s.caches t (some (Cache.offset W c0 s.clock s.env).1) } := by
      intro c0 hl hc0
      subst hF
      obtain ⟨h1, h2, _⟩ := offset_f W S s.env g s.clock c0 henv hsep hc0
      refine ⟨henv, ?_⟩
      intro t' c' hc'
      dsimp only at hc'
      unfold update at hc'
      by_cases ht : t' = t
      · rw [if_pos ht] at hc'
        injection hc' with hc'
        subst hc'
        exact ⟨by show (Cache.offset W c0 s.clock s.env).1.last_checked ≤ s.clock; rcases h2 with h | h <;> omega, h1⟩
      · rw [if_neg ht] at hc'; exact hcs t' c' hc'
    constructor
    · show WInv W S (finFresh F g) (inner_offset W s t).1
      unfold inner_offset
      cases hc : s.caches t with
      | some c => exact key c (hcs t c hc).1 (hcs t c hc).2
      | none =>
        exact key (Cache.default W s.clock s.env) (Nat.le_refl _)
          (default_w W S s.env s.clock _ (Or.inl ⟨hF, hF⟩) henv)
    · show (inner_offset W s t).1.env = s.env
      unfold inner_offset; cases s.caches t <;> rfl

theorem exec_f (W : World) (S : List Bytes) (F : Option Bytes) (g : Nat)
    (hsep : ∀ e : Option Bytes, (∀ a, e = some a → a ∈ S) → SameKey W e F → e = F) (h : List Step) :
    ∀ s, env_var s.env = F → WInv W S (finFresh F g) s → (∀ x ∈ h, isChange x = false) →
      WInv W S (finFresh F g) (exec W s h) ∧ (exec W s h).env = s.env := by
  induction h with
  | nil => intro s _ hI _; exact ⟨hI, rfl⟩
  | cons x xs ih =>
    intro s hF hI hx
    obtain ⟨h1, h2⟩ := step_f W S F g s x hF hsep hI (hx x (List.mem_cons_self ..))
    obtain ⟨h3, h4⟩ := ih _ (by rw [h2]; exact hF) h1 (fun y hy => hx y (List.mem_cons_of_mem _ hy))
    exact ⟨h3, by show (exec W (step W s x).1 xs).env = _; rw [h4, h2]⟩

/-- from phase 1 to phase 2 at the change: every cache is older than `g` = 1 + the clock -/
theorem w_to_f (W : World) (S : List Bytes) (F : Option Bytes) (s : State)
    (hI : WInv W S anyFresh s) : WInv W S (finFresh F (s.clock + 1)) s := by
  obtain ⟨henv, hcs⟩ := hI
  refine ⟨henv, ?_⟩
  intro t c hc
  obtain ⟨hl, ez, es, h1, h2, h3, h4, h5, _⟩ := hcs t c hc
  exact ⟨hl, ez, es, h1, h2, h3, h4, h5, Or.inr (by omega)⟩

theorem init_w (W : World) (e : EnvVal) (k : Nat) (h : List Step) : WInv W (valuesOf e h) anyFresh (init e k) := by
  refine ⟨?_, fun t c hc => by simp [init] at hc⟩
  intro a ha
  unfold valuesOf
  apply List.mem_append_left
  cases e <;> simp [init, env_var, envValue] at ha ⊢
  exact ha.symm

/-- `honoured_after_1s` with the hash assumption narrowed to: no TZ value of the history has the same
hash as the current value without being it -/
theorem honoured_after_1s_narrow' (W : World) (e0 : EnvVal) (k0 : Nat) (p1 p2 : List Step) (chg : Step)
    (hno : ∀ x ∈ p2, isChange x = false) (hwait : ONE_SECOND ≤ elapsed p2)
    (hsep : ∀ cur, env_var (envAfter e0 (p1 ++ [chg])) = some cur →
      ∀ v ∈ valuesOf e0 (p1 ++ [chg]), W.hash v = W.hash cur → v = cur)
    (t : Nat) (l : Bool) :
    zoneOfStep (step W (exec W (init e0 k0) (p1 ++ chg :: p2)) (.convert t l)) =
      some (zoneFor W (env_var (envAfter e0 (p1 ++ chg :: p2)))) := by
  have hsplit : p1 ++ chg :: p2 = (p1 ++ [chg]) ++ p2 := by simp
  let S := valuesOf e0 (p1 ++ [chg])
  let F := env_var (envAfter e0 (p1 ++ [chg]))
  -- phase 1
  have h1 := exec_w W S (p1 ++ [chg]) (init e0 k0) (init_w W e0 k0 _) (stepIn_valuesOf e0 _)
  obtain ⟨henv1, hclk1⟩ := exec_clock_env W (p1 ++ [chg]) (init e0 k0)
  have henv1' : (exec W (init e0 k0) (p1 ++ [chg])).env = envAfter e0 (p1 ++ [chg]) := henv1
  -- the key separation in the form the lemmas use
  have hsep' : ∀ e : Option Bytes, (∀ a, e = some a → a ∈ S) → SameKey W e F → e = F := by
    intro e he hk
    cases e with
    | none => cases hF : F <;> simp_all [SameKey]
    | some v =>
      cases hF : F with
      | none => rw [hF] at hk; simp [SameKey] at hk
      | some cur =>
        rw [hF] at hk
        have := hsep cur hF v (he v rfl) (by simpa [SameKey] using hk)
        rw [this]
  -- phase 2
  have h2 := w_to_f W S F _ h1
  obtain ⟨h3, h4⟩ := exec_f W S F _ hsep' p2 _ (by rw [henv1']) h2 hno
  rw [hsplit, exec_append]
  have henv2 : (exec W (exec W (init e0 k0) (p1 ++ [chg])) p2).env = envAfter e0 (p1 ++ [chg]) := by
    rw [h4, henv1']
  have hE : envAfter e0 ((p1 ++ [chg]) ++ p2) = envAfter e0 (p1 ++ [chg]) := by
    rw [envAfter_append]; exact envAfter_nochange _ p2 hno
  rw [hE]
  -- the conversion
  obtain ⟨henvS, hcs⟩ := h3
  have hclk2 := (exec_clock_env W p2 (exec W (init e0 k0) (p1 ++ [chg]))).2
  generalize hs2 : exec W (exec W (init e0 k0) (p1 ++ [chg])) p2 = s2 at *
  have hFs : env_var s2.env = F := by rw [henv2]
  have hg : (exec W (init e0 k0) (p1 ++ [chg])).clock + 1 + ONE_SECOND ≤ s2.clock + 1 := by
    rw [hclk2]; omega
  unfold zoneOfStep step
  simp only [Option.map_some]
  rw [← current_zone_eq]
  congr 1
  unfold inner_offset
  cases hc : s2.caches t with
  | some c =>
    dsimp only
    have := (offset_f W S s2.env _ s2.clock c henvS (by rw [hFs]; exact hsep')
      (by rw [hFs]; exact (hcs t c hc).2)).2.2 hg
    rw [this, hFs]
  | none =>
    dsimp only
    have hd : CacheW W S (finFresh (env_var s2.env) ((exec W (init e0 k0) (p1 ++ [chg])).clock + 1))
        (Cache.default W s2.clock s2.env) := default_w W S s2.env s2.clock _ (Or.inl ⟨rfl, rfl⟩) henvS
    have := (offset_f W S s2.env _ s2.clock _ henvS (by rw [hFs]; exact hsep') hd).2.2 hg
    rw [this, hFs]

/-! ### the public entry points perform exactly one lookup -/

/-- what "one conversion = one lookup in one zone" means for an entry point with result `r`:
the counter went up by exactly one, the process state is the one after that one cache lookup, and the
answer is the lookup function of the asked direction applied to the zone that lookup yielded -/
def OneLookup {β : Type} (L : Lookups β) (W : World) (c : Counted) (t : Nat) (d : Int) (localDir : Bool)
    (c' : Counted) (ans : β) : Prop :=
  c'.calls = c.calls + 1 ∧ c'.s = (inner_offset W c.s t).1 ∧
  ans = (if localDir then L.loc (inner_offset W c.s t).2.1 d else L.utc (inner_offset W c.s t).2.1 d) ∧
  (c'.s.caches t).map Cache.zone = some (inner_offset W c.s t).2.1

theorem inner_counted_one {β : Type} (L : Lookups β) (W : World) (c : Counted) (t : Nat) (d : Int) (l : Bool) :
    OneLookup L W c t d l (inner_counted L W c t d l).1 (inner_counted L W c t d l).2 := by
  obtain ⟨ch, hc, hz⟩ := inner_offset_caches W c.s t
  refine ⟨rfl, rfl, rfl, ?_⟩
  show ((inner_offset W c.s t).1.caches t).map Cache.zone = _
  rw [hc, hz]; simp [update]

end Chrono.Proofs.LocalCache
