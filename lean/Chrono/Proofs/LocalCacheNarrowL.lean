/-
  Helper lemmas for C18: the public entry points perform exactly one lookup.

  (Until the repair of finding F33 this file also carried a two-phase invariant for
  `honoured_after_1s` under a narrowed assumption on `DefaultHasher` — `SameKey`, `CacheW`, `WInv`.
  The cache now remembers the text of TZ, no theorem needs an assumption on a hash any more, and
  that machinery is gone with the `hash` field of `World`; the pre-repair refresh rule and what it
  did on two colliding values is kept in `Chrono.Proofs.LocalCacheF33L`.)  Core Lean only.
-/
import Chrono.Proofs.LocalCacheHistL
namespace Chrono.Proofs.LocalCache
open Chrono.M.LocalCache Chrono.Spec.LocalCache Chrono.Extracted.LocalCache

/-! ### the public entry points perform exactly one lookup -/

/-- what "one conversion = one lookup in one zone" means for an entry point with result `r`:
the counter went up by exactly one, the process state is the one after that one cache lookup, and the
answer is the lookup function of the asked direction applied to the zone that lookup yielded -/
def OneLookup {β : Type} (L : Lookups β) (W : World) (c : Counted) (t : Nat) (d : Int) (localDir : Bool)
    (c' : Counted) (ans : β) : Prop :=
  c'.calls = c.calls + 1 ∧ c'.s = (inner_offset W c.s t).1 ∧
  ans = (if localDir then L.loc (inner_offset W c.s t).2.1 d else L.utc (inner_offset W c.s t).2.1 d) ∧
  (c'.s.caches t).map Cache.zone = some (inner_offset W c.s t).2.1

theorem inner_counted_one {β : Type} (L : Lookups β) (W : World) (c : Counted) (t : Nat) (d : Int) (l : Bool) :
    OneLookup L W c t d l (inner_counted L W c t d l).1 (inner_counted L W c t d l).2 := by
  obtain ⟨ch, hc, hz⟩ := inner_offset_caches W c.s t
  refine ⟨rfl, rfl, rfl, ?_⟩
  show ((inner_offset W c.s t).1.caches t).map Cache.zone = _
  rw [hc, hz]; simp [update]

end Chrono.Proofs.LocalCache
