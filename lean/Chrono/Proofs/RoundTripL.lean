/-
  Helper lemmas for C13 (format-string round trip): white-space skipping, the decimal scanner
  `Scan.number` on a run of digits, the digit printer `Delta.natDigits`, and the generic chain lemma
  that lifts per-item inversion to item lists.  Namespace `Chrono.Proofs.RoundTrip`.
-/
import Chrono.Model.ParseFrom

namespace Chrono.Proofs.RoundTrip
open Chrono Chrono.M Chrono.M.Scan

/-! ### `trim_start` -/

theorem trimStartAux_fuel : ∀ (f1 f2 : Nat) (s : List Nat), s.length ≤ f1 → s.length ≤ f2 →
    trimStartAux f1 s = trimStartAux f2 s := by
  intro f1
  induction f1 with
  | zero =>
    intro f2 s h1 _
    have : s = [] := List.eq_nil_of_length_eq_zero (by omega)
    subst this
    cases f2 <;> simp [trimStartAux, wsLen]
  | succ f ih =>
    intro f2 s h1 h2
    cases f2 with
    | zero =>
      have : s = [] := List.eq_nil_of_length_eq_zero (by omega)
      subst this
      simp [trimStartAux, wsLen]
    | succ g =>
      simp only [trimStartAux]
      by_cases hn : wsLen s = 0
      · simp [hn]
      · simp only [hn, if_false]
        apply ih
        · simp only [List.length_drop]; omega
        · simp only [List.length_drop]; omega

/-- a string that does not start with white space is left alone -/
theorem trimStart_noop (s : List Nat) (h : wsLen s = 0) : trimStart s = s := by
  unfold trimStart
  cases hs : s.length with
  | zero => simp [trimStartAux]
  | succ n => simp [trimStartAux, h]

/-- one white-space character `c` (its UTF-8 bytes) in front is skipped -/
theorem trimStart_char (c s : List Nat) (hc : c ≠ []) (h : wsLen (c ++ s) = c.length) :
    trimStart (c ++ s) = trimStart s := by
  have hl : 0 < c.length := List.length_pos_iff.mpr hc
  unfold trimStart
  rw [show (c ++ s).length = (c.length + s.length - 1) + 1 by simp only [List.length_append]; omega]
  simp only [trimStartAux, h]
  rw [if_neg (by omega), List.drop_left]
  exact trimStartAux_fuel _ _ _ (by omega) (Nat.le_refl _)

/-- `cs` is a list of white-space characters, each given by its UTF-8 bytes -/
def WsChars (cs : List (List Nat)) : Prop := ∀ c ∈ cs, c ≠ [] ∧ ∀ s, wsLen (c ++ s) = c.length

theorem trimStart_run (cs : List (List Nat)) (s : List Nat) (h : WsChars cs) :
    trimStart (cs.flatten ++ s) = trimStart s := by
  induction cs with
  | nil => simp
  | cons c cs ih =>
    have hc := h c (List.mem_cons_self)
    rw [List.flatten_cons, List.append_assoc, trimStart_char c _ hc.1 (hc.2 _)]
    exact ih (fun c' hc' => h c' (List.mem_cons_of_mem _ hc'))

/-- the ASCII white-space bytes -/
def isAsciiWs (b : Nat) : Bool := (decide (9 ≤ b) && decide (b ≤ 13)) || b == 32

theorem wsLen_asciiWs (b : Nat) (s : List Nat) (h : isAsciiWs b = true) : wsLen (b :: s) = 1 := by
  have : (9 ≤ b ∧ b ≤ 13) ∨ b = 32 := by
    simp only [isAsciiWs, Bool.or_eq_true, Bool.and_eq_true, decide_eq_true_eq, beq_iff_eq] at h
    exact h
  simp only [wsLen, this, if_true]

theorem wsLen_digit (b : Nat) (s : List Nat) (h : isDigit b = true) : wsLen (b :: s) = 0 := by
  simp only [isDigit, Bool.and_eq_true, decide_eq_true_eq] at h
  have h1 : ¬ ((9 ≤ b ∧ b ≤ 13) ∨ b = 32) := by omega
  simp only [wsLen, h1, if_false]
  split <;> first | rfl | omega

/-! ### the decimal scanner on a run of digits -/

/-- every byte is an ASCII digit -/
def AllDigits (ds : List Nat) : Prop := ∀ b ∈ ds, isDigit b = true

/-- value of a digit run read after the value `n` -/
def valFrom (n : Int) (ds : List Nat) : Int := ds.foldl (fun v b => v * 10 + ((b - 48 : Nat) : Int)) n
/-- value of a digit run -/
def valOf (ds : List Nat) : Int := valFrom 0 ds

theorem valFrom_cons (n : Int) (d : Nat) (ds : List Nat) :
    valFrom n (d :: ds) = valFrom (n * 10 + ((d - 48 : Nat) : Int)) ds := rfl

theorem valFrom_mono (ds : List Nat) : ∀ n : Int, 0 ≤ n → n ≤ valFrom n ds := by
  induction ds with
  | nil => intro n _; exact Int.le_refl _
  | cons d ds ih =>
    intro n hn
    rw [valFrom_cons]
    have h1 : 0 ≤ n * 10 + ((d - 48 : Nat) : Int) := by omega
    have := ih _ h1
    omega

/-- what may follow a token that reads digits greedily: the end, or a byte that is not a digit -/
def StopsDigits (rest : List Nat) : Prop := ∀ b t, rest = b :: t → isDigit b = false

/-- `scan::number` on `ds ++ rest`: it takes exactly the digit run `ds` when that run fits the
maximal width and either fills it or is followed by a non-digit -/
theorem numberAux_digits (min : Nat) (max : Option Nat) (rest : List Nat) :
    ∀ (ds : List Nat) (i : Nat) (n : Int), AllDigits ds → 0 ≤ n →
    (∀ m, max = some m → i + ds.length ≤ m) →
    (StopsDigits rest ∨ max = some (i + ds.length)) →
    min ≤ i + ds.length → valFrom n ds ≤ I64_MAX →
    numberAux (ds ++ rest) i min max n = .ok (rest, valFrom n ds) := by
  intro ds
  induction ds with
  | nil =>
    intro i n _ _ hmax hrest hmin _
    simp only [List.nil_append, List.length_nil, Nat.add_zero] at *
    unfold numberAux
    rcases hrest with hr | hr
    · have hstep : numberAux.step rest i min max n = .ok (rest, valFrom n []) := by
        cases rest with
        | nil => simp [numberAux.step, valFrom]
        | cons c t =>
          have := hr c t rfl
          simp [numberAux.step, this, valFrom, Nat.not_lt.mpr hmin]
      cases max with
      | none => exact hstep
      | some m =>
        simp only
        by_cases h : i ≥ m
        · simp [h, valFrom]
        · simp only [h, if_false]; exact hstep
    · subst hr
      simp [valFrom]
  | cons d ds ih =>
    intro i n hd hn hmax hrest hmin hb
    have hdd : isDigit d = true := hd d (List.mem_cons_self)
    have hds : AllDigits ds := fun b hb => hd b (List.mem_cons_of_mem _ hb)
    simp only [List.length_cons] at hmax hrest hmin
    rw [valFrom_cons] at hb ⊢
    have hn' : 0 ≤ n * 10 + ((d - 48 : Nat) : Int) := by omega
    have hle : n * 10 + ((d - 48 : Nat) : Int) ≤ I64_MAX := Int.le_trans (valFrom_mono ds _ hn') hb
    have hrec := ih (i + 1) (n * 10 + ((d - 48 : Nat) : Int)) hds hn'
      (fun m hm => by have := hmax m hm; omega)
      (by rcases hrest with h | h
          · exact Or.inl h
          · right; rw [h]; congr 1; omega)
      (by omega) hb
    have hstep : numberAux.step (d :: (ds ++ rest)) i min max n = .ok (rest, valFrom (n * 10 + ((d - 48 : Nat) : Int)) ds) := by
      simp only [numberAux.step, hdd, Bool.not_true, Bool.false_eq_true, if_false]
      rw [if_neg (by omega)]
      exact hrec
    rw [List.cons_append]
    unfold numberAux
    cases max with
    | none => exact hstep
    | some m =>
      simp only
      have := hmax m rfl
      rw [if_neg (by omega)]
      exact hstep

theorem number_digits (max : Option Nat) (ds rest : List Nat) (hd : AllDigits ds) (hne : ds ≠ [])
    (hmax : ∀ m, max = some m → ds.length ≤ m)
    (hrest : StopsDigits rest ∨ max = some ds.length) (hb : valOf ds ≤ I64_MAX) :
    number (ds ++ rest) 1 max = .ok (rest, valOf ds) := by
  have hl : 0 < ds.length := List.length_pos_iff.mpr hne
  unfold number
  rw [if_neg (by simp only [List.length_append]; omega)]
  exact numberAux_digits 1 max rest ds 0 0 hd (Int.le_refl _) (by simpa using hmax)
    (by simpa using hrest) (by omega) hb

/-! ### chains of tokens -/

/-- one iteration of the loop of `parse_internal` -/
def step (p : Parsed) (s : List Nat) (it : Item) : PRes (Parsed × List Nat) :=
  match it with
  | .fixed .rfc2822 => Parse.parse_rfc2822 p s
  | .fixed .rfc3339 => Parse.parse_rfc3339_relaxed p s
  | _ => Parse.parseItemBase p s it

theorem parse_internal_cons (p : Parsed) (s : List Nat) (it : Item) (is : List Item) :
    Parse.parse_internal p s (it :: is) =
      match step p s it with
      | .ok (p', s') => Parse.parse_internal p' s' is
      | .error e => .error e := by
  cases it with
  | fixed f => cases f <;> rfl
  | _ => rfl

/-- what one item contributes to a formatted text: its rendering and the setter call the reader
makes for it -/
structure Tok where
  text : List Nat
  set : Parsed → PRes Parsed

/-- reading the item from its rendering followed by `rest` consumes exactly the rendering and makes
exactly the setter call -/
def InvertsAt (it : Item) (tk : Tok) (rest : List Nat) : Prop :=
  ∀ p, step p (tk.text ++ rest) it = (tk.set p).map fun p' => (p', rest)

def applyAll : List Tok → Parsed → PRes Parsed
  | [], p => .ok p
  | tk :: tks, p =>
    match tk.set p with
    | .ok p' => applyAll tks p'
    | .error e => .error e

def flatText (tks : List Tok) : List Nat := (tks.map (·.text)).flatten

/-- every item inverts in front of what follows it -/
def Chain : List Item → List Tok → List Nat → Prop
  | [], [], _ => True
  | it :: is, tk :: tks, rest => InvertsAt it tk (flatText tks ++ rest) ∧ Chain is tks rest
  | _, _, _ => False

theorem chain_parse : ∀ (is : List Item) (tks : List Tok) (rest : List Nat) (p : Parsed),
    Chain is tks rest →
    Parse.parse_internal p (flatText tks ++ rest) is = (applyAll tks p).map fun p' => (p', rest) := by
  intro is
  induction is with
  | nil =>
    intro tks rest p h
    cases tks with
    | nil => rfl
    | cons _ _ => exact absurd h (by simp [Chain])
  | cons it is ih =>
    intro tks rest p h
    cases tks with
    | nil => exact absurd h (by simp [Chain])
    | cons tk tks =>
      obtain ⟨h1, h2⟩ := h
      rw [parse_internal_cons]
      have e : flatText (tk :: tks) ++ rest = tk.text ++ (flatText tks ++ rest) := by
        simp [flatText]
      rw [e, h1 p]
      simp only [applyAll]
      cases hs : tk.set p with
      | error e => rfl
      | ok p' => exact ih tks rest p' h2

theorem applyAll_congr : ∀ (tks tks' : List Tok) (p : Parsed),
    tks.map (·.set) = tks'.map (·.set) → applyAll tks p = applyAll tks' p := by
  intro tks
  induction tks with
  | nil =>
    intro tks' p h
    cases tks' with
    | nil => rfl
    | cons _ _ => simp at h
  | cons tk tks ih =>
    intro tks' p h
    cases tks' with
    | nil => simp at h
    | cons tk' tks' =>
      simp only [List.map_cons, List.cons.injEq] at h
      simp only [applyAll, h.1]
      cases tk'.set p with
      | error e => rfl
      | ok p' => exact ih tks' p' h.2

/-- a closed resolution result can be checked through a `Bool` (core `Except` has no `DecidableEq`) -/
theorem rp_eq_of_check {α} [DecidableEq α] (r : Parsed.RP α) (v : α)
    (h : (match r with | .ok (.ok a) => decide (a = v) | _ => false) = true) : r = .ok (.ok v) := by
  cases r with
  | panic => cases h
  | ok x =>
    cases x with
    | error e => cases h
    | ok a => simp only [decide_eq_true_eq] at h; rw [h]

/-! ### literals and white space -/

theorem literal_inverts (lit rest : List Nat) : InvertsAt (.literal lit) ⟨lit, .ok⟩ rest := by
  intro p
  simp only [step, Parse.parseItemBase, Parse.parseLiteral, List.length_append]
  rw [if_neg (by omega), List.take_left, if_neg (by simp), List.drop_left]
  rfl

/-- a text that starts with a white-space character: the character's bytes are a prefix that is read as
that one character whatever follows -/
theorem wsLen_prefix (s : List Nat) (h : wsLen s ≠ 0) :
    ∃ c r, s = c ++ r ∧ c.length = wsLen s ∧ c ≠ [] ∧ ∀ t, wsLen (c ++ t) = c.length := by
  cases s with
  | nil => simp [wsLen] at h
  | cons b rest =>
    by_cases h1 : (9 ≤ b ∧ b ≤ 13) ∨ b = 32
    · exact ⟨[b], rest, rfl, by simp [wsLen, h1], by simp, fun t => by simp [wsLen, h1]⟩
    · have two : ∀ c r, rest = c :: r → wsLen (b :: rest) = 2 →
          (∀ t, wsLen ([b, c] ++ t) = 2) →
          ∃ c' r', b :: rest = c' ++ r' ∧ c'.length = wsLen (b :: rest) ∧ c' ≠ [] ∧ ∀ t, wsLen (c' ++ t) = c'.length := by
        intro c r e hw ht
        subst e
        exact ⟨[b, c], r, rfl, by rw [hw]; rfl, by simp, fun t => by rw [ht t]; rfl⟩
      have three : ∀ c d r, rest = c :: d :: r → wsLen (b :: rest) = 3 →
          (∀ t, wsLen ([b, c, d] ++ t) = 3) →
          ∃ c' r', b :: rest = c' ++ r' ∧ c'.length = wsLen (b :: rest) ∧ c' ≠ [] ∧ ∀ t, wsLen (c' ++ t) = c'.length := by
        intro c d r e hw ht
        subst e
        exact ⟨[b, c, d], r, rfl, by rw [hw]; rfl, by simp, fun t => by rw [ht t]; rfl⟩
      rcases rest with _ | ⟨c, _ | ⟨d, r⟩⟩
      · exfalso; apply h; simp [wsLen, h1]
      · -- two bytes
        by_cases hb : b = 194 ∧ (c = 133 ∨ c = 160)
        · obtain ⟨rfl, hc⟩ := hb
          exact two c [] rfl (by simp [wsLen, hc]) (fun t => by simp [wsLen, hc])
        · exfalso; apply h
          simp only [wsLen, h1, if_false]
          split <;> simp_all
      · by_cases hb : b = 194 ∧ (c = 133 ∨ c = 160)
        · obtain ⟨rfl, hc⟩ := hb
          exact two c (d :: r) rfl (by simp [wsLen, hc]) (fun t => by simp [wsLen, hc])
        · by_cases h3 : wsLen (b :: c :: d :: r) = 3
          · refine three c d r rfl h3 (fun t => ?_)
            simp only [wsLen, h1, if_false] at h3 ⊢
            simp only [List.cons_append, List.nil_append]
            split at h3 <;> simp_all
          · exfalso; apply h
            simp only [wsLen, h1, if_false] at h3 ⊢
            split <;> simp_all
/-- a white-space item skips *any* run of white-space characters (also none), provided what
follows does not start with white space -/
theorem space_inverts (sp : List Nat) (cs : List (List Nat)) (rest : List Nat) (h : WsChars cs)
    (hr : wsLen rest = 0) : InvertsAt (.space sp) ⟨cs.flatten, .ok⟩ rest := by
  intro p
  simp only [step, Parse.parseItemBase]
  rw [trimStart_run cs rest h, trimStart_noop rest hr]
  rfl

/-! ### numeric items -/

theorem trimStart_spaces (k : Nat) (s : List Nat) : trimStart (List.replicate k 32 ++ s) = trimStart s := by
  induction k with
  | zero => simp
  | succ k ih =>
    rw [List.replicate_succ, List.cons_append]
    have := trimStart_char [32] (List.replicate k 32 ++ s) (by simp) (by simp [wsLen])
    simp only [List.singleton_append] at this
    rw [this, ih]

theorem trimStart_digits (ds rest : List Nat) (hd : AllDigits ds) (hne : ds ≠ []) :
    trimStart (ds ++ rest) = ds ++ rest := by
  cases ds with
  | nil => exact absurd rfl hne
  | cons d ds => exact trimStart_noop _ (wsLen_digit d _ (hd d List.mem_cons_self))

/-- the reader of an unsigned numeric item: skip white space, read at most `width` digits, call the
setter -/
theorem parseNumeric_unsigned (p : Parsed) (s : List Nat) (n : Numeric)
    (hs : (Parse.numericSpec n).2.1 = false) :
    Parse.parseNumeric p s n =
      match number (trimStart s) 1 (Parse.numericSpec n).1 with
      | .error e => .error e
      | .ok (s', v) =>
        match (Parse.numericSpec n).2.2 p v with
        | .ok p' => .ok (p', s')
        | .error e => .error e := by
  cases n <;> first | rfl | (exact absurd hs (by decide))

/-- `text` is `k` spaces followed by a non-empty digit run of value `v` that fits the width `w`
(and fills it when `fixed`) -/
def numText (text : List Nat) (v : Int) (w : Nat) (fixed : Bool) : Bool :=
  let ds := text.dropWhile (· == 32)
  let k := text.length - ds.length
  text == List.replicate k 32 ++ ds && !ds.isEmpty && ds.all isDigit && valOf ds == v &&
    decide (ds.length ≤ w) && (!fixed || ds.length == w) && decide (w ≤ 18)

theorem valOf_lt_pow (ds : List Nat) (hd : AllDigits ds) : valOf ds < 10 ^ ds.length := by
  have key : ∀ (ds : List Nat) (n : Int) (k : Nat), AllDigits ds → n < 10 ^ k → valFrom n ds < 10 ^ (k + ds.length) := by
    intro ds
    induction ds with
    | nil => intro n k _ h; simpa [valFrom] using h
    | cons d ds ih =>
      intro n k hd h
      have hdd := hd d List.mem_cons_self
      simp only [isDigit, Bool.and_eq_true, decide_eq_true_eq] at hdd
      rw [valFrom_cons]
      have h2 : n * 10 + ((d - 48 : Nat) : Int) < 10 ^ (k + 1) := by
        rw [Int.pow_succ]; omega
      have := ih _ (k + 1) (fun b hb => hd b (List.mem_cons_of_mem _ hb)) h2
      simpa [List.length_cons, Nat.add_assoc, Nat.add_comm 1] using this
  have := key ds 0 0 hd (by decide)
  simpa [valOf] using this

theorem numText_inverts (n : Numeric) (pad : Pad) (text rest : List Nat) (v : Int) (w : Nat)
    (fixed : Bool) (hs : (Parse.numericSpec n).2.1 = false) (hw : (Parse.numericSpec n).1 = some w)
    (ht : numText text v w fixed = true) (hrest : StopsDigits rest ∨ fixed = true) :
    InvertsAt (.numeric n pad) ⟨text, fun p => (Parse.numericSpec n).2.2 p v⟩ rest := by
  intro p
  simp only [numText, Bool.and_eq_true, beq_iff_eq, Bool.not_eq_true', List.isEmpty_eq_false_iff,
    List.all_eq_true, decide_eq_true_eq, Bool.or_eq_true] at ht
  obtain ⟨⟨⟨⟨⟨⟨htext, hne⟩, hall⟩, hval⟩, hlen⟩, hfix⟩, hw18⟩ := ht
  generalize text.dropWhile (· == 32) = ds at *
  generalize text.length - ds.length = k at *
  subst htext
  have hd : AllDigits ds := hall
  have hb : valOf ds ≤ I64_MAX := by
    have h1 := valOf_lt_pow ds hd
    have h3 : ∀ a : Nat, a ≤ 18 → (10 : Int) ^ a ≤ 10 ^ 18 := by decide
    have h2 : (10 : Int) ^ ds.length ≤ 10 ^ 18 := h3 _ (by omega)
    have : (10 : Int) ^ 18 ≤ I64_MAX := by decide
    omega
  have hnum : number (ds ++ rest) 1 (some w) = .ok (rest, valOf ds) :=
    number_digits (some w) ds rest hd hne (fun m hm => by cases hm; exact hlen)
      (by rcases hrest with h | h
          · exact Or.inl h
          · right; rcases hfix with h' | h'
            · rw [h] at h'; cases h'
            · rw [h']) hb
  show Parse.parseItemBase p (List.replicate k 32 ++ ds ++ rest) (.numeric n pad) = _
  simp only [Parse.parseItemBase]
  rw [parseNumeric_unsigned p _ n hs, hw, List.append_assoc, trimStart_spaces,
    trimStart_digits ds rest hd hne, hnum, hval]
  dsimp only
  cases hset : (Parse.numericSpec n).2.2 p v <;> rfl

/-- the two-digit writer: spaces/zero padding and the decimal digits of the value -/
theorem write_two_numText (v : Nat) (hv : v < 100) (pad : Pad) :
    numText (Format.write_two (v : Int) pad) (v : Int) 2 (pad == .zero) = true := by
  have key : ∀ v : Nat, v < 100 →
      (numText (Format.write_two (v : Int) .none) (v : Int) 2 false &&
       numText (Format.write_two (v : Int) .zero) (v : Int) 2 true &&
       numText (Format.write_two (v : Int) .space) (v : Int) 2 false) = true := by decide +kernel
  have := key v hv
  simp only [Bool.and_eq_true] at this
  cases pad
  · exact this.1.1
  · exact this.1.2
  · exact this.2

theorem write_one_numText : ∀ v : Nat, v < 10 → numText (Format.write_one (v : Int)) (v : Int) 1 true = true := by
  decide +kernel

/-- the three-digit writer of the ordinal -/
theorem write_n3_numText (v : Nat) (hv : v < 1000) (pad : Pad) :
    numText (Format.write_n 3 (v : Int) pad false) (v : Int) 3 (pad == .zero) = true := by
  have key : ∀ v : Nat, v < 1000 →
      (numText (Format.write_n 3 (v : Int) .none false) (v : Int) 3 false &&
       numText (Format.write_n 3 (v : Int) .zero false) (v : Int) 3 true &&
       numText (Format.write_n 3 (v : Int) .space false) (v : Int) 3 false) = true := by decide +kernel
  have := key v hv
  simp only [Bool.and_eq_true] at this
  cases pad
  · exact this.1.1
  · exact this.1.2
  · exact this.2

/-- the two-digit writer of the century (`%C`, `write_n 2`) -/
theorem write_n2_numText (v : Nat) (hv : v < 100) (pad : Pad) :
    numText (Format.write_n 2 (v : Int) pad false) (v : Int) 2 (pad == .zero) = true := by
  have key : ∀ v : Nat, v < 100 →
      (numText (Format.write_n 2 (v : Int) .none false) (v : Int) 2 false &&
       numText (Format.write_n 2 (v : Int) .zero false) (v : Int) 2 true &&
       numText (Format.write_n 2 (v : Int) .space false) (v : Int) 2 false) = true := by decide +kernel
  have := key v hv
  simp only [Bool.and_eq_true] at this
  cases pad
  · exact this.1.1
  · exact this.1.2
  · exact this.2

theorem stops_or_zero (pad : Pad) (rest : List Nat) (h : StopsDigits rest ∨ pad = .zero) :
    StopsDigits rest ∨ (pad == .zero) = true := by
  rcases h with h | h
  · exact Or.inl h
  · right; subst h; rfl

/-! ### am/pm -/

theorem or32_of_lowerB (a x : Nat) (hx : 97 ≤ x ∧ x ≤ 122) (h : lowerB a = x) : or32 a = x := by
  unfold lowerB at h
  unfold or32
  split at h <;> split <;> omega

/-- `%p`/`%P` read `AM`/`PM` in any letter case -/
theorem ampm_inverts (f : Fixed) (hf : f = .lowerAmPm ∨ f = .upperAmPm) (pm : Bool) (a b : Nat)
    (rest : List Nat) (ha : lowerB a = (if pm then 112 else 97)) (hb : lowerB b = 109) :
    InvertsAt (.fixed f) ⟨[a, b], fun p => p.set_ampm pm⟩ rest := by
  intro p
  have hb' : or32 b = 109 := or32_of_lowerB b 109 (by omega) hb
  have ha' : or32 a = (if pm then 112 else 97) := by
    cases pm
    · exact or32_of_lowerB a 97 (by omega) ha
    · exact or32_of_lowerB a 112 (by omega) ha
  rcases hf with rfl | rfl <;> cases pm <;>
    simp [step, Parse.parseItemBase, Parse.parseFixedBase, ha', hb', Except.map] at ha' ⊢ <;>
    cases p.set_ampm _ <;> rfl

/-! ### names: read in any letter case -/

theorem or32_alpha (x : Nat) (hx : isAsciiAlpha x = true) :
    or32 x = lowerB x ∧ 97 ≤ lowerB x ∧ lowerB x ≤ 122 := by
  simp only [isAsciiAlpha, Bool.or_eq_true, Bool.and_eq_true, decide_eq_true_eq] at hx
  unfold or32 lowerB
  split <;> split <;> omega

theorem or32_of_case (a x : Nat) (hx : isAsciiAlpha x = true) (h : lowerB a = lowerB x) :
    or32 a = or32 x := by
  obtain ⟨h1, h2⟩ := or32_alpha x hx
  rw [h1]; exact or32_of_lowerB a _ h2 h

theorem short_name_reads (tbl : List (List Nat)) (a b c i : Nat) (t rest : List Nat)
    (ha : isAsciiAlpha a = true) (hb : isAsciiAlpha b = true) (hc : isAsciiAlpha c = true)
    (hidx : findIdx tbl [or32 a, or32 b, or32 c] = some i) (ht : lowerS t = lowerS [a, b, c]) :
    short_name tbl (t ++ rest) = .ok (rest, i) := by
  have hl : t.length = 3 := by simpa [lowerS] using congrArg List.length ht
  rcases t with _ | ⟨a', _ | ⟨b', _ | ⟨c', _ | ⟨d', t'⟩⟩⟩⟩ <;> simp at hl
  simp only [lowerS, List.map_cons, List.map_nil, List.cons.injEq, and_true] at ht
  obtain ⟨h1, h2, h3⟩ := ht
  simp only [short_name, List.cons_append, List.nil_append, or32_of_case a' a ha h1,
    or32_of_case b' b hb h2, or32_of_case c' c hc h3, hidx]

theorem eatSuffix_reads (suf tsuf rest : List Nat) (h : lowerS tsuf = lowerS suf) :
    eatSuffix (tsuf ++ rest) suf = rest := by
  have hl : tsuf.length = suf.length := by simpa [lowerS] using congrArg List.length h
  unfold eatSuffix
  rw [← hl, List.take_left, List.drop_left, if_pos ⟨by simp, h⟩]

/-- a name `n3 ++ nsuf` in any letter case splits into its three-letter head and the rest -/
theorem split_case (t n3 nsuf : List Nat) (h3 : n3.length = 3) (h : lowerS t = lowerS (n3 ++ nsuf)) :
    lowerS (t.take 3) = lowerS n3 ∧ lowerS (t.drop 3) = lowerS nsuf := by
  unfold lowerS at *
  constructor
  · rw [List.map_take, h, List.map_append, List.take_left' (by simp [h3])]
  · rw [List.map_drop, h, List.map_append, List.drop_left' (by simp [h3])]

/-- table facts, checked on the extracted tables: the default short month name `m0` is three ASCII
letters that the reader's table maps to `m0`, and the long name is the short one plus the reader's
suffix (up to letter case) -/
def monthNameOk (m0 : Nat) : Bool :=
  match Extracted.LOC_SHORT_MONTHS.getD m0 [] with
  | [a, b, c] =>
    isAsciiAlpha a && isAsciiAlpha b && isAsciiAlpha c &&
    findIdx Extracted.SHORT_MONTHS [or32 a, or32 b, or32 c] == some m0 &&
    (Extracted.LOC_LONG_MONTHS.getD m0 []).take 3 == [a, b, c] &&
    lowerS ((Extracted.LOC_LONG_MONTHS.getD m0 []).drop 3) == lowerS (Extracted.LONG_MONTH_SUFFIXES.getD m0 [])
  | _ => false

theorem monthNames_ok : ∀ m0 : Nat, m0 < 12 → monthNameOk m0 = true := by decide

/-- `%b`/`%h` and `%B`: the default month names are read back in any letter case -/
theorem month_name_reads (m0 : Nat) (hm : m0 < 12) (t rest : List Nat) :
    (lowerS t = lowerS (Extracted.LOC_SHORT_MONTHS.getD m0 []) → short_month0 (t ++ rest) = .ok (rest, m0)) ∧
    (lowerS t = lowerS (Extracted.LOC_LONG_MONTHS.getD m0 []) → short_or_long_month0 (t ++ rest) = .ok (rest, m0)) := by
  have hk := monthNames_ok m0 hm
  unfold monthNameOk at hk
  split at hk
  · rename_i a b c hs
    simp only [Bool.and_eq_true, beq_iff_eq] at hk
    obtain ⟨⟨⟨⟨⟨ha, hb⟩, hc⟩, hidx⟩, htake⟩, hsuf⟩ := hk
    constructor
    · intro ht
      rw [hs] at ht
      exact short_name_reads _ a b c m0 t rest ha hb hc hidx ht
    · intro ht
      have hlong : Extracted.LOC_LONG_MONTHS.getD m0 [] = [a, b, c] ++ (Extracted.LOC_LONG_MONTHS.getD m0 []).drop 3 := by
        rw [← htake, List.take_append_drop]
      rw [hlong] at ht
      obtain ⟨h3, hd⟩ := split_case t [a, b, c] _ rfl ht
      have e : t ++ rest = t.take 3 ++ (t.drop 3 ++ rest) := by
        rw [← List.append_assoc, List.take_append_drop]
      unfold short_or_long_month0 short_month0
      rw [e, short_name_reads _ a b c m0 (t.take 3) _ ha hb hc hidx h3]
      simp only
      rw [eatSuffix_reads _ _ rest (hd.trans hsuf)]
  · cases hk

/-- the same facts for weekdays; names are indexed by `num_days_from_sunday` in the writer's
tables, by `num_days_from_monday` in the reader's suffix table -/
def weekdayNameOk (w : Weekday) : Bool :=
  match Extracted.LOC_SHORT_WEEKDAYS.getD w.num_days_from_sunday [] with
  | [a, b, c] =>
    isAsciiAlpha a && isAsciiAlpha b && isAsciiAlpha c &&
    (match findIdx Extracted.SHORT_WEEKDAYS [or32 a, or32 b, or32 c] with
     | some i => weekdayOfIdx i == some w
     | none => false) &&
    (Extracted.LOC_LONG_WEEKDAYS.getD w.num_days_from_sunday []).take 3 == [a, b, c] &&
    lowerS ((Extracted.LOC_LONG_WEEKDAYS.getD w.num_days_from_sunday []).drop 3) ==
      lowerS (Extracted.LONG_WEEKDAY_SUFFIXES.getD w.num_days_from_monday [])
  | _ => false

theorem weekdayNames_ok (w : Weekday) : weekdayNameOk w = true := by cases w <;> decide

theorem weekday_name_reads (w : Weekday) (t rest : List Nat) :
    (lowerS t = lowerS (Extracted.LOC_SHORT_WEEKDAYS.getD w.num_days_from_sunday []) →
      short_weekday (t ++ rest) = .ok (rest, w)) ∧
    (lowerS t = lowerS (Extracted.LOC_LONG_WEEKDAYS.getD w.num_days_from_sunday []) →
      short_or_long_weekday (t ++ rest) = .ok (rest, w)) := by
  have hk := weekdayNames_ok w
  unfold weekdayNameOk at hk
  split at hk
  · rename_i a b c hs
    simp only [Bool.and_eq_true, beq_iff_eq] at hk
    obtain ⟨⟨⟨⟨⟨ha, hb⟩, hc⟩, hidx⟩, htake⟩, hsuf⟩ := hk
    split at hidx
    · rename_i i hi
      simp only [beq_iff_eq] at hidx
      have hshort : ∀ (t' r : List Nat), lowerS t' = lowerS [a, b, c] → short_weekday (t' ++ r) = .ok (r, w) := by
        intro t' r ht'
        unfold short_weekday
        rw [short_name_reads _ a b c i t' r ha hb hc hi ht']
        simp only [hidx]
      constructor
      · intro ht
        rw [hs] at ht
        exact hshort t rest ht
      · intro ht
        have hlong : Extracted.LOC_LONG_WEEKDAYS.getD w.num_days_from_sunday [] =
            [a, b, c] ++ (Extracted.LOC_LONG_WEEKDAYS.getD w.num_days_from_sunday []).drop 3 := by
          rw [← htake, List.take_append_drop]
        rw [hlong] at ht
        obtain ⟨h3, hd⟩ := split_case t [a, b, c] _ rfl ht
        have e : t ++ rest = t.take 3 ++ (t.drop 3 ++ rest) := by
          rw [← List.append_assoc, List.take_append_drop]
        unfold short_or_long_weekday
        rw [e, hshort (t.take 3) _ h3]
        simp only
        rw [eatSuffix_reads _ _ rest (hd.trans hsuf)]
    · cases hidx
  · cases hk

end Chrono.Proofs.RoundTrip
