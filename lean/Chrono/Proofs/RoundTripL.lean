/-
  Helper lemmas for C13 (format-string round trip): white-space skipping, the decimal scanner
  `Scan.number` on a run of digits, the digit printer `Delta.natDigits`, and the generic chain lemma
  that lifts per-item inversion to item lists.  Namespace `Chrono.Proofs.RoundTrip`.
-/
import Chrono.Model.ParseFrom

namespace Chrono.Proofs.RoundTrip
open Chrono Chrono.M Chrono.M.Scan

/-! ### `trim_start` -/

theorem trimStartAux_fuel : ∀ (f1 f2 : Nat) (s : List Nat), s.length ≤ f1 → s.length ≤ f2 →
    trimStartAux f1 s = trimStartAux f2 s := by
  intro f1
  induction f1 with
  | zero =>
    intro f2 s h1 _
    have : s = [] := List.eq_nil_of_length_eq_zero (by omega)
    subst this
    cases f2 <;> simp [trimStartAux, wsLen]
  | succ f ih =>
    intro f2 s h1 h2
    cases f2 with
    | zero =>
      have : s = [] := List.eq_nil_of_length_eq_zero (by omega)
      subst this
      simp [trimStartAux, wsLen]
    | succ g =>
      simp only [trimStartAux]
      by_cases hn : wsLen s = 0
      · simp [hn]
      · simp only [hn, if_false]
        apply ih
        · simp only [List.length_drop]; omega
        · simp only [List.length_drop]; omega

/-- a string that does not start with white space is left alone -/
theorem trimStart_noop (s : List Nat) (h : wsLen s = 0) : trimStart s = s := by
  unfold trimStart
  cases hs : s.length with
  | zero => simp [trimStartAux]
  | succ n => simp [trimStartAux, h]

/-- one white-space character `c` (its UTF-8 bytes) in front is skipped -/
theorem trimStart_char (c s : List Nat) (hc : c ≠ []) (h : wsLen (c ++ s) = c.length) :
    trimStart (c ++ s) = trimStart s := by
  have hl : 0 < c.length := List.length_pos_iff.mpr hc
  unfold trimStart
  rw [show (c ++ s).length = (c.length + s.length - 1) + 1 by simp only [List.length_append]; omega]
  simp only [trimStartAux, h]
  rw [if_neg (by omega), List.drop_left]
  exact trimStartAux_fuel _ _ _ (by omega) (Nat.le_refl _)

/-- `cs` is a list of white-space characters, each given by its UTF-8 bytes -/
def WsChars (cs : List (List Nat)) : Prop := ∀ c ∈ cs, c ≠ [] ∧ ∀ s, wsLen (c ++ s) = c.length

theorem trimStart_run (cs : List (List Nat)) (s : List Nat) (h : WsChars cs) :
    trimStart (cs.flatten ++ s) = trimStart s := by
  induction cs with
  | nil => simp
  | cons c cs ih =>
    have hc := h c (List.mem_cons_self)
    rw [List.flatten_cons, List.append_assoc, trimStart_char c _ hc.1 (hc.2 _)]
    exact ih (fun c' hc' => h c' (List.mem_cons_of_mem _ hc'))

/-- the ASCII white-space bytes -/
def isAsciiWs (b : Nat) : Bool := (decide (9 ≤ b) && decide (b ≤ 13)) || b == 32

theorem wsLen_asciiWs (b : Nat) (s : List Nat) (h : isAsciiWs b = true) : wsLen (b :: s) = 1 := by
  have : (9 ≤ b ∧ b ≤ 13) ∨ b = 32 := by
    simp only [isAsciiWs, Bool.or_eq_true, Bool.and_eq_true, decide_eq_true_eq, beq_iff_eq] at h
    exact h
  simp only [wsLen, this, if_true]

theorem wsLen_digit (b : Nat) (s : List Nat) (h : isDigit b = true) : wsLen (b :: s) = 0 := by
  simp only [isDigit, Bool.and_eq_true, decide_eq_true_eq] at h
  have h1 : ¬ ((9 ≤ b ∧ b ≤ 13) ∨ b = 32) := by omega
  simp only [wsLen, h1, if_false]
  split <;> first | rfl | omega

/-! ### the decimal scanner on a run of digits -/

/-- every byte is an ASCII digit -/
def AllDigits (ds : List Nat) : Prop := ∀ b ∈ ds, isDigit b = true

/-- value of a digit run read after the value `n` -/
def valFrom (n : Int) (ds : List Nat) : Int := ds.foldl (fun v b => v * 10 + ((b - 48 : Nat) : Int)) n
/-- value of a digit run -/
def valOf (ds : List Nat) : Int := valFrom 0 ds

theorem valFrom_cons (n : Int) (d : Nat) (ds : List Nat) :
    valFrom n (d :: ds) = valFrom (n * 10 + ((d - 48 : Nat) : Int)) ds := rfl

theorem valFrom_mono (ds : List Nat) : ∀ n : Int, 0 ≤ n → n ≤ valFrom n ds := by
  induction ds with
  | nil => intro n _; exact Int.le_refl _
  | cons d ds ih =>
    intro n hn
    rw [valFrom_cons]
    have h1 : 0 ≤ n * 10 + ((d - 48 : Nat) : Int) := by omega
    have := ih _ h1
    omega

/-- what may follow a token that reads digits greedily: the end, or a byte that is not a digit -/
def StopsDigits (rest : List Nat) : Prop := ∀ b t, rest = b :: t → isDigit b = false

/-- `scan::number` on `ds ++ rest`: it takes exactly the digit run `ds` when that run fits the
maximal width and either fills it or is followed by a non-digit -/
theorem numberAux_digits (min : Nat) (max : Option Nat) (rest : List Nat) :
    ∀ (ds : List Nat) (i : Nat) (n : Int), AllDigits ds → 0 ≤ n →
    (∀ m, max = some m → i + ds.length ≤ m) →
    (StopsDigits rest ∨ max = some (i + ds.length)) →
    min ≤ i + ds.length → valFrom n ds ≤ I64_MAX →
    numberAux (ds ++ rest) i min max n = .ok (rest, valFrom n ds) := by
  intro ds
  induction ds with
  | nil =>
    intro i n _ _ hmax hrest hmin _
    simp only [List.nil_append, List.length_nil, Nat.add_zero] at *
    unfold numberAux
    rcases hrest with hr | hr
    · have hstep : numberAux.step rest i min max n = .ok (rest, valFrom n []) := by
        cases rest with
        | nil => simp [numberAux.step, valFrom]
        | cons c t =>
          have := hr c t rfl
          simp [numberAux.step, this, valFrom, Nat.not_lt.mpr hmin]
      cases max with
      | none => exact hstep
      | some m =>
        simp only
        by_cases h : i ≥ m
        · simp [h, valFrom]
        · simp only [h, if_false]; exact hstep
    · subst hr
      simp [valFrom]
  | cons d ds ih =>
    intro i n hd hn hmax hrest hmin hb
    have hdd : isDigit d = true := hd d (List.mem_cons_self)
    have hds : AllDigits ds := fun b hb => hd b (List.mem_cons_of_mem _ hb)
    simp only [List.length_cons] at hmax hrest hmin
    rw [valFrom_cons] at hb ⊢
    have hn' : 0 ≤ n * 10 + ((d - 48 : Nat) : Int) := by omega
    have hle : n * 10 + ((d - 48 : Nat) : Int) ≤ I64_MAX := Int.le_trans (valFrom_mono ds _ hn') hb
    have hrec := ih (i + 1) (n * 10 + ((d - 48 : Nat) : Int)) hds hn'
      (fun m hm => by have := hmax m hm; omega)
      (by rcases hrest with h | h
          · exact Or.inl h
          · right; rw [h]; congr 1; omega)
      (by omega) hb
    have hstep : numberAux.step (d :: (ds ++ rest)) i min max n = .ok (rest, valFrom (n * 10 + ((d - 48 : Nat) : Int)) ds) := by
      simp only [numberAux.step, hdd, Bool.not_true, Bool.false_eq_true, if_false]
      rw [if_neg (by omega)]
      exact hrec
    rw [List.cons_append]
    unfold numberAux
    cases max with
    | none => exact hstep
    | some m =>
      simp only
      have := hmax m rfl
      rw [if_neg (by omega)]
      exact hstep

theorem number_digits (max : Option Nat) (ds rest : List Nat) (hd : AllDigits ds) (hne : ds ≠ [])
    (hmax : ∀ m, max = some m → ds.length ≤ m)
    (hrest : StopsDigits rest ∨ max = some ds.length) (hb : valOf ds ≤ I64_MAX) :
    number (ds ++ rest) 1 max = .ok (rest, valOf ds) := by
  have hl : 0 < ds.length := List.length_pos_iff.mpr hne
  unfold number
  rw [if_neg (by simp only [List.length_append]; omega)]
  exact numberAux_digits 1 max rest ds 0 0 hd (Int.le_refl _) (by simpa using hmax)
    (by simpa using hrest) (by omega) hb

/-! ### chains of tokens -/

/-- one iteration of the loop of `parse_internal` -/
def step (p : Parsed) (s : List Nat) (it : Item) : PRes (Parsed × List Nat) :=
  match it with
  | .fixed .rfc2822 => Parse.parse_rfc2822 p s
  | .fixed .rfc3339 => Parse.parse_rfc3339_relaxed p s
  | _ => Parse.parseItemBase p s it

theorem parse_internal_cons (p : Parsed) (s : List Nat) (it : Item) (is : List Item) :
    Parse.parse_internal p s (it :: is) =
      match step p s it with
      | .ok (p', s') => Parse.parse_internal p' s' is
      | .error e => .error e := by
  cases it with
  | fixed f => cases f <;> rfl
  | _ => rfl

/-- what one item contributes to a formatted text: its rendering and the setter call the reader
makes for it -/
structure Tok where
  text : List Nat
  set : Parsed → PRes Parsed

/-- reading the item from its rendering followed by `rest` consumes exactly the rendering and makes
exactly the setter call -/
def InvertsAt (it : Item) (tk : Tok) (rest : List Nat) : Prop :=
  ∀ p, step p (tk.text ++ rest) it = (tk.set p).map fun p' => (p', rest)

def applyAll : List Tok → Parsed → PRes Parsed
  | [], p => .ok p
  | tk :: tks, p =>
    match tk.set p with
    | .ok p' => applyAll tks p'
    | .error e => .error e

def flatText (tks : List Tok) : List Nat := (tks.map (·.text)).flatten

/-- every item inverts in front of what follows it -/
def Chain : List Item → List Tok → List Nat → Prop
  | [], [], _ => True
  | it :: is, tk :: tks, rest => InvertsAt it tk (flatText tks ++ rest) ∧ Chain is tks rest
  | _, _, _ => False

theorem chain_parse : ∀ (is : List Item) (tks : List Tok) (rest : List Nat) (p : Parsed),
    Chain is tks rest →
    Parse.parse_internal p (flatText tks ++ rest) is = (applyAll tks p).map fun p' => (p', rest) := by
  intro is
  induction is with
  | nil =>
    intro tks rest p h
    cases tks with
    | nil => rfl
    | cons _ _ => exact absurd h (by simp [Chain])
  | cons it is ih =>
    intro tks rest p h
    cases tks with
    | nil => exact absurd h (by simp [Chain])
    | cons tk tks =>
      obtain ⟨h1, h2⟩ := h
      rw [parse_internal_cons]
      have e : flatText (tk :: tks) ++ rest = tk.text ++ (flatText tks ++ rest) := by
        simp [flatText]
      rw [e, h1 p]
      simp only [applyAll]
      cases hs : tk.set p with
      | error e => rfl
      | ok p' => exact ih tks rest p' h2

/-! ### literals and white space -/

theorem literal_inverts (lit rest : List Nat) : InvertsAt (.literal lit) ⟨lit, .ok⟩ rest := by
  intro p
  simp only [step, Parse.parseItemBase, Parse.parseLiteral, List.length_append]
  rw [if_neg (by omega), List.take_left, if_neg (by simp), List.drop_left]
  rfl

/-- a white-space item skips *any* run of white-space characters (also none), provided what
follows does not start with white space -/
theorem space_inverts (sp : List Nat) (cs : List (List Nat)) (rest : List Nat) (h : WsChars cs)
    (hr : wsLen rest = 0) : InvertsAt (.space sp) ⟨cs.flatten, .ok⟩ rest := by
  intro p
  simp only [step, Parse.parseItemBase]
  rw [trimStart_run cs rest h, trimStart_noop rest hr]
  rfl

/-! ### numeric items -/

theorem trimStart_spaces (k : Nat) (s : List Nat) : trimStart (List.replicate k 32 ++ s) = trimStart s := by
  induction k with
  | zero => simp
  | succ k ih =>
    rw [List.replicate_succ, List.cons_append]
    have := trimStart_char [32] (List.replicate k 32 ++ s) (by simp) (by simp [wsLen])
    simp only [List.singleton_append] at this
    rw [this, ih]

theorem trimStart_digits (ds rest : List Nat) (hd : AllDigits ds) (hne : ds ≠ []) :
    trimStart (ds ++ rest) = ds ++ rest := by
  cases ds with
  | nil => exact absurd rfl hne
  | cons d ds => exact trimStart_noop _ (wsLen_digit d _ (hd d List.mem_cons_self))

/-- the reader of an unsigned numeric item: skip white space, read at most `width` digits, call the
setter -/
theorem parseNumeric_unsigned (p : Parsed) (s : List Nat) (n : Numeric)
    (hs : (Parse.numericSpec n).2.1 = false) :
    Parse.parseNumeric p s n =
      match number (trimStart s) 1 (Parse.numericSpec n).1 with
      | .error e => .error e
      | .ok (s', v) =>
        match (Parse.numericSpec n).2.2 p v with
        | .ok p' => .ok (p', s')
        | .error e => .error e := by
  cases n <;> first | rfl | (exact absurd hs (by decide))

/-- `text` is `k` spaces followed by a non-empty digit run of value `v` that fits the width `w`
(and fills it when `fixed`) -/
def numText (text : List Nat) (v : Int) (w : Nat) (fixed : Bool) : Bool :=
  let ds := text.dropWhile (· == 32)
  let k := text.length - ds.length
  text == List.replicate k 32 ++ ds && !ds.isEmpty && ds.all isDigit && valOf ds == v &&
    decide (ds.length ≤ w) && (!fixed || ds.length == w) && decide (w ≤ 18)

theorem valOf_lt_pow (ds : List Nat) (hd : AllDigits ds) : valOf ds < 10 ^ ds.length := by
  have key : ∀ (ds : List Nat) (n : Int) (k : Nat), AllDigits ds → n < 10 ^ k → valFrom n ds < 10 ^ (k + ds.length) := by
    intro ds
    induction ds with
    | nil => intro n k _ h; simpa [valFrom] using h
    | cons d ds ih =>
      intro n k hd h
      have hdd := hd d List.mem_cons_self
      simp only [isDigit, Bool.and_eq_true, decide_eq_true_eq] at hdd
      rw [valFrom_cons]
      have h2 : n * 10 + ((d - 48 : Nat) : Int) < 10 ^ (k + 1) := by
        rw [Int.pow_succ]; omega
      have := ih _ (k + 1) (fun b hb => hd b (List.mem_cons_of_mem _ hb)) h2
      simpa [List.length_cons, Nat.add_assoc, Nat.add_comm 1] using this
  have := key ds 0 0 hd (by decide)
  simpa [valOf] using this

theorem numText_inverts (n : Numeric) (pad : Pad) (text rest : List Nat) (v : Int) (w : Nat)
    (fixed : Bool) (hs : (Parse.numericSpec n).2.1 = false) (hw : (Parse.numericSpec n).1 = some w)
    (ht : numText text v w fixed = true) (hrest : StopsDigits rest ∨ fixed = true) :
    InvertsAt (.numeric n pad) ⟨text, fun p => (Parse.numericSpec n).2.2 p v⟩ rest := by
  intro p
  simp only [numText, Bool.and_eq_true, beq_iff_eq, Bool.not_eq_true', List.isEmpty_eq_false_iff,
    List.all_eq_true, decide_eq_true_eq, Bool.or_eq_true] at ht
  obtain ⟨⟨⟨⟨⟨⟨htext, hne⟩, hall⟩, hval⟩, hlen⟩, hfix⟩, hw18⟩ := ht
  generalize text.dropWhile (· == 32) = ds at *
  generalize text.length - ds.length = k at *
  subst htext
  have hd : AllDigits ds := hall
  have hb : valOf ds ≤ I64_MAX := by
    have h1 := valOf_lt_pow ds hd
    have h3 : ∀ a : Nat, a ≤ 18 → (10 : Int) ^ a ≤ 10 ^ 18 := by decide
    have h2 : (10 : Int) ^ ds.length ≤ 10 ^ 18 := h3 _ (by omega)
    have : (10 : Int) ^ 18 ≤ I64_MAX := by decide
    omega
  have hnum : number (ds ++ rest) 1 (some w) = .ok (rest, valOf ds) :=
    number_digits (some w) ds rest hd hne (fun m hm => by cases hm; exact hlen)
      (by rcases hrest with h | h
          · exact Or.inl h
          · right; rcases hfix with h' | h'
            · rw [h] at h'; cases h'
            · rw [h']) hb
  show Parse.parseItemBase p (List.replicate k 32 ++ ds ++ rest) (.numeric n pad) = _
  simp only [Parse.parseItemBase]
  rw [parseNumeric_unsigned p _ n hs, hw, List.append_assoc, trimStart_spaces,
    trimStart_digits ds rest hd hne, hnum, hval]
  dsimp only
  cases hset : (Parse.numericSpec n).2.2 p v <;> rfl

/-- the two-digit writer: spaces/zero padding and the decimal digits of the value -/
theorem write_two_numText (v : Nat) (hv : v < 100) (pad : Pad) :
    numText (Format.write_two (v : Int) pad) (v : Int) 2 (pad == .zero) = true := by
  have key : ∀ v : Nat, v < 100 →
      (numText (Format.write_two (v : Int) .none) (v : Int) 2 false &&
       numText (Format.write_two (v : Int) .zero) (v : Int) 2 true &&
       numText (Format.write_two (v : Int) .space) (v : Int) 2 false) = true := by decide +kernel
  have := key v hv
  simp only [Bool.and_eq_true] at this
  cases pad
  · exact this.1.1
  · exact this.1.2
  · exact this.2

theorem write_one_numText : ∀ v : Nat, v < 10 → numText (Format.write_one (v : Int)) (v : Int) 1 true = true := by
  decide +kernel

/-- the three-digit writer of the ordinal -/
theorem write_n3_numText (v : Nat) (hv : v < 1000) (pad : Pad) :
    numText (Format.write_n 3 (v : Int) pad false) (v : Int) 3 (pad == .zero) = true := by
  have key : ∀ v : Nat, v < 1000 →
      (numText (Format.write_n 3 (v : Int) .none false) (v : Int) 3 false &&
       numText (Format.write_n 3 (v : Int) .zero false) (v : Int) 3 true &&
       numText (Format.write_n 3 (v : Int) .space false) (v : Int) 3 false) = true := by decide +kernel
  have := key v hv
  simp only [Bool.and_eq_true] at this
  cases pad
  · exact this.1.1
  · exact this.1.2
  · exact this.2

end Chrono.Proofs.RoundTrip
