/- Helper lemmas for the C03 audit gaps: length hints as pairs, hint tracking per step, interleaved
   iterator calls, date-time ± Days, std::time::Duration forms, `expect` forms in range terms,
   assign forms, order of zone-aware values. -/
import Chrono.Proofs.IterL
import Chrono.Model.ArithExt
import Chrono.Spec.ArithExtSpec

namespace Chrono.Proofs.ArithExt
open Chrono Chrono.M Chrono.Spec Chrono.Proofs Chrono.Extracted

/-! ### size_hint as a pair -/

theorem days_pair_eq (v : Date) : DaysIter.size_hint_pair v =
    (DaysIter.size_hint v).bind fun n => .ok (asUsize n, some (asUsize n)) := by
  unfold DaysIter.size_hint_pair DaysIter.size_hint
  cases Date.signed_duration_since Date.MAX v <;> rfl

theorem weeks_pair_eq (v : Date) : WeeksIter.size_hint_pair v =
    (WeeksIter.size_hint v).bind fun n => .ok (asUsize n, some (asUsize n)) := by
  unfold WeeksIter.size_hint_pair WeeksIter.size_hint
  cases Date.signed_duration_since Date.MAX v <;> rfl

theorem asUsize_id (n : Int) (h : 0 ≤ n ∧ n ≤ 191491528) : asUsize n = n := by
  unfold asUsize; omega

theorem hint_pair_spec (v : Date) (hv : DateInv v) :
    DaysIter.size_hint_pair v = .ok (95745399 - dayNumOf v, some (95745399 - dayNumOf v)) ∧
    WeeksIter.size_hint_pair v =
      .ok ((95745399 - dayNumOf v) / 7, some ((95745399 - dayNumOf v) / 7)) := by
  obtain ⟨s1, s2⟩ := size_hint_spec v hv
  obtain ⟨f1, f2, _, _⟩ := stepsFit_eq (dayNumOf v)
  have hb := dn_bounds v hv
  rw [f1] at s1; rw [f2] at s2
  rw [days_pair_eq, weeks_pair_eq, s1, s2]
  constructor
  · show Res.ok _ = _
    rw [asUsize_id _ (by omega)]
  · show Res.ok _ = _
    rw [asUsize_id _ (by omega)]

/-! ### what one successful / refused call does -/

theorem step_some (next : Date → Res (Option (Date × Date))) (s : Int) (hst : StepsBy next s)
    (v item v' : Date) (hv : DateInv v) (h : next v = .ok (some (item, v'))) :
    item = v ∧ DateInv v' ∧ dayNumOf v' = dayNumOf v + s := by
  obtain ⟨r, hr, hn⟩ := hst v hv
  rw [hn] at h
  cases r with
  | none => cases h
  | some n =>
    simp only [Option.map, Res.ok.injEq, Option.some.injEq, Prod.mk.injEq] at h
    obtain ⟨h1, h2⟩ := h
    subst h1; subst h2
    exact ⟨rfl, hr.2 n rfl⟩

theorem step_none (next : Date → Res (Option (Date × Date))) (s : Int) (hst : StepsBy next s)
    (v : Date) (hv : DateInv v) :
    next v = .ok none ↔ (dayNumOf v + s < DN_MIN ∨ DN_MAX < dayNumOf v + s) := by
  obtain ⟨r, hr, hn⟩ := hst v hv
  rw [hn, ← hr.1]
  cases r <;> simp

theorem step_total (next : Date → Res (Option (Date × Date))) (s : Int) (hst : StepsBy next s)
    (v : Date) (hv : DateInv v) :
    next v = .ok none ∨ ∃ v', next v = .ok (some (v, v')) := by
  obtain ⟨r, _, hn⟩ := hst v hv
  cases r with
  | none => left; exact hn
  | some n => right; exact ⟨n, hn⟩

/-! ### interleaved calls on one cursor -/

theorem runScript_spec (next back : Date → Res (Option (Date × Date))) (s : Int)
    (hn : StepsBy next s) (hb : StepsBy back (-s)) :
    ∀ (script : List Bool) (v : Date), DateInv v →
      ∃ items, runScript next back script v = .ok items ∧
        items.map (Option.map dayNumOf) = specScript s script (dayNumOf v) ∧
        ∀ x, some x ∈ items → DateInv x := by
  intro script
  induction script with
  | nil => intro v _; exact ⟨[], rfl, rfl, by intro x hx; simp at hx⟩
  | cons b rest ih =>
    intro v hv
    have key : ∃ r, IsDayShift v (if b then -s else s) r ∧
        (if b then back v else next v) = .ok (r.map fun n => (v, n)) := by
      cases b with
      | true => simpa using hb v hv
      | false => simpa using hn v hv
    obtain ⟨r, hr, hcall⟩ := key
    have htgt : (if b then dayNumOf v - s else dayNumOf v + s) = dayNumOf v + (if b then -s else s) := by
      cases b <;> simp <;> omega
    cases r with
    | none =>
      have hout := hr.1.mp rfl
      obtain ⟨items, h0, h1, h2⟩ := ih v hv
      refine ⟨none :: items, ?_, ?_, ?_⟩
      · unfold runScript; rw [hcall]; dsimp only [Option.map]; rw [h0]
      · unfold specScript
        rw [htgt, if_neg (by omega)]
        simp only [List.map_cons, Option.map_none, h1]
      · intro x hx
        simp only [List.mem_cons] at hx
        rcases hx with hx | hx
        · cases hx
        · exact h2 x hx
    | some n =>
      obtain ⟨hin, hdn⟩ := hr.2 n rfl
      have hnb := dn_bounds n hin
      obtain ⟨c1, c2, _⟩ := dn_consts
      obtain ⟨items, h0, h1, h2⟩ := ih n hin
      refine ⟨some v :: items, ?_, ?_, ?_⟩
      · unfold runScript; rw [hcall]; dsimp only [Option.map]; rw [h0]
      · unfold specScript
        rw [htgt, if_pos (by rw [c1, c2]; omega)]
        simp only [List.map_cons, Option.map_some, h1, hdn]
      · intro x hx
        simp only [List.mem_cons, Option.some.injEq] at hx
        rcases hx with hx | hx
        · rw [hx]; exact hv
        · exact h2 x hx

/-! ### `expect` forms in range terms -/

theorem expect_dayShift (d : Date) (k : Int) (r : Res (Option Date))
    (h : ∃ o, r = .ok o ∧ IsDayShift d k o) :
    (DN_MIN ≤ dayNumOf d + k ∧ dayNumOf d + k ≤ DN_MAX →
      ∃ x, expectSome r = .ok x ∧ DateInv x ∧ dayNumOf x = dayNumOf d + k) ∧
    (¬ (DN_MIN ≤ dayNumOf d + k ∧ dayNumOf d + k ≤ DN_MAX) → expectSome r = .panic) := by
  obtain ⟨o, h0, h1, h2⟩ := h
  rw [h0]
  constructor
  · intro hin
    cases o with
    | none => have := h1.mp rfl; omega
    | some x => exact ⟨x, rfl, h2 x rfl⟩
  · intro hout
    cases o with
    | none => rfl
    | some x =>
      exfalso
      have hx : (some x : Option Date) ≠ none := by simp
      exact hx (h1.mpr (by omega))

theorem expect_instShift (dt : NaiveDT) (k : Int) (r : Res (Option NaiveDT))
    (h : ∃ o, r = .ok o ∧ IsInstShift dt k o) :
    (NS_MIN ≤ instNs dt + k ∧ instNs dt + k ≤ NS_MAX_DT →
      ∃ x, expectSome r = .ok x ∧ NDTInv x ∧ NonLeap x ∧ instNs x = instNs dt + k) ∧
    (¬ (NS_MIN ≤ instNs dt + k ∧ instNs dt + k ≤ NS_MAX_DT) → expectSome r = .panic) := by
  obtain ⟨o, h0, h1, h2⟩ := h
  rw [h0]
  constructor
  · intro hin
    cases o with
    | none => have := h1.mp rfl; omega
    | some x => exact ⟨x, rfl, h2 x rfl⟩
  · intro hout
    cases o with
    | none => rfl
    | some x =>
      exfalso
      have hx : (some x : Option NaiveDT) ≠ none := by simp
      exact hx (h1.mpr (by omega))

theorem date_add_eq (d : Date) (δ : Delta) : Date.add d δ = expectSome (Date.checked_add_signed d δ) := by
  unfold Date.add expectSome
  cases Date.checked_add_signed d δ with
  | panic => rfl
  | ok o => cases o <;> rfl

theorem date_sub_eq (d : Date) (δ : Delta) : Date.sub d δ = expectSome (Date.checked_sub_signed d δ) := by
  unfold Date.sub expectSome
  cases Date.checked_sub_signed d δ with
  | panic => rfl
  | ok o => cases o <;> rfl

/-- `expect` commutes with re-attaching the offset -/
theorem expect_zoned (r : Res (Option NaiveDT)) (off : Int) :
    expectSome (r.bind fun o => .ok (o.map fun u => (⟨u, off⟩ : Zoned))) =
      (expectSome r).bind fun u => .ok ⟨u, off⟩ := by
  cases r with
  | panic => rfl
  | ok o => cases o <;> rfl

/-! ### date-time ± Days -/

theorem inst_shift_days (dt x : NaiveDT) (c : Int) (hd : dayNumOf x.date = dayNumOf dt.date + c)
    (ht : x.time = dt.time) : instNs x = instNs dt + c * NS_PER_DAY := by
  unfold instNs instSecs
  rw [hd, ht]
  have hN : NS_PER_DAY = 86400000000000 := rfl
  rw [hN]
  omega

theorem ndt_add_days_spec (dt : NaiveDT) (c : Int) (h : NDTInv dt) (hc : 0 ≤ c ∧ c ≤ 18446744073709551615) :
    ∃ r, NaiveDT.checked_add_days dt c = .ok r ∧ IsDayShift dt.date c (r.map (·.date)) ∧
      ∀ x, r = some x → x.time = dt.time ∧ NDTInv x ∧ instNs x = instNs dt + c * NS_PER_DAY := by
  obtain ⟨r, h0, h1⟩ := checked_add_days_spec dt.date c h.1 hc
  unfold NaiveDT.checked_add_days
  rw [h0]
  cases r with
  | none => exact ⟨none, rfl, h1, by intro x hx; cases hx⟩
  | some d =>
    refine ⟨some ⟨d, dt.time⟩, rfl, h1, ?_⟩
    intro x hx
    rw [← Option.some.inj hx]
    obtain ⟨i1, i2⟩ := h1.2 d rfl
    exact ⟨rfl, ⟨i1, h.2⟩, inst_shift_days dt ⟨d, dt.time⟩ c i2 rfl⟩

theorem ndt_sub_days_spec (dt : NaiveDT) (c : Int) (h : NDTInv dt) (hc : 0 ≤ c ∧ c ≤ 18446744073709551615) :
    ∃ r, NaiveDT.checked_sub_days dt c = .ok r ∧ IsDayShift dt.date (-c) (r.map (·.date)) ∧
      ∀ x, r = some x → x.time = dt.time ∧ NDTInv x ∧ instNs x = instNs dt - c * NS_PER_DAY := by
  obtain ⟨r, h0, h1⟩ := checked_sub_days_spec dt.date c h.1 hc
  unfold NaiveDT.checked_sub_days
  rw [h0]
  cases r with
  | none => exact ⟨none, rfl, h1, by intro x hx; cases hx⟩
  | some d =>
    refine ⟨some ⟨d, dt.time⟩, rfl, h1, ?_⟩
    intro x hx
    rw [← Option.some.inj hx]
    obtain ⟨i1, i2⟩ := h1.2 d rfl
    refine ⟨rfl, ⟨i1, h.2⟩, ?_⟩
    have := inst_shift_days dt ⟨d, dt.time⟩ (-c) i2 rfl
    rw [this]
    have hN : NS_PER_DAY = 86400000000000 := rfl
    rw [hN]; omega

/-! ### std::time::Duration -/

theorem from_std_some (s n : Int) (hs : 0 ≤ s ∧ s ≤ 18446744073709551615) (hn : 0 ≤ n ∧ n < 1000000000)
    (hr : nsInRange (s * 1000000000 + n)) :
    Delta.from_std s n = some ⟨s, n⟩ ∧ DInv ⟨s, n⟩ ∧ ns ⟨s, n⟩ = s * 1000000000 + n := by
  have h := (std_spec' s n hs hn ⟨0, 0⟩ (by decide)).1
  rw [h, if_pos hr]
  exact ⟨rfl, ⟨hn.1, hn.2, hr⟩, rfl⟩

theorem from_std_none (s n : Int) (hs : 0 ≤ s ∧ s ≤ 18446744073709551615) (hn : 0 ≤ n ∧ n < 1000000000)
    (hr : ¬ nsInRange (s * 1000000000 + n)) : Delta.from_std s n = none := by
  have h := (std_spec' s n hs hn ⟨0, 0⟩ (by decide)).1
  rw [h, if_neg hr]

/-! ### assign forms -/

theorem zoned_add_assign_eq (z : Zoned) (δ : Delta) : Zoned.add_assign z δ = Zoned.add z δ := by
  unfold Zoned.add_assign Zoned.add Zoned.checked_add_signed Zoned.from_utc_datetime
  rw [expect_zoned]

theorem zoned_sub_assign_eq (z : Zoned) (δ : Delta) : Zoned.sub_assign z δ = Zoned.sub z δ := by
  unfold Zoned.sub_assign Zoned.sub Zoned.checked_sub_signed Zoned.from_utc_datetime
  rw [expect_zoned]

/-! ### fused: a refused call changes nothing -/

theorem fused_fwd (next back : Date → Res (Option (Date × Date))) (v : Date) (hn : next v = .ok none) :
    ∀ k : Nat, runScript next back (List.replicate k false) v = .ok (List.replicate k none) := by
  intro k
  induction k with
  | zero => rfl
  | succ k ih =>
    rw [List.replicate_succ, List.replicate_succ]
    unfold runScript
    simp only [Bool.false_eq_true, if_false]
    rw [hn]; dsimp only; rw [ih]

theorem fused_back (next back : Date → Res (Option (Date × Date))) (v : Date) (hn : back v = .ok none) :
    ∀ k : Nat, runScript next back (List.replicate k true) v = .ok (List.replicate k none) := by
  intro k
  induction k with
  | zero => rfl
  | succ k ih =>
    rw [List.replicate_succ, List.replicate_succ]
    unfold runScript
    simp only [if_true]
    rw [hn]; dsimp only; rw [ih]

/-! ### derived order of date-times, leap-second representations included -/

theorem dt_cmp_general (a b : NaiveDT) (ha : NDTInv a) (hb : NDTInv b) :
    NaiveDT.cmp a b =
      sgn ((instSecs a - instSecs b) * 2000000000 + (a.time.frac - b.time.frac)) := by
  have ta := ha.2
  have tb := hb.2
  unfold TValid at ta tb
  unfold NaiveDT.cmp
  dsimp only
  rw [date_cmp_spec a.date b.date ha.1 hb.1]
  unfold sgn Time.cmp instSecs
  repeat' split
  all_goals omega

/-! ### the cursor after `k` successful calls (`Iterator::nth`, `advance_by`) -/

theorem stateAfter_spec (next : Date → Res (Option (Date × Date))) (s : Int)
    (hs : s = 1 ∨ s = 7 ∨ s = -1 ∨ s = -7) (hst : StepsBy next s) :
    ∀ (k : Nat) (v : Date), DateInv v →
      ∃ r, stateAfter next k v = .ok r ∧ IsDayShift v (k * s) r := by
  obtain ⟨c1, c2, _⟩ := dn_consts
  intro k
  induction k with
  | zero =>
    intro v hv
    have hb := dn_bounds v hv
    refine ⟨some v, rfl, ?_, ?_⟩
    · rw [c1, c2]
      constructor
      · intro h; cases h
      · intro h; exfalso; simp at h; omega
    · intro d hd; rw [← Option.some.inj hd]; exact ⟨hv, by simp⟩
  | succ k ih =>
    intro v hv
    have hb := dn_bounds v hv
    obtain ⟨r0, hr0, hn⟩ := hst v hv
    cases r0 with
    | none =>
      have hout := hr0.1.mp rfl
      rw [c1, c2] at hout
      refine ⟨none, ?_, ?_, ?_⟩
      · unfold stateAfter; rw [hn]; rfl
      · rw [c1, c2]
        constructor
        · intro _
          rcases hs with rfl | rfl | rfl | rfl <;> push_cast <;> omega
        · intro _; rfl
      · intro d hd; cases hd
    | some n =>
      obtain ⟨hin, hdn⟩ := hr0.2 n rfl
      obtain ⟨r, h0, h1, h2⟩ := ih n hin
      refine ⟨r, ?_, ?_, ?_⟩
      · unfold stateAfter; rw [hn]; dsimp only [Option.map]; exact h0
      · rw [h1, hdn]
        rcases hs with rfl | rfl | rfl | rfl <;> push_cast <;> constructor <;> intro h <;> omega
      · intro d hd
        obtain ⟨q1, q2⟩ := h2 d hd
        refine ⟨q1, ?_⟩
        rw [q2, hdn]
        rcases hs with rfl | rfl | rfl | rfl <;> push_cast <;> omega

end Chrono.Proofs.ArithExt
