/-
  C15: the RFC 3339 renderers (`to_rfc3339`, `to_rfc3339_opts`) and `Serialize for DateTime<Tz>`
  return normally on EVERY well-formed zone-aware value — also when the wall clock lies in a headroom
  day beyond the range ends, or its year is outside 0..=9999 (five-digit signed year form).
  Namespace `Chrono.Proofs.C15Render`.
-/
import Chrono.Proofs.Rfc3339WriteL
import Chrono.Model.SerdeStr

namespace Chrono.Proofs.C15Render
open Chrono Chrono.M Chrono.M.Format Chrono.Spec Chrono.Proofs Chrono.Proofs.RenderScan Chrono.Proofs.Rfc3339
open Chrono.Extracted

/-- the writer produced text (no `fmt::Error`, no panic) -/
def IsText (w : W) : Prop := ∃ t, w = wok t

theorem isText_wok (t : List Nat) : IsText (wok t) := ⟨t, rfl⟩

theorem isText_seq {a b : W} (ha : IsText a) (hb : IsText b) : IsText (a.seq b) := by
  obtain ⟨x, rfl⟩ := ha
  obtain ⟨y, rfl⟩ := hb
  exact ⟨x ++ y, rfl⟩

theorem isText_hundreds (n : Int) (h0 : 0 ≤ n) (h : n < 100) : IsText (write_hundreds n) :=
  ⟨_, write_hundreds_eq n h0 h⟩

theorem u8_small (x : Int) (h0 : 0 ≤ x) (h : x < 100) : 0 ≤ asU8 x ∧ asU8 x < 100 := by
  unfold asU8; omega

/-- `write_rfc3339` succeeds on every reading of the extended calendar, every offset a `FixedOffset`
can hold, every precision, with and without `Z` -/
theorem write_rfc3339_ok (l : NaiveDT) (hl : ExtNDTInv l) (off : Int) (ho : OffValid off)
    (sf : SecondsFormat) (use_z : Bool) : IsText (write_rfc3339 l off sf use_z) := by
  obtain ⟨date, time⟩ := l
  obtain ⟨hd, t1, t2, t3, t4⟩ := hl
  dsimp only at hd t1 t2 t3 t4
  obtain ⟨he, _, _, v3, v4⟩ := ext_eq date hd
  obtain ⟨m1, m2, m3, _⟩ := month_day_spec date.year date.ordinal.toNat v3 v4
  obtain ⟨b1, b2, b3, b4⟩ := validYmd_bounds _ _ _ m3
  rw [← he] at m1 m2
  rw [write_rfc3339_unfold, m1, m2]
  simp only [W.ofRes]
  have hu := fun x h0 h => u8_small x h0 h
  refine isText_seq ?_ (isText_seq (isText_wok _) (isText_seq ?_ (isText_seq (isText_wok _) (isText_seq ?_
    (isText_seq (isText_wok _) (isText_seq ?_ (isText_seq (isText_wok _) (isText_seq ?_
    (isText_seq (isText_wok _) (isText_seq ?_ (isText_seq (isText_wok _) ?_)))))))))))
  · split
    · rename_i hy
      have hyd : Int.tdiv date.year 100 = date.year / 100 := Int.tdiv_eq_ediv_of_nonneg hy.1
      have hym : Int.tmod date.year 100 = date.year % 100 := Int.tmod_eq_emod_of_nonneg hy.1
      rw [hyd, hym]
      have a := hu (date.year / 100) (by omega) (by omega)
      have b := hu (date.year % 100) (by omega) (by omega)
      exact isText_seq (isText_hundreds _ a.1 a.2) (isText_hundreds _ b.1 b.2)
    · exact isText_wok _
  · have a := hu (monthOfYo date.year date.ordinal.toNat : Int) (by omega) (by omega)
    exact isText_hundreds _ a.1 a.2
  · have a := hu (dayOfYo date.year date.ordinal.toNat : Int) (by omega) (by omega)
    exact isText_hundreds _ a.1 a.2
  · have a := hu (time.secs / 60 / 60) (by omega) (by omega)
    exact isText_hundreds _ a.1 a.2
  · have a := hu (time.secs / 60 % 60) (by omega) (by omega)
    exact isText_hundreds _ a.1 a.2
  · have a := hu (if time.frac ≥ 1000000000 then time.secs % 60 + 1 else time.secs % 60)
      (by split <;> omega) (by split <;> omega)
    exact isText_hundreds _ a.1 a.2
  · rw [offset_minutes_eq .colon use_z off ho]
    split
    · exact isText_wok _
    · exact isText_wok _

/-- `to_rfc3339_opts` (hence `to_rfc3339`) returns the text for every well-formed value -/
theorem to_rfc3339_opts_total (z : Zoned) (hz : ZInv z) (sf : SecondsFormat) (use_z : Bool) :
    ∃ t, Rfc3339.to_rfc3339_opts z sf use_z = .ok t := by
  obtain ⟨l, h1, h2, _⟩ := naive_local_spec z hz
  obtain ⟨t, ht⟩ := write_rfc3339_ok l h2 z.off hz.2 sf use_z
  refine ⟨t, ?_⟩
  unfold Rfc3339.to_rfc3339_opts
  rw [h1]
  show Rfc3339.expectText (write_rfc3339 l z.off sf use_z) = .ok t
  rw [ht]; rfl

/-- `Serialize for DateTime<Tz>` (fixed offset / UTC) hands the serializer a text for every
well-formed value -/
theorem serialize_total (z : Zoned) (hz : ZInv z) :
    ∃ t, Serde.DateTimeStr.serialize z = .ok (some t) := by
  obtain ⟨l, h1, h2, _⟩ := naive_local_spec z hz
  obtain ⟨t, ht⟩ := write_rfc3339_ok l h2 z.off hz.2 .autoSi true
  refine ⟨t, ?_⟩
  unfold Serde.DateTimeStr.serialize
  rw [h1]
  exact ht

end Chrono.Proofs.C15Render
