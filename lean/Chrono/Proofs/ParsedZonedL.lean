/-
  C14 with C04: `to_fixed_offset`, `to_datetime`, `to_datetime_with_timezone` (fixed zones) — the
  value carries the offset and its wall clock is the resolved naive date-time; errors by value.
-/
import Chrono.Proofs.ParsedTsL
import Chrono.Props.C04
import Chrono.Spec.ParsedZoneSpec
namespace Chrono.Proofs.ParsedRes
open Chrono Chrono.M Chrono.Spec Chrono.Spec.Fields Chrono.Spec.Ts Chrono.Extracted Chrono.Proofs Chrono.Proofs.Ts

/- `NaiveOk` (Spec/ParsedResolveSpec.lean) and `ZonedOk` (Spec/ParsedZoneSpec.lean) are defined on the
Spec side and re-exported under their old names -/
export Chrono.Spec.Fields (ZonedOk)

theorem naiveOk_inv (p : Parsed) (dt : NaiveDT) (off : Int) (h : NaiveOk p dt off) : NDTInv dt := by
  obtain ⟨Y, o, ⟨v1, v2, v3, v4⟩, hd, _, ht, _⟩ := h
  refine ⟨?_, ht.1⟩
  rw [hd]
  exact (dateInv_of_yo Y o ⟨v1, v2⟩ ⟨v3, v4⟩).1

/-- `from_local_datetime` for a fixed offset on a resolved wall clock: `None` → IMPOSSIBLE,
`Single` → the value whose offset is the zone's and whose wall clock is the input -/
theorem local_tail (off : Int) (dt : NaiveDT) (ho : OffValid off) (hdt : NDTInv dt) :
    ∃ r, Zoned.from_local_datetime off dt = .ok r ∧
      ∀ z, r = some z → z.off = off ∧ ZInv z ∧ Zoned.naive_local z = .ok dt := by
  obtain ⟨r, hr, _⟩ := Chrono.Props.C04.fromLocal_fails_iff off dt ho hdt
  refine ⟨r, hr, ?_⟩
  intro z hz
  subst hz
  obtain ⟨a, b, c, _⟩ := Chrono.Props.C04.local_of_fromLocal off dt ho hdt z hr
  exact ⟨a, b, c⟩

/-- `to_fixed_offset` -/
theorem fixed_offset_spec (p : Parsed) :
    (∀ o, Parsed.to_fixed_offset p = .ok o ↔ (p.offset = some o ∧ OffValid o)) ∧
    (Parsed.to_fixed_offset p = .error .notEnough ↔ p.offset = none) ∧
    (∀ e, Parsed.to_fixed_offset p = .error e → e = .notEnough ∨ e = .outOfRange) := by
  unfold Parsed.to_fixed_offset Zoned.east_opt OffValid
  cases p.offset with
  | none => simp
  | some x =>
    by_cases hx : -86400 < x ∧ x < 86400
    · simp [hx]
    · simp [hx]
      intro o; omega

theorem dt_main' (p : Parsed) (hp : InType p) (off : Int) (hoff : -2147483648 ≤ off ∧ off ≤ 2147483647) :
    ∃ r, Parsed.to_naive_datetime_with_offset p off = .ok r ∧
      (∀ e, r = .error e → e = .notEnough ∨ e = .impossible ∨ e = .outOfRange) ∧
      (∀ dt, r = .ok dt → NaiveOk p dt off) := dt_main p hp off hoff


/-- `to_datetime`: never panics, errors by value; NOT_ENOUGH when neither offset nor timestamp is
given; a result carries the supplied offset (0 when only a timestamp is given) -/
theorem to_datetime_spec (p : Parsed) (hp : InType p) :
    ∃ r, Parsed.to_datetime p = .ok r ∧
      (∀ e, r = .error e → e = .notEnough ∨ e = .impossible ∨ e = .outOfRange) ∧
      (p.offset = none → p.timestamp = none → r = .error .notEnough) ∧
      (∀ z, r = .ok z → (p.offset = none → z.off = 0) ∧ ZonedOk p z z.off) := by
  have hoffT := hp.2.2.2.2.2.2.2.2.2.2.2.2.2.2.2.2.2.2.2
  have core : ∀ (offset : Int), (-2147483648 ≤ offset ∧ offset ≤ 2147483647) →
      (∀ x, p.offset = some x → x = offset) →
      ∃ r, (Parsed.RP.bind (Parsed.to_naive_datetime_with_offset p offset) fun datetime =>
        match Zoned.east_opt offset with
        | none => .ok (.error .outOfRange)
        | some off =>
          match Zoned.from_local_datetime off datetime with
          | .panic => .panic
          | .ok none => .ok (.error .impossible)
          | .ok (some t) => .ok (.ok t) : Parsed.RP Zoned) = .ok r ∧
      (∀ e, r = .error e → e = .notEnough ∨ e = .impossible ∨ e = .outOfRange) ∧
      (∀ z, r = .ok z → z.off = offset ∧ ZonedOk p z z.off) := by
    intro offset hoff hsup
    obtain ⟨r, hr, hk, hok⟩ := dt_main' p hp offset hoff
    rw [hr]
    cases r with
    | error e => exact ⟨_, rfl, (fun e' h => by cases h; exact hk e rfl), (fun z h => by cases h)⟩
    | ok dt =>
      simp only [bind_okok]
      have hn := hok dt rfl
      unfold Zoned.east_opt
      by_cases hv : -86400 < offset ∧ offset < 86400
      · rw [if_pos hv]
        simp only []
        obtain ⟨r2, hr2, h2⟩ := local_tail offset dt hv (naiveOk_inv p dt offset hn)
        rw [hr2]
        cases r2 with
        | none => exact ⟨_, rfl, (fun e' h => by cases h; simp), (fun z h => by cases h)⟩
        | some z =>
          refine ⟨_, rfl, (fun e' h => by cases h), ?_⟩
          intro z' h; cases h
          obtain ⟨a, b, c⟩ := h2 z rfl
          refine ⟨a, rfl, b, ?_, dt, c, ?_⟩
          · rw [a]; exact hsup
          · rw [a]; exact hn
      · rw [if_neg hv]
        exact ⟨_, rfl, (fun e' h => by cases h; simp), (fun z h => by cases h)⟩
  unfold Parsed.to_datetime
  cases hoffs : p.offset with
  | some off =>
    simp only []
    obtain ⟨r, hr, hk, hok⟩ := core off (hoffT off hoffs) (by rw [hoffs]; intro x hx; cases hx; rfl)
    refine ⟨r, hr, hk, (fun h => by cases h), ?_⟩
    intro z hz
    obtain ⟨_, b⟩ := hok z hz
    refine ⟨(fun h => by cases h), ?_⟩
    exact b
  | none =>
    cases hts : p.timestamp with
    | some g =>
      simp only []
      obtain ⟨r, hr, hk, hok⟩ := core 0 (by omega) (by rw [hoffs]; intro x hx; cases hx)
      refine ⟨r, hr, hk, (fun _ h => by cases h), ?_⟩
      intro z hz
      obtain ⟨a, b⟩ := hok z hz
      refine ⟨fun _ => a, ?_⟩
      exact b
    | none =>
      simp only []
      exact ⟨_, rfl, (fun e h => by cases h; simp), (fun _ _ => rfl), (fun z h => by cases h)⟩

/-- `to_datetime_with_timezone` for a fixed-offset zone `zone` (`Utc`: 0): never panics, errors by
value; a result carries the zone's offset, which equals the supplied offset field if any -/
theorem to_datetime_tz_spec (p : Parsed) (hp : InType p) (zone : Int) (hz : OffValid zone) :
    ∃ r, Parsed.to_datetime_with_timezone p zone = .ok r ∧
      (∀ e, r = .error e → e = .notEnough ∨ e = .impossible ∨ e = .outOfRange) ∧
      (∀ z, r = .ok z → ZonedOk p z zone) := by
  have hnT := hp.2.2.2.2.2.2.2.2.2.2.2.2.2.2.2.2.2.1
  have htT := hp.2.2.2.2.2.2.2.2.2.2.2.2.2.2.2.2.2.2.1
  unfold OffValid at hz
  have tail : ∀ (guessed : Int), (-2147483648 ≤ guessed ∧ guessed ≤ 2147483647) →
      (p.timestamp ≠ none → guessed = zone) →
      ∃ r, (Parsed.RP.bind (Parsed.to_naive_datetime_with_offset p guessed) fun datetime =>
        match Zoned.from_local_datetime zone datetime with
        | .panic => .panic
        | .ok none => .ok (.error .impossible)
        | .ok (some t) =>
          let check_offset : Bool := match p.offset with
            | some offset => t.off == offset
            | none => true
          if check_offset then .ok (.ok t) else .ok (.error .impossible) : Parsed.RP Zoned) = .ok r ∧
      (∀ e, r = .error e → e = .notEnough ∨ e = .impossible ∨ e = .outOfRange) ∧
      (∀ z, r = .ok z → ZonedOk p z zone) := by
    intro guessed hg hgz
    obtain ⟨r, hr, hk, hok⟩ := dt_main' p hp guessed hg
    rw [hr]
    cases r with
    | error e => exact ⟨_, rfl, (fun e' h => by cases h; exact hk e rfl), (fun z h => by cases h)⟩
    | ok dt =>
      simp only [bind_okok]
      have hn := hok dt rfl
      obtain ⟨r2, hr2, h2⟩ := local_tail zone dt hz (naiveOk_inv p dt guessed hn)
      rw [hr2]
      cases r2 with
      | none => exact ⟨_, rfl, (fun e' h => by cases h; simp), (fun z h => by cases h)⟩
      | some z =>
        obtain ⟨a, b, c⟩ := h2 z rfl
        have hn' : NaiveOk p dt zone := by
          obtain ⟨Y, o, h1, h2', h3, h4, h5, h6⟩ := hn
          refine ⟨Y, o, h1, h2', h3, h4, h5, ?_⟩
          intro g hgg
          have := hgz (by rw [hgg]; simp)
          rw [← this]; exact h6 g hgg
        simp only []
        cases hoffs : p.offset with
        | none =>
          simp only [if_true]
          refine ⟨_, rfl, (fun e' h => by cases h), ?_⟩
          intro z' h; cases h
          exact ⟨a, b, (fun x hx => by rw [hoffs] at hx; cases hx), dt, c, hn'⟩
        | some x =>
          simp only []
          by_cases hx : z.off = x
          · simp only [hx, beq_self_eq_true, if_true]
            refine ⟨_, rfl, (fun e' h => by cases h), ?_⟩
            intro z' h; cases h
            refine ⟨a, b, ?_, dt, c, hn'⟩
            intro x' hx'; rw [hoffs] at hx'; cases hx'; rw [← hx, a]
          · have : (z.off == x) = false := by simp [hx]
            simp only [this]
            exact ⟨_, rfl, (fun e' h => by cases h; simp), (fun z h => by cases h)⟩
  unfold Parsed.to_datetime_with_timezone
  cases hts : p.timestamp with
  | none =>
    simp only [bind_okok]
    have := tail 0 (by omega) (by intro h; exact absurd hts h)
    exact this
  | some g =>
    simp only []
    obtain ⟨r0, hr0, _, _⟩ := from_timestamp_spec g (p.nanosecond.getD 0) (by
      have := htT g hts; unfold isI64; exact this) (by
      cases hn : p.nanosecond with
      | none => simp
      | some n => have := hnT n hn; simp; omega)
    rw [hr0]
    cases r0 with
    | none =>
      simp only [okOr_none, bind_err]
      exact ⟨_, rfl, (fun e' h => by cases h; simp), (fun z h => by cases h)⟩
    | some d0 =>
      simp only [okOr_some, bind_okok]
      have := tail zone (by omega) (fun _ => rfl)
      exact this

end Chrono.Proofs.ParsedRes
