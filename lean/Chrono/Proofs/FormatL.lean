/-
  Helper lemmas for C12 (formatting): the decimal numerals of the specification (core's
  `Nat.toDigits`) are the model's; the `u8`-narrowing writers agree with plain padded numbers on the
  values they are called with; per-specifier lemmas over the C01 / C07 range facts.
-/
import Chrono.Model.Format
import Chrono.Model.Strftime
import Chrono.Spec.StrftimeSpec
import Chrono.Spec.TimeSpec
import Chrono.Props.C01
import Chrono.Proofs.FormatFin
namespace Chrono.Proofs.FormatL
open Chrono Chrono.M Chrono.M.Format Chrono.M.Strftime Chrono.Spec Chrono.Spec.Strftime Chrono.Extracted

/-! ### numerals -/

theorem digitChar_toNat : ∀ r < 10, (Nat.digitChar r).toNat = 48 + r := by decide

theorem toDigitsCore_eq (fuel n : Nat) (ds : List Char) :
    (Nat.toDigitsCore 10 fuel n ds).map Char.toNat = Delta.natDigitsAux fuel n (ds.map Char.toNat) := by
  induction fuel generalizing n ds with
  | zero => rfl
  | succ f ih =>
    rw [Nat.toDigitsCore, Delta.natDigitsAux]
    by_cases h : n < 10
    · have h0 : n / 10 = 0 := by omega
      have hm : n % 10 = n := by omega
      simp only [h0, if_true, h, hm, List.map_cons, Delta.digitChar]
      rw [digitChar_toNat n h]
    · have h0 : ¬ (n / 10 = 0) := by omega
      simp only [h0, if_false, h]
      rw [ih]
      simp only [List.map_cons, Delta.digitChar]
      rw [digitChar_toNat (n % 10) (by omega)]
      congr 2
      omega

theorem dec_eq (n : Nat) : dec n = digits n := by
  unfold dec digits Delta.natDigits Nat.toDigits
  rw [toDigitsCore_eq]; rfl

/-- the specification's padded number is the model of `core::fmt`'s integer formatting -/
theorem number_eq (v : Int) (w : Nat) (pad : Pad) (plus : Bool) : number v w pad plus = fmtInt v w pad plus := by
  unfold number fmtInt
  rw [dec_eq]
  cases pad <;> simp only [Nat.sub_sub]

/-! ### the narrowing writers on the values they are called with -/

theorem write_two_fin : ∀ v < 100, ∀ p ∈ [Pad.none, Pad.zero, Pad.space],
    write_two (asU8 ((v : Nat) : Int)) p = fmtInt v 2 p false := by decide

theorem pad_mem (p : Pad) : p ∈ [Pad.none, Pad.zero, Pad.space] := by cases p <;> simp

theorem write_two_ok (v : Int) (h0 : 0 ≤ v) (h : v < 100) (p : Pad) :
    write_two (asU8 v) p = number v 2 p false := by
  rw [number_eq]
  have := write_two_fin v.toNat (by omega) p (pad_mem p)
  rwa [Int.toNat_of_nonneg h0] at this

theorem write_one_fin : ∀ v < 10, write_one (asU8 ((v : Nat) : Int)) = fmtInt v 1 .none false := by decide

theorem write_one_ok (v : Int) (h0 : 0 ≤ v) (h : v < 10) : write_one (asU8 v) = number v 1 .none false := by
  rw [number_eq]
  have := write_one_fin v.toNat (by omega)
  rwa [Int.toNat_of_nonneg h0] at this

theorem write_hundreds_fin : ∀ v < 100, write_hundreds (asU8 ((v : Nat) : Int)) = wok (fmtInt v 2 .zero false) := by
  decide

theorem write_hundreds_ok (v : Int) (h0 : 0 ≤ v) (h : v < 100) : write_hundreds (asU8 v) = wok (two v) := by
  unfold two; rw [number_eq]
  have := write_hundreds_fin v.toNat (by omega)
  rwa [Int.toNat_of_nonneg h0] at this

/-- the fast path of `write_year` (two `write_hundreds`) is the four-digit numeral, whatever the padding -/
theorem write_year_fast (y : Int) (h1 : 1000 ≤ y) (h2 : y ≤ 9999) (p : Pad) :
    (write_hundreds (asU8 (Int.tdiv y 100))).seq (write_hundreds (asU8 (Int.tmod y 100))) =
      wok (number y 4 p false) := by
  rw [number_eq]
  have h := FormatFin.year_fast_fin (y.toNat / 100 - 10) (by omega) (y.toNat % 100) (by omega)
  have e : (y.toNat / 100 - 10 + 10) * 100 + y.toNat % 100 = y.toNat := by omega
  rw [e] at h
  unfold FormatFin.yearFastOk at h
  rw [Bool.and_eq_true] at h
  obtain ⟨ha, hb⟩ := h
  rw [Int.toNat_of_nonneg (by omega)] at ha
  rw [eq_of_beq ha]
  have hl : (digits y.natAbs).length = 4 := by
    have : y.natAbs = y.toNat := by omega
    rw [this]; exact eq_of_beq hb
  have hs : ¬ (y < 0) := by omega
  unfold fmtInt
  have hd : digits y.toNat = digits y.natAbs := by
    have : y.natAbs = y.toNat := by omega
    rw [this]
  rw [hd]
  cases p <;> simp [hs, hl]

/-! ### calendar specifiers -/

theorem wd_sun (w : Weekday) : ((w.num_days_from_sunday : Nat) : Int) = ((w.toNat : Int) + 1) % 7 := by
  cases w <;> decide
theorem wd_mon (w : Weekday) : ((w.number_from_monday : Nat) : Int) = (w.toNat : Int) + 1 := by
  cases w <;> decide
theorem weekdayOf_range (n : Int) : 0 ≤ weekdayOf n ∧ weekdayOf n < 7 := by
  unfold weekdayOf; omega

theorem write_year_ok (v : Int) (pad : Pad) : write_year v pad = wok (yearText v pad) := by
  unfold write_year yearText
  by_cases h : 1000 ≤ v ∧ v ≤ 9999
  · rw [if_pos h, write_year_fast v h.1 h.2 pad, if_pos (by omega)]
  · rw [if_neg h]
    by_cases h2 : 0 ≤ v ∧ v ≤ 9999
    · rw [if_pos h2]
      have : (decide (0 ≤ v) && decide (v < 10000)) = true := by simp; omega
      simp only [this, Bool.not_true, write_n, number_eq]; rfl
    · rw [if_neg h2]
      have : (decide (0 ≤ v) && decide (v < 10000)) = false := by
        rw [Bool.and_eq_false_iff]; simp; omega
      simp only [this, Bool.not_false, write_n, number_eq]; rfl

/-- calendar specifiers: `%Y %C %y %q %m %d %w %u %j` -/
theorem numeric_calendar (y : Int) (o : Nat) (hy : MIN_YEAR ≤ y ∧ y ≤ MAX_YEAR) (ho : 1 ≤ o ∧ o ≤ yearLen y)
    (t : Option Time) (off : Option Int) (tt : Time) (oo : Int) (pad : Pad) (n : Numeric)
    (hn : n ∈ [Numeric.year, .yearDiv100, .yearMod100, .quarter, .month, .day, .numDaysFromSun, .weekdayFromMon, .ordinal]) :
    format_numeric (some (dateOfYo y o)) t off n pad = wok (renderNumeric n pad y o tt oo) := by
  obtain ⟨hyr, hord, _, hm, hd, hv, _, _, hwd⟩ := Props.C01.accessors_ok y o hy ho
  have hb := Proofs.valid_bounds y _ _ hv
  have hv' := hv
  unfold validYmd at hv'
  simp only [Bool.and_eq_true, decide_eq_true_eq] at hv'
  obtain ⟨⟨⟨hm1, hm2⟩, hd1⟩, hd2⟩ := hv'
  have hw := weekdayOf_range (dayNumYo y o)
  simp only [List.mem_cons, List.mem_nil_iff, or_false] at hn
  rcases hn with rfl | rfl | rfl | rfl | rfl | rfl | rfl | rfl | rfl
  · simp only [format_numeric, renderNumeric, numericValue, hyr, write_year_ok]
  · simp only [format_numeric, renderNumeric, numericValue, numericWidth, hyr, write_n, number_eq]; rfl
  · simp only [format_numeric, renderNumeric, numericValue, numericWidth, hyr]
    rw [write_two_ok _ (by omega) (by omega)]
  · simp only [format_numeric, renderNumeric, numericValue, hm, W.ofRes, quarter]
    have e : ((monthOfYo y o : Nat) : Int) - 1 = ((monthOfYo y o - 1 : Nat) : Int) := by omega
    rw [write_one_ok _ (by omega) (by omega)]
    congr 2
    omega
  · simp only [format_numeric, renderNumeric, numericValue, numericWidth, hm, W.ofRes]
    rw [write_two_ok _ (by omega) (by omega)]
  · simp only [format_numeric, renderNumeric, numericValue, numericWidth, hd, W.ofRes]
    rw [write_two_ok _ (by omega) (by omega)]
  · simp only [format_numeric, renderNumeric, numericValue]
    rw [wd_sun, hwd, write_one_ok _ (by omega) (by omega)]
  · simp only [format_numeric, renderNumeric, numericValue]
    rw [wd_mon, hwd, write_one_ok _ (by omega) (by omega)]
  · simp only [format_numeric, renderNumeric, numericValue, numericWidth, hord, write_n, number_eq]; rfl

/-! ### clock specifiers and the timestamp -/

theorem div60_60 (x : Int) : x / 60 / 60 = x / 3600 := by omega

/-- clock specifiers: `%H %I %M %S %f` (and `%k %l`) -/
theorem numeric_clock (t : Time) (ht : TValid t) (d : Option Date) (off : Option Int) (y : Int) (o : Nat) (oo : Int)
    (pad : Pad) (n : Numeric) (hn : n ∈ [Numeric.hour, .hour12, .minute, .second, .nanosecond]) :
    format_numeric d (some t) off n pad = wok (renderNumeric n pad y o t oo) := by
  obtain ⟨h1, h2, h3, h4⟩ := ht
  simp only [List.mem_cons, List.mem_nil_iff, or_false] at hn
  rcases hn with rfl | rfl | rfl | rfl | rfl
  · cases d <;>
    · simp only [format_numeric, renderNumeric, numericValue, numericWidth, Time.hour, Time.hms, div60_60]
      rw [write_two_ok _ (by omega) (by omega)]
  · cases d <;>
    · simp only [format_numeric, renderNumeric, numericValue, numericWidth, Time.hour12, Time.hour, Time.hms, div60_60]
      have e : (if t.secs / 3600 % 12 = 0 then 12 else t.secs / 3600 % 12) = (t.secs / 3600 + 11) % 12 + 1 := by
        split <;> omega
      rw [e, write_two_ok _ (by omega) (by omega)]
  · cases d <;>
    · simp only [format_numeric, renderNumeric, numericValue, numericWidth, Time.minute, Time.hms]
      rw [write_two_ok _ (by omega) (by omega)]
  · cases d <;>
    · simp only [format_numeric, renderNumeric, numericValue, numericWidth, Time.second, Time.nanosecond, Time.hms]
      have e : t.secs % 60 + t.frac / 1000000000 = t.secs % 60 + (if t.frac ≥ 1000000000 then 1 else 0) := by
        split <;> omega
      rw [e, write_two_ok _ (by split <;> omega) (by split <;> omega)]
  · cases d <;>
    · simp only [format_numeric, renderNumeric, numericValue, numericWidth, Time.nanosecond, write_n, number_eq]; rfl

theorem dayNum_bound (y : Int) (o : Nat) (hy : MIN_YEAR ≤ y ∧ y ≤ MAX_YEAR) (ho : o ≤ 366) :
    -95746130 ≤ dayNumYo y o ∧ dayNumYo y o ≤ 95745400 := by
  have hMIN : MIN_YEAR = -262143 := rfl
  have hMAX : MAX_YEAR = 262142 := rfl
  unfold dayNumYo daysBeforeYear
  omega

/-- `%s` -/
theorem numeric_timestamp (y : Int) (o : Nat) (hy : MIN_YEAR ≤ y ∧ y ≤ MAX_YEAR) (ho : 1 ≤ o ∧ o ≤ yearLen y)
    (t : Time) (ht : TValid t) (off : Option Int) (hoff : ∀ v, off = some v → -86400 < v ∧ v < 86400) (pad : Pad) :
    format_numeric (some (dateOfYo y o)) (some t) off .timestamp pad =
      wok (renderNumeric .timestamp pad y o t (off.getD 0)) := by
  obtain ⟨_, _, _, _, _, _, _, hnd, _⟩ := Props.C01.accessors_ok y o hy ho
  obtain ⟨h1, h2, h3, h4⟩ := ht
  have hyl := Proofs.yearLen_ge y
  have hb := dayNum_bound y o hy (by omega)
  have hU : UNIX_EPOCH_DAY = 719163 := rfl
  have hE : dayNum 1970 1 1 = 719163 := by decide
  have hoff' : -86400 < off.getD 0 ∧ off.getD 0 < 86400 := by
    cases off with
    | none => simp
    | some v => simpa using hoff v rfl
  simp only [format_numeric, renderNumeric, numericValue, numericWidth, Strftime.timestamp, NaiveDT.timestamp, hnd,
    Res.bind, W.ofRes, Time.num_seconds_from_midnight, hU, hE]
  rw [Proofs.ckI64_ok (by omega) (by omega)]
  simp only []
  rw [Proofs.ckI64_ok (by omega) (by omega)]
  simp only []
  rw [Proofs.ckI64_ok (by omega) (by omega)]
  simp only []
  rw [Proofs.ckI64_ok (by omega) (by omega)]
  simp only [write_n, number_eq]; rfl

/-! ### `%U` / `%W` -/

/-- closed form of the count of `start`-weekdays among the first `o` days of a year -/
theorem countStarts_closed (y : Int) (s : Int) (hs : 0 ≤ s ∧ s < 7) (o : Nat) :
    (countStarts y o s : Int) = ((o : Int) - ((weekdayOf (dayNumYo y o) - s) % 7) + 6) / 7 := by
  unfold countStarts weekdayOf dayNumYo
  generalize daysBeforeYear y = D
  induction o with
  | zero => simp; omega
  | succ o ih =>
    rw [List.range_succ, List.filter_append, List.length_append]
    push_cast
    rw [ih]
    by_cases h : (D + ((o : Int) + 1) + 6) % 7 = s
    · simp [h]; omega
    · simp [h]; omega

theorem weeks_from_closed (y : Int) (o : Nat) (hy : MIN_YEAR ≤ y ∧ y ≤ MAX_YEAR) (ho : 1 ≤ o ∧ o ≤ yearLen y)
    (day : Weekday) :
    weeks_from (dateOfYo y o) day = (countStarts y o day.toNat : Int) := by
  obtain ⟨_, hord, _, _, _, _, _, _, hwd⟩ := Props.C01.accessors_ok y o hy ho
  have hw := weekdayOf_range (dayNumYo y o)
  rw [countStarts_closed y day.toNat (by cases day <;> decide) o]
  unfold weeks_from
  rw [hord, Proofs.tdiv_eq]
  have hds : ((Weekday.days_since (dateOfYo y o).weekday day : Nat) : Int)
      = (weekdayOf (dayNumYo y o) - (day.toNat : Int)) % 7 := by
    rw [← hwd]
    generalize (dateOfYo y o).weekday = w
    cases w <;> cases day <;> decide
  rw [hds]
  split <;> omega

/-- `%U` / `%W` -/
theorem numeric_weeks (y : Int) (o : Nat) (hy : MIN_YEAR ≤ y ∧ y ≤ MAX_YEAR) (ho : 1 ≤ o ∧ o ≤ yearLen y)
    (t : Option Time) (off : Option Int) (tt : Time) (oo : Int) (pad : Pad) (n : Numeric)
    (hn : n ∈ [Numeric.weekFromSun, .weekFromMon]) :
    format_numeric (some (dateOfYo y o)) t off n pad = wok (renderNumeric n pad y o tt oo) := by
  have hyl := Proofs.yearLen_ge y
  have hw := weekdayOf_range (dayNumYo y o)
  have h6 := countStarts_closed y 6 (by omega) o
  have h0 := countStarts_closed y 0 (by omega) o
  simp only [List.mem_cons, List.mem_nil_iff, or_false] at hn
  rcases hn with rfl | rfl
  · simp only [format_numeric, renderNumeric, numericValue, numericWidth]
    rw [weeks_from_closed y o hy ho .sun]
    show wok (write_two (asU8 ((countStarts y o 6 : Nat) : Int)) pad) = _
    rw [write_two_ok _ (by omega) (by omega)]
  · simp only [format_numeric, renderNumeric, numericValue, numericWidth]
    rw [weeks_from_closed y o hy ho .mon]
    show wok (write_two (asU8 ((countStarts y o 0 : Nat) : Int)) pad) = _
    rw [write_two_ok _ (by omega) (by omega)]

/-! ### fixed items -/

theorem names_fin :
    (∀ m < 12, LOC_LONG_MONTHS.getD m [] = monthName (m + 1) ∧ LOC_SHORT_MONTHS.getD m [] = (monthName (m + 1)).take 3) ∧
    (∀ w < 7, LOC_LONG_WEEKDAYS.getD ((w + 1) % 7) [] = weekdayName w ∧
      LOC_SHORT_WEEKDAYS.getD ((w + 1) % 7) [] = (weekdayName w).take 3) ∧
    LOC_AM_PM = [str "AM", str "PM"] ∧ lowerS (str "AM") = str "am" ∧ lowerS (str "PM") = str "pm" ∧
    LOC_LONG_MONTHS.length = 12 ∧ LOC_SHORT_MONTHS.length = 12 ∧ LOC_LONG_WEEKDAYS.length = 7 ∧
    LOC_SHORT_WEEKDAYS.length = 7 := by decide

theorem wd_sun_nat (w : Weekday) : w.num_days_from_sunday = (w.toNat + 1) % 7 := by cases w <;> decide

/-- `%b %B %a %A` (and `%h`) -/
theorem fixed_names (y : Int) (o : Nat) (hy : MIN_YEAR ≤ y ∧ y ≤ MAX_YEAR) (ho : 1 ≤ o ∧ o ≤ yearLen y)
    (t : Option Time) (off : Option (List Nat × Int)) (tt : Time) (oo : Int) (f : Fixed)
    (hf : f ∈ [Fixed.shortMonthName, .longMonthName, .shortWeekdayName, .longWeekdayName]) :
    some (format_fixed (some (dateOfYo y o)) t off f) = (renderFixed f y o tt oo).map wok := by
  obtain ⟨_, _, _, hm, _, hv, _, _, hwd⟩ := Props.C01.accessors_ok y o hy ho
  have hv' := hv
  unfold validYmd at hv'
  simp only [Bool.and_eq_true, decide_eq_true_eq] at hv'
  obtain ⟨⟨⟨hm1, hm2⟩, _⟩, _⟩ := hv'
  have hw := weekdayOf_range (dayNumYo y o)
  obtain ⟨nm, nw, _⟩ := names_fin
  have e : monthOfYo y o - 1 + 1 = monthOfYo y o := by omega
  have hwn : (weekdayOf (dayNumYo y o)).toNat = (dateOfYo y o).weekday.toNat := by omega
  have hw7 : (dateOfYo y o).weekday.toNat < 7 := by omega
  simp only [List.mem_cons, List.mem_nil_iff, or_false] at hf
  rcases hf with rfl | rfl | rfl | rfl
  · simp only [format_fixed, renderFixed, hm, W.ofRes, Option.map_some]
    rw [(nm (monthOfYo y o - 1) (by omega)).2, e]
  · simp only [format_fixed, renderFixed, hm, W.ofRes, Option.map_some]
    rw [(nm (monthOfYo y o - 1) (by omega)).1, e]
  · simp only [format_fixed, renderFixed, Option.map_some, wd_sun_nat]
    rw [(nw _ hw7).2, ← hwd]
  · simp only [format_fixed, renderFixed, Option.map_some, wd_sun_nat]
    rw [(nw _ hw7).1, ← hwd]

/-- `%P %p %.f %.3f %.6f %.9f %3f %6f %9f` -/
theorem fixed_clock (t : Time) (ht : TValid t) (d : Option Date) (off : Option (List Nat × Int)) (y : Int) (o : Nat)
    (oo : Int) (f : Fixed)
    (hf : f ∈ [Fixed.lowerAmPm, .upperAmPm, .nanosecond, .nanosecond3, .nanosecond6, .nanosecond9,
               .nanosecond3NoDot, .nanosecond6NoDot, .nanosecond9NoDot]) :
    some (format_fixed d (some t) off f) = (renderFixed f y o t oo).map wok := by
  obtain ⟨h1, h2, h3, h4⟩ := ht
  obtain ⟨_, _, hap, hla, hlp, _⟩ := names_fin
  have hpm : (decide (t.secs / 60 / 60 ≥ 12)) = decide (¬ t.secs < 43200) := by
    apply decide_eq_decide.mpr; omega
  have e3 : t.frac / 1000000 % 1000 = t.frac % 1000000000 / 10 ^ (9 - 3) := by
    have : (10 : Int) ^ (9 - 3) = 1000000 := by decide
    rw [this]; omega
  have e6 : t.frac / 1000 % 1000000 = t.frac % 1000000000 / 10 ^ (9 - 6) := by
    have : (10 : Int) ^ (9 - 6) = 1000 := by decide
    rw [this]; omega
  have e9 : t.frac % 1000000000 = t.frac % 1000000000 / 10 ^ (9 - 9) := by
    have : (10 : Int) ^ (9 - 9) = 1 := by decide
    rw [this]; omega
  simp only [List.mem_cons, List.mem_nil_iff, or_false] at hf
  rcases hf with rfl | rfl | rfl | rfl | rfl | rfl | rfl | rfl | rfl
  · cases d <;>
    · by_cases h : t.secs < 43200
      · have hh : ¬ (12 ≤ t.secs / 60 / 60) := by omega
        simp [format_fixed, renderFixed, Time.hour12, Time.hour, Time.hms, hap, h, hh, hla]
      · have hh : 12 ≤ t.secs / 60 / 60 := by omega
        simp [format_fixed, renderFixed, Time.hour12, Time.hour, Time.hms, hap, h, hh, hlp]
  · cases d <;>
    · by_cases h : t.secs < 43200
      · have hh : ¬ (12 ≤ t.secs / 60 / 60) := by omega
        simp [format_fixed, renderFixed, Time.hour12, Time.hour, Time.hms, hap, h, hh]
      · have hh : 12 ≤ t.secs / 60 / 60 := by omega
        simp [format_fixed, renderFixed, Time.hour12, Time.hour, Time.hms, hap, h, hh]
  · cases d <;>
    · simp only [format_fixed, renderFixed, Option.map_some, Time.nanosecond, fracAuto, fracDigits, number_eq]
      have a3 : t.frac % 1000000000 / 1000000 = t.frac % 1000000000 / 10 ^ (9 - 3) := by
        have : (10 : Int) ^ (9 - 3) = 1000000 := by decide
        rw [this]
      have a6 : t.frac % 1000000000 / 1000 = t.frac % 1000000000 / 10 ^ (9 - 6) := by
        have : (10 : Int) ^ (9 - 6) = 1000 := by decide
        rw [this]
      rw [← a3, ← a6, ← e9]
      by_cases c0 : t.frac % 1000000000 = 0
      · simp [c0]
      · by_cases c1 : t.frac % 1000000 = 0
        · simp [c0, c1]
        · by_cases c2 : t.frac % 1000 = 0 <;> simp [c0, c1, c2]
  · cases d <;>
    · simp only [format_fixed, renderFixed, Option.map_some, Time.nanosecond, fracDigits, number_eq, e3]; rfl
  · cases d <;>
    · simp only [format_fixed, renderFixed, Option.map_some, Time.nanosecond, fracDigits, number_eq, e6]; rfl
  · cases d <;>
    · simp only [format_fixed, renderFixed, Option.map_some, Time.nanosecond, fracDigits, number_eq, ← e9]; rfl
  · cases d <;>
    · simp only [format_fixed, renderFixed, Option.map_some, Time.nanosecond, fracDigits, number_eq, e3]
  · cases d <;>
    · simp only [format_fixed, renderFixed, Option.map_some, Time.nanosecond, fracDigits, number_eq, e6]
  · cases d <;>
    · simp only [format_fixed, renderFixed, Option.map_some, Time.nanosecond, fracDigits, number_eq, ← e9]

/-! ### offsets -/

theorem hoursText_fin : ∀ h < 100, ∀ s ∈ [43, 45],
    hoursText .zero s ((h : Nat) : Int) = wok (s :: fmtInt h 2 .zero false) := by decide

theorem hoursText_ok (h : Int) (h0 : 0 ≤ h) (h1 : h < 100) (s : Nat) (hs : s = 43 ∨ s = 45) :
    hoursText .zero s h = wok (s :: two h) := by
  unfold two; rw [number_eq]
  have := hoursText_fin h.toNat (by omega) s (by rcases hs with rfl | rfl <;> simp)
  rwa [Int.toNat_of_nonneg h0] at this

theorem write_hundreds_ok' (v : Int) (h0 : 0 ≤ v) (h : v < 100) : write_hundreds v = wok (two v) := by
  have := write_hundreds_ok v h0 h
  have e : asU8 v = v := by unfold asU8; omega
  rwa [e] at this

theorem seq_wok (a b : List Nat) : (wok a).seq (wok b) = wok (a ++ b) := rfl

theorem parts_minutes (a : Int) (h0 : 0 ≤ a) (h1 : a < 86400) :
    offsetParts .minutes a = ((a + 30) / 60 / 60, (a + 30) / 60 % 60, 0, .minutes) := by
  have e1 : Int.tdiv (a + 30) 60 = (a + 30) / 60 := by rw [Proofs.tdiv_eq]; split <;> omega
  have e2 : Int.tdiv ((a + 30) / 60) 60 = (a + 30) / 60 / 60 := by rw [Proofs.tdiv_eq]; split <;> omega
  have e3 : Int.tmod ((a + 30) / 60) 60 = (a + 30) / 60 % 60 := by rw [Proofs.tmod_eq]; split <;> omega
  have e4 : asU8 ((a + 30) / 60 / 60) = (a + 30) / 60 / 60 := by unfold asU8; omega
  have e5 : asU8 ((a + 30) / 60 % 60) = (a + 30) / 60 % 60 := by unfold asU8; omega
  simp only [offsetParts, e1, e2, e3, e4, e5, reduceCtorEq, false_and, if_false]

theorem parts_seconds (a : Int) (h0 : 0 ≤ a) (h1 : a < 86400) :
    offsetParts .seconds a = (a / 60 / 60, a / 60 % 60, a % 60, .seconds) := by
  have e1 : Int.tdiv a 60 = a / 60 := by rw [Proofs.tdiv_eq]; split <;> omega
  have e2 : Int.tdiv (a / 60) 60 = a / 60 / 60 := by rw [Proofs.tdiv_eq]; split <;> omega
  have e3 : Int.tmod (a / 60) 60 = a / 60 % 60 := by rw [Proofs.tmod_eq]; split <;> omega
  have e3' : Int.tmod a 60 = a % 60 := by rw [Proofs.tmod_eq]; split <;> omega
  have e4 : asU8 (a / 60 / 60) = a / 60 / 60 := by unfold asU8; omega
  have e5 : asU8 (a / 60 % 60) = a / 60 % 60 := by unfold asU8; omega
  have e6 : asU8 (a % 60) = a % 60 := by unfold asU8; omega
  simp only [offsetParts, e1, e2, e3, e3', e4, e5, e6, ne_eq, not_true_eq_false, false_and, if_false]

theorem parts_hours (a : Int) (h0 : 0 ≤ a) (h1 : a < 86400) :
    offsetParts .hours a = (a / 3600, 0, 0, .hours) := by
  have e1 : Int.tdiv a 3600 = a / 3600 := by rw [Proofs.tdiv_eq]; split <;> omega
  have e4 : asU8 (a / 3600) = a / 3600 := by unfold asU8; omega
  simp only [offsetParts, e1, e4]

theorem div60_60' (x : Int) : x / 60 / 60 = x / 3600 := by omega

/-- `OffsetFormat::format` with zero padding, in the four styles the strftime items use -/
theorem offset_format_ok (off : Int) (h : -86400 < off ∧ off < 86400) (style : OffsetStyle) (p : OffsetPrecision)
    (c : Colons)
    (hc : (style = .plain ∧ p = .minutes ∧ (c = .maybe ∨ c = .none)) ∨ (style = .colon ∧ p = .minutes ∧ c = .colon) ∨
       (style = .seconds ∧ p = .seconds ∧ c = .colon) ∨ (style = .hours ∧ p = .hours ∧ c = .none)) (z : Bool) :
    OffsetFormat.format ⟨p, c, z, .zero⟩ off = wok (if z = true ∧ off = 0 then [90] else renderOffset style off) := by
  unfold OffsetFormat.format
  dsimp only
  by_cases hz : z = true ∧ off = 0
  · rw [if_pos hz, if_pos hz]
  · rw [if_neg hz, if_neg hz]
    have hsgn : (if off < 0 then 45 else 43 : Nat) = 43 ∨ (if off < 0 then 45 else 43 : Nat) = 45 := by
      split <;> simp
    have habs : (if off < 0 then -off else off) = (off.natAbs : Int) := by split <;> omega
    rw [habs]
    have ha0 : (0 : Int) ≤ off.natAbs := by omega
    have ha1 : (off.natAbs : Int) < 86400 := by omega
    unfold renderOffset
    generalize (off.natAbs : Int) = a at *
    generalize (if off < 0 then 45 else 43 : Nat) = sg at *
    rcases hc with ⟨rfl, rfl, hc⟩ | ⟨rfl, rfl, rfl⟩ | ⟨rfl, rfl, rfl⟩ | ⟨rfl, rfl, rfl⟩
    · have hcol : (decide (c = Colons.colon)) = false := by rcases hc with rfl | rfl <;> decide
      rw [parts_minutes a ha0 ha1]
      dsimp only
      rw [hoursText_ok _ (by omega) (by omega) sg hsgn]
      simp only [tailText, hcol, write_hundreds_ok' _ (show (0:Int) ≤ (a + 30) / 60 % 60 by omega) (show (a + 30) / 60 % 60 < 100 by omega)]
      simp [W.seq, wok]
    · rw [parts_minutes a ha0 ha1]
      dsimp only
      rw [hoursText_ok _ (by omega) (by omega) sg hsgn]
      simp only [tailText, write_hundreds_ok' _ (show (0:Int) ≤ (a + 30) / 60 % 60 by omega) (show (a + 30) / 60 % 60 < 100 by omega)]
      simp [W.seq, wok]
    · rw [parts_seconds a ha0 ha1]
      dsimp only
      rw [hoursText_ok _ (by omega) (by omega) sg hsgn]
      simp only [tailText, write_hundreds_ok' _ (show (0:Int) ≤ a / 60 % 60 by omega) (show a / 60 % 60 < 100 by omega),
        write_hundreds_ok' _ (show (0:Int) ≤ a % 60 by omega) (show a % 60 < 100 by omega)]
      simp [W.seq, wok, div60_60']
    · rw [parts_hours a ha0 ha1]
      dsimp only
      rw [hoursText_ok _ (by omega) (by omega) sg hsgn]
      simp [tailText, W.seq, wok]

/-- `%z %:z %::z %:::z` and the `Z` variants, every offset a `FixedOffset` can hold -/
theorem offset_ok (off : Int) (h : -86400 < off ∧ off < 86400) (d : Option Date) (t : Option Time) (name : List Nat)
    (y : Int) (o : Nat) (tt : Time) (f : Fixed)
    (hf : f ∈ [Fixed.timezoneOffset, .timezoneOffsetColon, .timezoneOffsetDoubleColon, .timezoneOffsetTripleColon,
               .timezoneOffsetZ, .timezoneOffsetColonZ]) :
    some (format_fixed d t (some (name, off)) f) = (renderFixed f y o tt off).map wok := by
  simp only [List.mem_cons, List.mem_nil_iff, or_false] at hf
  rcases hf with rfl | rfl | rfl | rfl | rfl | rfl
  · cases d <;> cases t <;>
    · simp only [format_fixed, renderFixed, Option.map_some]
      rw [offset_format_ok off h .plain .minutes .maybe (by simp) false]; simp
  · cases d <;> cases t <;>
    · simp only [format_fixed, renderFixed, Option.map_some]
      rw [offset_format_ok off h .colon .minutes .colon (by simp) false]; simp
  · cases d <;> cases t <;>
    · simp only [format_fixed, renderFixed, Option.map_some]
      rw [offset_format_ok off h .seconds .seconds .colon (by simp) false]; simp
  · cases d <;> cases t <;>
    · simp only [format_fixed, renderFixed, Option.map_some]
      rw [offset_format_ok off h .hours .hours .none (by simp) false]; simp
  · cases d <;> cases t <;>
    · simp only [format_fixed, renderFixed, Option.map_some]
      rw [offset_format_ok off h .plain .minutes .maybe (by simp) true]; simp
  · cases d <;> cases t <;>
    · simp only [format_fixed, renderFixed, Option.map_some]
      rw [offset_format_ok off h .colon .minutes .colon (by simp) true]; simp



/-! ### the writer loop -/

theorem formatItems_error (d : Option Date) (t : Option Time) (off : Option (List Nat × Int)) (is : List Item)
    (h : Item.error ∈ is) : formatItems d t off is = none := by
  unfold formatItems
  induction is with
  | nil => simp at h
  | cons it rest ih =>
    rw [formatItemsR]
    rcases List.mem_cons.mp h with rfl | h'
    · rfl
    · have := ih h'
      cases hr : formatItemsR d t off rest with
      | panic => cases hi : format_item d t off it with
        | panic => rfl
        | ok r => cases r <;> rfl
      | ok r =>
        rw [hr] at this
        dsimp only at this
        subst this
        cases hi : format_item d t off it with
        | panic => rfl
        | ok r => cases r <;> rfl

theorem formatItemsR_append (d : Option Date) (t : Option Time) (off : Option (List Nat × Int)) (a b : List Item) :
    formatItemsR d t off (a ++ b) = (formatItemsR d t off a).seq (formatItemsR d t off b) := by
  induction a with
  | nil =>
    simp only [List.nil_append, formatItemsR]
    cases h : formatItemsR d t off b with
    | panic => rfl
    | ok r => cases r <;> simp [W.seq, wok]
  | cons it rest ih =>
    simp only [List.cons_append, formatItemsR, ih]
    cases format_item d t off it with
    | panic => rfl
    | ok r =>
      cases r with
      | none => rfl
      | some x =>
        cases formatItemsR d t off rest with
        | panic => rfl
        | ok r2 =>
          cases r2 with
          | none => rfl
          | some y2 =>
            cases formatItemsR d t off b with
            | panic => rfl
            | ok r3 => cases r3 <;> simp [W.seq]



theorem charLen_pos (b : Nat) : 1 ≤ Scan.charLen b := by unfold Scan.charLen; split <;> (try split) <;> (try split) <;> omega

/-- a character that is not `%` starts a space or literal item -/
theorem parse_next_item_text (l : Bool) (b : Nat) (rest : List Nat) (hb : b ≠ 37) :
    ∃ n, 1 ≤ n ∧ ∃ it, (it = Item.space ((b :: rest).take n) ∨ it = Item.literal ((b :: rest).take n)) ∧
      parse_next_item l (b :: rest) = some ((b :: rest).drop n, it, []) := by
  unfold parse_next_item
  split
  · rename_i h; cases h
  · rename_i r0 h
    injection h with h1 h2
    exact absurd h1 hb
  · rename_i b' tl h
    injection h with h1 h2
    subst h1
    by_cases hw : Scan.wsLen (b :: rest) ≠ 0
    · rw [if_pos hw]
      exact ⟨_, by omega, _, Or.inl rfl, rfl⟩
    · rw [if_neg hw]
      have := charLen_pos b
      exact ⟨_, by omega, _, Or.inr rfl, rfl⟩

/-- text without `%` is copied unchanged, in both modes and whatever the value -/
theorem literal_copied_aux (l : Bool) (d : Option Date) (t : Option Time) (off : Option (List Nat × Int)) :
    ∀ (fuel : Nat) (s : List Nat), s.length < fuel → (∀ b ∈ s, b ≠ 37) →
      formatItemsR d t off (itemsAux l fuel s) = wok s := by
  intro fuel
  induction fuel with
  | zero => intro s h; omega
  | succ f ih =>
    intro s hl hs
    cases s with
    | nil => rfl
    | cons b rest =>
      obtain ⟨n, hn, it, hit, hp⟩ := parse_next_item_text l b rest (hs b (by simp))
      rw [itemsAux, hp]
      dsimp only
      rw [List.nil_append, formatItemsR]
      have hrec := ih ((b :: rest).drop n) (by simp only [List.length_drop, List.length_cons] at *; omega)
        (fun x hx => hs x (List.mem_of_mem_drop hx))
      rw [hrec]
      rcases hit with rfl | rfl <;>
      · simp only [format_item, W.seq, wok, List.take_append_drop]

end Chrono.Proofs.FormatL
