/-
  C14 with C01's ISO-week theorems: the hypothesis of the ISO combination is discharged, and the
  inverse direction (ISO fields of a day rebuild the day) extends completeness to the ISO combination.
-/
import Chrono.Proofs.ParsedDtL
import Chrono.Proofs.IsoL
namespace Chrono.Proofs.ParsedRes
open Chrono Chrono.M Chrono.Spec Chrono.Spec.Fields Chrono.Extracted Chrono.Proofs

/-- C01's ISO-week round trip discharges the hypothesis of the ISO combination -/
theorem isoCtorSpec_holds : IsoCtorSpec := fun y w wd d h => isoywd_roundtrip' y w wd d h

theorem iso_arith (B n : Int) (ot f8 W : Nat) (h1 : 1 ≤ f8 ∧ f8 ≤ 7)
    (h2 : ((f8 : Nat) : Int) % 7 = (B + 6) % 7) (h3 : B + (ot : Int) = n - (n + 6) % 7 + 3)
    (h4 : (W : Int) = (n + 6) % 7) (h5 : 1 ≤ ot) :
    B + 7 * (((ot - 1) / 7 + 1 : Nat) : Int) + (W : Int) -
      (((if f8 < 3 then f8 + 7 else f8) : Nat) : Int) = n := by
  split <;> (push_cast; omega)

/-- inverse direction: the ISO year, week and weekday of an existing day rebuild that day -/
theorem isoywd_back (Y : Int) (o : Nat) (h : VD Y o) (w : Int)
    (hw : (dateOfYo Y o).iso_week = .ok w) :
    0 ≤ IsoWeek.week w ∧
    Date.from_isoywd_opt (IsoWeek.year w) (IsoWeek.week w).toNat (dateOfYo Y o).weekday =
      .ok (some (dateOfYo Y o)) := by
  obtain ⟨v1, v2, v3, v4⟩ := h
  obtain ⟨IY, ot, t1, t2, t3, t4⟩ := iso_week_spec' Y o ⟨v1, v2⟩ ⟨v3, v4⟩
  rw [t4] at hw
  cases hw
  have hylI := yearLen_ge IY
  obtain ⟨hf16, hf8, _, hwf⟩ := flagsOf_facts IY
  obtain ⟨f1, f2⟩ := ywf_fields IY ((ot - 1) / 7 + 1) (flagsOf IY) (by omega) hf16
  rw [f1, f2]
  simp only [Int.toNat_natCast]
  refine ⟨by omega, ?_⟩
  have hyl := yearLen_ge Y
  have hwd := weekday_spec Y o (by omega)
  generalize hWD : (dateOfYo Y o).weekday = wd at *
  have hwd6 := wd_toNat_le wd
  -- the denoted day number is the day itself
  have hthu := isoDayNum_eq IY (((ot - 1) / 7 + 1 : Nat) : Int) 3
  have hday := isoDayNum_eq IY (((ot - 1) / 7 + 1 : Nat) : Int) (wd.toNat : Int)
  have hthw := isoThursday_wd (dayNumYo Y o)
  have hdn : isoDayNum IY (((ot - 1) / 7 + 1 : Nat) : Int) (wd.toNat : Int) = dayNumYo Y o := by
    rw [hday]
    unfold isoThursday weekdayOf at t3
    unfold weekdayOf at hwd hwf
    unfold YearFlags.isoweek_delta
    dsimp only
    have t3' : daysBeforeYear IY + (ot : Int) = dayNumYo Y o - (dayNumYo Y o + 6) % 7 + 3 := by
      unfold dayNumYo at t3 ⊢; exact t3
    exact iso_arith (daysBeforeYear IY) (dayNumYo Y o) ot (flagsOf IY % 8) wd.toNat (by omega) hwf t3' hwd t1
  have hthu' : isoDayNum IY (((ot - 1) / 7 + 1 : Nat) : Int) 3 = dayNumYo IY ot := by
    have := (isoThursday_isoDayNum IY (((ot - 1) / 7 + 1 : Nat) : Int) wd.toNat hwd6).1
    rw [hdn] at this
    rw [← this, t3]
  obtain ⟨r, hr, hsome, hnone⟩ := ctor_isoywd' IY ((ot - 1) / 7 + 1) wd
  rw [hr]
  have hrange := (range_iff_iso Y o ⟨v3, v4⟩).mp ⟨v1, v2⟩
  have hs := dby_step IY
  have hex : isoWeekExists IY (((ot - 1) / 7 + 1 : Nat) : Int) := by
    unfold isoWeekExists
    rw [hthu']
    unfold dayNumYo
    refine ⟨by omega, by omega, by omega⟩
  cases r with
  | none =>
    exfalso
    exact (hnone.mp rfl) ⟨hex, by rw [hdn]; exact hrange⟩
  | some d' =>
    obtain ⟨Y', o', hd', _, _, o1, o2, hdn'⟩ := hsome d' rfl
    rw [hdn] at hdn'
    obtain ⟨e1, e2⟩ := yo_unique Y' Y o' o ⟨o1, o2⟩ ⟨v3, v4⟩ hdn'
    subst e1 e2
    rw [hd']


theorem date_complete_full (p : Parsed) (hp : InType p) (Y : Int) (o : Nat) (hvd : VD Y o)
    (hag : DateAgrees p Y o)
    (hdY : GroupDeterminate p.year p.year_div_100 p.year_mod_100 Y)
    (hdI : ∀ w, (dateOfYo Y o).iso_week = .ok w →
      GroupDeterminate p.isoyear p.isoyear_div_100 p.isoyear_mod_100 (IsoWeek.year w))
    (hc : UsesCalendar p ∨ UsesIso p) :
    Parsed.to_naive_date p = .ok (.ok (dateOfYo Y o)) := by
  obtain ⟨a1, a2, a3, a4, a5, a6, a7, a8, a9, ⟨w, hw, i1, i2, i3⟩⟩ := hag
  have hall : AllOk p Y o := ⟨⟨a1, a2, a4, a9⟩, ⟨⟨w, hw, i1, i2, i3⟩, a7⟩, a8, a5, a6⟩
  have hMIN : MIN_YEAR = -262143 := rfl
  have hMAX : MAX_YEAR = 262142 := rfl
  obtain ⟨v1, v2, v3, v4⟩ := hvd
  have hvd : VD Y o := ⟨v1, v2, v3, v4⟩
  have hib := iso_year_bound Y o hvd w hw
  have hgy := resolve_year_complete _ _ _ Y (by omega) a1 a2 hdY
  have hgi := resolve_year_complete _ _ _ (IsoWeek.year w) (by omega) i1 i2 (hdI w hw)
  obtain ⟨b1, b2, c1, c2, iall, _, _⟩ := checks_ok p Y o hp hvd
  have hb := iall.mpr hall
  rw [Bool.and_eq_true, Bool.and_eq_true] at hb
  obtain ⟨⟨hb1, hb2⟩, hb3⟩ := hb
  obtain ⟨_, _, _, hm, _, hwdy, _⟩ := vd_fields Y o hvd
  obtain ⟨_, _, hval, hoo⟩ := month_day_spec Y o v3 v4
  have hm1 : 1 ≤ monthOfYo Y o := by
    unfold validYmd at hval; simp at hval; omega
  obtain ⟨hwk0, hback⟩ := isoywd_back Y o hvd w hw
  have harm : ∀ gy gi, (gy = none ∨ gy = some Y) → (gi = none ∨ gi = some (IsoWeek.year w)) →
      (UsesCalendar p → gy = some Y) → (UsesIso p → gi = some (IsoWeek.year w)) →
      Parsed.armDate p (Parsed.dateArm p gy gi) = .ok (.ok (true, dateOfYo Y o)) := by
    intro gy gi hgyv hgiv hcal hiso
    have yEq : ∀ y, gy = some y → y = Y := by
      intro y e; rcases hgyv with h | h <;> rw [h] at e <;> cases e; rfl
    rcases dateArm_cases p gy gi with ⟨y, m, d, e1, e2, e3, ha⟩ | ⟨y, oo, e1, e2, ha⟩ |
        ⟨y, wk, wd, e1, e2, e3, ha⟩ | ⟨y, wk, wd, e1, e2, e3, ha⟩ | ⟨y, wk, wd, e1, e2, e3, ha⟩ | ⟨_, hn⟩
    · have := yEq y e1; subst this
      rw [ha]
      unfold Parsed.armDate
      simp only []
      have em := a4 m e2
      have ed := a9 d e3
      subst em; subst ed
      simp only [Int.toNat_natCast]
      rw [ctor_ymd', if_pos ⟨v1, v2, hval⟩, hoo]
      simp only [Parsed.okOr, Parsed.RP.bind]
      rw [c2, andR_ok, hb2, hb3]
      rfl
    · have := yEq y e1; subst this
      rw [ha]
      unfold Parsed.armDate
      simp only []
      have eo := a8 oo e2
      subst eo
      simp only [Int.toNat_natCast]
      rw [ctor_yo', if_pos ⟨v1, v2, v3, v4⟩]
      simp only [Parsed.okOr, Parsed.RP.bind]
      rw [c1, c2, andR_ok, andR_ok, hb1, hb2, hb3]
      rfl
    · have := yEq y e1; subst this
      rw [ha]
      unfold Parsed.armDate
      simp only []
      have ew := a5 wk e2
      have ewd := a7 wd e3
      have hwo := weekOrd_of_weekNo y o wk wd .sun 6 rfl ew ewd
      rw [resolve_week_date_spec, hwo]
      have hwk := (weeks_from_spec y o hvd).2.2.2.1
      rw [if_neg (by rw [ew]; omega), if_neg (by intro h; exact h ⟨v1, v2⟩), if_neg (by omega),
        if_pos (by omega)]
      simp only [Int.toNat_natCast, Parsed.RP.bind]
      rw [c1, c2, andR_ok, andR_ok, hb1, hb2, hb3]
      rfl
    · have := yEq y e1; subst this
      rw [ha]
      unfold Parsed.armDate
      simp only []
      have ew := a6 wk e2
      have ewd := a7 wd e3
      have hwo := weekOrd_of_weekNo y o wk wd .mon 0 rfl ew ewd
      rw [resolve_week_date_spec, hwo]
      have hwk := (weeks_from_spec y o hvd).2.2.2.2.2
      rw [if_neg (by rw [ew]; omega), if_neg (by intro h; exact h ⟨v1, v2⟩), if_neg (by omega),
        if_pos (by omega)]
      simp only [Int.toNat_natCast, Parsed.RP.bind]
      rw [c1, c2, andR_ok, andR_ok, hb1, hb2, hb3]
      rfl
    · have hy : y = IsoWeek.year w := by
        rcases hgiv with h | h <;> rw [h] at e1 <;> cases e1; rfl
      subst hy
      rw [ha]
      unfold Parsed.armDate
      simp only []
      have ew := i3 wk e2
      have ewd := a7 wd e3
      have hwdeq : wd = (dateOfYo Y o).weekday := by
        apply wd_toNat_inj
        have : ((wd.toNat : Nat) : Int) = (((dateOfYo Y o).weekday.toNat : Nat) : Int) := by
          rw [ewd, hwdy]
        exact Int.ofNat.inj this
      rw [ew, hwdeq, hback]
      simp only [Parsed.okOr, Parsed.RP.bind]
      rw [c1, andR_ok, hb1, hb3]
      rfl
    · exfalso
      apply hn
      rcases hc with h | h
      · left; exact ⟨by rw [hcal h]; simp, h.2⟩
      · right; exact ⟨by rw [hiso h]; simp, h.2⟩
  unfold Parsed.to_naive_date
  rw [hgy, hgi]
  simp only []
  rw [harm _ _ (by split <;> simp) (by split <;> simp)
    (by intro h; rw [if_neg]; rintro ⟨h1, h2⟩; rcases h.1 with g | g; exact g h1; exact g h2)
    (by intro h; rw [if_neg]; rintro ⟨h1, h2⟩; rcases h.1 with g | g; exact g h1; exact g h2)]
  simp only [Parsed.RP.bind, Bool.not_true, Bool.false_eq_true, if_false]
  cases hq : p.quarter with
  | none => rfl
  | some q =>
    simp only []
    rw [hm]
    simp only []
    rw [quarter_eq _ hm1, if_neg]
    intro hne
    exact hne (a3 q hq)

end Chrono.Proofs.ParsedRes
