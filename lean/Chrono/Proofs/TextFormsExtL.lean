/-
  C09, audit gaps M1/M2: the zone-aware text forms on the WHOLE quantifier domain, i.e. also for the
  values whose wall clock leaves `NaiveDate::MIN..=MAX` (the headroom years `MIN_YEAR − 1` and
  `MAX_YEAR + 1` of the extended calendar, `ExtDateInv`).

  * the writers' text for a date of the extended calendar (`date_debug_text_ext`, …);
  * the wall clock of any well-formed zone-aware value with a whole-minute offset (`local_facts_ext`);
  * what the tail of the relaxed reader makes of the specification's offset text (`offset_tail`);
  * the resolution of the stored fields of a headroom-year date: `Err(OutOfRange)`.
-/
import Chrono.Proofs.TextFormsZonedL
namespace Chrono.Proofs.TextFormsExt
open Chrono Chrono.M Chrono.M.Scan Chrono.M.Format Chrono.M.TextForms
open Chrono.Proofs Chrono.Proofs.TextForms Chrono.Proofs.RenderScan Chrono.Spec Chrono.Spec.Text
open Chrono.Spec.Fields Chrono.Proofs.ParsedRes Chrono.Extracted

/-! ### writers on the extended calendar -/

theorem vyo_month_day (y : Int) (o : Nat) (h : VYO y o) :
    -1000000 < y ∧ y < 1000000 ∧ 1 ≤ monthOfYo y o ∧ monthOfYo y o ≤ 12 ∧ 1 ≤ dayOfYo y o ∧ dayOfYo y o ≤ 31 := by
  obtain ⟨hy1, hy2, ho1, ho2⟩ := h
  have hMIN : MIN_YEAR = -262143 := rfl
  have hMAX : MAX_YEAR = 262142 := rfl
  obtain ⟨_, _, m3, _⟩ := month_day_spec y o ho1 ho2
  obtain ⟨b1, b2⟩ := valid_bounds y _ _ m3
  unfold validYmd at m3
  simp only [Bool.and_eq_true, decide_eq_true_eq] at m3
  omega

/-- `NaiveDate`'s text is the specification's for every date of the extended calendar (the dates a
zone-aware value can show as its wall clock) -/
theorem date_debug_text_ext (y : Int) (o : Nat) (h : VYO y o) :
    date_debug (dateOfYo y o) = wok (dateText y (monthOfYo y o) (dayOfYo y o)) := by
  obtain ⟨hy1, hy2, ho1, ho2⟩ := h
  have hMIN : MIN_YEAR = -262143 := rfl
  have hMAX : MAX_YEAR = 262142 := rfl
  obtain ⟨m1, m2, m3, _⟩ := month_day_spec y o ho1 ho2
  obtain ⟨hyear, _⟩ := dateOfYo_fields y o (by have := yearLen_ge y; omega)
  obtain ⟨b1, b2⟩ := valid_bounds y _ _ m3
  unfold date_debug
  rw [hyear]
  unfold Date.month at m1
  unfold Date.day at m2
  cases hmdf : (dateOfYo y o).mdf with
  | panic => rw [hmdf] at m1; cases m1
  | ok mdf =>
    rw [hmdf] at m1 m2
    injection m1 with m1; injection m2 with m2
    simp only [W.ofRes]
    rw [m1, m2, write_year_text y (by omega), hundreds_u8 _ (by omega) (by omega),
      hundreds_u8 _ (by omega) (by omega)]
    simp only [seq_wok, dateText, Int.toNat_natCast, List.append_assoc]

theorem dateTextOf_yo_ext (y : Int) (o : Nat) (h : VYO y o) :
    dateTextOf (dateOfYo y o) = dateText y (monthOfYo y o) (dayOfYo y o) := by
  obtain ⟨h1, h2, _⟩ := dateOfYo_fields y o (by have := yearLen_ge y; have := h.2.2.2; omega)
  unfold dateTextOf
  rw [h1, h2, Int.toNat_natCast]

theorem naive_debug_text_ext (y : Int) (o : Nat) (h : VYO y o) (t : Time) (ht : TValid t) :
    naive_debug ⟨dateOfYo y o, t⟩ = wok (naiveText 84 ⟨dateOfYo y o, t⟩) := by
  unfold naive_debug naiveText
  rw [date_debug_text_ext y o h, time_debug_text t ht, dateTextOf_yo_ext y o h]
  rfl

theorem naive_display_text_ext (y : Int) (o : Nat) (h : VYO y o) (t : Time) (ht : TValid t) :
    naive_display ⟨dateOfYo y o, t⟩ = wok (naiveText 32 ⟨dateOfYo y o, t⟩) := by
  unfold naive_display naiveText
  rw [date_debug_text_ext y o h, time_debug_text t ht, dateTextOf_yo_ext y o h]
  rfl

/-! ### the wall clock of any zone-aware value with a whole-minute offset -/

/-- the wall clock `l` of a well-formed value: a date of the extended calendar, a time of day with
the same fraction field, the reading of `wallSecs z`; with a whole-minute offset a leap second stays
on second 59; `l`'s date is a `NaiveDate` exactly when `wallSecs z` is in range -/
theorem local_facts_ext (z : Zoned) (hz : ZInv z) (hm : z.off % 60 = 0) (hs : TStrict z.utc.time) :
    ∃ l, Zoned.overflowing_naive_local z = .ok l ∧ ExtNDTInv l ∧ instSecs l = wallSecs z ∧
      l.time.frac = z.utc.time.frac ∧ TStrict l.time ∧
      VYO l.date.year l.date.ordinal.toNat ∧ l = ⟨dateOfYo l.date.year l.date.ordinal.toNat, l.time⟩ ∧
      Zoned.naive_local z = (if InRangeSecs (wallSecs z) then .ok l else .panic) ∧
      (InRangeSecs (wallSecs z) ↔ MIN_YEAR ≤ l.date.year ∧ l.date.year ≤ MAX_YEAR) := by
  obtain ⟨l, h1, h2, h3, h4, h5, h6⟩ := naive_local_spec z hz
  obtain ⟨e1, e2⟩ := ext_eq l.date h2.1
  refine ⟨l, h1, h2, h3, h4, ⟨h2.2, ?_⟩, e2, ?_, h5, ?_⟩
  · obtain ⟨hv, hleap⟩ := hs
    rw [h4]
    rcases hleap with hleap | hleap
    · exact Or.inl hleap
    · right
      unfold instSecs wallSecs instSecs at h3
      generalize dayNumOf l.date = A at h3
      generalize dayNumOf z.utc.date = B at h3
      have : EPOCH_DAY = 719163 := rfl
      omega
  · cases l with
    | mk d t => simp only [NaiveDT.mk.injEq, and_true]; exact e1
  · rw [← h6, dateInv_iff]
    exact ⟨fun h => h.2, fun h => ⟨h2.1, h⟩⟩

/-! ### the offset tail -/

/-- what the zone-aware writers and the tail of the relaxed reader do with the specification's text
of a whole-minute offset (from the complete check of the 2 879 offsets, `offset_fin`) -/
theorem offset_tail (off : Int) (hm : WholeMinute off) :
    offset_debug off = offsetText off ∧ TailOk (offsetText off) ∧ wsLen (offsetText off) = 0 ∧
    trimStart (offsetText off) = offsetText off ∧
    (if (offsetText off).length ≥ 3 ∧ lowerS (List.take 3 (offsetText off)) = [117, 116, 99] then
        Except.ok (List.drop 3 (offsetText off), (0 : Int))
      else Scan.timezone_offset (offsetText off) .colonOrSpace true false true) = .ok ([], off) := by
  obtain ⟨ftext, fread⟩ := offset_fin off hm
  have htxt : offset_debug off = offsetText off := by
    unfold offsetTextOk at ftext; exact of_decide_eq_true (by simpa using ftext)
  unfold offsetReadOk at fread
  simp only [Bool.and_eq_true, Bool.not_eq_true', beq_iff_eq] at fread
  obtain ⟨⟨⟨⟨r1, _⟩, r3⟩, r4⟩, r5⟩ := fread
  obtain ⟨c, tl, hc⟩ : ∃ c tl, offsetText off = c :: tl := ⟨_, _, rfl⟩
  have htail : TailOk (offsetText off) := by
    rw [hc] at r5 ⊢
    simp only [Bool.and_eq_true, Bool.not_eq_true', bne_iff_ne, ne_eq] at r5
    exact tailOk_cons c tl r5.1 r5.2
  refine ⟨htxt, htail, r3, trimStart_of_wsLen_zero _ r3, ?_⟩
  have hno : ¬ ((offsetText off).length ≥ 3 ∧ lowerS (List.take 3 (offsetText off)) = [117, 116, 99]) := by
    intro hh
    simp only [Bool.and_eq_false_iff, decide_eq_false_iff_not] at r4
    rcases r4 with r4 | r4
    · exact r4 hh.1
    · rw [hh.2] at r4; simp at r4
  rw [if_neg hno]
  revert r1
  cases Scan.timezone_offset (offsetText off) .colonOrSpace true false true with
  | error e => intro h; cases h
  | ok r =>
    obtain ⟨rs, v⟩ := r
    cases rs with
    | nil => intro h; simp only [beq_iff_eq] at h; rw [h]
    | cons _ _ => intro h; cases h

/-! ### the reader on a headroom-year wall clock -/

/-- the fields stored for a date of a year outside `MIN_YEAR..=MAX_YEAR` (any month and day) and a
time of day resolve to `Err(OutOfRange)`: `to_naive_date` fails in `from_ymd_opt`, there is no
timestamp to fall back to -/
theorem to_datetime_out_of_range (Y : Int) (hY : ¬ (MIN_YEAR ≤ Y ∧ Y ≤ MAX_YEAR)) (m d : Nat) (t : Time)
    (off : Int) :
    Parsed.to_datetime (dtRecord Y m d t (some off)) = .ok (.error .outOfRange) := by
  have hctor : Date.from_ymd_opt Y m d = .ok none := by
    rw [ctor_ymd', if_neg (by intro h; exact hY ⟨h.1, h.2.1⟩)]
  have hdate : Parsed.to_naive_date (dtRecord Y m d t (some off)) = .ok (.error .outOfRange) := by
    unfold Parsed.to_naive_date
    have f1 : (dtRecord Y m d t (some off)).year = some Y := rfl
    have f2 : (dtRecord Y m d t (some off)).year_div_100 = none := rfl
    have f3 : (dtRecord Y m d t (some off)).year_mod_100 = none := rfl
    have f4 : (dtRecord Y m d t (some off)).isoyear = none := rfl
    have f5 : (dtRecord Y m d t (some off)).isoyear_div_100 = none := rfl
    have f6 : (dtRecord Y m d t (some off)).isoyear_mod_100 = none := rfl
    simp only [f1, f2, f3, f4, f5, f6, Parsed.resolve_year, and_self, if_true]
    have harm : Parsed.dateArm (dtRecord Y m d t (some off)) (some Y) none = .ymd Y m d := rfl
    rw [harm]
    simp only [Parsed.armDate, Int.toNat_natCast, hctor, Parsed.okOr, Parsed.RP.bind]
  have hndt : Parsed.to_naive_datetime_with_offset (dtRecord Y m d t (some off)) off =
      .ok (.error .outOfRange) := by
    unfold Parsed.to_naive_datetime_with_offset
    rw [hdate]
    have f7 : (dtRecord Y m d t (some off)).timestamp = none := rfl
    cases Parsed.to_naive_time (dtRecord Y m d t (some off)) <;> simp only [f7]
  unfold Parsed.to_datetime
  have f8 : (dtRecord Y m d t (some off)).offset = some off := rfl
  simp only [f8, hndt, Parsed.RP.bind]

/-- **the F25 band, reader side**: the specification's text of a zone-aware value whose wall clock is
in a headroom year — date, `T` or space, time, then a tail that the offset part turns into the
offset — is answered with `Err(OutOfRange)` -/
theorem fixed_from_text_oor (l : NaiveDT) (hv : VYO l.date.year l.date.ordinal.toNat)
    (he : l = ⟨dateOfYo l.date.year l.date.ordinal.toNat, l.time⟩)
    (hY : ¬ (MIN_YEAR ≤ l.date.year ∧ l.date.year ≤ MAX_YEAR)) (hst : TStrict l.time)
    (off : Int) (ho : -86400 < off ∧ off < 86400)
    (sep : Nat) (hsep : sep = 84 ∨ sep = 32) (tail tail' : List Nat)
    (htail : TailOk tail) (htrim : trimStart (trimStart tail) = tail')
    (hT : (if tail'.length ≥ 3 ∧ lowerS (List.take 3 tail') = [117, 116, 99] then
             Except.ok (List.drop 3 tail', (0 : Int))
           else timezone_offset tail' .colonOrSpace true false true) = .ok ([], off)) :
    fixed_from_str (naiveText sep l ++ tail) = .ok (.error .outOfRange) := by
  generalize hYd : l.date.year = Y at *
  generalize hOd : l.date.ordinal.toNat = O at *
  have htext : naiveText sep l ++ tail =
      dateText Y (monthOfYo Y O) (dayOfYo Y O) ++ (sep :: (timeText l.time ++ tail)) := by
    unfold naiveText
    have : l.date = dateOfYo Y O := by rw [he]
    rw [this, dateTextOf_yo_ext Y O hv, List.append_assoc, List.cons_append]
  obtain ⟨a1, a2, a3, a4, a5, a6⟩ := vyo_month_day Y O hv
  unfold fixed_from_str
  rw [htext, relaxed_on_text Y ⟨a1, a2⟩ _ _ ⟨a3, a4⟩ ⟨a5, a6⟩ l.time hst sep hsep tail tail' off (by omega)
    htail htrim hT]
  simp only [trimStart_nil, ne_eq, not_true_eq_false, if_false]
  exact to_datetime_out_of_range Y hY _ _ _ _

/-! ### both zone-aware texts on the whole domain -/

/-- the `Debug` and `Display` text of EVERY well-formed zone-aware value with a whole-minute offset
(in range or in the F25 band): the specification's text of its wall clock `l`, then the offset -/
theorem fixed_texts_ext (z : Zoned) (hz : ZInv z) (hm : WholeMinute z.off) (hs : TStrict z.utc.time) :
    ∃ l, Zoned.overflowing_naive_local z = .ok l ∧ ExtNDTInv l ∧ instSecs l = wallSecs z ∧
      l.time.frac = z.utc.time.frac ∧ TStrict l.time ∧ VYO l.date.year l.date.ordinal.toNat ∧
      fixed_debug z = wok (naiveText 84 l ++ offsetText z.off) ∧
      fixed_display z = wok (naiveText 32 l ++ (32 :: offsetText z.off)) := by
  obtain ⟨l, hov, hext, h3, h4, hst, hv, he, _, _⟩ := local_facts_ext z hz hm.2.2 hs
  obtain ⟨htxt, _, _, _, _⟩ := offset_tail z.off hm
  refine ⟨l, hov, hext, h3, h4, hst, hv, ?_, ?_⟩
  · unfold fixed_debug zoned_debug
    rw [hov, htxt]
    simp only [W.ofRes]
    obtain ⟨Y, O, hv', he'⟩ : ∃ Y O, VYO Y O ∧ l = ⟨dateOfYo Y O, l.time⟩ := ⟨_, _, hv, he⟩
    rw [he', naive_debug_text_ext Y O hv' _ hst.1, seq_wok]
  · unfold fixed_display zoned_display
    rw [hov, htxt]
    simp only [W.ofRes]
    obtain ⟨Y, O, hv', he'⟩ : ∃ Y O, VYO Y O ∧ l = ⟨dateOfYo Y O, l.time⟩ := ⟨_, _, hv, he⟩
    rw [he', naive_display_text_ext Y O hv' _ hst.1, seq_wok, seq_wok]
    simp only [List.cons_append, List.nil_append]

end Chrono.Proofs.TextFormsExt
