/-
  Helper lemmas for the second audit of C01 (audit2/C01.md): coherence of the calendar specification
  (closed-form day number ↔ leap rule, cumulative table ↔ month lengths), the bounds of the ordinal of
  a valid calendar form, injectivity of the four constructors, and the checked `IsoWeek::week0`.
-/
import Chrono.Proofs.C01GapsL

namespace Chrono.Proofs.C01R2
open Chrono Chrono.M Chrono.Spec Chrono.Extracted Chrono.Proofs Chrono.Proofs.C01Gaps

/-! ### the specification is coherent -/

theorem dby_400 (y : Int) : daysBeforeYear (y + 400) = daysBeforeYear y + 146097 := by
  unfold daysBeforeYear; omega

theorem ordinalOf_jan1 (y : Int) : ordinalOf y 1 1 = 1 := by
  unfold ordinalOf cumDays; simp

theorem month_cases (m : Nat) (h1 : 1 ≤ m) (h2 : m ≤ 12) :
    m = 1 ∨ m = 2 ∨ m = 3 ∨ m = 4 ∨ m = 5 ∨ m = 6 ∨ m = 7 ∨ m = 8 ∨ m = 9 ∨ m = 10 ∨ m = 11 ∨ m = 12 := by
  omega

/-- the first day of month `m + 1` follows the last day of month `m`: the cumulative table of
`ordinalOf` is the running sum of `monthLen` -/
theorem ordinalOf_month_step (y : Int) (m : Nat) (h1 : 1 ≤ m) (h2 : m < 12) :
    ordinalOf y (m + 1) 1 = ordinalOf y m (monthLen y m) + 1 := by
  rcases month_cases m h1 (by omega) with h | h | h | h | h | h | h | h | h | h | h | h <;> subst h <;>
    first
    | omega
    | (unfold ordinalOf cumDays monthLen; cases isLeap y <;> simp)

/-- a valid calendar form has an ordinal that exists in its year -/
theorem valid_ordinal_bounds (y : Int) (m d : Nat) (h : validYmd y m d = true) :
    1 ≤ ordinalOf y m d ∧ ordinalOf y m d ≤ yearLen y := by
  unfold validYmd at h
  simp only [Bool.and_eq_true, decide_eq_true_eq] at h
  obtain ⟨⟨⟨h1, h2⟩, h3⟩, h4⟩ := h
  rcases month_cases m h1 h2 with e | e | e | e | e | e | e | e | e | e | e | e <;> subst e <;>
    (unfold ordinalOf cumDays yearLen; unfold monthLen at h4; cases hl : isLeap y <;> simp [hl] at h4 ⊢ <;> omega)

/-! ### the constructors are injective on the tuples they accept -/

theorem dateOfYo_inj (y1 y2 : Int) (o1 o2 : Nat) (h1 : 1 ≤ o1 ∧ o1 ≤ yearLen y1)
    (h2 : 1 ≤ o2 ∧ o2 ≤ yearLen y2) (h : dateOfYo y1 o1 = dateOfYo y2 o2) : y1 = y2 ∧ o1 = o2 :=
  yo_unique y1 y2 o1 o2 h1 h2 (((order_spec y1 y2 o1 o2 h1 h2).2).mp (congrArg Date.yof h))

theorem ymd_inj' (y y' : Int) (m d m' d' : Nat) (x : Date)
    (h : Date.from_ymd_opt y m d = .ok (some x)) (h' : Date.from_ymd_opt y' m' d' = .ok (some x)) :
    y = y' ∧ m = m' ∧ d = d' := by
  rw [ctor_ymd'] at h h'
  by_cases c : MIN_YEAR ≤ y ∧ y ≤ MAX_YEAR ∧ validYmd y m d = true
  · by_cases c' : MIN_YEAR ≤ y' ∧ y' ≤ MAX_YEAR ∧ validYmd y' m' d' = true
    · rw [if_pos c] at h; rw [if_pos c'] at h'
      have e : dateOfYo y (ordinalOf y m d) = x := Option.some.inj (Res.ok.inj h)
      have e' : dateOfYo y' (ordinalOf y' m' d') = x := Option.some.inj (Res.ok.inj h')
      obtain ⟨u1, u2⟩ := dateOfYo_inj y y' _ _ (valid_ordinal_bounds y m d c.2.2)
        (valid_ordinal_bounds y' m' d' c'.2.2) (e.trans e'.symm)
      subst u1
      obtain ⟨a1, a2⟩ := ymd_unique y m d c.2.2
      obtain ⟨b1, b2⟩ := ymd_unique y m' d' c'.2.2
      rw [u2] at a1 a2
      exact ⟨rfl, a1.symm.trans b1, a2.symm.trans b2⟩
    · rw [if_neg c'] at h'; exact absurd (Res.ok.inj h') (by simp)
  · rw [if_neg c] at h; exact absurd (Res.ok.inj h) (by simp)

theorem yo_inj' (y y' : Int) (o o' : Nat) (x : Date)
    (h : Date.from_yo_opt y o = .ok (some x)) (h' : Date.from_yo_opt y' o' = .ok (some x)) :
    y = y' ∧ o = o' := by
  rw [ctor_yo'] at h h'
  by_cases c : MIN_YEAR ≤ y ∧ y ≤ MAX_YEAR ∧ 1 ≤ o ∧ o ≤ yearLen y
  · by_cases c' : MIN_YEAR ≤ y' ∧ y' ≤ MAX_YEAR ∧ 1 ≤ o' ∧ o' ≤ yearLen y'
    · rw [if_pos c] at h; rw [if_pos c'] at h'
      have e : dateOfYo y o = x := Option.some.inj (Res.ok.inj h)
      have e' : dateOfYo y' o' = x := Option.some.inj (Res.ok.inj h')
      exact dateOfYo_inj y y' o o' c.2.2 c'.2.2 (e.trans e'.symm)
    · rw [if_neg c'] at h'; exact absurd (Res.ok.inj h') (by simp)
  · rw [if_neg c] at h; exact absurd (Res.ok.inj h) (by simp)

theorem days_inj' (n n' : Int) (hn : -2147483648 ≤ n ∧ n ≤ 2147483647)
    (hn' : -2147483648 ≤ n' ∧ n' ≤ 2147483647) (x : Date)
    (h : Date.from_num_days_from_ce_opt n = .ok (some x))
    (h' : Date.from_num_days_from_ce_opt n' = .ok (some x)) : n = n' := by
  obtain ⟨r, hr, hs, _⟩ := ctor_days' n hn
  obtain ⟨r', hr', hs', _⟩ := ctor_days' n' hn'
  rw [hr] at h; rw [hr'] at h'
  obtain ⟨y, o, e, _, _, o1, o2, dn⟩ := hs x (Res.ok.inj h)
  obtain ⟨y', o', e', _, _, o1', o2', dn'⟩ := hs' x (Res.ok.inj h')
  obtain ⟨u1, u2⟩ := dateOfYo_inj y y' o o' ⟨o1, o2⟩ ⟨o1', o2'⟩ (e.symm.trans e')
  subst u1 u2
  omega

theorem isoywd_inj' (y y' : Int) (w w' : Nat) (wd wd' : Weekday) (x : Date)
    (h : Date.from_isoywd_opt y w wd = .ok (some x))
    (h' : Date.from_isoywd_opt y' w' wd' = .ok (some x)) : y = y' ∧ w = w' ∧ wd = wd' := by
  obtain ⟨a, a1, a2, a3, a4⟩ := isoywd_roundtrip' y w wd x h
  obtain ⟨b, b1, b2, b3, b4⟩ := isoywd_roundtrip' y' w' wd' x h'
  have e : a = b := Res.ok.inj (a1.symm.trans b1)
  subst e
  refine ⟨a2.symm.trans b2, ?_, a4.symm.trans b4⟩
  have : (w : Int) = (w' : Int) := a3.symm.trans b3
  omega

/-! ### `IsoWeek::week0` with its `u32` subtraction -/

theorem week0r_spec (Y : Int) (W F : Nat) (hW1 : 1 ≤ W) (hW : W < 64) (hF : F < 16) :
    IsoWeek.week0r (Y * 1024 + (W : Int) * 16 + (F : Int)) = .ok (W - 1) := by
  unfold IsoWeek.week0r Date.subOne
  have e : ((Y * 1024 + (W : Int) * 16 + (F : Int)) / 16 % 64).toNat = W := by omega
  rw [e, if_neg (by omega)]

end Chrono.Proofs.C01R2
