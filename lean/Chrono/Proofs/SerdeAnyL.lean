/-
  Helper lemmas for the full-domain string-form theorems of C20 (Props/C20.lean: `time_roundtrip_nonstrict`,
  `naive_roundtrip_nonstrict`, `datetime_roundtrip_any_offset`, `datetime_roundtrip_wall_out_of_range`, …):
  * a leap-second representation off second :59 has the text of the following second (`timeText_shown`);
  * the zone-aware writer for ANY offset of less than a day (`offset_any_text`, `serde_write_wall`);
  * the relaxed reader on date `T` time followed by a `±hh:mm` tail, for any year of up to six digits,
    reduced to `Parsed.to_datetime` on the stored record (`fixed_read_wall`), and that resolution for a wall
    clock inside (`to_datetime_wall`) and outside (`to_datetime_wall_out`) `NaiveDate`'s range.
-/
import Chrono.Proofs.SerdeStrL
import Chrono.Proofs.SerdeAnyFin
import Chrono.Props.C14
namespace Chrono.Proofs.SerdeAny
open Chrono Chrono.M Chrono.M.Scan Chrono.M.Format Chrono.M.TextForms Chrono.M.Serde
open Chrono.Spec Chrono.Spec.Text Chrono.Spec.Serde Chrono.Spec.Fields Chrono.Proofs.TextForms Chrono.Proofs.RenderScan
open Chrono.Proofs Chrono.Proofs.SerdeStr Chrono.Extracted Chrono.Proofs.ParsedRes

/-! ### leap-second representations off second :59 -/

theorem shownTime_strict (t : Time) (ht : TValid t) : TStrict (shownTime t) := by
  obtain ⟨t0, t1, t2, t3⟩ := ht
  unfold shownTime
  by_cases h : t.frac ≥ 1000000000 ∧ t.secs % 60 ≠ 59
  · rw [if_pos h]
    refine ⟨⟨?_, ?_, ?_, ?_⟩, Or.inl ?_⟩ <;> dsimp only <;> omega
  · rw [if_neg h]
    refine ⟨⟨t0, t1, t2, t3⟩, ?_⟩
    omega

theorem shownTime_of_strict (t : Time) (ht : TStrict t) : shownTime t = t := by
  unfold shownTime
  rw [if_neg]
  obtain ⟨_, h⟩ := ht
  omega

theorem shownTime_nonstrict (t : Time) (ht : TValid t) (hn : ¬ TStrict t) :
    shownTime t = ⟨t.secs + 1, t.frac - 1000000000⟩ := by
  unfold shownTime
  rw [if_pos]
  unfold TStrict at hn
  have : ¬ (t.frac < 1000000000 ∨ t.secs % 60 = 59) := fun h => hn ⟨ht, h⟩
  omega

/-- the text of a time of day is the text of what it is shown as -/
theorem timeText_shown (t : Time) (ht : TValid t) : timeText t = timeText (shownTime t) := by
  obtain ⟨t0, t1, t2, t3⟩ := ht
  unfold shownTime
  by_cases h : t.frac ≥ 1000000000 ∧ t.secs % 60 ≠ 59
  · rw [if_pos h]
    have e1 : (hourOf t).toNat = (hourOf ⟨t.secs + 1, t.frac - 1000000000⟩).toNat := by
      unfold hourOf; dsimp only; omega
    have e2 : (minuteOf t).toNat = (minuteOf ⟨t.secs + 1, t.frac - 1000000000⟩).toNat := by
      unfold minuteOf; dsimp only; omega
    have e3 : shownSecond t = shownSecond ⟨t.secs + 1, t.frac - 1000000000⟩ := by
      unfold shownSecond secondOf; dsimp only
      rw [if_pos h.1, if_neg (by omega)]; omega
    have e4 : shownNano t = shownNano ⟨t.secs + 1, t.frac - 1000000000⟩ := by
      unfold shownNano; dsimp only; omega
    unfold timeText
    rw [e1, e2, e3, e4]
  · rw [if_neg h]

/-! ### the zone-aware writer for any offset -/

/-- the offset as serde's zone-aware writer shows it, for EVERY offset of less than a day -/
theorem offset_any_text (off : Int) (h : OffValid off) :
    OffsetFormat.format ⟨.minutes, .colon, true, .zero⟩ off = wok (zoneTextAny off) := by
  rw [offset_minutes_eq .colon true off h]
  unfold zoneTextAny
  by_cases h0 : off = 0
  · rw [if_pos ⟨rfl, h0⟩, if_pos h0]
  · rw [if_neg (fun hh => h0 hh.2), if_neg h0]
    unfold OffValid at h
    have hm : (roundMin off).natAbs / 60 = (((if off < 0 then -off else off) + 30) / 60).toNat := by
      unfold roundMin; split <;> omega
    unfold signedHhmm colonText
    rw [hm, if_pos rfl]
    generalize ha : (if off < 0 then -off else off) = a
    have ha0 : 0 ≤ a ∧ a < 86400 := by rw [← ha]; split <;> omega
    have e1 : ((a + 30) / 60 / 60).toNat = ((a + 30) / 60).toNat / 60 := by omega
    have e2 : ((a + 30) / 60 % 60).toNat = ((a + 30) / 60).toNat % 60 := by omega
    rw [e1, e2, decN_two _ (by omega), decN_two _ (by omega)]
    simp only [decide_eq_true_eq]

/-- `NaiveDate`'s text for every year of up to six digits (the one-year headroom of a wall clock included) -/
theorem date_debug_text_wide (y : Int) (o : Nat) (hy : -1000000 < y ∧ y < 1000000)
    (ho : 1 ≤ o ∧ o ≤ yearLen y) :
    date_debug (dateOfYo y o) = wok (dateText y (monthOfYo y o) (dayOfYo y o)) := by
  obtain ⟨m1, m2, m3, _⟩ := month_day_spec y o ho.1 ho.2
  obtain ⟨hyear, _⟩ := dateOfYo_fields y o (by have := yearLen_ge y; omega)
  obtain ⟨b1, b2⟩ := valid_bounds y _ _ m3
  unfold date_debug
  rw [hyear]
  unfold Date.month at m1
  unfold Date.day at m2
  cases hmdf : (dateOfYo y o).mdf with
  | panic => rw [hmdf] at m1; cases m1
  | ok mdf =>
    rw [hmdf] at m1 m2
    injection m1 with m1; injection m2 with m2
    simp only [W.ofRes]
    rw [m1, m2, write_year_text y hy, hundreds_u8 _ (by omega) (by omega),
      hundreds_u8 _ (by omega) (by omega)]
    simp only [seq_wok, dateText, Int.toNat_natCast, List.append_assoc]

theorem wide_month_day (y : Int) (o : Nat) (ho : 1 ≤ o ∧ o ≤ yearLen y) :
    1 ≤ monthOfYo y o ∧ monthOfYo y o ≤ 12 ∧ 1 ≤ dayOfYo y o ∧ dayOfYo y o ≤ 31 := by
  obtain ⟨_, _, m3, _⟩ := month_day_spec y o ho.1 ho.2
  obtain ⟨b1, b2⟩ := valid_bounds y _ _ m3
  unfold validYmd at m3
  simp only [Bool.and_eq_true, decide_eq_true_eq] at m3
  omega

/-- the text `write_rfc3339(wall clock, offset, AutoSi, use_z = true)` produces for ANY wall clock of the
extended calendar, any well-formed time of day and any offset of less than a day -/
theorem serde_write_wall (l : NaiveDT) (Y : Int) (O : Nat) (hy : -1000000 < Y ∧ Y < 1000000)
    (ho : 1 ≤ O ∧ O ≤ yearLen Y) (he : l.date = dateOfYo Y O) (ht : TValid l.time) (off : Int)
    (hoff : OffValid off) :
    write_rfc3339 l off .autoSi true =
      wok (dateText Y (monthOfYo Y O) (dayOfYo Y O) ++ (84 :: (timeText l.time ++ zoneTextAny off))) := by
  rw [write_rfc3339_autoSi_debug, offset_any_text off hoff]
  unfold naive_debug
  rw [he, date_debug_text_wide Y O hy ho, time_debug_text l.time ht]
  simp only [seq_wok, List.append_assoc, List.cons_append, List.nil_append]

/-! ### the reader -/

theorem roundMin_bounds (off : Int) (h : OffValid off) :
    -86400 ≤ roundMin off ∧ roundMin off ≤ 86400 ∧ roundMin off % 60 = 0 ∧
    -30 ≤ off - roundMin off ∧ off - roundMin off ≤ 30 := by
  unfold OffValid at h
  unfold roundMin
  split <;> omega

theorem roundMin_whole (off : Int) (h : off % 60 = 0) : roundMin off = off := by
  unfold roundMin
  split <;> omega

/-- what the tail of the relaxed reader makes of a `±hh:mm` tail of up to 1440 minutes -/
theorem tail_facts (neg : Bool) (m : Nat) (hm : m < 1441) :
    TailOk (signedHhmm neg m) ∧ trimStart (trimStart (signedHhmm neg m)) = signedHhmm neg m ∧
    (if (signedHhmm neg m).length ≥ 3 ∧ lowerS (List.take 3 (signedHhmm neg m)) = [117, 116, 99] then
        Except.ok (List.drop 3 (signedHhmm neg m), (0 : Int))
      else timezone_offset (signedHhmm neg m) .colonOrSpace true false true) = .ok ([], signedSecs neg m) := by
  have fread : tailReadOk neg m = true := by
    cases neg
    · exact tails_pos m hm
    · exact tails_neg m hm
  unfold tailReadOk at fread
  simp only [Bool.and_eq_true, Bool.not_eq_true', beq_iff_eq] at fread
  obtain ⟨⟨r1, r3⟩, r4⟩ := fread
  have htrim := trimStart_of_wsLen_zero _ r3
  refine ⟨?_, by rw [htrim, htrim], ?_⟩
  · cases neg
    · exact tailOk_cons 43 _ (by decide) (by decide)
    · exact tailOk_cons 45 _ (by decide) (by decide)
  · have hno : ¬ ((signedHhmm neg m).length ≥ 3 ∧ lowerS (List.take 3 (signedHhmm neg m)) = [117, 116, 99]) := by
      intro hh
      simp only [Bool.and_eq_false_iff, decide_eq_false_iff_not] at r4
      rcases r4 with r4 | r4
      · exact r4 hh.1
      · rw [hh.2] at r4; simp at r4
    rw [if_neg hno]
    revert r1
    cases timezone_offset (signedHhmm neg m) .colonOrSpace true false true with
    | error e => intro h; cases h
    | ok r =>
      obtain ⟨rs, v⟩ := r
      cases rs with
      | nil => intro h; simp only [beq_iff_eq] at h; rw [h]
      | cons _ _ => intro h; cases h

/-- … and of the offset part serde writes for any offset of less than a day: the rounded offset -/
theorem tail_any (off : Int) (h : OffValid off) :
    TailOk (zoneTextAny off) ∧ trimStart (trimStart (zoneTextAny off)) = zoneTextAny off ∧
    (if (zoneTextAny off).length ≥ 3 ∧ lowerS (List.take 3 (zoneTextAny off)) = [117, 116, 99] then
        Except.ok (List.drop 3 (zoneTextAny off), (0 : Int))
      else timezone_offset (zoneTextAny off) .colonOrSpace true false true) = .ok ([], roundMin off) := by
  by_cases h0 : off = 0
  · subst h0
    exact ⟨tailOk_cons 90 _ (by decide) (by decide), by decide, by decide⟩
  · have hz : zoneTextAny off = signedHhmm (decide (off < 0)) ((roundMin off).natAbs / 60) := by
      unfold zoneTextAny; rw [if_neg h0]
    obtain ⟨b1, b2, b3, _, _⟩ := roundMin_bounds off h
    have hs : signedSecs (decide (off < 0)) ((roundMin off).natAbs / 60) = roundMin off := by
      unfold signedSecs
      by_cases hn : off < 0
      · have : roundMin off ≤ 0 := by unfold roundMin; rw [if_pos hn]; omega
        simp only [hn, decide_true, if_true]; omega
      · have : 0 ≤ roundMin off := by unfold roundMin; rw [if_neg hn]; omega
        simp only [hn, decide_false, Bool.false_eq_true, if_false]; omega
    have hf := tail_facts (decide (off < 0)) ((roundMin off).natAbs / 60) (by omega)
    rw [hs] at hf
    rw [hz]
    exact hf

/-- the relaxed `FromStr for DateTime<FixedOffset>` on date `T` time followed by the offset part serde
writes, for ANY year of up to six digits and ANY offset of less than a day: the fields are stored and handed
to `Parsed::to_datetime` with the ROUNDED offset -/
theorem fixed_read_wall (Y : Int) (O : Nat) (hy : -1000000 < Y ∧ Y < 1000000) (ho : 1 ≤ O ∧ O ≤ yearLen Y)
    (t : Time) (hst : TStrict t) (off : Int) (hoff : OffValid off) :
    fixed_from_str (dateText Y (monthOfYo Y O) (dayOfYo Y O) ++ (84 :: (timeText t ++ zoneTextAny off))) =
      Parsed.to_datetime (dtRecord Y (monthOfYo Y O) (dayOfYo Y O) t (some (roundMin off))) := by
  obtain ⟨a3, a4, a5, a6⟩ := wide_month_day Y O ho
  obtain ⟨htail, htrim, hT⟩ := tail_any off hoff
  obtain ⟨b1, b2, _⟩ := roundMin_bounds off hoff
  unfold fixed_from_str
  rw [relaxed_on_text Y hy _ _ ⟨a3, a4⟩ ⟨a5, a6⟩ t hst 84 (Or.inl rfl) _ _ (roundMin off) (by omega)
    htail htrim hT]
  simp only [trimStart_nil, ne_eq, not_true_eq_false, if_false]

/-- `Parsed::to_datetime` on the record of an existing date of the supported range, a time of day and an
offset field: refused when the offset is a day or more, otherwise `from_local_datetime` of that wall clock -/
theorem to_datetime_wall (Y : Int) (O : Nat) (hvd : VD Y O) (t : Time) (hst : TStrict t) (R : Int)
    (hR : -1000000 < R ∧ R < 1000000) :
    (Zoned.east_opt R = none →
      Parsed.to_datetime (dtRecord Y (monthOfYo Y O) (dayOfYo Y O) t (some R)) = .ok (.error .outOfRange)) ∧
    (∀ off, Zoned.east_opt R = some off → Zoned.from_local_datetime off ⟨dateOfYo Y O, t⟩ = .ok none →
      Parsed.to_datetime (dtRecord Y (monthOfYo Y O) (dayOfYo Y O) t (some R)) = .ok (.error .impossible)) ∧
    (∀ off z, Zoned.east_opt R = some off → Zoned.from_local_datetime off ⟨dateOfYo Y O, t⟩ = .ok (some z) →
      Parsed.to_datetime (dtRecord Y (monthOfYo Y O) (dayOfYo Y O) t (some R)) = .ok (.ok z)) := by
  obtain ⟨a1, a2, a3, a4, a5, a6⟩ := vd_month_day Y O hvd
  have hp := inType_dtRecord Y (monthOfYo Y O) (dayOfYo Y O) t hst (some R) ⟨a1, a2⟩ a4 a6
    (by intro x hx; injection hx with hx; omega)
  have hres := naive_resolves _ hp R (by omega) Y O hvd t hst
    ⟨rfl, rfl, rfl, rfl, rfl, rfl, rfl, rfl, rfl, rfl, rfl, rfl, rfl, rfl⟩ ⟨rfl, rfl, rfl, rfl, rfl⟩ rfl
  have f1 : (dtRecord Y (monthOfYo Y O) (dayOfYo Y O) t (some R)).offset = some R := rfl
  refine ⟨?_, ?_, ?_⟩
  · intro h1
    unfold Parsed.to_datetime
    simp only [f1, hres, Parsed.RP.bind, h1]
  · intro off h1 h2
    unfold Parsed.to_datetime
    simp only [f1, hres, Parsed.RP.bind, h1, h2]
  · intro off z h1 h2
    unfold Parsed.to_datetime
    simp only [f1, hres, Parsed.RP.bind, h1, h2]

/-- … and on the record of a date whose year lies outside the supported range (the headroom years a wall
clock can reach): an error, never a value, never a panic -/
theorem to_datetime_wall_out (Y : Int) (O : Nat) (hy : -1000000 < Y ∧ Y < 1000000)
    (hout : Y < MIN_YEAR ∨ MAX_YEAR < Y) (ho : 1 ≤ O ∧ O ≤ yearLen Y) (t : Time) (hst : TStrict t) (R : Int)
    (hR : -1000000 < R ∧ R < 1000000) :
    ∃ e, Parsed.to_datetime (dtRecord Y (monthOfYo Y O) (dayOfYo Y O) t (some R)) = .ok (.error e) := by
  obtain ⟨a3, a4, a5, a6⟩ := wide_month_day Y O ho
  have hp := inType_dtRecord Y (monthOfYo Y O) (dayOfYo Y O) t hst (some R) hy a4 a6
    (by intro x hx; injection hx with hx; omega)
  obtain ⟨r, hr, _, hok⟩ := Chrono.Props.C14.datetime_sound _ hp R (by omega)
  have f1 : (dtRecord Y (monthOfYo Y O) (dayOfYo Y O) t (some R)).offset = some R := rfl
  cases r with
  | ok dt =>
    exfalso
    obtain ⟨Y', o', hvd, _, hag, _⟩ := hok dt rfl
    have : Y = Y' := hag.1 Y rfl
    obtain ⟨v1, v2, _⟩ := hvd
    omega
  | error e =>
    refine ⟨e, ?_⟩
    unfold Parsed.to_datetime
    simp only [f1, hr, Parsed.RP.bind]

end Chrono.Proofs.SerdeAny
