/-
  Helper lemmas for the date-time forms of C08 (Props/C08.lean, second half): time-of-day field
  replacement, the `NaiveDateTime` forms, the zone-aware forms through `map_local`, and
  `DateTime::years_since`.  Built on C07's lemmas about `NaiveTime` (Proofs/TimeL.lean) and C04's about
  zone-aware values (Proofs/ZonedL.lean, ZonedDateL.lean, ZonedStepL.lean).
-/
import Chrono.Proofs.ZonedStepL
import Chrono.Spec.DateTimeOpsSpec

namespace Chrono.Proofs.DTO
open Chrono Chrono.M Chrono.Spec Chrono.Proofs Chrono.Proofs.ZN Chrono.Extracted

/-! ### time of day -/

theorem ofFields_has (h m s n : Int) (hh : 0 ≤ h ∧ h < 24) (hm : 0 ≤ m ∧ m < 60)
    (hs : 0 ≤ s ∧ s < 60) (hn : 0 ≤ n ∧ n < 2000000000) : HasFields (ofFields h m s n) h m s n := by
  obtain ⟨v, f1, f2, f3, f4⟩ := ofFields_valid h m s n hh hm hs hn
  obtain ⟨a1, a2, a3, a4, _⟩ := accessors' _ v
  exact ⟨v, by rw [a1, f1], by rw [a2, f2], by rw [a3, f3], by rw [a4, f4]⟩

/-- a well-formed time of day is determined by its four fields -/
theorem time_unique (a b : Time) (ha : TValid a) (hb : TValid b) (h1 : a.hour = b.hour)
    (h2 : a.minute = b.minute) (h3 : a.second = b.second) (h4 : a.nanosecond = b.nanosecond) : a = b := by
  obtain ⟨a1, a2, a3, a4, _, _, _, _, _, _, asum, _⟩ := accessors' a ha
  obtain ⟨b1, b2, b3, b4, _, _, _, _, _, _, bsum, _⟩ := accessors' b hb
  rw [a1, b1] at h1
  rw [a2, b2] at h2
  rw [a3, b3] at h3
  rw [a4, b4] at h4
  cases a; cases b
  simp only [Time.mk.injEq]
  dsimp only at asum bsum h4
  constructor
  · rw [← asum, ← bsum, h1, h2, h3]
  · exact h4

theorem time_with_fields (t : Time) (v : Int) (ht : TValid t) (hv : 0 ≤ v) :
    ((t.with_hour v = none ↔ 24 ≤ v) ∧
      ∀ t', t.with_hour v = some t' → HasFields t' v t.minute t.second t.nanosecond) ∧
    ((t.with_minute v = none ↔ 60 ≤ v) ∧
      ∀ t', t.with_minute v = some t' → HasFields t' t.hour v t.second t.nanosecond) ∧
    ((t.with_second v = none ↔ 60 ≤ v) ∧
      ∀ t', t.with_second v = some t' → HasFields t' t.hour t.minute v t.nanosecond) ∧
    ((t.with_nanosecond v = none ↔ 2000000000 ≤ v) ∧
      ∀ t', t.with_nanosecond v = some t' → HasFields t' t.hour t.minute t.second v) := by
  obtain ⟨w1, w2, w3, w4⟩ := with_field' t v ht hv
  obtain ⟨a1, a2, a3, a4, b1, b2, b3, b4, b5, b6, _⟩ := accessors' t ht
  have hf := ht.2.2
  rw [a1, a2, a3, a4]
  refine ⟨?_, ?_, ?_, ?_⟩
  · rw [w1]
    by_cases c : v < 24
    · rw [if_pos c]
      refine ⟨by constructor <;> intro h <;> first | cases h | omega, ?_⟩
      intro t' h; cases h
      exact ofFields_has _ _ _ _ ⟨hv, c⟩ ⟨b3, b4⟩ ⟨b5, b6⟩ hf
    · rw [if_neg c]
      exact ⟨by constructor <;> intro _ <;> first | rfl | omega, by intro t' h; cases h⟩
  · rw [w2]
    by_cases c : v < 60
    · rw [if_pos c]
      refine ⟨by constructor <;> intro h <;> first | cases h | omega, ?_⟩
      intro t' h; cases h
      exact ofFields_has _ _ _ _ ⟨b1, b2⟩ ⟨hv, c⟩ ⟨b5, b6⟩ hf
    · rw [if_neg c]
      exact ⟨by constructor <;> intro _ <;> first | rfl | omega, by intro t' h; cases h⟩
  · rw [w3]
    by_cases c : v < 60
    · rw [if_pos c]
      refine ⟨by constructor <;> intro h <;> first | cases h | omega, ?_⟩
      intro t' h; cases h
      exact ofFields_has _ _ _ _ ⟨b1, b2⟩ ⟨b3, b4⟩ ⟨hv, c⟩ hf
    · rw [if_neg c]
      exact ⟨by constructor <;> intro _ <;> first | rfl | omega, by intro t' h; cases h⟩
  · rw [w4]
    by_cases c : v < 2000000000
    · rw [if_pos c]
      refine ⟨by constructor <;> intro h <;> first | cases h | omega, ?_⟩
      intro t' h; cases h
      exact ofFields_has _ _ _ _ ⟨b1, b2⟩ ⟨b3, b4⟩ ⟨b5, b6⟩ ⟨hv, c⟩
    · rw [if_neg c]
      exact ⟨by constructor <;> intro _ <;> first | rfl | omega, by intro t' h; cases h⟩

/-- the results of the time-of-day replacements are well-formed times -/
theorem time_with_valid (t : Time) (v : Int) (ht : TValid t) (hv : 0 ≤ v) :
    (∀ t', t.with_hour v = some t' → TValid t') ∧ (∀ t', t.with_minute v = some t' → TValid t') ∧
    (∀ t', t.with_second v = some t' → TValid t') ∧ (∀ t', t.with_nanosecond v = some t' → TValid t') := by
  obtain ⟨⟨_, h1⟩, ⟨_, h2⟩, ⟨_, h3⟩, ⟨_, h4⟩⟩ := time_with_fields t v ht hv
  exact ⟨fun t' h => (h1 t' h).1, fun t' h => (h2 t' h).1, fun t' h => (h3 t' h).1,
    fun t' h => (h4 t' h).1⟩

/-! ### `NaiveDateTime` forms on a reading of the extended calendar -/

theorem ndt_eta (l : NaiveDT) : (⟨l.date, l.time⟩ : NaiveDT) = l := by cases l; rfl

/-- the calendar-field replacements and month steps of a `NaiveDateTime` whose date is a date of the
calendar extended by one year at each end (a wall clock may be one) -/
theorem ndt_ops_ext (l : NaiveDT) (hext : ExtDateInv l.date) (v k : Nat) (y' : Int) :
    l.with_year y' = .ok ((ymdDate? y' (monthOfYo l.date.year l.date.ordinal.toNat)
        (dayOfYo l.date.year l.date.ordinal.toNat)).map fun d => ⟨d, l.time⟩) ∧
    l.with_month v = .ok (ymdReading? l.date.year v (dayOfYo l.date.year l.date.ordinal.toNat) l.time) ∧
    l.with_month0 v = .ok (ymdReading? l.date.year (v + 1) (dayOfYo l.date.year l.date.ordinal.toNat) l.time) ∧
    l.with_day v = .ok (ymdReading? l.date.year (monthOfYo l.date.year l.date.ordinal.toNat) v l.time) ∧
    l.with_day0 v = .ok (ymdReading? l.date.year (monthOfYo l.date.year l.date.ordinal.toNat) (v + 1) l.time) ∧
    l.with_ordinal v = .ok (yoReading? l.date.year v l.time) ∧
    l.with_ordinal0 v = .ok (yoReading? l.date.year (v + 1) l.time) ∧
    l.checked_add_months k = .ok ((if k = 0 then some l.date else
        addMonths? l.date.year (monthOfYo l.date.year l.date.ordinal.toNat)
          (dayOfYo l.date.year l.date.ordinal.toNat) k).map fun d => ⟨d, l.time⟩) ∧
    l.checked_sub_months k = .ok ((if k = 0 then some l.date else
        addMonths? l.date.year (monthOfYo l.date.year l.date.ordinal.toNat)
          (dayOfYo l.date.year l.date.ordinal.toNat) (-(k : Int))).map fun d => ⟨d, l.time⟩) := by
  obtain ⟨el, vl⟩ := ext_eq l.date hext
  have hy : MIN_YEAR - 1 ≤ l.date.year ∧ l.date.year ≤ MAX_YEAR + 1 := ⟨vl.1, vl.2.1⟩
  have ho : 1 ≤ l.date.ordinal.toNat ∧ l.date.ordinal.toNat ≤ yearLen l.date.year := ⟨vl.2.2.1, vl.2.2.2⟩
  have w1 := with_year_spec l.date.year l.date.ordinal.toNat ho y'
  have w2 := with_month_any l.date.year l.date.ordinal.toNat ho v
  have w3 := with_month0_any l.date.year l.date.ordinal.toNat ho v
  have w4 := with_day_any l.date.year l.date.ordinal.toNat ho v
  have w5 := with_day0_any l.date.year l.date.ordinal.toNat ho v
  have w6 := with_ordinal_any l.date.year l.date.ordinal.toNat ho v
  have w7 := with_ordinal0_any l.date.year l.date.ordinal.toNat ho v
  obtain ⟨m1, m2⟩ := months_ext l.date.year l.date.ordinal.toNat hy ho k
  rw [← el] at w1 w2 w3 w4 w5 w6 w7 m1 m2
  refine ⟨?_, ?_, ?_, ?_, ?_, ?_, ?_, ?_, ?_⟩
  · unfold NaiveDT.with_year NaiveDT.mapDate; rw [w1, bind_ok']
  · unfold NaiveDT.with_month NaiveDT.mapDate; rw [w2, bind_ok', ymdReading_eq]
  · unfold NaiveDT.with_month0 NaiveDT.mapDate; rw [w3, bind_ok', ymdReading_eq]
  · unfold NaiveDT.with_day NaiveDT.mapDate; rw [w4, bind_ok', ymdReading_eq]
  · unfold NaiveDT.with_day0 NaiveDT.mapDate; rw [w5, bind_ok', ymdReading_eq]
  · unfold NaiveDT.with_ordinal NaiveDT.mapDate; rw [w6, bind_ok', yoReading_eq]
  · unfold NaiveDT.with_ordinal0 NaiveDT.mapDate; rw [w7, bind_ok', yoReading_eq]
  · unfold NaiveDT.checked_add_months NaiveDT.mapDate; rw [m1, bind_ok']
  · unfold NaiveDT.checked_sub_months NaiveDT.mapDate; rw [m2, bind_ok']

/-! ### zone-aware forms -/

theorem zoned_with_year_eq (z : Zoned) (y : Int) : Zoned.with_year z y = Zoned.map_local z (withYearLocal y) := rfl

/-- a well-formed value is "its own wall clock converted back, unfiltered" -/
theorem acts_self (z : Zoned) (hz : ZInv z) (l : NaiveDT) (hl : Zoned.overflowing_naive_local z = .ok l) :
    ActsOnWallWith (fun s _ => InRangeSecs s) z (some l) (some z) := by
  obtain ⟨h2, h3, h4, _, _, _, hur⟩ := wall_date_cases z hz l hl
  have hs : instSecs z.utc = instSecs l - z.off := by rw [h3]; unfold wallSecs; omega
  constructor
  · intro z' hz'
    cases hz'
    exact ⟨l, rfl, rfl, hz, hl, hs, h4.symm, hur⟩
  · constructor
    · intro h; cases h
    · intro h
      rcases h with h | ⟨nl, e, h⟩
      · cases h
      · cases e; exfalso; apply h; rw [← hs]; exact hur

/-- every date-field replacement and month step of a zone-aware value: what the `NaiveDateTime`
operation makes of the wall clock (`r0`), converted back at the same offset and filtered -/
theorem zoned_date_ops (z : Zoned) (hz : ZInv z) (l : NaiveDT)
    (hl : Zoned.overflowing_naive_local z = .ok l) (v k : Nat) (y' : Int) :
    (∃ r0 r, withYearLocal y' l = .ok r0 ∧ Zoned.with_year z y' = .ok r ∧ ActsOnWall z r0 r) ∧
    (∃ r0 r, l.with_month v = .ok r0 ∧ Zoned.with_month z v = .ok r ∧ ActsOnWall z r0 r) ∧
    (∃ r0 r, l.with_month0 v = .ok r0 ∧ Zoned.with_month0 z v = .ok r ∧ ActsOnWall z r0 r) ∧
    (∃ r0 r, l.with_day v = .ok r0 ∧ Zoned.with_day z v = .ok r ∧ ActsOnWall z r0 r) ∧
    (∃ r0 r, l.with_day0 v = .ok r0 ∧ Zoned.with_day0 z v = .ok r ∧ ActsOnWall z r0 r) ∧
    (∃ r0 r, l.with_ordinal v = .ok r0 ∧ Zoned.with_ordinal z v = .ok r ∧ ActsOnWall z r0 r) ∧
    (∃ r0 r, l.with_ordinal0 v = .ok r0 ∧ Zoned.with_ordinal0 z v = .ok r ∧ ActsOnWall z r0 r) ∧
    (∃ r0 r, l.checked_add_months k = .ok r0 ∧ Zoned.checked_add_months z k = .ok r ∧
      ActsOnWallWith (fun s _ => InRangeSecs s) z r0 r) ∧
    (∃ r0 r, l.checked_sub_months k = .ok r0 ∧ Zoned.checked_sub_months z k = .ok r ∧
      ActsOnWallWith (fun s _ => InRangeSecs s) z r0 r) := by
  obtain ⟨hext, _⟩ := wall_date_cases z hz l hl
  obtain ⟨n1, n2, n3, n4, n5, n6, n7, n8, n9⟩ := ndt_ops_ext l hext.1 v k y'
  obtain ⟨⟨r1, a1, b1⟩, ⟨r2, a2, b2⟩, ⟨r3, a3, b3⟩, ⟨r4, a4, b4⟩, ⟨r5, a5, b5⟩, ⟨r6, a6, b6⟩, ⟨r7, a7, b7⟩⟩ :=
    zoned_with_date_fields z hz l hl v y'
  obtain ⟨⟨r8, a8, b8, c8⟩, ⟨r9, a9, b9, c9⟩⟩ := zoned_months z hz l hl k
  refine ⟨⟨_, r1, ?_, a1, b1⟩, ⟨_, r2, n2, a2, b2⟩, ⟨_, r3, n3, a3, b3⟩, ⟨_, r4, n4, a4, b4⟩,
    ⟨_, r5, n5, a5, b5⟩, ⟨_, r6, n6, a6, b6⟩, ⟨_, r7, n7, a7, b7⟩, ⟨_, r8, n8, a8, ?_⟩, ⟨_, r9, n9, a9, ?_⟩⟩
  · unfold withYearLocal yearReading?
    by_cases hc : y' = l.date.year
    · rw [if_pos hc.symm, if_pos hc]
    · rw [if_neg (fun h => hc h.symm), if_neg hc, n1]
      refine congrArg Res.ok ?_
      unfold ymdDate? ymdReading?
      by_cases hr : MIN_YEAR ≤ y' ∧ y' ≤ MAX_YEAR
      · rw [if_pos hr]
        by_cases hv : validYmd y' (monthOfYo l.date.year l.date.ordinal.toNat)
            (dayOfYo l.date.year l.date.ordinal.toNat) = true
        · rw [if_pos ⟨hr.1, hr.2, hv⟩, if_pos hv]; rfl
        · rw [if_neg (fun h => hv h.2.2), if_neg hv]; rfl
      · rw [if_neg hr, if_neg (fun h => hr ⟨h.1, h.2.1⟩)]; rfl
  · by_cases h0 : k = 0
    · rw [if_pos h0, b8 h0]
      dsimp only [Option.map_some]
      rw [ndt_eta]
      exact acts_self z hz l hl
    · rw [if_neg h0]; exact c8 (by omega)
  · by_cases h0 : k = 0
    · rw [if_pos h0, b9 h0]
      dsimp only [Option.map_some]
      rw [ndt_eta]
      exact acts_self z hz l hl
    · rw [if_neg h0]; exact c9 (by omega)

/-- the time-of-day replacements of a zone-aware value -/
theorem zoned_time_ops (z : Zoned) (hz : ZInv z) (l : NaiveDT)
    (hl : Zoned.overflowing_naive_local z = .ok l) (w : Int) (hw : 0 ≤ w) :
    (∃ r0 r, l.with_hour w = .ok r0 ∧ Zoned.with_hour z w = .ok r ∧ ActsOnWall z r0 r) ∧
    (∃ r0 r, l.with_minute w = .ok r0 ∧ Zoned.with_minute z w = .ok r ∧ ActsOnWall z r0 r) ∧
    (∃ r0 r, l.with_second w = .ok r0 ∧ Zoned.with_second z w = .ok r ∧ ActsOnWall z r0 r) ∧
    (∃ r0 r, l.with_nanosecond w = .ok r0 ∧ Zoned.with_nanosecond z w = .ok r ∧ ActsOnWall z r0 r) := by
  obtain ⟨hext, _⟩ := wall_date_cases z hz l hl
  obtain ⟨v1, v2, v3, v4⟩ := time_with_valid l.time w hext.2 hw
  have key : ∀ (o : Option Time), (∀ t', o = some t' → TValid t') →
      ∀ nl, (o.map fun t => (⟨l.date, t⟩ : NaiveDT)) = some nl → ExtNDTInv nl := by
    intro o ho nl hnl
    cases o with
    | none => cases hnl
    | some t => cases hnl; exact ⟨hext.1, ho t rfl⟩
  refine ⟨?_, ?_, ?_, ?_⟩
  · obtain ⟨r, a, b⟩ := map_local_acts z hz (fun dt => dt.with_hour w) l _ hl rfl (key _ v1)
    exact ⟨_, r, rfl, a, b⟩
  · obtain ⟨r, a, b⟩ := map_local_acts z hz (fun dt => dt.with_minute w) l _ hl rfl (key _ v2)
    exact ⟨_, r, rfl, a, b⟩
  · obtain ⟨r, a, b⟩ := map_local_acts z hz (fun dt => dt.with_second w) l _ hl rfl (key _ v3)
    exact ⟨_, r, rfl, a, b⟩
  · obtain ⟨r, a, b⟩ := map_local_acts z hz (fun dt => dt.with_nanosecond w) l _ hl rfl (key _ v4)
    exact ⟨_, r, rfl, a, b⟩

/-! ### `DateTime::years_since` -/

/-- `time()` is the time of day of the wall clock -/
theorem zoned_time_eq (z : Zoned) (l : NaiveDT) (hl : Zoned.overflowing_naive_local z = .ok l) :
    Zoned.time z = .ok l.time := by
  unfold Zoned.overflowing_naive_local NaiveDT.overflowing_add_offset at hl
  unfold Zoned.time
  cases hp : Time.overflowing_add_offset z.utc.time z.off with
  | panic => rw [hp] at hl; cases hl
  | ok p =>
    rw [hp, bind_ok'] at hl
    rw [bind_ok']
    by_cases c1 : p.2 = -1
    · rw [if_pos c1] at hl
      cases hq : z.utc.date.pred_opt with
      | panic => rw [hq] at hl; cases hl
      | ok q => rw [hq, bind_ok'] at hl; cases hl; rfl
    · rw [if_neg c1] at hl
      by_cases c2 : p.2 = 1
      · rw [if_pos c2] at hl
        cases hq : z.utc.date.succ_opt with
        | panic => rw [hq] at hl; cases hl
        | ok q => rw [hq, bind_ok'] at hl; cases hl; rfl
      · rw [if_neg c2] at hl; cases hl; rfl

theorem tupleLt_iff (m1 d1 : Nat) (t1 : Time) (m0 d0 : Nat) (t0 : Time) :
    Zoned.tupleLt m1 d1 t1 m0 d0 t0 = true ↔
      (m1 < m0 ∨ (m1 = m0 ∧ (d1 < d0 ∨ (d1 = d0 ∧
        (t1.secs < t0.secs ∨ (t1.secs = t0.secs ∧ t1.frac < t0.frac)))))) := by
  unfold Zoned.tupleLt Time.cmp
  by_cases hm : m1 = m0
  · by_cases hd : d1 = d0
    · rw [if_neg (by simpa using hm), if_neg (by simpa using hd), decide_eq_true_eq]
      constructor
      · intro h; right; refine ⟨hm, Or.inr ⟨hd, ?_⟩⟩
        by_cases c1 : t1.secs < t0.secs
        · left; exact c1
        · rw [if_neg c1] at h
          by_cases c2 : t1.secs > t0.secs
          · rw [if_pos c2] at h; omega
          · rw [if_neg c2] at h
            by_cases c3 : t1.frac < t0.frac
            · right; exact ⟨by omega, c3⟩
            · rw [if_neg c3] at h
              by_cases c4 : t1.frac > t0.frac
              · rw [if_pos c4] at h; omega
              · rw [if_neg c4] at h; omega
      · intro h
        have h' : t1.secs < t0.secs ∨ (t1.secs = t0.secs ∧ t1.frac < t0.frac) := by omega
        rcases h' with h' | ⟨h1, h2⟩
        · rw [if_pos h']; omega
        · rw [if_neg (by omega), if_neg (by omega), if_pos h2]; omega
    · rw [if_neg (by simpa using hm), if_pos (by simpa using hd), decide_eq_true_eq]
      omega
  · rw [if_pos (by simpa using hm), decide_eq_true_eq]
    omega

/-- the value `years_since` computes from the two years and the outcome of the tuple comparison -/
def yearsElapsed (y1 y0 : Int) (earlier : Bool) : Option Int :=
  if y1 - y0 - (if earlier = true then 1 else 0) ≥ 0 then some (y1 - y0 - (if earlier = true then 1 else 0))
  else none

/-- the arithmetic of `years_since` on six fields and two times -/
theorem years_arith (y1 y0 : Int) (m1 d1 m0 d0 : Nat) (t1 t0 : Time) (k : Int) :
    (yearsElapsed y1 y0 (Zoned.tupleLt m1 d1 t1 m0 d0 t0) = some k ↔
        WholeYearsT y0 m0 d0 t0 y1 m1 d1 t1 k) ∧
    (yearsElapsed y1 y0 (Zoned.tupleLt m1 d1 t1 m0 d0 t0) = none ↔
        ymdtLt y1 m1 d1 t1 y0 m0 d0 t0) := by
  have hiff := tupleLt_iff m1 d1 t1 m0 d0 t0
  unfold yearsElapsed WholeYearsT ymdtLt
  by_cases he : Zoned.tupleLt m1 d1 t1 m0 d0 t0 = true
  · rw [if_pos he]
    have h := hiff.mp he
    by_cases hk : y1 - y0 - 1 ≥ 0
    · rw [if_pos hk]
      refine ⟨⟨fun h' => ?_, fun h' => ?_⟩, ⟨fun h' => (by cases h'), fun h' => ?_⟩⟩
      · have := Option.some.inj h'; omega
      · congr 1; omega
      · omega
    · rw [if_neg hk]
      refine ⟨⟨fun h' => (by cases h'), fun h' => ?_⟩, ⟨fun _ => ?_, fun _ => rfl⟩⟩
      · omega
      · omega
  · rw [if_neg he]
    have h : ¬ _ := fun h => he (hiff.mpr h)
    by_cases hk : y1 - y0 - 0 ≥ 0
    · rw [if_pos hk]
      refine ⟨⟨fun h' => ?_, fun h' => ?_⟩, ⟨fun h' => (by cases h'), fun h' => ?_⟩⟩
      · have := Option.some.inj h'; omega
      · congr 1; omega
      · omega
    · rw [if_neg hk]
      refine ⟨⟨fun h' => (by cases h'), fun h' => ?_⟩, ⟨fun _ => ?_, fun _ => rfl⟩⟩
      · omega
      · omega

/-- `years_since` in terms of the two wall clocks -/
theorem zoned_years_since_eq (z b : Zoned) (hz : ZInv z) (hb : ZInv b) (l1 l0 : NaiveDT)
    (h1 : Zoned.overflowing_naive_local z = .ok l1) (h0 : Zoned.overflowing_naive_local b = .ok l0) :
    Zoned.years_since z b = .ok (yearsElapsed l1.date.year l0.date.year
      (Zoned.tupleLt (monthOfYo l1.date.year l1.date.ordinal.toNat)
        (dayOfYo l1.date.year l1.date.ordinal.toNat) l1.time
        (monthOfYo l0.date.year l0.date.ordinal.toNat)
        (dayOfYo l0.date.year l0.date.ordinal.toNat) l0.time)) := by
  obtain ⟨x1, _⟩ := wall_date_cases z hz l1 h1
  obtain ⟨x0, _⟩ := wall_date_cases b hb l0 h0
  obtain ⟨e1, v1⟩ := ext_eq l1.date x1.1
  obtain ⟨e0, v0⟩ := ext_eq l0.date x0.1
  obtain ⟨ma, da, _, _⟩ := month_day_spec l1.date.year l1.date.ordinal.toNat v1.2.2.1 v1.2.2.2
  obtain ⟨mb, db, _, _⟩ := month_day_spec l0.date.year l0.date.ordinal.toNat v0.2.2.1 v0.2.2.2
  rw [← e1] at ma da
  rw [← e0] at mb db
  have hMIN : MIN_YEAR = -262143 := rfl
  have hMAX : MAX_YEAR = 262142 := rfl
  have b1 := v1.1
  have b2 := v1.2.1
  have b3 := v0.1
  have b4 := v0.2.1
  unfold Zoned.years_since Zoned.year Zoned.month Zoned.day yearsElapsed
  rw [zoned_time_eq z l1 h1, zoned_time_eq b l0 h0, h1, h0]
  simp only [bind_ok']
  rw [ma, da, mb, db]
  simp only [bind_ok']
  rw [ckI32_ok (by omega) (by omega), bind_ok']
  split
  · rw [ckI32_ok (by omega) (by omega), bind_ok']
  · rw [ckI32_ok (by omega) (by omega), bind_ok']

/-- the order of (year, month, day) is the order of the day numbers -/
theorem ymd_daynum (y1 y0 : Int) (o1 o0 : Nat) (ho1 : 1 ≤ o1 ∧ o1 ≤ yearLen y1)
    (ho0 : 1 ≤ o0 ∧ o0 ≤ yearLen y0) :
    (dayNumYo y1 o1 < dayNumYo y0 o0 ↔
      (y1 < y0 ∨ (y1 = y0 ∧ (monthOfYo y1 o1 < monthOfYo y0 o0 ∨
        (monthOfYo y1 o1 = monthOfYo y0 o0 ∧ dayOfYo y1 o1 < dayOfYo y0 o0))))) ∧
    (dayNumYo y1 o1 = dayNumYo y0 o0 ↔
      (y1 = y0 ∧ monthOfYo y1 o1 = monthOfYo y0 o0 ∧ dayOfYo y1 o1 = dayOfYo y0 o0)) := by
  obtain ⟨_, _, a3, a4⟩ := month_day_spec y1 o1 ho1.1 ho1.2
  obtain ⟨_, _, b3, b4⟩ := month_day_spec y0 o0 ho0.1 ho0.2
  have ha := valid_bounds _ _ _ a3
  have hb := valid_bounds _ _ _ b3
  have hord := ymd_lex_ordinal y1 y0 _ _ _ _ a3 b3
  rw [a4, b4] at hord
  have hl1 := yearLen_ge y1
  have hl0 := yearLen_ge y0
  have hdn : (dayNumYo y1 o1 < dayNumYo y0 o0 ↔ (y1 < y0 ∨ (y1 = y0 ∧ o1 < o0))) ∧
      (dayNumYo y1 o1 = dayNumYo y0 o0 ↔ (y1 = y0 ∧ o1 = o0)) := by
    unfold dayNumYo
    rcases Int.lt_trichotomy y1 y0 with h | h | h
    · have hm := dby_mono (y1 + 1) y0 (by omega)
      have hs := dby_step y1
      constructor <;> constructor <;> intro _ <;> omega
    · subst h; constructor <;> constructor <;> intro _ <;> omega
    · have hm := dby_mono (y0 + 1) y1 (by omega)
      have hs := dby_step y0
      constructor <;> constructor <;> intro _ <;> omega
  have heq : y1 = y0 → (monthOfYo y1 o1 = monthOfYo y0 o0 ∧ dayOfYo y1 o1 = dayOfYo y0 o0 ↔ o1 = o0) := by
    intro hy
    subst hy
    constructor
    · intro h; rw [← a4, ← b4, h.1, h.2]
    · intro h; subst h; exact ⟨rfl, rfl⟩
  generalize monthOfYo y1 o1 = m1 at *
  generalize dayOfYo y1 o1 = d1 at *
  generalize monthOfYo y0 o0 = m0 at *
  generalize dayOfYo y0 o0 = d0 at *
  rw [hdn.1, hdn.2]
  constructor
  · constructor
    · intro h
      rcases h with h | ⟨h1, h2⟩
      · left; exact h
      · right; refine ⟨h1, ?_⟩
        have := (hord h1).mpr h2
        omega
    · intro h
      rcases h with h | ⟨h1, h2⟩
      · left; exact h
      · right; refine ⟨h1, (hord h1).mp (by omega)⟩
  · constructor
    · intro h; exact ⟨h.1, (heq h.1).mpr h.2⟩
    · intro h; exact ⟨h.1, (heq h.1).mp h.2⟩

/-- the order `years_since` compares by is the order of the wall clocks (whole seconds, then the
nanosecond field) -/
theorem ymdt_wall (l1 l0 : NaiveDT) (x1 : ExtNDTInv l1) (x0 : ExtNDTInv l0) :
    ymdtLt l1.date.year (monthOfYo l1.date.year l1.date.ordinal.toNat)
        (dayOfYo l1.date.year l1.date.ordinal.toNat) l1.time
      l0.date.year (monthOfYo l0.date.year l0.date.ordinal.toNat)
        (dayOfYo l0.date.year l0.date.ordinal.toNat) l0.time ↔
    (instSecs l1 < instSecs l0 ∨ (instSecs l1 = instSecs l0 ∧ l1.time.frac < l0.time.frac)) := by
  obtain ⟨e1, v1⟩ := ext_eq l1.date x1.1
  obtain ⟨e0, v0⟩ := ext_eq l0.date x0.1
  obtain ⟨hlt, heq⟩ := ymd_daynum l1.date.year l0.date.year l1.date.ordinal.toNat l0.date.ordinal.toNat
    ⟨v1.2.2.1, v1.2.2.2⟩ ⟨v0.2.2.1, v0.2.2.2⟩
  rw [instSecs_ext l1 x1.1, instSecs_ext l0 x0.1]
  have t1 := x1.2
  have t0 := x0.2
  unfold TValid at t1 t0
  unfold ymdtLt
  generalize monthOfYo l1.date.year l1.date.ordinal.toNat = m1 at *
  generalize dayOfYo l1.date.year l1.date.ordinal.toNat = d1 at *
  generalize monthOfYo l0.date.year l0.date.ordinal.toNat = m0 at *
  generalize dayOfYo l0.date.year l0.date.ordinal.toNat = d0 at *
  generalize dayNumYo l1.date.year l1.date.ordinal.toNat = n1 at *
  generalize dayNumYo l0.date.year l0.date.ordinal.toNat = n0 at *
  constructor
  · intro h
    by_cases c : n1 < n0
    · left; omega
    · have hne : ¬ (l1.date.year < l0.date.year ∨ (l1.date.year = l0.date.year ∧
          (m1 < m0 ∨ (m1 = m0 ∧ d1 < d0)))) := fun h' => c (hlt.mpr h')
      have hq : n1 = n0 := heq.mpr (by omega)
      omega
  · intro h
    by_cases c : n1 < n0
    · have := hlt.mp c; omega
    · have hq : n1 = n0 := by omega
      have := heq.mp hq
      omega

end Chrono.Proofs.DTO
