/-
  C12, round 3 (whole format strings): literal / white-space text BETWEEN two specifiers.
  On a `%`-free run of well-formed UTF-8 followed by a `%`, the two run scanners of
  `parse_next_item` (`wsSpan`: white-space characters, `litSpan`: other characters, both walking whole
  characters) stop at the `%` at the latest — so the tokenizer cuts `text ++ "%…"` exactly where it cuts
  `text`, and `items (text ++ "%…") = items text ++ items "%…"`.
  (Well-formedness is needed: after a stray lead byte `litSpan` would step over the `%`.)
  Namespace `Chrono.Proofs.StrftimeText`.
-/
import Chrono.Proofs.StrftimeUtf8L
import Chrono.Proofs.StrftimeAppendL
namespace Chrono.Proofs.StrftimeText
open Chrono Chrono.M Chrono.M.Strftime Chrono.M.Tz Chrono.Spec.Utf8 Chrono.Proofs.Utf8 Chrono.Proofs.ScanBoundary
open Chrono.Proofs.StrftimeL Chrono.Proofs.FormatL

theorem wsLen37 (b : List Nat) : Scan.wsLen (37 :: b) = 0 := by
  simp [Scan.wsLen]

/-- `char::is_whitespace` of the first character does not see a following `%` -/
theorem wsLen_append37 (b0 : Nat) (r b : List Nat) :
    Scan.wsLen (b0 :: (r ++ 37 :: b)) = Scan.wsLen (b0 :: r) := by
  rcases r with _ | ⟨c1, _ | ⟨c2, r2⟩⟩
  · simp only [List.nil_append, Scan.wsLen]
    split
    · rfl
    · split <;> simp_all <;> omega
  · simp only [List.cons_append, List.nil_append, Scan.wsLen]
    split
    · rfl
    · split <;> simp_all <;> omega
  · simp only [List.cons_append, Scan.wsLen]
    split
    · rfl
    · split <;> split <;> simp_all

theorem wsLen_le (s : List Nat) : Scan.wsLen s ≤ s.length := by
  by_cases h : Scan.wsLen s = 0
  · omega
  · obtain ⟨w, r, _, hs, hl⟩ := Rfc2822.wsLen_inv s h
    rw [hl, hs, List.length_append]; omega

/-- the first character of a well-formed non-empty string: `charLen` of the lead byte is its length,
and what follows it is well-formed -/
theorem valid_head (b0 : Nat) (r : List Nat) (hv : validUtf8 (b0 :: r) = true) :
    Scan.charLen b0 ≤ (b0 :: r).length ∧ validUtf8 ((b0 :: r).drop (Scan.charLen b0)) = true := by
  obtain ⟨c, t', he, hc, hvt⟩ := (valid_cons_iff (b0 :: r) (by simp)).mp hv
  obtain ⟨b1, tl, hce, hcl⟩ := isChar_len c hc
  have hb : b1 = b0 := by rw [hce] at he; injection he with he _; exact he.symm
  subst hb
  have hlen : Scan.charLen b1 = c.length := by rw [hcl]; rfl
  rw [hlen, he]
  refine ⟨by rw [List.length_append]; omega, ?_⟩
  rw [List.drop_left]; exact hvt

/-! ### the run scanners -/

theorem wsSpanAux_le : ∀ (f : Nat) (s : List Nat) (acc : Nat), wsSpanAux f s acc ≤ acc + s.length := by
  intro f
  induction f with
  | zero => intro s acc; simp [wsSpanAux]
  | succ f ih =>
    intro s acc
    unfold wsSpanAux
    simp only
    split
    · omega
    · have h1 := wsLen_le s
      have := ih (s.drop (Scan.wsLen s)) (acc + Scan.wsLen s)
      rw [List.length_drop] at this
      omega

theorem litSpanAux_le : ∀ (f : Nat) (s : List Nat) (acc : Nat), validUtf8 s = true →
    litSpanAux f s acc ≤ acc + s.length := by
  intro f
  induction f with
  | zero => intro s acc _; simp [litSpanAux]
  | succ f ih =>
    intro s acc hv
    unfold litSpanAux
    split
    · omega
    · rename_i b tl
      split
      · omega
      · obtain ⟨h1, h2⟩ := valid_head b tl hv
        have := ih ((b :: tl).drop (Scan.charLen b)) (acc + Scan.charLen b) h2
        rw [List.length_drop] at this
        omega

/-- the white-space scanner stops at the `%` at the latest -/
theorem wsSpanAux_append : ∀ (n : Nat) (a : List Nat), a.length ≤ n → ∀ (b : List Nat) (f1 f2 acc : Nat),
    a.length ≤ f2 → a.length + 1 ≤ f1 → wsSpanAux f1 (a ++ 37 :: b) acc = wsSpanAux f2 a acc := by
  intro n
  induction n with
  | zero =>
    intro a ha b f1 f2 acc _ h1
    have : a = [] := List.eq_nil_of_length_eq_zero (by omega)
    subst this
    obtain ⟨g, rfl⟩ : ∃ g, f1 = g + 1 := ⟨f1 - 1, by simp at h1; omega⟩
    rw [List.nil_append, wsSpanAux]
    simp only [wsLen37, if_true]
    cases f2 <;> simp [wsSpanAux, Scan.wsLen]
  | succ n ih =>
    intro a ha b f1 f2 acc h2 h1
    cases a with
    | nil =>
      obtain ⟨g, rfl⟩ : ∃ g, f1 = g + 1 := ⟨f1 - 1, by simp at h1; omega⟩
      rw [List.nil_append, wsSpanAux]
      simp only [wsLen37, if_true]
      cases f2 <;> simp [wsSpanAux, Scan.wsLen]
    | cons c r =>
      simp only [List.length_cons] at ha h1 h2
      obtain ⟨g1, rfl⟩ : ∃ g, f1 = g + 1 := ⟨f1 - 1, by omega⟩
      obtain ⟨g2, rfl⟩ : ∃ g, f2 = g + 1 := ⟨f2 - 1, by omega⟩
      rw [List.cons_append, wsSpanAux, wsSpanAux, wsLen_append37]
      split
      · rfl
      · rename_i h0
        have hle := wsLen_le (c :: r)
        rw [← List.cons_append, List.drop_append_of_le_length hle]
        have hl : ((c :: r).drop (Scan.wsLen (c :: r))).length ≤ n := by
          rw [List.length_drop, List.length_cons]; omega
        exact ih _ hl b g1 g2 _ (by rw [List.length_drop, List.length_cons]; omega)
          (by rw [List.length_drop, List.length_cons]; omega)

theorem wsSpan_append (a b : List Nat) : wsSpan (a ++ 37 :: b) = wsSpan a := by
  unfold wsSpan
  exact wsSpanAux_append a.length a (Nat.le_refl _) b _ _ 0 (Nat.le_refl _)
    (by rw [List.length_append, List.length_cons]; omega)

/-- the literal scanner stops at the `%` at the latest — on well-formed UTF-8 -/
theorem litSpanAux_append : ∀ (n : Nat) (a : List Nat), a.length ≤ n → validUtf8 a = true → (∀ x ∈ a, x ≠ 37) →
    ∀ (b : List Nat) (f1 f2 acc : Nat), a.length ≤ f2 → a.length + 1 ≤ f1 →
    litSpanAux f1 (a ++ 37 :: b) acc = litSpanAux f2 a acc := by
  intro n
  induction n with
  | zero =>
    intro a ha _ _ b f1 f2 acc _ h1
    have : a = [] := List.eq_nil_of_length_eq_zero (by omega)
    subst this
    obtain ⟨g, rfl⟩ : ∃ g, f1 = g + 1 := ⟨f1 - 1, by simp at h1; omega⟩
    rw [List.nil_append, litSpanAux]
    simp only [true_or, if_true]
    cases f2 <;> simp [litSpanAux]
  | succ n ih =>
    intro a ha hv hf b f1 f2 acc h2 h1
    cases a with
    | nil =>
      obtain ⟨g, rfl⟩ : ∃ g, f1 = g + 1 := ⟨f1 - 1, by simp at h1; omega⟩
      rw [List.nil_append, litSpanAux]
      simp only [true_or, if_true]
      cases f2 <;> simp [litSpanAux]
    | cons c r =>
      simp only [List.length_cons] at ha h1 h2
      obtain ⟨g1, rfl⟩ : ∃ g, f1 = g + 1 := ⟨f1 - 1, by omega⟩
      obtain ⟨g2, rfl⟩ : ∃ g, f2 = g + 1 := ⟨f2 - 1, by omega⟩
      rw [List.cons_append, litSpanAux, litSpanAux, wsLen_append37]
      split
      · rfl
      · obtain ⟨hle, hvd⟩ := valid_head c r hv
        have hp := charLen_pos c
        rw [← List.cons_append, List.drop_append_of_le_length hle]
        have hl : ((c :: r).drop (Scan.charLen c)).length ≤ n := by
          rw [List.length_drop, List.length_cons]; omega
        exact ih _ hl hvd (fun x hx => hf x (List.mem_of_mem_drop hx)) b g1 g2 _
          (by rw [List.length_drop, List.length_cons]; omega)
          (by rw [List.length_drop, List.length_cons]; omega)

theorem litSpan_append (a b : List Nat) (hv : validUtf8 a = true) (hf : ∀ x ∈ a, x ≠ 37) :
    litSpan (a ++ 37 :: b) = litSpan a := by
  unfold litSpan
  exact litSpanAux_append a.length a (Nat.le_refl _) hv hf b _ _ 0 (Nat.le_refl _)
    (by rw [List.length_append, List.length_cons]; omega)

/-! ### one tokenizer step on text -/

/-- the text arm of `parse_next_item`, as an equation -/
theorem pni_text_eq (l : Bool) (c : Nat) (r : List Nat) (hc : c ≠ 37) :
    parse_next_item l (c :: r) =
      if Scan.wsLen (c :: r) ≠ 0 then
        some ((c :: r).drop (Scan.wsLen (c :: r) + wsSpan ((c :: r).drop (Scan.wsLen (c :: r)))),
          .space ((c :: r).take (Scan.wsLen (c :: r) + wsSpan ((c :: r).drop (Scan.wsLen (c :: r))))), [])
      else
        some ((c :: r).drop (Scan.charLen c + litSpan ((c :: r).drop (Scan.charLen c))),
          .literal ((c :: r).take (Scan.charLen c + litSpan ((c :: r).drop (Scan.charLen c)))), []) := by
  unfold parse_next_item
  split
  · rename_i h; cases h
  · rename_i r0 h
    injection h with h1 _
    exact absurd h1 hc
  · rename_i b' tl h
    injection h with h1 h2
    subst h1; subst h2
    rfl

/-- one step on `text ++ "%…"`: the same cut and the same item as on `text` alone -/
theorem pni_text_append (c : Nat) (r b : List Nat) (hf : ∀ x ∈ c :: r, x ≠ 37) (hv : validUtf8 (c :: r) = true) :
    ∃ n it, 1 ≤ n ∧ n ≤ (c :: r).length ∧
      parse_next_item false (c :: r) = some ((c :: r).drop n, it, []) ∧
      parse_next_item false (c :: r ++ 37 :: b) = some ((c :: r).drop n ++ 37 :: b, it, []) := by
  have hc : c ≠ 37 := hf c (by simp)
  have e1 := pni_text_eq false c r hc
  have e2 := pni_text_eq false c (r ++ 37 :: b) hc
  rw [wsLen_append37] at e2
  by_cases hw : Scan.wsLen (c :: r) ≠ 0
  · rw [if_pos hw] at e1 e2
    have hle := wsLen_le (c :: r)
    have hsp := wsSpanAux_le ((c :: r).drop (Scan.wsLen (c :: r))).length ((c :: r).drop (Scan.wsLen (c :: r))) 0
    rw [List.length_drop] at hsp
    have hn : Scan.wsLen (c :: r) + wsSpan ((c :: r).drop (Scan.wsLen (c :: r))) ≤ (c :: r).length := by
      unfold wsSpan; rw [List.length_drop]; omega
    rw [← List.cons_append, List.drop_append_of_le_length hle, wsSpan_append,
      List.drop_append_of_le_length hn, List.take_append_of_le_length hn] at e2
    exact ⟨_, _, by omega, hn, e1, e2⟩
  · rw [if_neg hw] at e1 e2
    obtain ⟨hle, hvd⟩ := valid_head c r hv
    have hp := charLen_pos c
    have hsp := litSpanAux_le ((c :: r).drop (Scan.charLen c)).length ((c :: r).drop (Scan.charLen c)) 0 hvd
    rw [List.length_drop] at hsp
    have hn : Scan.charLen c + litSpan ((c :: r).drop (Scan.charLen c)) ≤ (c :: r).length := by
      unfold litSpan; rw [List.length_drop]; omega
    rw [← List.cons_append, List.drop_append_of_le_length hle,
      litSpan_append _ b hvd (fun x hx => hf x (List.mem_of_mem_drop hx)),
      List.drop_append_of_le_length hn, List.take_append_of_le_length hn] at e2
    exact ⟨_, _, by omega, hn, e1, e2⟩

/-! ### the whole tokenizer -/

/-- **`items (text ++ "%…") = items text ++ items "%…"`** for every `%`-free run of well-formed UTF-8
(literal characters and white space in any order, any Unicode) -/
theorem items_text_append : ∀ (n : Nat) (a : List Nat), a.length ≤ n → validUtf8 a = true → (∀ x ∈ a, x ≠ 37) →
    ∀ b : List Nat, items (a ++ 37 :: b) = items a ++ items (37 :: b) := by
  intro n
  induction n with
  | zero =>
    intro a ha _ _ b
    have : a = [] := List.eq_nil_of_length_eq_zero (by omega)
    subst this
    rfl
  | succ n ih =>
    intro a ha hv hf b
    cases a with
    | nil => rfl
    | cons c r =>
      obtain ⟨k, it, hk1, hk2, p1, p2⟩ := pni_text_append c r b hf hv
      have hvd : validUtf8 ((c :: r).drop k) = true :=
        bs_valid_rest hv (StrftimeUtf8.parse_next_item_good (c :: r) hv _ p1).1
      have hfd : ∀ x ∈ (c :: r).drop k, x ≠ 37 := fun x hx => hf x (List.mem_of_mem_drop hx)
      have hl : ((c :: r).drop k).length ≤ n := by
        rw [List.length_drop]; simp only [List.length_cons] at ha hk2 ⊢; omega
      have hrec := ih _ hl hvd hfd b
      have hlen : ((c :: r).drop k).length = (c :: r).length - k := List.length_drop
      unfold items at hrec ⊢
      rw [itemsAux, p2, itemsAux, p1]
      simp only [List.nil_append, List.cons_append]
      have hlen2 : ((c :: r).drop k ++ 37 :: b).length = (c :: r).length - k + (b.length + 1) := by
        rw [List.length_append, hlen]; rfl
      have hlen3 : (c :: (r ++ 37 :: b)).length = (c :: r).length + (b.length + 1) := by
        simp only [List.length_cons, List.length_append]; omega
      rw [StrftimeL.itemsAux_fuel false (c :: (r ++ 37 :: b)).length (((c :: r).drop k ++ 37 :: b).length + 1)
          ((c :: r).drop k ++ 37 :: b) (by rw [hlen2, hlen3]; omega) (by omega),
        hrec,
        StrftimeL.itemsAux_fuel false (c :: r).length (((c :: r).drop k).length + 1) ((c :: r).drop k)
          (by rw [hlen]; omega) (by omega)]

theorem items_text (a b : List Nat) (hv : validUtf8 a = true) (hf : ∀ x ∈ a, x ≠ 37) :
    items (a ++ 37 :: b) = items a ++ items (37 :: b) :=
  items_text_append a.length a (Nat.le_refl _) hv hf b

/-- every complete specifier text starts with `%` -/
theorem specTexts_head : ∀ a ∈ StrftimeAppend.specTextsLit, ∃ r, a = 37 :: r := by
  intro a ha
  have key : ∀ a ∈ StrftimeAppend.specTextsLit, a.head? = some 37 := by decide +kernel
  have := key a ha
  cases a with
  | nil => cases this
  | cons x r => simp only [List.head?_cons, Option.some.injEq] at this; exact ⟨r, by rw [this]⟩

/-- a format string given as segments `(text, specifier)` (text: `%`-free well-formed UTF-8, possibly
empty; specifier: a complete documented specifier text) followed by anything -/
theorem items_segments (segs : List (List Nat × List Nat))
    (hs : ∀ p ∈ segs, (∀ x ∈ p.1, x ≠ 37) ∧ validUtf8 p.1 = true ∧ p.2 ∈ Spec.StrftimeDoc.specTexts) (rest : List Nat) :
    items ((segs.map fun p => p.1 ++ p.2).flatten ++ rest) =
      (segs.map fun p => items p.1 ++ items p.2).flatten ++ items rest := by
  induction segs with
  | nil => rfl
  | cons p tl ih =>
    obtain ⟨h1, h2, h3⟩ := hs p (by simp)
    obtain ⟨r, hr⟩ := specTexts_head p.2 (by rw [← StrftimeAppend.specTexts_eq]; exact h3)
    simp only [List.map_cons, List.flatten_cons, List.append_assoc]
    have e : p.2 ++ ((tl.map fun p => p.1 ++ p.2).flatten ++ rest) =
        37 :: (r ++ ((tl.map fun p => p.1 ++ p.2).flatten ++ rest)) := by rw [hr]; rfl
    rw [e, items_text p.1 _ h2 h1, ← e, StrftimeAppend.items_append p.2 _ h3,
      ih (fun q hq => hs q (List.mem_cons_of_mem _ hq))]

end Chrono.Proofs.StrftimeText
