/- Helper lemmas for C07's date-time theorems: the packed `NaiveDateTime` model (Model/DateTime.lean,
   the one the C03/C07 harness compares against the crate) carries the time-of-day overflow into the
   packed date exactly as the day-number contract of Model/TimeCarry.lean says.  Rests on
   `dt_add_general` / `dt_sub_general` / `dt_diff_general` (Proofs/DateTimeArithL.lean: C07's `addLeap`
   glued to C01/C03's `add_days` by the carry). -/
import Chrono.Proofs.DateTimeArithL
import Chrono.Model.TimeCarry

namespace Chrono.Proofs.TimeCarry
open Chrono Chrono.M Chrono.Spec Chrono.Proofs Chrono.Extracted

/-- the shape shared by `checked_add_signed` (`k = ns δ`) and `checked_sub_signed` (`k = -ns δ`):
day shift by the carry, time of day from `addLeap`, valid result -/
def CarryOutcome (dt : NaiveDT) (k : Int) (r : Option NaiveDT) : Prop :=
  IsDayShift dt.date ((addLeap dt.time k).2 / 86400) (r.map (·.date)) ∧
  ∀ x, r = some x → x.time = (addLeap dt.time k).1 ∧ NDTInv x

theorem outcome_of (dt : NaiveDT) (k : Int) (r : Option NaiveDT) (hdt : NDTInv dt)
    (hs : IsDayShift dt.date ((addLeap dt.time k).2 / 86400) (r.map (·.date)))
    (ht : ∀ x, r = some x → x.time = (addLeap dt.time k).1) : CarryOutcome dt k r := by
  refine ⟨hs, ?_⟩
  intro x hx
  have e := ht x hx
  refine ⟨e, ?_, ?_⟩
  · exact (hs.2 x.date (by rw [hx]; rfl)).1
  · rw [e]; exact (addLeap_facts dt.time k hdt.2).1

theorem add_outcome (dt : NaiveDT) (δ : Delta) (hdt : NDTInv dt) (hδ : DInv δ) :
    ∃ r, NaiveDT.checked_add_signed dt δ = .ok r ∧ CarryOutcome dt (ns δ) r := by
  obtain ⟨r, h0, h1, h2⟩ := dt_add_general dt δ hdt hδ
  exact ⟨r, h0, outcome_of dt _ r hdt h1 h2⟩

theorem sub_outcome (dt : NaiveDT) (δ : Delta) (hdt : NDTInv dt) (hδ : DInv δ) :
    ∃ r, NaiveDT.checked_sub_signed dt δ = .ok r ∧ CarryOutcome dt (-(ns δ)) r := by
  obtain ⟨r, h0, h1, h2⟩ := dt_sub_general dt δ hdt hδ
  exact ⟨r, h0, outcome_of dt _ r hdt h1 h2⟩

/-- an outcome is, read through `dayNumOf`, the closed form of the day-number contract on the
window `[DN_MIN, DN_MAX]` -/
theorem outcome_image (dt : NaiveDT) (k : Int) (r : Option NaiveDT) (h : CarryOutcome dt k r) :
    (if DN_MIN ≤ dayNumOf dt.date + (addLeap dt.time k).2 / 86400 ∧
        dayNumOf dt.date + (addLeap dt.time k).2 / 86400 ≤ DN_MAX
     then some (dayNumOf dt.date + (addLeap dt.time k).2 / 86400, (addLeap dt.time k).1) else none) =
    r.map (fun x => (dayNumOf x.date, x.time)) := by
  obtain ⟨⟨hn, hs⟩, ht⟩ := h
  cases r with
  | none =>
    have := hn.mp rfl
    rw [if_neg (by omega)]
    rfl
  | some x =>
    have hne : ¬ (dayNumOf dt.date + (addLeap dt.time k).2 / 86400 < DN_MIN ∨
        DN_MAX < dayNumOf dt.date + (addLeap dt.time k).2 / 86400) := by
      intro hc
      have := hn.mpr hc
      cases this
    rw [if_pos (by omega)]
    have e1 := (hs x.date rfl).2
    have e2 := (ht x rfl).1
    show some _ = some (dayNumOf x.date, x.time)
    rw [e1, e2]

theorem window_ok (d : Date) (hd : DateInv d) :
    -100000000 ≤ DN_MIN ∧ DN_MAX ≤ 100000000 ∧ DN_MIN ≤ dayNumOf d ∧ dayNumOf d ≤ DN_MAX := by
  obtain ⟨c1, c2, _⟩ := dn_consts
  have := dn_bounds d hd
  rw [c1, c2]
  omega

/-- the day-number model run on the window `[DN_MIN, DN_MAX]` returns the image of the packed
model's result -/
theorem refines_add (dt : NaiveDT) (δ : Delta) (hdt : NDTInv dt) (hδ : DInv δ) :
    ∃ r, NaiveDT.checked_add_signed dt δ = .ok r ∧
      M.TimeCarry.checked_add_signed DN_MIN DN_MAX (dayNumOf dt.date) dt.time δ =
        .ok (r.map (fun x => (dayNumOf x.date, x.time))) := by
  obtain ⟨r, h0, h1⟩ := add_outcome dt δ hdt hδ
  refine ⟨r, h0, ?_⟩
  rw [dt_add' DN_MIN DN_MAX (dayNumOf dt.date) dt.time δ hdt.2 hδ (window_ok dt.date hdt.1)]
  exact congrArg _ (outcome_image dt (ns δ) r h1)

theorem refines_sub (dt : NaiveDT) (δ : Delta) (hdt : NDTInv dt) (hδ : DInv δ) :
    ∃ r, NaiveDT.checked_sub_signed dt δ = .ok r ∧
      M.TimeCarry.checked_sub_signed DN_MIN DN_MAX (dayNumOf dt.date) dt.time δ =
        .ok (r.map (fun x => (dayNumOf x.date, x.time))) := by
  obtain ⟨r, h0, h1⟩ := sub_outcome dt δ hdt hδ
  refine ⟨r, h0, ?_⟩
  rw [dt_sub' DN_MIN DN_MAX (dayNumOf dt.date) dt.time δ hdt.2 hδ (window_ok dt.date hdt.1)]
  exact congrArg _ (outcome_image dt (-(ns δ)) r h1)

theorem refines_diff (a b : NaiveDT) (ha : NDTInv a) (hb : NDTInv b) :
    M.TimeCarry.signed_duration_since (dayNumOf a.date) a.time (dayNumOf b.date) b.time =
      NaiveDT.signed_duration_since a b := by
  have ba := dn_bounds a.date ha.1
  have bb := dn_bounds b.date hb.1
  rw [dt_diff' _ _ a.time b.time ha.2 hb.2 (by omega), (dt_diff_general a b ha hb).1]
  rfl

/-- the difference with everything a caller needs: value, validity, reading, antisymmetry -/
theorem diff_full (a b : NaiveDT) (ha : NDTInv a) (hb : NDTInv b) :
    NaiveDT.signed_duration_since a b =
      .ok (ofNs ((dayNumOf a.date - dayNumOf b.date) * 86400000000000 + diffLeap a.time b.time)) ∧
    DInv (ofNs ((dayNumOf a.date - dayNumOf b.date) * 86400000000000 + diffLeap a.time b.time)) ∧
    ns (ofNs ((dayNumOf a.date - dayNumOf b.date) * 86400000000000 + diffLeap a.time b.time)) =
      (dayNumOf a.date - dayNumOf b.date) * 86400000000000 + diffLeap a.time b.time ∧
    (dayNumOf b.date - dayNumOf a.date) * 86400000000000 + diffLeap b.time a.time =
      -((dayNumOf a.date - dayNumOf b.date) * 86400000000000 + diffLeap a.time b.time) := by
  obtain ⟨h1, h2⟩ := dt_diff_general a b ha hb
  have hN : NS_PER_DAY = 86400000000000 := rfl
  rw [hN] at h1 h2
  refine ⟨h1, (ofNs_spec' _ h2).1, (ofNs_spec' _ h2).2, ?_⟩
  unfold diffLeap
  omega

end Chrono.Proofs.TimeCarry
