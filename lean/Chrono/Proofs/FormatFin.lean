/-
  Kernel-evaluated finite facts for C12 (no Mathlib import; cached separately because they are slow).
-/
import Chrono.Model.Format
import Chrono.Model.Strftime
namespace Chrono.Proofs.FormatFin
open Chrono Chrono.M Chrono.M.Format

/-- the fast path of `write_year` (two `write_hundreds`) writes the four digits of the year -/
def yearFastOk (y : Nat) : Bool :=
  ((write_hundreds (asU8 (Int.tdiv y 100))).seq (write_hundreds (asU8 (Int.tmod y 100))) == wok (digits y))
  && ((digits y).length == 4)

theorem year_fast_fin : ∀ a < 90, ∀ b < 100, yearFastOk ((a + 10) * 100 + b) = true := by decide +kernel

end Chrono.Proofs.FormatFin
