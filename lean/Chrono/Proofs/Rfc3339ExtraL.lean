/-
  C10, beyond the audit list: the value-level round trip for EVERY precision (leap seconds included),
  the offset bound in seconds vs the `hh < 24` form of `Valid`, and the `%+` formatting item.
  Namespace `Chrono.Proofs.Rfc3339X`.
-/
import Chrono.Proofs.Rfc3339SignL
import Chrono.Proofs.Rfc3339UniqueL
import Chrono.Model.ParseFrom

namespace Chrono.Proofs.Rfc3339X
open Chrono Chrono.M Chrono.M.Format Chrono.Spec Chrono.Spec.Rfc3339 Chrono.Proofs.Rfc3339 Chrono.Proofs
open Chrono.M.Rfc3339

theorem keptNanos_le (sf : SecondsFormat) (n : Nat) : keptNanos sf n ≤ n := by
  unfold keptNanos wantedFrac
  cases sf with
  | secs => simp
  | millis => norm_num; omega
  | micros => norm_num; omega
  | nanos => norm_num
  | autoSi =>
    by_cases h1 : n = 0
    · simp [h1]
    · by_cases h2 : n % 1000000 = 0
      · simp only [h1, h2, if_true, if_false]; norm_num; omega
      · by_cases h3 : n % 1000 = 0
        · simp only [h1, h2, h3, if_true, if_false]; norm_num; omega
        · simp only [h1, h2, h3, if_false]; norm_num

/-- **value-level round trip, every precision**: for a value the public constructors build (leap
second only on second 59) the rendering at precision `sf` parses back to exactly the value with its
sub-second part truncated to `sf` — the leap-second representation is preserved by all five precisions -/
theorem roundtrip_value (z : Zoned) (hz : ZInv z) (hoff : z.off % 60 = 0) (hy : WallYear0to9999 (wallSecs z))
    (hs : TStrict z.utc.time) (sf : SecondsFormat) (use_z : Bool) :
    ∃ t, to_rfc3339_opts z sf use_z = .ok t ∧ parse_from_rfc3339 t = .ok (.ok (truncatedTo sf z)) := by
  obtain ⟨t, f, w1, hm, hv, w2, w3, w4, w5, w6, w7, w8, _, _⟩ := writer_main z hz hoff hy sf use_z
  obtain ⟨v, p1, ⟨p2, p3, p4, p5⟩⟩ := parse_complete t f hm hv
  have hk := fracNanos_kept f.fracDigits sf _ w6
  have hW : wallSecs z = instSecs z.utc + z.off := rfl
  have hE : EPOCH_DAY = 719163 := rfl
  obtain ⟨⟨hd, tz1, tz2, tz3, tz4⟩, hov⟩ := hz
  obtain ⟨_, hleap⟩ := hs
  have hkl := keptNanos_le sf (z.utc.time.frac % 1000000000).toNat
  generalize hK : keptNanos sf (z.utc.time.frac % 1000000000).toNat = K at hk hkl
  have hsm : instSecs z.utc % 60 = z.utc.time.secs % 60 := by unfold instSecs; omega
  have h60 : f.second = 60 ↔ z.utc.time.frac ≥ 1000000000 := by
    by_cases hl : z.utc.time.frac ≥ 1000000000
    · rw [if_pos hl] at w5; constructor <;> intro <;> omega
    · rw [if_neg hl] at w5; constructor <;> intro <;> omega
  have hinv : NDTInv (truncatedTo sf z).utc := by
    unfold truncatedTo
    rw [hK]
    refine ⟨hd, tz1, tz2, ?_, ?_⟩
    · dsimp only; split <;> omega
    · dsimp only; split <;> omega
  have e3 : instSecs (truncatedTo sf z).utc = wallSecsOf f - offsetOf f := by
    have : instSecs (truncatedTo sf z).utc = instSecs z.utc := rfl
    rw [this, w8]
    unfold wallSecsOf
    rw [w2, w3, w4]
    by_cases hl : z.utc.time.frac ≥ 1000000000
    · rw [if_pos (h60.mpr hl)]; omega
    · have hn : ¬ f.second = 60 := fun h => hl (h60.mp h)
      rw [if_neg hl] at w5
      rw [if_neg hn]; omega
  have e4 : (truncatedTo sf z).utc.time.frac = fracOf f := by
    unfold truncatedTo fracOf
    rw [hK, hk]
    dsimp only
    by_cases hl : z.utc.time.frac ≥ 1000000000
    · rw [if_pos hl, if_pos (h60.mpr hl)]; omega
    · have hn : ¬ f.second = 60 := fun h => hl (h60.mp h)
      rw [if_neg hl, if_neg hn]; omega
  have hu : v.utc = (truncatedTo sf z).utc :=
    Chrono.Proofs.Ts.inst_inj v.utc _ p2.1 hinv (by rw [p4, e3]) (by rw [p5, e4])
  have ho : v.off = (truncatedTo sf z).off := by rw [p3, w8]; rfl
  have hvz : v = truncatedTo sf z := by
    cases v
    simp only [truncatedTo, Zoned.mk.injEq] at hu ho ⊢
    exact ⟨hu, ho⟩
  exact ⟨t, w1, by rw [← hvz]; exact p1⟩

/-! ### the offset bound -/

theorem num2_le (a b : Nat) (ha : IsDig a) (hb : IsDig b) : num2 a b ≤ 99 := by
  unfold IsDig at ha hb
  simp only [num2, dval]; omega

/-- the offset fields of a text of the grammar are two-digit numbers -/
theorem matches_off_le (s : List Nat) (f : Fields) (h : Matches s f) : f.offH ≤ 99 ∧ f.offM ≤ 99 := by
  obtain ⟨_, _, _, _, _, _, _, _, _, _, _, _, _, _, _, _, off, _, _, _, _, _, _, _, _, hoff, _⟩ := h
  generalize f.offH = H at hoff
  generalize f.offM = M at hoff
  generalize f.zulu = z at hoff
  generalize f.neg = n at hoff
  cases hoff with
  | upperZ => omega
  | lowerZ => omega
  | plus a b c d hd => exact ⟨num2_le a b hd.1 hd.2.1, num2_le c d hd.2.2.1 hd.2.2.2⟩
  | hyphen a b c d hd => exact ⟨num2_le a b hd.1 hd.2.1, num2_le c d hd.2.2.1 hd.2.2.2⟩
  | minus a b c d hd => exact ⟨num2_le a b hd.1 hd.2.1, num2_le c d hd.2.2.1 hd.2.2.2⟩

/-- `hh < 24` (with a real minute) is the code's bound `|offset| ≤ MAX_RFC3339_OFFSET` seconds -/
theorem offset_bound_iff (f : Fields) (hM : f.offM < 60) :
    f.offH < 24 ↔ (-Extracted.MAX_RFC3339_OFFSET ≤ offsetOf f ∧ offsetOf f ≤ Extracted.MAX_RFC3339_OFFSET) := by
  have hmax : Extracted.MAX_RFC3339_OFFSET = 86340 := by decide
  unfold offsetOf
  rw [hmax]
  split <;> constructor <;> intro h <;> omega

/-! ### the `%+` item -/

/-- a formatting `%+` (`Fixed::RFC3339`) given a date, a time and an offset is `write_rfc3339(…, AutoSi,
false)`; without an offset (a `NaiveDateTime`), without a date or without a time it is `Err(fmt::Error)` -/
theorem plus_item (d : Option Date) (t : Option Time) (off : Option (List Nat × Int)) :
    format_fixed d t off .rfc3339 =
      match d, t, off with
      | some d, some t, some (_, o) => write_rfc3339 ⟨d, t⟩ o .autoSi false
      | _, _, _ => werr := by
  cases d <;> cases t <;> cases off <;> rfl

theorem items_plus : Strftime.items [37, 43] = [.fixed .rfc3339] := by decide

theorem seq_nil (w : W) : w.seq (wok []) = w := by
  unfold W.seq wok
  cases w with
  | panic => rfl
  | ok o =>
    cases o with
    | none => rfl
    | some x => simp

/-- `dt.format("%+")` of a `DateTime<FixedOffset>`, written into a `String` and unwrapped, is
`dt.to_rfc3339()` -/
theorem plus_format_zoned (z : Zoned) : expectText (ParseFrom.format (.zoned z) [37, 43]) = to_rfc3339 z := by
  unfold ParseFrom.format ParseFrom.formatItemsOf to_rfc3339
  rw [items_plus]
  dsimp only
  cases h : Zoned.overflowing_naive_local z with
  | panic => rfl
  | ok l =>
    show expectText (formatItemsR (some l.date) (some l.time) (some (fixedOffsetName z.off, z.off)) [.fixed .rfc3339]) = _
    unfold formatItemsR formatItemsR format_item
    rw [seq_nil]
    dsimp only
    rw [plus_item]
    rfl

/-- `%+` on a value without an offset (`NaiveDateTime`, `NaiveDate`, `NaiveTime`) is a formatting error -/
theorem plus_format_naive (dt : NaiveDT) (d : Date) (t : Time) :
    ParseFrom.format (.naive dt) [37, 43] = werr ∧ ParseFrom.format (.date d) [37, 43] = werr ∧
    ParseFrom.format (.time t) [37, 43] = werr := by
  unfold ParseFrom.format ParseFrom.formatItemsOf
  rw [items_plus]
  exact ⟨rfl, rfl, rfl⟩

end Chrono.Proofs.Rfc3339X
