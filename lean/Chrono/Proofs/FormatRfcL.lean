/-
  Helper lemmas for C12: the two composite fixed items.
  `Fixed::RFC3339` (`%+`) formats exactly like the item list of `%Y-%m-%dT%H:%M:%S%.f%:z`, and
  `Fixed::RFC2822` like the item list of `%a, %-d %b %Y %H:%M:%S %z` on years 0..=9999 (an error outside).
-/
import Chrono.Proofs.FormatL
namespace Chrono.Proofs.FormatRfc
open Chrono Chrono.M Chrono.M.Format Chrono.M.Strftime Chrono.Spec Chrono.Spec.Strftime Chrono.Extracted
open Chrono.Proofs.FormatL

/-! ### the writer monoid -/

theorem seq_nil (a : W) : a.seq (wok []) = a := by
  cases a with
  | panic => rfl
  | ok o =>
    cases o with
    | none => rfl
    | some x => simp [W.seq, wok]

theorem seq_assoc (a b c : W) : (a.seq b).seq c = a.seq (b.seq c) := by
  cases a with
  | panic => rfl
  | ok oa =>
    cases oa with
    | none => rfl
    | some x =>
      cases b with
      | panic => rfl
      | ok ob =>
        cases ob with
        | none => rfl
        | some y =>
          cases c with
          | panic => rfl
          | ok oc =>
            cases oc with
            | none => rfl
            | some z => simp only [W.seq, List.append_assoc]

theorem seq_wok_wok (a b : List Nat) (x : W) : (wok a).seq ((wok b).seq x) = (wok (a ++ b)).seq x := by
  rw [← seq_assoc]; rfl

/-! ### the item lists -/

def rfc3339Expansion : List Item :=
  [.numeric .year .zero, .literal [45], .numeric .month .zero, .literal [45], .numeric .day .zero,
   .literal [84], .numeric .hour .zero, .literal [58], .numeric .minute .zero, .literal [58],
   .numeric .second .zero, .fixed .nanosecond, .fixed .timezoneOffsetColon]

def rfc2822Expansion : List Item :=
  [.fixed .shortWeekdayName, .literal [44], .space [32], .numeric .day .none, .space [32],
   .fixed .shortMonthName, .space [32], .numeric .year .zero, .space [32], .numeric .hour .zero,
   .literal [58], .numeric .minute .zero, .literal [58], .numeric .second .zero, .space [32],
   .fixed .timezoneOffset]

theorem items_fin :
    items (str "%+") = [.fixed .rfc3339] ∧
    items (str "%Y-%m-%dT%H:%M:%S%.f%:z") = rfc3339Expansion ∧
    items (str "%a, %-d %b %Y %H:%M:%S %z") = rfc2822Expansion := by decide

/-! ### field by field -/

theorem hundreds_eq_two (v : Int) (h0 : 0 ≤ v) (h : v < 100) :
    write_hundreds (asU8 v) = wok (write_two (asU8 v) .zero) := by
  rw [write_hundreds_ok v h0 h, write_two_ok v h0 h]; rfl

theorem day_nopad_fin : ∀ v < 100,
    (if v < 10 then wok (pushChar (48 + asU8 ((v : Nat) : Int)).toNat) else write_hundreds (asU8 ((v : Nat) : Int)))
      = wok (write_two (asU8 ((v : Nat) : Int)) .none) := by decide

theorem year_small_fin : ∀ v < 1000,
    (write_hundreds (asU8 (Int.tdiv ((v : Nat) : Int) 100))).seq (write_hundreds (asU8 (Int.tmod ((v : Nat) : Int) 100)))
      = wok (fmtInt ((v : Nat) : Int) 4 .zero false) := by decide +kernel

/-- the four-digit year of the two RFC writers (two `write_hundreds`) is `%Y` on 0..=9999 -/
theorem year_hundreds (y : Int) (h : 0 ≤ y ∧ y ≤ 9999) :
    (write_hundreds (asU8 (Int.tdiv y 100))).seq (write_hundreds (asU8 (Int.tmod y 100))) = write_year y .zero := by
  rw [write_year_ok]
  unfold yearText
  rw [if_pos h]
  by_cases c : 1000 ≤ y
  · exact write_year_fast y c h.2 .zero
  · have := year_small_fin y.toNat (by omega)
    rw [Int.toNat_of_nonneg h.1] at this
    rw [this, number_eq]

/-- the year of `write_rfc3339` is `%Y` for EVERY year: four digits on 0..=9999, else sign and at least
four digits -/
theorem year_rfc3339 (y : Int) :
    (if 0 ≤ y ∧ y ≤ 9999 then
        (write_hundreds (asU8 (Int.tdiv y 100))).seq (write_hundreds (asU8 (Int.tmod y 100)))
      else wok (fmtInt y 5 .zero true)) = write_year y .zero := by
  by_cases h : 0 ≤ y ∧ y ≤ 9999
  · rw [if_pos h]; exact year_hundreds y h
  · rw [if_neg h, write_year_ok]
    unfold yearText
    rw [if_neg h, number_eq]

theorem nano_eq (f : Int) (h0 : 0 ≤ f) (h1 : f < 2000000000) {inst : Decidable (f ≥ 1000000000)} :
    @ite Int (f ≥ 1000000000) inst (f - 1000000000) f = f % 1000000000 := by
  cases inst with
  | isTrue h => simp only [if_pos h]; omega
  | isFalse h => simp only [if_neg h]; omega

theorem sec_eq (s f : Int) (h0 : 0 ≤ f) (h1 : f < 2000000000) {inst : Decidable (f ≥ 1000000000)} :
    @ite Int (f ≥ 1000000000) inst (s + 1) s = s + f / 1000000000 := by
  cases inst with
  | isTrue h => simp only [if_pos h]; omega
  | isFalse h => simp only [if_neg h]; omega

/-! ### `%+` -/

/-- `write_rfc3339 … AutoSi false` with its `let`s expanded (definitional) -/
theorem write_rfc3339_autoSi_unfold (d : Date) (t : Time) (off : Int) :
    write_rfc3339 ⟨d, t⟩ off .autoSi false =
      W.ofRes d.month fun month =>
      W.ofRes d.day fun day =>
      (if 0 ≤ d.year ∧ d.year ≤ 9999 then
        (write_hundreds (asU8 (Int.tdiv d.year 100))).seq (write_hundreds (asU8 (Int.tmod d.year 100)))
       else wok (fmtInt d.year 5 .zero true)).seq <| (wok [45]).seq <| (write_hundreds (asU8 month)).seq <|
      (wok [45]).seq <| (write_hundreds (asU8 day)).seq <| (wok [84]).seq <|
      (write_hundreds (asU8 (t.secs / 60 / 60))).seq <| (wok [58]).seq <|
      (write_hundreds (asU8 (t.secs / 60 % 60))).seq <| (wok [58]).seq <|
      (write_hundreds (asU8 (if t.frac ≥ 1000000000 then t.secs % 60 + 1 else t.secs % 60))).seq <|
      (wok (if (if t.frac ≥ 1000000000 then t.frac - 1000000000 else t.frac) = 0 then []
        else if (if t.frac ≥ 1000000000 then t.frac - 1000000000 else t.frac) % 1000000 = 0 then
          [46] ++ fmtInt ((if t.frac ≥ 1000000000 then t.frac - 1000000000 else t.frac) / 1000000) 3 .zero false
        else if (if t.frac ≥ 1000000000 then t.frac - 1000000000 else t.frac) % 1000 = 0 then
          [46] ++ fmtInt ((if t.frac ≥ 1000000000 then t.frac - 1000000000 else t.frac) / 1000) 6 .zero false
        else [46] ++ fmtInt (if t.frac ≥ 1000000000 then t.frac - 1000000000 else t.frac) 9 .zero false)).seq <|
      OffsetFormat.format ⟨.minutes, .colon, false, .zero⟩ off := rfl

/-- `Fixed::RFC3339` = the items of `%Y-%m-%dT%H:%M:%S%.f%:z`, for any date whose month and day
accessors answer (with two-digit values), any valid time incl. leap seconds, ANY year and ANY offset
(also where both fail: an offset of 100 hours or more makes `write_hundreds` fail in both) -/
theorem rfc3339_expansion (d : Date) (t : Time) (name : List Nat) (off : Int) (m dd : Nat)
    (hm : d.month = .ok m) (hd : d.day = .ok dd) (hm' : m < 100) (hd' : dd < 100) (ht : TValid t) :
    formatItemsR (some d) (some t) (some (name, off)) [.fixed .rfc3339] =
      formatItemsR (some d) (some t) (some (name, off)) rfc3339Expansion := by
  obtain ⟨t1, t2, t3, t4⟩ := ht
  simp only [rfc3339Expansion, formatItemsR, format_item, format_fixed, format_numeric, seq_nil]
  rw [write_rfc3339_autoSi_unfold]
  simp only [hm, hd, W.ofRes, Time.hms, Time.hour, Time.minute, Time.second, Time.nanosecond]
  rw [year_rfc3339, hundreds_eq_two m (by omega) (by omega), hundreds_eq_two dd (by omega) (by omega),
    hundreds_eq_two (t.secs / 60 / 60) (by omega) (by omega),
    hundreds_eq_two (t.secs / 60 % 60) (by omega) (by omega)]
  simp only [sec_eq (t.secs % 60) t.frac t3 t4, nano_eq t.frac t3 t4, apply_ite wok]
  rw [hundreds_eq_two (t.secs % 60 + t.frac / 1000000000) (by omega) (by omega)]
  rfl

/-! ### RFC 2822 -/

theorem offset_maybe_none (off : Int) :
    OffsetFormat.format ⟨.minutes, .maybe, false, .zero⟩ off = OffsetFormat.format ⟨.minutes, .none, false, .zero⟩ off := rfl

theorem rfc2822_expansion (d : Date) (t : Time) (name : List Nat) (off : Int) (m dd : Nat)
    (hm : d.month = .ok m) (hd : d.day = .ok dd) (hd' : dd < 100) (ht : TValid t)
    (hy : 0 ≤ d.year ∧ d.year ≤ 9999) :
    formatItemsR (some d) (some t) (some (name, off)) [.fixed .rfc2822] =
      formatItemsR (some d) (some t) (some (name, off)) rfc2822Expansion := by
  obtain ⟨t1, t2, t3, t4⟩ := ht
  simp only [rfc2822Expansion, formatItemsR, format_item, format_fixed, format_numeric, seq_nil]
  simp only [write_rfc2822, hm, hd, W.ofRes, Time.hms, Time.hour, Time.minute, Time.second, Time.nanosecond]
  rw [if_neg (by simp [hy.1, hy.2])]
  rw [day_nopad_fin dd hd', hundreds_eq_two (t.secs / 60 / 60) (by omega) (by omega),
    hundreds_eq_two (t.secs / 60 % 60) (by omega) (by omega),
    hundreds_eq_two (t.secs % 60 + t.frac / 1000000000) (by omega) (by omega)]
  rw [← seq_assoc (write_hundreds _) (write_hundreds _), year_hundreds d.year hy]
  rw [seq_wok_wok [44] [32], offset_maybe_none]
  rfl

theorem rfc2822_out_of_range (d : Date) (t : Time) (name : List Nat) (off : Int)
    (hy : ¬ (0 ≤ d.year ∧ d.year ≤ 9999)) :
    formatItemsR (some d) (some t) (some (name, off)) [.fixed .rfc2822] = werr := by
  simp only [formatItemsR, format_item, format_fixed, write_rfc2822]
  rw [if_pos hy]
  rfl

end Chrono.Proofs.FormatRfc
