/- Helper lemmas for the C07 audit gap G7 and the follow-up items: the operator impls of `NaiveTime`
   (Model/TimeOps.lean), `NaiveTime::MIN`, `hour12`, seconds-from-midnight round trip. -/
import Chrono.Proofs.TimeGapsL
import Chrono.Model.TimeOps

namespace Chrono.Proofs.TimeGaps
open Chrono Chrono.M Chrono.Spec Chrono.Proofs Chrono.Extracted

theorem op_add (t : Time) (d : Delta) (ht : TValid t) (hd : DInv d) :
    Time.add t d = .ok (addLeap t (ns d)).1 := by
  unfold Time.add
  rw [add_spec' t d ht hd, rbind_ok]

theorem op_sub (t : Time) (d : Delta) (ht : TValid t) (hd : DInv d) :
    Time.sub t d = .ok (addLeap t (-(ns d))).1 := by
  unfold Time.sub
  rw [sub_spec' t d ht hd, rbind_ok]

/-- what "wraps around" means in closed form: without a leap operand the result is the position of
the sum modulo one day -/
theorem addLeap_wraps (t : Time) (δ : Int) (ht : TValid t) (hl : t.frac < 1000000000) :
    pos (addLeap t δ).1 = (pos t + δ) % 86400000000000 := by
  obtain ⟨v, hm, hn, _⟩ := addLeap_facts t δ ht
  obtain ⟨hf, he⟩ := hn hl
  simp only [TValid] at v
  revert he hf hm v
  generalize addLeap t δ = r
  obtain ⟨⟨rs, rf⟩, c⟩ := r
  unfold pos
  dsimp only
  intro v hm hf he
  omega

theorem op_offset (t : Time) (off : Int) (ht : TValid t) (ho : -86400 < off ∧ off < 86400) :
    Time.add_offset t off = .ok (shiftOff t off).1 ∧
    Time.sub_offset t off = .ok (shiftOff t (-off)).1 := by
  obtain ⟨h1, h2, _⟩ := offset' t off ht ho
  unfold Time.add_offset Time.sub_offset
  rw [h1, h2, rbind_ok, rbind_ok]
  exact ⟨rfl, rfl⟩

/-- `shiftOff` in words: the second of the day moves by `off` modulo one day -/
theorem shiftOff_secs (t : Time) (off : Int) :
    (shiftOff t off).1 = ⟨(t.secs + off) % 86400, t.frac⟩ := rfl

/-! ### `hour12`, stated without the model's arithmetic -/

theorem hour12_char (t : Time) (ht : TValid t) :
    1 ≤ t.hour12.2 ∧ t.hour12.2 ≤ 12 ∧ (t.hour12.1 = true ↔ 12 ≤ hourOf t) ∧
    hourOf t = t.hour12.2 % 12 + (if t.hour12.1 = true then 12 else 0) := by
  obtain ⟨_, _, _, _, b1, b2, _, _, _, _, _, _, _, h12⟩ := accessors' t ht
  rw [h12]
  dsimp only
  by_cases c : 12 ≤ hourOf t
  · simp only [c, decide_true, if_true, true_and]
    omega
  · simp only [c, decide_false, Bool.false_eq_true, if_false, true_and]
    omega

/-! ### seconds from midnight: constructor and accessor are inverse on the accepted set -/

theorem nsfm_round_trip (t : Time) (ht : TValid t) :
    (Time.from_num_seconds_from_midnight_opt t.num_seconds_from_midnight t.nanosecond =
      if TStrict t then some t else none) := by
  obtain ⟨s, f⟩ := t
  simp only [TValid] at ht
  unfold Time.num_seconds_from_midnight Time.nanosecond
  rw [nsfm_iff']
  dsimp only
  by_cases c : TStrict ⟨s, f⟩
  · have c' := c
    simp only [TStrict, TValid] at c'
    rw [if_pos c, if_pos (by omega)]
  · have c' := c
    simp only [TStrict, TValid] at c'
    rw [if_neg c, if_neg (by omega)]

theorem nsfm_accepts_strict (secs nano : Int) (h0 : 0 ≤ secs) (n0 : 0 ≤ nano) (r : Time)
    (h : Time.from_num_seconds_from_midnight_opt secs nano = some r) :
    TStrict r ∧ r.num_seconds_from_midnight = secs ∧ r.nanosecond = nano := by
  rw [nsfm_iff'] at h
  by_cases c : secs < 86400 ∧ (nano < 1000000000 ∨ (secs % 60 = 59 ∧ nano < 2000000000))
  · rw [if_pos c] at h
    rw [← Option.some.inj h]
    unfold TStrict TValid Time.num_seconds_from_midnight Time.nanosecond
    dsimp only
    omega
  · rw [if_neg c] at h; cases h

/-- `NaiveTime::MIN` is the least valid time in the derived order; `NaiveTime::MAX` (23:59:59.999999999)
is the greatest one that is not the leap second 23:59:60.x -/
theorem min_max_order (t : Time) (ht : TValid t) :
    Time.cmp Time.MIN t ≤ 0 ∧
    (Time.cmp t Time.MAX ≤ 0 ↔ ¬ (t.secs = 86399 ∧ t.frac ≥ 1000000000)) := by
  obtain ⟨s, f⟩ := t
  simp only [TValid] at ht
  unfold Time.cmp Time.MIN Time.MAX
  dsimp only
  constructor
  · (repeat' split) <;> omega
  · (repeat' split) <;> omega

end Chrono.Proofs.TimeGaps
