/-
  C12, round 3: the item formatter on ANY date the formatter can be handed — the dates of the range
  AND the two headroom dates `Date.BEFORE_MIN` (-262144-12-31) / `Date.AFTER_MAX` (+262143-01-01) that
  `DateTime::overflowing_naive_local` returns for a value within |offset| of the range ends.
  `DateOk d Y o` collects what the proofs of Proofs/StrftimeDocL.lean use about the date; it holds for
  `dateOfYo y o` (C01) and, by kernel evaluation of the date-only items plus the generic `%s` / `%+`
  arguments, for the two headroom dates with (Y, o) = (MIN_YEAR − 1, 366) / (MAX_YEAR + 1, 1).
  Namespace `Chrono.Proofs.StrftimeHeadroom`.
-/
import Chrono.Proofs.StrftimeDocL
namespace Chrono.Proofs.StrftimeHeadroom
open Chrono Chrono.M Chrono.M.Format Chrono.M.Strftime Chrono.Spec Chrono.Spec.Strftime Chrono.Spec.StrftimeDoc
open Chrono.Extracted Chrono.Proofs Chrono.Proofs.StrftimeDoc

/-- the numeric items that read only the date -/
def dateNumerics : List Numeric :=
  [.year, .yearDiv100, .yearMod100, .isoYear, .isoYearDiv100, .isoYearMod100, .quarter, .month, .day,
   .weekFromSun, .weekFromMon, .isoWeek, .numDaysFromSun, .weekdayFromMon, .ordinal]
/-- the fixed items that read only the date -/
def dateNames : List Fixed := [.shortMonthName, .longMonthName, .shortWeekdayName, .longWeekdayName]

/-- the date `d` is shown as the `o`-th day of year `Y` by every date item; its day number is the
calendar's (for `%s`), month and day answer (for `%+`) -/
structure DateOk (d : Date) (Y : Int) (o : Nat) : Prop where
  num : ∀ n ∈ dateNumerics, ∀ (pad : Pad) (t : Option Time) (off : Option Int) (tt : Time) (oo : Int),
    format_numeric (some d) t off n pad = wok (renderNumeric n pad Y o tt oo)
  names : ∀ f ∈ dateNames, ∀ (t : Option Time) (off : Option (List Nat × Int)) (tt : Time) (oo : Int),
    some (format_fixed (some d) t off f) = (renderFixed f Y o tt oo).map wok
  ndays : d.num_days_from_ce = .ok (dayNumYo Y o)
  bound : -100000000 ≤ dayNumYo Y o ∧ dayNumYo Y o ≤ 100000000
  md : ∃ m dd, d.month = .ok m ∧ d.day = .ok dd ∧ m < 100 ∧ dd < 100

/-- every date of the range -/
theorem dateOk_range (y : Int) (o : Nat) (hy : MIN_YEAR ≤ y ∧ y ≤ MAX_YEAR) (ho : 1 ≤ o ∧ o ≤ yearLen y) :
    DateOk (dateOfYo y o) y o := by
  obtain ⟨_, _, _, hm, hd, hv, _, hnd, _⟩ := Props.C01.accessors_ok y o hy ho
  have hb := Proofs.valid_bounds y _ _ hv
  have hyl := Proofs.yearLen_ge y
  have hdb := FormatL.dayNum_bound y o hy (by omega)
  refine ⟨?_, ?_, hnd, by omega, ⟨_, _, hm, hd, by omega, by omega⟩⟩
  · intro n hn pad t off tt oo
    simp only [dateNumerics, List.mem_cons, List.mem_nil_iff, or_false] at hn
    rcases hn with rfl | rfl | rfl | rfl | rfl | rfl | rfl | rfl | rfl | rfl | rfl | rfl | rfl | rfl | rfl
    case inr.inr.inr.inl | inr.inr.inr.inr.inl | inr.inr.inr.inr.inr.inl | inr.inr.inr.inr.inr.inr.inr.inr.inr.inr.inr.inl =>
      exact FormatIsoL.numeric_iso y o hy ho _ _ tt oo pad _ (by decide)
    case inr.inr.inr.inr.inr.inr.inr.inr.inr.inl | inr.inr.inr.inr.inr.inr.inr.inr.inr.inr.inl =>
      exact FormatL.numeric_weeks y o hy ho _ _ tt oo pad _ (by decide)
    all_goals exact FormatL.numeric_calendar y o hy ho _ _ tt oo pad _ (by decide)
  · intro f hf t off tt oo
    exact FormatL.fixed_names y o hy ho t off tt oo f hf

/-! ### the two headroom dates, by kernel evaluation -/

theorem fn_indep (d : Date) (n : Numeric) (hn : n ∈ dateNumerics) (pad : Pad) (t : Option Time) (off : Option Int) :
    format_numeric (some d) t off n pad = format_numeric (some d) none none n pad := by
  cases n <;> first | (cases t <;> rfl) | (exfalso; revert hn; decide)

theorem rn_indep (n : Numeric) (hn : n ∈ dateNumerics) (pad : Pad) (Y : Int) (o : Nat) (tt : Time) (oo : Int) :
    renderNumeric n pad Y o tt oo = renderNumeric n pad Y o ⟨0, 0⟩ 0 := by
  cases n <;> first | rfl | (exfalso; revert hn; decide)

theorem ff_indep (d : Date) (f : Fixed) (hf : f ∈ dateNames) (t : Option Time) (off : Option (List Nat × Int)) :
    format_fixed (some d) t off f = format_fixed (some d) none none f := by
  cases f <;> first | (cases t <;> cases off <;> rfl) | (exfalso; revert hf; decide)

theorem rf_indep (f : Fixed) (hf : f ∈ dateNames) (Y : Int) (o : Nat) (tt : Time) (oo : Int) :
    renderFixed f Y o tt oo = renderFixed f Y o ⟨0, 0⟩ 0 := by
  cases f <;> first | rfl | (exfalso; revert hf; decide)

theorem head_eval :
    (∀ n ∈ dateNumerics, ∀ pad ∈ [Pad.none, Pad.zero, Pad.space],
      format_numeric (some Date.BEFORE_MIN) none none n pad = wok (renderNumeric n pad (MIN_YEAR - 1) 366 ⟨0, 0⟩ 0) ∧
      format_numeric (some Date.AFTER_MAX) none none n pad = wok (renderNumeric n pad (MAX_YEAR + 1) 1 ⟨0, 0⟩ 0)) ∧
    (∀ f ∈ dateNames,
      some (format_fixed (some Date.BEFORE_MIN) none none f) = (renderFixed f (MIN_YEAR - 1) 366 ⟨0, 0⟩ 0).map wok ∧
      some (format_fixed (some Date.AFTER_MAX) none none f) = (renderFixed f (MAX_YEAR + 1) 1 ⟨0, 0⟩ 0).map wok) ∧
    Date.BEFORE_MIN.num_days_from_ce = .ok (dayNumYo (MIN_YEAR - 1) (366 : Nat)) ∧
    Date.AFTER_MAX.num_days_from_ce = .ok (dayNumYo (MAX_YEAR + 1) (1 : Nat)) ∧
    dayNumYo (MIN_YEAR - 1) (366 : Nat) = -95746130 ∧ dayNumYo (MAX_YEAR + 1) (1 : Nat) = 95745400 ∧
    Date.BEFORE_MIN.month = .ok 12 ∧ Date.BEFORE_MIN.day = .ok 31 ∧
    Date.AFTER_MAX.month = .ok 1 ∧ Date.AFTER_MAX.day = .ok 1 := by
  decide +kernel

theorem dateOk_before_min : DateOk Date.BEFORE_MIN (MIN_YEAR - 1) 366 := by
  obtain ⟨h1, h2, h3, _, h5, _, h7, h8, _, _⟩ := head_eval
  refine ⟨?_, ?_, h3, by rw [h5]; omega, ⟨12, 31, h7, h8, by omega, by omega⟩⟩
  · intro n hn pad t off tt oo
    rw [fn_indep _ n hn, rn_indep n hn, (h1 n hn pad (FormatL.pad_mem pad)).1]
  · intro f hf t off tt oo
    rw [ff_indep _ f hf, rf_indep f hf, (h2 f hf).1]

theorem dateOk_after_max : DateOk Date.AFTER_MAX (MAX_YEAR + 1) 1 := by
  obtain ⟨h1, h2, _, h4, _, h6, _, _, h9, h10⟩ := head_eval
  refine ⟨?_, ?_, h4, by rw [h6]; omega, ⟨1, 1, h9, h10, by omega, by omega⟩⟩
  · intro n hn pad t off tt oo
    rw [fn_indep _ n hn, rn_indep n hn, (h1 n hn pad (FormatL.pad_mem pad)).2]
  · intro f hf t off tt oo
    rw [ff_indep _ f hf, rf_indep f hf, (h2 f hf).2]

/-! ### the item formatter on a `DateOk` date (zone-aware value: all three views) -/

/-- `%s` -/
theorem timestamp_ok (d : Date) (Y : Int) (o : Nat) (hd : DateOk d Y o) (t : Time) (ht : TValid t) (off : Int)
    (hoff : -86400 < off ∧ off < 86400) (pad : Pad) :
    format_numeric (some d) (some t) (some off) .timestamp pad = wok (renderNumeric .timestamp pad Y o t off) := by
  obtain ⟨h1, h2, h3, h4⟩ := ht
  have hnd := hd.ndays
  have hb := hd.bound
  have hU : UNIX_EPOCH_DAY = 719163 := rfl
  have hE : dayNum 1970 1 1 = 719163 := by decide
  simp only [format_numeric, renderNumeric, numericValue, numericWidth, Strftime.timestamp, NaiveDT.timestamp, hnd,
    Res.bind, W.ofRes, Time.num_seconds_from_midnight, hU, hE, Option.getD_some]
  rw [Proofs.ckI64_ok (by omega) (by omega)]
  simp only []
  rw [Proofs.ckI64_ok (by omega) (by omega)]
  simp only []
  rw [Proofs.ckI64_ok (by omega) (by omega)]
  simp only []
  rw [Proofs.ckI64_ok (by omega) (by omega)]
  simp only [write_n, FormatL.number_eq]; rfl

/-- `%+` as text -/
theorem rfc3339_text (d : Date) (Y : Int) (o : Nat) (hd : DateOk d Y o) (t : Time) (ht : TValid t) (name : List Nat)
    (off : Int) (hoff : -86400 < off ∧ off < 86400) :
    format_fixed (some d) (some t) (some (name, off)) .rfc3339 = wok (rfc3339Text Y o t off) := by
  obtain ⟨m, dd, hm, hdd, hm', hd'⟩ := hd.md
  have h := FormatRfc.rfc3339_expansion d t name off m dd hm hdd hm' hd' ht
  rw [single] at h
  simp only [format_item] at h
  rw [h]
  simp only [FormatRfc.rfc3339Expansion, formatItemsR, format_item, FormatRfc.seq_nil]
  rw [hd.num .year (by decide) .zero _ _ t off, hd.num .month (by decide) .zero _ _ t off,
    hd.num .day (by decide) .zero _ _ t off,
    FormatL.numeric_clock t ht _ _ Y o off .zero .hour (by decide),
    FormatL.numeric_clock t ht _ _ Y o off .zero .minute (by decide),
    FormatL.numeric_clock t ht _ _ Y o off .zero .second (by decide),
    of_some_map (FormatL.fixed_clock t ht _ _ Y o off .nanosecond (by decide)) rfl,
    of_some_map (FormatL.offset_ok off hoff _ _ name Y o t .timezoneOffsetColon (by decide)) rfl]
  simp only [renderFixed, toW, W.seq, wok, rfc3339Text, List.append_assoc]

/-- every item except the RFC 2822 one -/
theorem item_full (d : Date) (Y : Int) (o : Nat) (hd : DateOk d Y o) (t : Time) (ht : TValid t) (off : Int)
    (hoff : -86400 < off ∧ off < 86400) (it : Item) (hf : it ≠ .fixed .rfc2822) :
    format_item (some d) (some t) (some (fixedOffsetName off, off)) it = toW (renderItem it Y o t off) := by
  cases it with
  | literal s => rfl
  | space s => rfl
  | error => rfl
  | numeric n pad =>
    simp only [format_item, Option.map_some]
    cases n
    case timestamp => rw [timestamp_ok d Y o hd t ht off hoff pad]; rfl
    case hour | hour12 | minute | second | nanosecond =>
      rw [FormatL.numeric_clock t ht _ _ Y o off pad _ (by decide)]; rfl
    all_goals (rw [hd.num _ (by decide) pad _ _ t off]; rfl)
  | fixed f =>
    simp only [format_item]
    cases f
    case rfc2822 => exact absurd rfl hf
    case rfc3339 => rw [rfc3339_text d Y o hd t ht _ off hoff]; rfl
    case timezoneOffsetPermissive => rfl
    case timezoneName =>
      rw [show format_fixed (some d) (some t) (some (fixedOffsetName off, off)) .timezoneName = wok (fixedOffsetName off)
        from rfl, zone_name_eq off hoff]
      rfl
    case shortMonthName | longMonthName | shortWeekdayName | longWeekdayName =>
      rw [of_some_map (hd.names _ (by decide) _ _ t off) rfl]; rfl
    case timezoneOffset | timezoneOffsetColon | timezoneOffsetDoubleColon | timezoneOffsetTripleColon
        | timezoneOffsetZ | timezoneOffsetColonZ =>
      rw [of_some_map (FormatL.offset_ok off hoff _ _ _ Y o t _ (by decide)) rfl]; rfl
    all_goals (rw [of_some_map (FormatL.fixed_clock t ht _ _ Y o off _ (by decide)) rfl]; rfl)

/-- a whole item list on a zone-aware value -/
theorem items_full (d : Date) (Y : Int) (o : Nat) (hd : DateOk d Y o) (t : Time) (ht : TValid t) (off : Int)
    (hoff : -86400 < off ∧ off < 86400) (is : List Item) (hf : Item.fixed .rfc2822 ∉ is) :
    formatItemsR (some d) (some t) (some (fixedOffsetName off, off)) is = toW (renderItemsOn zonedViews is Y o t off) := by
  induction is with
  | nil => rfl
  | cons it rest ih =>
    rw [formatItemsR, item_full d Y o hd t ht off hoff it (fun h => hf (by simp [h])),
      ih (fun h => hf (List.mem_cons_of_mem _ h)), renderItemsOn, show zonedViews = ⟨true, true, true⟩ from rfl,
      renderItemOn_full]
    cases renderItem it Y o t off <;> cases renderItemsOn ⟨true, true, true⟩ rest Y o t off <;> rfl

/-! ### a zone with a name of its own (`Utc`) -/

/-- only `%Z` looks at the name -/
theorem name_indep (d : Option Date) (t : Option Time) (n1 n2 : List Nat) (off : Int) (it : Item)
    (h : it ≠ .fixed .timezoneName) :
    format_item d t (some (n1, off)) it = format_item d t (some (n2, off)) it := by
  cases it with
  | literal s => rfl
  | space s => rfl
  | error => rfl
  | numeric n pad => rfl
  | fixed f => cases f <;> first | exact absurd rfl h | (cases d <;> cases t <;> rfl)

theorem item_named (d : Date) (Y : Int) (o : Nat) (hd : DateOk d Y o) (t : Time) (ht : TValid t) (off : Int)
    (hoff : -86400 < off ∧ off < 86400) (name : List Nat) (it : Item) (hf : it ≠ .fixed .rfc2822) :
    format_item (some d) (some t) (some (name, off)) it = toW (renderItemNamed name it Y o t off) := by
  by_cases hz : it = .fixed .timezoneName
  · subst hz; rfl
  · rw [name_indep _ _ name (fixedOffsetName off) off it hz, item_full d Y o hd t ht off hoff it hf]
    cases it with
    | fixed f => cases f <;> first | rfl | exact absurd rfl hz
    | _ => rfl

theorem items_named (d : Date) (Y : Int) (o : Nat) (hd : DateOk d Y o) (t : Time) (ht : TValid t) (off : Int)
    (hoff : -86400 < off ∧ off < 86400) (name : List Nat) (is : List Item) (hf : Item.fixed .rfc2822 ∉ is) :
    formatItemsR (some d) (some t) (some (name, off)) is = toW (renderItemsNamed name is Y o t off) := by
  induction is with
  | nil => rfl
  | cons it rest ih =>
    rw [formatItemsR, item_named d Y o hd t ht off hoff name it (fun h => hf (by simp [h])),
      ih (fun h => hf (List.mem_cons_of_mem _ h)), renderItemsNamed]
    cases renderItemNamed name it Y o t off <;> cases renderItemsNamed name rest Y o t off <;> rfl

/-- the wall clock of a `DateTime<Utc>` is its UTC reading -/
theorem utc_wall (d : Date) (t : Time) (ht : TValid t) : Zoned.overflowing_naive_local ⟨⟨d, t⟩, 0⟩ = .ok ⟨d, t⟩ := by
  obtain ⟨h1, h2, _, _⟩ := ht
  unfold Zoned.overflowing_naive_local NaiveDT.overflowing_add_offset Time.overflowing_add_offset
  dsimp only
  have e1 : asI32 t.secs = t.secs := by unfold asI32; simp only []; split <;> omega
  rw [e1, Int.add_zero, Proofs.ckI32_ok (by omega) (by omega)]
  have e2 : t.secs % 86400 = t.secs := by omega
  have e3 : t.secs / 86400 = 0 := by omega
  have e4 : asU32 t.secs = t.secs := by unfold asU32; omega
  simp only [Res.bind, e2, e3, e4]
  rfl

end Chrono.Proofs.StrftimeHeadroom
