/-
  C15: the serde entry points return normally.  The sixteen timestamp modules on every valid value
  (leap-second representations and the nanosecond modules outside the `i64` window included: an error by
  value, never a panic) and on everything a data format can hand to their visitors; the four string
  visitors on every text.  Namespace `Chrono.Proofs.C15Serde`.
-/
import Chrono.Proofs.C15TotalL
import Chrono.Props.C20

namespace Chrono.Proofs.C15Serde
open Chrono Chrono.M Chrono.M.Serde Chrono.Spec Chrono.Spec.Ts Chrono.Spec.Serde Chrono.Proofs Chrono.Proofs.Ts
open Chrono.Proofs.C15Total

theorem bind_total {α β} {x : Res α} {a : α} (f : α → Res β) (hx : x = .ok a) (hf : ∀ a, ∃ r, f a = .ok r) :
    ∃ r, x.bind f = .ok r := by
  subst hx; exact hf a

/-- `timestamp_nanos_opt` never panics, on any valid value, leap-second representations included (the
count is formed in 128 bits and range-checked: absence by value) -/
theorem nanos_opt_total (dt : NaiveDT) (h : NDTInv dt) : ∃ r, NaiveDT.timestamp_nanos_opt dt = .ok r := by
  have hts := timestamp_spec dt h
  unfold NaiveDT.timestamp_nanos_opt
  rw [hts]
  exact ⟨_, rfl⟩

/-- what a data format can hand to an integer visitor: an `i64`, a `u64`, or something else -/
def WIntOk : WInt → Prop
  | .i64 v => isI64 v
  | .u64 v => isU64 v
  | .other => True
def WOptOk : WOpt → Prop
  | .some w => WIntOk w
  | _ => True

theorem ts_serialize_total (tg : Target) (u : TsUnit) (dt : NaiveDT) (h : NDTInv dt) :
    (∃ r, serialize tg u dt = .ok r) ∧ (∃ r, serialize_option tg u (some dt) = .ok r) ∧
    (∃ r, serialize_option tg u none = .ok r) := by
  have a1 := timestamp_spec dt h
  have a2 := timestamp_millis_spec dt h
  have a3 := timestamp_micros_spec dt h
  obtain ⟨o, a4⟩ := nanos_opt_total dt h
  have n1 : ∀ (k : Int → SOut), ∃ r, (match ok_or o with
      | .ok n => Res.ok (SR.ok (k n)) | .err => Res.ok SR.err) = .ok r := by
    intro k; cases o <;> exact ⟨_, rfl⟩
  refine ⟨?_, ?_, ?_⟩
  · cases tg <;> cases u
    · exact bind_total _ a1 (fun _ => ⟨_, rfl⟩)
    · exact bind_total _ a2 (fun _ => ⟨_, rfl⟩)
    · exact bind_total _ a3 (fun _ => ⟨_, rfl⟩)
    · show ∃ r, (NaiveDT.timestamp_nanos_opt dt).bind _ = .ok r
      rw [a4]; exact n1 .i64
    · exact bind_total _ a1 (fun _ => ⟨_, rfl⟩)
    · exact bind_total _ a2 (fun _ => ⟨_, rfl⟩)
    · exact bind_total _ a3 (fun _ => ⟨_, rfl⟩)
    · show ∃ r, (NaiveDT.timestamp_nanos_opt dt).bind _ = .ok r
      rw [a4]; exact n1 .i64
  · cases tg <;> cases u
    · exact bind_total _ a1 (fun _ => ⟨_, rfl⟩)
    · exact bind_total _ a2 (fun _ => ⟨_, rfl⟩)
    · exact bind_total _ a3 (fun _ => ⟨_, rfl⟩)
    · show ∃ r, (NaiveDT.timestamp_nanos_opt dt).bind _ = .ok r
      rw [a4]; exact n1 .some
    · exact bind_total _ a1 (fun _ => ⟨_, rfl⟩)
    · exact bind_total _ a2 (fun _ => ⟨_, rfl⟩)
    · exact bind_total _ a3 (fun _ => ⟨_, rfl⟩)
    · show ∃ r, (NaiveDT.timestamp_nanos_opt dt).bind _ = .ok r
      rw [a4]; exact n1 .some
  · cases tg <;> cases u <;> exact ⟨_, rfl⟩

theorem ts_deserialize_total (tg : Target) (u : TsUnit) (w : WInt) (hw : WIntOk w) :
    ∃ r, deserialize tg u w = .ok r ∧ ∀ dt, r = .ok dt → NDTInv dt := by
  obtain ⟨h1, h2, h3⟩ := Chrono.Props.C20.ts_rejects tg u (match w with | .i64 v => v | .u64 v => v | .other => 0)
  cases w with
  | i64 v => obtain ⟨r, hr, _, hv⟩ := h1 hw; exact ⟨r, hr, fun dt hd => (hv dt hd).1⟩
  | u64 v => obtain ⟨r, hr, _, hv⟩ := h2 hw; exact ⟨r, hr, fun dt hd => (hv dt hd).1⟩
  | other => exact ⟨_, h3, fun dt hd => by cases hd⟩

theorem ts_deserialize_option_total (tg : Target) (u : TsUnit) (w : WOpt) (hw : WOptOk w) :
    ∃ r, deserialize_option tg u w = .ok r ∧ ∀ dt, r = .ok (some dt) → NDTInv dt := by
  obtain ⟨h1, h2, h3, h4⟩ := Chrono.Props.C20.ts_option_reads tg u
  cases w with
  | none => exact ⟨_, h2, fun dt hd => by cases hd⟩
  | unit => exact ⟨_, h3, fun dt hd => by cases hd⟩
  | other => exact ⟨_, h4, fun dt hd => by cases hd⟩
  | some x =>
    obtain ⟨r, hr, hv⟩ := ts_deserialize_total tg u x hw
    rw [h1 x, hr]
    refine ⟨_, rfl, ?_⟩
    intro dt hd
    cases r with
    | err => cases hd
    | ok a =>
      have : a = dt := by
        simp only [SR.map] at hd
        injection hd with hd; injection hd
      exact hv dt (by rw [this])

/-! ### the string visitors -/

theorem visitOf_total {α} (x : Parsed.RP α) (P : α → Prop) (h : ∃ r, x = .ok r ∧ ∀ a, r = .ok a → P a) :
    ∃ r, visitOf x = .ok r ∧ ∀ a, r = .ok a → P a := by
  obtain ⟨r, rfl, hv⟩ := h
  cases r with
  | error e => exact ⟨_, rfl, fun a ha => by cases ha⟩
  | ok a => exact ⟨_, rfl, fun b hb => by injection hb with hb; subst hb; exact hv a rfl⟩

theorem visit_str_total (s : List Nat) :
    (∃ r, NaiveDateStr.visit_str s = .ok r ∧ ∀ d, r = .ok d → DateInv d) ∧
    (∃ r, NaiveTimeStr.visit_str s = .ok r ∧ ∀ t, r = .ok t → TValid t) ∧
    (∃ r, NaiveDateTimeStr.visit_str s = .ok r ∧ ∀ dt, r = .ok dt → NDTInv dt) ∧
    (∃ r, DateTimeStr.deserialize_fixed s = .ok r ∧ ∀ z, r = .ok z → ZInv z) ∧
    (∃ r, DateTimeStr.deserialize_utc s = .ok r ∧ ∀ z, r = .ok z → ZInv z ∧ z.off = 0) := by
  have hfix := visitOf_total _ ZInv (fixed_from_str_total s)
  refine ⟨visitOf_total _ _ (date_from_str_total s), ?_, visitOf_total _ _ (naive_from_str_total s), hfix, ?_⟩
  · refine visitOf_total _ _ ⟨_, rfl, ?_⟩
    intro t ht; exact time_from_str_valid s t ht
  · obtain ⟨r, hr, hv⟩ := hfix
    unfold DateTimeStr.deserialize_utc DateTimeStr.visit_str
    rw [hr]
    refine ⟨_, rfl, ?_⟩
    intro z hz
    cases r with
    | err => cases hz
    | ok a =>
      simp only [SR.map] at hz
      injection hz with hz; subst hz
      have := hv a rfl
      exact ⟨⟨this.1, by unfold OffValid Zoned.with_timezone; dsimp only; omega⟩, rfl⟩

end Chrono.Proofs.C15Serde
