/-
  Helper lemmas for the `gen_*_eq` theorems (Props/GenDate, GenDelta, GenWeekday): the machine-integer
  primitives as conditionals `omega` can read, and the arithmetic reading of bitwise OR on disjoint fields.
-/
import Chrono.Extracted.Gen
import Chrono.Model.Date
import Chrono.Model.Delta
import Chrono.Proofs.PrimL

namespace Chrono.Proofs.GenL
open Chrono Chrono.M Chrono.Extracted

/-! ### checks as conditionals on propositions -/
theorem ckI32_def (x : Int) :
    ckI32 x = if -2147483648 ≤ x ∧ x ≤ 2147483647 then .ok x else .panic := by
  unfold ckI32 inI32 I32_MIN I32_MAX
  by_cases h1 : (-2147483648 : Int) ≤ x <;> by_cases h2 : x ≤ 2147483647 <;> simp [h1, h2]
theorem ckI64_def (x : Int) :
    ckI64 x = if -9223372036854775808 ≤ x ∧ x ≤ 9223372036854775807 then .ok x else .panic := by
  unfold ckI64 inI64 I64_MIN I64_MAX
  by_cases h1 : (-9223372036854775808 : Int) ≤ x <;> by_cases h2 : x ≤ 9223372036854775807 <;> simp [h1, h2]
theorem ckU32_def (x : Int) : ckU32 x = if 0 ≤ x ∧ x ≤ 4294967295 then .ok x else .panic := by
  unfold ckU32 inU32 U32_MAX
  by_cases h1 : (0 : Int) ≤ x <;> by_cases h2 : x ≤ 4294967295 <;> simp [h1, h2]
theorem ckI128_def (x : Int) :
    GenRt.ckI128 x = if -170141183460469231731687303715884105728 ≤ x ∧ x ≤ 170141183460469231731687303715884105727
      then .ok x else .panic := by
  unfold GenRt.ckI128 inI128 I128_MIN I128_MAX
  by_cases h1 : (-170141183460469231731687303715884105728 : Int) ≤ x <;> by_cases h2 : x ≤ 170141183460469231731687303715884105727 <;> simp [h1, h2]
theorem optI32_def (x : Int) :
    optI32 x = if -2147483648 ≤ x ∧ x ≤ 2147483647 then some x else none := by
  unfold optI32 inI32 I32_MIN I32_MAX
  by_cases h1 : (-2147483648 : Int) ≤ x <;> by_cases h2 : x ≤ 2147483647 <;> simp [h1, h2]
theorem optI64_def (x : Int) :
    optI64 x = if -9223372036854775808 ≤ x ∧ x ≤ 9223372036854775807 then some x else none := by
  unfold optI64 inI64 I64_MIN I64_MAX
  by_cases h1 : (-9223372036854775808 : Int) ≤ x <;> by_cases h2 : x ≤ 9223372036854775807 <;> simp [h1, h2]

theorem ckI32_ok {x : Int} (h : -2147483648 ≤ x ∧ x ≤ 2147483647) : ckI32 x = .ok x := by
  rw [ckI32_def, if_pos h]
theorem ckI64_ok {x : Int} (h : -9223372036854775808 ≤ x ∧ x ≤ 9223372036854775807) : ckI64 x = .ok x := by
  rw [ckI64_def, if_pos h]
theorem ckU32_ok {x : Int} (h : 0 ≤ x ∧ x ≤ 4294967295) : ckU32 x = .ok x := by
  rw [ckU32_def, if_pos h]
theorem ckI128_ok {x : Int}
    (h : -170141183460469231731687303715884105728 ≤ x ∧ x ≤ 170141183460469231731687303715884105727) :
    GenRt.ckI128 x = .ok x := by
  rw [ckI128_def, if_pos h]

@[simp] theorem bind_ok {α β} (a : α) (f : α → Res β) : Res.bind (.ok a) f = f a := rfl
@[simp] theorem bind_panic {α β} (f : α → Res β) : Res.bind (.panic : Res α) f = .panic := rfl

theorem edivCk_ok {lo hi a b : Int} (hb : b ≠ 0) (h : lo ≤ a / b ∧ a / b ≤ hi) :
    GenRt.edivCk lo hi a b = .ok (a / b) := by
  simp only [GenRt.edivCk, if_neg hb, h.1, h.2, decide_true, Bool.and_self, if_true]
theorem emodCk_ok {lo a b : Int} (hb : b ≠ 0) (h : ¬ (a = lo ∧ b = -1)) :
    GenRt.emodCk lo a b = .ok (a % b) := by
  simp only [GenRt.emodCk, if_neg hb, if_neg h]
theorem tdivCk_ok {lo hi a b : Int} (hb : b ≠ 0) (h : lo ≤ Int.tdiv a b ∧ Int.tdiv a b ≤ hi) :
    GenRt.tdivCk lo hi a b = .ok (Int.tdiv a b) := by
  simp only [GenRt.tdivCk, if_neg hb, h.1, h.2, decide_true, Bool.and_self, if_true]
theorem tmodCk_ok {lo a b : Int} (hb : b ≠ 0) (h : ¬ (a = lo ∧ b = -1)) :
    GenRt.tmodCk lo a b = .ok (Int.tmod a b) := by
  simp only [GenRt.tmodCk, if_neg hb, if_neg h]

theorem idxN_ok {tbl : List Nat} {i : Int} (h : 0 ≤ i ∧ i < tbl.length) :
    GenRt.idxN tbl i = .ok (Int.ofNat (tbl.getD i.toNat 0)) := by
  simp only [GenRt.idxN, if_pos h]

/-- the generated `TimeDelta` structure and the model's `Delta` have the same two fields -/
abbrev dG (d : Delta) : Gen.time_delta.TimeDelta := ⟨d.secs, d.nanos⟩
/-- result of a `Res`-valued model function, mapped into the generated representation -/
abbrev rmap {α β} (f : α → β) (r : Res α) : Res β := Res.bind r fun x => .ok (f x)

theorem asU32_range (x : Int) : 0 ≤ asU32 x ∧ asU32 x ≤ 4294967295 := by unfold asU32; omega

/- the extracted constants of the Delta model as equations for `omega` (they stay folded in the goal, so
that `Decidable` instances inside `if`s keep matching) -/
set_option hygiene false in
macro "gdfacts" : tactic => `(tactic|
  (have hNPS : Chrono.Extracted.NANOS_PER_SEC = 1000000000 := rfl
   have hNPM : Chrono.Extracted.NANOS_PER_MILLI = 1000000 := rfl
   have hNPU : Chrono.Extracted.NANOS_PER_MICRO = 1000 := rfl
   have hMPS : Chrono.Extracted.MILLIS_PER_SEC = 1000 := rfl
   have hUPS : Chrono.Extracted.MICROS_PER_SEC = 1000000 := rfl
   have hSPM : Chrono.Extracted.SECS_PER_MINUTE = 60 := rfl
   have hSPH : Chrono.Extracted.SECS_PER_HOUR = 3600 := rfl
   have hSPD : Chrono.Extracted.SECS_PER_DAY = 86400 := rfl
   have hSPW : Chrono.Extracted.SECS_PER_WEEK = 604800 := rfl
   have hI64MAX : Chrono.I64_MAX = 9223372036854775807 := rfl
   have hI64MIN : Chrono.I64_MIN = -9223372036854775808 := rfl
   have hI32MAX : Chrono.I32_MAX = 2147483647 := rfl
   have hI32MIN : Chrono.I32_MIN = -2147483648 := rfl
   have hMAXs : Chrono.M.Delta.MAX.secs = 9223372036854775 := rfl
   have hMAXn : Chrono.M.Delta.MAX.nanos = 807000000 := rfl
   have hMINs : Chrono.M.Delta.MIN.secs = -9223372036854776 := rfl
   have hMINn : Chrono.M.Delta.MIN.nanos = 193000000 := rfl))

/-- case analysis over every machine check and every branch of both sides -/
macro "gen_split" : tactic => `(tactic| (
  simp only [Chrono.Proofs.GenL.ckI32_def, Chrono.Proofs.GenL.ckI64_def, Chrono.Proofs.GenL.ckU32_def,
    Chrono.Proofs.GenL.ckI128_def, Chrono.Proofs.GenL.optI32_def, Chrono.Proofs.GenL.optI64_def]
  repeat' (first | split | (simp only [Chrono.Proofs.GenL.bind_ok, Chrono.Proofs.GenL.bind_panic,
    Chrono.Res.bind_ok, Chrono.Res.bind_panic, Chrono.Res.pure_eq]))))

/-! ### bitwise OR of disjoint fields is addition -/
/-- OR with a value that fits in a field (bits lo … lo+w-1) which is clear in the other operand is addition -/
theorem nat_lor_field (A B lo w P Q : Nat) (hP : P = 2 ^ lo) (hQ : Q = 2 ^ w)
    (hA : A / P % Q = 0) (hB0 : B % P = 0) (hB1 : B < P * Q) : A ||| B = A + B := by
  subst hP; subst hQ
  have hn : 2 ^ lo * 2 ^ w = 2 ^ (lo + w) := (Nat.pow_add 2 lo w).symm
  -- split at bit lo + w
  have hdiv : (A ||| B) / 2 ^ (lo + w) = A / 2 ^ (lo + w) := by
    have hb : B / 2 ^ (lo + w) = 0 := Nat.div_eq_of_lt (by rw [← hn]; exact hB1)
    rw [Nat.or_div_two_pow, hb, Nat.or_zero]
  have hAmod : A % 2 ^ (lo + w) = A % 2 ^ lo := by
    rw [← hn, Nat.mod_mul, hA, Nat.mul_zero, Nat.add_zero]
  have hBmod : B % 2 ^ (lo + w) = B := Nat.mod_eq_of_lt (by rw [← hn]; exact hB1)
  have hmod : (A ||| B) % 2 ^ (lo + w) = A % 2 ^ lo + B := by
    rw [Nat.or_mod_two_pow, hAmod, hBmod, Nat.or_comm]
    have hB : B = 2 ^ lo * (B / 2 ^ lo) := (Nat.mul_div_cancel' (Nat.dvd_of_mod_eq_zero hB0)).symm
    have := Nat.two_pow_add_eq_or_of_lt (Nat.mod_lt A (Nat.two_pow_pos lo)) (B / 2 ^ lo)
    rw [← hB] at this
    rw [← this, Nat.add_comm]
  have e1 := Nat.div_add_mod (A ||| B) (2 ^ (lo + w))
  have e2 := Nat.div_add_mod A (2 ^ (lo + w))
  rw [hdiv, hmod] at e1
  rw [hAmod] at e2
  omega

/-- `u32`: `b` lies in bits 0…3, which are clear in `a` -/
theorem lorU_field_0_4 (a b : Int) (ha : 0 ≤ a) (hb : 0 ≤ b) (h1 : a / 1 % 16 = 0) (h2 : b % 1 = 0)
    (h3 : b < 16) : GenRt.lorU a b = a + b := by
  unfold GenRt.lorU
  have := nat_lor_field a.toNat b.toNat 0 4 1 16 (by decide) (by decide) (by omega) (by omega) (by omega)
  rw [this]
  show ((a.toNat + b.toNat : Nat) : Int) = a + b
  omega

/-- `u32`: `b` lies in bits 4…8, which are clear in `a` -/
theorem lorU_field_4_5 (a b : Int) (ha : 0 ≤ a) (hb : 0 ≤ b) (h1 : a / 16 % 32 = 0) (h2 : b % 16 = 0)
    (h3 : b < 512) : GenRt.lorU a b = a + b := by
  unfold GenRt.lorU
  have := nat_lor_field a.toNat b.toNat 4 5 16 32 (by decide) (by decide) (by omega) (by omega) (by omega)
  rw [this]
  show ((a.toNat + b.toNat : Nat) : Int) = a + b
  omega

/-- `u32`: `b` lies in bits 9…12, which are clear in `a` -/
theorem lorU_field_9_4 (a b : Int) (ha : 0 ≤ a) (hb : 0 ≤ b) (h1 : a / 512 % 16 = 0) (h2 : b % 512 = 0)
    (h3 : b < 8192) : GenRt.lorU a b = a + b := by
  unfold GenRt.lorU
  have := nat_lor_field a.toNat b.toNat 9 4 512 16 (by decide) (by decide) (by omega) (by omega) (by omega)
  rw [this]
  show ((a.toNat + b.toNat : Nat) : Int) = a + b
  omega

/-- `i32`: `b` lies in bits 0…3, which are clear in `a` -/
theorem lorI_field_0_4 (a b : Int) (ha : -2147483648 ≤ a ∧ a ≤ 2147483647) (hb : 0 ≤ b)
    (h1 : a / 1 % 16 = 0) (h2 : b % 1 = 0) (h3 : b < 16) : GenRt.lorI 32 asI32 a b = a + b := by
  unfold GenRt.lorI
  simp only [Int.reducePow]
  have := nat_lor_field (a % 4294967296).toNat (b % 4294967296).toNat 0 4 1 16 (by decide) (by decide)
    (by omega) (by omega) (by omega)
  rw [this]
  show asI32 (((a % 4294967296).toNat + (b % 4294967296).toNat : Nat) : Int) = a + b
  unfold asI32
  simp only
  split <;> omega

/-- `i32`: `b` lies in bits 4…12, which are clear in `a` -/
theorem lorI_field_4_9 (a b : Int) (ha : -2147483648 ≤ a ∧ a ≤ 2147483647) (hb : 0 ≤ b)
    (h1 : a / 16 % 512 = 0) (h2 : b % 16 = 0) (h3 : b < 8192) : GenRt.lorI 32 asI32 a b = a + b := by
  unfold GenRt.lorI
  simp only [Int.reducePow]
  have := nat_lor_field (a % 4294967296).toNat (b % 4294967296).toNat 4 9 16 512 (by decide) (by decide)
    (by omega) (by omega) (by omega)
  rw [this]
  show asI32 (((a % 4294967296).toNat + (b % 4294967296).toNat : Nat) : Int) = a + b
  unfold asI32
  simp only
  split <;> omega

/-- `i32`: `b` lies in bits 3…12, which are clear in `a` -/
theorem lorI_field_3_10 (a b : Int) (ha : -2147483648 ≤ a ∧ a ≤ 2147483647) (hb : 0 ≤ b)
    (h1 : a / 8 % 1024 = 0) (h2 : b % 8 = 0) (h3 : b < 8192) : GenRt.lorI 32 asI32 a b = a + b := by
  unfold GenRt.lorI
  simp only [Int.reducePow]
  have := nat_lor_field (a % 4294967296).toNat (b % 4294967296).toNat 3 10 8 1024 (by decide) (by decide)
    (by omega) (by omega) (by omega)
  rw [this]
  show asI32 (((a % 4294967296).toNat + (b % 4294967296).toNat : Nat) : Int) = a + b
  unfold asI32
  simp only
  split <;> omega

/-- `i32`: `b` lies in bits 0…12, which are clear in `a` -/
theorem lorI_field_0_13 (a b : Int) (ha : -2147483648 ≤ a ∧ a ≤ 2147483647) (hb : 0 ≤ b)
    (h1 : a / 1 % 8192 = 0) (h2 : b % 1 = 0) (h3 : b < 8192) : GenRt.lorI 32 asI32 a b = a + b := by
  unfold GenRt.lorI
  simp only [Int.reducePow]
  have := nat_lor_field (a % 4294967296).toNat (b % 4294967296).toNat 0 13 1 8192 (by decide) (by decide)
    (by omega) (by omega) (by omega)
  rw [this]
  show asI32 (((a % 4294967296).toNat + (b % 4294967296).toNat : Nat) : Int) = a + b
  unfold asI32
  simp only
  split <;> omega

/-- `i32`: `b` lies in bits 4…9, which are clear in `a` -/
theorem lorI_field_4_6 (a b : Int) (ha : -2147483648 ≤ a ∧ a ≤ 2147483647) (hb : 0 ≤ b)
    (h1 : a / 16 % 64 = 0) (h2 : b % 16 = 0) (h3 : b < 1024) : GenRt.lorI 32 asI32 a b = a + b := by
  unfold GenRt.lorI
  simp only [Int.reducePow]
  have := nat_lor_field (a % 4294967296).toNat (b % 4294967296).toNat 4 6 16 64 (by decide) (by decide)
    (by omega) (by omega) (by omega)
  rw [this]
  show asI32 (((a % 4294967296).toNat + (b % 4294967296).toNat : Nat) : Int) = a + b
  unfold asI32
  simp only
  split <;> omega

theorem lor_small : ∀ p : Nat, p < 2 → ∀ f : Nat, f < 16 → (p * 8 ||| f) = max p (f / 8 % 2) * 8 + f % 8 := by
  decide +kernel

/-- `(mdl << 3) | flags` with a 4-bit `flags`: bit 3 is the OR of the two bit-3s -/
theorem nat_lor_bit3 (m f : Nat) (hf : f < 16) :
    (m * 8 ||| f) = (m / 2) * 16 + max (m % 2) (f / 8 % 2) * 8 + f % 8 := by
  have h1 : m * 8 = (m / 2) * 16 ||| (m % 2) * 8 := by
    rw [nat_lor_field ((m / 2) * 16) ((m % 2) * 8) 0 4 1 16 (by decide) (by decide) (by omega) (by omega) (by omega)]
    omega
  have h2 := lor_small (m % 2) (by omega) f hf
  have h3 : (m % 2) * 8 ||| f < 16 := by rw [h2]; omega
  rw [h1, Nat.or_assoc,
    nat_lor_field ((m / 2) * 16) ((m % 2) * 8 ||| f) 0 4 1 16 (by decide) (by decide) (by omega) (by omega) (by omega),
    h2]
  omega

/-- linear-time table check: every element `v` at index `i` (counted from `k`) satisfies `p i v` -/
def allIdx (p : Nat → Nat → Bool) : List Nat → Nat → Bool
  | [], _ => true
  | v :: t, k => p k v && allIdx p t (k + 1)

theorem allIdx_getD (p : Nat → Nat → Bool) (l : List Nat) (k : Nat) (h : allIdx p l k = true)
    (i : Nat) (hi : i < l.length) : p (k + i) (l.getD i 0) = true := by
  induction l generalizing k i with
  | nil => simp at hi
  | cons v t ih =>
    simp only [allIdx, Bool.and_eq_true] at h
    cases i with
    | zero => simpa using h.1
    | succ j =>
      have := ih (k + 1) h.2 j (by simpa using hi)
      simpa [Nat.add_assoc, Nat.add_comm 1 j] using this

theorem tbl_ol : OL_TO_MDL.length = 733 ∧ ∀ i : Nat, i < 733 → OL_TO_MDL.getD i 0 ≤ 100 := by
  have hl : OL_TO_MDL.length = 733 := by decide +kernel
  have h : allIdx (fun _ v => decide (v ≤ 100)) OL_TO_MDL 0 = true := by decide +kernel
  refine ⟨hl, fun i hi => ?_⟩
  simpa using allIdx_getD _ _ 0 h i (by omega)
theorem tbl_mdl : MDL_TO_OL.length = 832 ∧
    ∀ i : Nat, i < 832 → MDL_TO_OL.getD i 0 ≤ i ∧ MDL_TO_OL.getD i 0 ≤ 100 ∧
      (MDL_TO_OL.getD i 0 = 0 ∨ (2 ≤ i - MDL_TO_OL.getD i 0 ∧ i ≤ MDL_TO_OL.getD i 0 + 732)) ∧
      MDL_TO_OL.getD i 0 % 2 = 0 := by
  have hl : MDL_TO_OL.length = 832 := by decide +kernel
  have h : allIdx (fun i v => decide (v ≤ i ∧ v ≤ 100 ∧ (v = 0 ∨ (2 ≤ i - v ∧ i ≤ v + 732)) ∧ v % 2 = 0)) MDL_TO_OL 0 = true := by
    decide +kernel
  refine ⟨hl, fun i hi => ?_⟩
  simpa using allIdx_getD _ _ 0 h i (by omega)
theorem tbl_y2f : YEAR_TO_FLAGS.length = 400 ∧ ∀ i : Nat, i < 400 → YEAR_TO_FLAGS.getD i 0 < 16 := by
  have hl : YEAR_TO_FLAGS.length = 400 := by decide +kernel
  have h : allIdx (fun _ v => decide (v < 16)) YEAR_TO_FLAGS 0 = true := by decide +kernel
  refine ⟨hl, fun i hi => ?_⟩
  simpa using allIdx_getD _ _ 0 h i (by omega)
theorem tbl_yd : YEAR_DELTAS.length = 401 ∧ YEAR_DELTAS.getD 0 0 = 0 ∧
    ∀ i : Nat, i < 401 → YEAR_DELTAS.getD i 0 ≤ 97 := by
  have hl : YEAR_DELTAS.length = 401 := by decide +kernel
  have h : allIdx (fun _ v => decide (v ≤ 97)) YEAR_DELTAS 0 = true := by decide +kernel
  refine ⟨hl, by decide +kernel, fun i hi => ?_⟩
  simpa using allIdx_getD _ _ 0 h i (by omega)

/-- `u32`: `(m << 3) | flags` for a 4-bit `flags` -/
theorem lorU_bit3 (m f : Nat) (hm : m * 8 < 4294967296) (hf : f < 16) :
    GenRt.lorU ((m : Int) * 8 % 4294967296) f = ((m / 2 * 16 + max (m % 2) (f / 8 % 2) * 8 + f % 8 : Nat) : Int) := by
  unfold GenRt.lorU
  have e : ((m : Int) * 8 % 4294967296).toNat = m * 8 := by omega
  rw [e, Int.toNat_natCast, nat_lor_bit3 m f hf]
  rfl

theorem ok_mk_eq {a b c d : Int} (h1 : a = c) (h2 : b = d) :
    Res.ok (Gen.time_delta.TimeDelta.mk a b) = Res.ok (dG ⟨c, d⟩) := by subst h1; subst h2; rfl
theorem ok_some_mk_eq {a b c d : Int} (h1 : a = c) (h2 : b = d) :
    Res.ok (some (Gen.time_delta.TimeDelta.mk a b)) = Res.ok (Option.map dG (some ⟨c, d⟩)) := by
  subst h1; subst h2; rfl
theorem absCk_eq (x : Int) : GenRt.absCk (-9223372036854775808) x = Delta.absI64 x := rfl
theorem tdivCk64_eq (a b : Int) (hb : b ≠ 0) :
    GenRt.tdivCk (-9223372036854775808) 9223372036854775807 a b = ckI64 (Int.tdiv a b) := by
  unfold GenRt.tdivCk
  rw [if_neg hb, ckI64_def]
  by_cases h1 : -9223372036854775808 ≤ Int.tdiv a b <;> by_cases h2 : Int.tdiv a b ≤ 9223372036854775807 <;>
    simp [h1, h2]
theorem mul_bound (x y : Int) (A B : Nat) (hx : x.natAbs ≤ A) (hy : y.natAbs ≤ B) :
    (x * y).natAbs ≤ A * B := by
  rw [Int.natAbs_mul]; exact Nat.mul_le_mul hx hy

theorem tbl_yd400 : YEAR_DELTAS.getD 400 0 = 97 := by decide +kernel

end Chrono.Proofs.GenL
