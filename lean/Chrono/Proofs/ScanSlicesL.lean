/-
  Lemmas about the slice-recording copies of Model/ScanSlices.lean (property C15, gap 2 of the second
  review): (1) the recording changes nothing — the result component is the plain model's result;
  (2) on a well-formed UTF-8 text (and well-formed literals) every recorded slice is a good one (taken of a
  `&str`, skipping whole characters), on failing runs too; (3) a good slice evaluates to `.ok` under the
  `Res`-valued `sliceFrom` of Spec/StrSliceSpec.lean, so the replayed run never panics.
-/
import Chrono.Spec.StrSliceSpec
import Chrono.Proofs.Rfc3339SlicesL
import Chrono.Proofs.RoundTripChainL
namespace Chrono.Proofs.ScanSlices
open Chrono Chrono.M Chrono.M.Scan Chrono.M.Parse Chrono.M.Tz Chrono.Spec.Utf8 Chrono.Proofs.Utf8
open Chrono.M.Rfc3339Slices Chrono.M.ScanSlices Chrono.Proofs.Rfc3339Slices Chrono.Proofs.ScanBoundary
open Chrono.Spec.StrSlice

/-! ### (1) the recording changes nothing -/

theorem nanosecond_fixedT_fst (s : List Nat) (d : Nat) : (nanosecond_fixedT s d).1 = nanosecond_fixed s d := by
  unfold nanosecond_fixedT nanosecond_fixed
  rw [bindT_fst, numberT_fst]
  cases h : number s d (some d) with
  | error e => rfl
  | ok a =>
    obtain ⟨r, v⟩ := a
    show (if v * SCALE.getD d 0 > I64_MAX then _ else _ : T (List Nat × Int)).1 = _
    dsimp only
    split <;> rfl

theorem short_month0T_fst (s : List Nat) : (short_month0T s).1 = (short_month0 s).mapError convE := by
  unfold short_month0T
  cases h : short_month0 s with
  | error e => rfl
  | ok a => obtain ⟨r, v⟩ := a; rfl

theorem short_weekdayT_fst (s : List Nat) : (short_weekdayT s).1 = (short_weekday s).mapError convE := by
  unfold short_weekdayT
  cases h : short_weekday s with
  | error e => rfl
  | ok a => obtain ⟨r, v⟩ := a; rfl

theorem eatSuffixT_fst (s suffix : List Nat) : (eatSuffixT s suffix).1 = .ok (eatSuffix s suffix) := by
  unfold eatSuffixT eatSuffix
  split <;> rfl

theorem short_or_long_month0T_fst (s : List Nat) :
    (short_or_long_month0T s).1 = (short_or_long_month0 s).mapError convE := by
  unfold short_or_long_month0T short_or_long_month0
  rw [bindT_fst, short_month0T_fst]
  cases h : short_month0 s with
  | error e => rfl
  | ok a =>
    obtain ⟨r, i⟩ := a
    show (bindT (eatSuffixT r _) _).1 = _
    rw [bindT_fst, eatSuffixT_fst]
    rfl

theorem short_or_long_weekdayT_fst (s : List Nat) :
    (short_or_long_weekdayT s).1 = (short_or_long_weekday s).mapError convE := by
  unfold short_or_long_weekdayT short_or_long_weekday
  rw [bindT_fst, short_weekdayT_fst]
  cases h : short_weekday s with
  | error e => rfl
  | ok a =>
    obtain ⟨r, i⟩ := a
    show (bindT (eatSuffixT r _) _).1 = _
    rw [bindT_fst, eatSuffixT_fst]
    rfl

theorem timezone_offset_2822_eq (s : List Nat) :
    timezone_offset_2822 s = if (takeAlpha s).1.length > 0 then zoneName (takeAlpha s).1 (takeAlpha s).2
      else timezone_offset s .nothing false false false := by
  unfold timezone_offset_2822 zoneName
  rfl

theorem timezone_offset_2822T_fst (s : List Nat) : (timezone_offset_2822T s).1 = timezone_offset_2822 s := by
  rw [timezone_offset_2822_eq]
  unfold timezone_offset_2822T
  split
  · rw [bindT_fst]; rfl
  · exact timezone_offsetT_fst s _ _ _ _

theorem comment_2822T_fst (s : List Nat) : (comment_2822T s).1 = comment_2822 s := by
  unfold comment_2822T
  cases h : comment_2822 s <;> rfl

theorem parseLiteralT_fst (s lit : List Nat) : (parseLiteralT s lit).1 = parseLiteral s lit := by
  unfold parseLiteralT parseLiteral
  split
  · rfl
  · split <;> rfl

theorem numericValT_fst (s : List Nat) (width : Option Nat) (signed : Bool) :
    (numericValT s width signed).1 = (if signed then
      match s with
      | 45 :: rest =>
        match number rest 1 none with
        | .ok (s', v) => .ok (s', -v)
        | .error e => .error e
      | 43 :: rest => number rest 1 none
      | _ => number s 1 width
    else number s 1 width : PRes (List Nat × Int)) := by
  unfold numericValT
  cases signed with
  | false => exact numberT_fst _ _ _
  | true =>
    simp only [if_true]
    split
    · rename_i rest
      rw [bindT_fst]
      show (bindT (numberT rest 1 none) _).1 = _
      rw [bindT_fst, numberT_fst]
      show _ = (match number rest 1 none with
        | .ok (s', v) => .ok (s', -v)
        | .error e => .error e : PRes (List Nat × Int))
      cases number rest 1 none with
      | error e => rfl
      | ok a => obtain ⟨r, v⟩ := a; rfl
    · rename_i rest
      rw [bindT_fst]
      show (numberT rest 1 none).1 = number rest 1 none
      exact numberT_fst _ _ _
    · rename_i h1 h2
      rw [numberT_fst]
      split
      · rename_i rest; exact absurd rfl (h1 rest)
      · rename_i rest; exact absurd rfl (h2 rest)
      · rfl

theorem parseNumericT_fst (p : Parsed) (s : List Nat) (n : Numeric) :
    (parseNumericT p s n).1 = parseNumeric p s n := by
  unfold parseNumericT parseNumeric
  rw [bindT_fst, numericValT_fst]
  generalize numericSpec n = spec
  obtain ⟨width, signed, set⟩ := spec
  dsimp only
  generalize (if signed = true then
      match trimStart s with
      | 45 :: rest =>
        match number rest 1 none with
        | .ok (s', v) => .ok (s', -v)
        | .error e => .error e
      | 43 :: rest => number rest 1 none
      | _ => number (trimStart s) 1 width
    else number (trimStart s) 1 width : PRes (List Nat × Int)) = r
  cases r with
  | error e => rfl
  | ok a => obtain ⟨s', v⟩ := a; rfl

theorem setOffsetT_fst (p : Parsed) (r : T (List Nat × Int)) : (setOffsetT p r).1 = setOffset p r.1 := by
  unfold setOffsetT setOffset
  rw [bindT_fst]
  cases r.1 with
  | error e => rfl
  | ok a => obtain ⟨s', v⟩ := a; rfl

theorem setNanoT_fst (p : Parsed) (r : T (List Nat × Int)) : (setNanoT p r).1 = setNano p r.1 := by
  unfold setNanoT setNano
  rw [bindT_fst]
  cases r.1 with
  | error e => rfl
  | ok a => obtain ⟨s', v⟩ := a; rfl

theorem ampmT_fst (p : Parsed) (s : List Nat) :
    (ampmT p s).1 = (match s with
    | a :: b :: rest =>
      if or32 a = 97 ∧ or32 b = 109 then (Parsed.set_ampm p false).map fun p' => (p', rest)
      else if or32 a = 112 ∧ or32 b = 109 then (Parsed.set_ampm p true).map fun p' => (p', rest)
      else .error .invalid
    | _ => .error .tooShort : PRes (Parsed × List Nat)) := by
  unfold ampmT
  match s with
  | [] => rfl
  | [_] => rfl
  | a :: b :: rest =>
    dsimp only
    by_cases h1 : or32 a = 97 ∧ or32 b = 109
    · rw [if_pos h1, if_pos h1, bindT_fst]; cases Parsed.set_ampm p false <;> rfl
    · rw [if_neg h1, if_neg h1]
      by_cases h2 : or32 a = 112 ∧ or32 b = 109
      · rw [if_pos h2, if_pos h2, bindT_fst]; cases Parsed.set_ampm p true <;> rfl
      · rw [if_neg h2, if_neg h2]; rfl

theorem mapError_match {α β : Type} (r : Except ScanErr α) (f : α → PRes β) :
    (r.mapError convE >>= f) = (match r with
      | .ok a => f a
      | .error .tooShort => .error .tooShort
      | .error .invalid => .error .invalid) := by
  cases r with
  | ok a => rfl
  | error e => cases e <;> rfl

theorem parseFixedBaseT_fst (p : Parsed) (s : List Nat) (f : Fixed) :
    (parseFixedBaseT p s f).1 = parseFixedBase p s f := by
  cases f <;> unfold parseFixedBaseT parseFixedBase <;> dsimp only
  case shortMonthName =>
    rw [bindT_fst, short_month0T_fst, mapError_match]
    cases short_month0 s with
    | ok a => obtain ⟨r, i⟩ := a; rfl
    | error e => cases e <;> rfl
  case longMonthName =>
    rw [bindT_fst, short_or_long_month0T_fst, mapError_match]
    cases short_or_long_month0 s with
    | ok a => obtain ⟨r, i⟩ := a; rfl
    | error e => cases e <;> rfl
  case shortWeekdayName =>
    rw [bindT_fst, short_weekdayT_fst, mapError_match]
    cases short_weekday s with
    | ok a => obtain ⟨r, i⟩ := a; rfl
    | error e => cases e <;> rfl
  case longWeekdayName =>
    rw [bindT_fst, short_or_long_weekdayT_fst, mapError_match]
    cases short_or_long_weekday s with
    | ok a => obtain ⟨r, i⟩ := a; rfl
    | error e => cases e <;> rfl
  case lowerAmPm => exact ampmT_fst p s
  case upperAmPm => exact ampmT_fst p s
  case nanosecond => exact dotNanoT_fst p s
  case nanosecond3 => exact dotNanoT_fst p s
  case nanosecond6 => exact dotNanoT_fst p s
  case nanosecond9 => exact dotNanoT_fst p s
  case nanosecond3NoDot => split; rfl; rw [setNanoT_fst, nanosecond_fixedT_fst]
  case nanosecond6NoDot => split; rfl; rw [setNanoT_fst, nanosecond_fixedT_fst]
  case nanosecond9NoDot => split; rfl; rw [setNanoT_fst, nanosecond_fixedT_fst]
  case timezoneName => rfl
  case timezoneOffsetColon => rw [setOffsetT_fst, timezone_offsetT_fst]
  case timezoneOffsetDoubleColon => rw [setOffsetT_fst, timezone_offsetT_fst]
  case timezoneOffsetTripleColon => rw [setOffsetT_fst, timezone_offsetT_fst]
  case timezoneOffset => rw [setOffsetT_fst, timezone_offsetT_fst]
  case timezoneOffsetColonZ => rw [setOffsetT_fst, timezone_offsetT_fst]
  case timezoneOffsetZ => rw [setOffsetT_fst, timezone_offsetT_fst]
  case timezoneOffsetPermissive => rw [setOffsetT_fst, timezone_offsetT_fst]
  case rfc2822 => rfl
  case rfc3339 => rfl

theorem parseItemBaseT_fst (p : Parsed) (s : List Nat) (it : Item) :
    (parseItemBaseT p s it).1 = parseItemBase p s it := by
  cases it <;> unfold parseItemBaseT parseItemBase <;> dsimp only
  case literal lit =>
    rw [bindT_fst, parseLiteralT_fst]
    cases parseLiteral s lit <;> rfl
  case space => rfl
  case numeric n _ => exact parseNumericT_fst p s n
  case fixed f => exact parseFixedBaseT_fst p s f
  case error => rfl

theorem parseItemsBaseT_fst : ∀ (items : List Item) (p : Parsed) (s : List Nat),
    (parseItemsBaseT p s items).1 = parseItemsBase p s items := by
  intro items
  induction items with
  | nil => intro p s; rfl
  | cons it rest ih =>
    intro p s
    unfold parseItemsBaseT parseItemsBase
    rw [bindT_fst, parseItemBaseT_fst]
    cases parseItemBase p s it with
    | error e => rfl
    | ok a => obtain ⟨p', s'⟩ := a; exact ih p' s'

theorem utcOrOffsetT_fst (s : List Nat) :
    (utcOrOffsetT s).1 = (if s.length ≥ 3 ∧ lowerS (s.take 3) = [117, 116, 99] then .ok (s.drop 3, (0 : Int))
      else timezone_offset s .colonOrSpace true false true : PRes (List Nat × Int)) := by
  unfold utcOrOffsetT
  split
  · rfl
  · exact timezone_offsetT_fst _ _ _ _ _

theorem parse_rfc3339_relaxedT_fst (p : Parsed) (s : List Nat) :
    (parse_rfc3339_relaxedT p s).1 = parse_rfc3339_relaxed p s := by
  unfold parse_rfc3339_relaxedT parse_rfc3339_relaxed
  rw [bindT_fst, parseItemsBaseT_fst]
  refine bind_congr' _ _ _ fun ⟨p, s⟩ => ?_
  dsimp only
  rw [bindT_fst, sepT_fst]
  refine bind_congr' _ _ _ fun s => ?_
  rw [bindT_fst, parseItemsBaseT_fst]
  refine bind_congr' _ _ _ fun ⟨p, s⟩ => ?_
  dsimp only
  rw [bindT_fst, utcOrOffsetT_fst]
  refine bind_congr' _ _ _ fun ⟨s, offset⟩ => ?_
  dsimp only
  rw [bindT_fst]
  rfl

theorem wdayT_fst (p : Parsed) (s : List Nat) :
    (wdayT p s).1 = (match short_weekday s with
    | .ok (s', w) =>
      match s' with
      | 44 :: rest => (Parsed.set_weekday p w).map fun p' => (p', rest)
      | _ => .error PErr.invalid
    | .error _ => .ok (p, s) : PRes (Parsed × List Nat)) := by
  unfold wdayT
  cases short_weekday s with
  | error e => rfl
  | ok a =>
    obtain ⟨s', w⟩ := a
    dsimp only
    rw [bindT_fst]
    show (match s' with
      | 44 :: rest => bindT (sliced s' rest rest) fun rest => lift ((Parsed.set_weekday p w).map fun p' => (p', rest))
      | _ => fail .invalid : T (Parsed × List Nat)).1 = _
    split
    · rename_i rest; rw [bindT_fst]; rfl
    · rfl

theorem monthT_fst (p : Parsed) (s : List Nat) :
    (monthT p s).1 = (match short_month0 s with
    | .ok (s', m0) => (Parsed.set_month p (1 + (m0 : Int))).map fun p' => (p', s')
    | .error .tooShort => .error PErr.tooShort
    | .error .invalid => .error PErr.invalid : PRes (Parsed × List Nat)) := by
  unfold monthT
  rw [bindT_fst, short_month0T_fst, mapError_match]
  cases short_month0 s with
  | ok a => obtain ⟨r, i⟩ := a; rfl
  | error e => cases e <;> rfl

theorem secT_fst (p : Parsed) (s : List Nat) :
    (secT p s).1 = (match Scan.char (trimStart s) 58 with
    | .ok s_ => setField Parsed.set_second p (number s_ 2 (some 2))
    | .error _ => .ok (p, s) : PRes (Parsed × List Nat)) := by
  unfold secT
  cases Scan.char (trimStart s) 58 with
  | error e => rfl
  | ok s_ =>
    dsimp only
    rw [bindT_fst]
    show (setFieldT Parsed.set_second p (numberT s_ 2 (some 2))).1 = _
    rw [setFieldT_fst, numberT_fst]

theorem commentsAuxT_fst : ∀ (fuel : Nat) (s : List Nat), (commentsAuxT fuel s).1 = .ok (commentsAux fuel s) := by
  intro fuel
  induction fuel with
  | zero => intro s; rfl
  | succ f ih =>
    intro s
    unfold commentsAuxT commentsAux
    cases comment_2822 s with
    | error e => rfl
    | ok s' =>
      dsimp only
      rw [bindT_fst]
      exact ih s'

theorem parse_rfc2822T_fst (p : Parsed) (s : List Nat) : (parse_rfc2822T p s).1 = parse_rfc2822 p s := by
  unfold parse_rfc2822T parse_rfc2822
  rw [bindT_fst, wdayT_fst]
  refine bind_congr' _ _ _ fun ⟨p, s⟩ => ?_
  dsimp only
  rw [bindT_fst, setFieldT_fst, numberT_fst]
  refine bind_congr' _ _ _ fun ⟨p, s⟩ => ?_
  dsimp only
  rw [bindT_fst]
  refine bind_congr' _ _ _ fun s => ?_
  rw [bindT_fst, monthT_fst]
  refine bind_congr' _ _ _ fun ⟨p, s⟩ => ?_
  dsimp only
  rw [bindT_fst]
  refine bind_congr' _ _ _ fun s => ?_
  rw [bindT_fst, numberT_fst]
  refine bind_congr' _ _ _ fun ⟨s1, year⟩ => ?_
  dsimp only
  rw [bindT_fst]
  refine bind_congr' _ _ _ fun p => ?_
  rw [bindT_fst]
  refine bind_congr' _ _ _ fun s => ?_
  rw [bindT_fst, setFieldT_fst, numberT_fst]
  refine bind_congr' _ _ _ fun ⟨p, s⟩ => ?_
  dsimp only
  rw [bindT_fst, charT_fst]
  refine bind_congr' _ _ _ fun s => ?_
  rw [bindT_fst, setFieldT_fst, numberT_fst]
  refine bind_congr' _ _ _ fun ⟨p, s⟩ => ?_
  dsimp only
  rw [bindT_fst, secT_fst]
  refine bind_congr' _ _ _ fun ⟨p, s⟩ => ?_
  dsimp only
  rw [bindT_fst]
  refine bind_congr' _ _ _ fun s => ?_
  rw [bindT_fst, timezone_offset_2822T_fst]
  refine bind_congr' _ _ _ fun ⟨s, off⟩ => ?_
  dsimp only
  rw [bindT_fst]
  refine bind_congr' _ _ _ fun p => ?_
  rw [bindT_fst, commentsAuxT_fst]
  rfl

/-- one item of the plain `parse_internal` -/
def step (p : Parsed) (s : List Nat) (it : Item) : PRes (Parsed × List Nat) :=
  match it with
  | .fixed .rfc2822 => parse_rfc2822 p s
  | .fixed .rfc3339 => parse_rfc3339_relaxed p s
  | _ => parseItemBase p s it

theorem parse_internal_cons (p : Parsed) (s : List Nat) (it : Item) (rest : List Item) :
    parse_internal p s (it :: rest) = (match step p s it with
      | .ok (p', s') => parse_internal p' s' rest
      | .error e => .error e) := by
  conv => lhs; unfold parse_internal
  unfold step
  rfl

theorem stepT_fst (p : Parsed) (s : List Nat) (it : Item) : (stepT p s it).1 = step p s it := by
  unfold stepT
  split
  · exact parse_rfc2822T_fst p s
  · exact parse_rfc3339_relaxedT_fst p s
  · rename_i h1 h2
    rw [parseItemBaseT_fst]
    unfold step
    split
    · exact absurd rfl h1
    · exact absurd rfl h2
    · rfl

theorem parse_internalT_fst : ∀ (items : List Item) (p : Parsed) (s : List Nat),
    (parse_internalT p s items).1 = parse_internal p s items := by
  intro items
  induction items with
  | nil => intro p s; rfl
  | cons it rest ih =>
    intro p s
    rw [parse_internal_cons]
    unfold parse_internalT
    rw [bindT_fst, stepT_fst]
    cases step p s it with
    | error e => rfl
    | ok a => obtain ⟨p', s'⟩ := a; exact ih p' s'

/-! ### (2) every recorded slice is good — scan.rs -/

theorem nanosecond_fixedT_good (s : List Nat) (d : Nat) (hv : validUtf8 s = true) :
    GoodT (nanosecond_fixedT s d) (·.1) := by
  unfold nanosecond_fixedT
  have g := numberT_good s d (some d) hv (by intro m hm; injection hm with hm; omega)
  refine good_bindT _ _ (·.1) _ g ?_
  rintro ⟨r, v⟩ ha
  have hr := g.2 _ ha
  dsimp only at hr ⊢
  split
  · exact good_fail _ _
  · exact good_ret _ _ hr

theorem short_month0T_good (s : List Nat) (hv : validUtf8 s = true) : GoodT (short_month0T s) (·.1) := by
  unfold short_month0T
  cases h : short_month0 s with
  | error e => exact good_fail _ _
  | ok a => obtain ⟨r, i⟩ := a; exact good_sliced s r _ _ hv (short_month0_bs s r i h) rfl

theorem short_weekdayT_good (s : List Nat) (hv : validUtf8 s = true) : GoodT (short_weekdayT s) (·.1) := by
  unfold short_weekdayT
  cases h : short_weekday s with
  | error e => exact good_fail _ _
  | ok a => obtain ⟨r, i⟩ := a; exact good_sliced s r _ _ hv (short_weekday_bs s r i h) rfl

theorem eatSuffixT_good (s suffix : List Nat) (hv : validUtf8 s = true) (hs : ∀ b ∈ suffix, b < 128) :
    GoodT (eatSuffixT s suffix) id := by
  have hb := eatSuffix_bs s suffix hs
  unfold eatSuffix at hb
  unfold eatSuffixT
  split
  · rename_i hc
    rw [if_pos hc] at hb
    exact good_sliced _ _ _ _ hv hb rfl
  · exact good_ret _ _ hv

theorem short_or_long_month0T_good (s : List Nat) (hv : validUtf8 s = true) :
    GoodT (short_or_long_month0T s) (·.1) := by
  unfold short_or_long_month0T
  have g := short_month0T_good s hv
  refine good_bindT _ _ (·.1) _ g ?_
  rintro ⟨r, i⟩ ha
  have hr : validUtf8 r = true := g.2 _ ha
  have g2 := eatSuffixT_good r (Extracted.LONG_MONTH_SUFFIXES.getD i []) hr (suffix_tables_ascii.1 i)
  refine good_bindT _ _ id _ g2 ?_
  intro r2 ha2
  exact good_ret _ _ (g2.2 _ ha2)

theorem short_or_long_weekdayT_good (s : List Nat) (hv : validUtf8 s = true) :
    GoodT (short_or_long_weekdayT s) (·.1) := by
  unfold short_or_long_weekdayT
  have g := short_weekdayT_good s hv
  refine good_bindT _ _ (·.1) _ g ?_
  rintro ⟨r, w⟩ ha
  have hr : validUtf8 r = true := g.2 _ ha
  have g2 := eatSuffixT_good r (Extracted.LONG_WEEKDAY_SUFFIXES.getD w.num_days_from_monday []) hr
    (suffix_tables_ascii.2 _)
  refine good_bindT _ _ id _ g2 ?_
  intro r2 ha2
  exact good_ret _ _ (g2.2 _ ha2)

theorem zoneName_rest (name rest a : List Nat) (v : Int) (h : zoneName name rest = .ok (a, v)) : a = rest := by
  unfold zoneName at h
  dsimp only at h
  repeat' split at h
  all_goals first
    | (injection h with h; injection h with h _; exact h.symm)
    | cases h

theorem takeAlpha_bs (s : List Nat) : BoundarySuffix s (takeAlpha s).2 := by
  have hsplit := (Chrono.Proofs.Rfc2822.takeAlpha_inv s).1
  have hasc := takeAlpha_ascii s
  have : BoundarySuffix ((takeAlpha s).1 ++ (takeAlpha s).2) (takeAlpha s).2 := bs_ascii _ _ hasc
  rw [← hsplit] at this
  exact this

theorem timezone_offset_2822T_good (s : List Nat) (hv : validUtf8 s = true) :
    GoodT (timezone_offset_2822T s) (·.1) := by
  unfold timezone_offset_2822T
  split
  · have g0 : GoodT (sliced s (takeAlpha s).2 (takeAlpha s).2 : T (List Nat)) id :=
      good_sliced _ _ _ _ hv (takeAlpha_bs s) rfl
    refine good_bindT _ _ id _ g0 ?_
    intro r ha
    have hr : validUtf8 r = true := g0.2 _ ha
    refine good_lift _ _ ?_
    rintro ⟨a, v⟩ hz
    rw [zoneName_rest _ _ _ _ hz]; exact hr
  · exact timezone_offsetT_good s _ _ _ _ hv

theorem comment_2822_trim (s : List Nat) : comment_2822 (trimStart s) = comment_2822 s := by
  unfold comment_2822
  rw [Chrono.Proofs.RoundTrip.trimStart_idem]

theorem comment_2822T_good (s : List Nat) (hv : validUtf8 s = true) : GoodT (comment_2822T s) id := by
  unfold comment_2822T
  have hvt : validUtf8 (trimStart s) = true := bs_valid_rest hv (trimStart_bs s)
  cases h : comment_2822 s with
  | error e => exact good_fail _ _
  | ok r =>
    have h' : comment_2822 (trimStart s) = .ok r := by rw [comment_2822_trim]; exact h
    exact good_sliced _ _ _ _ hvt (comment_2822_bs _ r hvt h') rfl

/-! ### (3) a good slice does not panic -/

theorem good_sliceOk (e : Slice) (h : GoodSlice e) : sliceOk e = true := by
  obtain ⟨hv, hb⟩ := h
  obtain ⟨h1, h2, h3, _⟩ := bs_boundary hv hb
  unfold sliceOk Spec.StrSlice.sliceFrom Slice.k
  rw [if_pos ⟨h1, h3⟩, ← h2]
  simp

theorem eval_of_good {α : Type} (x : T α) (str : α → List Nat) (h : GoodT x str) : evalSlices x = .ok x.1 := by
  unfold evalSlices
  rw [if_pos]
  exact List.all_eq_true.mpr (fun e he => good_sliceOk e (h.1 e he))

/-! ### (2) every recorded slice is good — parse.rs -/

theorem parseLiteralT_good (s lit : List Nat) (hv : validUtf8 s = true) (hl : validUtf8 lit = true) :
    GoodT (parseLiteralT s lit) id := by
  have hb := parseLiteral_bs s lit (s.drop lit.length) hl
  unfold parseLiteral at hb
  unfold parseLiteralT
  split
  · exact good_fail _ _
  · rename_i h1
    split
    · exact good_fail _ _
    · rename_i h2
      rw [if_neg h1, if_neg h2] at hb
      exact good_sliced _ _ _ _ hv (hb rfl) rfl

theorem numberT_good1 (s : List Nat) (w : Option Nat) (hv : validUtf8 s = true) (hw : ∀ m, w = some m → 1 ≤ m) :
    GoodT (numberT s 1 w) (·.1) := numberT_good s 1 w hv hw

theorem numericValT_good (s : List Nat) (w : Option Nat) (signed : Bool) (hv : validUtf8 s = true)
    (hw : ∀ m, w = some m → 1 ≤ m) : GoodT (numericValT s w signed) (·.1) := by
  have none1 : ∀ m, (none : Option Nat) = some m → 1 ≤ m := by intro m hm; cases hm
  unfold numericValT
  split
  · split
    · rename_i rest
      have g0 : GoodT (sliced (45 :: rest) rest rest : T (List Nat)) id :=
        good_sliced _ _ _ _ hv (bs_cons 45 rest (by omega)) rfl
      refine good_bindT _ _ id _ g0 ?_
      intro r ha
      have hr : validUtf8 r = true := g0.2 _ ha
      have g1 := numberT_good1 r none hr none1
      refine good_bindT _ _ (·.1) _ g1 ?_
      rintro ⟨s', v⟩ ha'
      exact good_ret _ _ (g1.2 (s', v) ha')
    · rename_i rest
      have g0 : GoodT (sliced (43 :: rest) rest rest : T (List Nat)) id :=
        good_sliced _ _ _ _ hv (bs_cons 43 rest (by omega)) rfl
      refine good_bindT _ _ id _ g0 ?_
      intro r ha
      have hr : validUtf8 r = true := g0.2 _ ha
      exact numberT_good1 r none hr none1
    · exact numberT_good1 s w hv hw
  · exact numberT_good1 s w hv hw

theorem setterT_good (set : Parsed → Int → PRes Parsed) (p : Parsed) (r : T (List Nat × Int))
    (h : GoodT r (·.1)) :
    GoodT (bindT r fun (s', v) => lift (match set p v with
      | .ok p' => .ok (p', s')
      | .error e => .error e) : T (Parsed × List Nat)) (·.2) := by
  refine good_bindT _ _ (·.1) _ h ?_
  rintro ⟨s', v⟩ ha
  have hv := h.2 _ ha
  refine good_lift _ _ ?_
  intro a hm
  cases hs : set p v with
  | error e => rw [hs] at hm; cases hm
  | ok p' => rw [hs] at hm; injection hm with hm; rw [← hm]; exact hv

theorem parseNumericT_good (p : Parsed) (s : List Nat) (n : Numeric) (hv : validUtf8 s = true) :
    GoodT (parseNumericT p s n) (·.2) := by
  unfold parseNumericT
  exact setterT_good _ p _ (numericValT_good _ _ _ (bs_valid_rest hv (trimStart_bs s)) (numericSpec_width n))

theorem setOffsetT_good (p : Parsed) (r : T (List Nat × Int)) (h : GoodT r (·.1)) : GoodT (setOffsetT p r) (·.2) :=
  setterT_good Parsed.set_offset p r h

theorem setNanoT_good (p : Parsed) (r : T (List Nat × Int)) (h : GoodT r (·.1)) : GoodT (setNanoT p r) (·.2) :=
  setterT_good Parsed.set_nanosecond p r h

theorem mapT_good {β : Type} (r : T (List Nat × β)) (f : β → PRes Parsed) (h : GoodT r (·.1)) :
    GoodT (bindT r fun x => lift ((f x.2).map fun p' => (p', x.1)) : T (Parsed × List Nat)) (·.2) := by
  refine good_bindT _ _ (·.1) _ h ?_
  rintro ⟨s', v⟩ ha
  have hv := h.2 _ ha
  refine good_lift _ _ ?_
  intro a hm
  cases hs : f v with
  | error e => rw [hs] at hm; cases hm
  | ok p' => rw [hs] at hm; injection hm with hm; rw [← hm]; exact hv

theorem ampm_one (p : Parsed) (a b : Nat) (rest : List Nat) (v : Bool) (ha : a < 128) (hb : b < 128)
    (hv : validUtf8 (a :: b :: rest) = true) :
    GoodT (bindT (lift (Parsed.set_ampm p v)) fun p' => sliced (a :: b :: rest) rest (p', rest) :
      T (Parsed × List Nat)) (·.2) := by
  refine good_bindT _ _ (fun _ => rest) _ (good_lift _ _ ?_) ?_
  · intro _ _
    exact bs_valid_rest hv (bs_ascii [a, b] rest (by intro x hx; simp at hx; rcases hx with h | h <;> omega))
  · intro p' _
    exact good_sliced _ _ _ _ hv (bs_ascii [a, b] rest (by intro x hx; simp at hx; rcases hx with h | h <;> omega)) rfl

theorem ampmT_good (p : Parsed) (s : List Nat) (hv : validUtf8 s = true) : GoodT (ampmT p s) (·.2) := by
  unfold ampmT
  split
  · rename_i a b rest
    split
    · rename_i h
      exact ampm_one p a b rest false (or32_lt a (by omega)) (or32_lt b (by omega)) hv
    · split
      · rename_i h
        exact ampm_one p a b rest true (or32_lt a (by omega)) (or32_lt b (by omega)) hv
      · exact good_fail _ _
  · exact good_fail _ _

theorem parseFixedBaseT_good (p : Parsed) (s : List Nat) (f : Fixed) (hv : validUtf8 s = true) :
    GoodT (parseFixedBaseT p s f) (·.2) := by
  have hvt : validUtf8 (trimStart s) = true := bs_valid_rest hv (trimStart_bs s)
  cases f <;> unfold parseFixedBaseT <;> dsimp only
  case shortMonthName => exact mapT_good _ (fun (m0 : Nat) => Parsed.set_month p ((m0 : Int) + 1)) (short_month0T_good s hv)
  case longMonthName => exact mapT_good _ (fun (m0 : Nat) => Parsed.set_month p ((m0 : Int) + 1)) (short_or_long_month0T_good s hv)
  case shortWeekdayName => exact mapT_good _ (fun w => Parsed.set_weekday p w) (short_weekdayT_good s hv)
  case longWeekdayName => exact mapT_good _ (fun w => Parsed.set_weekday p w) (short_or_long_weekdayT_good s hv)
  case lowerAmPm => exact ampmT_good p s hv
  case upperAmPm => exact ampmT_good p s hv
  case nanosecond => exact dotNanoT_good p s hv
  case nanosecond3 => exact dotNanoT_good p s hv
  case nanosecond6 => exact dotNanoT_good p s hv
  case nanosecond9 => exact dotNanoT_good p s hv
  case nanosecond3NoDot => split; exact good_fail _ _; exact setNanoT_good p _ (nanosecond_fixedT_good s 3 hv)
  case nanosecond6NoDot => split; exact good_fail _ _; exact setNanoT_good p _ (nanosecond_fixedT_good s 6 hv)
  case nanosecond9NoDot => split; exact good_fail _ _; exact setNanoT_good p _ (nanosecond_fixedT_good s 9 hv)
  case timezoneName => exact good_ret _ _ (bs_valid_rest hv (skipNonWs_bs s hv))
  case timezoneOffsetColon => exact setOffsetT_good p _ (timezone_offsetT_good _ _ _ _ _ hvt)
  case timezoneOffsetDoubleColon => exact setOffsetT_good p _ (timezone_offsetT_good _ _ _ _ _ hvt)
  case timezoneOffsetTripleColon => exact setOffsetT_good p _ (timezone_offsetT_good _ _ _ _ _ hvt)
  case timezoneOffset => exact setOffsetT_good p _ (timezone_offsetT_good _ _ _ _ _ hvt)
  case timezoneOffsetColonZ => exact setOffsetT_good p _ (timezone_offsetT_good _ _ _ _ _ hvt)
  case timezoneOffsetZ => exact setOffsetT_good p _ (timezone_offsetT_good _ _ _ _ _ hvt)
  case timezoneOffsetPermissive => exact setOffsetT_good p _ (timezone_offsetT_good _ _ _ _ _ hvt)
  case rfc2822 => exact good_fail _ _
  case rfc3339 => exact good_fail _ _

theorem parseItemBaseT_good (p : Parsed) (s : List Nat) (it : Item) (hv : validUtf8 s = true)
    (hl : ∀ lit, it = .literal lit → validUtf8 lit = true) : GoodT (parseItemBaseT p s it) (·.2) := by
  cases it <;> unfold parseItemBaseT <;> dsimp only
  case literal lit =>
    have g := parseLiteralT_good s lit hv (hl lit rfl)
    refine good_bindT _ _ id _ g ?_
    intro s' ha
    exact good_ret _ _ (g.2 _ ha)
  case space => exact good_ret _ _ (bs_valid_rest hv (trimStart_bs s))
  case numeric n _ => exact parseNumericT_good p s n hv
  case fixed f => exact parseFixedBaseT_good p s f hv
  case error => exact good_fail _ _

theorem parseItemsBaseT_good : ∀ (items : List Item) (p : Parsed) (s : List Nat), validUtf8 s = true →
    ItemsUtf8 items → GoodT (parseItemsBaseT p s items) (·.2) := by
  intro items
  induction items with
  | nil => intro p s hv _; exact good_ret _ _ hv
  | cons it rest ih =>
    intro p s hv hl
    unfold parseItemsBaseT
    have g := parseItemBaseT_good p s it hv (fun lit he => hl lit (by rw [he]; simp))
    refine good_bindT _ _ (·.2) _ g ?_
    rintro ⟨p', s'⟩ ha
    exact ih p' s' (g.2 _ ha) (fun lit hm => hl lit (List.mem_cons_of_mem _ hm))

theorem utcOrOffsetT_good (s : List Nat) (hv : validUtf8 s = true) : GoodT (utcOrOffsetT s) (·.1) := by
  have hb := eatSuffix_bs s [117, 116, 99] (by intro b hb; simp at hb; omega)
  unfold eatSuffix at hb
  unfold utcOrOffsetT
  split
  · rename_i hc
    have hc' : s.length ≥ [117, 116, 99].length ∧ lowerS (s.take [117, 116, 99].length) = lowerS [117, 116, 99] := hc
    rw [if_pos hc'] at hb
    exact good_sliced _ _ _ _ hv hb rfl
  · exact timezone_offsetT_good s _ _ _ _ hv

theorem parse_rfc3339_relaxedT_good (p : Parsed) (s : List Nat) (hv : validUtf8 s = true) :
    GoodT (parse_rfc3339_relaxedT p s) (·.2) := by
  unfold parse_rfc3339_relaxedT
  have g1 := parseItemsBaseT_good DATE_ITEMS p s hv date_time_items_utf8.1
  refine good_bindT _ _ (·.2) _ g1 ?_
  rintro ⟨p1, s1⟩ h1; have v1 := g1.2 _ h1; dsimp only at v1 ⊢
  have g2 := sepT_good s1 v1
  refine good_bindT _ _ id _ g2 ?_
  intro s2 h2; have v2 : validUtf8 s2 = true := g2.2 _ h2
  have g3 := parseItemsBaseT_good TIME_ITEMS p1 s2 v2 date_time_items_utf8.2
  refine good_bindT _ _ (·.2) _ g3 ?_
  rintro ⟨p3, s3⟩ h3; have v3 := g3.2 _ h3; dsimp only at v3 ⊢
  have g4 := utcOrOffsetT_good (trimStart s3) (bs_valid_rest v3 (trimStart_bs s3))
  refine good_bindT _ _ (·.1) _ g4 ?_
  rintro ⟨s4, off⟩ h4; have v4 := g4.2 _ h4; dsimp only at v4 ⊢
  refine good_bindT _ _ (fun _ => s4) _ (good_lift _ _ (fun _ _ => v4)) ?_
  intro p5 _
  exact good_ret _ _ v4

theorem wdayT_good (p : Parsed) (s : List Nat) (hv : validUtf8 s = true) : GoodT (wdayT p s) (·.2) := by
  unfold wdayT
  cases h : short_weekday s with
  | error e => exact good_ret _ _ hv
  | ok a =>
    obtain ⟨s', w⟩ := a
    dsimp only
    have g0 : GoodT (sliced s s' s' : T (List Nat)) id := good_sliced _ _ _ _ hv (short_weekday_bs s s' w h) rfl
    refine good_bindT _ _ id _ g0 ?_
    intro r ha
    have hr : validUtf8 r = true := g0.2 _ ha
    split
    · rename_i rest
      have g1 : GoodT (sliced (44 :: rest) rest rest : T (List Nat)) id :=
        good_sliced _ _ _ _ hr (bs_cons 44 rest (by omega)) rfl
      refine good_bindT _ _ id _ g1 ?_
      intro r2 ha2
      have hr2 : validUtf8 r2 = true := g1.2 _ ha2
      refine good_lift _ _ ?_
      intro a hm
      cases hs : Parsed.set_weekday p w with
      | error e => rw [hs] at hm; cases hm
      | ok p' => rw [hs] at hm; injection hm with hm; rw [← hm]; exact hr2
    · exact good_fail _ _

theorem monthT_good (p : Parsed) (s : List Nat) (hv : validUtf8 s = true) : GoodT (monthT p s) (·.2) :=
  mapT_good _ (fun (m0 : Nat) => Parsed.set_month p (1 + (m0 : Int))) (short_month0T_good s hv)

theorem secT_good (p : Parsed) (s : List Nat) (hv : validUtf8 s = true) : GoodT (secT p s) (·.2) := by
  unfold secT
  have hvt : validUtf8 (trimStart s) = true := bs_valid_rest hv (trimStart_bs s)
  cases h : Scan.char (trimStart s) 58 with
  | error e => exact good_ret _ _ hv
  | ok s_ =>
    dsimp only
    have g0 : GoodT (sliced (trimStart s) s_ s_ : T (List Nat)) id :=
      good_sliced _ _ _ _ hvt (char_bs _ s_ 58 (by omega) h) rfl
    refine good_bindT _ _ id _ g0 ?_
    intro r ha
    have hr : validUtf8 r = true := g0.2 _ ha
    exact setFieldT_good _ p _ (numberT_good r 2 (some 2) hr (by intro m hm; injection hm with hm; omega))

theorem commentsAuxT_good : ∀ (fuel : Nat) (s : List Nat), validUtf8 s = true → GoodT (commentsAuxT fuel s) id := by
  intro fuel
  induction fuel with
  | zero => intro s hv; exact good_ret _ _ hv
  | succ f ih =>
    intro s hv
    unfold commentsAuxT
    have hvt : validUtf8 (trimStart s) = true := bs_valid_rest hv (trimStart_bs s)
    cases h : comment_2822 s with
    | error e => exact good_ret _ _ hv
    | ok s' =>
      dsimp only
      have h' : comment_2822 (trimStart s) = .ok s' := by rw [comment_2822_trim]; exact h
      have g0 : GoodT (sliced (trimStart s) s' s' : T (List Nat)) id :=
        good_sliced _ _ _ _ hvt (comment_2822_bs _ s' hvt h') rfl
      refine good_bindT _ _ id _ g0 ?_
      intro r ha
      exact ih r (g0.2 _ ha)

theorem liftStr_good {α : Type} (r : PRes α) (s : List Nat) (hv : validUtf8 s = true) :
    GoodT (lift r) (fun _ => s) := good_lift _ _ (fun _ _ => hv)

theorem space_good (s : List Nat) (hv : validUtf8 s = true) : GoodT (lift (space s)) id :=
  good_lift _ _ (fun a ha => bs_valid_rest hv (space_bs s a ha))

theorem parse_rfc2822T_good (p : Parsed) (s : List Nat) (hv : validUtf8 s = true) :
    GoodT (parse_rfc2822T p s) (·.2) := by
  unfold parse_rfc2822T
  have trim : ∀ x, validUtf8 x = true → validUtf8 (trimStart x) = true := fun x hx => bs_valid_rest hx (trimStart_bs x)
  have fld : ∀ (set : Parsed → Int → PRes Parsed) (p : Parsed) (s : List Nat) (k m : Nat), k ≤ m → validUtf8 s = true →
      GoodT (setFieldT set p (numberT s k (some m))) (·.2) := fun set p s k m hkm hv =>
    setFieldT_good set p _ (numberT_good s k (some m) hv (by intro m' hm; injection hm with hm; omega))
  have g1 := wdayT_good p (trimStart s) (trim s hv)
  refine good_bindT _ _ (·.2) _ g1 ?_
  rintro ⟨p1, s1⟩ h1; have v1 := g1.2 _ h1; dsimp only at v1 ⊢
  have g2 := fld Parsed.set_day p1 (trimStart s1) 1 2 (by omega) (trim s1 v1)
  refine good_bindT _ _ (·.2) _ g2 ?_
  rintro ⟨p2, s2⟩ h2; have v2 := g2.2 _ h2; dsimp only at v2 ⊢
  have g3 := space_good s2 v2
  refine good_bindT _ _ id _ g3 ?_
  intro s3 h3; have v3 : validUtf8 s3 = true := g3.2 _ h3
  have g4 := monthT_good p2 s3 v3
  refine good_bindT _ _ (·.2) _ g4 ?_
  rintro ⟨p4, s4⟩ h4; have v4 := g4.2 _ h4; dsimp only at v4 ⊢
  have g5 := space_good s4 v4
  refine good_bindT _ _ id _ g5 ?_
  intro s5 h5; have v5 : validUtf8 s5 = true := g5.2 _ h5
  have g6 := numberT_good s5 2 none v5 (by intro m hm; cases hm)
  refine good_bindT _ _ (·.1) _ g6 ?_
  rintro ⟨s6, year⟩ h6; have v6 := g6.2 _ h6; dsimp only at v6 ⊢
  refine good_bindT _ _ (fun _ => s6) _ (liftStr_good _ s6 v6) ?_
  intro p7 _
  have g8 := space_good s6 v6
  refine good_bindT _ _ id _ g8 ?_
  intro s8 h8; have v8 : validUtf8 s8 = true := g8.2 _ h8
  have g9 := fld Parsed.set_hour p7 s8 2 2 (by omega) v8
  refine good_bindT _ _ (·.2) _ g9 ?_
  rintro ⟨p9, s9⟩ h9; have v9 := g9.2 _ h9; dsimp only at v9 ⊢
  have g10 := charT_good (trimStart s9) 58 (by omega) (trim s9 v9)
  refine good_bindT _ _ id _ g10 ?_
  intro s10 h10; have v10 : validUtf8 s10 = true := g10.2 _ h10
  have g11 := fld Parsed.set_minute p9 (trimStart s10) 2 2 (by omega) (trim s10 v10)
  refine good_bindT _ _ (·.2) _ g11 ?_
  rintro ⟨p11, s11⟩ h11; have v11 := g11.2 _ h11; dsimp only at v11 ⊢
  have g12 := secT_good p11 s11 v11
  refine good_bindT _ _ (·.2) _ g12 ?_
  rintro ⟨p12, s12⟩ h12; have v12 := g12.2 _ h12; dsimp only at v12 ⊢
  have g13 := space_good s12 v12
  refine good_bindT _ _ id _ g13 ?_
  intro s13 h13; have v13 : validUtf8 s13 = true := g13.2 _ h13
  have g14 := timezone_offset_2822T_good s13 v13
  refine good_bindT _ _ (·.1) _ g14 ?_
  rintro ⟨s14, off⟩ h14; have v14 := g14.2 _ h14; dsimp only at v14 ⊢
  refine good_bindT _ _ (fun _ => s14) _ (liftStr_good _ s14 v14) ?_
  intro p15 _
  have g16 := commentsAuxT_good s14.length s14 v14
  refine good_bindT _ _ id _ g16 ?_
  intro s16 h16
  exact good_ret _ _ (g16.2 _ h16)

theorem stepT_good (p : Parsed) (s : List Nat) (it : Item) (hv : validUtf8 s = true)
    (hl : ∀ lit, it = .literal lit → validUtf8 lit = true) : GoodT (stepT p s it) (·.2) := by
  unfold stepT
  split
  · exact parse_rfc2822T_good p s hv
  · exact parse_rfc3339_relaxedT_good p s hv
  · exact parseItemBaseT_good p s it hv hl

/-- **every run of the item-driven parser on a `&str` with `&str` literals**: all slices good (failing runs
included), the remainder a `&str` -/
theorem parse_internalT_good : ∀ (items : List Item) (p : Parsed) (s : List Nat), validUtf8 s = true →
    ItemsUtf8 items → GoodT (parse_internalT p s items) (·.2) := by
  intro items
  induction items with
  | nil => intro p s hv _; exact good_ret _ _ hv
  | cons it rest ih =>
    intro p s hv hl
    unfold parse_internalT
    have g := stepT_good p s it hv (fun lit he => hl lit (by rw [he]; simp))
    refine good_bindT _ _ (·.2) _ g ?_
    rintro ⟨p', s'⟩ ha
    exact ih p' s' (g.2 _ ha) (fun lit hm => hl lit (List.mem_cons_of_mem _ hm))

end Chrono.Proofs.ScanSlices
