/-
  Helper lemmas for C14 (field resolution): setters, `resolve_year`, `to_naive_time`.
  The date resolver is in Proofs/ParsedDateL.lean.
-/
import Chrono.Model.ParsedResolve
import Chrono.Spec.ParsedSpec
import Chrono.Proofs.PrimL
namespace Chrono.Proofs
open Chrono Chrono.M Chrono.Spec Chrono.Extracted

/-- decidable equality of `ParseResult` values (core `Except` has none), so that closed instances
of the resolver can be evaluated by `decide +kernel` in the non-vacuity examples -/
instance exceptDecEqC14 {ε α} [DecidableEq ε] [DecidableEq α] : DecidableEq (Except ε α) := fun a b =>
  match a, b with
  | .ok x, .ok y => if h : x = y then isTrue (by rw [h]) else isFalse (fun e => h (Except.ok.inj e))
  | .error x, .error y =>
    if h : x = y then isTrue (by rw [h]) else isFalse (fun e => h (Except.error.inj e))
  | .ok _, .error _ => isFalse (fun e => by cases e)
  | .error _, .ok _ => isFalse (fun e => by cases e)

/-! ### setters -/

/-- the common shape of all setters: guard the argument, `set_if_consistent`, store -/
theorem setShape {α} [DecidableEq α] (g : PRes α) (old : Option α) (upd : Option α → Parsed)
    (p1 : Parsed) :
    ((do let x ← g; let f ← Parsed.setIf old x; pure (upd f)) : PRes Parsed) = .ok p1 ↔
      ∃ x, g = .ok x ∧ (old = none ∨ old = some x) ∧ p1 = upd (some x) := by
  cases g with
  | error e => simp [bind, Except.bind]
  | ok x =>
    cases old with
    | none => simp [bind, Except.bind, Parsed.setIf, pure, Except.pure, eq_comm]
    | some o =>
      by_cases h : o = x
      · subst h; simp [bind, Except.bind, Parsed.setIf, pure, Except.pure, eq_comm]
      · simp [bind, Except.bind, Parsed.setIf, h]

theorem toI32_ok (v x : Int) : Parsed.toI32 v = .ok x ↔ (-2147483648 ≤ v ∧ v ≤ 2147483647) ∧ x = v := by
  unfold Parsed.toI32 inI32
  have h1 : I32_MIN = -2147483648 := rfl
  have h2 : I32_MAX = 2147483647 := rfl
  by_cases h : -2147483648 ≤ v ∧ v ≤ 2147483647
  · simp [h1, h2, h, eq_comm]
  · have : ¬ ((-2147483648 ≤ v) ∧ (v ≤ 2147483647)) := h
    simp [h1, h2, h]

theorem inRange_ok (v lo hi x : Int) : Parsed.inRange v lo hi = .ok x ↔ (lo ≤ v ∧ v ≤ hi) ∧ x = v := by
  unfold Parsed.inRange
  by_cases h : lo ≤ v ∧ v ≤ hi
  · simp [h, eq_comm]
  · simp [h]


/-- a guarded simple setter, set twice: the second call succeeds iff the arguments are equal -/
theorem twice_generic {α} [DecidableEq α] (g : Int → PRes α) (get : Parsed → Option α)
    (upd : Parsed → Option α → Parsed) (hget : ∀ p f, get (upd p f) = f)
    (hinj : ∀ a b x y, g a = .ok x → g b = .ok y → (x = y ↔ a = b))
    (p p1 : Parsed) (a b : Int)
    (h : ((do let x ← g a; let f ← Parsed.setIf (get p) x; pure (upd p f)) : PRes Parsed) = .ok p1) :
    (∃ p2, ((do let x ← g b; let f ← Parsed.setIf (get p1) x; pure (upd p1 f)) : PRes Parsed) = .ok p2)
      ↔ a = b := by
  rw [setShape] at h
  obtain ⟨x, hg, _, rfl⟩ := h
  constructor
  · rintro ⟨p2, h2⟩
    rw [setShape] at h2
    obtain ⟨y, hg2, hold, _⟩ := h2
    rw [hget] at hold
    rcases hold with hold | hold
    · cases hold
    · exact (hinj a b x y hg hg2).mp (Option.some.inj hold)
  · intro hab
    subst hab
    exact ⟨_, (setShape _ _ _ _).mpr ⟨x, hg, Or.inr (hget _ _), rfl⟩⟩

theorem toI32_inj (a b x y : Int) (h1 : Parsed.toI32 a = .ok x) (h2 : Parsed.toI32 b = .ok y) :
    (x = y ↔ a = b) := by
  rw [toI32_ok] at h1 h2; omega
theorem inRange_inj (lo hi : Int) (a b x y : Int) (h1 : Parsed.inRange a lo hi = .ok x)
    (h2 : Parsed.inRange b lo hi = .ok y) : (x = y ↔ a = b) := by
  rw [inRange_ok] at h1 h2; omega

theorem twice_year (p p1 : Parsed) (a b : Int) (h : p.set_year a = .ok p1) :
    (∃ p2, p1.set_year b = .ok p2) ↔ a = b :=
  twice_generic Parsed.toI32 (·.year) (fun p f => { p with year := f }) (fun _ _ => rfl) toI32_inj p p1 a b h
theorem twice_year_div_100 (p p1 : Parsed) (a b : Int) (h : p.set_year_div_100 a = .ok p1) :
    (∃ p2, p1.set_year_div_100 b = .ok p2) ↔ a = b :=
  twice_generic (Parsed.inRange · 0 I32_MAX) (·.year_div_100) (fun p f => { p with year_div_100 := f }) (fun _ _ => rfl) (inRange_inj 0 I32_MAX) p p1 a b h
theorem twice_year_mod_100 (p p1 : Parsed) (a b : Int) (h : p.set_year_mod_100 a = .ok p1) :
    (∃ p2, p1.set_year_mod_100 b = .ok p2) ↔ a = b :=
  twice_generic (Parsed.inRange · 0 99) (·.year_mod_100) (fun p f => { p with year_mod_100 := f }) (fun _ _ => rfl) (inRange_inj 0 99) p p1 a b h
theorem twice_isoyear (p p1 : Parsed) (a b : Int) (h : p.set_isoyear a = .ok p1) :
    (∃ p2, p1.set_isoyear b = .ok p2) ↔ a = b :=
  twice_generic Parsed.toI32 (·.isoyear) (fun p f => { p with isoyear := f }) (fun _ _ => rfl) toI32_inj p p1 a b h
theorem twice_isoyear_div_100 (p p1 : Parsed) (a b : Int) (h : p.set_isoyear_div_100 a = .ok p1) :
    (∃ p2, p1.set_isoyear_div_100 b = .ok p2) ↔ a = b :=
  twice_generic (Parsed.inRange · 0 I32_MAX) (·.isoyear_div_100) (fun p f => { p with isoyear_div_100 := f }) (fun _ _ => rfl) (inRange_inj 0 I32_MAX) p p1 a b h
theorem twice_isoyear_mod_100 (p p1 : Parsed) (a b : Int) (h : p.set_isoyear_mod_100 a = .ok p1) :
    (∃ p2, p1.set_isoyear_mod_100 b = .ok p2) ↔ a = b :=
  twice_generic (Parsed.inRange · 0 99) (·.isoyear_mod_100) (fun p f => { p with isoyear_mod_100 := f }) (fun _ _ => rfl) (inRange_inj 0 99) p p1 a b h
theorem twice_quarter (p p1 : Parsed) (a b : Int) (h : p.set_quarter a = .ok p1) :
    (∃ p2, p1.set_quarter b = .ok p2) ↔ a = b :=
  twice_generic (Parsed.inRange · 1 4) (·.quarter) (fun p f => { p with quarter := f }) (fun _ _ => rfl) (inRange_inj 1 4) p p1 a b h
theorem twice_month (p p1 : Parsed) (a b : Int) (h : p.set_month a = .ok p1) :
    (∃ p2, p1.set_month b = .ok p2) ↔ a = b :=
  twice_generic (Parsed.inRange · 1 12) (·.month) (fun p f => { p with month := f }) (fun _ _ => rfl) (inRange_inj 1 12) p p1 a b h
theorem twice_week_from_sun (p p1 : Parsed) (a b : Int) (h : p.set_week_from_sun a = .ok p1) :
    (∃ p2, p1.set_week_from_sun b = .ok p2) ↔ a = b :=
  twice_generic (Parsed.inRange · 0 53) (·.week_from_sun) (fun p f => { p with week_from_sun := f }) (fun _ _ => rfl) (inRange_inj 0 53) p p1 a b h
theorem twice_week_from_mon (p p1 : Parsed) (a b : Int) (h : p.set_week_from_mon a = .ok p1) :
    (∃ p2, p1.set_week_from_mon b = .ok p2) ↔ a = b :=
  twice_generic (Parsed.inRange · 0 53) (·.week_from_mon) (fun p f => { p with week_from_mon := f }) (fun _ _ => rfl) (inRange_inj 0 53) p p1 a b h
theorem twice_isoweek (p p1 : Parsed) (a b : Int) (h : p.set_isoweek a = .ok p1) :
    (∃ p2, p1.set_isoweek b = .ok p2) ↔ a = b :=
  twice_generic (Parsed.inRange · 1 53) (·.isoweek) (fun p f => { p with isoweek := f }) (fun _ _ => rfl) (inRange_inj 1 53) p p1 a b h
theorem twice_ordinal (p p1 : Parsed) (a b : Int) (h : p.set_ordinal a = .ok p1) :
    (∃ p2, p1.set_ordinal b = .ok p2) ↔ a = b :=
  twice_generic (Parsed.inRange · 1 366) (·.ordinal) (fun p f => { p with ordinal := f }) (fun _ _ => rfl) (inRange_inj 1 366) p p1 a b h
theorem twice_day (p p1 : Parsed) (a b : Int) (h : p.set_day a = .ok p1) :
    (∃ p2, p1.set_day b = .ok p2) ↔ a = b :=
  twice_generic (Parsed.inRange · 1 31) (·.day) (fun p f => { p with day := f }) (fun _ _ => rfl) (inRange_inj 1 31) p p1 a b h
theorem twice_minute (p p1 : Parsed) (a b : Int) (h : p.set_minute a = .ok p1) :
    (∃ p2, p1.set_minute b = .ok p2) ↔ a = b :=
  twice_generic (Parsed.inRange · 0 59) (·.minute) (fun p f => { p with minute := f }) (fun _ _ => rfl) (inRange_inj 0 59) p p1 a b h
theorem twice_second (p p1 : Parsed) (a b : Int) (h : p.set_second a = .ok p1) :
    (∃ p2, p1.set_second b = .ok p2) ↔ a = b :=
  twice_generic (Parsed.inRange · 0 60) (·.second) (fun p f => { p with second := f }) (fun _ _ => rfl) (inRange_inj 0 60) p p1 a b h
theorem twice_nanosecond (p p1 : Parsed) (a b : Int) (h : p.set_nanosecond a = .ok p1) :
    (∃ p2, p1.set_nanosecond b = .ok p2) ↔ a = b :=
  twice_generic (Parsed.inRange · 0 999999999) (·.nanosecond) (fun p f => { p with nanosecond := f }) (fun _ _ => rfl) (inRange_inj 0 999999999) p p1 a b h
theorem twice_offset (p p1 : Parsed) (a b : Int) (h : p.set_offset a = .ok p1) :
    (∃ p2, p1.set_offset b = .ok p2) ↔ a = b :=
  twice_generic Parsed.toI32 (·.offset) (fun p f => { p with offset := f }) (fun _ _ => rfl) toI32_inj p p1 a b h
theorem twice_timestamp (p p1 : Parsed) (a b : Int) (h : p.set_timestamp a = .ok p1) :
    (∃ p2, p1.set_timestamp b = .ok p2) ↔ a = b :=
  twice_generic (fun v => .ok v) (·.timestamp) (fun p f => { p with timestamp := f }) (fun _ _ => rfl)
    (fun a b x y h1 h2 => by cases h1; cases h2; rfl) p p1 a b h

theorem ebind_ok {ε α β} (x : Except ε α) (f : α → Except ε β) (b : β) :
    (x >>= f) = .ok b ↔ ∃ a, x = .ok a ∧ f a = .ok b := by
  cases x <;> simp [bind, Except.bind]

theorem setIf_ok {α} [DecidableEq α] (old : Option α) (v : α) (f : Option α) :
    Parsed.setIf old v = .ok f ↔ (old = none ∨ old = some v) ∧ f = some v := by
  cases old with
  | none => simp [Parsed.setIf, eq_comm]
  | some o =>
    by_cases h : o = v
    · subst h; simp [Parsed.setIf, eq_comm]
    · simp [Parsed.setIf, h]

/-- `set_hour` stores both halves of the hour -/
theorem set_hour_ok (p p1 : Parsed) (a : Int) :
    p.set_hour a = .ok p1 ↔ (0 ≤ a ∧ a ≤ 23) ∧
      (p.hour_div_12 = none ∨ p.hour_div_12 = some (if a ≤ 11 then 0 else 1)) ∧
      (p.hour_mod_12 = none ∨ p.hour_mod_12 = some (if a ≤ 11 then a else a - 12)) ∧
      p1 = { p with hour_div_12 := some (if a ≤ 11 then 0 else 1),
                    hour_mod_12 := some (if a ≤ 11 then a else a - 12) } := by
  unfold Parsed.set_hour
  by_cases h11 : a ≤ 11
  · simp only [ebind_ok, inRange_ok, setIf_ok, pure, Except.pure, Except.ok.injEq, h11, if_true]
    constructor
    · rintro ⟨x, ⟨hin, rfl⟩, h⟩
      simp only [h11, if_true] at h
      obtain ⟨f, ⟨h1, rfl⟩, g, ⟨h2, rfl⟩, h3⟩ := h
      exact ⟨hin, h1, h2, h3.symm⟩
    · rintro ⟨hin, h1, h2, rfl⟩
      refine ⟨a, ⟨hin, rfl⟩, ?_⟩
      simp only [h11, if_true]
      exact ⟨_, ⟨h1, rfl⟩, _, ⟨h2, rfl⟩, rfl⟩
  · simp only [ebind_ok, inRange_ok, setIf_ok, pure, Except.pure, Except.ok.injEq, h11, if_false]
    constructor
    · rintro ⟨x, ⟨hin, rfl⟩, h⟩
      simp only [h11, if_false] at h
      obtain ⟨f, ⟨h1, rfl⟩, g, ⟨h2, rfl⟩, h3⟩ := h
      exact ⟨hin, h1, h2, h3.symm⟩
    · rintro ⟨hin, h1, h2, rfl⟩
      refine ⟨a, ⟨hin, rfl⟩, ?_⟩
      simp only [h11, if_false]
      exact ⟨_, ⟨h1, rfl⟩, _, ⟨h2, rfl⟩, rfl⟩

theorem twice_hour (p p1 : Parsed) (a b : Int) (h : p.set_hour a = .ok p1) :
    (∃ p2, p1.set_hour b = .ok p2) ↔ a = b := by
  rw [set_hour_ok] at h
  obtain ⟨ha, _, _, rfl⟩ := h
  constructor
  · rintro ⟨p2, h2⟩
    rw [set_hour_ok] at h2
    obtain ⟨hb, h1, h2, _⟩ := h2
    dsimp only at h1 h2
    rcases h1 with h1 | h1
    · cases h1
    rcases h2 with h2 | h2
    · cases h2
    have h1 := Option.some.inj h1
    have h2 := Option.some.inj h2
    omega
  · intro hab
    subst hab
    exact ⟨_, (set_hour_ok _ _ _).mpr ⟨ha, Or.inr rfl, Or.inr rfl, rfl⟩⟩

theorem twice_hour12 (p p1 : Parsed) (a b : Int) (h : p.set_hour12 a = .ok p1) :
    (∃ p2, p1.set_hour12 b = .ok p2) ↔ a = b := by
  unfold Parsed.set_hour12 at h ⊢
  simp only [ebind_ok, inRange_ok, setIf_ok, pure, Except.pure, Except.ok.injEq] at h ⊢
  obtain ⟨x, ⟨ha, rfl⟩, f, ⟨_, rfl⟩, rfl⟩ := h
  constructor
  · rintro ⟨p2, y, ⟨hb, rfl⟩, g, ⟨h1, rfl⟩, _⟩
    dsimp only at h1
    rcases h1 with h1 | h1
    · cases h1
    have h1 := Option.some.inj h1
    omega
  · intro hab
    subst hab
    exact ⟨_, x, ⟨ha, rfl⟩, _, ⟨Or.inr rfl, rfl⟩, rfl⟩

theorem twice_ampm (p p1 : Parsed) (a b : Bool) (h : p.set_ampm a = .ok p1) :
    (∃ p2, p1.set_ampm b = .ok p2) ↔ a = b := by
  unfold Parsed.set_ampm at h ⊢
  simp only [ebind_ok, setIf_ok, pure, Except.pure, Except.ok.injEq] at h ⊢
  obtain ⟨f, ⟨_, rfl⟩, rfl⟩ := h
  constructor
  · rintro ⟨p2, g, ⟨h1, rfl⟩, _⟩
    dsimp only at h1
    rcases h1 with h1 | h1
    · cases h1
    have h1 := Option.some.inj h1
    cases a <;> cases b <;> simp at h1 ⊢
  · intro hab
    subst hab
    exact ⟨_, _, ⟨Or.inr rfl, rfl⟩, rfl⟩

theorem twice_weekday (p p1 : Parsed) (a b : Weekday) (h : p.set_weekday a = .ok p1) :
    (∃ p2, p1.set_weekday b = .ok p2) ↔ a = b := by
  unfold Parsed.set_weekday at h ⊢
  simp only [ebind_ok, setIf_ok, pure, Except.pure, Except.ok.injEq] at h ⊢
  obtain ⟨f, ⟨_, rfl⟩, rfl⟩ := h
  constructor
  · rintro ⟨p2, g, ⟨h1, rfl⟩, _⟩
    dsimp only at h1
    rcases h1 with h1 | h1
    · cases h1
    exact Option.some.inj h1
  · intro hab
    subst hab
    exact ⟨_, _, ⟨Or.inr rfl, rfl⟩, rfl⟩

/-! ### `to_naive_time` -/

theorem hms_some (h m s n : Int) (hh : 0 ≤ h ∧ h < 24) (hm : 0 ≤ m ∧ m < 60) (hs : 0 ≤ s ∧ s < 60)
    (hn : 0 ≤ n ∧ n < 2000000000) (hl : n ≥ 1000000000 → s = 59) :
    Time.from_hms_nano_opt h m s n = some ⟨h * 3600 + m * 60 + s, n⟩ := by
  unfold Time.from_hms_nano_opt
  rw [if_neg]
  omega

theorem time_tail_char (p : Parsed) (hour mi sec n0 : Int) (hh : 0 ≤ hour ∧ hour < 24) (hm : 0 ≤ mi ∧ mi < 60)
    (hs : 0 ≤ sec ∧ sec < 60) (hn0 : n0 = 0 ∨ (n0 = 1000000000 ∧ sec = 59)) (r : PRes Time) :
    Parsed.time_tail p hour mi sec n0 = r ↔
      (match p.nanosecond with
       | some v => if 0 ≤ v ∧ v ≤ 999999999 then
            if p.second ≠ none then r = .ok ⟨hour * 3600 + mi * 60 + sec, n0 + v⟩ else r = .error .notEnough
          else r = .error .outOfRange
       | none => r = .ok ⟨hour * 3600 + mi * 60 + sec, n0⟩) := by
  unfold Parsed.time_tail
  cases hn : p.nanosecond with
  | none =>
    simp only []
    rw [hms_some hour mi sec n0 hh hm hs (by omega) (by omega)]
    exact eq_comm
  | some v =>
    simp only []
    by_cases hv : 0 ≤ v ∧ v ≤ 999999999
    · simp only [hv, and_self, if_true]
      cases hsec : p.second with
      | none => simp [eq_comm]
      | some s =>
        simp only [Option.isSome_some, if_true, ne_eq, reduceCtorEq, not_false_eq_true]
        rw [hms_some hour mi sec (n0 + v) hh hm hs (by omega) (by omega)]
        exact eq_comm
    · simp only [hv, if_false]
      exact eq_comm

theorem time_sound' (p : Parsed) (t : Time) (h : Parsed.to_naive_time p = .ok t) :
    TStrict t ∧ TimeAgrees p t ∧ TimeSufficient p ∧ TimeInRange p := by
  unfold Parsed.to_naive_time at h
  split at h <;> try (cases h; done)
  rename_i hd hhd
  split at h <;> try (cases h; done)
  rename_i rhd
  split at h <;> try (cases h; done)
  rename_i hm hhm
  split at h <;> try (cases h; done)
  rename_i rhm
  split at h <;> try (cases h; done)
  rename_i mi hmi
  split at h <;> try (cases h; done)
  rename_i rmi
  split at h <;> try (cases h; done)
  rename_i rs
  rw [time_tail_char p _ _ _ _ (by omega) (by omega) (by omega) (by omega)] at h
  unfold TStrict TValid TimeAgrees TimeSufficient TimeInRange secondIs nanoIs optIs optIn hourOf minuteOf secondOf
  rw [hhd, hhm, hmi]
  cases hn : p.nanosecond with
  | none =>
    rw [hn] at h
    simp only [] at h
    cases h
    cases hsec : p.second with
    | none =>
      rw [hsec] at rs
      simp only [Option.getD_none] at rs ⊢
      simp
      omega
    | some s =>
      rw [hsec] at rs
      simp only [Option.getD_some] at rs ⊢
      by_cases h60 : s = 60
      · subst h60; simp; omega
      · simp [h60]; omega
  | some v =>
    rw [hn] at h
    simp only [] at h
    split at h
    rotate_left
    · cases h
    rename_i rv
    cases hsec : p.second with
    | none =>
      rw [hsec] at h
      simp at h
    | some s =>
      rw [hsec] at h rs
      simp only [ne_eq, reduceCtorEq, not_false_eq_true, if_true, Option.getD_some] at h rs ⊢
      cases h
      by_cases h60 : s = 60
      · subst h60; simp; omega
      · simp [h60]; omega

theorem time_complete' (p : Parsed) (t : Time) (ht : TStrict t) (ha : TimeAgrees p t)
    (hs : TimeSufficient p) : Parsed.to_naive_time p = .ok t := by
  obtain ⟨⟨t0, t1, f0, f1⟩, hleap⟩ := ht
  obtain ⟨a1, a2, a3, ⟨a4, a4'⟩, ⟨a5, a5'⟩⟩ := ha
  obtain ⟨s1, s2, s3, s4⟩ := hs
  unfold optIs hourOf minuteOf secondOf at *
  obtain ⟨hd, hhd⟩ := Option.ne_none_iff_exists'.mp s1
  obtain ⟨hm, hhm⟩ := Option.ne_none_iff_exists'.mp s2
  obtain ⟨mi, hmi⟩ := Option.ne_none_iff_exists'.mp s3
  have e1 := a1 hd hhd
  have e2 := a2 hm hhm
  have e3 := a3 mi hmi
  unfold Parsed.to_naive_time
  rw [hhd, hhm, hmi]
  simp only []
  rw [if_pos (by omega), if_pos (by omega), if_pos (by omega)]
  cases t with | mk secs frac =>
  simp only [] at *
  cases hsec : p.second with
  | none =>
    have hz := a4' hsec
    have hnn : p.nanosecond = none := by
      cases hn : p.nanosecond with
      | none => rfl
      | some v => exact absurd hsec (s4 (by rw [hn]; simp))
    have hfz := a5' hnn
    simp only [Option.getD_none]
    rw [if_pos (by omega)]
    rw [time_tail_char p _ _ _ _ (by omega) (by omega) (by omega) (by omega)]
    rw [hnn]
    simp only [Time.mk.injEq, Except.ok.injEq]
    omega
  | some s =>
    have hz := a4 s hsec
    simp only [Option.getD_some]
    by_cases h60 : s = 60
    · subst h60
      simp only [if_true] at hz ⊢
      rw [if_pos (by omega)]
      rw [time_tail_char p _ _ _ _ (by omega) (by omega) (by omega) (by omega)]
      cases hn : p.nanosecond with
      | none =>
        have := a5' hn
        simp only [Time.mk.injEq, Except.ok.injEq]
        omega
      | some v =>
        have := a5 v hn
        simp only []
        rw [if_pos (by omega), if_pos (by rw [hsec]; simp)]
        simp only [Time.mk.injEq, Except.ok.injEq]
        omega
    · simp only [h60, if_false] at hz ⊢
      rw [if_pos (by omega)]
      rw [time_tail_char p _ _ _ _ (by omega) (by omega) (by omega) (by omega)]
      cases hn : p.nanosecond with
      | none =>
        have := a5' hn
        simp only [Time.mk.injEq, Except.ok.injEq]
        omega
      | some v =>
        have := a5 v hn
        simp only []
        rw [if_pos (by omega), if_pos (by rw [hsec]; simp)]
        simp only [Time.mk.injEq, Except.ok.injEq]
        omega

theorem time_err' (p : Parsed) (e : PErr) (h : Parsed.to_naive_time p = .error e) :
    (e = .notEnough ∧ ¬ TimeSufficient p) ∨ (e = .outOfRange ∧ ¬ TimeInRange p) := by
  unfold TimeSufficient TimeInRange optIn
  unfold Parsed.to_naive_time at h
  split at h
  · cases h; left; rename_i hn; exact ⟨rfl, fun hs => hs.1 hn⟩
  rename_i hd hhd
  split at h
  rotate_left
  · cases h; right; refine ⟨rfl, fun hs => ?_⟩; have := hs.1 hd hhd; omega
  rename_i rhd
  split at h
  · cases h; left; rename_i hn; exact ⟨rfl, fun hs => hs.2.1 hn⟩
  rename_i hm hhm
  split at h
  rotate_left
  · cases h; right; refine ⟨rfl, fun hs => ?_⟩; have := hs.2.1 hm hhm; omega
  rename_i rhm
  split at h
  · cases h; left; rename_i hn; exact ⟨rfl, fun hs => hs.2.2.1 hn⟩
  rename_i mi hmi
  split at h
  rotate_left
  · cases h; right; refine ⟨rfl, fun hs => ?_⟩; have := hs.2.2.1 mi hmi; omega
  rename_i rmi
  split at h
  rotate_left
  · cases h; right; refine ⟨rfl, fun hs => ?_⟩
    rename_i rs
    cases hsec : p.second with
    | none => rw [hsec] at rs; simp at rs
    | some s => rw [hsec] at rs; have := hs.2.2.2.1 s hsec; simp at rs; omega
  rename_i rs
  rw [time_tail_char p _ _ _ _ (by omega) (by omega) (by omega) (by omega)] at h
  cases hn : p.nanosecond with
  | none => rw [hn] at h; simp at h
  | some v =>
    rw [hn] at h
    simp only [] at h
    split at h
    · split at h
      · cases h
      · cases h; left; rename_i hsn; exact ⟨rfl, fun hs => hsn (hs.2.2.2 (by simp))⟩
    · cases h; right; refine ⟨rfl, fun hs => ?_⟩; have := hs.2.2.2.2 v rfl; omega

end Chrono.Proofs
