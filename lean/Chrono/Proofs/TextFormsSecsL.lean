/-
  C09, outside the side condition "whole-minute offset" for ZONE-AWARE values (second review, G4): a
  `DateTime<FixedOffset>` whose offset has a seconds part prints `…±hh:mm:ss`; the relaxed reader takes
  `±hh:mm` as the offset and `DateTime::from_str` then finds `:ss` left over: `Err(TooLong)`.
-/
import Chrono.Proofs.TextFormsExtL
import Chrono.Proofs.TextFormsMoreL
namespace Chrono.Proofs.TextFormsSecs
open Chrono Chrono.M Chrono.M.Scan Chrono.M.Format Chrono.M.TextForms
open Chrono.Proofs Chrono.Proofs.TextForms Chrono.Proofs.TextFormsExt Chrono.Proofs.RenderScan Chrono.Spec Chrono.Spec.Text
open Chrono.Spec.Fields Chrono.Proofs.ParsedRes Chrono.Extracted

/-- `relaxed_on_text3` with text left over after the offset -/
theorem relaxed_on_text_rest (y : Int) (hy : -1000000 < y ∧ y < 1000000) (m d : Nat) (hm : 1 ≤ m ∧ m ≤ 12)
    (hd : 1 ≤ d ∧ d ≤ 31) (t : Time) (ht : TStrict t) (sep : Nat)
    (hsep : sep = 116 ∨ sep = 84 ∨ sep = 32) (tail tail' rest : List Nat) (offv : Int)
    (hoffv : -1000000 < offv ∧ offv < 1000000)
    (htail : TailOk tail) (htrim : trimStart (trimStart tail) = tail')
    (hT : (if tail'.length ≥ 3 ∧ lowerS (List.take 3 tail') = [117, 116, 99] then
             Except.ok (List.drop 3 tail', (0 : Int))
           else timezone_offset tail' .colonOrSpace true false true) = .ok (rest, offv)) :
    Parse.parse_rfc3339_relaxed Parsed.new (dateText y m d ++ (sep :: (timeText t ++ tail))) =
      .ok (dtRecord y m d t (some offv), rest) := by
  have hd := date_items Parsed.new rfl rfl rfl y hy m d hm hd (sep :: (timeText t ++ tail))
  have htm := time_items
    { Parsed.new with year := some y, month := some ((m : Nat) : Int), day := some ((d : Nat) : Int) }
    rfl rfl rfl rfl rfl t ht tail htail
  have hsepok : (if sep = 116 ∨ sep = 84 ∨ sep = 32 then (Except.ok (timeText t ++ tail) : PRes (List Nat))
      else Except.error PErr.invalid) = Except.ok (timeText t ++ tail) := by
    rw [if_pos hsep]
  unfold Parse.parse_rfc3339_relaxed
  simp only [bind, Except.bind, hd, hsepok, htm, htrim, hT]
  rw [set_offset_new _ rfl offv (by omega)]
  rfl

/-- a leading sign makes `allow_zulu` irrelevant -/
theorem tz_zulu_irrelevant (c : Nat) (hc : c = 43 ∨ c = 45) (s : List Nat) (cm : ColonMode) (a b : Bool) :
    timezone_offset (c :: s) cm true a b = timezone_offset (c :: s) cm false a b := by
  rcases hc with rfl | rfl <;> rfl

/-- every `Time` prints as some strict one does (a leap representation off second 59 as the following
second) -/
theorem timeText_strict (t : Time) (ht : TValid t) : ∃ t', TStrict t' ∧ timeText t = timeText t' := by
  by_cases h : t.frac ≥ 1000000000 ∧ t.secs % 60 ≠ 59
  · obtain ⟨t0, t1, t2, t3⟩ := ht
    have hv : TValid ⟨t.secs + 1, t.frac - 1000000000⟩ :=
      ⟨by dsimp only; omega, by dsimp only; omega, by dsimp only; omega, by dsimp only; omega⟩
    refine ⟨⟨t.secs + 1, t.frac - 1000000000⟩, ⟨hv, Or.inl (by dsimp only; omega)⟩, ?_⟩
    have e := TextFormsMore.time_debug_leap_off_59 t ⟨t0, t1, t2, t3⟩ h.1 h.2
    rw [time_debug_text t ⟨t0, t1, t2, t3⟩, time_debug_text _ hv] at e
    unfold wok at e
    injection e with e
    injection e with e
  · refine ⟨t, ⟨ht, ?_⟩, rfl⟩
    by_cases hl : t.frac < 1000000000
    · exact Or.inl hl
    · exact Or.inr (by omega)

/-- the tail `±hh:mm:ss` of an offset with a seconds part: the offset reader stops before `:ss` -/
theorem offset_tail_secs (off : Int) (h : -86400 < off ∧ off < 86400) (hs : off % 60 ≠ 0) :
    TailOk (offset_debug off) ∧ trimStart (trimStart (offset_debug off)) = offset_debug off ∧
    ∃ v : Int, -86400 < v ∧ v < 86400 ∧
      (if (offset_debug off).length ≥ 3 ∧ lowerS (List.take 3 (offset_debug off)) = [117, 116, 99] then
         Except.ok (List.drop 3 (offset_debug off), (0 : Int))
       else timezone_offset (offset_debug off) .colonOrSpace true false true) =
        .ok (58 :: two (off.natAbs % 60), v) := by
  rw [TextFormsMore.offset_debug_with_seconds off h hs]
  have hsg : (if off < 0 then 45 else 43 : Nat) = 43 ∨ (if off < 0 then 45 else 43 : Nat) = 45 := by
    split <;> simp
  generalize (if off < 0 then 45 else 43 : Nat) = sg at hsg
  have hcos := Chrono.Proofs.RoundTrip.tzoffset_cos sg hsg (off.natAbs / 3600)
    (off.natAbs / 60 % 60) (by omega) (by omega) [58] (Or.inr rfl) (58 :: two (off.natAbs % 60)) false true
  simp only [List.cons_append, List.nil_append] at hcos
  refine ⟨?_, ?_, ?_⟩
  · rcases hsg with rfl | rfl
    · exact tailOk_cons _ _ (by decide) (by decide)
    · exact tailOk_cons _ _ (by decide) (by decide)
  · rcases hsg with rfl | rfl <;> rfl
  · refine ⟨(if sg = 45 then -(((off.natAbs / 3600 : Nat) : Int) * 3600 + ((off.natAbs / 60 % 60 : Nat) : Int) * 60)
        else ((off.natAbs / 3600 : Nat) : Int) * 3600 + ((off.natAbs / 60 % 60 : Nat) : Int) * 60), ?_, ?_, ?_⟩
    rotate_left 2
    · have hno : ¬ ((sg :: (two (off.natAbs / 3600) ++ 58 :: (two (off.natAbs / 60 % 60) ++
          58 :: two (off.natAbs % 60)))).length ≥ 3 ∧
          lowerS (List.take 3 (sg :: (two (off.natAbs / 3600) ++ 58 :: (two (off.natAbs / 60 % 60) ++
          58 :: two (off.natAbs % 60))))) = [117, 116, 99]) := by
        rintro ⟨_, h2⟩
        rcases hsg with rfl | rfl
        · simp [lowerS, two, List.take] at h2
          exact absurd h2.1 (by decide)
        · simp [lowerS, two, List.take] at h2
          exact absurd h2.1 (by decide)
      rw [if_neg hno, tz_zulu_irrelevant sg hsg]
      exact hcos
    · split <;> omega
    · split <;> omega

/-- … and the same after the space the `Display` form puts before the offset -/
theorem offset_tail_secs_space (off : Int) (h : -86400 < off ∧ off < 86400) (hs : off % 60 ≠ 0) :
    trimStart (trimStart (32 :: offset_debug off)) = offset_debug off ∧
    trimStart (58 :: two (off.natAbs % 60)) ≠ [] := by
  rw [TextFormsMore.offset_debug_with_seconds off h hs]
  have hsg : (if off < 0 then 45 else 43 : Nat) = 43 ∨ (if off < 0 then 45 else 43 : Nat) = 45 := by
    split <;> simp
  generalize (if off < 0 then 45 else 43 : Nat) = sg at hsg
  refine ⟨?_, ?_⟩
  · rcases hsg with rfl | rfl <;> rfl
  · intro h; cases h

/-- **reader side**: the text of a wall clock `l` of the extended calendar — date, `T` or space, time —
followed by a tail whose offset part leaves text behind is answered with `Err(TooLong)` -/
theorem fixed_from_text_too_long (l : NaiveDT) (hv : VYO l.date.year l.date.ordinal.toNat)
    (he : l = ⟨dateOfYo l.date.year l.date.ordinal.toNat, l.time⟩) (ht : TValid l.time)
    (sep : Nat) (hsep : sep = 116 ∨ sep = 84 ∨ sep = 32) (tail tail' rest : List Nat) (v : Int)
    (hv' : -86400 < v ∧ v < 86400) (hrest : trimStart rest ≠ [])
    (htail : TailOk tail) (htrim : trimStart (trimStart tail) = tail')
    (hT : (if tail'.length ≥ 3 ∧ lowerS (List.take 3 tail') = [117, 116, 99] then
             Except.ok (List.drop 3 tail', (0 : Int))
           else timezone_offset tail' .colonOrSpace true false true) = .ok (rest, v)) :
    fixed_from_str (naiveText sep l ++ tail) = .ok (.error .tooLong) := by
  obtain ⟨t', hst', htt⟩ := timeText_strict l.time ht
  generalize hYd : l.date.year = Y at *
  generalize hOd : l.date.ordinal.toNat = O at *
  have htext : naiveText sep l ++ tail =
      dateText Y (monthOfYo Y O) (dayOfYo Y O) ++ (sep :: (timeText t' ++ tail)) := by
    unfold naiveText
    have : l.date = dateOfYo Y O := by rw [he]
    rw [this, dateTextOf_yo_ext Y O hv, List.append_assoc, List.cons_append, htt]
  obtain ⟨a1, a2, a3, a4, a5, a6⟩ := vyo_month_day Y O hv
  unfold fixed_from_str
  rw [htext, relaxed_on_text_rest Y ⟨a1, a2⟩ _ _ ⟨a3, a4⟩ ⟨a5, a6⟩ t' hst' sep hsep tail tail' rest v (by omega)
    htail htrim hT]
  simp only [ne_eq, hrest, not_false_eq_true, if_true]
  rfl

end Chrono.Proofs.TextFormsSecs
