/-
  RenderScanL — the decimal render/scan lemma library shared by the text-form properties
  (C09 default text forms, C10 RFC 3339, C11 RFC 2822, C13 strftime round trips).

  Vocabulary
    `AllDigits ds`      every byte of `ds` is an ASCII digit (`Scan.isDigit`)
    `NoDigitHead s`     `s` is empty or starts with a non-digit byte
    `valOf ds`          the number a digit string denotes (leading zeros allowed)
    `two n`             the two-digit rendering `[48 + n/10, 48 + n%10]` (what `write_hundreds` writes)
    `fracVal ds`        nanoseconds denoted by the fraction digits `ds`: the first nine digits, scaled;
                        further digits are dropped (truncation)

  Scanning (`Scan.number`, `Scan.nanosecond`, `Scan.char`, `Scan.timezone_offset`)
    `number_digits`     scanning `ds ++ rest` returns `(rest, valOf ds)` when the run of digits stops
                        at the width limit, at the end of input, or at a non-digit
    `number_exact_iff`  `number s w (some w) = ok (rest, v)`  ↔  `s = ds ++ rest`, `w` digits, `v = valOf ds`
    `number_inv`        inversion of a successful `number`
    `nanosecond_digits`, `nanosecond_inv`, `nanosecond_ok_iff`
    `char_ok_iff`, `tzoffset_numeric(_nocolon)`, `tzoffset_zulu`, `tzoffset_colon_inv`, `tzoffset_colon_ok`

  Rendering (`Format.digits`, `Format.fmtInt`, `Format.write_hundreds`, `Format.write_two`,
  `Format.OffsetFormat.format`)
    `digits_spec`       `digits n` is a non-empty digit string denoting `n`, no longer than needed
    `fmtInt_pad_spec`   `{:0w$}` of `0 ≤ v < 10^w` is a `w`-digit string denoting `v`
    `fmtInt_*`          the sign forms of `fmtInt`
    `write_hundreds_eq` `write_hundreds n = wok (two n)` for `0 ≤ n < 100`
    `number_two`, `number_fmtInt`, `nanosecond_fmtInt`  render-then-scan round trips
    `offset_minutes_eq` the text of `OffsetFormat{Minutes, colons, zulu, Pad::Zero}`
-/
import Chrono.Model.Format
import Chrono.Model.Parse
import Chrono.Proofs.PrimL
import Mathlib.Tactic.Ring

namespace Chrono.Proofs.RenderScan
open Chrono Chrono.M Chrono.M.Scan

/-! ### vocabulary -/

def AllDigits (ds : List Nat) : Prop := ∀ c ∈ ds, isDigit c = true
def NoDigitHead (s : List Nat) : Prop := ∀ c t, s = c :: t → isDigit c = false
def valOf (ds : List Nat) : Nat := ds.foldl (fun a c => a * 10 + (c - 48)) 0
/-- the two-digit rendering of `n < 100` -/
def two (n : Nat) : List Nat := [48 + n / 10, 48 + n % 10]
/-- nanoseconds denoted by a string of fraction digits (digits after the ninth are dropped) -/
def fracVal (ds : List Nat) : Nat := valOf (ds.take 9) * 10 ^ (9 - (ds.take 9).length)

instance (ds : List Nat) : Decidable (AllDigits ds) := by unfold AllDigits; exact inferInstance

theorem isDigit_iff (c : Nat) : isDigit c = true ↔ 48 ≤ c ∧ c ≤ 57 := by
  simp [isDigit]

theorem isDigit_false_iff (c : Nat) : isDigit c = false ↔ ¬ (48 ≤ c ∧ c ≤ 57) := by
  rw [← isDigit_iff]; cases isDigit c <;> simp

theorem allDigits_nil : AllDigits [] := by intro c h; cases h

theorem allDigits_cons {c : Nat} {ds : List Nat} : AllDigits (c :: ds) ↔ isDigit c = true ∧ AllDigits ds := by
  unfold AllDigits
  constructor
  · intro h; exact ⟨h c (List.mem_cons_self ..), fun x hx => h x (List.mem_cons_of_mem _ hx)⟩
  · intro ⟨h1, h2⟩ x hx
    rcases List.mem_cons.mp hx with rfl | hx
    · exact h1
    · exact h2 x hx

theorem allDigits_append {a b : List Nat} : AllDigits (a ++ b) ↔ AllDigits a ∧ AllDigits b := by
  unfold AllDigits
  constructor
  · intro h; exact ⟨fun c hc => h c (List.mem_append_left _ hc), fun c hc => h c (List.mem_append_right _ hc)⟩
  · intro ⟨h1, h2⟩ c hc
    rcases List.mem_append.mp hc with hc | hc
    · exact h1 c hc
    · exact h2 c hc

theorem allDigits_replicate (k : Nat) : AllDigits (List.replicate k 48) := by
  intro c hc
  rw [List.eq_of_mem_replicate hc]; decide

theorem allDigits_take {ds : List Nat} (h : AllDigits ds) (k : Nat) : AllDigits (ds.take k) :=
  fun c hc => h c (List.mem_of_mem_take hc)

theorem allDigits_drop {ds : List Nat} (h : AllDigits ds) (k : Nat) : AllDigits (ds.drop k) :=
  fun c hc => h c (List.mem_of_mem_drop hc)

theorem noDigitHead_nil : NoDigitHead [] := by intro c t h; cases h

theorem noDigitHead_cons {c : Nat} {t : List Nat} : NoDigitHead (c :: t) ↔ isDigit c = false := by
  unfold NoDigitHead
  constructor
  · intro h; exact h c t rfl
  · intro h c' t' e; injection e with e1 _; rw [← e1]; exact h

/-! ### the value of a digit string -/

theorem foldl_val (ds : List Nat) : ∀ a : Nat,
    ds.foldl (fun a c => a * 10 + (c - 48)) a = a * 10 ^ ds.length + valOf ds := by
  induction ds with
  | nil => intro a; simp [valOf]
  | cons c ds ih =>
    intro a
    unfold valOf
    simp only [List.foldl_cons, List.length_cons]
    rw [ih, ih (0 * 10 + (c - 48))]
    ring

theorem valOf_nil : valOf [] = 0 := rfl

theorem valOf_cons (c : Nat) (ds : List Nat) : valOf (c :: ds) = (c - 48) * 10 ^ ds.length + valOf ds := by
  unfold valOf
  simp only [List.foldl_cons]
  rw [foldl_val]; simp [valOf]

theorem valOf_append (a b : List Nat) : valOf (a ++ b) = valOf a * 10 ^ b.length + valOf b := by
  unfold valOf
  rw [List.foldl_append, foldl_val]; rfl

theorem valOf_replicate_zero (k : Nat) : valOf (List.replicate k 48) = 0 := by
  induction k with
  | zero => rfl
  | succ k ih => rw [List.replicate_succ, valOf_cons, ih]; simp

theorem valOf_lt (ds : List Nat) (h : AllDigits ds) : valOf ds < 10 ^ ds.length := by
  induction ds with
  | nil => simp [valOf]
  | cons c ds ih =>
    obtain ⟨h1, h2⟩ := allDigits_cons.mp h
    have := ih h2
    rw [valOf_cons, List.length_cons, Nat.pow_succ]
    have hc := (isDigit_iff c).mp h1
    have : (c - 48) * 10 ^ ds.length ≤ 9 * 10 ^ ds.length := Nat.mul_le_mul_right _ (by omega)
    omega

theorem valOf_two (n : Nat) (h : n < 100) : valOf (two n) = n := by
  simp only [two, valOf, List.foldl_cons, List.foldl_nil]; omega

theorem allDigits_two (n : Nat) (h : n < 100) : AllDigits (two n) := by
  intro c hc
  simp only [two, List.mem_cons, List.not_mem_nil, or_false] at hc
  rw [isDigit_iff]
  rcases hc with rfl | rfl <;> omega

theorem two_length (n : Nat) : (two n).length = 2 := rfl

/-- two digits are `two` of their value -/
theorem two_of_digits (a b : Nat) (ha : isDigit a = true) (hb : isDigit b = true) :
    [a, b] = two (valOf [a, b]) ∧ valOf [a, b] = (a - 48) * 10 + (b - 48) ∧ valOf [a, b] < 100 := by
  have h1 := (isDigit_iff a).mp ha
  have h2 := (isDigit_iff b).mp hb
  have hv : valOf [a, b] = (a - 48) * 10 + (b - 48) := by simp [valOf]
  refine ⟨?_, hv, by omega⟩
  rw [hv, two]
  congr 1
  · omega
  · congr 1; omega

/-! ### `Scan.number` -/

theorem numberAux_some (s : List Nat) (i min m : Nat) (n : Int) :
    numberAux s i min (some m) n = if i ≥ m then .ok (s, n) else numberAux.step s i min (some m) n := by
  rw [numberAux]

theorem numberAux_none (s : List Nat) (i min : Nat) (n : Int) :
    numberAux s i min none n = numberAux.step s i min none n := by
  rw [numberAux]

theorem step_digit (c : Nat) (rest : List Nat) (i min : Nat) (max : Option Nat) (n : Int)
    (hc : isDigit c = true) :
    numberAux.step (c :: rest) i min max n =
      if n * 10 + ((c - 48 : Nat) : Int) > I64_MAX then .error .outOfRange
      else numberAux rest (i + 1) min max (n * 10 + ((c - 48 : Nat) : Int)) := by
  rw [numberAux.step]; simp [hc]

theorem step_nondigit (c : Nat) (rest : List Nat) (i min : Nat) (max : Option Nat) (n : Int)
    (hc : isDigit c = false) :
    numberAux.step (c :: rest) i min max n = if i < min then .error .invalid else .ok (c :: rest, n) := by
  rw [numberAux.step]; simp [hc]

/-- a run of digits is consumed as long as the width limit allows and the value fits `i64` -/
theorem numberAux_digits (ds : List Nat) (hd : AllDigits ds) (rest : List Nat) (min : Nat)
    (max : Option Nat) : ∀ (i acc : Nat), (∀ m, max = some m → i + ds.length ≤ m) →
      acc * 10 ^ ds.length + valOf ds ≤ 9223372036854775807 →
      numberAux (ds ++ rest) i min max (acc : Int) =
        numberAux rest (i + ds.length) min max ((acc * 10 ^ ds.length + valOf ds : Nat) : Int) := by
  induction ds with
  | nil => intro i acc _ _; simp [valOf]
  | cons c ds ih =>
    intro i acc hm hv
    obtain ⟨h1, h2⟩ := allDigits_cons.mp hd
    rw [valOf_cons, List.length_cons, Nat.pow_succ] at hv
    have hpos : 1 ≤ 10 ^ ds.length := Nat.one_le_two_pow.trans (Nat.pow_le_pow_left (by omega) _)
    have hle : acc * 10 + (c - 48) ≤ (acc * 10 + (c - 48)) * 10 ^ ds.length :=
      Nat.le_mul_of_pos_right _ hpos
    have heq : (acc * 10 + (c - 48)) * 10 ^ ds.length + valOf ds =
        acc * (10 ^ ds.length * 10) + ((c - 48) * 10 ^ ds.length + valOf ds) := by ring
    have hcast : (acc : Int) * 10 + ((c - 48 : Nat) : Int) = ((acc * 10 + (c - 48) : Nat) : Int) := by
      push_cast; rfl
    have hstep : numberAux.step (c :: (ds ++ rest)) i min max (acc : Int) =
        numberAux (ds ++ rest) (i + 1) min max ((acc * 10 + (c - 48) : Nat) : Int) := by
      rw [step_digit _ _ _ _ _ _ h1, hcast, if_neg]
      simp only [I64_MAX]; omega
    have hrec := ih h2 (i + 1) (acc * 10 + (c - 48))
      (by intro m hmx; have := hm m hmx; simp only [List.length_cons] at this; omega)
      (by omega)
    have hfin : (acc * 10 + (c - 48)) * 10 ^ ds.length + valOf ds =
        acc * 10 ^ (c :: ds).length + valOf (c :: ds) := by
      rw [valOf_cons, List.length_cons, Nat.pow_succ]; exact heq
    have hidx : i + 1 + ds.length = i + (c :: ds).length := by simp only [List.length_cons]; omega
    rw [hfin, hidx] at hrec
    cases max with
    | none => rw [List.cons_append, numberAux_none, hstep, hrec]
    | some m =>
      have := hm m rfl
      simp only [List.length_cons] at this
      rw [List.cons_append, numberAux_some, if_neg (by omega), hstep, hrec]

/-- where a scan that has consumed its digits stops -/
theorem numberAux_stop (rest : List Nat) (i min : Nat) (max : Option Nat) (n : Int)
    (hmin : min ≤ i) (h : max = some i ∨ NoDigitHead rest) :
    numberAux rest i min max n = .ok (rest, n) := by
  rcases h with h | h
  · subst h; rw [numberAux_some, if_pos (Nat.le_refl _)]
  · have hs : numberAux.step rest i min max n = .ok (rest, n) := by
      cases rest with
      | nil => rw [numberAux.step]
      | cons c t => rw [step_nondigit _ _ _ _ _ _ (noDigitHead_cons.mp h), if_neg (by omega)]
    cases max with
    | none => rw [numberAux_none, hs]
    | some m =>
      rw [numberAux_some]
      split
      · rfl
      · exact hs

/-- **scan of a digit run**: `ds` followed by the end of input, a non-digit, or the width limit -/
theorem number_digits (ds rest : List Nat) (min : Nat) (max : Option Nat) (hd : AllDigits ds)
    (hmin : min ≤ ds.length) (hmax : ∀ m, max = some m → ds.length ≤ m)
    (hstop : max = some ds.length ∨ NoDigitHead rest) (hfit : ds.length ≤ 18) :
    number (ds ++ rest) min max = .ok (rest, (valOf ds : Int)) := by
  unfold number
  rw [if_neg (by simp only [List.length_append]; omega)]
  have hv := valOf_lt ds hd
  have hp : 10 ^ ds.length ≤ 10 ^ 18 := Nat.pow_le_pow_right (by omega) hfit
  have h := numberAux_digits ds hd rest min max 0 0 (by intro m hm; have := hmax m hm; omega)
    (by norm_num at hp ⊢; omega)
  simp only [Nat.zero_mul, Nat.zero_add, Nat.cast_zero] at h
  rw [h]
  exact numberAux_stop rest ds.length min max _ hmin hstop

/-- inversion of the digit loop -/
theorem numberAux_inv : ∀ (s : List Nat) (i min : Nat) (max : Option Nat) (acc : Nat) (rest : List Nat)
    (v : Int), (∀ m, max = some m → i ≤ m) → numberAux s i min max (acc : Int) = .ok (rest, v) →
    ∃ ds, AllDigits ds ∧ s = ds ++ rest ∧ v = ((acc * 10 ^ ds.length + valOf ds : Nat) : Int) ∧
      (∀ m, max = some m → i + ds.length ≤ m) ∧
      (max = some (i + ds.length) ∨ rest = [] ∨ (NoDigitHead rest ∧ min ≤ i + ds.length)) := by
  intro s
  induction s with
  | nil =>
    intro i min max acc rest v hm h
    have hs : numberAux.step [] i min max (acc : Int) = .ok ([], (acc : Int)) := by rw [numberAux.step]
    have : rest = [] ∧ v = (acc : Int) := by
      cases max with
      | none => rw [numberAux_none, hs] at h; injection h with h; injection h with h1 h2; exact ⟨h1.symm, h2.symm⟩
      | some m =>
        rw [numberAux_some] at h
        split at h
        · injection h with h; injection h with h1 h2; exact ⟨h1.symm, h2.symm⟩
        · rw [hs] at h; injection h with h; injection h with h1 h2; exact ⟨h1.symm, h2.symm⟩
    obtain ⟨rfl, rfl⟩ := this
    exact ⟨[], allDigits_nil, rfl, by simp [valOf], by intro m hmx; simpa using hm m hmx, Or.inr (Or.inl rfl)⟩
  | cons c t ih =>
    intro i min max acc rest v hm h
    -- the case "stopped by the width limit before looking at `c`"
    by_cases hlim : max = some i
    · subst hlim
      rw [numberAux_some, if_pos (Nat.le_refl _)] at h
      injection h with h; injection h with h1 h2
      exact ⟨[], allDigits_nil, by simpa using h1, by simp [valOf, ← h2], by intro m hmx; simpa using hm m hmx,
        Or.inl (by simp)⟩
    · have hstep : numberAux.step (c :: t) i min max (acc : Int) = .ok (rest, v) := by
        cases max with
        | none => rwa [numberAux_none] at h
        | some m =>
          rw [numberAux_some] at h
          have := hm m rfl
          have hne : ¬ i ≥ m := by
            intro hge; apply hlim; congr 1; omega
          rwa [if_neg hne] at h
      cases hc : isDigit c with
      | false =>
        rw [step_nondigit _ _ _ _ _ _ hc] at hstep
        split at hstep
        · cases hstep
        · injection hstep with h; injection h with h1 h2
          refine ⟨[], allDigits_nil, by simpa using h1, by simp [valOf, ← h2], by intro m hmx; simpa using hm m hmx,
            Or.inr (Or.inr ⟨?_, by simp; omega⟩)⟩
          rw [← h1]; exact noDigitHead_cons.mpr hc
      | true =>
        rw [step_digit _ _ _ _ _ _ hc] at hstep
        split at hstep
        · cases hstep
        · have hcast : (acc : Int) * 10 + ((c - 48 : Nat) : Int) = ((acc * 10 + (c - 48) : Nat) : Int) := by
            push_cast; rfl
          rw [hcast] at hstep
          have hm' : ∀ m, max = some m → i + 1 ≤ m := by
            intro m hmx
            have := hm m hmx
            have : i ≠ m := by intro e; apply hlim; rw [hmx, e]
            omega
          obtain ⟨ds, d1, d2, d3, d4, d5⟩ := ih (i + 1) min max (acc * 10 + (c - 48)) rest v hm' hstep
          have hfin : (acc * 10 + (c - 48)) * 10 ^ ds.length + valOf ds =
              acc * 10 ^ (c :: ds).length + valOf (c :: ds) := by
            rw [valOf_cons, List.length_cons, Nat.pow_succ]; ring
          have hidx : i + 1 + ds.length = i + (c :: ds).length := by simp only [List.length_cons]; omega
          refine ⟨c :: ds, allDigits_cons.mpr ⟨hc, d1⟩, by rw [d2]; rfl, by rw [d3, hfin], ?_, ?_⟩
          · intro m hmx; rw [← hidx]; exact d4 m hmx
          · rw [← hidx]; exact d5

/-- **inversion of `number`** (for `min ≤ max`) -/
theorem number_inv (s : List Nat) (min : Nat) (max : Option Nat) (rest : List Nat) (v : Int)
    (hmm : ∀ m, max = some m → min ≤ m) (h : number s min max = .ok (rest, v)) :
    ∃ ds, AllDigits ds ∧ s = ds ++ rest ∧ v = (valOf ds : Int) ∧ min ≤ ds.length ∧
      (∀ m, max = some m → ds.length ≤ m) ∧ (max = some ds.length ∨ NoDigitHead rest) := by
  unfold number at h
  split at h
  · cases h
  · rename_i hlen
    obtain ⟨ds, d1, d2, d3, d4, d5⟩ := numberAux_inv s 0 min max 0 rest v (by intro m _; omega)
      (by simpa using h)
    simp only [Nat.zero_mul, Nat.zero_add] at d3 d4 d5
    refine ⟨ds, d1, d2, d3, ?_, d4, ?_⟩
    · rcases d5 with d5 | d5 | d5
      · exact hmm _ d5
      · subst d5; rw [d2] at hlen; simp at hlen; omega
      · exact d5.2
    · rcases d5 with d5 | d5 | d5
      · exact Or.inl d5
      · subst d5; exact Or.inr noDigitHead_nil
      · exact Or.inr d5.1

/-- **fixed-width fields**: `number s w w` succeeds exactly on `w` digits -/
theorem number_exact_iff (s : List Nat) (w : Nat) (hw : w ≤ 18) (rest : List Nat) (v : Int) :
    number s w (some w) = .ok (rest, v) ↔
      ∃ ds, AllDigits ds ∧ ds.length = w ∧ s = ds ++ rest ∧ v = (valOf ds : Int) := by
  constructor
  · intro h
    obtain ⟨ds, d1, d2, d3, d4, d5, _⟩ := number_inv s w (some w) rest v (by intro m hm; injection hm with hm; omega) h
    exact ⟨ds, d1, by have := d5 w rfl; omega, d2, d3⟩
  · rintro ⟨ds, d1, d2, rfl, rfl⟩
    exact number_digits ds rest w (some w) d1 (by omega) (by intro m hm; injection hm with hm; omega)
      (Or.inl (by rw [d2])) (by omega)

/-- a failing fixed-width scan: fewer than `w` leading digits (used for rejection lemmas) -/
theorem number_exact_ok_of_digits (ds rest : List Nat) (w : Nat) (hw : w ≤ 18) (hd : AllDigits ds)
    (hl : ds.length = w) : number (ds ++ rest) w (some w) = .ok (rest, (valOf ds : Int)) :=
  (number_exact_iff _ w hw rest _).mpr ⟨ds, hd, hl, rfl, rfl⟩

theorem number_two (n : Nat) (h : n < 100) (rest : List Nat) :
    number (two n ++ rest) 2 (some 2) = .ok (rest, (n : Int)) := by
  have := number_exact_ok_of_digits (two n) rest 2 (by omega) (allDigits_two n h) rfl
  rwa [valOf_two n h] at this

/-! ### `Scan.char` -/

theorem char_ok_iff (s : List Nat) (c : Nat) (rest : List Nat) : Scan.char s c = .ok rest ↔ s = c :: rest := by
  unfold Scan.char
  cases s with
  | nil => simp
  | cons a t =>
    simp only
    constructor
    · intro h
      split at h
      · rename_i e; injection h with h; rw [e, h]
      · cases h
    · intro h; injection h with h1 h2; rw [if_pos h1, h2]

theorem char_cons (c : Nat) (rest : List Nat) : Scan.char (c :: rest) c = .ok rest :=
  (char_ok_iff _ _ _).mpr rfl

/-! ### `dropDigits`, `Scan.nanosecond` -/

theorem dropDigits_digits (ds rest : List Nat) (hd : AllDigits ds) (hr : NoDigitHead rest) :
    dropDigits (ds ++ rest) = rest := by
  induction ds with
  | nil =>
    cases rest with
    | nil => rfl
    | cons c t => simp only [List.nil_append, dropDigits, noDigitHead_cons.mp hr]; rfl
  | cons c ds ih =>
    obtain ⟨h1, h2⟩ := allDigits_cons.mp hd
    simp only [List.cons_append, dropDigits, h1, if_true]
    exact ih h2

theorem dropDigits_inv (s : List Nat) :
    ∃ ds, AllDigits ds ∧ s = ds ++ dropDigits s ∧ NoDigitHead (dropDigits s) := by
  induction s with
  | nil => exact ⟨[], allDigits_nil, rfl, noDigitHead_nil⟩
  | cons c t ih =>
    cases hc : isDigit c with
    | true =>
      obtain ⟨ds, d1, d2, d3⟩ := ih
      have e : dropDigits (c :: t) = dropDigits t := by simp only [dropDigits, hc, if_true]
      rw [e]
      exact ⟨c :: ds, allDigits_cons.mpr ⟨hc, d1⟩, by rw [List.cons_append, ← d2], d3⟩
    | false =>
      have e : dropDigits (c :: t) = c :: t := by simp [dropDigits, hc]
      rw [e]
      exact ⟨[], allDigits_nil, rfl, noDigitHead_cons.mpr hc⟩

theorem scale_getD (k : Nat) (h1 : 1 ≤ k) (h9 : k ≤ 9) : SCALE.getD k 0 = ((10 ^ (9 - k) : Nat) : Int) := by
  have : ∀ k < 10, 1 ≤ k → SCALE.getD k 0 = ((10 ^ (9 - k) : Nat) : Int) := by decide
  exact this k (by omega) h1

/-- **fraction digits**: any non-empty run of digits followed by a non-digit (or the end) scans to
the nanoseconds denoted by its first nine digits -/
theorem nanosecond_digits (ds rest : List Nat) (hd : AllDigits ds) (hl : 1 ≤ ds.length)
    (hr : NoDigitHead rest) : nanosecond (ds ++ rest) = .ok (rest, (fracVal ds : Int)) := by
  have hsplit : ds ++ rest = ds.take 9 ++ (ds.drop 9 ++ rest) := by
    rw [← List.append_assoc, List.take_append_drop]
  have ht := allDigits_take hd 9
  have hlt : (ds.take 9).length = min 9 ds.length := List.length_take ..
  have hnum : number (ds ++ rest) 1 (some 9) = .ok (ds.drop 9 ++ rest, (valOf (ds.take 9) : Int)) := by
    rw [hsplit]
    refine number_digits (ds.take 9) _ 1 (some 9) ht (by omega)
      (by intro m hm; injection hm with hm; omega) ?_ (by omega)
    by_cases h9 : 9 ≤ ds.length
    · left; congr 1; omega
    · right
      have : ds.drop 9 = [] := List.drop_eq_nil_of_le (by omega)
      rw [this]; exact hr
  unfold nanosecond
  rw [hnum]
  simp only
  have hcons : (ds ++ rest).length - (ds.drop 9 ++ rest).length = (ds.take 9).length := by
    simp only [List.length_append, List.length_drop]; omega
  have hk1 : 1 ≤ (ds.take 9).length := by omega
  have hk9 : (ds.take 9).length ≤ 9 := by omega
  rw [hcons, scale_getD _ hk1 hk9, dropDigits_digits _ _ (allDigits_drop hd 9) hr]
  have hv := valOf_lt _ ht
  have hb : valOf (ds.take 9) * 10 ^ (9 - (ds.take 9).length) < 1000000000 := by
    have : 10 ^ (ds.take 9).length * 10 ^ (9 - (ds.take 9).length) = 10 ^ 9 := by
      rw [← Nat.pow_add]; congr 1; omega
    have h2 : 0 < 10 ^ (9 - (ds.take 9).length) := Nat.pow_pos (by omega)
    calc valOf (ds.take 9) * 10 ^ (9 - (ds.take 9).length)
        < 10 ^ (ds.take 9).length * 10 ^ (9 - (ds.take 9).length) := Nat.mul_lt_mul_of_pos_right hv h2
      _ = 10 ^ 9 := this
      _ = 1000000000 := by norm_num
  have hcast : (valOf (ds.take 9) : Int) * ((10 ^ (9 - (ds.take 9).length) : Nat) : Int) =
      ((valOf (ds.take 9) * 10 ^ (9 - (ds.take 9).length) : Nat) : Int) := by push_cast; rfl
  rw [hcast, if_neg]
  · rfl
  · simp only [I64_MAX]; omega

theorem fracVal_lt (ds : List Nat) (hd : AllDigits ds) : fracVal ds < 1000000000 := by
  unfold fracVal
  have ht := allDigits_take hd 9
  have hv := valOf_lt _ ht
  have hk9 : (ds.take 9).length ≤ 9 := by rw [List.length_take]; exact Nat.min_le_left ..
  have : 10 ^ (ds.take 9).length * 10 ^ (9 - (ds.take 9).length) = 10 ^ 9 := by
    rw [← Nat.pow_add]; congr 1; omega
  have h2 : 0 < 10 ^ (9 - (ds.take 9).length) := Nat.pow_pos (by omega)
  calc valOf (ds.take 9) * 10 ^ (9 - (ds.take 9).length)
      < 10 ^ (ds.take 9).length * 10 ^ (9 - (ds.take 9).length) := Nat.mul_lt_mul_of_pos_right hv h2
    _ = 10 ^ 9 := this
    _ = 1000000000 := by norm_num

/-- inversion of `nanosecond` -/
theorem nanosecond_inv (s rest : List Nat) (v : Int) (h : nanosecond s = .ok (rest, v)) :
    ∃ ds, AllDigits ds ∧ 1 ≤ ds.length ∧ s = ds ++ rest ∧ NoDigitHead rest ∧ v = (fracVal ds : Int) := by
  unfold nanosecond at h
  split at h
  · cases h
  · rename_i r1 v1 hnum
    obtain ⟨d1, a1, a2, a3, a4, a5, a6⟩ := number_inv s 1 (some 9) r1 v1
      (by intro m hm; injection hm with hm; omega) hnum
    obtain ⟨d2, b1, b2, b3⟩ := dropDigits_inv r1
    have hspec := nanosecond_digits (d1 ++ d2) (dropDigits r1) (allDigits_append.mpr ⟨a1, b1⟩)
      (by simp only [List.length_append]; omega) b3
    have hs : s = (d1 ++ d2) ++ dropDigits r1 := by rw [List.append_assoc, ← b2, ← a2]
    have hfull : nanosecond s = .ok (rest, v) := by
      unfold nanosecond; rw [hnum]; exact h
    rw [hs, hspec] at hfull
    injection hfull with hfull; injection hfull with e1 e2
    exact ⟨d1 ++ d2, allDigits_append.mpr ⟨a1, b1⟩, by simp only [List.length_append]; omega,
      by rw [← e1]; exact hs, by rw [← e1]; exact b3, e2.symm⟩

theorem nanosecond_ok_iff (s rest : List Nat) (v : Int) :
    nanosecond s = .ok (rest, v) ↔
      ∃ ds, AllDigits ds ∧ 1 ≤ ds.length ∧ s = ds ++ rest ∧ NoDigitHead rest ∧ v = (fracVal ds : Int) := by
  constructor
  · exact nanosecond_inv s rest v
  · rintro ⟨ds, h1, h2, rfl, h4, rfl⟩; exact nanosecond_digits ds rest h1 h2 h4

/-! ### rendering: `Format.digits`, `Format.fmtInt`, `write_hundreds`, `write_two` -/

theorem isDigit_digitChar (d : Nat) : isDigit (Delta.digitChar d) = true := by
  rw [isDigit_iff]; unfold Delta.digitChar; omega

theorem natDigitsAux_spec : ∀ (fuel n : Nat), n < fuel → ∃ ds : List Nat,
    (∀ acc, Delta.natDigitsAux fuel n acc = ds ++ acc) ∧ AllDigits ds ∧ valOf ds = n ∧ 1 ≤ ds.length ∧
    (∀ w, 1 ≤ w → n < 10 ^ w → ds.length ≤ w) ∧ (10 ≤ n → 10 ^ (ds.length - 1) ≤ n) := by
  intro fuel
  induction fuel with
  | zero => intro n h; omega
  | succ f ih =>
    intro n hn
    by_cases h10 : n < 10
    · refine ⟨[Delta.digitChar n], ?_, ?_, ?_, by simp, ?_, by omega⟩
      · intro acc; simp only [Delta.natDigitsAux, h10, if_true, List.singleton_append]
      · exact allDigits_cons.mpr ⟨isDigit_digitChar n, allDigits_nil⟩
      · simp only [valOf, List.foldl_cons, List.foldl_nil, Delta.digitChar]; omega
      · intro w hw _; simpa using hw
    · obtain ⟨ds, h1, h2, h3, h4, h5, h6⟩ := ih (n / 10) (by omega)
      refine ⟨ds ++ [Delta.digitChar (n % 10)], ?_, ?_, ?_, by simp, ?_, ?_⟩
      · intro acc
        simp only [Delta.natDigitsAux, h10, if_false, h1, List.append_assoc, List.singleton_append]
      · exact allDigits_append.mpr ⟨h2, allDigits_cons.mpr ⟨isDigit_digitChar _, allDigits_nil⟩⟩
      · rw [valOf_append, h3]
        simp only [valOf, List.foldl_cons, List.foldl_nil, Delta.digitChar, List.length_singleton]; omega
      · intro w hw hlt
        obtain ⟨w', rfl⟩ : ∃ w', w = w' + 1 := ⟨w - 1, by omega⟩
        have hw' : 1 ≤ w' := by
          rcases Nat.eq_zero_or_pos w' with h0 | h0
          · subst h0; simp at hlt; omega
          · exact h0
        have : n / 10 < 10 ^ w' := by rw [Nat.pow_succ] at hlt; omega
        have := h5 w' hw' this
        simp only [List.length_append, List.length_singleton]; omega
      · intro _
        simp only [List.length_append, List.length_singleton, Nat.add_sub_cancel]
        by_cases h100 : 10 ≤ n / 10
        · have := h6 h100
          obtain ⟨k, hk⟩ : ∃ k, ds.length = k + 1 := ⟨ds.length - 1, by omega⟩
          rw [hk] at this ⊢
          simp only [Nat.add_sub_cancel] at this
          rw [Nat.pow_succ]; omega
        · have hl : ds.length ≤ 1 := h5 1 (by omega) (by omega)
          have : ds.length = 1 := by omega
          rw [this]; omega

/-- **the digit printer**: `digits n` is a non-empty digit string denoting `n`, of minimal length -/
theorem digits_spec (n : Nat) :
    AllDigits (Format.digits n) ∧ valOf (Format.digits n) = n ∧ 1 ≤ (Format.digits n).length ∧
    (∀ w, 1 ≤ w → n < 10 ^ w → (Format.digits n).length ≤ w) ∧
    (10 ≤ n → 10 ^ ((Format.digits n).length - 1) ≤ n) := by
  obtain ⟨ds, h1, h2, h3, h4, h5, h6⟩ := natDigitsAux_spec (n + 1) n (by omega)
  have : Format.digits n = ds := by
    unfold Format.digits Delta.natDigits; rw [h1, List.append_nil]
  rw [this]; exact ⟨h2, h3, h4, h5, h6⟩

/-- `fmtInt` of a non-negative value without the `+` flag, zero padding -/
theorem fmtInt_zero_nonneg (v : Int) (w : Nat) (h0 : 0 ≤ v) :
    Format.fmtInt v w .zero false =
      List.replicate (w - (Format.digits v.toNat).length) 48 ++ Format.digits v.toNat := by
  unfold Format.fmtInt
  have hn : ¬ v < 0 := by omega
  have e : v.natAbs = v.toNat := by omega
  simp [hn, e]

/-- **`{:0w$}`** of `0 ≤ v < 10^w`: exactly `w` digits denoting `v` -/
theorem fmtInt_pad_spec (v : Int) (w : Nat) (h0 : 0 ≤ v) (hw : 1 ≤ w) (hlt : v < ((10 ^ w : Nat) : Int)) :
    AllDigits (Format.fmtInt v w .zero false) ∧ (Format.fmtInt v w .zero false).length = w ∧
    valOf (Format.fmtInt v w .zero false) = v.toNat := by
  rw [fmtInt_zero_nonneg v w h0]
  obtain ⟨h1, h2, h3, h4, _⟩ := digits_spec v.toNat
  have hl := h4 w hw (by omega)
  refine ⟨allDigits_append.mpr ⟨allDigits_replicate _, h1⟩, ?_, ?_⟩
  · simp only [List.length_append, List.length_replicate]; omega
  · rw [valOf_append, valOf_replicate_zero, h2]; simp

/-- `{}` (no width) of a non-negative value: its digits -/
theorem fmtInt_none_nonneg (v : Int) (w : Nat) (h0 : 0 ≤ v) :
    Format.fmtInt v w .none false = Format.digits v.toNat := by
  unfold Format.fmtInt
  have hn : ¬ v < 0 := by omega
  have e : v.natAbs = v.toNat := by omega
  simp [hn, e]

/-- `{}` of a negative value: `-` and the digits of the magnitude -/
theorem fmtInt_none_neg (v : Int) (w : Nat) (plus : Bool) (h0 : v < 0) :
    Format.fmtInt v w .none plus = 45 :: Format.digits v.natAbs := by
  unfold Format.fmtInt; simp [h0]

/-- `{:+0w$}`: explicit sign, then zero padding to `w - 1` digits -/
theorem fmtInt_zero_signed (v : Int) (w : Nat) :
    Format.fmtInt v w .zero true =
      (if v < 0 then 45 else 43) ::
        (List.replicate (w - 1 - (Format.digits v.natAbs).length) 48 ++ Format.digits v.natAbs) := by
  unfold Format.fmtInt
  by_cases h : v < 0 <;> simp [h]

/-- `{:0w$}` of a negative value: `-`, then zero padding to `w - 1` digits -/
theorem fmtInt_zero_neg (v : Int) (w : Nat) (h0 : v < 0) :
    Format.fmtInt v w .zero false =
      45 :: (List.replicate (w - 1 - (Format.digits v.natAbs).length) 48 ++ Format.digits v.natAbs) := by
  unfold Format.fmtInt; simp [h0]

theorem pushChar_ascii (c : Nat) (h : c < 128) : Format.pushChar c = [c] := by
  unfold Format.pushChar; rw [if_pos h]

/-- **`write_hundreds`** writes `two n` for `0 ≤ n < 100` and fails otherwise -/
theorem write_hundreds_eq (n : Int) (h0 : 0 ≤ n) (h : n < 100) :
    Format.write_hundreds n = Format.wok (two n.toNat) := by
  unfold Format.write_hundreds two
  rw [if_neg (by omega)]
  congr 2
  · omega
  · congr 1; omega

theorem write_hundreds_err (n : Int) (h : 100 ≤ n) : Format.write_hundreds n = Format.werr := by
  unfold Format.write_hundreds; rw [if_pos (by omega)]

/-- `write_two(v, Pad::Zero)` for `0 ≤ v < 100` -/
theorem write_two_zero (v : Int) (h0 : 0 ≤ v) (h : v < 100) : Format.write_two v .zero = two v.toNat := by
  unfold Format.write_two two
  have h1 : (48 + v / 10).toNat < 128 := by omega
  have h2 : (48 + v % 10).toNat < 128 := by omega
  by_cases ht : v / 10 = 0
  · simp only [ht, if_true]
    rw [pushChar_ascii _ (by omega), pushChar_ascii _ h2]
    simp only [List.cons_append, List.nil_append]
    congr 1
    · omega
    · congr 1; omega
  · simp only [ht, if_false]
    rw [pushChar_ascii _ h1, pushChar_ascii _ h2]
    simp only [List.cons_append, List.nil_append]
    congr 1
    · omega
    · congr 1; omega

/-- `write_two(v, Pad::None)`: one digit below ten, two from ten on -/
theorem write_two_none (v : Int) (h0 : 0 ≤ v) (h : v < 100) :
    Format.write_two v .none = if v < 10 then [48 + v.toNat] else two v.toNat := by
  unfold Format.write_two two
  have h1 : (48 + v / 10).toNat < 128 := by omega
  have h2 : (48 + v % 10).toNat < 128 := by omega
  by_cases ht : v / 10 = 0
  · simp only [ht, if_true]
    rw [pushChar_ascii _ h2, if_pos (by omega)]
    simp only [List.nil_append]
    congr 1; omega
  · simp only [ht, if_false]
    rw [pushChar_ascii _ h1, pushChar_ascii _ h2, if_neg (by omega)]
    simp only [List.cons_append, List.nil_append]
    congr 1
    · omega
    · congr 1; omega

/-- `write_two(v, Pad::Space)`: a space instead of the leading zero -/
theorem write_two_space (v : Int) (h0 : 0 ≤ v) (h : v < 100) :
    Format.write_two v .space = if v < 10 then [32, 48 + v.toNat] else two v.toNat := by
  unfold Format.write_two two
  have h1 : (48 + v / 10).toNat < 128 := by omega
  have h2 : (48 + v % 10).toNat < 128 := by omega
  by_cases ht : v / 10 = 0
  · simp only [ht, if_true]
    rw [pushChar_ascii _ h2, if_pos (by omega)]
    simp only [List.cons_append, List.nil_append]
    congr 2; omega
  · simp only [ht, if_false]
    rw [pushChar_ascii _ h1, pushChar_ascii _ h2, if_neg (by omega)]
    simp only [List.cons_append, List.nil_append]
    congr 1
    · omega
    · congr 1; omega

/-! ### render, then scan -/

/-- **zero-padded field round trip**: `{:0w$}` of `v`, scanned with `number(s, min, max)`, `min ≤ w ≤ max`,
followed by a non-digit (or with `max = w`) -/
theorem number_fmtInt (v : Int) (w : Nat) (rest : List Nat) (min : Nat) (max : Option Nat)
    (h0 : 0 ≤ v) (hw : 1 ≤ w) (hw18 : w ≤ 18) (hlt : v < ((10 ^ w : Nat) : Int)) (hmin : min ≤ w)
    (hmax : ∀ m, max = some m → w ≤ m) (hstop : max = some w ∨ NoDigitHead rest) :
    number (Format.fmtInt v w .zero false ++ rest) min max = .ok (rest, v) := by
  obtain ⟨h1, h2, h3⟩ := fmtInt_pad_spec v w h0 hw hlt
  have := number_digits (Format.fmtInt v w .zero false) rest min max h1 (by omega)
    (by intro m hm; have := hmax m hm; omega) (by rw [h2]; exact hstop) (by omega)
  rw [this, h3]
  congr 2; omega

/-- **plain decimal round trip**: `{}` of `v ≥ 0`, scanned with an unlimited or wide enough `number` -/
theorem number_digits_of (n : Nat) (rest : List Nat) (min : Nat) (max : Option Nat)
    (hn : n < 10 ^ 18) (hmin : min ≤ 1) (hmax : ∀ m, max = some m → 18 ≤ m) (hstop : NoDigitHead rest) :
    number (Format.digits n ++ rest) min max = .ok (rest, (n : Int)) := by
  obtain ⟨h1, h2, h3, h4, _⟩ := digits_spec n
  have hl := h4 18 (by omega) hn
  have := number_digits (Format.digits n) rest min max h1 (by omega)
    (by intro m hm; have := hmax m hm; omega) (Or.inr hstop) hl
  rw [this, h2]

/-- **fraction round trip**: the `k`-digit fraction writers (`.{:03}`, `.{:06}`, `.{:09}` after the
dot) scan back to `v · 10^(9−k)` nanoseconds -/
theorem nanosecond_fmtInt (v : Int) (k : Nat) (rest : List Nat) (h0 : 0 ≤ v) (hk1 : 1 ≤ k) (hk9 : k ≤ 9)
    (hlt : v < ((10 ^ k : Nat) : Int)) (hr : NoDigitHead rest) :
    nanosecond (Format.fmtInt v k .zero false ++ rest) = .ok (rest, v * ((10 ^ (9 - k) : Nat) : Int)) := by
  obtain ⟨h1, h2, h3⟩ := fmtInt_pad_spec v k h0 hk1 hlt
  rw [nanosecond_digits _ rest h1 (by omega) hr]
  unfold fracVal
  have ht : (Format.fmtInt v k .zero false).take 9 = Format.fmtInt v k .zero false :=
    List.take_of_length_le (by omega)
  rw [ht, h2, h3]
  congr 2
  push_cast
  congr 1; omega

/-! ### UTC offsets: `OffsetFormat::format` with minute precision, `scan::timezone_offset` -/

/-- the colon text between hours and minutes -/
def colonText (c : Format.Colons) : List Nat := if c = .colon then [58] else []

/-- **offset writer, minute precision, zero padding** (`%z`, `%:z`, RFC 3339, RFC 2822): `Z` on
request for offset 0; otherwise sign, two-digit hours, optional colon, two-digit minutes of the offset
*rounded to the nearest minute* (`|off| < 86400`, so hours ≤ 24) -/
theorem offset_minutes_eq (colons : Format.Colons) (zulu : Bool) (off : Int)
    (h : -86400 < off ∧ off < 86400) :
    Format.OffsetFormat.format ⟨.minutes, colons, zulu, .zero⟩ off =
      if zulu = true ∧ off = 0 then Format.wok [90]
      else Format.wok ((if off < 0 then 45 else 43) ::
        (two (((if off < 0 then -off else off) + 30) / 60 / 60).toNat ++ colonText colons ++
         two (((if off < 0 then -off else off) + 30) / 60 % 60).toNat)) := by
  unfold Format.OffsetFormat.format Format.offsetParts Format.hoursText Format.tailText
  by_cases hz : zulu = true ∧ off = 0
  · rw [if_pos hz, if_pos hz]
  · rw [if_neg hz, if_neg hz]
    generalize ha : (if off < 0 then -off else off) = a
    have ha0 : 0 ≤ a ∧ a < 86400 := by rw [← ha]; split <;> omega
    have hmin : Int.tdiv (a + 30) 60 = (a + 30) / 60 := Int.tdiv_eq_ediv_of_nonneg (by omega)
    have hm0 : 0 ≤ (a + 30) / 60 ∧ (a + 30) / 60 ≤ 1440 := by omega
    have hmm : Int.tmod ((a + 30) / 60) 60 = (a + 30) / 60 % 60 := Int.tmod_eq_emod_of_nonneg (by omega)
    have hhh : Int.tdiv ((a + 30) / 60) 60 = (a + 30) / 60 / 60 := Int.tdiv_eq_ediv_of_nonneg (by omega)
    have hu1 : asU8 ((a + 30) / 60 % 60) = (a + 30) / 60 % 60 := by unfold asU8; omega
    have hu2 : asU8 ((a + 30) / 60 / 60) = (a + 30) / 60 / 60 := by unfold asU8; omega
    simp only [hmin, hmm, hhh, hu1, hu2]
    have hprec : ¬ (Format.OffsetPrecision.minutes = Format.OffsetPrecision.optionalMinutes ∧
        (a + 30) / 60 % 60 = 0) := by intro h; cases h.1
    simp only [hprec, if_false]
    have hmmw := write_hundreds_eq ((a + 30) / 60 % 60) (by omega) (by omega)
    have hhw := write_hundreds_eq ((a + 30) / 60 / 60) (by omega) (by omega)
    by_cases h10 : (a + 30) / 60 / 60 < 10
    · simp only [h10, if_true, hmmw]
      have hp : Format.pushChar (48 + (a + 30) / 60 / 60).toNat = [(48 + (a + 30) / 60 / 60).toNat] :=
        pushChar_ascii _ (by omega)
      have htwo : two ((a + 30) / 60 / 60).toNat = [48, (48 + (a + 30) / 60 / 60).toNat] := by
        unfold two
        congr 1
        · omega
        · congr 1; omega
      rw [hp, htwo]
      cases colons <;> simp [Format.W.seq, Format.wok, colonText]
    · simp only [h10, if_false, hmmw, hhw]
      cases colons <;> simp [Format.W.seq, Format.wok, colonText]

/-- for a whole-minute offset nothing is rounded -/
theorem whole_minute_parts (off : Int) (hm : off % 60 = 0) :
    ((if off < 0 then -off else off) + 30) / 60 / 60 = (if off < 0 then -off else off) / 3600 ∧
    ((if off < 0 then -off else off) + 30) / 60 % 60 = (if off < 0 then -off else off) / 60 % 60 := by
  split <;> omega

/-- **offset reader on a numeric offset**: sign, two-digit hours, the colon text the mode expects,
two-digit minutes below 60 -/
theorem tzoffset_numeric (sign : Nat) (hsign : sign = 43 ∨ sign = 45) (hh mm : Nat) (hh100 : hh < 100)
    (mm60 : mm < 60) (rest : List Nat) (zulu missing minus : Bool) :
    timezone_offset (sign :: (two hh ++ 58 :: (two mm ++ rest))) .charColon zulu missing minus =
      .ok (rest, if sign = 45 then -((hh : Int) * 3600 + (mm : Int) * 60) else (hh : Int) * 3600 + (mm : Int) * 60) := by
  have hd := allDigits_two hh hh100
  have hd2 := allDigits_two mm (by omega)
  have e1 : isDigit (48 + hh / 10) = true := hd _ (by simp [two])
  have e2 : isDigit (48 + hh % 10) = true := hd _ (by simp [two])
  have e3 : isDigit (48 + mm % 10) = true := hd2 _ (by simp [two])
  have hm1 : 48 ≤ 48 + mm / 10 ∧ 48 + mm / 10 ≤ 53 := by omega
  rcases hsign with rfl | rfl
  · unfold timezone_offset
    cases zulu <;>
      simp [two, consumeColon, Scan.char, e1, e2, e3, hm1] <;> omega
  · unfold timezone_offset
    cases zulu <;>
      simp [two, consumeColon, Scan.char, e1, e2, e3, hm1] <;> omega

/-- the same without a colon (`%z`, RFC 2822) -/
theorem tzoffset_numeric_nocolon (sign : Nat) (hsign : sign = 43 ∨ sign = 45) (hh mm : Nat) (hh100 : hh < 100)
    (mm60 : mm < 60) (rest : List Nat) (zulu missing minus : Bool) :
    timezone_offset (sign :: (two hh ++ (two mm ++ rest))) .nothing zulu missing minus =
      .ok (rest, if sign = 45 then -((hh : Int) * 3600 + (mm : Int) * 60) else (hh : Int) * 3600 + (mm : Int) * 60) := by
  have hd := allDigits_two hh hh100
  have hd2 := allDigits_two mm (by omega)
  have e1 : isDigit (48 + hh / 10) = true := hd _ (by simp [two])
  have e2 : isDigit (48 + hh % 10) = true := hd _ (by simp [two])
  have e3 : isDigit (48 + mm % 10) = true := hd2 _ (by simp [two])
  have hm1 : 48 ≤ 48 + mm / 10 ∧ 48 + mm / 10 ≤ 53 := by omega
  rcases hsign with rfl | rfl
  · unfold timezone_offset
    cases zulu <;>
      simp [two, consumeColon, e1, e2, e3, hm1] <;> omega
  · unfold timezone_offset
    cases zulu <;>
      simp [two, consumeColon, e1, e2, e3, hm1] <;> omega

/-- `Z` / `z` where the caller allows it -/
theorem tzoffset_zulu (c : Nat) (hc : c = 90 ∨ c = 122) (rest : List Nat) (cm : ColonMode) (missing minus : Bool) :
    timezone_offset (c :: rest) cm true missing minus = .ok (rest, 0) := by
  rcases hc with rfl | rfl <;> simp [timezone_offset]

/-- the shape of a numeric offset as RFC 3339 writes it -/
def SignBytes (sg : List Nat) (neg : Bool) : Prop :=
  (sg = [43] ∧ neg = false) ∨ (sg = [45] ∧ neg = true) ∨ (sg = [226, 136, 146] ∧ neg = true)

/-- **inversion of the offset reader** in the strict mode (`charColon`, minutes required): `Z`/`z`
where allowed, else sign (`+`, `-`, U+2212 where allowed), two digits, `:`, two digits, the first of
the minute digits at most `5` -/
theorem tzoffset_colon_inv (s rest : List Nat) (off : Int) (zulu minus : Bool)
    (h : timezone_offset s .charColon zulu false minus = .ok (rest, off)) :
      (zulu = true ∧ (s = 90 :: rest ∨ s = 122 :: rest) ∧ off = 0) ∨
      ∃ (sg : List Nat) (neg : Bool) (h1 h2 m1 m2 : Nat),
        SignBytes sg neg ∧ (sg = [226, 136, 146] → minus = true) ∧
        s = sg ++ h1 :: h2 :: 58 :: m1 :: m2 :: rest ∧ isDigit h1 = true ∧ isDigit h2 = true ∧
        isDigit m1 = true ∧ isDigit m2 = true ∧ m1 ≤ 53 ∧
        off = (if neg then -1 else 1) * ((valOf [h1,h2] : Int) * 3600 + (valOf [m1,m2] : Int) * 60) := by
  unfold timezone_offset at h
  cases zulu with
  | true =>
    simp only [if_true] at h
    split at h
    · rename_i r hz
      injection h with h; injection h with e1 e2
      left
      refine ⟨rfl, ?_, e2.symm⟩
      split at hz
      · injection hz with hz; left; rw [← e1, hz]
      · injection hz with hz; right; rw [← e1, hz]
      · cases hz
    · right
      split at h
      · cases h
      · rename_i s1 neg hsign
        have hs : ∃ sg, SignBytes sg neg ∧ (sg = [226, 136, 146] → minus = true) ∧ s = sg ++ s1 := by
          split at hsign
          · injection hsign with e; injection e with e1 e2
            refine ⟨[43], Or.inl ⟨rfl, e2.symm⟩, ?_, ?_⟩
            · intro hx; cases hx
            · rw [e1]; rfl
          · injection hsign with e; injection e with e1 e2
            refine ⟨[45], Or.inr (Or.inl ⟨rfl, e2.symm⟩), ?_, ?_⟩
            · intro hx; cases hx
            · rw [e1]; rfl
          · split at hsign
            · rename_i hmin
              injection hsign with e; injection e with e1 e2
              exact ⟨[226, 136, 146], Or.inr (Or.inr ⟨rfl, e2.symm⟩), fun _ => hmin, by rw [e1]; rfl⟩
            · cases hsign
          · cases hsign
          · cases hsign
        obtain ⟨sg, hsg, hmn, rfl⟩ := hs
        rcases s1 with _ | ⟨h1, _ | ⟨h2, t⟩⟩
        · simp at h
        · simp at h
        · simp only at h
          split at h
          · rename_i hd
            simp only [Bool.and_eq_true] at hd
            split at h
            · cases h
            · rename_i s2 hc
              simp only [consumeColon] at hc
              rw [char_ok_iff] at hc
              split at h
              · cases h
              · rename_i minutes hm
                split at hm
                · rename_i m1 m2 tail
                  split at hm
                  · rename_i hmm
                    injection hm with hm
                    simp only [List.length_cons, ge_iff_le, Nat.le_add_left, if_true, List.drop_succ_cons,
                      List.drop_zero] at h
                    injection h with h; injection h with e1 e2
                    refine ⟨sg, neg, h1, h2, m1, m2, hsg, hmn, by rw [hc, e1], hd.1, hd.2,
                      by rw [isDigit_iff]; omega, hmm.2.2, hmm.2.1, ?_⟩
                    have a1 := (isDigit_iff h1).mp hd.1
                    have a2 := (isDigit_iff h2).mp hd.2
                    have a3 := (isDigit_iff m2).mp hmm.2.2
                    rw [← e2, ← hm]
                    simp only [valOf, List.foldl_cons, List.foldl_nil]
                    cases neg <;> simp
                  · split at hm <;> cases hm
                · simp at hm
          · cases h
  | false =>
    simp only [Bool.false_eq_true, if_false] at h
    right
    split at h
    · cases h
    · rename_i s1 neg hsign
      have hs : ∃ sg, SignBytes sg neg ∧ (sg = [226, 136, 146] → minus = true) ∧ s = sg ++ s1 := by
        split at hsign
        · injection hsign with e; injection e with e1 e2
          refine ⟨[43], Or.inl ⟨rfl, e2.symm⟩, ?_, ?_⟩
          · intro hx; cases hx
          · rw [e1]; rfl
        · injection hsign with e; injection e with e1 e2
          refine ⟨[45], Or.inr (Or.inl ⟨rfl, e2.symm⟩), ?_, ?_⟩
          · intro hx; cases hx
          · rw [e1]; rfl
        · split at hsign
          · rename_i hmin
            injection hsign with e; injection e with e1 e2
            exact ⟨[226, 136, 146], Or.inr (Or.inr ⟨rfl, e2.symm⟩), fun _ => hmin, by rw [e1]; rfl⟩
          · cases hsign
        · cases hsign
        · cases hsign
      obtain ⟨sg, hsg, hmn, rfl⟩ := hs
      rcases s1 with _ | ⟨h1, _ | ⟨h2, t⟩⟩
      · simp at h
      · simp at h
      · simp only at h
        split at h
        · rename_i hd
          simp only [Bool.and_eq_true] at hd
          split at h
          · cases h
          · rename_i s2 hc
            simp only [consumeColon] at hc
            rw [char_ok_iff] at hc
            split at h
            · cases h
            · rename_i minutes hm
              split at hm
              · rename_i m1 m2 tail
                split at hm
                · rename_i hmm
                  injection hm with hm
                  simp only [List.length_cons, ge_iff_le, Nat.le_add_left, if_true, List.drop_succ_cons,
                    List.drop_zero] at h
                  injection h with h; injection h with e1 e2
                  refine ⟨sg, neg, h1, h2, m1, m2, hsg, hmn, by rw [hc, e1], hd.1, hd.2,
                    by rw [isDigit_iff]; omega, hmm.2.2, hmm.2.1, ?_⟩
                  have a1 := (isDigit_iff h1).mp hd.1
                  have a2 := (isDigit_iff h2).mp hd.2
                  have a3 := (isDigit_iff m2).mp hmm.2.2
                  rw [← e2, ← hm]
                  simp only [valOf, List.foldl_cons, List.foldl_nil]
                  cases neg <;> simp
                · split at hm <;> cases hm
              · simp at hm
        · cases h

/-- the converse: every string of that shape is read, with the value it denotes -/
theorem tzoffset_colon_ok (sg : List Nat) (neg : Bool) (h1 h2 m1 m2 : Nat) (rest : List Nat) (zulu minus : Bool)
    (hsg : SignBytes sg neg) (hmn : sg = [226, 136, 146] → minus = true)
    (d1 : isDigit h1 = true) (d2 : isDigit h2 = true) (d3 : isDigit m1 = true) (d4 : isDigit m2 = true)
    (hm : m1 ≤ 53) :
    timezone_offset (sg ++ h1 :: h2 :: 58 :: m1 :: m2 :: rest) .charColon zulu false minus =
      .ok (rest, (if neg then -1 else 1) * ((valOf [h1,h2] : Int) * 3600 + (valOf [m1,m2] : Int) * 60)) := by
  have a3 := (isDigit_iff m1).mp d3
  have hm1 : 48 ≤ m1 ∧ m1 ≤ 53 := ⟨a3.1, hm⟩
  rcases hsg with ⟨rfl, rfl⟩ | ⟨rfl, rfl⟩ | ⟨rfl, rfl⟩
  · unfold timezone_offset
    cases zulu <;> simp [consumeColon, Scan.char, d1, d2, d4, hm1, valOf]
  · unfold timezone_offset
    cases zulu <;> simp [consumeColon, Scan.char, d1, d2, d4, hm1, valOf]
  · have := hmn rfl
    subst this
    unfold timezone_offset
    cases zulu <;> simp [consumeColon, Scan.char, d1, d2, d4, hm1, valOf]

end Chrono.Proofs.RenderScan
