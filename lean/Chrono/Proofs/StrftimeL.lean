/-
  Helper lemmas for C12 / C15 (strftime item iterator): every `parse_next_item` call consumes at
  least one byte and queues at most 12 items, hence the iterator ends and fuel is never exhausted.
-/
import Chrono.Proofs.FormatL
namespace Chrono.Proofs.StrftimeL
open Chrono Chrono.M Chrono.M.Format Chrono.M.Strftime Chrono.Extracted Chrono.Proofs.FormatL


theorem error_progress (l : Bool) (orig : List Nat) (el : Nat) (ch : Option Nat) (ho : orig ≠ [])
    (hel : l = true → 1 ≤ el - ch.getD 0) :
    (error l orig el ch).1.length < orig.length ∧ (l = true → 1 ≤ (error l orig el ch).2.2) := by
  have hpos : 0 < orig.length := List.length_pos_iff.mpr ho
  unfold error
  cases l with
  | false => simp; exact hpos
  | true =>
    have := hel rfl
    simp only [Bool.not_true, Bool.false_eq_true, if_false, List.length_drop]
    exact ⟨by omega, fun _ => this⟩

theorem nextCh_progress (s : List Nat) (c n : Nat) (r : List Nat) (h : nextCh s = some (c, n, r)) :
    r.length < s.length ∧ 1 ≤ n := by
  unfold nextCh at h
  cases s with
  | nil => simp at h
  | cons b rest =>
    simp only [Option.some.injEq, Prod.mk.injEq] at h
    obtain ⟨_, rfl, rfl⟩ := h
    have := charLen_pos b
    simp only [List.length_drop, List.length_cons]
    omega

def Arm.good (l : Bool) (orig : List Nat) : Arm → Prop
  | .item _ r q el' => r.length < orig.length ∧ q.length ≤ 12 ∧ (l = true → 1 ≤ el')
  | .ret r _ => r.length < orig.length

theorem fracArm_progress (l : Bool) (orig rem : List Nat) (el : Nat) (ok : Item) (ho : orig ≠ [])
    (hel : l = true → 1 ≤ el) (hrem : rem.length < orig.length) :
    Arm.good l orig (fracArm l orig rem el ok) := by
  unfold fracArm
  cases hn : nextCh rem with
  | none =>
    exact (error_progress l orig el none ho (by simpa using hel)).1
  | some x =>
    obtain ⟨c, n, rem'⟩ := x
    obtain ⟨h1, h2⟩ := nextCh_progress rem c n rem' hn
    dsimp only
    by_cases hc : c = 102
    · rw [if_pos hc]
      refine ⟨by omega, by simp, ?_⟩
      intro hl; have := hel hl; simp [hl]; omega
    · rw [if_neg hc]
      have := error_progress l orig (if l = true then el + n else el) (some n) ho
        (by intro hl; have := hel hl; simp [hl]; omega)
      exact ⟨this.1, by simp, this.2⟩

theorem specTable_queue (c : Nat) (it : Item) (q : List Item) (h : specTable c = some (it, q)) : q.length ≤ 12 := by
  unfold specTable at h
  split at h <;> first
    | (simp only [Option.some.injEq, Prod.mk.injEq] at h; obtain ⟨_, rfl⟩ := h; decide)
    | (simp only [fromSlice, T_FMT, D_T_FMT, T_FMT_AMPM, D_FMT, Option.some.injEq, Prod.mk.injEq] at h
       obtain ⟨_, rfl⟩ := h; decide)
    | (cases h)

theorem specArm_progress (l : Bool) (orig rem : List Nat) (el : Nat) (alt : Bool) (c n : Nat) (ho : orig ≠ [])
    (hel : l = true → 1 + n ≤ el) (hrem : rem.length < orig.length) :
    Arm.good l orig (specArm l orig rem el alt c n) := by
  have hel1 : l = true → 1 ≤ el := fun hl => by have := hel hl; omega
  unfold specArm
  by_cases h1 : c = 122
  · rw [if_pos h1]; exact ⟨hrem, by simp, hel1⟩
  rw [if_neg h1]
  by_cases h2 : c = 58
  · rw [if_pos h2]
    split
    · exact ⟨by simp only [List.length_drop]; omega, by simp, hel1⟩
    · split
      · exact ⟨by simp only [List.length_drop]; omega, by simp, hel1⟩
      · split
        · exact ⟨by simp only [List.length_drop]; omega, by simp, hel1⟩
        · exact ⟨hrem, by simp, hel1⟩
  rw [if_neg h2]
  by_cases h3 : c = 46
  · rw [if_pos h3]
    cases hn : nextCh rem with
    | none => exact (error_progress l orig el none ho (by simpa using hel1)).1
    | some x =>
      obtain ⟨c1, n1, rem1⟩ := x
      obtain ⟨g1, g2⟩ := nextCh_progress rem c1 n1 rem1 hn
      dsimp only
      have hel' : l = true → 1 ≤ (if l = true then el + n1 else el) := by
        intro hl; have := hel1 hl; simp [hl]; omega
      split
      · exact fracArm_progress l orig rem1 _ _ ho hel' (by omega)
      · split
        · exact fracArm_progress l orig rem1 _ _ ho hel' (by omega)
        · split
          · exact fracArm_progress l orig rem1 _ _ ho hel' (by omega)
          · split
            · exact ⟨by omega, by simp, hel'⟩
            · have := error_progress l orig (if l = true then el + n1 else el) (some n1) ho
                (by intro hl; have := hel1 hl; simp [hl]; omega)
              exact ⟨this.1, by simp, this.2⟩
  rw [if_neg h3]
  split
  · exact fracArm_progress l orig rem _ _ ho hel1 hrem
  · split
    · exact fracArm_progress l orig rem _ _ ho hel1 hrem
    · split
      · exact fracArm_progress l orig rem _ _ ho hel1 hrem
      · cases hs : specTable c with
        | some x =>
          obtain ⟨it, q⟩ := x
          exact ⟨hrem, specTable_queue c it q hs, hel1⟩
        | none =>
          have := error_progress l orig el (some n) ho (by intro hl; have := hel hl; simp; omega)
          exact ⟨this.1, by simp, this.2⟩

/-- every call of `parse_next_item` consumes at least one byte and installs at most 12 queued items -/
theorem parse_next_item_progress (l : Bool) (s : List Nat) (r : List Nat × Item × List Item)
    (h : parse_next_item l s = some r) : r.1.length < s.length ∧ r.2.2.length ≤ 12 := by
  cases s with
  | nil => simp [parse_next_item] at h
  | cons b rest =>
    by_cases hb : b = 37
    · subst hb
      have ho : (37 :: rest) ≠ [] := by simp
      unfold parse_next_item at h
      simp only at h
      cases hn : nextCh rest with
      | none =>
        rw [hn] at h
        simp only [Option.some.injEq] at h
        subst h
        exact ⟨(error_progress l _ _ none ho (by intro hl; simp [hl])).1, by simp⟩
      | some x =>
        obtain ⟨c0, n0, r1⟩ := x
        obtain ⟨g1, g2⟩ := nextCh_progress rest c0 n0 r1 hn
        rw [hn] at h
        dsimp only at h
        have hel1 : l = true → 1 + n0 ≤ (if l = true then (if l = true then 1 else 0) + n0 else if l = true then 1 else 0) := by
          intro hl; simp [hl]
        generalize (if l = true then (if l = true then 1 else 0) + n0 else if l = true then 1 else 0) = el1 at h hel1
        generalize hsec : (if ((padOf c0).isSome || c0 == 35) = true then _ else _ :
          Option (Option (Nat × Nat × List Nat × Nat))) = sec at h
        have hsec' : ∀ c n rem el, sec = some (some (c, n, rem, el)) →
            rem.length < (37 :: rest).length ∧ (l = true → 1 + n ≤ el) := by
          intro c n rem el hs
          rw [← hsec] at hs
          split at hs
          · cases hn2 : nextCh r1 with
            | none => rw [hn2] at hs; simp at hs
            | some x =>
              obtain ⟨c', n', r2⟩ := x
              obtain ⟨k1, k2⟩ := nextCh_progress r1 c' n' r2 hn2
              rw [hn2] at hs
              simp only [Option.some.injEq, Prod.mk.injEq] at hs
              obtain ⟨rfl, rfl, rfl, rfl⟩ := hs
              refine ⟨by simp only [List.length_cons]; omega, ?_⟩
              intro hl; have := hel1 hl; simp [hl]; omega
          · simp only [Option.some.injEq, Prod.mk.injEq] at hs
            obtain ⟨rfl, rfl, rfl, rfl⟩ := hs
            refine ⟨by simp only [List.length_cons]; omega, ?_⟩
            exact hel1
        have herr : ∀ (el : Nat) (ch : Option Nat) (q : List Item), q.length ≤ 12 → (l = true → 1 ≤ el - ch.getD 0) →
            ∀ r', some ((error l (37 :: rest) el ch).fst, (error l (37 :: rest) el ch).snd.fst, q) = some r' →
            r'.fst.length < (37 :: rest).length ∧ r'.snd.snd.length ≤ 12 := by
          intro el ch q hq hel r' hr
          simp only [Option.some.injEq] at hr
          subst hr
          exact ⟨(error_progress l _ el ch ho hel).1, hq⟩
        rcases sec with _ | _ | ⟨c, n, rem, el⟩
        · exact herr _ none [] (by simp) (by intro hl; have := hel1 hl; simp; omega) r h
        · exact herr _ none [] (by simp) (by intro hl; have := hel1 hl; simp; omega) r h
        · obtain ⟨k1, k2⟩ := hsec' c n rem el rfl
          dsimp only at h
          split at h
          · exact herr _ (some n) [] (by simp) (by intro hl; have := k2 hl; simp; omega) r h
          · have hg := specArm_progress l (37 :: rest) rem el (c0 == 35) c n ho k2 k1
            cases ha : specArm l (37 :: rest) rem el (c0 == 35) c n with
            | ret rem' it =>
              rw [ha] at h hg
              simp only [Option.some.injEq] at h
              subst h
              exact ⟨hg, by simp⟩
            | item it rem' queue el' =>
              rw [ha] at h hg
              obtain ⟨q1, q2, q3⟩ := hg
              dsimp only at h
              cases hp : padOf c0 with
              | none =>
                rw [hp] at h
                simp only [Option.some.injEq] at h
                subst h
                exact ⟨q1, q2⟩
              | some np =>
                rw [hp] at h
                dsimp only at h
                split at h
                · split at h
                  · simp only [Option.some.injEq] at h
                    subst h
                    exact ⟨q1, by simp⟩
                  · exact herr _ none queue q2 (by simpa using q3) r h
                · exact herr _ none queue q2 (by simpa using q3) r h
    · obtain ⟨n, hn, it, _, hp⟩ := parse_next_item_text l b rest hb
      rw [hp] at h
      simp only [Option.some.injEq] at h
      subst h
      simp only [List.length_drop, List.length_cons, List.length_nil]
      omega

/-- more fuel than the byte length changes nothing -/
theorem itemsAux_fuel (l : Bool) : ∀ (f1 f2 : Nat) (s : List Nat), s.length < f1 → s.length < f2 →
    itemsAux l f1 s = itemsAux l f2 s := by
  intro f1
  induction f1 with
  | zero => intro f2 s h; omega
  | succ f ih =>
    intro f2 s h1 h2
    cases f2 with
    | zero => omega
    | succ g =>
      rw [itemsAux, itemsAux]
      cases hp : parse_next_item l s with
      | none => rfl
      | some r =>
        obtain ⟨rem, it, q⟩ := r
        have := (parse_next_item_progress l s _ hp).1
        dsimp only at this ⊢
        rw [ih g rem (by omega) (by omega)]

theorem itemsAux_length (l : Bool) : ∀ (f : Nat) (s : List Nat), (itemsAux l f s).length ≤ 13 * s.length := by
  intro f
  induction f with
  | zero => intro s; simp [itemsAux]
  | succ f ih =>
    intro s
    rw [itemsAux]
    cases hp : parse_next_item l s with
    | none => simp
    | some r =>
      obtain ⟨rem, it, q⟩ := r
      obtain ⟨h1, h2⟩ := parse_next_item_progress l s _ hp
      have := ih rem
      dsimp only at h1 h2 ⊢
      simp only [List.length_cons, List.length_append]
      omega

/-- the iterator `next`, called often enough, yields the queue and then the items of the remainder -/
theorem drain_eq (l : Bool) : ∀ (fuel : Nat) (st : State), st.queue.length + 13 * st.remainder.length < fuel →
    drain l fuel st = st.queue ++ itemsAux l (st.remainder.length + 1) st.remainder := by
  intro fuel
  induction fuel with
  | zero => intro st h; omega
  | succ f ih =>
    intro st h
    obtain ⟨s, queue⟩ := st
    dsimp only at h ⊢
    cases queue with
    | cons it q =>
      rw [drain]
      simp only [next]
      rw [ih ⟨s, q⟩ (by simp only [List.length_cons] at h; dsimp only; omega)]
      rfl
    | nil =>
      rw [drain]
      simp only [next]
      rw [itemsAux]
      cases hp : parse_next_item l s with
      | none => rfl
      | some r =>
        obtain ⟨rem, it, q⟩ := r
        obtain ⟨h1, h2⟩ := parse_next_item_progress l s _ hp
        dsimp only at h1 h2 ⊢
        simp only [List.length_nil, Nat.zero_add] at h
        rw [ih ⟨rem, q⟩ (by dsimp only; omega)]
        dsimp only
        rw [itemsAux_fuel l s.length (rem.length + 1) rem h1 (by omega)]
        rfl

end Chrono.Proofs.StrftimeL
