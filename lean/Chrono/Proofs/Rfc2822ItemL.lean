/-
  Helper lemmas for C11, part 7: the writer reached through the `Fixed::RFC2822` item
  (`DateTime::format_with_items([Item::Fixed(Fixed::RFC2822)])`, `DelayedFormat::write_to`) is the
  same `write_rfc2822` on the same wall-clock reading as `to_rfc2822`, without the `expect`.
-/
import Chrono.Proofs.Rfc2822WriteL
namespace Chrono.Proofs.Rfc2822
open Chrono Chrono.M Chrono.Spec Chrono.Spec.Rfc2822 Chrono.Extracted Chrono.M.Format

/-- the single-item list: `write_to` is the item's writer -/
theorem formatItemsR_single (d : Option Date) (t : Option Time) (off : Option (List Nat × Int)) (it : Item) :
    formatItemsR d t off [it] = (format_item d t off it).seq (wok []) := rfl

theorem seq_wok_nil (a : W) : a.seq (wok []) = a := by
  cases a with
  | panic => rfl
  | ok r =>
    cases r with
    | none => rfl
    | some x => simp only [W.seq, wok, List.append_nil]

/-- the item form on any value: `write_rfc2822` on the wall-clock reading -/
theorem format_item_eq (z : Zoned) :
    Rfc2822.format_item_rfc2822 z =
      match Zoned.overflowing_naive_local z with
      | .panic => .panic
      | .ok l => write_rfc2822 l z.off := by
  unfold Rfc2822.format_item_rfc2822 Rfc2822.ITEMS
  cases Zoned.overflowing_naive_local z with
  | panic => rfl
  | ok l =>
    simp only []
    rw [formatItemsR_single, seq_wok_nil]
    rfl

/-- **the item's text**, every well-formed value: the standard form of the wall-clock fields, the zone
shown as `shownZone`; `Err(fmt::Error)` — never a panic — exactly when the wall-clock year is outside
0–9999 -/
theorem format_item_shape (z : Zoned) (hz : ZInv z) (Y : Int) (o : Nat) (hw : WallDate z Y o) :
    Rfc2822.format_item_rfc2822 z =
      if 0 ≤ Y ∧ Y ≤ 9999 then .ok (some (stdHead (fieldsOf z Y o) ++ shownZone z.off)) else .ok none := by
  obtain ⟨l, h1, h2, h3, h4, h5, h6⟩ := wall_reading z hz Y o hw
  rw [format_item_eq, h1]
  simp only []
  rw [write_shape l z.off Y o h3 h2 h4 hz.2, h5, h6]
  unfold fieldsOf
  by_cases hr : 0 ≤ Y ∧ Y ≤ 9999
  · rw [if_pos hr, if_pos hr]; rfl
  · rw [if_neg hr, if_neg hr]; rfl

/-- a day number names one day: two wall-clock dates of the same value coincide -/
theorem wallDate_unique (z : Zoned) (Y Y' : Int) (o o' : Nat) (h : WallDate z Y o) (h' : WallDate z Y' o') :
    Y = Y' ∧ o = o' := by
  obtain ⟨a1, a2, a3⟩ := h
  obtain ⟨b1, b2, b3⟩ := h'
  have hyl := yearLen_ge Y
  have hyl' := yearLen_ge Y'
  have hd := date_of_daynum_unique Y Y' o o' ⟨a1, a2⟩ ⟨b1, b2⟩ (by rw [a3, b3])
  obtain ⟨f1, f2, _⟩ := dateOfYo_fields Y o (by omega)
  obtain ⟨g1, g2, _⟩ := dateOfYo_fields Y' o' (by omega)
  rw [hd] at f1 f2
  refine ⟨by rw [← f1, g1], ?_⟩
  have : (o : Int) = (o' : Int) := by rw [← f2, g2]
  omega

end Chrono.Proofs.Rfc2822
