/- Finite (kernel-evaluated) lemmas for C01: the lookup tables and the per-(month, day, flags) /
per-(ordinal, flags) behaviour of the Mdf helpers.  Slow to check (minutes), so kept apart. -/
import Chrono.Model.Date
import Chrono.Spec.Calendar
import Chrono.Spec.DateSpec

namespace Chrono.Proofs
open Chrono Chrono.M Chrono.Spec Chrono.Extracted

theorem table_y2f : YEAR_TO_FLAGS.length = 400 ∧ ∀ i < 400, YEAR_TO_FLAGS.getD i 0 = flagsOf i := by
  decide +kernel
theorem table_mdl : MDL_TO_OL.length = 832 ∧ ∀ i < 832, MDL_TO_OL.getD i 0 = mdlDelta i := by
  decide +kernel
theorem table_ol : OL_TO_MDL.length = 733 ∧ ∀ i < 733, 1 < i → OL_TO_MDL.getD i 0 = olDelta i := by
  decide +kernel
theorem table_yd : YEAR_DELTAS.length = 401 ∧ ∀ i < 401, YEAR_DELTAS.getD i 0 = leapsBefore i := by
  decide +kernel

theorem mdf_oaf_fin : ∀ m ≤ 12, ∀ d ≤ 31, ∀ f < 16,
    Mdf.ordinal_and_flags (m * 512 + d * 16 + f) =
      .ok (if validYmd (repYear f) m d then some (ordinalOf (repYear f) m d * 16 + f) else none) := by
  decide +kernel

theorem ordinal_bounds_fin : ∀ m ≤ 12, ∀ d ≤ 31, ∀ f < 16, validYmd (repYear f) m d = true →
    1 ≤ ordinalOf (repYear f) m d ∧ ordinalOf (repYear f) m d ≤ yearLen (repYear f) := by
  decide +kernel

def olOk (o f : Nat) : Bool :=
  decide (1 ≤ o → (o = 366 → f / 8 % 2 = 0) →
    (Mdf.from_ol (o * 2 + f / 8 % 2) f =
      .ok (monthOfYo (repYear f) o * 512 + dayOfYo (repYear f) o * 16 + f) ∧
    validYmd (repYear f) (monthOfYo (repYear f) o) (dayOfYo (repYear f) o) = true ∧
    ordinalOf (repYear f) (monthOfYo (repYear f) o) (dayOfYo (repYear f) o) = o ∧
    monthOfYo (repYear f) o ≤ 12 ∧ dayOfYo (repYear f) o ≤ 31))

theorem mdf_from_ol_fin : ∀ o < 367, ∀ f < 16, olOk o f = true := by
  decide +kernel

def injOk (f m d : Nat) : Bool :=
  decide (validYmd (repYear f) m d = true →
    monthOfYo (repYear f) (ordinalOf (repYear f) m d) = m ∧ dayOfYo (repYear f) (ordinalOf (repYear f) m d) = d)

/-- a valid (month, day) is recovered from its ordinal -/
theorem monthDay_of_ordinal_fin : ∀ f < 16, ∀ m < 13, ∀ d < 32, injOk f m d = true := by
  decide +kernel


end Chrono.Proofs
