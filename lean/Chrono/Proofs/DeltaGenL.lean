/-
  Helpers for Props/C06Gen.lean (end-to-end corollaries "translated code = specification"): the machine
  ranges a valid value's fields lie in (so that the side conditions of the `gen_*_eq` theorems follow from
  `DInv`), and mapping a conditional result into the generated representation.
-/
import Chrono.Proofs.GenL
import Chrono.Spec.DeltaSpec

namespace Chrono.Proofs.DeltaGenL
open Chrono Chrono.M Chrono.Spec Chrono.Proofs.GenL

/-- the fields of a valid value fit `i64` / `i32` with room to spare -/
theorem dinv_machine (a : Delta) (ha : DInv a) :
    (-9223372036854775808 ≤ a.secs ∧ a.secs ≤ 9223372036854775807) ∧
    (-2147483648 < a.nanos ∧ a.nanos ≤ 2147483647) := by
  obtain ⟨h0, h1, hr⟩ := ha
  simp only [nsInRange, NS_MAX, ns] at hr
  omega

theorem map_ite (c : Prop) [Decidable c] (d : Delta) :
    (if c then some d else none).map dG = if c then some (dG d) else none := by
  split <;> rfl

theorem rmap_ok_ite (c : Prop) [Decidable c] (d : Delta) :
    rmap (Option.map dG) (.ok (if c then some d else none)) =
      .ok (if c then some (dG d) else none) := by
  split <;> rfl

theorem rmap_ite (c : Prop) [Decidable c] (d : Delta) :
    rmap dG (if c then .ok d else .panic) = if c then .ok (dG d) else .panic := by
  split <;> rfl

/-- the generated structure is the model's structure field for field -/
theorem dG_inj (a b : Delta) (h : dG a = dG b) : a = b := by
  cases a; cases b
  simp only [dG, Gen.time_delta.TimeDelta.mk.injEq] at h
  simp only [Delta.mk.injEq]; exact h

end Chrono.Proofs.DeltaGenL
