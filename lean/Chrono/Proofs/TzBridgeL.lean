/- C05, second review §3: the glue model of unix.rs / offset/mod.rs (Model/TzLookup.lean) carries its own
   copies of `FixedOffset::east_opt` and `NaiveDateTime::checked_sub_offset` (the latter on timestamps).
   Here they are proved equal to the C04 models (Model/DateTime.lean), which are the ones tied to the
   source text by the code translation (`Props.GenDateTime.gen_east_opt_eq`, `gen_checked_sub_offset_eq`). -/
import Chrono.Props.C04
import Chrono.Props.GenDateTime
import Chrono.Model.TzLookup

namespace Chrono.Proofs.TzBridge
open Chrono Chrono.M Chrono.Spec Chrono.Proofs

/-- the two hand-written copies of `FixedOffset::east_opt` are the same function -/
theorem east_opt_bridge : M.TzL.east_opt = Zoned.east_opt := rfl

/-- the `NaiveDateTime` range of the glue model is the one of the C04 specification -/
theorem secs_range : SECS_MIN = M.TzL.NDT_MIN_TS ∧ SECS_MAX = M.TzL.NDT_MAX_TS := by decide +kernel

/-- `TzL.checked_sub_offset` (timestamps) is `NaiveDT.checked_sub_offset` (the packed date-time of C04)
read in seconds: the structured function never panics on a well-formed wall clock and an offset of less
than a day, answers `None` exactly when the timestamp function does, and otherwise a well-formed
date-time whose second count is the timestamp function's value (fraction untouched) -/
theorem checked_sub_offset_bridge (l : NaiveDT) (o : Int) (ho : OffValid o) (hl : NDTInv l) :
    ∃ r, l.checked_sub_offset o = .ok r ∧
      r.map instSecs = M.TzL.checked_sub_offset (instSecs l) o ∧
      (∀ u, r = some u → NDTInv u ∧ u.time.frac = l.time.frac) := by
  obtain ⟨r, hr, hiff⟩ := Chrono.Props.C04.fromLocal_fails_iff o l ho hl
  have ⟨e1, e2⟩ := secs_range
  cases hcs : l.checked_sub_offset o with
  | panic =>
    unfold Zoned.from_local_datetime at hr
    rw [hcs] at hr
    cases hr
  | ok r' =>
    refine ⟨r', rfl, ?_⟩
    have hr' : r = r'.map fun u => ⟨u, o⟩ := by
      unfold Zoned.from_local_datetime at hr
      rw [hcs] at hr
      injection hr with hr
      exact hr.symm
    cases r' with
    | none =>
      have hn : ¬ InRangeSecs (instSecs l - o) := hiff.mp (by rw [hr']; rfl)
      refine ⟨?_, fun u h => by cases h⟩
      unfold InRangeSecs at hn
      rw [e1, e2] at hn
      unfold M.TzL.checked_sub_offset
      rw [if_neg hn]; rfl
    | some u =>
      have hz : Zoned.from_local_datetime o l = .ok (some ⟨u, o⟩) := by rw [hr, hr']; rfl
      obtain ⟨_, b, _, _, s1, s2⟩ := Chrono.Props.C04.local_of_fromLocal o l ho hl _ hz
      have hin : InRangeSecs (instSecs l - o) := by
        by_cases c : InRangeSecs (instSecs l - o)
        · exact c
        · have := hiff.mpr c
          rw [hr'] at this
          cases this
      refine ⟨?_, ?_⟩
      · unfold InRangeSecs at hin
        rw [e1, e2] at hin
        unfold M.TzL.checked_sub_offset
        rw [if_pos hin]
        show some (instSecs u) = _
        rw [s1]
      · intro u' hu'
        injection hu' with hu'
        subst hu'
        exact ⟨b.1, s2⟩

end Chrono.Proofs.TzBridge
