/-
  Helper lemmas for C12: the ISO 8601 week date.  `IsoWeek.from_yof` (flag-bit arithmetic) equals the
  specification (year and week of the Thursday of the Monday-based week).  The case analysis over the
  weekday of 31 December of the previous year and the leap flag is done once in `iso_core_A/B`
  (plain integer arithmetic); the main theorem only translates flag bits into those variables.
-/
import Chrono.Proofs.FormatL
namespace Chrono.Proofs.FormatIsoL
open Chrono Chrono.M Chrono.M.Format Chrono.Spec Chrono.Spec.Strftime Chrono.Extracted Chrono.Proofs.FormatL


theorem iso_core_A (a c o δ nw : Int) (ha : 0 ≤ a ∧ a < 7) (hc : c = 0 ∨ c = 1) (ho : 1 ≤ o ∧ o ≤ 366 - c)
    (hδ : (a < 3 ∧ δ = a + 7) ∨ (¬ a < 3 ∧ δ = a))
    (hnw : (((c = 0 ∧ (a = 1 ∨ a = 2)) ∨ (c = 1 ∧ a = 2)) ∧ nw = 53) ∨
           (¬ ((c = 0 ∧ (a = 1 ∨ a = 2)) ∨ (c = 1 ∧ a = 2)) ∧ nw = 52)) :
    ((o + δ) / 7 < 1 ↔ o - (a + o) % 7 + 3 ≤ 0) ∧ ((o + δ) / 7 > nw ↔ o - (a + o) % 7 + 3 > 366 - c) ∧
    (¬ (o + δ) / 7 < 1 → ¬ (o + δ) / 7 > nw → (o + δ) / 7 = (o - (a + o) % 7 + 3 - 1) / 7 + 1) ∧
    ((o + δ) / 7 > nw → (o - (a + o) % 7 + 3 - (366 - c) - 1) / 7 + 1 = 1) := by
  have h7 : a = 0 ∨ a = 1 ∨ a = 2 ∨ a = 3 ∨ a = 4 ∨ a = 5 ∨ a = 6 := by omega
  rcases h7 with rfl | rfl | rfl | rfl | rfl | rfl | rfl <;> rcases hc with rfl | rfl <;>
    (refine ⟨?_, ?_, ?_, ?_⟩ <;> omega)

theorem iso_core_B (a a' c' o δ nw' : Int) (ha' : 0 ≤ a' ∧ a' < 7) (hc' : c' = 0 ∨ c' = 1)
    (hrel : a = (a' + (366 - c')) % 7) (ho : 1 ≤ o)
    (hδ : (a < 3 ∧ δ = a + 7) ∨ (¬ a < 3 ∧ δ = a))
    (hnw : (((c' = 0 ∧ (a' = 1 ∨ a' = 2)) ∨ (c' = 1 ∧ a' = 2)) ∧ nw' = 53) ∨
           (¬ ((c' = 0 ∧ (a' = 1 ∨ a' = 2)) ∨ (c' = 1 ∧ a' = 2)) ∧ nw' = 52))
    (hraw : (o + δ) / 7 < 1) :
    nw' = (o - (a + o) % 7 + 3 + (366 - c') - 1) / 7 + 1 := by
  have h7 : a' = 0 ∨ a' = 1 ∨ a' = 2 ∨ a' = 3 ∨ a' = 4 ∨ a' = 5 ∨ a' = 6 := by omega
  rcases h7 with rfl | rfl | rfl | rfl | rfl | rfl | rfl <;> rcases hc' with rfl | rfl <;> omega

theorem nisoweeks_fin : ∀ f < 16, (((f / 8 = 0 ∧ (f % 8 = 1 ∨ f % 8 = 2)) ∨ (f / 8 = 1 ∧ f % 8 = 2)) ∧ YearFlags.nisoweeks f = 53)
    ∨ (¬ ((f / 8 = 0 ∧ (f % 8 = 1 ∨ f % 8 = 2)) ∨ (f / 8 = 1 ∧ f % 8 = 2)) ∧ YearFlags.nisoweeks f = 52) := by decide

theorem yearLen_flags (y : Int) : (yearLen y : Int) = 366 - (flagsOf y / 8 : Nat) := by
  obtain ⟨_, _, hl, _⟩ := Proofs.flagsOf_facts y
  unfold yearLen
  rw [hl]; cases isLeap y <;> simp

theorem isoSpec_prev (y : Int) (o : Nat) (L' : Int) (hstep : daysBeforeYear y = daysBeforeYear (y - 1) + L')
    (h : (o : Int) - (daysBeforeYear y + o + 6) % 7 + 3 ≤ 0) :
    isoYear y o = y - 1 ∧
    isoWeek y o = ((o : Int) - (daysBeforeYear y + o + 6) % 7 + 3 + L' - 1) / 7 + 1 := by
  have hY : isoYear y o = y - 1 := by
    unfold isoYear isoThursday weekdayOf dayNumYo
    dsimp only
    rw [if_pos (by omega)]
  refine ⟨hY, ?_⟩
  unfold isoWeek; rw [hY]; unfold isoThursday weekdayOf dayNumYo
  omega

theorem isoSpec_next (y : Int) (o : Nat) (L : Int) (hL : 365 ≤ L) (hstep2 : daysBeforeYear (y + 1) = daysBeforeYear y + L)
    (h : (o : Int) - (daysBeforeYear y + o + 6) % 7 + 3 > L) :
    isoYear y o = y + 1 ∧
    isoWeek y o = ((o : Int) - (daysBeforeYear y + o + 6) % 7 + 3 - L - 1) / 7 + 1 := by
  have hY : isoYear y o = y + 1 := by
    unfold isoYear isoThursday weekdayOf dayNumYo
    dsimp only
    rw [if_neg (by omega), if_pos (by omega)]
  refine ⟨hY, ?_⟩
  unfold isoWeek; rw [hY]; unfold isoThursday weekdayOf dayNumYo
  omega

theorem isoSpec_cur (y : Int) (o : Nat) (L : Int) (hstep2 : daysBeforeYear (y + 1) = daysBeforeYear y + L)
    (h1 : ¬ (o : Int) - (daysBeforeYear y + o + 6) % 7 + 3 ≤ 0)
    (h2 : ¬ (o : Int) - (daysBeforeYear y + o + 6) % 7 + 3 > L) :
    isoYear y o = y ∧
    isoWeek y o = ((o : Int) - (daysBeforeYear y + o + 6) % 7 + 3 - 1) / 7 + 1 := by
  have hY : isoYear y o = y := by
    unfold isoYear isoThursday weekdayOf dayNumYo
    dsimp only
    rw [if_neg (by omega), if_neg (by omega)]
  refine ⟨hY, ?_⟩
  unfold isoWeek; rw [hY]; unfold isoThursday weekdayOf dayNumYo
  omega

theorem iso_pack (y' : Int) (w fl : Nat) (hw : w ≤ 63) (hf : fl < 16) :
    IsoWeek.year (y' * 1024 + (w : Int) * 16 + fl) = y' ∧ IsoWeek.week (y' * 1024 + (w : Int) * 16 + fl) = w := by
  unfold IsoWeek.year IsoWeek.week
  constructor <;> omega

/-- bridge from the flag bits to the variables of the core lemmas -/
theorem flag_bridge (F : Nat) (D : Int) (δ : Nat) (f16 : F < 16) (f8 : F % 8 ≠ 0)
    (fw : ((F % 8 : Nat) : Int) % 7 = (D + 6) % 7)
    (hδ : (F % 8 < 3 ∧ δ = F % 8 + 7) ∨ (¬ F % 8 < 3 ∧ δ = F % 8))
    (nw : Nat)
    (hn : (((F / 8 = 0 ∧ (F % 8 = 1 ∨ F % 8 = 2)) ∨ (F / 8 = 1 ∧ F % 8 = 2)) ∧ nw = 53)
      ∨ (¬ ((F / 8 = 0 ∧ (F % 8 = 1 ∨ F % 8 = 2)) ∨ (F / 8 = 1 ∧ F % 8 = 2)) ∧ nw = 52)) :
    (((D + 6) % 7 < 3 ∧ (δ : Int) = (D + 6) % 7 + 7) ∨ (¬ (D + 6) % 7 < 3 ∧ (δ : Int) = (D + 6) % 7)) ∧
    ((((((F / 8 : Nat) : Int) = 0 ∧ ((D + 6) % 7 = 1 ∨ (D + 6) % 7 = 2)) ∨ (((F / 8 : Nat) : Int) = 1 ∧ (D + 6) % 7 = 2)) ∧ (nw : Int) = 53) ∨
     (¬ ((((F / 8 : Nat) : Int) = 0 ∧ ((D + 6) % 7 = 1 ∨ (D + 6) % 7 = 2)) ∨ (((F / 8 : Nat) : Int) = 1 ∧ (D + 6) % 7 = 2)) ∧ (nw : Int) = 52)) ∧
    ((((F / 8 : Nat) : Int) = 0) ∨ (((F / 8 : Nat) : Int) = 1)) := by
  have h8 : F % 8 = 1 ∨ F % 8 = 2 ∨ F % 8 = 3 ∨ F % 8 = 4 ∨ F % 8 = 5 ∨ F % 8 = 6 ∨ F % 8 = 7 := by omega
  have h1 : F / 8 = 0 ∨ F / 8 = 1 := by omega
  rcases h8 with h | h | h | h | h | h | h <;> rcases h1 with g | g <;>
    (rw [h] at fw hδ hn; rw [g] at hn; rw [g]; refine ⟨?_, ?_, ?_⟩ <;> omega)

/-- the ISO week of the model is the ISO 8601 week date of the specification -/
theorem iso_week_spec (y : Int) (o : Nat) (hy : MIN_YEAR ≤ y ∧ y ≤ MAX_YEAR) (ho : 1 ≤ o ∧ o ≤ yearLen y) :
    ∃ ywf, (dateOfYo y o).iso_week = .ok ywf ∧ IsoWeek.year ywf = isoYear y o ∧
      IsoWeek.week ywf = isoWeek y o := by
  have hyl := Proofs.yearLen_ge y
  have hylp := Proofs.yearLen_ge (y - 1)
  have hMIN : MIN_YEAR = -262143 := rfl
  have hMAX : MAX_YEAR = 262142 := rfl
  obtain ⟨hyr, hord, hfl, -, -, -⟩ := Proofs.dateOfYo_fields y o (by omega)
  obtain ⟨f16, f8, -, fw⟩ := Proofs.flagsOf_facts y
  obtain ⟨p16, p8, -, pw⟩ := Proofs.flagsOf_facts (y - 1)
  obtain ⟨n16, -, -, -⟩ := Proofs.flagsOf_facts (y + 1)
  have hL := yearLen_flags y
  have hLp := yearLen_flags (y - 1)
  have hstep := Proofs.dby_step (y - 1)
  have hstep2 := Proofs.dby_step y
  rw [show y - 1 + 1 = y by omega] at hstep
  have hnw := nisoweeks_fin (flagsOf y) f16
  have hnp := nisoweeks_fin (flagsOf (y - 1)) p16
  unfold weekdayOf at fw pw
  unfold Date.iso_week IsoWeek.from_yof
  rw [hyr, hord, hfl, Int.toNat_natCast]
  have e1 : ckI32 (y - 1) = .ok (y - 1) := Proofs.ckI32_ok (by omega) (by omega)
  have e2 : ckI32 (y + 1) = .ok (y + 1) := Proofs.ckI32_ok (by omega) (by omega)
  simp only [Proofs.from_year_spec, e1, e2]
  unfold YearFlags.isoweek_delta
  generalize hδ : (if flagsOf y % 8 < 3 then flagsOf y % 8 + 7 else flagsOf y % 8) = δ
  have hδ' : (flagsOf y % 8 < 3 ∧ δ = flagsOf y % 8 + 7) ∨ (¬ flagsOf y % 8 < 3 ∧ δ = flagsOf y % 8) := by
    split at hδ <;> omega
  obtain ⟨b1, b2, b3⟩ := flag_bridge (flagsOf y) (daysBeforeYear y) δ f16 f8 fw hδ' _ hnw
  have hwd : (daysBeforeYear y + o + 6) % 7 = ((daysBeforeYear y + 6) % 7 + o) % 7 := by omega
  have hoL : (1 : Int) ≤ o ∧ (o : Int) ≤ 366 - ((flagsOf y / 8 : Nat) : Int) := by omega
  obtain ⟨A1, A2, A3, A4⟩ := iso_core_A ((daysBeforeYear y + 6) % 7) ((flagsOf y / 8 : Nat) : Int) o δ
    (YearFlags.nisoweeks (flagsOf y)) (by omega) b3 hoL b1 b2
  rw [← hwd] at A1 A2 A3 A4
  have hnis : YearFlags.nisoweeks (flagsOf y) ≤ 63 := by rcases hnw with h | h <;> omega
  have hnisp : YearFlags.nisoweeks (flagsOf (y - 1)) ≤ 63 := by rcases hnp with h | h <;> omega
  by_cases c1 : (o + δ) / 7 < 1
  · rw [if_pos c1]
    have c1' : ((o : Int) + δ) / 7 < 1 := by omega
    -- δ of the previous year is irrelevant: only its week count enters
    have hδp : ((flagsOf (y - 1)) % 8 < 3 ∧ (if flagsOf (y - 1) % 8 < 3 then flagsOf (y - 1) % 8 + 7 else flagsOf (y - 1) % 8) = flagsOf (y - 1) % 8 + 7) ∨
        (¬ (flagsOf (y - 1)) % 8 < 3 ∧ (if flagsOf (y - 1) % 8 < 3 then flagsOf (y - 1) % 8 + 7 else flagsOf (y - 1) % 8) = flagsOf (y - 1) % 8) := by
      split <;> omega
    obtain ⟨-, q2, q3⟩ := flag_bridge (flagsOf (y - 1)) (daysBeforeYear (y - 1)) _ p16 p8 pw hδp _ hnp
    have hrel : (daysBeforeYear y + 6) % 7 = ((daysBeforeYear (y - 1) + 6) % 7 + (366 - ((flagsOf (y - 1) / 8 : Nat) : Int))) % 7 := by
      omega
    have hB := iso_core_B ((daysBeforeYear y + 6) % 7) ((daysBeforeYear (y - 1) + 6) % 7) ((flagsOf (y - 1) / 8 : Nat) : Int) o δ
      (YearFlags.nisoweeks (flagsOf (y - 1))) (by omega) q3 hrel (by omega) b1 q2 c1'
    rw [← hwd] at hB
    obtain ⟨s1, s2⟩ := isoSpec_prev y o (yearLen (y - 1)) hstep (A1.mp c1')
    obtain ⟨k1, k2⟩ := iso_pack (y - 1) (YearFlags.nisoweeks (flagsOf (y - 1))) (flagsOf (y - 1)) hnisp p16
    refine ⟨_, rfl, ?_, ?_⟩
    · rw [k1, s1]
    · rw [k2, s2, hB, hLp]
  · rw [if_neg c1]
    have c1' : ¬ ((o : Int) + δ) / 7 < 1 := by omega
    by_cases c2 : (o + δ) / 7 > YearFlags.nisoweeks (flagsOf y)
    · rw [if_pos c2]
      have c2' : ((o : Int) + δ) / 7 > YearFlags.nisoweeks (flagsOf y) := by omega
      obtain ⟨s1, s2⟩ := isoSpec_next y o (yearLen y) (by omega) hstep2 (by have := A2.mp c2'; omega)
      obtain ⟨k1, k2⟩ := iso_pack (y + 1) 1 (flagsOf (y + 1)) (by omega) n16
      refine ⟨_, rfl, ?_, ?_⟩
      · rw [s1]; exact k1
      · rw [s2]
        have := A4 c2'
        rw [hL]
        rw [k2]; omega
    · rw [if_neg c2]
      have c2' : ¬ ((o : Int) + δ) / 7 > YearFlags.nisoweeks (flagsOf y) := by omega
      obtain ⟨s1, s2⟩ := isoSpec_cur y o (yearLen y) hstep2 (by intro h; exact c1' (A1.mpr h))
        (by intro h; apply c2'; apply A2.mpr; omega)
      have hraw : (o + δ) / 7 ≤ 63 := by omega
      obtain ⟨k1, k2⟩ := iso_pack y ((o + δ) / 7) (flagsOf y) hraw f16
      refine ⟨_, rfl, ?_, ?_⟩
      · rw [s1]; exact k1
      · rw [s2, k2]
        have := A3 c1' c2'
        omega

/-- `%G %g %V` (and the ISO century) -/
theorem numeric_iso (y : Int) (o : Nat) (hy : MIN_YEAR ≤ y ∧ y ≤ MAX_YEAR) (ho : 1 ≤ o ∧ o ≤ yearLen y)
    (t : Option Time) (off : Option Int) (tt : Time) (oo : Int) (pad : Pad) (n : Numeric)
    (hn : n ∈ [Numeric.isoYear, .isoYearDiv100, .isoYearMod100, .isoWeek]) :
    format_numeric (some (dateOfYo y o)) t off n pad = wok (renderNumeric n pad y o tt oo) := by
  obtain ⟨ywf, h1, h2, h3⟩ := iso_week_spec y o hy ho
  have hw : 0 ≤ isoWeek y o ∧ isoWeek y o < 100 := by
    rw [← h3]; unfold IsoWeek.week; omega
  simp only [List.mem_cons, List.mem_nil_iff, or_false] at hn
  rcases hn with rfl | rfl | rfl | rfl
  · simp only [format_numeric, renderNumeric, numericValue, h1, W.ofRes, h2, write_year_ok]
  · simp only [format_numeric, renderNumeric, numericValue, numericWidth, h1, W.ofRes, h2, write_n, number_eq]; rfl
  · simp only [format_numeric, renderNumeric, numericValue, numericWidth, h1, W.ofRes, h2]
    rw [write_two_ok _ (by omega) (by omega)]
  · simp only [format_numeric, renderNumeric, numericValue, numericWidth, h1, W.ofRes, h3]
    rw [write_two_ok _ hw.1 hw.2]

end Chrono.Proofs.FormatIsoL
