/-
  Helper lemmas for the string forms of C20 (Props/C20.lean, `string_forms_roundtrip_*`):
  * the serde glue adds nothing to a writer / reader pair (`glue_roundtrip`, and `glue_pure` for writers
    and readers that are plain functions: weekday / month names);
  * the zone-aware writer of serde, `write_rfc3339(wall clock, offset, AutoSi, use_z = true)`, writes the
    `Debug` text of the wall clock followed by the RFC 3339 offset (`write_rfc3339_autoSi_debug`, for every
    value: a structural identity of the two models), and for a whole-minute offset that offset text is `Z`
    for zero and `+hh:mm` / `-hh:mm` otherwise (`offset_rfc3339_text`);
  * hence its text and what the relaxed `FromStr` reader of C09 makes of it (`serde_datetime_text`,
    `serde_datetime_read`).
-/
import Chrono.Props.C09
import Chrono.Proofs.Rfc3339WriteL
import Chrono.Spec.SerdeStrSpec
namespace Chrono.Proofs.SerdeStr
open Chrono Chrono.M Chrono.M.Format Chrono.M.TextForms Chrono.M.Serde
open Chrono.Spec Chrono.Spec.Text Chrono.Spec.Serde Chrono.Proofs.TextForms

/-! ### the glue -/

/-- writers and readers that are plain functions: `collect_str(print v)`, then `visit_str = parse(..)` -/
theorem glue_pure {α : Type} (F : StrFormat) (hF : F.Faithful)
    (print : α → List Nat) (parse : List Nat → Option α) (P : α → Prop)
    (hrt : ∀ v, P v → parse (print v) = some v) (v : α) (hv : P v) :
    strDeserialize F parse (strSerialize F print v) = .ok v := by
  unfold strDeserialize strSerialize
  rw [hF]; dsimp only; rw [hrt v hv]; rfl

/-- writers that can fail or panic, visitors that can refuse or panic: if the writer writes `text` for `v`
and the visitor reads `text` as `v'`, then through any faithful format `v` is stored as `text` and read as
`v'` -/
theorem glue_roundtrip {α β : Type} (F : StrFormat) (hF : F.Faithful) (w : α → W)
    (visit : List Nat → Res (SR β)) (v : α) (v' : β) (text : List Nat)
    (hw : w v = wok text) (hr : visit text = .ok (.ok v')) :
    strSerializeW F w v = .ok (.ok (F.putStr text)) ∧
    strDeserializeV F visit (F.putStr text) = .ok (.ok v') ∧
    strRoundTrip F w visit v = .ok (.ok v') := by
  have h1 : strSerializeW F w v = .ok (.ok (F.putStr text)) := by
    unfold strSerializeW; rw [hw]; rfl
  have h2 : strDeserializeV F visit (F.putStr text) = .ok (.ok v') := by
    unfold strDeserializeV; rw [hF]; exact hr
  refine ⟨h1, h2, ?_⟩
  unfold strRoundTrip
  rw [h1]
  exact h2

theorem visitOf_ok {α} (r : Parsed.RP α) (a : α) (h : r = .ok (.ok a)) : visitOf r = .ok (.ok a) := by
  rw [h]; rfl

/-! ### the zone-aware writer -/

theorem seq_assoc (a b c : W) : (a.seq b).seq c = a.seq (b.seq c) := by
  cases a with
  | panic => rfl
  | ok oa =>
    cases oa with
    | none => rfl
    | some x =>
      cases b with
      | panic => rfl
      | ok ob =>
        cases ob with
        | none => rfl
        | some y =>
          cases c with
          | panic => rfl
          | ok oc =>
            cases oc with
            | none => rfl
            | some z => simp only [W.seq, List.append_assoc]

/-- **`write_rfc3339` with `AutoSi` is `Debug` of the wall clock followed by the offset**, for every
wall clock, offset and `use_z` (also where an accessor panics or a field does not fit two digits) -/
theorem write_rfc3339_autoSi_debug (dt : NaiveDT) (off : Int) (use_z : Bool) :
    write_rfc3339 dt off .autoSi use_z =
      (naive_debug dt).seq (OffsetFormat.format ⟨.minutes, .colon, use_z, .zero⟩ off) := by
  obtain ⟨date, time⟩ := dt
  rw [Chrono.Proofs.Rfc3339.write_rfc3339_unfold]
  unfold naive_debug date_debug time_debug Date.month Date.day
  cases date.mdf with
  | panic => rfl
  | ok mdf =>
    simp only [W.ofRes, seq_assoc]
    rfl

/-- the offset as serde's zone-aware writer shows it: `Z` for zero, else `+hh:mm` / `-hh:mm` -/
theorem offset_rfc3339_text (off : Int) (h : WholeMinute off) :
    OffsetFormat.format ⟨.minutes, .colon, true, .zero⟩ off = wok (zoneText off) := by
  obtain ⟨h1, h2, h3⟩ := h
  rw [Chrono.Proofs.RenderScan.offset_minutes_eq .colon true off ⟨h1, h2⟩]
  unfold zoneText
  by_cases h0 : off = 0
  · rw [if_pos ⟨rfl, h0⟩, if_pos h0]
  · rw [if_neg (fun hh => h0 hh.2), if_neg h0]
    obtain ⟨p1, p2⟩ := Chrono.Proofs.RenderScan.whole_minute_parts off h3
    rw [p1, p2]
    unfold offsetText Chrono.Proofs.RenderScan.colonText
    rw [if_pos rfl]
    have e1 : ((if off < 0 then -off else off) / 3600).toNat = off.natAbs / 3600 := by split <;> omega
    have e2 : ((if off < 0 then -off else off) / 60 % 60).toNat = off.natAbs / 60 % 60 := by split <;> omega
    rw [e1, e2, decN_two _ (by omega), decN_two _ (by omega)]

/-- the text serde writes for a zone-aware value on the domain of C09: the wall clock in its `Debug`
form, then `Z` or the offset -/
theorem serde_datetime_text (z : Zoned) (hz : ZInv z) (hm : WholeMinute z.off)
    (hs : TStrict z.utc.time) (l : NaiveDT) (hl : Zoned.naive_local z = .ok l) :
    DateTimeStr.serialize z = wok (naiveText 84 l ++ zoneText z.off) := by
  obtain ⟨Y, O, hvd, he, hst, hov⟩ := local_facts z hz hm.2.2 hs l hl
  unfold DateTimeStr.serialize
  rw [hov]
  show write_rfc3339 l z.off .autoSi true = _
  rw [write_rfc3339_autoSi_debug, offset_rfc3339_text z.off hm]
  have hd : naive_debug l = wok (naiveText 84 l) := by
    have ht : naiveText 84 l = dateText Y (monthOfYo Y O) (dayOfYo Y O) ++ (84 :: timeText l.time) := by
      unfold naiveText
      have : l.date = dateOfYo Y O := by rw [he]
      rw [this, dateTextOf_yo Y O hvd]
    rw [ht]
    conv => lhs; rw [he]
    exact naive_debug_text Y O hvd _ hst.1
  rw [hd]
  rfl

/-- … and the relaxed `FromStr for DateTime<FixedOffset>` reads that text back as the value -/
theorem serde_datetime_read (z : Zoned) (hz : ZInv z) (hm : WholeMinute z.off)
    (hs : TStrict z.utc.time) (l : NaiveDT) (hl : Zoned.naive_local z = .ok l) :
    fixed_from_str (naiveText 84 l ++ zoneText z.off) = .ok (.ok z) := by
  unfold zoneText
  by_cases h0 : z.off = 0
  · rw [if_pos h0]
    exact fixed_from_text z hz hm.2.2 hs l hl 84 (Or.inl rfl) [90] [90]
      (tailOk_cons 90 _ (by decide) (by decide)) (by decide) (by rw [h0]; rfl)
  · rw [if_neg h0]
    exact (Chrono.Props.C09.roundtrip_DateTime_FixedOffset z hz hm hs l hl).2.1

/-- the wall clock of a `DateTime<Utc>` is its UTC reading -/
theorem naive_local_utc (u : NaiveDT) (hu : NDTInv u) : Zoned.naive_local ⟨u, 0⟩ = .ok u := by
  have hz : ZInv ⟨u, 0⟩ := ⟨hu, by show OffValid 0; unfold OffValid; omega⟩
  have hext : ExtNDTInv u := ⟨((dateInv_iff u.date).mp hu.1).1, hu.2⟩
  have hov : Zoned.overflowing_naive_local ⟨u, 0⟩ = .ok u :=
    local_back ⟨u, 0⟩ hz u hext (by show instSecs u = instSecs u - 0; omega) rfl
  obtain ⟨l', h1, _, _, _, h5, h6⟩ := naive_local_spec ⟨u, 0⟩ hz
  rw [hov] at h1
  injection h1 with h1
  subst h1
  rw [h5, if_pos (h6.mp hu.1)]

end Chrono.Proofs.SerdeStr
