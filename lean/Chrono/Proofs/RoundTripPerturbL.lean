/-
  C13, perturbations end to end: the token chain of `chain_of_separated` re-derived for a text whose
  segments are case / white-space perturbations (`Spec.Perturbed`) of the formatter's segments, so that
  the perturbed text makes exactly the setter calls of the original one.
  Namespace `Chrono.Proofs.RoundTrip`.
-/
import Chrono.Proofs.RoundTripFormatOkL
import Chrono.Spec.PerturbSpec

namespace Chrono.Proofs.RoundTrip
open Chrono Chrono.M Chrono.M.Scan Chrono.Spec Chrono.Spec.Fields Chrono.Extracted Chrono.Proofs Chrono.Proofs.ParsedRes

/-! ### the specification's vocabulary in the reader's terms -/

theorem sameUpToCase_lowerS (a b : List Nat) : sameUpToCase a b ↔ lowerS a = lowerS b := Iff.rfl

/-- the perturbation of a segment in the reader's terms: a white-space character is any byte string the
reader's `wsLen` takes for one (so that the formatter's own white-space segment is a perturbation of
itself); `Spec.PerturbSeg` implies it (`pseg_of_perturb`) -/
def PSeg (it : Item) (seg seg' : List Nat) : Prop :=
  match it with
  | .space _ => ∃ cs : List (List Nat), WsChars cs ∧ seg' = cs.flatten ∧ (seg ≠ [] → cs ≠ [])
  | it => if caseFree it = true then lowerS seg' = lowerS seg else seg' = seg

def PSegs : List Item → List (List Nat) → List (List Nat) → Prop
  | [], [], [] => True
  | it :: is, s :: ss, s' :: ss' => PSeg it s s' ∧ PSegs is ss ss'
  | _, _, _ => False

theorem perturbSeg_space (sp seg seg' : List Nat) :
    PSeg (.space sp) seg seg' ↔
      ∃ cs : List (List Nat), WsChars cs ∧ seg' = cs.flatten ∧ (seg ≠ [] → cs ≠ []) := Iff.rfl

theorem perturbSeg_other (it : Item) (h : ∀ sp, it ≠ .space sp) (seg seg' : List Nat) :
    PSeg it seg seg' ↔ (if caseFree it = true then lowerS seg' = lowerS seg else seg' = seg) := by
  cases it with
  | space sp => exact absurd rfl (h sp)
  | _ => exact Iff.rfl

/-- every one of the 25 encodings is a white-space character for the reader -/
theorem ws_chars_wsChars (cs : List (List Nat)) (h : ∀ c ∈ cs, c ∈ WS_CHARS) : WsChars cs := by
  intro c hc
  have := h c hc
  simp only [WS_CHARS, List.mem_cons, List.not_mem_nil, or_false] at this
  rcases this with rfl | rfl | rfl | rfl | rfl | rfl | rfl | rfl | rfl | rfl | rfl | rfl | rfl | rfl |
    rfl | rfl | rfl | rfl | rfl | rfl | rfl | rfl | rfl | rfl | rfl <;>
    exact ⟨by simp, fun s => by simp [wsLen]⟩

theorem pseg_of_perturb (it : Item) (seg seg' : List Nat) (h : PerturbSeg it seg seg') : PSeg it seg seg' := by
  cases it with
  | space sp =>
    obtain ⟨cs, h1, h2, h3⟩ := h
    exact ⟨cs, ws_chars_wsChars cs h1, h2, h3⟩
  | _ => exact h

theorem psegs_of_perturbed : ∀ (is : List Item) (ss ss' : List (List Nat)), Perturbed is ss ss' → PSegs is ss ss'
  | [], [], [], _ => trivial
  | [], [], _ :: _, h => by simp [Perturbed] at h
  | [], _ :: _, _, h => by simp [Perturbed] at h
  | _ :: _, [], _, h => by simp [Perturbed] at h
  | _ :: _, _ :: _, [], h => by simp [Perturbed] at h
  | it :: is, s :: ss, s' :: ss', h => ⟨pseg_of_perturb it s s' h.1, psegs_of_perturbed is ss ss' h.2⟩

/-- a non-empty run of white-space characters starts with a byte that is neither a digit nor a dot -/
theorem ws_run_head (cs : List (List Nat)) (h : WsChars cs) (hne : cs ≠ []) :
    ∃ a t, cs.flatten = a :: t ∧ isDigit a = false ∧ a ≠ 46 := by
  cases cs with
  | nil => exact absurd rfl hne
  | cons c cs' =>
    obtain ⟨hc1, hc2⟩ := h c List.mem_cons_self
    cases c with
    | nil => exact absurd rfl hc1
    | cons a t =>
      have hw := hc2 []
      rw [List.append_nil] at hw
      refine ⟨a, t ++ cs'.flatten, by simp, ?_, ?_⟩
      · cases hd : isDigit a with
        | false => rfl
        | true => rw [wsLen_digit a t hd] at hw; simp at hw
      · intro e; subst e; simp [wsLen] at hw

theorem lowerB_head (a a' : Nat) (h : lowerB a' = lowerB a) (ha : isAsciiAlpha a = true ∨ a = 43 ∨ a = 45) :
    isAsciiAlpha a' = true ∨ a' = 43 ∨ a' = 45 := by
  simp only [isAsciiAlpha, Bool.or_eq_true, Bool.and_eq_true, decide_eq_true_eq] at ha ⊢
  unfold lowerB at h
  split at h <;> split at h <;> omega

/-- the perturbed rendering of a name, am/pm or offset item still starts with a letter or a sign -/
theorem perturbed_fixed_head (c : Ctx) (hc : CtxOk c) (f : Fixed)
    (hf : f ∈ [Fixed.shortMonthName, .longMonthName, .shortWeekdayName, .longWeekdayName, .lowerAmPm,
      .upperAmPm, .timezoneOffset, .timezoneOffsetColon])
    (tb : List Nat) (hfmt : Format.format_fixed c.date c.time c.off f = Format.wok tb)
    (tb' : List Nat) (hP : PSeg (.fixed f) tb tb') :
    ∃ a t, tb' = a :: t ∧ (isAsciiAlpha a = true ∨ a = 43 ∨ a = 45) := by
  obtain ⟨a, t, e, ha⟩ := fixed_head c hc f hf tb hfmt
  rw [perturbSeg_other _ (fun sp h => by cases h)] at hP
  by_cases hcf : caseFree (.fixed f) = true
  · rw [if_pos hcf] at hP
    subst e
    cases tb' with
    | nil => simp [lowerS] at hP
    | cons a' t' =>
      simp only [lowerS, List.map_cons, List.cons.injEq] at hP
      exact ⟨a', t', rfl, lowerB_head a a' hP.1 ha⟩
  · rw [if_neg hcf] at hP
    subst hP
    exact ⟨a, t, e, ha⟩

/-- `stops_head` for a perturbed rendering -/
theorem stops_head_perturbed (c : Ctx) (hc : CtxOk c) (b : Item) (hp : provedItem b = true)
    (hs : stopsNumber b = true) (tb : List Nat)
    (hfmt : Format.format_item c.date c.time c.off b = Format.wok tb)
    (tb' : List Nat) (hP : PSeg b tb tb') (x : List Nat) :
    StopsDigits (tb' ++ x) ∧ (startsWithDot b = false → ∀ t, tb' ++ x ≠ 46 :: t) := by
  have fromHead : ∀ a t, tb' = a :: t → isDigit a = false → a ≠ 46 →
      StopsDigits (tb' ++ x) ∧ (startsWithDot b = false → ∀ t, tb' ++ x ≠ 46 :: t) := by
    intro a t e h1 h2
    subst e
    refine ⟨fun b' t' e' => ?_, fun _ t' e' => ?_⟩
    · rw [List.cons_append] at e'; injection e' with e1 _; rw [← e1]; exact h1
    · rw [List.cons_append] at e'; injection e' with e1 _; exact h2 e1
  cases b with
  | literal s =>
    have e : tb' = tb := by
      rw [perturbSeg_other _ (fun sp h => by cases h)] at hP
      simpa [caseFree] using hP
    subst e
    exact stops_head c hc _ hp hs tb' hfmt x
  | space s =>
    have e := wok_inj _ _ hfmt
    obtain ⟨cs, hcs, rfl, hne⟩ := (perturbSeg_space s tb tb').mp hP
    have hs' : tb ≠ [] := by
      rw [← e]
      intro h0; subst h0
      simp [stopsNumber, startsNonDigit] at hs
    obtain ⟨a, t, e', h1, h2⟩ := ws_run_head cs hcs (hne hs')
    exact fromHead a t e' h1 h2
  | numeric n pad => simp [stopsNumber] at hs
  | fixed f =>
    by_cases hdf : f = .nanosecond3 ∨ f = .nanosecond6 ∨ f = .nanosecond9
    · have e : tb' = tb := by
        rw [perturbSeg_other _ (fun sp h => by cases h)] at hP
        rcases hdf with rfl | rfl | rfl <;> simpa [caseFree] using hP
      subst e
      exact stops_head c hc _ hp hs tb' hfmt x
    · have hf : f ∈ [Fixed.shortMonthName, .longMonthName, .shortWeekdayName, .longWeekdayName, .lowerAmPm,
          .upperAmPm, .timezoneOffset, .timezoneOffsetColon] := by
        cases f <;> simp [stopsNumber] at hs hdf ⊢
      obtain ⟨a, t, e, ha⟩ := perturbed_fixed_head c hc f hf tb hfmt tb' hP
      obtain ⟨h1, h2, _, _⟩ := alpha_sign_facts a ha
      exact fromHead a t e h1 h2
  | error => cases hp

/-- `after_space_head` for a perturbed rendering -/
theorem after_space_head_perturbed (c : Ctx) (hc : CtxOk c) (b : Item) (is' : List Item)
    (hp : provedItem b = true) (hs : afterSpaceOk b = true) (tb : List Nat)
    (hfmt : Format.format_item c.date c.time c.off b = Format.wok tb)
    (tb' : List Nat) (hP : PSeg b tb tb') (x : List Nat) :
    SpaceNext (b :: is') (tb' ++ x) := by
  by_cases hl : leadInsensitive b = true
  · exact Or.inr ⟨b, is', rfl, hl⟩
  · cases b with
    | literal s =>
      have e : tb' = tb := by
        rw [perturbSeg_other _ (fun sp h => by cases h)] at hP
        simpa [caseFree] using hP
      subst e
      exact after_space_head c hc _ is' hp hs tb' hfmt x
    | space s => exact absurd rfl hl
    | numeric n pad => exact absurd rfl hl
    | fixed f =>
      by_cases hcf : caseFree (.fixed f) = true
      · left
        have hf : f ∈ [Fixed.shortMonthName, .longMonthName, .shortWeekdayName, .longWeekdayName, .lowerAmPm,
            .upperAmPm, .timezoneOffset, .timezoneOffsetColon] := by
          cases f <;> simp [caseFree] at hcf ⊢
        obtain ⟨a, t, e, ha⟩ := perturbed_fixed_head c hc f hf tb hfmt tb' hP
        obtain ⟨_, _, h3, h4⟩ := alpha_sign_facts a ha
        subst e
        exact wsLen_visible a _ h3 h4
      · have e : tb' = tb := by
          rw [perturbSeg_other _ (fun sp h => by cases h), if_neg hcf] at hP
          exact hP
        subst e
        exact after_space_head c hc _ is' hp hs tb' hfmt x
    | error => cases hp

/-- `restOk_of_sep` with the facts about the following text as a hypothesis (so that it applies to the
rendering of the next item as well as to a perturbation of it) -/
theorem restOk_of_sep_gen (c : Ctx) (a b : Item) (rest : List Item) (hpa : provedItem a = true)
    (hnot : ∀ sp, a ≠ .space sp)
    (hsep : separated (a :: b :: rest) = true) (hy : YearOk c (a :: b :: rest)) (R : List Nat)
    (hstop : stopsNumber b = true → StopsDigits R ∧ (startsWithDot b = false → ∀ t, R ≠ 46 :: t))
    (hB : isNumber a = true → isOptFrac b = true → (startsNonDigit R = true ∨ R = [])) :
    RestOk c a R := by
  simp only [separated, Bool.and_eq_true, Bool.or_eq_true, Bool.not_eq_true'] at hsep
  obtain ⟨⟨hsd0, hdot⟩, _⟩ := hsep
  have stops : stopsNumber b = true → (startsNonDigit R = true ∨ R = []) :=
    fun h => spec_of_stops _ (hstop h).1
  cases a with
  | literal s => trivial
  | space s => exact absurd rfl (hnot s)
  | error => cases hpa
  | fixed f =>
    have hsd : selfDelimiting (.fixed f) = true ∨ stopsNumber b = true := by
      rcases hsd0 with h | h
      · exact h
      · exact absurd h.1 (by simp [isNumber])
    cases f <;> first
      | trivial
      | (simp only [selfDelimiting, Bool.false_eq_true, false_or] at hsd
         first
           | exact stops hsd
           | (refine ⟨stops hsd, ?_⟩
              have hb : startsWithDot b = false := by
                rcases hdot with h | h
                · simp at h
                · exact h
              exact (hstop hsd).2 hb))
  | numeric n pad =>
    have hyear : ∀ m : Numeric, (m = .year ∨ m = .isoYear) → n = m →
        selfDelimiting (.numeric n pad) = true → stopsNumber b = false →
        pad = .zero ∧ yearTouchesDigits m (.numeric n pad :: b :: rest) = true := by
      intro m hm hn h1 h2
      subst hn
      refine ⟨?_, by simp [yearTouchesDigits, h2]⟩
      rcases hm with rfl | rfl <;> cases pad <;> simp [selfDelimiting] at h1 ⊢
    by_cases hsb : stopsNumber b = true
    · have := stops hsb
      cases n <;> simp only [RestOk] <;> first | trivial | exact this | exact Or.inl this
    · by_cases hob : isOptFrac b = true
      · have := hB rfl hob
        cases n <;> simp only [RestOk] <;> first | trivial | exact this | exact Or.inl this
      · have hsb' : stopsNumber b = false := by simpa using hsb
        have hself : selfDelimiting (.numeric n pad) = true := by
          rcases hsd0 with (h | h) | h
          · exact h
          · exact absurd h hsb
          · exact absurd h.2 hob
        cases n with
        | year =>
          obtain ⟨hp0, ht⟩ := hyear .year (Or.inl rfl) rfl hself hsb'
          exact Or.inr ⟨hp0, hy.1 ht⟩
        | isoYear =>
          obtain ⟨hp0, ht⟩ := hyear .isoYear (Or.inr rfl) rfl hself hsb'
          exact Or.inr ⟨hp0, hy.2 ht⟩
        | timestamp => simp [selfDelimiting] at hself
        | quarter => trivial
        | numDaysFromSun => trivial
        | weekdayFromMon => trivial
        | _ =>
          simp only [RestOk]
          right
          cases pad <;> simp [selfDelimiting] at hself ⊢

/-! ### names and am/pm in any letter case, for a value's context -/

/-- the reader of a name or am/pm item takes ANY text that equals the item's rendering up to letter case,
and makes the item's own field call -/
theorem casefree_inverts_ctx (c : Ctx) (hc : CtxOk c) (f : Fixed) (hcf : caseFree (.fixed f) = true)
    (text rest : List Nat) (hfmt : Format.format_fixed c.date c.time c.off f = Format.wok text)
    (text' : List Nat) (hcase : lowerS text' = lowerS text) :
    ∃ set, fieldCall c (.fixed f) = some set ∧ InvertsAt (.fixed f) ⟨text', set⟩ rest := by
  obtain ⟨hcd, hct, hco⟩ := hc
  have needDate : ∀ (P : Prop), (∀ Y o, VD Y o → c.date = some (dateOfYo Y o) → P) →
      (c.date = none → P) → P := by
    intro P h1 h2
    cases hd : c.date with
    | none => exact h2 hd
    | some d => obtain ⟨Y, o, hvd, rfl⟩ := hcd d hd; exact h1 Y o hvd hd
  have needTime : ∀ (P : Prop), (∀ t, TValid t → c.time = some t → P) → (c.time = none → P) → P := by
    intro P h1 h2
    cases ht : c.time with
    | none => exact h2 ht
    | some t => exact h1 t (hct t ht) ht
  have monthCase : ∀ (long : Bool) (f : Fixed), f = (if long then Fixed.longMonthName else .shortMonthName) →
      Format.format_fixed c.date c.time c.off f = Format.wok text →
      ∃ set, fieldCall c (.fixed f) = some set ∧ InvertsAt (.fixed f) ⟨text', set⟩ rest := by
    intro long f hf hfmt
    apply needDate
    · intro Y o hvd hd
      obtain ⟨_, _, _, _, _, _, hm, _, m1, m2, _⟩ := date_facts Y o hvd
      have hv : numVal c .month = some ((monthOfYo Y o : Nat) : Int) := by simp [numVal, hd, hm]
      obtain ⟨r1, r2⟩ := month_name_reads (monthOfYo Y o - 1) (by omega) text' rest
      have hcast : (((monthOfYo Y o - 1 : Nat) : Nat) : Int) + 1 = ((monthOfYo Y o : Nat) : Int) := by omega
      rw [hd] at hfmt
      cases long
      · subst hf
        simp only [Bool.false_eq_true, if_false, Format.format_fixed, Format.W.ofRes, hm] at hfmt
        have ht := wok_inj _ _ hfmt
        refine ⟨fun p => p.set_month (monthOfYo Y o), by simp [fieldCall, hv], ?_⟩
        intro p
        simp only [Bool.false_eq_true, if_false, step, Parse.parseItemBase, Parse.parseFixedBase,
          r1 (by rw [ht]; exact hcase), hcast]
      · subst hf
        simp only [if_true, Format.format_fixed, Format.W.ofRes, hm] at hfmt
        have ht := wok_inj _ _ hfmt
        refine ⟨fun p => p.set_month (monthOfYo Y o), by simp [fieldCall, hv], ?_⟩
        intro p
        simp only [if_true, step, Parse.parseItemBase, Parse.parseFixedBase, r2 (by rw [ht]; exact hcase), hcast]
    · intro hd; rw [hd] at hfmt; cases long <;> subst hf <;> cases hfmt
  have wdCase : ∀ (long : Bool) (f : Fixed), f = (if long then Fixed.longWeekdayName else .shortWeekdayName) →
      Format.format_fixed c.date c.time c.off f = Format.wok text →
      ∃ set, fieldCall c (.fixed f) = some set ∧ InvertsAt (.fixed f) ⟨text', set⟩ rest := by
    intro long f hf hfmt
    apply needDate
    · intro Y o hvd hd
      obtain ⟨r1, r2⟩ := weekday_name_reads (dateOfYo Y o).weekday text' rest
      rw [hd] at hfmt
      cases long
      · subst hf
        simp only [Bool.false_eq_true, if_false, Format.format_fixed] at hfmt
        have ht := wok_inj _ _ hfmt
        refine ⟨fun p => p.set_weekday (dateOfYo Y o).weekday, by simp [fieldCall, hd], ?_⟩
        intro p
        simp only [Bool.false_eq_true, if_false, step, Parse.parseItemBase, Parse.parseFixedBase,
          r1 (by rw [ht]; exact hcase)]
      · subst hf
        simp only [if_true, Format.format_fixed] at hfmt
        have ht := wok_inj _ _ hfmt
        refine ⟨fun p => p.set_weekday (dateOfYo Y o).weekday, by simp [fieldCall, hd], ?_⟩
        intro p
        simp only [if_true, step, Parse.parseItemBase, Parse.parseFixedBase, r2 (by rw [ht]; exact hcase)]
    · intro hd; rw [hd] at hfmt; cases long <;> subst hf <;> cases hfmt
  have ampmCase : ∀ (f : Fixed), (f = .lowerAmPm ∨ f = .upperAmPm) →
      Format.format_fixed c.date c.time c.off f = Format.wok text →
      ∃ set, fieldCall c (.fixed f) = some set ∧ InvertsAt (.fixed f) ⟨text', set⟩ rest := by
    intro f hf hfmt
    apply needTime
    · intro t _ ht
      rw [ht] at hfmt
      have hfc : fieldCall c (.fixed f) = some (fun p => p.set_ampm t.hour12.1) := by
        rcases hf with rfl | rfl <;> simp [fieldCall, ht]
      refine ⟨_, hfc, ?_⟩
      have htext : ∃ a b, text = [a, b] ∧ lowerB a = (if t.hour12.1 then 112 else 97) ∧ lowerB b = 109 := by
        rcases hf with rfl | rfl
        · have : Format.format_fixed c.date (some t) c.off .lowerAmPm =
              Format.wok (lowerS (LOC_AM_PM.getD (if t.hour12.1 then 1 else 0) [])) := by cases c.date <;> rfl
          have e := wok_inj _ _ (this.symm.trans hfmt)
          cases hpm : t.hour12.1 <;> rw [hpm] at e <;> subst e <;> exact ⟨_, _, rfl, by decide, by decide⟩
        · have : Format.format_fixed c.date (some t) c.off .upperAmPm =
              Format.wok (LOC_AM_PM.getD (if t.hour12.1 then 1 else 0) []) := by cases c.date <;> rfl
          have e := wok_inj _ _ (this.symm.trans hfmt)
          cases hpm : t.hour12.1 <;> rw [hpm] at e <;> subst e <;> exact ⟨_, _, rfl, by decide, by decide⟩
      obtain ⟨a, b, rfl, ha, hb⟩ := htext
      have hl : text'.length = 2 := by simpa [lowerS] using congrArg List.length hcase
      rcases text' with _ | ⟨a', _ | ⟨b', _ | ⟨c', t'⟩⟩⟩ <;> simp at hl
      simp only [lowerS, List.map_cons, List.map_nil, List.cons.injEq, and_true] at hcase
      exact ampm_inverts f hf t.hour12.1 a' b' rest (hcase.1.trans ha) (hcase.2.trans hb)
    · intro ht; rw [ht] at hfmt
      rcases hf with rfl | rfl <;> cases hd : c.date <;> rw [hd] at hfmt <;> cases hfmt
  cases f with
  | shortMonthName => exact monthCase false _ rfl hfmt
  | longMonthName => exact monthCase true _ rfl hfmt
  | shortWeekdayName => exact wdCase false _ rfl hfmt
  | longWeekdayName => exact wdCase true _ rfl hfmt
  | lowerAmPm => exact ampmCase _ (Or.inl rfl) hfmt
  | upperAmPm => exact ampmCase _ (Or.inr rfl) hfmt
  | _ => exact absurd hcf (by simp [caseFree])

/-! ### the chain of the perturbed text -/

/-- the tokens of the perturbed text: the perturbed segments with the setter calls of the original tokens -/
def retok : List Tok → List (List Nat) → List Tok
  | tk :: tks, s :: ss => ⟨s, tk.set⟩ :: retok tks ss
  | _, _ => []

theorem flatText_retok : ∀ (tks : List Tok) (ss : List (List Nat)), tks.length = ss.length →
    flatText (retok tks ss) = ss.flatten
  | [], [], _ => rfl
  | [], _ :: _, h => by simp at h
  | _ :: _, [], h => by simp at h
  | tk :: tks, s :: ss, h => by
    have := flatText_retok tks ss (by simpa using h)
    simp only [flatText] at this
    simp [retok, flatText, this]

theorem sets_retok : ∀ (tks : List Tok) (ss : List (List Nat)), tks.length = ss.length →
    (retok tks ss).map (·.set) = tks.map (·.set)
  | [], [], _ => rfl
  | [], _ :: _, h => by simp at h
  | _ :: _, [], h => by simp at h
  | tk :: tks, s :: ss, h => by
    simp [retok, sets_retok tks ss (by simpa using h)]

theorem psegs_length : ∀ (is : List Item) (ss ss' : List (List Nat)), PSegs is ss ss' →
    ss.length = ss'.length
  | [], [], [], _ => rfl
  | [], [], _ :: _, h => by simp [PSegs] at h
  | [], _ :: _, _, h => by simp [PSegs] at h
  | _ :: _, [], _, h => by simp [PSegs] at h
  | _ :: _, _ :: _, [], h => by simp [PSegs] at h
  | _ :: is, _ :: ss, _ :: ss', h => by
    simp only [PSegs] at h
    simp [psegs_length is ss ss' h.2]

/-- **the token chain of a perturbed text followed by `rest`**, from the same syntactic predicates as
`chain_of_separated`; `rest` must be something the last item's reader stops at (`RestOk`) -/
theorem chain_of_separated_perturbed (c : Ctx) (hc : CtxOk c) (rest : List Nat) :
    ∀ (is : List Item) (tks : List Tok) (ss' : List (List Nat)),
    TokensOf c is tks → PSegs is (tks.map (·.text)) ss' →
    (∀ it ∈ is, provedItem it = true) → (∀ it ∈ is, ItemExpr c it) →
    separated is = true → spaceSafe is = true → YearOk c is →
    (∀ a, is.getLast? = some a → RestOk c a rest) → Chain2 is (retok tks ss') rest := by
  intro is
  induction is with
  | nil =>
    intro tks ss' h _ _ _ _ _ _ _
    cases tks with
    | nil => cases ss' <;> trivial
    | cons _ _ => exact absurd h (by simp [TokensOf])
  | cons a is ih =>
    intro tks ss' h hP hp he hsep hsafe hy hlast
    cases tks with
    | nil => exact absurd h (by simp [TokensOf])
    | cons tk tks =>
      cases ss' with
      | nil => exact absurd hP (by simp [PSegs])
      | cons s' ss' =>
      obtain ⟨⟨hfa, hca⟩, htl⟩ := h
      simp only [List.map_cons, PSegs] at hP
      obtain ⟨hPa, hPtl⟩ := hP
      have hpa := hp a List.mem_cons_self
      have hea := he a List.mem_cons_self
      have inv_of : (∀ sp, a ≠ .space sp) → ∀ R, RestOk c a R → InvertsAt a ⟨s', tk.set⟩ R := by
        intro hns R hR
        rw [perturbSeg_other a hns] at hPa
        by_cases hcf : caseFree a = true
        · rw [if_pos hcf] at hPa
          cases a with
          | fixed f =>
            obtain ⟨set, hs, hi⟩ := casefree_inverts_ctx c hc f hcf tk.text R hfa s' hPa
            have : set = tk.set := by rw [hca] at hs; injection hs with hs; exact hs.symm
            rw [this] at hi; exact hi
          | _ => simp [caseFree] at hcf
        · rw [if_neg hcf] at hPa
          subst hPa
          obtain ⟨set, hs, hi⟩ := item_inverts_ctx c hc a hpa tk.text hfa hea R hR
          have : set = tk.set := by rw [hca] at hs; injection hs with hs; exact hs.symm
          rw [this] at hi; exact hi
      have spaceTok : ∀ sp, a = .space sp → (∃ cs, WsChars cs ∧ s' = cs.flatten) ∧ tk.set = .ok := by
        intro sp e
        subst e
        obtain ⟨cs, hcs, e', _⟩ := (perturbSeg_space sp tk.text s').mp hPa
        refine ⟨⟨cs, hcs, e'⟩, ?_⟩
        have : fieldCall c (.space sp) = some .ok := rfl
        rw [this] at hca; injection hca with hca; exact hca.symm
      cases is with
      | nil =>
        cases tks with
        | cons _ _ => exact absurd htl (by simp [TokensOf])
        | nil =>
          cases ss' with
          | cons _ _ => exact absurd hPtl (by simp [PSegs])
          | nil =>
          have hR : RestOk c a (flatText [] ++ rest) := by
            have := hlast a rfl
            simpa [flatText] using this
          cases a with
          | space sp =>
            obtain ⟨h1, h2⟩ := spaceTok sp rfl
            exact ⟨⟨h1, h2, Or.inl hR⟩, trivial⟩
          | literal l => exact ⟨inv_of (fun sp h => by cases h) _ hR, trivial⟩
          | numeric n pad => exact ⟨inv_of (fun sp h => by cases h) _ hR, trivial⟩
          | fixed f => exact ⟨inv_of (fun sp h => by cases h) _ hR, trivial⟩
          | error => exact ⟨inv_of (fun sp h => by cases h) _ hR, trivial⟩
      | cons b is' =>
        cases tks with
        | nil => exact absurd htl (by simp [TokensOf])
        | cons tkb tks' =>
          cases ss' with
          | nil => exact absurd hPtl (by simp [PSegs])
          | cons sb' ss'' =>
          have hfb := htl.1.1
          have hPb : PSeg b tkb.text sb' := by
            simp only [List.map_cons, PSegs] at hPtl; exact hPtl.1
          have hpb := hp b (List.mem_cons_of_mem _ List.mem_cons_self)
          have htail : Chain2 (b :: is') (retok (tkb :: tks') (sb' :: ss'')) rest :=
            ih (tkb :: tks') (sb' :: ss'') htl hPtl (fun x hx => hp x (List.mem_cons_of_mem _ hx))
              (fun x hx => he x (List.mem_cons_of_mem _ hx))
              (by simp only [separated, Bool.and_eq_true] at hsep; exact hsep.2)
              (by cases a <;> simp only [spaceSafe, Bool.and_eq_true] at hsafe <;> first | exact hsafe.2 | exact hsafe)
              (yearOk_tail c a b is' hy)
              (fun x hx => hlast x (by rw [List.getLast?_cons_cons]; exact hx))
          have eR : flatText (retok (tkb :: tks') (sb' :: ss'')) ++ rest =
              sb' ++ (flatText (retok tks' ss'') ++ rest) := by simp [flatText, retok]
          have hsepT : separated (b :: is') = true := by
            simp only [separated, Bool.and_eq_true] at hsep; exact hsep.2
          have hB : isNumber a = true → isOptFrac b = true →
              (startsNonDigit (sb' ++ (flatText (retok tks' ss'') ++ rest)) = true ∨
                sb' ++ (flatText (retok tks' ss'') ++ rest) = []) := by
            intro _ hob
            have hnsb : ∀ sp, b ≠ .space sp := fun sp e => by subst e; simp [isOptFrac] at hob
            have hnnb : ¬ isNumber b = true := by
              cases b <;> simp [isOptFrac, isNumber] at hob ⊢
            have hncf : ¬ caseFree b = true := by
              cases b with
              | fixed f => cases f <;> simp [isOptFrac, caseFree] at hob ⊢
              | _ => simp [isOptFrac] at hob
            have esb : sb' = tkb.text := by
              rw [perturbSeg_other b hnsb, if_neg hncf] at hPb; exact hPb
            rw [esb]
            refine optfrac_stops c b hob tkb.text hfb _ ?_
            cases is' with
            | nil =>
              cases tks' with
              | cons _ _ => exact absurd htl.2 (by simp [TokensOf])
              | nil =>
                cases ss'' with
                | cons _ _ =>
                  simp only [List.map_cons, PSegs] at hPtl
                  exact absurd hPtl.2 (by simp [PSegs])
                | nil =>
                  have := hlast b (by simp)
                  simpa [flatText, retok] using this
            | cons c' is'' =>
              cases tks' with
              | nil => exact absurd htl.2 (by simp [TokensOf])
              | cons tkc tks'' =>
                cases ss'' with
                | nil =>
                  simp only [List.map_cons, PSegs] at hPtl
                  exact absurd hPtl.2 (by simp [PSegs])
                | cons sc' ss3 =>
                  have hPc : PSeg c' tkc.text sc' := by
                    simp only [List.map_cons, PSegs] at hPtl; exact hPtl.2.1
                  have hpc := hp c' (List.mem_cons_of_mem _ (List.mem_cons_of_mem _ List.mem_cons_self))
                  have e2 : flatText (retok (tkc :: tks'') (sc' :: ss3)) ++ rest =
                      sc' ++ (flatText (retok tks'' ss3) ++ rest) := by simp [flatText, retok]
                  rw [e2]
                  exact restOk_of_sep_gen c b c' is'' hpb hnsb hsepT (yearOk_tail c a b _ hy) _
                    (fun hsc => stops_head_perturbed c hc c' hpc hsc tkc.text htl.2.1.1 sc' hPc _)
                    (fun h => absurd h hnnb)
          have sepRest : (∀ sp, a ≠ .space sp) → RestOk c a (sb' ++ (flatText (retok tks' ss'') ++ rest)) :=
            fun hns => restOk_of_sep_gen c a b is' hpa hns hsep hy _
              (fun hsb => stops_head_perturbed c hc b hpb hsb tkb.text hfb sb' hPb _) hB
          show Chain2 (a :: b :: is') (⟨s', tk.set⟩ :: retok (tkb :: tks') (sb' :: ss'')) rest
          cases a with
          | space sp =>
            obtain ⟨h1, h2⟩ := spaceTok sp rfl
            have hs : afterSpaceOk b = true := by
              simp only [spaceSafe, Bool.and_eq_true] at hsafe; exact hsafe.1
            refine ⟨⟨h1, h2, ?_⟩, htail⟩
            rw [eR]
            exact after_space_head_perturbed c hc b is' hpb hs tkb.text hfb sb' hPb _
          | literal l =>
            refine ⟨inv_of (fun sp h => by cases h) _ ?_, htail⟩
            rw [eR]; exact sepRest (fun sp h => by cases h)
          | numeric n pad =>
            refine ⟨inv_of (fun sp h => by cases h) _ ?_, htail⟩
            rw [eR]; exact sepRest (fun sp h => by cases h)
          | fixed f =>
            refine ⟨inv_of (fun sp h => by cases h) _ ?_, htail⟩
            rw [eR]; exact sepRest (fun sp h => by cases h)
          | error => cases hpa

/-- the formatter's own segments are a perturbation of themselves (in the reader's terms) -/
theorem psegs_refl (c : Ctx) : ∀ (is : List Item) (tks : List Tok), TokensOf c is tks →
    (∀ it ∈ is, provedItem it = true) → PSegs is (tks.map (·.text)) (tks.map (·.text))
  | [], [], _, _ => trivial
  | [], _ :: _, h, _ => by simp [TokensOf] at h
  | _ :: _, [], h, _ => by simp [TokensOf] at h
  | it :: is, tk :: tks, h, hp => by
    refine ⟨?_, psegs_refl c is tks h.2 (fun x hx => hp x (List.mem_cons_of_mem _ hx))⟩
    cases it with
    | space sp =>
      have e := wok_inj _ _ h.1.1
      obtain ⟨cs, h1, h2⟩ := wsRun_chars sp (hp _ List.mem_cons_self)
      refine ⟨cs, h1, by rw [h2]; exact e.symm, fun hne => ?_⟩
      intro h0; subst h0
      apply hne
      show tk.text = []
      rw [← e, ← h2]; rfl
    | literal l => simp [PSeg, caseFree]
    | numeric n p => simp [PSeg, caseFree]
    | fixed f => unfold PSeg; dsimp only; split <;> rfl
    | error => simp [PSeg, caseFree]

theorem retok_self : ∀ (tks : List Tok), retok tks (tks.map (·.text)) = tks
  | [] => rfl
  | tk :: tks => by simp [retok, retok_self tks]

/-- **a perturbed text followed by `rest` is parsed with exactly the setter calls of the tokens**, `rest`
is left over -/
theorem perturbed_parse_internal (c : Ctx) (hc : CtxOk c) (is : List Item) (tks : List Tok)
    (ss' : List (List Nat)) (htk : TokensOf c is tks) (hP : PSegs is (tks.map (·.text)) ss')
    (hp : ∀ it ∈ is, provedItem it = true) (hexp : ∀ it ∈ is, ItemExpr c it)
    (hsep : separated is = true) (hsafe : spaceSafe is = true) (hy : YearOk c is) (rest : List Nat)
    (hlast : ∀ a, is.getLast? = some a → RestOk c a rest) (p : Parsed) :
    Parse.parse_internal p (ss'.flatten ++ rest) is = (applyAll tks p).map fun p' => (p', rest) := by
  have hlen : tks.length = ss'.length := by
    have := psegs_length is _ _ hP
    simpa using this
  have h2 := chain2_parse is _ rest p
    (chain_of_separated_perturbed c hc rest is tks ss' htk hP hp hexp hsep hsafe hy hlast)
  rw [flatText_retok tks ss' hlen] at h2
  rw [h2, applyAll_congr _ _ p (sets_retok tks ss' hlen)]

/-- the segments of the tokens are what the formatter writes for the items -/
theorem rendered_of_tokens (c : Ctx) : ∀ (is : List Item) (tks : List Tok), TokensOf c is tks →
    Rendered c is (tks.map (·.text))
  | [], [], _ => trivial
  | [], _ :: _, h => by simp [TokensOf] at h
  | _ :: _, [], h => by simp [TokensOf] at h
  | _ :: is, _ :: tks, h => ⟨h.1.1, rendered_of_tokens c is tks h.2⟩

/-- the formatter's segments are determined by the items -/
theorem rendered_unique (c : Ctx) : ∀ (is : List Item) (s1 s2 : List (List Nat)),
    Rendered c is s1 → Rendered c is s2 → s1 = s2
  | [], [], [], _, _ => rfl
  | [], [], _ :: _, _, h => by simp [Rendered] at h
  | [], _ :: _, _, h, _ => by simp [Rendered] at h
  | _ :: _, [], _, h, _ => by simp [Rendered] at h
  | _ :: _, _ :: _, [], _, h => by simp [Rendered] at h
  | _ :: is, a :: s1, b :: s2, h1, h2 => by
    have e := wok_inj _ _ (h1.1.symm.trans h2.1)
    rw [e, rendered_unique c is s1 s2 h1.2 h2.2]

/-! ### the side conditions of the chain from `Spec.expressible`, for the context a value shows -/

theorem ctx_year_conditions (is : List Item) (v : ParseFrom.Value) (hE : exprYears is v) :
    (∀ it ∈ is, ItemExpr (ctxOf v) it) ∧ YearOk (ctxOf v) is := by
  have hdate : (ctxOf v).date = (shown v).1 := rfl
  unfold exprYears at hE
  cases hd : (shown v).1 with
  | none =>
    have hy : ∀ x, numVal (ctxOf v) .year = some x → False := by
      intro x h; simp [numVal, hdate, hd] at h
    have hi : ∀ x, numVal (ctxOf v) .isoYear = some x → False := by
      intro x h; simp [numVal, hdate, hd] at h
    refine ⟨fun it _ => ?_, ⟨fun _ x hx => (hy x hx).elim, fun _ x hx => (hi x hx).elim⟩⟩
    cases it with
    | numeric n pad =>
      cases n <;> first
        | trivial
        | (intro x hx; exact (hy x hx).elim)
        | (intro x hx; exact (hi x hx).elim)
    | _ => trivial
  | some d =>
    rw [hd] at hE
    simp only [onSome] at hE
    obtain ⟨⟨_, y2, _, y4⟩, hI⟩ := hE
    have hy : ∀ x, numVal (ctxOf v) .year = some x → x = d.year := by
      intro x h; simp [numVal, hdate, hd] at h; exact h.symm
    have hi : ∀ x, numVal (ctxOf v) .isoYear = some x → ∃ w, d.iso_week = .ok w ∧ x = IsoWeek.year w := by
      intro x h
      simp only [numVal, hdate, hd, Option.bind_some] at h
      cases hw : d.iso_week with
      | panic => rw [hw] at h; cases h
      | ok w => rw [hw] at h; injection h with h; exact ⟨w, rfl, h.symm⟩
    have iso : ∀ x, numVal (ctxOf v) .isoYear = some x →
        yearExpressible (carries is).isoYear (carries is).isoYearDiv (carries is).isoYearMod
          (yearTouchesDigits .isoYear is) x := by
      intro x hx
      obtain ⟨w, hw, rfl⟩ := hi x hx
      rw [hw] at hI
      exact hI
    refine ⟨fun it hm => ?_, ⟨fun ht x hx => ?_, fun ht x hx => ?_⟩⟩
    · cases it with
      | numeric n pad =>
        cases n <;> first
          | trivial
          | (intro x hx
             rw [hy x hx]
             exact y2 (carries_mem Carries.yearDiv mono_yearDiv _ (fun cr => rfl) is {} hm))
          | (intro x hx
             exact (iso x hx).2.1 (carries_mem Carries.isoYearDiv mono_isoYearDiv _ (fun cr => rfl) is {} hm))
      | _ => trivial
    · rw [hy x hx]; exact y4 ht
    · exact (iso x hx).2.2.2 ht

/-! ### from a value to its context; the entry points -/

/-- the value invariants: an existing day, a valid time of day, an offset inside ±24 h, a wall clock in
the supported range -/
def ValueOk (v : ParseFrom.Value) : Prop :=
  match v with
  | .date d => ∃ Y o, VD Y o ∧ d = dateOfYo Y o
  | .time t => TValid t
  | .naive dt => (∃ Y o, VD Y o ∧ dt.date = dateOfYo Y o) ∧ TValid dt.time
  | .zoned z => ∃ Y o t, VD Y o ∧ TValid t ∧ z.overflowing_naive_local = .ok ⟨dateOfYo Y o, t⟩ ∧
      -86400 < z.off ∧ z.off < 86400

/-- the context a value shows is a real one, and `format` is the item formatter run on it -/
theorem ctx_of_value (is : List Item) (v : ParseFrom.Value)
    (hv : ValueOk v) :
    CtxOk (ctxOf v) ∧ ParseFrom.formatItemsOf v is =
      Format.formatItemsR (ctxOf v).date (ctxOf v).time (ctxOf v).off is := by
  cases v with
  | date d =>
    obtain ⟨Y, o, hvd, rfl⟩ := hv
    have e : ctxOf (.date (dateOfYo Y o)) = ⟨some (dateOfYo Y o), none, none⟩ := rfl
    rw [e]
    exact ⟨⟨fun d h => (by cases h; exact ⟨Y, o, hvd, rfl⟩), fun t h => (by cases h), fun x h => (by cases h)⟩, rfl⟩
  | time t =>
    have e : ctxOf (.time t) = ⟨none, some t, none⟩ := rfl
    rw [e]
    exact ⟨⟨fun d h => (by cases h), fun t' h => (by cases h; exact hv), fun x h => (by cases h)⟩, rfl⟩
  | naive dt =>
    obtain ⟨⟨Y, o, hvd, hd⟩, htv⟩ := hv
    obtain ⟨d, t⟩ := dt
    simp only at hd htv
    subst hd
    have e : ctxOf (.naive ⟨dateOfYo Y o, t⟩) = ⟨some (dateOfYo Y o), some t, none⟩ := rfl
    rw [e]
    exact ⟨⟨fun d h => (by cases h; exact ⟨Y, o, hvd, rfl⟩), fun t' h => (by cases h; exact htv),
      fun x h => (by cases h)⟩, rfl⟩
  | zoned z =>
    obtain ⟨Y, o, t, hvd, htv, hl, hzo⟩ := hv
    have e : ctxOf (.zoned z) = ⟨some (dateOfYo Y o), some t, some (Format.fixedOffsetName z.off, z.off)⟩ := by
      simp [ctxOf, shown, hl]
    rw [e]
    refine ⟨⟨fun d h => (by cases h; exact ⟨Y, o, hvd, rfl⟩), fun t' h => (by cases h; exact htv),
      fun x h => (by cases h; exact hzo)⟩, ?_⟩
    simp only [ParseFrom.formatItemsOf, hl, Format.W.ofRes]

/-- **the formatted text of a member of the family, and every perturbation of it, followed by any `rest`
the last item's reader stops at, is parsed with exactly the tokens' setter calls** -/
theorem family_perturbed (is : List Item) (v : ParseFrom.Value)
    (hv : ValueOk v)
    (hp : ∀ it ∈ is, provedItem it = true) (hsep : separated is = true) (hsafe : spaceSafe is = true)
    (hE : exprYears is v) (text : List Nat) (hfmt : ParseFrom.formatItemsOf v is = Format.wok text) :
    ∃ tks, Rendered (ctxOf v) is (tks.map (·.text)) ∧ (tks.map (·.text)).flatten = text ∧
      ∀ rest, (∀ a, is.getLast? = some a → RestOk (ctxOf v) a rest) →
        ∀ ss', (Perturbed is (tks.map (·.text)) ss' ∨ ss' = tks.map (·.text)) → ∀ p,
          Parse.parse_internal p (ss'.flatten ++ rest) is = (applyAll tks p).map fun p' => (p', rest) := by
  obtain ⟨hc, hf⟩ := ctx_of_value is v hv
  obtain ⟨hexp, hy⟩ := ctx_year_conditions is v hE
  rw [hf] at hfmt
  obtain ⟨tks, htk, hflat⟩ := tokens_exist (ctxOf v) hc is text hp hexp hfmt
  refine ⟨tks, rendered_of_tokens _ is tks htk, hflat, fun rest hlast ss' hP p => ?_⟩
  have hP' : PSegs is (tks.map (·.text)) ss' := by
    rcases hP with h | h
    · exact psegs_of_perturbed _ _ _ h
    · rw [h]; exact psegs_refl _ is tks htk hp
  exact perturbed_parse_internal (ctxOf v) hc is tks ss' htk hP' hp hexp hsep hsafe hy rest hlast p

theorem parse_from_str_congr (T : ParseFrom.Target) (s s' fmt : List Nat)
    (h : Parse.parse_internal Parsed.new s' (Strftime.items fmt) =
      Parse.parse_internal Parsed.new s (Strftime.items fmt)) :
    ParseFrom.parse_from_str T s' fmt = ParseFrom.parse_from_str T s fmt := by
  simp only [ParseFrom.parse_from_str, ParseFrom.fields, Parse.parse, h]

/-- from "the text alone resolves to `v'`" to "the text followed by `tail` resolves to `v'` and leaves
`tail`", when both are parsed with the same setter calls -/
theorem parse_and_remainder_of (T : ParseFrom.Target) (text text' tail fmt : List Nat) (tks : List Tok)
    (v' : ParseFrom.Value)
    (h1 : Parse.parse_internal Parsed.new text (Strftime.items fmt) =
      (applyAll tks Parsed.new).map fun p' => (p', []))
    (h2 : Parse.parse_internal Parsed.new (text' ++ tail) (Strftime.items fmt) =
      (applyAll tks Parsed.new).map fun p' => (p', tail))
    (h3 : ParseFrom.parse_from_str T text fmt = .ok (.ok v')) :
    ParseFrom.parse_and_remainder T (text' ++ tail) fmt = .ok (.ok (v', tail)) := by
  cases hA : applyAll tks Parsed.new with
  | error e =>
    rw [hA] at h1
    have : ParseFrom.parse_from_str T text fmt = .ok (.error e) := by
      simp only [ParseFrom.parse_from_str, ParseFrom.fields, Parse.parse, h1]; rfl
    rw [this] at h3; cases h3
  | ok p' =>
    rw [hA] at h1 h2
    have hr : ParseFrom.resolve T p' = .ok (.ok v') := by
      have : ParseFrom.parse_from_str T text fmt = ParseFrom.resolve T p' := by
        simp only [ParseFrom.parse_from_str, ParseFrom.fields, Parse.parse, h1]; rfl
      rw [← this]; exact h3
    simp only [ParseFrom.parse_and_remainder, ParseFrom.fieldsRem, h2]
    show Parsed.RP.bind (ParseFrom.resolve T p') _ = _
    rw [hr]; rfl

end Chrono.Proofs.RoundTrip
