/- Helper lemmas for C03: the day and week iterators, operator forms, zone-aware wrappers. -/
import Chrono.Proofs.DateTimeArithL

namespace Chrono.Proofs
open Chrono Chrono.M Chrono.Spec Chrono.Extracted

theorem ends_inv : DateInv Date.MIN ∧ DateInv Date.MAX ∧ dayNumOf Date.MIN = -95746129 ∧
    dayNumOf Date.MAX = 95745399 := by decide

theorem succ_shift (v : Date) (hv : DateInv v) : ∃ r, Date.succ_opt v = .ok r ∧ IsDayShift v 1 r := by
  obtain ⟨ev, o1, o2, o3⟩ := inv_eq v hv
  obtain ⟨r, h1, h2, h3⟩ := succ_ok' v.year v.ordinal.toNat ⟨hv.1, hv.2.1⟩ ⟨o1, o2⟩
  rw [← ev] at h1 h2
  obtain ⟨c1, c2, _⟩ := dn_consts
  obtain ⟨_, e2, _, e4⟩ := ends_inv
  have hb := dn_bounds v hv
  have hdn : dayNumOf v = dayNumYo v.year v.ordinal.toNat := by unfold dayNumOf; rw [o3]
  refine ⟨r, h1, ?_, ?_⟩
  · rw [c1, c2, h2]
    constructor
    · intro h; rw [h, e4]; omega
    · intro h; exact dayNum_inj v Date.MAX hv e2 (by omega)
  · intro d hd
    obtain ⟨y', o', e, b1, b2, b3, b4, b5, _⟩ := h3 d hd
    obtain ⟨i1, i2⟩ := inv_of_yo y' o' ⟨b1, b2⟩ ⟨b3, b4⟩
    rw [e, i2, hdn]
    exact ⟨i1, b5⟩

theorem pred_shift (v : Date) (hv : DateInv v) : ∃ r, Date.pred_opt v = .ok r ∧ IsDayShift v (-1) r := by
  obtain ⟨ev, o1, o2, o3⟩ := inv_eq v hv
  obtain ⟨r, h1, h2, h3⟩ := pred_ok' v.year v.ordinal.toNat ⟨hv.1, hv.2.1⟩ ⟨o1, o2⟩
  rw [← ev] at h1 h2
  obtain ⟨c1, c2, _⟩ := dn_consts
  obtain ⟨e1, _, e3, _⟩ := ends_inv
  have hb := dn_bounds v hv
  have hdn : dayNumOf v = dayNumYo v.year v.ordinal.toNat := by unfold dayNumOf; rw [o3]
  refine ⟨r, h1, ?_, ?_⟩
  · rw [c1, c2, h2]
    constructor
    · intro h; rw [h, e3]; omega
    · intro h; exact dayNum_inj v Date.MIN hv e1 (by omega)
  · intro d hd
    obtain ⟨y', o', e, b1, b2, b3, b4, b5⟩ := h3 d hd
    obtain ⟨i1, i2⟩ := inv_of_yo y' o' ⟨b1, b2⟩ ⟨b3, b4⟩
    rw [e, i2, hdn]
    exact ⟨i1, by omega⟩

/-- a step function that yields the current value and moves by `s` days -/
def StepsBy (next : Date → Res (Option (Date × Date))) (s : Int) : Prop :=
  ∀ v, DateInv v → ∃ r, IsDayShift v s r ∧ next v = .ok (r.map fun n => (v, n))

theorem days_next_steps : StepsBy DaysIter.next 1 := by
  intro v hv
  obtain ⟨r, h1, h2⟩ := succ_shift v hv
  refine ⟨r, h2, ?_⟩
  unfold DaysIter.next; rw [h1]; cases r <;> rfl

theorem days_back_steps : StepsBy DaysIter.next_back (-1) := by
  intro v hv
  obtain ⟨r, h1, h2⟩ := pred_shift v hv
  refine ⟨r, h2, ?_⟩
  unfold DaysIter.next_back; rw [h1]; cases r <;> rfl

theorem weeks_next_steps : StepsBy WeeksIter.next 7 := by
  intro v hv
  obtain ⟨r, h1, h2⟩ := checked_add_days_spec v 7 hv (by omega)
  refine ⟨r, h2, ?_⟩
  unfold WeeksIter.next; rw [h1]; cases r <;> rfl

theorem weeks_back_steps : StepsBy WeeksIter.next_back (-7) := by
  intro v hv
  obtain ⟨r, h1, h2⟩ := checked_sub_days_spec v 7 hv (by omega)
  refine ⟨r, h2, ?_⟩
  unfold WeeksIter.next_back; rw [h1]; cases r <;> rfl

theorem stepsFit_eq (n : Int) : stepsFit n 1 = 95745399 - n ∧ stepsFit n 7 = (95745399 - n) / 7 ∧
    stepsFit n (-1) = n + 95746129 ∧ stepsFit n (-7) = (n + 95746129) / 7 := by
  obtain ⟨c1, c2, _⟩ := dn_consts
  unfold stepsFit
  rw [c1, c2]
  refine ⟨?_, ?_, ?_, ?_⟩ <;> simp

theorem drain_spec (next : Date → Res (Option (Date × Date))) (s : Int)
    (hs : s = 1 ∨ s = 7 ∨ s = -1 ∨ s = -7) (hst : StepsBy next s) :
    ∀ (fuel : Nat) (start : Date), DateInv start →
      ∃ items fin, drain next fuel start = .ok (items, fin) ∧
        (items.length : Int) = min (fuel : Int) (stepsFit (dayNumOf start) s) ∧
        (fin = true ↔ stepsFit (dayNumOf start) s < fuel) ∧
        ∀ (k : Nat) (hk : k < items.length),
          DateInv items[k] ∧ dayNumOf items[k] = dayNumOf start + k * s := by
  obtain ⟨c1, c2, _⟩ := dn_consts
  intro fuel
  induction fuel with
  | zero =>
    intro start hv
    have hb := dn_bounds start hv
    obtain ⟨f1, f2, f3, f4⟩ := stepsFit_eq (dayNumOf start)
    refine ⟨[], false, rfl, ?_, ?_, ?_⟩
    · rcases hs with rfl | rfl | rfl | rfl <;> simp <;> omega
    · rcases hs with rfl | rfl | rfl | rfl <;> simp <;> omega
    · intro k hk; simp at hk
  | succ fuel ih =>
    intro start hv
    have hb := dn_bounds start hv
    obtain ⟨f1, f2, f3, f4⟩ := stepsFit_eq (dayNumOf start)
    obtain ⟨r, hr, hn⟩ := hst start hv
    cases r with
    | none =>
      have hout := hr.1.mp rfl
      rw [c1, c2] at hout
      refine ⟨[], true, ?_, ?_, ?_, ?_⟩
      · unfold drain; rw [hn]; rfl
      · rcases hs with rfl | rfl | rfl | rfl <;> simp <;> omega
      · rcases hs with rfl | rfl | rfl | rfl <;> simp <;> omega
      · intro k hk; simp at hk
    | some n =>
      obtain ⟨hin, hdn⟩ := hr.2 n rfl
      have hnb := dn_bounds n hin
      obtain ⟨items, fin, h0, h1, h2, h3⟩ := ih n hin
      obtain ⟨g1, g2, g3, g4⟩ := stepsFit_eq (dayNumOf n)
      refine ⟨start :: items, fin, ?_, ?_, ?_, ?_⟩
      · unfold drain; rw [hn]; dsimp only [Option.map]; rw [h0]
      · rcases hs with rfl | rfl | rfl | rfl <;> simp only [List.length_cons] <;> push_cast <;> omega
      · rw [h2]
        rcases hs with rfl | rfl | rfl | rfl <;> push_cast <;> omega
      · intro k hk
        cases k with
        | zero => exact ⟨hv, by simp⟩
        | succ k =>
          have hk' : k < items.length := by simpa using hk
          obtain ⟨q1, q2⟩ := h3 k hk'
          refine ⟨by simpa using q1, ?_⟩
          simp only [List.getElem_cons_succ]
          rw [q2, hdn]
          rcases hs with rfl | rfl | rfl | rfl <;> push_cast <;> omega

/-! ### length hints -/

theorem size_hint_spec (v : Date) (hv : DateInv v) :
    DaysIter.size_hint v = .ok (stepsFit (dayNumOf v) 1) ∧
    WeeksIter.size_hint v = .ok (stepsFit (dayNumOf v) 7) := by
  obtain ⟨_, e2, _, e4⟩ := ends_inv
  obtain ⟨f1, f2, _, _⟩ := stepsFit_eq (dayNumOf v)
  have hb := dn_bounds v hv
  obtain ⟨d1, d2⟩ := date_diff_spec Date.MAX v e2 hv
  have hN : NS_PER_DAY = 86400000000000 := rfl
  have hr : nsInRange ((dayNumOf Date.MAX - dayNumOf v) * NS_PER_DAY) := by
    rw [e4, hN]; simp only [nsInRange, NS_MAX]; omega
  have hns := (ofNs_spec' _ hr).2
  have hacc := accessors_spec' _ d2
  unfold DaysIter.size_hint WeeksIter.size_hint
  rw [d1]
  dsimp only
  rw [hacc.2.2.2.2.2.2.2.1, hacc.2.2.2.2.2.2.2.2.1, hns, f1, f2, e4, hN]
  constructor
  · congr 1; rw [tdiv_eq]; split <;> omega
  · congr 1; rw [tdiv_eq]; split <;> omega

/-! ### operator forms -/

theorem expectSome_iff {α} (r : Res (Option α)) (x : α) : expectSome r = .ok x ↔ r = .ok (some x) := by
  unfold expectSome
  constructor
  · intro h
    cases r with
    | panic => cases h
    | ok o => cases o with
      | none => cases h
      | some a => cases h; rfl
  · intro h; rw [h]

theorem expectSome_panic {α} (r : Res (Option α)) : expectSome r = .panic ↔ (r = .ok none ∨ r = .panic) := by
  unfold expectSome
  constructor
  · intro h
    cases r with
    | panic => right; rfl
    | ok o => cases o with
      | none => left; rfl
      | some a => cases h
  · intro h; rcases h with h | h <;> rw [h]

/-! ### subtraction is addition of the negated duration (leap-second operands included) -/

theorem general_unique (d : Date) (k : Int) (t : Time) (r r' : Option NaiveDT)
    (h1 : IsDayShift d k (r.map (·.date))) (h2 : ∀ x, r = some x → x.time = t)
    (h1' : IsDayShift d k (r'.map (·.date))) (h2' : ∀ x, r' = some x → x.time = t) : r = r' := by
  have hu := dayShift_unique' d k _ _ h1 h1'
  cases r with
  | none => cases r' with
    | none => rfl
    | some x' => simp at hu
  | some x => cases r' with
    | none => simp at hu
    | some x' =>
      simp at hu
      have a := h2 x rfl
      have b := h2' x' rfl
      obtain ⟨xd, xt⟩ := x
      obtain ⟨xd', xt'⟩ := x'
      dsimp only at *
      subst hu; subst a; subst b; rfl

theorem dt_sub_is_add_neg (dt : NaiveDT) (δ : Delta) (hdt : NDTInv dt) (hδ : DInv δ) :
    NaiveDT.checked_sub_signed dt δ = NaiveDT.checked_add_signed dt (ofNs (-(ns δ))) := by
  have hr : nsInRange (-(ns δ)) := by
    have := hδ.2.2
    simp only [nsInRange, NS_MAX] at *
    omega
  obtain ⟨hi, hn⟩ := ofNs_spec' _ hr
  obtain ⟨r, a0, a1, a2⟩ := dt_sub_general dt δ hdt hδ
  obtain ⟨r', b0, b1, b2⟩ := dt_add_general dt _ hdt hi
  rw [hn] at b1 b2
  rw [a0, b0, general_unique _ _ _ r r' a1 a2 b1 b2]

/-- `b + (a − b) = a` for dates -/
theorem date_add_diff (a b : Date) (ha : DateInv a) (hb : DateInv b) :
    Date.checked_add_signed b (ofNs ((dayNumOf a - dayNumOf b) * NS_PER_DAY)) = .ok (some a) := by
  obtain ⟨_, hi⟩ := date_diff_spec a b ha hb
  have ba := dn_bounds a ha
  have bb := dn_bounds b hb
  have hN : NS_PER_DAY = 86400000000000 := rfl
  have hr : nsInRange ((dayNumOf a - dayNumOf b) * NS_PER_DAY) := by
    rw [hN]; simp only [nsInRange, NS_MAX]; omega
  obtain ⟨r, h0, h1⟩ := date_add_signed_spec b _ hb hi
  rw [(ofNs_spec' _ hr).2] at h1
  have hw : wholeDays ((dayNumOf a - dayNumOf b) * NS_PER_DAY) = dayNumOf a - dayNumOf b := by
    unfold wholeDays; rw [hN, tdiv_eq]; split <;> omega
  rw [hw] at h1
  obtain ⟨c1, c2, _⟩ := dn_consts
  have hsome : IsDayShift b (dayNumOf a - dayNumOf b) (some a) := by
    refine ⟨?_, ?_⟩
    · rw [c1, c2]; constructor
      · intro h; cases h
      · intro h; omega
    · intro d' h; rw [← Option.some.inj h]; exact ⟨ha, by omega⟩
  rw [h0, dayShift_unique' b _ r (some a) h1 hsome]

/-! ### zone-aware wrappers -/

theorem zoned_add_eq (z : Zoned) (δ : Delta) :
    Zoned.checked_add_signed z δ = (z.utc.checked_add_signed δ).bind fun r => .ok (r.map fun u => ⟨u, z.off⟩) := rfl
theorem zoned_sub_eq (z : Zoned) (δ : Delta) :
    Zoned.checked_sub_signed z δ = (z.utc.checked_sub_signed δ).bind fun r => .ok (r.map fun u => ⟨u, z.off⟩) := rfl

end Chrono.Proofs
