/-
  Helper lemmas for C11, part 6: soundness of field resolution for the record the RFC 2822 scanner
  builds (`Ok` only from valid fields, and then the value they denote).
-/
import Chrono.Proofs.Rfc2822WriteL
namespace Chrono.Proofs.Rfc2822
open Chrono Chrono.M Chrono.Spec Chrono.Spec.Rfc2822 Chrono.Spec.Fields Chrono.Proofs Chrono.Proofs.ParsedRes
open Chrono.Extracted

/-- without a timestamp field the date-time resolver succeeds only through date and time -/
theorem naive_inv (p : Parsed) (off : Int) (dt : NaiveDT) (hts : p.timestamp = none)
    (h : Parsed.to_naive_datetime_with_offset p off = .ok (.ok dt)) :
    ∃ d t, Parsed.to_naive_date p = .ok (.ok d) ∧ Parsed.to_naive_time p = .ok t ∧ dt = ⟨d, t⟩ := by
  unfold Parsed.to_naive_datetime_with_offset at h
  rw [hts] at h
  cases hd : Parsed.to_naive_date p with
  | panic => rw [hd] at h; cases h
  | ok rd =>
    rw [hd] at h
    cases rd with
    | error e =>
      simp only [] at h
      cases h
    | ok d =>
      cases ht : Parsed.to_naive_time p with
      | error e => rw [ht] at h; simp only [] at h; cases h
      | ok t =>
        rw [ht] at h
        simp only [] at h
        refine ⟨d, t, rfl, rfl, ?_⟩
        split at h
        · cases h
        · injection h with h; injection h with h; exact h.symm


/-- field resolution is sound: a value comes only from valid fields, and is the one they denote -/
theorem resolve_sound (f : Rfc2822.Fields) (hp : InType (parsedOf f)) (z : Zoned)
    (h : Parsed.to_datetime (parsedOf f) = .ok (.ok z)) : Valid f ∧ Denotes f z := by
  have hoffp : (parsedOf f).offset = some f.off := rfl
  have hts : (parsedOf f).timestamp = none := rfl
  unfold Parsed.to_datetime at h
  simp only [hoffp] at h
  -- the naive reading
  cases hn : Parsed.to_naive_datetime_with_offset (parsedOf f) f.off with
  | panic => rw [hn] at h; cases h
  | ok rn =>
  rw [hn] at h
  cases rn with
  | error e => simp only [Parsed.RP.bind] at h; cases h
  | ok dt =>
  simp only [Parsed.RP.bind] at h
  obtain ⟨d, t, hd, ht, rfl⟩ := naive_inv _ _ _ hts hn
  -- the offset and the conversion
  have hov : OffValid f.off := by
    unfold Zoned.east_opt at h
    by_cases ho : -86400 < f.off ∧ f.off < 86400
    · exact ho
    · rw [if_neg ho] at h; simp only [] at h; cases h
  have he : Zoned.east_opt f.off = some f.off := by unfold Zoned.east_opt; exact if_pos hov
  rw [he] at h
  simp only [] at h
  -- date and time
  obtain ⟨r, hr, hok, _, _⟩ := date_main (parsedOf f) hp
  rw [hd] at hr
  have huc : UsesCalendar (parsedOf f) := by
    unfold UsesCalendar GroupHasYear parsedOf; simp
  obtain ⟨Y, o, hvd, hdY, hag⟩ := hok d (by injection hr with hr; exact hr.symm)
  obtain ⟨a1, _, _, a4, _, _, a7, _, a9, _⟩ := hag (Or.inr huc)
  have e1 : f.year = Y := a1 f.year rfl
  have e4 : (f.month : Int) = (monthOfYo Y o : Int) := a4 (f.month : Int) rfl
  have e9 : (f.day : Int) = (dayOfYo Y o : Int) := a9 (f.day : Int) rfl
  obtain ⟨_, _, hval, hoo⟩ := month_day_spec Y o hvd.2.2.1 hvd.2.2.2
  have em : monthOfYo Y o = f.month := by omega
  have ed : dayOfYo Y o = f.day := by omega
  subst e1
  rw [em, ed] at hval hoo
  obtain ⟨⟨⟨t0, t1, f0, f1⟩, hleap⟩, ⟨b1, b2, b3, ⟨b4, b4'⟩, ⟨_, b5'⟩⟩, _, _⟩ := time_sound' _ t ht
  have bh1 := b1 ((f.hour : Int) / 12) rfl
  have bh2 := b2 ((f.hour : Int) % 12) rfl
  have bm := b3 (f.min : Int) rfl
  have bn := b5' rfl
  obtain ⟨c1, c2, c3, c4, c5, c6, c7, c8, c9, c10, c11, _⟩ := accessors' t ⟨t0, t1, f0, f1⟩
  simp only [hourOf, minuteOf, secondOf] at bh1 bh2 bm c5 c6 c7 c8 c9 c10 c11 b4 b4'
  -- seconds
  have hsec : secOf f ≤ 60 ∧ t.secs = (f.hour : Int) * 3600 + (f.min : Int) * 60 + (if secOf f = 60 then 59 else (secOf f : Int)) ∧
      t.frac = (if secOf f = 60 then 1000000000 else 0) := by
    unfold secOf
    cases hs : f.sec with
    | none =>
      have hnone : (parsedOf f).second = none := by unfold parsedOf; rw [hs]; rfl
      have := b4' hnone
      simp only [Option.getD_none]
      refine ⟨by omega, ?_, ?_⟩
      · rw [if_neg (by omega)]; omega
      · rw [if_neg (by omega)]; omega
    | some n =>
      have hsome : (parsedOf f).second = some (n : Int) := by unfold parsedOf; rw [hs]; rfl
      have := b4 (n : Int) hsome
      simp only [Option.getD_some]
      by_cases h60 : n = 60
      · subst h60
        rw [if_pos (show ((60 : Nat) : Int) = 60 from rfl)] at this
        refine ⟨by omega, ?_, ?_⟩
        · rw [if_pos rfl]; omega
        · rw [if_pos rfl]; omega
      · rw [if_neg (by omega)] at this
        refine ⟨by omega, ?_, ?_⟩
        · rw [if_neg h60]; omega
        · rw [if_neg h60]; omega
  obtain ⟨hs1, hs2, hs3⟩ := hsec
  have hyl := yearLen_ge f.year
  obtain ⟨hdi, hdn⟩ := Ts.dateInv_of_yo f.year o ⟨hvd.1, hvd.2.1⟩ ⟨hvd.2.2.1, hvd.2.2.2⟩
  have hnd : NDTInv ⟨d, t⟩ := ⟨by rw [hdY]; exact hdi, t0, t1, f0, f1⟩
  have hlocal : instSecs ⟨d, t⟩ = localSecs f := by
    unfold instSecs localSecs dayNum
    simp only [hdY, hdn, hoo, hs2]
    omega
  -- from_local_datetime
  have hext : ExtNDTInv ⟨d, t⟩ := ⟨((dateInv_iff _).mp hnd.1).1, hnd.2⟩
  obtain ⟨r2, hr2, hsome, _, hrange⟩ := from_local_spec f.off ⟨d, t⟩ hov hext
  rw [hr2] at h
  cases r2 with
  | none => simp only [] at h; cases h
  | some z' =>
    simp only [] at h
    injection h with h; injection h with h
    subst h
    obtain ⟨q1, q2, q5, q6, q7⟩ := hsome z' rfl
    have hin : InRangeSecs (localSecs f - f.off) := by
      rw [← hlocal]; exact hrange hnd.1 (by simp)
    refine ⟨⟨hvd.1, hvd.2.1, hval, ?_, by omega, by omega, hs1, hov, hin⟩, q1, by rw [q5, hlocal],
      by rw [q6]; exact hs3, ⟨q7 hnd.1, q2.2⟩, by rw [q1]; exact hov⟩
    intro w hw
    have := a7 w hw
    unfold dayNum
    rw [hoo]; exact this

end Chrono.Proofs.Rfc2822
