/-
  Helper lemmas for C04 (Props/C04.lean): the packed-date successor / predecessor on the calendar
  extended by one year at each end, the offset shift of a naive date-time in terms of day numbers,
  uniqueness of a reading, the range filter.
-/
import Chrono.Proofs.DateL
import Chrono.Proofs.TimeL
import Chrono.Spec.ZonedSpec

namespace Chrono.Proofs
open Chrono Chrono.M Chrono.Spec Chrono.Extracted

/-- the two headroom dates are the calendar's own: right year, ordinal, leap flag and weekday flags -/
theorem headroom_consts :
    Date.BEFORE_MIN = dateOfYo (MIN_YEAR - 1) 366 ∧ Date.AFTER_MAX = dateOfYo (MAX_YEAR + 1) 1 ∧
    yearLen (MIN_YEAR - 1) = 366 ∧ Date.MIN = dateOfYo MIN_YEAR 1 ∧ Date.MAX = dateOfYo MAX_YEAR 365 ∧
    yearLen MAX_YEAR = 365 ∧ MIN_YEAR = -262143 ∧ MAX_YEAR = 262142 ∧
    dayNumYo MIN_YEAR 1 = -95746129 ∧ dayNumYo MAX_YEAR 365 = 95745399 := by decide

theorem succ_ext (y : Int) (o : Nat) (hy : MIN_YEAR - 1 ≤ y ∧ y ≤ MAX_YEAR + 1) (ho : 1 ≤ o ∧ o ≤ yearLen y) :
    Date.succ_opt (dateOfYo y o) =
      .ok (if o < yearLen y then some (dateOfYo y (o + 1))
           else if MIN_YEAR ≤ y + 1 ∧ y + 1 ≤ MAX_YEAR then some (dateOfYo (y + 1) 1) else none) := by
  have hyl := yearLen_ge y
  obtain ⟨hf16, hf8, hleap, _⟩ := flagsOf_facts y
  have hD : DATE_MAX_OL = 5856 := rfl
  have hMIN : MIN_YEAR = -262143 := rfl
  have hMAX : MAX_YEAR = 262142 := rfl
  obtain ⟨hyear, _, _, _, _, _⟩ := dateOfYo_fields y o (by omega)
  have hc : (flagsOf y / 8 : Nat) = (if isLeap y then 0 else 1) := hleap
  have hylc : yearLen y = 366 - flagsOf y / 8 := by
    unfold yearLen; rw [hc]; cases isLeap y <;> simp
  unfold Date.succ_opt
  rw [hyear]
  have hol : (dateOfYo y o).yof / 8 % 1024 = (o : Int) * 2 + (flagsOf y / 8 : Nat) := by
    unfold dateOfYo; dsimp only; omega
  rw [hol]
  dsimp only
  by_cases hlt : o < yearLen y
  · rw [if_pos hlt, ite_pos' _ _ (by rw [hD]; omega)]
    have hyo : (dateOfYo y o).yof - (↑o * 2 + ↑(flagsOf y / 8)) * 8 + ((↑o * 2 + ↑(flagsOf y / 8)) * 8 + 16)
        = y * 8192 + (((o + 1) * 16 + flagsOf y : Nat) : Int) := by
      unfold dateOfYo; dsimp only; push_cast; omega
    rw [hyo, from_yof_ok y (o + 1) (flagsOf y) (by omega) (by omega) hf16 hf8 (by intro h; omega)]
    dsimp only
    congr 2
    unfold dateOfYo; congr 1; push_cast; omega
  · rw [if_neg hlt, ite_neg' _ _ (by rw [hD]; omega)]
    rw [ckI32_ok (by omega) (by omega)]
    dsimp only
    rw [ctor_yo']
    congr 1
    have hl1 := yearLen_ge (y + 1)
    by_cases hmax : MIN_YEAR ≤ y + 1 ∧ y + 1 ≤ MAX_YEAR
    · rw [if_pos hmax, if_pos ⟨hmax.1, hmax.2, by omega, by omega⟩]
    · rw [if_neg hmax]; apply ite_neg'; intro h; exact hmax ⟨h.1, h.2.1⟩

theorem pred_ext (y : Int) (o : Nat) (hy : MIN_YEAR - 1 ≤ y ∧ y ≤ MAX_YEAR + 1) (ho : 1 ≤ o ∧ o ≤ yearLen y) :
    Date.pred_opt (dateOfYo y o) =
      .ok (if 1 < o then some (dateOfYo y (o - 1))
           else if MIN_YEAR ≤ y - 1 ∧ y - 1 ≤ MAX_YEAR then some (dateOfYo (y - 1) (yearLen (y - 1))) else none) := by
  have hyl := yearLen_ge y
  obtain ⟨hf16, hf8, hleap, _⟩ := flagsOf_facts y
  have hMIN : MIN_YEAR = -262143 := rfl
  have hMAX : MAX_YEAR = 262142 := rfl
  obtain ⟨hyear, hord, _, _, _, _⟩ := dateOfYo_fields y o (by omega)
  unfold Date.pred_opt
  rw [hyear, hord]
  dsimp only
  by_cases hlt : 1 < o
  · rw [if_pos hlt, ite_pos' _ _ (by omega)]
    have hyo : (dateOfYo y o).yof - ↑o * 16 + (↑o * 16 - 16) = y * 8192 + (((o - 1) * 16 + flagsOf y : Nat) : Int) := by
      unfold dateOfYo; dsimp only; push_cast; omega
    have hc : (flagsOf y / 8 : Nat) = (if isLeap y then 0 else 1) := hleap
    rw [hyo, from_yof_ok y (o - 1) (flagsOf y) (by omega) (by omega) hf16 hf8 (by intro h; omega)]
    dsimp only
    congr 2
    unfold dateOfYo; congr 1; push_cast; omega
  · rw [if_neg hlt, ite_neg' _ _ (by omega)]
    rw [ckI32_ok (by omega) (by omega)]
    dsimp only
    rw [ctor_ymd']
    obtain ⟨h31, hv⟩ := ordinalOf_dec31 (y - 1)
    congr 1
    by_cases hmin : MIN_YEAR ≤ y - 1 ∧ y - 1 ≤ MAX_YEAR
    · rw [if_pos hmin, if_pos ⟨hmin.1, hmin.2, hv⟩, h31]
    · rw [if_neg hmin]; apply ite_neg'; intro h; exact hmin ⟨h.1, h.2.1⟩


/-! ### valid (year, ordinal) pairs of the extended calendar -/

/-- `(y, o)` names a day of the extended calendar -/
def VYO (y : Int) (o : Nat) : Prop := MIN_YEAR - 1 ≤ y ∧ y ≤ MAX_YEAR + 1 ∧ 1 ≤ o ∧ o ≤ yearLen y

theorem ext_eq (d : Date) (h : ExtDateInv d) : d = dateOfYo d.year d.ordinal.toNat ∧ VYO d.year d.ordinal.toNat := by
  obtain ⟨h1, h2, h3, h4, h5⟩ := h
  have hyl := yearLen_ge d.year
  refine ⟨?_, h1, h2, by omega, by omega⟩
  apply date_eq_of_yof
  unfold dateOfYo
  dsimp only
  unfold Date.year Date.ordinal at *
  rw [← h5]
  have : ((d.yof / 16 % 512).toNat : Int) = d.yof / 16 % 512 := Int.toNat_of_nonneg (by omega)
  rw [this]
  omega

theorem ext_of_vyo (y : Int) (o : Nat) (h : VYO y o) : ExtDateInv (dateOfYo y o) := by
  obtain ⟨h1, h2, h3, h4⟩ := h
  have hyl := yearLen_ge y
  obtain ⟨f1, f2, _, f4, _, _⟩ := dateOfYo_fields y o (by omega)
  unfold ExtDateInv
  rw [f1, f2]
  exact ⟨h1, h2, by omega, by omega, f4⟩

theorem dayNumOf_yo (y : Int) (o : Nat) (ho : o < 512) : dayNumOf (dateOfYo y o) = dayNumYo y o := by
  obtain ⟨f1, f2, _⟩ := dateOfYo_fields y o ho
  unfold dayNumOf; rw [f1, f2]

/-- in-range day numbers are exactly the days of in-range years -/
theorem range_iff (y : Int) (o : Nat) (ho : 1 ≤ o ∧ o ≤ yearLen y) :
    (DAY_MIN ≤ dayNumYo y o ∧ dayNumYo y o ≤ DAY_MAX) ↔ (MIN_YEAR ≤ y ∧ y ≤ MAX_YEAR) := by
  have hyl := yearLen_ge y
  have hMIN : MIN_YEAR = -262143 := rfl
  have hMAX : MAX_YEAR = 262142 := rfl
  have hDmin : DAY_MIN = daysBeforeYear MIN_YEAR + 1 := rfl
  have hDmax : DAY_MAX = daysBeforeYear MAX_YEAR + 365 := rfl
  have hstep := dby_step y
  have hlmax : yearLen MAX_YEAR = 365 := by decide
  have hstepM := dby_step MAX_YEAR
  unfold dayNumYo
  constructor
  · rintro ⟨h1, h2⟩
    constructor
    · by_contra hc
      have := dby_mono (y + 1) MIN_YEAR (by omega)
      omega
    · by_contra hc
      have := dby_mono (MAX_YEAR + 1) y (by omega)
      omega
  · rintro ⟨h1, h2⟩
    constructor
    · have := dby_mono MIN_YEAR y h1
      omega
    · by_cases he : y = MAX_YEAR
      · subst he; omega
      · have := dby_mono (y + 1) MAX_YEAR (by omega)
        omega

/-- one date per day number -/
theorem date_of_daynum_unique (y1 y2 : Int) (o1 o2 : Nat) (h1 : 1 ≤ o1 ∧ o1 ≤ yearLen y1)
    (h2 : 1 ≤ o2 ∧ o2 ≤ yearLen y2) (h : dayNumYo y1 o1 = dayNumYo y2 o2) : dateOfYo y1 o1 = dateOfYo y2 o2 :=
  date_eq_of_yof _ _ ((order_spec y1 y2 o1 o2 h1 h2).2.mpr h)

/-! ### one step of the date by a day carry -/

/-- the day `c ∈ {−1, 0, 1}` days after day `o` of year `y` -/
def tgt (y : Int) (o : Nat) (c : Int) : Int × Nat :=
  if c = -1 then (if 1 < o then (y, o - 1) else (y - 1, yearLen (y - 1)))
  else if c = 1 then (if o < yearLen y then (y, o + 1) else (y + 1, 1))
  else (y, o)

theorem tgt_facts (y : Int) (o : Nat) (c : Int) (ho : 1 ≤ o ∧ o ≤ yearLen y) (hc : c = -1 ∨ c = 0 ∨ c = 1) :
    1 ≤ (tgt y o c).2 ∧ (tgt y o c).2 ≤ yearLen (tgt y o c).1 ∧ y - 1 ≤ (tgt y o c).1 ∧ (tgt y o c).1 ≤ y + 1 ∧
    dayNumYo (tgt y o c).1 (tgt y o c).2 = dayNumYo y o + c := by
  have hyl := yearLen_ge y
  have hyl' := yearLen_ge (y - 1)
  have hyl'' := yearLen_ge (y + 1)
  have s1 := dby_step y
  have s0 := dby_step (y - 1)
  rw [show y - 1 + 1 = y by omega] at s0
  unfold tgt dayNumYo
  rcases hc with hc | hc | hc <;> subst hc
  · by_cases h : 1 < o
    · simp only [if_pos h]; simp; omega
    · simp only [if_neg h]; simp; omega
  · simp; omega
  · by_cases h : o < yearLen y
    · simp only [if_pos h]; simp; omega
    · simp only [if_neg h]; simp; omega

/-- the `match days { -1 => pred_opt, 1 => succ_opt, _ => self }` of the offset functions -/
def stepRes (d : Date) (c : Int) : Res (Option Date) :=
  if c = -1 then d.pred_opt else if c = 1 then d.succ_opt else .ok (some d)

theorem tgt_m1 (y : Int) (o : Nat) : tgt y o (-1) = if 1 < o then (y, o - 1) else (y - 1, yearLen (y - 1)) := by
  unfold tgt; rw [if_pos rfl]
theorem tgt_0 (y : Int) (o : Nat) : tgt y o 0 = (y, o) := by
  unfold tgt; rw [if_neg (by decide), if_neg (by decide)]
theorem tgt_1 (y : Int) (o : Nat) : tgt y o 1 = if o < yearLen y then (y, o + 1) else (y + 1, 1) := by
  unfold tgt; rw [if_neg (by decide), if_pos rfl]

theorem step_ext (y : Int) (o : Nat) (c : Int) (h : VYO y o) (hc : c = -1 ∨ c = 0 ∨ c = 1) :
    stepRes (dateOfYo y o) c =
      .ok (if (tgt y o c).1 = y ∨ (MIN_YEAR ≤ (tgt y o c).1 ∧ (tgt y o c).1 ≤ MAX_YEAR)
           then some (dateOfYo (tgt y o c).1 (tgt y o c).2) else none) := by
  obtain ⟨h1, h2, h3, h4⟩ := h
  rcases hc with hc | hc | hc <;> subst hc
  · have e : stepRes (dateOfYo y o) (-1) = (dateOfYo y o).pred_opt := by unfold stepRes; rw [if_pos rfl]
    rw [e, tgt_m1, pred_ext y o ⟨h1, h2⟩ ⟨h3, h4⟩]
    congr 1
    by_cases h : 1 < o
    · rw [if_pos h, if_pos h, if_pos (Or.inl rfl)]
    · rw [if_neg h, if_neg h]
      by_cases hr : MIN_YEAR ≤ y - 1 ∧ y - 1 ≤ MAX_YEAR
      · rw [if_pos hr, if_pos (Or.inr hr)]
      · rw [if_neg hr, if_neg]; intro hh; rcases hh with hh | hh
        · have : y - 1 = y := hh
          omega
        · exact hr hh
  · have e : stepRes (dateOfYo y o) 0 = .ok (some (dateOfYo y o)) := by
      unfold stepRes; rw [if_neg (by decide), if_neg (by decide)]
    rw [e, tgt_0, if_pos (Or.inl rfl)]
  · have e : stepRes (dateOfYo y o) 1 = (dateOfYo y o).succ_opt := by
      unfold stepRes; rw [if_neg (by decide), if_pos rfl]
    rw [e, tgt_1, succ_ext y o ⟨h1, h2⟩ ⟨h3, h4⟩]
    congr 1
    by_cases h : o < yearLen y
    · rw [if_pos h, if_pos h, if_pos (Or.inl rfl)]
    · rw [if_neg h, if_neg h]
      by_cases hr : MIN_YEAR ≤ y + 1 ∧ y + 1 ≤ MAX_YEAR
      · rw [if_pos hr, if_pos (Or.inr hr)]
      · rw [if_neg hr, if_neg]; intro hh; rcases hh with hh | hh
        · have : y + 1 = y := hh
          omega
        · exact hr hh


/-! ### naive date-times: shifting by an offset -/

theorem instSecs_yo (y : Int) (o : Nat) (t : Time) (ho : o < 512) :
    instSecs ⟨dateOfYo y o, t⟩ = (dayNumYo y o - EPOCH_DAY) * 86400 + t.secs := by
  unfold instSecs
  dsimp only
  rw [dayNumOf_yo y o ho]

theorem inrange_iff (n secs : Int) (h : 0 ≤ secs ∧ secs < 86400) :
    InRangeSecs ((n - EPOCH_DAY) * 86400 + secs) ↔ (DAY_MIN ≤ n ∧ n ≤ DAY_MAX) := by
  unfold InRangeSecs SECS_MIN SECS_MAX
  constructor <;> intro h' <;> omega

theorem dateInv_iff (d : Date) : DateInv d ↔ ExtDateInv d ∧ MIN_YEAR ≤ d.year ∧ d.year ≤ MAX_YEAR := by
  unfold DateInv ExtDateInv
  constructor
  · rintro ⟨a, b, c, d', e⟩; exact ⟨⟨by omega, by omega, c, d', e⟩, a, b⟩
  · rintro ⟨⟨_, _, c, d', e⟩, a, b⟩; exact ⟨a, b, c, d', e⟩

/-- the common shape of `checked_add_offset` / `checked_sub_offset` (shift by `e` seconds) -/
def shiftChecked (dt : NaiveDT) (e : Int) : Res (Option NaiveDT) :=
  (stepRes dt.date (shiftOff dt.time e).2).bind fun r =>
    .ok (r.map fun d => ⟨d, (shiftOff dt.time e).1⟩)

/-- the common shape of `overflowing_add_offset` / `overflowing_sub_offset` -/
def shiftOverflowing (dt : NaiveDT) (e : Int) : Res NaiveDT :=
  (stepRes dt.date (shiftOff dt.time e).2).bind fun r =>
    .ok ⟨r.getD (if (shiftOff dt.time e).2 = -1 then Date.BEFORE_MIN else Date.AFTER_MAX), (shiftOff dt.time e).1⟩

theorem bind_ok' {α β} (a : α) (f : α → Res β) : (Res.ok a).bind f = f a := rfl

theorem checked_add_offset_eq (dt : NaiveDT) (off : Int) (ht : TValid dt.time) (ho : OffValid off) :
    dt.checked_add_offset off = shiftChecked dt off := by
  unfold NaiveDT.checked_add_offset shiftChecked stepRes
  rw [(offset' dt.time off ht ho).1, bind_ok']
  by_cases h1 : (shiftOff dt.time off).2 = -1
  · rw [if_pos h1, if_pos h1]
  · rw [if_neg h1, if_neg h1]
    by_cases h2 : (shiftOff dt.time off).2 = 1
    · rw [if_pos h2, if_pos h2]
    · rw [if_neg h2, if_neg h2]; rfl

theorem checked_sub_offset_eq (dt : NaiveDT) (off : Int) (ht : TValid dt.time) (ho : OffValid off) :
    dt.checked_sub_offset off = shiftChecked dt (-off) := by
  unfold NaiveDT.checked_sub_offset shiftChecked stepRes
  rw [(offset' dt.time off ht ho).2.1, bind_ok']
  by_cases h1 : (shiftOff dt.time (-off)).2 = -1
  · rw [if_pos h1, if_pos h1]
  · rw [if_neg h1, if_neg h1]
    by_cases h2 : (shiftOff dt.time (-off)).2 = 1
    · rw [if_pos h2, if_pos h2]
    · rw [if_neg h2, if_neg h2]; rfl

theorem overflowing_add_offset_eq (dt : NaiveDT) (off : Int) (ht : TValid dt.time) (ho : OffValid off) :
    dt.overflowing_add_offset off = shiftOverflowing dt off := by
  unfold NaiveDT.overflowing_add_offset shiftOverflowing stepRes
  rw [(offset' dt.time off ht ho).1, bind_ok']
  by_cases h1 : (shiftOff dt.time off).2 = -1
  · rw [if_pos h1, if_pos h1, if_pos h1]
  · rw [if_neg h1, if_neg h1, if_neg h1]
    by_cases h2 : (shiftOff dt.time off).2 = 1
    · rw [if_pos h2, if_pos h2]
    · rw [if_neg h2, if_neg h2]; rfl

/-- shifting a reading of the extended calendar by less than a day: the checked form -/
theorem shiftChecked_spec (u : NaiveDT) (e : Int) (hu : ExtNDTInv u) (he : -86400 < e ∧ e < 86400) :
    ∃ r, shiftChecked u e = .ok r ∧
      (∀ v, r = some v → ExtNDTInv v ∧ instSecs v = instSecs u + e ∧ v.time.frac = u.time.frac ∧
        (DateInv u.date → DateInv v.date)) ∧
      (r = none → ¬ InRangeSecs (instSecs u + e)) ∧
      (DateInv u.date → r ≠ none → InRangeSecs (instSecs u + e)) := by
  obtain ⟨hd, ht⟩ := hu
  obtain ⟨hdeq, hv⟩ := ext_eq u.date hd
  generalize hy : u.date.year = y at *
  generalize hoo : u.date.ordinal.toNat = o at *
  obtain ⟨_, _, hfrac, htv, hcr, hsum⟩ := offset' u.time e ht he
  generalize hp : shiftOff u.time e = p at *
  obtain ⟨t', c⟩ := p
  dsimp only at hfrac htv hcr hsum
  have hc : c = -1 ∨ c = 0 ∨ c = 1 := by omega
  obtain ⟨hv1, hv2, hv3, hv4⟩ := hv
  obtain ⟨g1, g2, g3, g4, g5⟩ := tgt_facts y o c ⟨hv3, hv4⟩ hc
  have hstep := step_ext y o c ⟨hv1, hv2, hv3, hv4⟩ hc
  have hylg := yearLen_ge (tgt y o c).1
  have hyl := yearLen_ge y
  have hu_eq : u = ⟨dateOfYo y o, u.time⟩ := by cases u; simp_all
  have hinst : instSecs ⟨dateOfYo (tgt y o c).1 (tgt y o c).2, t'⟩ = instSecs u + e := by
    rw [hu_eq, instSecs_yo _ _ _ (by omega), instSecs_yo _ _ _ (by omega), g5]; omega
  have hMIN : MIN_YEAR = -262143 := rfl
  have hMAX : MAX_YEAR = 262142 := rfl
  have hrng := range_iff (tgt y o c).1 (tgt y o c).2 ⟨g1, g2⟩
  have hir : InRangeSecs (instSecs u + e) ↔ (MIN_YEAR ≤ (tgt y o c).1 ∧ (tgt y o c).1 ≤ MAX_YEAR) := by
    rw [← hinst, instSecs_yo _ _ _ (by omega), inrange_iff _ _ ⟨htv.1, htv.2.1⟩]; exact hrng
  have hdi : DateInv u.date ↔ (MIN_YEAR ≤ y ∧ y ≤ MAX_YEAR) := by
    rw [dateInv_iff, hy]; exact ⟨fun h => h.2, fun h => ⟨hd, h⟩⟩
  have hdi' : DateInv (dateOfYo y o) ↔ (MIN_YEAR ≤ y ∧ y ≤ MAX_YEAR) := by rw [← hdeq]; exact hdi
  unfold shiftChecked
  rw [hp]
  dsimp only
  rw [hdeq, hstep]
  by_cases hcond : (tgt y o c).1 = y ∨ (MIN_YEAR ≤ (tgt y o c).1 ∧ (tgt y o c).1 ≤ MAX_YEAR)
  · rw [if_pos hcond, bind_ok']
    refine ⟨_, rfl, ?_, ?_, ?_⟩
    · intro v hv
      simp only [Option.map_some, Option.some.injEq] at hv
      subst hv
      refine ⟨⟨ext_of_vyo _ _ ⟨by omega, by omega, g1, g2⟩, htv⟩, hinst, hfrac, ?_⟩
      intro hdu
      rw [dateInv_iff]
      refine ⟨ext_of_vyo _ _ ⟨by omega, by omega, g1, g2⟩, ?_⟩
      obtain ⟨f1, _⟩ := dateOfYo_fields (tgt y o c).1 (tgt y o c).2 (by omega)
      dsimp only
      rw [f1]
      have := hdi'.mp hdu
      rcases hcond with h | h
      · rw [h]; exact this
      · exact h
    · intro h; simp at h
    · intro hdu _
      rw [hir]
      have := hdi'.mp hdu
      rcases hcond with h | h
      · rw [h]; exact this
      · exact h
  · rw [if_neg hcond, bind_ok']
    refine ⟨_, rfl, ?_, ?_, ?_⟩
    · intro v hv; simp at hv
    · intro _; rw [hir]; intro h; exact hcond (Or.inr h)
    · intro _ h; simp at h


/-- shifting an in-range reading by less than a day: the overflowing form is total and lands in the
extended calendar; the checked form refuses exactly when the shifted reading leaves the range -/
theorem shiftOverflowing_spec (u : NaiveDT) (e : Int) (hu : NDTInv u) (he : -86400 < e ∧ e < 86400) :
    ∃ l, shiftOverflowing u e = .ok l ∧ ExtNDTInv l ∧ instSecs l = instSecs u + e ∧
      l.time.frac = u.time.frac ∧
      shiftChecked u e = .ok (if InRangeSecs (instSecs u + e) then some l else none) ∧
      (DateInv l.date ↔ InRangeSecs (instSecs u + e)) := by
  obtain ⟨hdI, ht⟩ := hu
  obtain ⟨hd, hyr1, hyr2⟩ := (dateInv_iff u.date).mp hdI
  obtain ⟨hdeq, hv⟩ := ext_eq u.date hd
  generalize hy : u.date.year = y at *
  generalize hoo : u.date.ordinal.toNat = o at *
  obtain ⟨_, _, hfrac, htv, hcr, hsum⟩ := offset' u.time e ht he
  generalize hp : shiftOff u.time e = p at *
  obtain ⟨t', c⟩ := p
  dsimp only at hfrac htv hcr hsum
  have hc : c = -1 ∨ c = 0 ∨ c = 1 := by omega
  obtain ⟨hv1, hv2, hv3, hv4⟩ := hv
  obtain ⟨g1, g2, g3, g4, g5⟩ := tgt_facts y o c ⟨hv3, hv4⟩ hc
  have hstep := step_ext y o c ⟨hv1, hv2, hv3, hv4⟩ hc
  have hylg := yearLen_ge (tgt y o c).1
  have hyl := yearLen_ge y
  have hu_eq : u = ⟨dateOfYo y o, u.time⟩ := by cases u; simp_all
  have hinst : instSecs ⟨dateOfYo (tgt y o c).1 (tgt y o c).2, t'⟩ = instSecs u + e := by
    rw [hu_eq, instSecs_yo _ _ _ (by omega), instSecs_yo _ _ _ (by omega), g5]; omega
  have hMIN : MIN_YEAR = -262143 := rfl
  have hMAX : MAX_YEAR = 262142 := rfl
  have hrng := range_iff (tgt y o c).1 (tgt y o c).2 ⟨g1, g2⟩
  have hir : InRangeSecs (instSecs u + e) ↔ (MIN_YEAR ≤ (tgt y o c).1 ∧ (tgt y o c).1 ≤ MAX_YEAR) := by
    rw [← hinst, instSecs_yo _ _ _ (by omega), inrange_iff _ _ ⟨htv.1, htv.2.1⟩]; exact hrng
  have hext : ExtDateInv (dateOfYo (tgt y o c).1 (tgt y o c).2) := ext_of_vyo _ _ ⟨by omega, by omega, g1, g2⟩
  obtain ⟨f1, _⟩ := dateOfYo_fields (tgt y o c).1 (tgt y o c).2 (by omega)
  have hdl : DateInv (dateOfYo (tgt y o c).1 (tgt y o c).2) ↔ InRangeSecs (instSecs u + e) := by
    rw [dateInv_iff, f1, hir]; exact ⟨fun h => h.2, fun h => ⟨hext, h⟩⟩
  refine ⟨⟨dateOfYo (tgt y o c).1 (tgt y o c).2, t'⟩, ?_, ⟨hext, htv⟩, hinst, hfrac, ?_, hdl⟩
  · unfold shiftOverflowing
    rw [hp]
    dsimp only
    rw [hdeq, hstep]
    by_cases hcond : (tgt y o c).1 = y ∨ (MIN_YEAR ≤ (tgt y o c).1 ∧ (tgt y o c).1 ≤ MAX_YEAR)
    · rw [if_pos hcond, bind_ok']; rfl
    · rw [if_neg hcond, bind_ok']
      dsimp only [Option.getD]
      congr 2
      obtain ⟨hb, ha, hl, _⟩ := headroom_consts
      have hne : (tgt y o c).1 ≠ y := fun h => hcond (Or.inl h)
      rcases hc with hc | hc | hc <;> subst hc
      · rw [if_pos rfl]
        rw [tgt_m1] at hne hcond ⊢
        by_cases h1 : 1 < o
        · rw [if_pos h1] at hne; exact absurd rfl hne
        · rw [if_neg h1] at hcond ⊢
          dsimp only at hcond ⊢
          have : y - 1 = MIN_YEAR - 1 := by omega
          rw [this, hl, hb]
      · rw [tgt_0] at hne; exact absurd rfl hne
      · rw [if_neg (by decide)]
        rw [tgt_1] at hne hcond ⊢
        by_cases h1 : o < yearLen y
        · rw [if_pos h1] at hne; exact absurd rfl hne
        · rw [if_neg h1] at hcond ⊢
          dsimp only at hcond ⊢
          have : y + 1 = MAX_YEAR + 1 := by omega
          rw [this, ha]
  · unfold shiftChecked
    rw [hp]
    dsimp only
    rw [hdeq, hstep]
    by_cases hin : InRangeSecs (instSecs u + e)
    · rw [if_pos hin, if_pos (Or.inr (hir.mp hin)), bind_ok']; rfl
    · rw [if_neg hin, if_neg, bind_ok']; rfl
      intro hcond
      rcases hcond with h | h
      · apply hin; rw [hir, h]; exact ⟨hyr1, hyr2⟩
      · exact hin (hir.mpr h)


/-! ### one reading per (second, fraction); comparison; the range filter -/

theorem ndt_unique (a b : NaiveDT) (ha : ExtNDTInv a) (hb : ExtNDTInv b) (hs : instSecs a = instSecs b)
    (hf : a.time.frac = b.time.frac) : a = b := by
  obtain ⟨ea, va⟩ := ext_eq a.date ha.1
  obtain ⟨eb, vb⟩ := ext_eq b.date hb.1
  have hla := yearLen_ge a.date.year
  have hlb := yearLen_ge b.date.year
  obtain ⟨a1, a2, _, _⟩ := ha.2
  obtain ⟨b1, b2, _, _⟩ := hb.2
  have ia : instSecs a = (dayNumYo a.date.year a.date.ordinal.toNat - EPOCH_DAY) * 86400 + a.time.secs := by
    unfold instSecs dayNumOf
    rw [Int.toNat_of_nonneg (by have := ha.1.2.2.1; omega)]
  have ib : instSecs b = (dayNumYo b.date.year b.date.ordinal.toNat - EPOCH_DAY) * 86400 + b.time.secs := by
    unfold instSecs dayNumOf
    rw [Int.toNat_of_nonneg (by have := hb.1.2.2.1; omega)]
  rw [ia, ib] at hs
  have hn : dayNumYo a.date.year a.date.ordinal.toNat = dayNumYo b.date.year b.date.ordinal.toNat := by omega
  have hsec : a.time.secs = b.time.secs := by omega
  have hd : a.date = b.date := by
    rw [ea, eb]; exact date_of_daynum_unique _ _ _ _ ⟨va.2.2.1, va.2.2.2⟩ ⟨vb.2.2.1, vb.2.2.2⟩ hn
  clear ia ib ea eb va vb hla hlb hn hs
  cases a with | mk ad at_ => cases b with | mk bd bt =>
    cases at_ with | mk s1 f1 => cases bt with | mk s2 f2 =>
      dsimp only at hd hsec hf
      subst hd; subst hsec; subst hf; rfl


theorem instSecs_ext (a : NaiveDT) (ha : ExtDateInv a.date) :
    instSecs a = (dayNumYo a.date.year a.date.ordinal.toNat - EPOCH_DAY) * 86400 + a.time.secs := by
  unfold instSecs dayNumOf
  rw [Int.toNat_of_nonneg (by have := ha.2.2.1; omega)]

/-- the derived order of `NaiveDateTime` is the lexicographic order of (second, fraction) -/
theorem cmp_spec (a b : NaiveDT) (ha : ExtNDTInv a) (hb : ExtNDTInv b) :
    NaiveDT.cmp a b = cmpKey (instSecs a) a.time.frac (instSecs b) b.time.frac := by
  obtain ⟨ea, va⟩ := ext_eq a.date ha.1
  obtain ⟨eb, vb⟩ := ext_eq b.date hb.1
  obtain ⟨a1, a2, _, _⟩ := ha.2
  obtain ⟨b1, b2, _, _⟩ := hb.2
  obtain ⟨o1, o2⟩ := order_spec _ _ _ _ ⟨va.2.2.1, va.2.2.2⟩ ⟨vb.2.2.1, vb.2.2.2⟩
  obtain ⟨o3, _⟩ := order_spec _ _ _ _ ⟨vb.2.2.1, vb.2.2.2⟩ ⟨va.2.2.1, va.2.2.2⟩
  rw [← ea, ← eb] at o1 o2 o3
  rw [instSecs_ext a ha.1, instSecs_ext b hb.1]
  generalize dayNumYo a.date.year a.date.ordinal.toNat = n1 at *
  generalize dayNumYo b.date.year b.date.ordinal.toNat = n2 at *
  unfold NaiveDT.cmp Date.cmp Time.cmp cmpKey
  dsimp only
  by_cases h1 : a.date.yof < b.date.yof
  · have := o1.mp h1
    rw [if_pos h1, if_pos (by decide), if_pos (by omega)]
  · rw [if_neg h1]
    by_cases h2 : a.date.yof > b.date.yof
    · have := o3.mp h2
      rw [if_pos h2, if_pos (by decide), if_neg (by omega), if_pos (by omega)]
    · rw [if_neg h2, if_neg (by decide)]
      have : n1 = n2 := o2.mp (by omega)
      subst this
      have e1 : ((n1 - EPOCH_DAY) * 86400 + a.time.secs < (n1 - EPOCH_DAY) * 86400 + b.time.secs) ↔
          a.time.secs < b.time.secs := by omega
      have e2 : ((n1 - EPOCH_DAY) * 86400 + a.time.secs > (n1 - EPOCH_DAY) * 86400 + b.time.secs) ↔
          a.time.secs > b.time.secs := by omega
      simp only [e1, e2]

theorem instSecs_min_max : instSecs NaiveDT.MIN = SECS_MIN ∧ instSecs NaiveDT.MAX = SECS_MAX ∧
    ExtNDTInv NaiveDT.MIN ∧ ExtNDTInv NaiveDT.MAX ∧ NaiveDT.MIN.time.frac = 0 ∧
    NaiveDT.MAX.time.frac = 999999999 := by decide

/-- the range filter of `map_local` / `with_time` on a reading of the extended calendar -/
theorem filter_spec (u : NaiveDT) (off : Int) (hu : ExtNDTInv u) :
    (Zoned.inUtcRange ⟨u, off⟩ = true ↔ InUtcRange (instSecs u) u.time.frac) ∧
    (InRangeSecs (instSecs u) → DateInv u.date) := by
  obtain ⟨m1, m2, m3, m4, m5, m6⟩ := instSecs_min_max
  obtain ⟨_, _, f1, f2⟩ := hu.2
  constructor
  · unfold Zoned.inUtcRange
    dsimp only
    rw [cmp_spec u _ hu m3, cmp_spec u _ hu m4, m1, m2, m5, m6]
    unfold InUtcRange InRangeSecs cmpKey
    simp only [Bool.and_eq_true, decide_eq_true_eq]
    constructor
    · rintro ⟨h1, h2⟩
      refine ⟨⟨?_, ?_⟩, ?_⟩
      · by_contra hc; rw [if_pos (by omega)] at h1; omega
      · by_contra hc; rw [if_neg (by omega), if_pos (by omega)] at h2; omega
      · rintro ⟨e1, e2⟩
        rw [if_neg (by omega), if_neg (by omega), if_neg (by omega), if_pos (by omega)] at h2; omega
    · rintro ⟨⟨h1, h2⟩, h3⟩
      constructor
      · by_cases c1 : instSecs u > SECS_MIN
        · rw [if_neg (by omega), if_pos c1]; omega
        · rw [if_neg (by omega), if_neg c1, if_neg (by omega)]; split <;> omega
      · by_cases c1 : instSecs u < SECS_MAX
        · rw [if_pos c1]; omega
        · rw [if_neg c1, if_neg (by omega)]
          have : ¬ u.time.frac ≥ 1000000000 := fun h => h3 ⟨by omega, h⟩
          omega
  · intro hin
    obtain ⟨eu, vu⟩ := ext_eq u.date hu.1
    rw [instSecs_ext u hu.1, inrange_iff _ _ ⟨hu.2.1, hu.2.2.1⟩,
      range_iff _ _ ⟨vu.2.2.1, vu.2.2.2⟩] at hin
    exact (dateInv_iff u.date).mpr ⟨hu.1, hin⟩


/-! ### zone-aware values -/

theorem naive_local_spec (z : Zoned) (hz : ZInv z) :
    ∃ l, Zoned.overflowing_naive_local z = .ok l ∧ ExtNDTInv l ∧ instSecs l = wallSecs z ∧
      l.time.frac = z.utc.time.frac ∧
      Zoned.naive_local z = (if InRangeSecs (wallSecs z) then .ok l else .panic) ∧
      (DateInv l.date ↔ InRangeSecs (wallSecs z)) := by
  obtain ⟨hu, ho⟩ := hz
  obtain ⟨l, h1, h2, h3, h4, h5, h6⟩ := shiftOverflowing_spec z.utc z.off hu ho
  refine ⟨l, ?_, h2, h3, h4, ?_, h6⟩
  · unfold Zoned.overflowing_naive_local; rw [overflowing_add_offset_eq _ _ hu.2 ho]; exact h1
  · unfold Zoned.naive_local wallSecs
    rw [checked_add_offset_eq _ _ hu.2 ho, h5, bind_ok']
    by_cases h : InRangeSecs (instSecs z.utc + z.off)
    · rw [if_pos h, if_pos h]
    · rw [if_neg h, if_neg h]

theorem from_local_spec (off : Int) (nl : NaiveDT) (ho : OffValid off) (hnl : ExtNDTInv nl) :
    ∃ r, Zoned.from_local_datetime off nl = .ok r ∧
      (∀ z, r = some z → z.off = off ∧ ExtNDTInv z.utc ∧ instSecs z.utc = instSecs nl - off ∧
        z.utc.time.frac = nl.time.frac ∧ (DateInv nl.date → DateInv z.utc.date)) ∧
      (r = none → ¬ InRangeSecs (instSecs nl - off)) ∧
      (DateInv nl.date → r ≠ none → InRangeSecs (instSecs nl - off)) := by
  obtain ⟨r, h1, h2, h3, h4⟩ := shiftChecked_spec nl (-off) hnl (by unfold OffValid at ho; omega)
  refine ⟨r.map fun u => ⟨u, off⟩, ?_, ?_, ?_, ?_⟩
  · unfold Zoned.from_local_datetime; rw [checked_sub_offset_eq _ _ hnl.2 ho, h1, bind_ok']
  · intro z hz
    cases r with
    | none => simp at hz
    | some v =>
      simp only [Option.map_some, Option.some.injEq] at hz
      subst hz
      obtain ⟨a, b, c, d⟩ := h2 v rfl
      exact ⟨rfl, a, by rw [b]; omega, c, d⟩
  · intro hr
    have : r = none := by cases r <;> simp_all
    have := h3 this
    rwa [show instSecs nl - off = instSecs nl + -off by omega]
  · intro hd hr
    have : r ≠ none := by cases r <;> simp_all
    have := h4 hd this
    rwa [show instSecs nl - off = instSecs nl + -off by omega]

/-- the wall clock of `z` is the reading `nl` as soon as instants and fractions match -/
theorem local_back (z : Zoned) (hz : ZInv z) (nl : NaiveDT) (hnl : ExtNDTInv nl)
    (h1 : instSecs z.utc = instSecs nl - z.off) (h2 : z.utc.time.frac = nl.time.frac) :
    Zoned.overflowing_naive_local z = .ok nl := by
  obtain ⟨l, a, b, c, d, _, _⟩ := naive_local_spec z hz
  rw [a]
  congr 1
  exact ndt_unique l nl b hnl (by rw [c]; unfold wallSecs; omega) (by rw [d, h2])

/-- conversion back from a wall clock followed by the `MIN_UTC ..= MAX_UTC` filter -/
theorem back_filtered (z : Zoned) (hz : ZInv z) (nl : NaiveDT) (hnl : ExtNDTInv nl) :
    ∃ r, ((Zoned.from_local_datetime z.off nl).bind fun q =>
            match q with
            | some z' => .ok (if Zoned.inUtcRange z' then some z' else none)
            | none => .ok none) = .ok r ∧
      (∀ z', r = some z' → z'.off = z.off ∧ ZInv z' ∧ Zoned.overflowing_naive_local z' = .ok nl ∧
        instSecs z'.utc = instSecs nl - z.off ∧ z'.utc.time.frac = nl.time.frac ∧
        InUtcRange (instSecs z'.utc) z'.utc.time.frac) ∧
      (r = none ↔ ¬ InUtcRange (instSecs nl - z.off) nl.time.frac) := by
  obtain ⟨q, h1, h2, h3, _⟩ := from_local_spec z.off nl hz.2 hnl
  rw [h1, bind_ok']
  cases q with
  | none =>
    refine ⟨none, rfl, by intro z' h; simp at h, ?_⟩
    simp only [true_iff]
    intro h; exact h3 rfl h.1
  | some z' =>
    obtain ⟨a, b, c, d, _⟩ := h2 z' rfl
    obtain ⟨f1, f2⟩ := filter_spec z'.utc z'.off b
    have hz'eq : (⟨z'.utc, z'.off⟩ : Zoned) = z' := by cases z'; rfl
    rw [hz'eq] at f1
    dsimp only
    by_cases hin : Zoned.inUtcRange z' = true
    · rw [if_pos hin]
      refine ⟨_, rfl, ?_, ?_⟩
      · intro z'' h
        simp only [Option.some.injEq] at h
        subst h
        have hI := f1.mp hin
        have hzi : ZInv z' := ⟨⟨f2 hI.1, b.2⟩, by rw [a]; exact hz.2⟩
        refine ⟨a, hzi, ?_, c, d, hI⟩
        exact local_back z' hzi nl hnl (by rw [a]; exact c) d
      · constructor
        · intro h; simp at h
        · intro h; exfalso; apply h; rw [← c, ← d]; exact f1.mp hin
    · rw [if_neg hin]
      refine ⟨none, rfl, by intro z'' h; simp at h, ?_⟩
      simp only [true_iff]
      intro h; apply hin; apply f1.mpr; rw [c, d]; exact h

end Chrono.Proofs
