/-
  C20: `visit_str` of the four string-form types on ARBITRARY text — an error or a valid value, never a
  panic (audit gap LOW-5).  The parser totality theorems are those of C15 (Proofs/C15TotalL.lean:
  `date_from_str_total`, `naive_from_str_total`, `fixed_from_str_total`, `time_from_str_valid`); this file
  only pushes them through the serde glue (`visitOf`, `.map(with_timezone)`).  (Proofs/C15SerdeL.lean has
  the same statement for C15 but imports Props/C20, so it cannot be imported here.)
-/
import Chrono.Proofs.C15TotalL
import Chrono.Spec.SerdeStrSpec
namespace Chrono.Proofs.SerdeVisit
open Chrono Chrono.M Chrono.M.Serde Chrono.Spec Chrono.Proofs.C15Total

theorem visitOf_total {α} (x : Parsed.RP α) (P : α → Prop) (h : ∃ r, x = .ok r ∧ ∀ a, r = .ok a → P a) :
    ∃ r, visitOf x = .ok r ∧ ∀ a, r = .ok a → P a := by
  obtain ⟨r, rfl, hv⟩ := h
  cases r with
  | error e => exact ⟨_, rfl, fun a ha => by cases ha⟩
  | ok a => exact ⟨_, rfl, fun b hb => by injection hb with hb; subst hb; exact hv a rfl⟩

theorem date_total (s : List Nat) : ∃ r, NaiveDateStr.visit_str s = .ok r ∧ ∀ d, r = .ok d → DateInv d :=
  visitOf_total _ _ (date_from_str_total s)

theorem time_total (s : List Nat) : ∃ r, NaiveTimeStr.visit_str s = .ok r ∧ ∀ t, r = .ok t → TValid t :=
  visitOf_total _ _ ⟨_, rfl, fun t ht => time_from_str_valid s t ht⟩

theorem naive_total (s : List Nat) :
    ∃ r, NaiveDateTimeStr.visit_str s = .ok r ∧ ∀ dt, r = .ok dt → NDTInv dt :=
  visitOf_total _ _ (naive_from_str_total s)

theorem fixed_total (s : List Nat) : ∃ r, DateTimeStr.visit_str s = .ok r ∧ ∀ z, r = .ok z → ZInv z :=
  visitOf_total _ ZInv (fixed_from_str_total s)

/-- a target that re-views the value at another offset (`Utc`: 0; `Local`: the zone's) -/
theorem mapped_total (s : List Nat) (off : NaiveDT → Int) (ho : ∀ u, OffValid (off u)) :
    ∃ r, ((DateTimeStr.visit_str s).bind fun r => .ok (r.map fun z => z.with_timezone (off z.utc))) = .ok r ∧
      ∀ z, r = .ok z → ZInv z ∧ z.off = off z.utc := by
  obtain ⟨r, hr, hv⟩ := fixed_total s
  rw [hr]
  refine ⟨_, rfl, ?_⟩
  intro z hz
  cases r with
  | err => cases hz
  | ok a =>
    simp only [SR.map] at hz
    injection hz with hz; subst hz
    exact ⟨⟨(hv a rfl).1, ho _⟩, rfl⟩

end Chrono.Proofs.SerdeVisit
