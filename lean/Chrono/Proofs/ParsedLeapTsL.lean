/-
  C14: completeness of the timestamp fall-back path of `to_naive_datetime_with_offset` for a
  LEAP-SECOND reading: the record carries `second = 60` and a timestamp that is the instant of the
  reading (the second :59) or one more (the second after).  Complements Proofs/ParsedTsCompleteL.lean
  (non-leap readings).
-/
import Chrono.Proofs.ParsedKindsL
namespace Chrono.Proofs.ParsedLeap
open Chrono Chrono.M Chrono.Spec Chrono.Spec.Fields Chrono.Spec.Ts Chrono.Extracted
open Chrono.Proofs Chrono.Proofs.Ts Chrono.Proofs.ParsedRes Chrono.Proofs.ParsedKinds

/-- the tail of the fall-back path once the date-time `⟨(Y, o), t.secs⟩` to use is fixed and the second
field holds 60: the four setters, the date resolver and the time resolver give the leap reading `t` -/
theorem tail_leap (p : Parsed) (hp : InType p) (Y : Int) (o : Nat) (t : Time)
    (hvd : VD Y o) (ht : TValid t) (hleap : 1000000000 ≤ t.frac) (h59 : t.secs % 60 = 59)
    (hag : DateAgrees p Y o)
    (hdI : ∀ w, (dateOfYo Y o).iso_week = .ok w →
      GroupDeterminate p.isoyear p.isoyear_div_100 p.isoyear_mod_100 (IsoWeek.year w))
    (hta : TimeAgreesSupplied p t) (hnano : p.nanosecond = none → t.frac = 1000000000)
    (h60 : p.second = some 60) :
    (Parsed.RP.bind (Parsed.liftP (Parsed.set_year p (dateOfYo Y o).year)) fun p1 =>
     Parsed.RP.bind (Parsed.liftP (Parsed.set_ordinal p1 (dateOfYo Y o).ordinal)) fun p2 =>
     Parsed.RP.bind (Parsed.liftP (Parsed.set_hour p2 (Time.hour ⟨t.secs, 0⟩))) fun p3 =>
     Parsed.RP.bind (Parsed.liftP (Parsed.set_minute p3 (Time.minute ⟨t.secs, 0⟩))) fun p4 =>
     Parsed.RP.bind (Parsed.to_naive_date p4) fun date =>
     Parsed.RP.bind (Parsed.liftP (Parsed.to_naive_time p4)) fun time =>
     (.ok (.ok ⟨date, time⟩) : Parsed.RP NaiveDT)) = .ok (.ok ⟨dateOfYo Y o, t⟩) := by
  obtain ⟨t0, t1, f0, f1⟩ := id ht
  obtain ⟨g1, g2, _, _, _, _, g7⟩ := vd_fields Y o hvd
  obtain ⟨v1, v2, v3, v4⟩ := id hvd
  have hMIN : MIN_YEAR = -262143 := rfl
  have hMAX : MAX_YEAR = 262142 := rfl
  have hp60 : p = { p with second := some 60 } := by cases p; simp_all
  have hsold : p.second = none ∨ p.second = some 60 := Or.inr h60
  rw [g1, g2]
  have hhour : Time.hour ⟨t.secs, 0⟩ = t.secs / 60 / 60 := rfl
  have hmin : Time.minute ⟨t.secs, 0⟩ = t.secs / 60 % 60 := rfl
  rw [hhour, hmin]
  have hfc := fill_chain p 60 Y o (t.secs / 60 / 60) (t.secs / 60 % 60) hsold
    (by omega) (by omega) (by omega) (by omega)
    (fun p4 => Parsed.RP.bind (Parsed.to_naive_date p4) fun date =>
      Parsed.RP.bind (.ok (Parsed.to_naive_time p4)) fun time => .ok (.ok (⟨date, time⟩ : NaiveDT)))
  simp only [Parsed.liftP] at hfc
  rw [← hp60] at hfc
  simp only [Parsed.liftP]
  rw [hfc]
  obtain ⟨b1, b2, b3, a4, a5⟩ := id hta
  obtain ⟨d1, _, _, _, _, _, _, d8, _, _⟩ := id hag
  unfold optIs at b1 b2 b3
  unfold hourOf at b1 b2
  unfold minuteOf at b3
  have hfit : Fits p 60 Y o (t.secs / 60 / 60) (t.secs / 60 % 60) := by
    refine ⟨hsold, ?_, ?_, ?_, ?_, ?_⟩
    · cases h : p.year with
      | none => exact Or.inl rfl
      | some x => right; rw [d1 x h]
    · cases h : p.ordinal with
      | none => exact Or.inl rfl
      | some x => right; rw [d8 x h]
    · cases h : p.hour_div_12 with
      | none => exact Or.inl rfl
      | some x =>
        right
        have := b1 x h
        congr 1
        split <;> omega
    · cases h : p.hour_mod_12 with
      | none => exact Or.inl rfl
      | some x =>
        right
        have := b2 x h
        congr 1
        split <;> omega
    · cases h : p.minute with
      | none => exact Or.inl rfl
      | some x => right; rw [b3 x h]
  rw [if_pos hfit]
  have hp4 := inType_filled p hp 60 Y o (t.secs / 60 / 60) (t.secs / 60 % 60)
    (by omega) (by omega) (by omega) (by omega) (by omega)
  have hagf : DateAgrees (filled p 60 Y o (t.secs / 60 / 60) (t.secs / 60 % 60)) Y o := by
    obtain ⟨a1, a2, a3, a4', a5', a6, a7, a8, a9, a10⟩ := hag
    exact ⟨fun x hx => by cases hx; rfl, a2, a3, a4', a5', a6, a7, fun x hx => by cases hx; rfl, a9, a10⟩
  have hdate := date_complete_full _ hp4 Y o hvd hagf
    ⟨fun h => (by cases h.1), fun h _ _ => (by cases h)⟩ hdI
    (Or.inl ⟨Or.inl (by simp [filled]), Or.inr (Or.inl (by simp [filled]))⟩)
  rw [hdate]
  simp only [bind_okok]
  have htime : Parsed.to_naive_time (filled p 60 Y o (t.secs / 60 / 60) (t.secs / 60 % 60)) = .ok t := by
    apply time_complete' _ t ⟨ht, Or.inr h59⟩
    · unfold TimeAgrees optIs hourOf minuteOf secondIs nanoIs secondOf
      refine ⟨fun x hx => ?_, fun x hx => ?_, fun x hx => ?_, ⟨fun x hx => ?_, fun h => ?_⟩,
        ⟨a5, fun h => ?_⟩⟩
      · simp only [filled, Option.some.injEq] at hx
        subst hx; split <;> omega
      · simp only [filled, Option.some.injEq] at hx
        subst hx; split <;> omega
      · simp only [filled, Option.some.injEq] at hx
        subst hx; rfl
      · simp only [filled, Option.some.injEq] at hx
        subst hx
        rw [if_pos rfl]
        exact ⟨h59, hleap⟩
      · simp [filled] at h
      · have : p.nanosecond = none := h
        rw [hnano this]; rfl
    · exact ⟨by simp [filled], by simp [filled], by simp [filled], fun _ => by simp [filled]⟩
  rw [htime]
  rfl

/-- **completeness of the fall-back path for a leap-second reading**: the record holds `second = 60`,
its timestamp is that of the leap reading `(Y, o, t)` (`t` on a second :59 with `t.frac ≥ 10⁹`) at
`off`, or one more — then representable —, every supplied field agrees, the nanosecond field (0 if
absent) is the sub-second part ⇒ the path returns exactly that leap reading -/
theorem ts_path_complete_leap (p : Parsed) (hp : InType p) (off : Int) (Y : Int) (o : Nat) (t : Time)
    (hvd : VD Y o) (ht : TValid t) (hleap : 1000000000 ≤ t.frac) (h59 : t.secs % 60 = 59)
    (hag : DateAgrees p Y o)
    (hdI : ∀ w, (dateOfYo Y o).iso_week = .ok w →
      GroupDeterminate p.isoyear p.isoyear_div_100 p.isoyear_mod_100 (IsoWeek.year w))
    (hta : TimeAgreesSupplied p t) (hnano : p.nanosecond = none → t.frac = 1000000000)
    (h60 : p.second = some 60) (g : Int)
    (hg : g = timestampIs.instSecsLocal ⟨dateOfYo Y o, t⟩ - off ∨
      (g = timestampIs.instSecsLocal ⟨dateOfYo Y o, t⟩ - off + 1 ∧ g + off ≤ TS_MAX)) :
    Parsed.from_timestamp_path p off g = .ok (.ok ⟨dateOfYo Y o, t⟩) := by
  obtain ⟨_, hb1, hb2⟩ := timestamp_spec Y o t hvd ht
  obtain ⟨t0, t1, f0, f1⟩ := id ht
  obtain ⟨g1, g2, _⟩ := vd_fields Y o hvd
  obtain ⟨v1, v2, v3, v4⟩ := id hvd
  obtain ⟨i1, i2⟩ := dateInv_of_yo Y o ⟨v1, v2⟩ ⟨v3, v4⟩
  have hinv0 : NDTInv ⟨dateOfYo Y o, ⟨t.secs, 0⟩⟩ := ⟨i1, t0, t1, by dsimp only; omega, by dsimp only; omega⟩
  have hL : timestampIs.instSecsLocal ⟨dateOfYo Y o, t⟩ = instSecs ⟨dateOfYo Y o, ⟨t.secs, 0⟩⟩ := by
    unfold timestampIs.instSecsLocal instSecs dayNumOf
    have hE : EPOCH_DAY = 719163 := rfl
    rw [g1, g2, hE]
  have hrange := instSecs_range _ hinv0
  have htail := tail_leap p hp Y o t hvd ht hleap h59 hag hdI hta hnano h60
  generalize hLL : timestampIs.instSecsLocal ⟨dateOfYo Y o, t⟩ = L at *
  have hTmin := ts_min_val
  have hTmax := ts_max_val
  unfold Parsed.from_timestamp_path
  rcases hg with rfl | ⟨rfl, hmax⟩
  · -- the timestamp of the second :59 itself
    have e0 : L - off + off = L := by omega
    rw [e0, optI64_some (by omega) (by omega)]
    simp only []
    obtain ⟨r0, hr0, hnone, hsome⟩ := from_timestamp_spec L 0 (by unfold isI64; omega) (by omega)
    rw [hr0]
    cases r0 with
    | none =>
      exfalso
      apply hnone.mp rfl
      unfold tsOk nanosOk
      rw [hL]
      exact ⟨hrange.1, hrange.2, Or.inl (by omega)⟩
    | some dtm =>
      obtain ⟨hinv, _, hsecs, hfrac⟩ := hsome dtm rfl
      have hdtm : dtm = ⟨dateOfYo Y o, ⟨t.secs, 0⟩⟩ :=
        Ts.inst_inj dtm _ hinv hinv0 (by rw [hsecs, hL]) hfrac
      subst hdtm
      simp only [okOr_some, bind_okok]
      unfold Parsed.leap_adjust
      rw [if_pos h60]
      have hsecond : Time.second ⟨t.secs, 0⟩ = 59 := h59
      dsimp only
      rw [if_pos hsecond]
      simp only [bind_okok]
      exact htail
  · -- the timestamp of the following second
    have e0 : L - off + 1 + off = L + 1 := by omega
    rw [e0] at hmax ⊢
    rw [optI64_some (by omega) (by omega)]
    simp only []
    obtain ⟨r0, hr0, hnone, hsome⟩ := from_timestamp_spec (L + 1) 0 (by unfold isI64; omega) (by omega)
    rw [hr0]
    cases r0 with
    | none =>
      exfalso
      apply hnone.mp rfl
      unfold tsOk nanosOk
      rw [← hL] at hrange
      exact ⟨by omega, hmax, Or.inl (by omega)⟩
    | some dtm =>
      obtain ⟨hinv, _, hsecs, hfrac⟩ := hsome dtm rfl
      simp only [okOr_some, bind_okok]
      unfold Parsed.leap_adjust
      rw [if_pos h60]
      have hE : EPOCH_DAY = 719163 := rfl
      have hL' : L = (dayNumOf (dateOfYo Y o) - EPOCH_DAY) * 86400 + t.secs := hL
      have hs' : instSecs dtm = (dayNumOf dtm.date - EPOCH_DAY) * 86400 + dtm.time.secs := rfl
      have hsec0 : dtm.time.second = 0 := by
        show dtm.time.secs % 60 = 0
        omega
      rw [if_neg (by rw [hsec0]; omega), if_pos hsec0, one_second.1]
      simp only []
      obtain ⟨hdi, u0, u1, _, _⟩ := id hinv
      obtain ⟨r, hr, hnone', hsome'⟩ := dt_sub_exact dtm ⟨1, 0⟩ hinv
        (by unfold NonLeap; omega) one_second.2.1
      rw [hr]
      cases r with
      | none =>
        exfalso
        have := hnone'.mp rfl
        rw [one_second.2.2, ns_consts.1, ns_consts.2.1] at this
        unfold instNs at this
        rw [← hL] at hrange
        omega
      | some d1 =>
        obtain ⟨j1, j2, j3⟩ := hsome' d1 rfl
        rw [one_second.2.2] at j3
        unfold instNs at j3
        unfold NonLeap at j2
        obtain ⟨_, w0, w1, w2, w3⟩ := id j1
        have hd1 : d1 = ⟨dateOfYo Y o, ⟨t.secs, 0⟩⟩ :=
          Ts.inst_inj d1 _ j1 hinv0 (by rw [← hL]; omega) (by dsimp only; omega)
        subst hd1
        simp only [okOr_some, bind_okok]
        exact htail

/-- **completeness of `to_naive_datetime_with_offset` through the timestamp, leap-second reading**:
the record holds `second = 60` and a timestamp that is the instant of the leap reading at `off` or one
more, does not contain a sufficient date combination together with a sufficient time combination,
every supplied field agrees, year groups determinate ⇒ exactly the leap reading -/
theorem dt_complete_ts_leap (p : Parsed) (hp : InType p) (off : Int) (Y : Int) (o : Nat) (t : Time)
    (hvd : VD Y o) (ht : TValid t) (hleap : 1000000000 ≤ t.frac) (h59 : t.secs % 60 = 59)
    (hag : DateAgrees p Y o)
    (hdY : GroupDeterminate p.year p.year_div_100 p.year_mod_100 Y)
    (hdI : ∀ w, (dateOfYo Y o).iso_week = .ok w →
      GroupDeterminate p.isoyear p.isoyear_div_100 p.isoyear_mod_100 (IsoWeek.year w))
    (hta : TimeAgreesSupplied p t) (hnano : p.nanosecond = none → t.frac = 1000000000)
    (h60 : p.second = some 60) (g : Int) (hts : p.timestamp = some g)
    (hg : g = timestampIs.instSecsLocal ⟨dateOfYo Y o, t⟩ - off ∨
      (g = timestampIs.instSecsLocal ⟨dateOfYo Y o, t⟩ - off + 1 ∧ g + off ≤ TS_MAX))
    (hfb : ¬ (DateSufficient p ∧ TimeSufficient p)) :
    Parsed.to_naive_datetime_with_offset p off = .ok (.ok ⟨dateOfYo Y o, t⟩) := by
  have hpath := ts_path_complete_leap p hp off Y o t hvd ht hleap h59 hag hdI hta hnano h60 g hg
  have htime : (∃ t', Parsed.to_naive_time p = .ok t' ∧ TimeSufficient p) ∨
      (Parsed.to_naive_time p = .error .notEnough ∧ ¬ TimeSufficient p) := by
    cases h : Parsed.to_naive_time p with
    | ok t' => exact Or.inl ⟨t', rfl, (time_sound' p t' h).2.2.1⟩
    | error e =>
      rcases time_err' p e h with ⟨rfl, h2⟩ | ⟨_, h2⟩
      · exact Or.inr ⟨rfl, h2⟩
      · exact absurd (timeInRange_of_supplied' p t ht hta) h2
  have hdate := date_of_derived p hp Y o hvd hag hdY hdI
  unfold Parsed.to_naive_datetime_with_offset
  rcases hdate with ⟨hd, hds⟩ | ⟨hd, _⟩
  · rcases htime with ⟨t', _, hsuf⟩ | ⟨he, _⟩
    · exact absurd ⟨hds, hsuf⟩ hfb
    · rw [hd, he]
      simp only [hts]
      exact hpath
  · rcases htime with ⟨t', he, _⟩ | ⟨he, _⟩
    · rw [hd, he]
      simp only [hts]
      exact hpath
    · rw [hd, he]
      simp only [hts]
      exact hpath

/-- `to_datetime` through the timestamp, leap-second value `z` -/
theorem to_datetime_complete_ts_leap (p : Parsed) (hp : InType p) (z : Zoned) (hz : ZInv z)
    (Y : Int) (o : Nat) (t : Time) (hvd : VD Y o) (ht : TValid t) (hleap : 1000000000 ≤ t.frac)
    (h59 : t.secs % 60 = 59)
    (hl : Zoned.naive_local z = .ok ⟨dateOfYo Y o, t⟩)
    (hag : DateAgrees p Y o)
    (hdY : GroupDeterminate p.year p.year_div_100 p.year_mod_100 Y)
    (hdI : ∀ w, (dateOfYo Y o).iso_week = .ok w →
      GroupDeterminate p.isoyear p.isoyear_div_100 p.isoyear_mod_100 (IsoWeek.year w))
    (hta : TimeAgreesSupplied p t) (hnano : p.nanosecond = none → t.frac = 1000000000)
    (h60 : p.second = some 60) (g : Int) (hts : p.timestamp = some g)
    (hg : g = instSecs z.utc ∨ (g = instSecs z.utc + 1 ∧ g + z.off ≤ TS_MAX))
    (hoff : p.offset = some z.off ∨ (p.offset = none ∧ z.off = 0))
    (hfb : ¬ (DateSufficient p ∧ TimeSufficient p)) :
    Parsed.to_datetime p = .ok (.ok z) := by
  obtain ⟨hfl, hst, _⟩ := zoned_stamp z hz Y o t hvd ht hl
  have hzo := hz.2
  unfold OffValid at hzo
  have hn := dt_complete_ts_leap p hp z.off Y o t hvd ht hleap h59 hag hdY hdI hta hnano h60 g hts
    (by rw [← hst]; exact hg) hfb
  have he : Zoned.east_opt z.off = some z.off := by unfold Zoned.east_opt; rw [if_pos hzo]
  rcases hoff with h | ⟨h1, h2⟩
  · simp only [Parsed.to_datetime, h, hn, Parsed.RP.bind, he, hfl]
  · rw [h2] at hn he hfl
    simp only [Parsed.to_datetime, h1, hts, hn, Parsed.RP.bind, he, hfl]

/-- `to_datetime_with_timezone` (fixed zone) through the timestamp, leap-second value `z` -/
theorem to_datetime_tz_complete_ts_leap (p : Parsed) (hp : InType p) (z : Zoned) (hz : ZInv z)
    (Y : Int) (o : Nat) (t : Time) (hvd : VD Y o) (ht : TValid t) (hleap : 1000000000 ≤ t.frac)
    (h59 : t.secs % 60 = 59)
    (hl : Zoned.naive_local z = .ok ⟨dateOfYo Y o, t⟩)
    (hag : DateAgrees p Y o)
    (hdY : GroupDeterminate p.year p.year_div_100 p.year_mod_100 Y)
    (hdI : ∀ w, (dateOfYo Y o).iso_week = .ok w →
      GroupDeterminate p.isoyear p.isoyear_div_100 p.isoyear_mod_100 (IsoWeek.year w))
    (hta : TimeAgreesSupplied p t) (hnano : p.nanosecond = none → t.frac = 1000000000)
    (h60 : p.second = some 60) (g : Int) (hts : p.timestamp = some g)
    (hg : g = instSecs z.utc ∨ (g = instSecs z.utc + 1 ∧ g + z.off ≤ TS_MAX ∧ g ≤ TS_MAX))
    (hoff : ∀ x, p.offset = some x → x = z.off)
    (hfb : ¬ (DateSufficient p ∧ TimeSufficient p)) :
    Parsed.to_datetime_with_timezone p z.off = .ok (.ok z) := by
  obtain ⟨hfl, hst, hfr⟩ := zoned_stamp z hz Y o t hvd ht hl
  have hn := dt_complete_ts_leap p hp z.off Y o t hvd ht hleap h59 hag hdY hdI hta hnano h60 g hts
    (by
      rw [← hst]
      rcases hg with h | ⟨h1, h2, _⟩
      · exact Or.inl h
      · exact Or.inr ⟨h1, h2⟩) hfb
  obtain ⟨t0, t1, f0, f1⟩ := id ht
  have hnv : 0 ≤ p.nanosecond.getD 0 ∧ p.nanosecond.getD 0 < 1000000000 := by
    cases hnn : p.nanosecond with
    | none => simp
    | some n =>
      have := hta.2.2.2.2 n hnn
      simp only [Option.getD_some]; omega
  have hrange := instSecs_range z.utc hz.1
  have hgr : TS_MIN ≤ g ∧ g ≤ TS_MAX := by
    rcases hg with h | ⟨h1, _, h3⟩
    · rw [h]; exact hrange
    · exact ⟨by omega, h3⟩
  obtain ⟨u, hu, _, _⟩ := Chrono.Proofs.ParsedZF.from_ts_some g (p.nanosecond.getD 0) hgr hnv
  simp only [Parsed.to_datetime_with_timezone, hts, hu, okOr_some, bind_okok, hn, hfl]
  cases hpo : p.offset with
  | none => rfl
  | some x => simp [hoff x hpo]

end Chrono.Proofs.ParsedLeap
