/- Helper lemmas for C17, sub-second part: `SubsecRound` against its specification. -/
import Chrono.Proofs.RoundL

namespace Chrono.Proofs.RoundL
open Chrono Chrono.M Chrono.M.Round Chrono.Spec.Round Chrono.Extracted.Round

/-- `trunc_subsecs` for one literal span -/
theorem trunc_subsecs_lit (frac K : Int) (d : Nat) (hK : span_for_digits d = K) (hd : digitSpan d = K)
    (h0 : 0 ≤ frac) (h1 : frac < 2000000000)
    (hlit : K = 1000000000 ∨ K = 100000000 ∨ K = 10000000 ∨ K = 1000000 ∨ K = 100000 ∨ K = 10000 ∨
      K = 1000 ∨ K = 100 ∨ K = 10 ∨ K = 1) :
    trunc_subsecs frac d = .ok (truncSubsecSpec frac d) := by
  unfold trunc_subsecs truncSubsecSpec
  rw [hK, hd]
  have hk0 : K ≠ 0 := by omega
  simp only [remU32_ok frac K h0 hk0, shift_eq]
  unfold truncSpec fieldOf leapBase apply_within
  rcases hlit with h | h | h | h | h | h | h | h | h | h <;> subst h <;>
  · simp only []
    repeat' split
    all_goals first
      | omega
      | (simp only [Res.ok.injEq, Prod.mk.injEq, and_true]; omega)

/-- `round_subsecs` for one literal span -/
theorem round_subsecs_lit (frac K : Int) (d : Nat) (hK : span_for_digits d = K) (hd : digitSpan d = K)
    (h0 : 0 ≤ frac) (h1 : frac < 2000000000)
    (hlit : K = 1000000000 ∨ K = 100000000 ∨ K = 10000000 ∨ K = 1000000 ∨ K = 100000 ∨ K = 10000 ∨
      K = 1000 ∨ K = 100 ∨ K = 10 ∨ K = 1) :
    round_subsecs frac d = .ok (roundSubsecSpec frac d) := by
  unfold round_subsecs roundSubsecSpec
  rw [hK, hd]
  have hk0 : K ≠ 0 := by omega
  have hkp : 0 < K := by omega
  rw [roundSpec_eq frac K hkp]
  simp only [remU32_ok frac K h0 hk0, shift_eq, tieUpSubsec_eq]
  unfold fieldOf leapBase apply_within
  by_cases hr : frac % K > 0
  · have hb := emod_bounds frac K hkp
    rw [if_pos hr, ckU32_ok (by omega) (by omega)]
    rcases hlit with h | h | h | h | h | h | h | h | h | h <;> subst h <;>
    · simp only []
      repeat' split
      all_goals first
        | omega
        | (simp only [Res.ok.injEq, Prod.mk.injEq, and_true]; omega)
        | (simp only [decide_eq_true_eq] at *; omega)
        | (simp only [decide_eq_true_eq, Res.ok.injEq, Prod.mk.injEq, and_true] at *; omega)
  · rw [if_neg hr]
    rcases hlit with h | h | h | h | h | h | h | h | h | h <;> subst h <;>
    · repeat' split
      all_goals first
        | omega
        | (simp only [Res.ok.injEq, Prod.mk.injEq, and_true]; omega)

end Chrono.Proofs.RoundL
