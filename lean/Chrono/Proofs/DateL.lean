/- Helper lemmas for C01. -/
import Chrono.Model.Date
import Chrono.Spec.Calendar
import Chrono.Spec.DateSpec
import Chrono.Proofs.PrimL
import Chrono.Proofs.DateFin

namespace Chrono.Proofs
open Chrono Chrono.M Chrono.Spec Chrono.Extracted

theorem tables_ok' :
    YEAR_TO_FLAGS.length = 400 ∧ (∀ i < 400, YEAR_TO_FLAGS.getD i 0 = flagsOf i) ∧
    MDL_TO_OL.length = 832 ∧ (∀ i < 832, MDL_TO_OL.getD i 0 = mdlDelta i) ∧
    OL_TO_MDL.length = 733 ∧ (∀ i < 733, 1 < i → OL_TO_MDL.getD i 0 = olDelta i) ∧
    YEAR_DELTAS.length = 401 ∧ (∀ i < 401, YEAR_DELTAS.getD i 0 = leapsBefore i) :=
  ⟨table_y2f.1, table_y2f.2, table_mdl.1, table_mdl.2, table_ol.1, table_ol.2, table_yd.1, table_yd.2⟩


theorem isLeap_iff (y : Int) : isLeap y = true ↔ (y % 4 = 0 ∧ (y % 100 ≠ 0 ∨ y % 400 = 0)) := by
  unfold isLeap
  simp only [Bool.and_eq_true, Bool.or_eq_true, beq_iff_eq, bne_iff_ne, ne_eq]

theorem isLeap_mod400 (y : Int) : isLeap (y % 400) = isLeap y := by
  have h1 := isLeap_iff (y % 400)
  have h2 := isLeap_iff y
  have : (isLeap (y % 400) = true) ↔ (isLeap y = true) := by
    rw [h1, h2]; omega
  cases h : isLeap (y % 400) <;> cases h' : isLeap y <;> simp_all

theorem dby_mod400 (y : Int) : daysBeforeYear y = daysBeforeYear (y % 400) + 146097 * (y / 400) := by
  unfold daysBeforeYear
  omega

theorem flagsOf_mod400 (y : Int) : flagsOf (y % 400) = flagsOf y := by
  unfold flagsOf
  rw [isLeap_mod400, dby_mod400 y]
  have : weekdayOf (daysBeforeYear (y % 400) + 146097 * (y / 400)) = weekdayOf (daysBeforeYear (y % 400)) := by
    unfold weekdayOf; omega
  rw [this]

theorem from_year_spec (y : Int) : YearFlags.from_year y = flagsOf y := by
  unfold YearFlags.from_year YearFlags.from_year_mod_400
  have h0 : 0 ≤ y % 400 := Int.emod_nonneg _ (by decide)
  have h1 : y % 400 < 400 := Int.emod_lt_of_pos _ (by decide)
  have hlt : (y % 400).toNat < 400 := by omega
  rw [table_y2f.2 _ hlt]
  have : (((y % 400).toNat : Nat) : Int) = y % 400 := Int.toNat_of_nonneg h0
  rw [this, flagsOf_mod400]

theorem flagsOf_facts (y : Int) :
    flagsOf y < 16 ∧ flagsOf y % 8 ≠ 0 ∧ flagsOf y / 8 = (if isLeap y then 0 else 1) ∧
    ((flagsOf y % 8 : Nat) : Int) % 7 = weekdayOf (daysBeforeYear y) := by
  unfold flagsOf weekdayOf
  have h0 : 0 ≤ (daysBeforeYear y + 6) % 7 := Int.emod_nonneg _ (by decide)
  have h1 : (daysBeforeYear y + 6) % 7 < 7 := Int.emod_lt_of_pos _ (by decide)
  generalize (daysBeforeYear y + 6) % 7 = w at *
  obtain ⟨k, hk⟩ := Int.eq_ofNat_of_zero_le h0
  subst hk
  simp only [Int.toNat_natCast]
  have hk7 : k < 7 := by omega
  cases isLeap y <;> (by_cases hz : k = 0 <;> simp [hz] <;> omega)


theorem valid_bounds (y : Int) (m d : Nat) (h : validYmd y m d = true) : m ≤ 12 ∧ d ≤ 31 := by
  unfold validYmd at h
  simp only [Bool.and_eq_true, decide_eq_true_eq] at h
  obtain ⟨⟨⟨h1, h2⟩, h3⟩, h4⟩ := h
  refine ⟨h2, ?_⟩
  have : monthLen y m ≤ 31 := by
    unfold monthLen; split <;> (try split) <;> omega
  omega


theorem leap_congr (y y' : Int) (m d : Nat) (h : isLeap y = isLeap y') :
    validYmd y m d = validYmd y' m d ∧ ordinalOf y m d = ordinalOf y' m d ∧ yearLen y = yearLen y' := by
  refine ⟨?_, ?_, ?_⟩
  · unfold validYmd monthLen; rw [h]
  · unfold ordinalOf; rw [h]
  · unfold yearLen; rw [h]

theorem isLeap_repYear (y : Int) : isLeap (repYear (flagsOf y)) = isLeap y := by
  have h := (flagsOf_facts y).2.2.1
  have h16 := (flagsOf_facts y).1
  unfold repYear
  cases hl : isLeap y
  · simp only [hl, Bool.false_eq_true, if_false] at h
    have : flagsOf y / 8 % 2 = 1 := by omega
    rw [if_pos this]; decide
  · simp only [hl, if_true] at h
    have : ¬ (flagsOf y / 8 % 2 = 1) := by omega
    rw [if_neg this]; decide


/-- `from_yof` accepts every word built from an existing ordinal and the year's flags -/
theorem from_yof_ok (y : Int) (o f : Nat) (ho1 : 1 ≤ o) (ho2 : o ≤ 366) (hf : f < 16) (hf8 : f % 8 ≠ 0)
    (h366 : o = 366 → f / 8 = 0) :
    Date.from_yof (y * 8192 + ((o * 16 + f : Nat) : Int)) = .ok ⟨y * 8192 + ((o * 16 + f : Nat) : Int)⟩ := by
  unfold Date.from_yof
  have hM : MAX_OL = 732 := rfl
  apply ite_pos'
  rw [hM]
  push_cast
  omega

theorem ctor_ymd' (y : Int) (m d : Nat) :
    Date.from_ymd_opt y m d =
      .ok (if MIN_YEAR ≤ y ∧ y ≤ MAX_YEAR ∧ validYmd y m d = true
           then some (dateOfYo y (ordinalOf y m d)) else none) := by
  unfold Date.from_ymd_opt
  rw [from_year_spec]
  obtain ⟨hf16, hf8, hfl, _⟩ := flagsOf_facts y
  have hrep := isLeap_repYear y
  obtain ⟨hv, ho, hyl⟩ := leap_congr (repYear (flagsOf y)) y m d hrep
  unfold Mdf.new
  dsimp only
  by_cases hmd : m ≤ 12 ∧ d ≤ 31
  · rw [if_pos hmd]
    dsimp only
    unfold Date.from_mdf
    by_cases hy : y < MIN_YEAR ∨ y > MAX_YEAR
    · rw [if_pos hy]
      congr 1; symm; apply ite_neg'
      intro h; omega
    · rw [if_neg hy, mdf_oaf_fin m hmd.1 d hmd.2 _ hf16, hv, ho]
      by_cases hval : validYmd y m d = true
      · rw [if_pos hval]
        dsimp only
        have hb := ordinal_bounds_fin m hmd.1 d hmd.2 _ hf16 (by rw [hv]; exact hval)
        rw [ho, hyl] at hb
        have h366 : ordinalOf y m d = 366 → flagsOf y / 8 = 0 := by
          intro h; rw [hfl]
          unfold yearLen at hb
          cases hl : isLeap y
          · rw [hl] at hb; simp at hb; omega
          · simp
        have hyl' : yearLen y ≤ 366 := by unfold yearLen; split <;> omega
        have := from_yof_ok y (ordinalOf y m d) (flagsOf y) hb.1 (by omega) hf16 hf8 h366
        rw [this]
        dsimp only
        congr 1
        rw [if_pos ⟨by omega, by omega, hval⟩]
        unfold dateOfYo
        congr 2
        push_cast; omega
      · rw [if_neg hval]
        dsimp only
        congr 1; symm; apply ite_neg'
        intro h; exact hval h.2.2
  · rw [if_neg hmd]
    dsimp only
    congr 1; symm; apply ite_neg'
    intro h
    have := valid_bounds y m d h.2.2
    omega

theorem yearLen_le (y : Int) : yearLen y = 365 ∨ yearLen y = 366 := by
  unfold yearLen; split <;> simp

theorem ctor_yo' (y : Int) (o : Nat) :
    Date.from_yo_opt y o =
      .ok (if MIN_YEAR ≤ y ∧ y ≤ MAX_YEAR ∧ 1 ≤ o ∧ o ≤ yearLen y then some (dateOfYo y o) else none) := by
  unfold Date.from_yo_opt Date.from_ordinal_and_flags
  rw [from_year_spec]
  obtain ⟨hf16, hf8, hfl, _⟩ := flagsOf_facts y
  have hD : DATE_MAX_OL = 5856 := rfl
  have hyl := yearLen_le y
  by_cases hy : y < MIN_YEAR ∨ y > MAX_YEAR
  · rw [if_pos hy]; congr 1; symm; apply ite_neg'; intro h; omega
  · rw [if_neg hy]
    by_cases ho : o = 0 ∨ o > 366
    · rw [if_pos ho]; congr 1; symm; apply ite_neg'; intro h; omega
    · rw [if_neg ho, if_neg (by simp)]
      dsimp only
      have hleapbit : flagsOf y / 8 = (if isLeap y then 0 else 1) := hfl
      by_cases hle : (((o * 16 + flagsOf y / 8 * 8 : Nat)) : Int) ≤ DATE_MAX_OL
      · rw [if_pos hle]
        have h366 : o = 366 → flagsOf y / 8 = 0 := by
          intro h; rw [hD] at hle; push_cast at hle; omega
        have := from_yof_ok y o (flagsOf y) (by omega) (by omega) hf16 hf8 h366
        have e : y * 8192 + ((o * 16 : Nat) : Int) + ((flagsOf y : Nat) : Int) = y * 8192 + ((o * 16 + flagsOf y : Nat) : Int) := by
          push_cast; omega
        rw [show (y * 8192 + ↑o * 16 + ↑(flagsOf y) : Int) = y * 8192 + ((o * 16 + flagsOf y : Nat) : Int) by push_cast; omega, this]
        dsimp only
        congr 1
        have hol : o ≤ yearLen y := by
          unfold yearLen
          cases hl : isLeap y
          · simp; rw [hl] at hleapbit; simp at hleapbit; rw [hD] at hle; push_cast at hle; omega
          · simp; omega
        rw [if_pos ⟨by omega, by omega, by omega, hol⟩]
        unfold dateOfYo
        congr 2
        push_cast; omega
      · rw [if_neg hle]
        congr 1; symm; apply ite_neg'
        intro h
        apply hle
        rw [hD]; push_cast
        have : o ≤ yearLen y := h.2.2.2
        unfold yearLen at this
        cases hl : isLeap y
        · rw [hl] at this hleapbit; simp at this hleapbit; omega
        · rw [hl] at this hleapbit; simp at this hleapbit; omega

/-- field accessors of the packed word -/
theorem dateOfYo_fields (y : Int) (o : Nat) (ho : o < 512) :
    (dateOfYo y o).year = y ∧ (dateOfYo y o).ordinal = o ∧ (dateOfYo y o).flags = flagsOf y ∧
    (dateOfYo y o).yof % 16 = flagsOf y ∧ (dateOfYo y o).ol = o * 2 + flagsOf y / 8 ∧
    (dateOfYo y o).leap_year = isLeap y := by
  obtain ⟨hf16, hf8, hfl, _⟩ := flagsOf_facts y
  unfold dateOfYo Date.year Date.ordinal Date.flags Date.ol Date.leap_year
  dsimp only
  refine ⟨by omega, by omega, by omega, by omega, by omega, ?_⟩
  cases hl : isLeap y
  · rw [hl] at hfl; simp at hfl
    have : (y * 8192 + ↑o * 16 + ↑(flagsOf y)) / 8 % 2 = 1 := by omega
    simp [this]
  · rw [hl] at hfl; simp at hfl
    have : (y * 8192 + ↑o * 16 + ↑(flagsOf y)) / 8 % 2 = 0 := by omega
    simp [this]

theorem yearLen_ge (y : Int) : 365 ≤ yearLen y ∧ yearLen y ≤ 366 := by
  rcases yearLen_le y with h | h <;> omega

theorem dby_neg_helper (x : Int) : (x * 1461) / 4 = 365 * x + x / 4 := by omega
theorem div100_4 (x : Int) : x / 100 / 4 = x / 400 := by omega

/-- chrono's shift/divide day-count formula equals the closed form, for every year of the range,
with no intermediate `i32` overflow -/
theorem num_days_spec (d : Date) (hy1 : -262145 ≤ d.year) (hy2 : d.year ≤ 262144)
    (ho : 0 ≤ d.ordinal ∧ d.ordinal ≤ 366) :
    Date.num_days_from_ce d = .ok (dayNumYo d.year d.ordinal) := by
  unfold Date.num_days_from_ce dayNumYo daysBeforeYear
  generalize d.year = y at *
  generalize d.ordinal = o at *
  rw [ckI32_ok (by omega) (by omega), Res.bind_ok]
  by_cases hneg : y - 1 < 0
  · rw [if_pos hneg]
    simp only [tdiv_eq]
    have hnn : ¬ (0 ≤ y - 1) := by omega
    have h0 : 0 ≤ -(y - 1) := by omega
    rw [if_pos h0]
    generalize hE : 1 + -(y - 1) / 400 = e
    have he1 : 1 ≤ e := by omega
    have he2 : e ≤ 700 := by omega
    rw [ckI32_ok (by omega) (by omega), Res.bind_ok, ckI32_ok (by omega) (by omega), Res.bind_ok,
      ckI32_ok (by omega) (by omega), Res.bind_ok, ckI32_ok (by omega) (by omega), Res.bind_ok,
      ckI32_ok (by omega) (by omega), Res.bind_ok]
    simp only [Res.pure_eq, Res.bind_ok]
    have hyy : 0 ≤ y - 1 + e * 400 := by omega
    rw [if_pos hyy]
    rw [ckI32_ok (by omega) (by omega), Res.bind_ok]
    rw [dby_neg_helper]
    rw [ckI32_ok (by omega) (by omega), Res.bind_ok, ckI32_ok (by omega) (by omega), Res.bind_ok,
      ckI32_ok (by omega) (by omega), Res.bind_ok, ckI32_ok (by omega) (by omega)]
    congr 1
    rw [div100_4]
    omega
  · rw [if_neg hneg]
    simp only [Res.pure_eq, Res.bind_ok, tdiv_eq]
    have hyy : 0 ≤ y - 1 := by omega
    rw [if_pos hyy]
    rw [ckI32_ok (by omega) (by omega), Res.bind_ok]
    rw [dby_neg_helper]
    rw [ckI32_ok (by omega) (by omega), Res.bind_ok, ckI32_ok (by omega) (by omega), Res.bind_ok,
      ckI32_ok (by omega) (by omega), Res.bind_ok, ckI32_ok (by omega) (by omega)]
    congr 1
    rw [div100_4]
    omega

end Chrono.Proofs
