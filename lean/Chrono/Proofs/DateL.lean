/- Helper lemmas for C01. -/
import Chrono.Model.Date
import Chrono.Spec.Calendar
import Chrono.Spec.DateSpec
import Chrono.Proofs.PrimL
import Chrono.Proofs.DateFin

namespace Chrono.Proofs
open Chrono Chrono.M Chrono.Spec Chrono.Extracted

theorem tables_ok' :
    YEAR_TO_FLAGS.length = 400 ∧ (∀ i < 400, YEAR_TO_FLAGS.getD i 0 = flagsOf i) ∧
    MDL_TO_OL.length = 832 ∧ (∀ i < 832, MDL_TO_OL.getD i 0 = mdlDelta i) ∧
    OL_TO_MDL.length = 733 ∧ (∀ i < 733, 1 < i → OL_TO_MDL.getD i 0 = olDelta i) ∧
    YEAR_DELTAS.length = 401 ∧ (∀ i < 401, YEAR_DELTAS.getD i 0 = leapsBefore i) :=
  ⟨table_y2f.1, table_y2f.2, table_mdl.1, table_mdl.2, table_ol.1, table_ol.2, table_yd.1, table_yd.2⟩


theorem isLeap_iff (y : Int) : isLeap y = true ↔ (y % 4 = 0 ∧ (y % 100 ≠ 0 ∨ y % 400 = 0)) := by
  unfold isLeap
  simp only [Bool.and_eq_true, Bool.or_eq_true, beq_iff_eq, bne_iff_ne, ne_eq]

theorem isLeap_mod400 (y : Int) : isLeap (y % 400) = isLeap y := by
  have h1 := isLeap_iff (y % 400)
  have h2 := isLeap_iff y
  have : (isLeap (y % 400) = true) ↔ (isLeap y = true) := by
    rw [h1, h2]; omega
  cases h : isLeap (y % 400) <;> cases h' : isLeap y <;> simp_all

theorem dby_mod400 (y : Int) : daysBeforeYear y = daysBeforeYear (y % 400) + 146097 * (y / 400) := by
  unfold daysBeforeYear
  omega

theorem flagsOf_mod400 (y : Int) : flagsOf (y % 400) = flagsOf y := by
  unfold flagsOf
  rw [isLeap_mod400, dby_mod400 y]
  have : weekdayOf (daysBeforeYear (y % 400) + 146097 * (y / 400)) = weekdayOf (daysBeforeYear (y % 400)) := by
    unfold weekdayOf; omega
  rw [this]

theorem from_year_spec (y : Int) : YearFlags.from_year y = flagsOf y := by
  unfold YearFlags.from_year YearFlags.from_year_mod_400
  have h0 : 0 ≤ y % 400 := Int.emod_nonneg _ (by decide)
  have h1 : y % 400 < 400 := Int.emod_lt_of_pos _ (by decide)
  have hlt : (y % 400).toNat < 400 := by omega
  rw [table_y2f.2 _ hlt]
  have : (((y % 400).toNat : Nat) : Int) = y % 400 := Int.toNat_of_nonneg h0
  rw [this, flagsOf_mod400]

theorem flagsOf_facts (y : Int) :
    flagsOf y < 16 ∧ flagsOf y % 8 ≠ 0 ∧ flagsOf y / 8 = (if isLeap y then 0 else 1) ∧
    ((flagsOf y % 8 : Nat) : Int) % 7 = weekdayOf (daysBeforeYear y) := by
  unfold flagsOf weekdayOf
  have h0 : 0 ≤ (daysBeforeYear y + 6) % 7 := Int.emod_nonneg _ (by decide)
  have h1 : (daysBeforeYear y + 6) % 7 < 7 := Int.emod_lt_of_pos _ (by decide)
  generalize (daysBeforeYear y + 6) % 7 = w at *
  obtain ⟨k, hk⟩ := Int.eq_ofNat_of_zero_le h0
  subst hk
  simp only [Int.toNat_natCast]
  have hk7 : k < 7 := by omega
  cases isLeap y <;> (by_cases hz : k = 0 <;> simp [hz] <;> omega)


theorem valid_bounds (y : Int) (m d : Nat) (h : validYmd y m d = true) : m ≤ 12 ∧ d ≤ 31 := by
  unfold validYmd at h
  simp only [Bool.and_eq_true, decide_eq_true_eq] at h
  obtain ⟨⟨⟨h1, h2⟩, h3⟩, h4⟩ := h
  refine ⟨h2, ?_⟩
  have : monthLen y m ≤ 31 := by
    unfold monthLen; split <;> (try split) <;> omega
  omega


theorem leap_congr (y y' : Int) (m d : Nat) (h : isLeap y = isLeap y') :
    validYmd y m d = validYmd y' m d ∧ ordinalOf y m d = ordinalOf y' m d ∧ yearLen y = yearLen y' := by
  refine ⟨?_, ?_, ?_⟩
  · unfold validYmd monthLen; rw [h]
  · unfold ordinalOf; rw [h]
  · unfold yearLen; rw [h]

theorem isLeap_repYear (y : Int) : isLeap (repYear (flagsOf y)) = isLeap y := by
  have h := (flagsOf_facts y).2.2.1
  have h16 := (flagsOf_facts y).1
  unfold repYear
  cases hl : isLeap y
  · simp only [hl, Bool.false_eq_true, if_false] at h
    have : flagsOf y / 8 % 2 = 1 := by omega
    rw [if_pos this]; decide
  · simp only [hl, if_true] at h
    have : ¬ (flagsOf y / 8 % 2 = 1) := by omega
    rw [if_neg this]; decide


/-- `from_yof` accepts every word built from an existing ordinal and the year's flags -/
theorem from_yof_ok (y : Int) (o f : Nat) (ho1 : 1 ≤ o) (ho2 : o ≤ 366) (hf : f < 16) (hf8 : f % 8 ≠ 0)
    (h366 : o = 366 → f / 8 = 0) :
    Date.from_yof (y * 8192 + ((o * 16 + f : Nat) : Int)) = .ok ⟨y * 8192 + ((o * 16 + f : Nat) : Int)⟩ := by
  unfold Date.from_yof
  have hM : MAX_OL = 732 := rfl
  apply ite_pos'
  rw [hM]
  push_cast
  omega

theorem ctor_ymd' (y : Int) (m d : Nat) :
    Date.from_ymd_opt y m d =
      .ok (if MIN_YEAR ≤ y ∧ y ≤ MAX_YEAR ∧ validYmd y m d = true
           then some (dateOfYo y (ordinalOf y m d)) else none) := by
  unfold Date.from_ymd_opt
  rw [from_year_spec]
  obtain ⟨hf16, hf8, hfl, _⟩ := flagsOf_facts y
  have hrep := isLeap_repYear y
  obtain ⟨hv, ho, hyl⟩ := leap_congr (repYear (flagsOf y)) y m d hrep
  unfold Mdf.new
  dsimp only
  by_cases hmd : m ≤ 12 ∧ d ≤ 31
  · rw [if_pos hmd]
    dsimp only
    unfold Date.from_mdf
    by_cases hy : y < MIN_YEAR ∨ y > MAX_YEAR
    · rw [if_pos hy]
      congr 1; symm; apply ite_neg'
      intro h; omega
    · rw [if_neg hy, mdf_oaf_fin m hmd.1 d hmd.2 _ hf16, hv, ho]
      by_cases hval : validYmd y m d = true
      · rw [if_pos hval]
        dsimp only
        have hb := ordinal_bounds_fin m hmd.1 d hmd.2 _ hf16 (by rw [hv]; exact hval)
        rw [ho, hyl] at hb
        have h366 : ordinalOf y m d = 366 → flagsOf y / 8 = 0 := by
          intro h; rw [hfl]
          unfold yearLen at hb
          cases hl : isLeap y
          · rw [hl] at hb; simp at hb; omega
          · simp
        have hyl' : yearLen y ≤ 366 := by unfold yearLen; split <;> omega
        have := from_yof_ok y (ordinalOf y m d) (flagsOf y) hb.1 (by omega) hf16 hf8 h366
        rw [this]
        dsimp only
        congr 1
        rw [if_pos ⟨by omega, by omega, hval⟩]
        unfold dateOfYo
        congr 2
        push_cast; omega
      · rw [if_neg hval]
        dsimp only
        congr 1; symm; apply ite_neg'
        intro h; exact hval h.2.2
  · rw [if_neg hmd]
    dsimp only
    congr 1; symm; apply ite_neg'
    intro h
    have := valid_bounds y m d h.2.2
    omega

theorem yearLen_le (y : Int) : yearLen y = 365 ∨ yearLen y = 366 := by
  unfold yearLen; split <;> simp

theorem ctor_yo' (y : Int) (o : Nat) :
    Date.from_yo_opt y o =
      .ok (if MIN_YEAR ≤ y ∧ y ≤ MAX_YEAR ∧ 1 ≤ o ∧ o ≤ yearLen y then some (dateOfYo y o) else none) := by
  unfold Date.from_yo_opt Date.from_ordinal_and_flags
  rw [from_year_spec]
  obtain ⟨hf16, hf8, hfl, _⟩ := flagsOf_facts y
  have hD : DATE_MAX_OL = 5856 := rfl
  have hyl := yearLen_le y
  by_cases hy : y < MIN_YEAR ∨ y > MAX_YEAR
  · rw [if_pos hy]; congr 1; symm; apply ite_neg'; intro h; omega
  · rw [if_neg hy]
    by_cases ho : o = 0 ∨ o > 366
    · rw [if_pos ho]; congr 1; symm; apply ite_neg'; intro h; omega
    · rw [if_neg ho, if_neg (by simp)]
      dsimp only
      have hleapbit : flagsOf y / 8 = (if isLeap y then 0 else 1) := hfl
      by_cases hle : (((o * 16 + flagsOf y / 8 * 8 : Nat)) : Int) ≤ DATE_MAX_OL
      · rw [if_pos hle]
        have h366 : o = 366 → flagsOf y / 8 = 0 := by
          intro h; rw [hD] at hle; push_cast at hle; omega
        have := from_yof_ok y o (flagsOf y) (by omega) (by omega) hf16 hf8 h366
        have e : y * 8192 + ((o * 16 : Nat) : Int) + ((flagsOf y : Nat) : Int) = y * 8192 + ((o * 16 + flagsOf y : Nat) : Int) := by
          push_cast; omega
        rw [show (y * 8192 + ↑o * 16 + ↑(flagsOf y) : Int) = y * 8192 + ((o * 16 + flagsOf y : Nat) : Int) by push_cast; omega, this]
        dsimp only
        congr 1
        have hol : o ≤ yearLen y := by
          unfold yearLen
          cases hl : isLeap y
          · simp; rw [hl] at hleapbit; simp at hleapbit; rw [hD] at hle; push_cast at hle; omega
          · simp; omega
        rw [if_pos ⟨by omega, by omega, by omega, hol⟩]
        unfold dateOfYo
        congr 2
        push_cast; omega
      · rw [if_neg hle]
        congr 1; symm; apply ite_neg'
        intro h
        apply hle
        rw [hD]; push_cast
        have : o ≤ yearLen y := h.2.2.2
        unfold yearLen at this
        cases hl : isLeap y
        · rw [hl] at this hleapbit; simp at this hleapbit; omega
        · rw [hl] at this hleapbit; simp at this hleapbit; omega

/-- field accessors of the packed word -/
theorem dateOfYo_fields (y : Int) (o : Nat) (ho : o < 512) :
    (dateOfYo y o).year = y ∧ (dateOfYo y o).ordinal = o ∧ (dateOfYo y o).flags = flagsOf y ∧
    (dateOfYo y o).yof % 16 = flagsOf y ∧ (dateOfYo y o).ol = o * 2 + flagsOf y / 8 ∧
    (dateOfYo y o).leap_year = isLeap y := by
  obtain ⟨hf16, hf8, hfl, _⟩ := flagsOf_facts y
  unfold dateOfYo Date.year Date.ordinal Date.flags Date.ol Date.leap_year
  dsimp only
  refine ⟨by omega, by omega, by omega, by omega, by omega, ?_⟩
  cases hl : isLeap y
  · rw [hl] at hfl; simp at hfl
    have : (y * 8192 + ↑o * 16 + ↑(flagsOf y)) / 8 % 2 = 1 := by omega
    simp [this]
  · rw [hl] at hfl; simp at hfl
    have : (y * 8192 + ↑o * 16 + ↑(flagsOf y)) / 8 % 2 = 0 := by omega
    simp [this]

theorem yearLen_ge (y : Int) : 365 ≤ yearLen y ∧ yearLen y ≤ 366 := by
  rcases yearLen_le y with h | h <;> omega

theorem dby_neg_helper (x : Int) : (x * 1461) / 4 = 365 * x + x / 4 := by omega
theorem div100_4 (x : Int) : x / 100 / 4 = x / 400 := by omega

/-- chrono's shift/divide day-count formula equals the closed form, for every year of the range,
with no intermediate `i32` overflow -/
theorem num_days_spec (d : Date) (hy1 : -262145 ≤ d.year) (hy2 : d.year ≤ 262144)
    (ho : 0 ≤ d.ordinal ∧ d.ordinal ≤ 366) :
    Date.num_days_from_ce d = .ok (dayNumYo d.year d.ordinal) := by
  unfold Date.num_days_from_ce dayNumYo daysBeforeYear
  generalize d.year = y at *
  generalize d.ordinal = o at *
  rw [ckI32_ok (by omega) (by omega), Res.bind_ok]
  by_cases hneg : y - 1 < 0
  · rw [if_pos hneg]
    simp only [tdiv_eq]
    have hnn : ¬ (0 ≤ y - 1) := by omega
    have h0 : 0 ≤ -(y - 1) := by omega
    rw [if_pos h0]
    generalize hE : 1 + -(y - 1) / 400 = e
    have he1 : 1 ≤ e := by omega
    have he2 : e ≤ 700 := by omega
    rw [ckI32_ok (by omega) (by omega), Res.bind_ok, ckI32_ok (by omega) (by omega), Res.bind_ok,
      ckI32_ok (by omega) (by omega), Res.bind_ok, ckI32_ok (by omega) (by omega), Res.bind_ok,
      ckI32_ok (by omega) (by omega), Res.bind_ok]
    simp only [Res.pure_eq, Res.bind_ok]
    have hyy : 0 ≤ y - 1 + e * 400 := by omega
    rw [if_pos hyy]
    rw [ckI32_ok (by omega) (by omega), Res.bind_ok]
    rw [dby_neg_helper]
    rw [ckI32_ok (by omega) (by omega), Res.bind_ok, ckI32_ok (by omega) (by omega), Res.bind_ok,
      ckI32_ok (by omega) (by omega), Res.bind_ok, ckI32_ok (by omega) (by omega)]
    congr 1
    rw [div100_4]
    omega
  · rw [if_neg hneg]
    simp only [Res.pure_eq, Res.bind_ok, tdiv_eq]
    have hyy : 0 ≤ y - 1 := by omega
    rw [if_pos hyy]
    rw [ckI32_ok (by omega) (by omega), Res.bind_ok]
    rw [dby_neg_helper]
    rw [ckI32_ok (by omega) (by omega), Res.bind_ok, ckI32_ok (by omega) (by omega), Res.bind_ok,
      ckI32_ok (by omega) (by omega), Res.bind_ok, ckI32_ok (by omega) (by omega)]
    congr 1
    rw [div100_4]
    omega


theorem dby_step (y : Int) : daysBeforeYear (y + 1) = daysBeforeYear y + yearLen y := by
  unfold daysBeforeYear yearLen
  have h := isLeap_iff y
  cases hl : isLeap y
  · have : ¬ (y % 4 = 0 ∧ (y % 100 ≠ 0 ∨ y % 400 = 0)) := by rw [← h, hl]; simp
    simp; omega
  · have := h.mp hl
    simp; omega

theorem dby_mono (a b : Int) (h : a ≤ b) : daysBeforeYear a + 365 * (b - a) ≤ daysBeforeYear b := by
  obtain ⟨k, hk⟩ := Int.le.dest h
  subst hk
  induction k with
  | zero => simp
  | succ n ih =>
    have := ih (by omega)
    have hs := dby_step (a + n)
    have hl := yearLen_ge (a + n)
    push_cast at *
    rw [show a + (↑n + 1) = a + ↑n + 1 by omega, hs]
    omega

/-- weekday from ordinal and flag bits equals the weekday of the day number -/
theorem weekday_spec (y : Int) (o : Nat) (ho : o < 512) :
    ((dateOfYo y o).weekday.toNat : Int) = weekdayOf (dayNumYo y o) := by
  obtain ⟨hy, hord, _, hf, _, _⟩ := dateOfYo_fields y o ho
  obtain ⟨hf16, hf8, _, hw⟩ := flagsOf_facts y
  unfold Date.weekday
  rw [hord]
  have h8 : (dateOfYo y o).yof % 8 = ((flagsOf y % 8 : Nat) : Int) := by
    have := hf; push_cast; omega
  rw [h8]
  unfold weekdayOf dayNumYo at *
  generalize daysBeforeYear y = B at *
  have hb : (((o : Int) + ((flagsOf y % 8 : Nat) : Int)) % 7) = (B + o + 6) % 7 := by omega
  rw [hb]
  have h0 : 0 ≤ (B + ↑o + 6) % 7 := Int.emod_nonneg _ (by decide)
  have h1 : (B + ↑o + 6) % 7 < 7 := Int.emod_lt_of_pos _ (by decide)
  generalize (B + ↑o + 6) % 7 = w at *
  obtain ⟨k, hk⟩ := Int.eq_ofNat_of_zero_le h0
  subst hk
  simp only [Int.toNat_natCast]
  have : k < 7 := by omega
  match k, this with
  | 0, _ | 1, _ | 2, _ | 3, _ | 4, _ | 5, _ | 6, _ => rfl


theorem monthDay_congr (y y' : Int) (o : Nat) (h : isLeap y = isLeap y') :
    monthOfYo y o = monthOfYo y' o ∧ dayOfYo y o = dayOfYo y' o := by
  have hm : monthOfYo y o = monthOfYo y' o := by unfold monthOfYo; rw [h]
  refine ⟨hm, ?_⟩
  unfold dayOfYo
  rw [hm, (leap_congr y y' (monthOfYo y' o) 1 h).2.1]

/-- month and day accessors: the unique valid (month, day) with that ordinal -/
theorem month_day_spec (y : Int) (o : Nat) (ho1 : 1 ≤ o) (ho2 : o ≤ yearLen y) :
    (dateOfYo y o).month = .ok (monthOfYo y o) ∧ (dateOfYo y o).day = .ok (dayOfYo y o) ∧
    validYmd y (monthOfYo y o) (dayOfYo y o) = true ∧
    ordinalOf y (monthOfYo y o) (dayOfYo y o) = o := by
  have hyl := yearLen_ge y
  obtain ⟨_, _, hfl, _, hol, _⟩ := dateOfYo_fields y o (by omega)
  obtain ⟨hf16, hf8, hleap, _⟩ := flagsOf_facts y
  have hbit : flagsOf y / 8 % 2 = flagsOf y / 8 := by omega
  have h366 : o = 366 → flagsOf y / 8 % 2 = 0 := by
    intro h; rw [hbit, hleap]
    unfold yearLen at ho2
    cases hl : isLeap y
    · rw [hl] at ho2; simp at ho2; omega
    · simp
  have hfin := mdf_from_ol_fin o (by omega) (flagsOf y) hf16
  unfold olOk at hfin
  simp only [decide_eq_true_eq] at hfin
  obtain ⟨h1, h2, h3, h4, h5⟩ := hfin ho1 h366
  have hrep := isLeap_repYear y
  obtain ⟨hm, hd⟩ := monthDay_congr (repYear (flagsOf y)) y o hrep
  simp only [hm, hd] at h1 h2 h3 h4 h5
  obtain ⟨hv, hoo, _⟩ := leap_congr (repYear (flagsOf y)) y (monthOfYo y o) (dayOfYo y o) hrep
  rw [hv] at h2; rw [hoo] at h3
  have hmdf : (dateOfYo y o).mdf = .ok (monthOfYo y o * 512 + dayOfYo y o * 16 + flagsOf y) := by
    unfold Date.mdf; rw [hol, hfl, ← hbit]; exact h1
  refine ⟨?_, ?_, h2, h3⟩
  · unfold Date.month; rw [hmdf]; dsimp only; congr 1; unfold Mdf.month; omega
  · unfold Date.day; rw [hmdf]; dsimp only; congr 1; unfold Mdf.day; omega

/-- the calendar form is unique: a valid (month, day) of year `y` is recovered from its ordinal -/
theorem ymd_unique (y : Int) (m d : Nat) (h : validYmd y m d = true) :
    monthOfYo y (ordinalOf y m d) = m ∧ dayOfYo y (ordinalOf y m d) = d := by
  obtain ⟨hf16, _, _, _⟩ := flagsOf_facts y
  have hb := valid_bounds y m d h
  have hrep := isLeap_repYear y
  obtain ⟨hv, hoo, _⟩ := leap_congr (repYear (flagsOf y)) y m d hrep
  have hfin := monthDay_of_ordinal_fin (flagsOf y) hf16 m (by omega) d (by omega)
  unfold injOk at hfin
  simp only [decide_eq_true_eq] at hfin
  have := hfin (by rw [hv]; exact h)
  rw [hoo] at this
  obtain ⟨hm, hd⟩ := monthDay_congr (repYear (flagsOf y)) y (ordinalOf y m d) hrep
  rw [hm, hd] at this
  exact this

/-- order of packed words is order of day numbers -/
theorem order_spec (y1 y2 : Int) (o1 o2 : Nat) (h1 : 1 ≤ o1 ∧ o1 ≤ yearLen y1)
    (h2 : 1 ≤ o2 ∧ o2 ≤ yearLen y2) :
    ((dateOfYo y1 o1).yof < (dateOfYo y2 o2).yof ↔ dayNumYo y1 o1 < dayNumYo y2 o2) ∧
    ((dateOfYo y1 o1).yof = (dateOfYo y2 o2).yof ↔ dayNumYo y1 o1 = dayNumYo y2 o2) := by
  have hl1 := yearLen_ge y1
  have hl2 := yearLen_ge y2
  obtain ⟨hf1, _, _, _⟩ := flagsOf_facts y1
  obtain ⟨hf2, _, _, _⟩ := flagsOf_facts y2
  unfold dateOfYo dayNumYo
  dsimp only
  rcases Int.lt_trichotomy y1 y2 with hlt | heq | hgt
  · have hm := dby_mono (y1 + 1) y2 (by omega)
    have hs := dby_step y1
    constructor <;> constructor <;> intro h <;> omega
  · subst heq
    constructor <;> constructor <;> intro h <;> omega
  · have hm := dby_mono (y2 + 1) y1 (by omega)
    have hs := dby_step y2
    constructor <;> constructor <;> intro h <;> omega

theorem cycle_to_yo_eq (c : Nat) : Date.cycle_to_yo c =
    if c % 365 < YEAR_DELTAS.getD (c / 365) 0
    then (c / 365 - 1, c % 365 + 365 - YEAR_DELTAS.getD (c / 365 - 1) 0 + 1)
    else (c / 365, c % 365 - YEAR_DELTAS.getD (c / 365) 0 + 1) := rfl

theorem leaps_fin : ∀ i < 401, leapsBefore i ≤ leapsBefore (i + 1) ∧ leapsBefore i ≤ 97 ∧
    leapsBefore (i + 1) - leapsBefore i = (if isLeap i then 1 else 0) := by decide +kernel

theorem cycle_to_yo_spec (c : Nat) (hc : c < 146097) :
    (Date.cycle_to_yo c).1 < 400 ∧ 1 ≤ (Date.cycle_to_yo c).2 ∧
    (Date.cycle_to_yo c).2 ≤ 365 + (leapsBefore ((Date.cycle_to_yo c).1 + 1) - leapsBefore (Date.cycle_to_yo c).1) ∧
    (Date.cycle_to_yo c).1 * 365 + leapsBefore (Date.cycle_to_yo c).1 + (Date.cycle_to_yo c).2 - 1 = c := by
  rw [cycle_to_yo_eq]
  have h0 : c / 365 < 401 := by omega
  have h1 : c / 365 - 1 < 401 := by omega
  rw [table_yd.2 _ h0, table_yd.2 _ h1]
  have hL0 : leapsBefore 0 = 0 := by decide
  have hL400 : leapsBefore 400 = 97 := by decide
  have f0 := leaps_fin _ h0
  have f1 := leaps_fin _ h1
  by_cases hlt : c % 365 < leapsBefore (c / 365)
  · rw [if_pos hlt]
    dsimp only
    have hpos : 1 ≤ c / 365 := by
      rcases Nat.eq_zero_or_pos (c / 365) with h | h
      · rw [h, hL0] at hlt; omega
      · exact h
    have e : c / 365 - 1 + 1 = c / 365 := by omega
    rw [e] at f1 ⊢
    generalize leapsBefore (c / 365) = La at *
    generalize leapsBefore (c / 365 - 1) = Lb at *
    omega
  · rw [if_neg hlt]
    dsimp only
    have hne : c / 365 ≠ 400 := by
      intro h; rw [h, hL400] at hlt; omega
    generalize leapsBefore (c / 365) = La at *
    generalize leapsBefore (c / 365 + 1) = Lc at *
    omega


/-- `from_ordinal_and_flags` with the year's own flags is `from_yo_opt` -/
theorem from_oaf_spec (y : Int) (o : Nat) :
    Date.from_ordinal_and_flags y o (flagsOf y) =
      .ok (if MIN_YEAR ≤ y ∧ y ≤ MAX_YEAR ∧ 1 ≤ o ∧ o ≤ yearLen y then some (dateOfYo y o) else none) := by
  have := ctor_yo' y o
  unfold Date.from_yo_opt at this
  rw [from_year_spec] at this
  exact this

theorem dby_small (i : Nat) (hi : i < 401) : daysBeforeYear i = (i : Int) * 365 + leapsBefore i - 366 := by
  unfold daysBeforeYear leapsBefore
  omega

theorem yearLen_mod400 (y : Int) : yearLen (y % 400) = yearLen y := by
  unfold yearLen; rw [isLeap_mod400]

/-- the day-number constructor: for every `i32` day number -/
theorem ctor_days' (n : Int) (hn : -2147483648 ≤ n ∧ n ≤ 2147483647) :
    ∃ r, Date.from_num_days_from_ce_opt n = .ok r ∧
      (∀ d, r = some d → ∃ y o, d = dateOfYo y o ∧ MIN_YEAR ≤ y ∧ y ≤ MAX_YEAR ∧ 1 ≤ o ∧ o ≤ yearLen y ∧
        dayNumYo y o = n) ∧
      (r = none ↔ (n < dayNumYo MIN_YEAR 1 ∨ n > dayNumYo MAX_YEAR 365)) := by
  unfold Date.from_num_days_from_ce_opt
  have hMIN : MIN_YEAR = -262143 := rfl
  have hMAX : MAX_YEAR = 262142 := rfl
  have hdmin : dayNumYo MIN_YEAR 1 = -95746129 := by decide
  have hdmax : dayNumYo MAX_YEAR 365 = 95745399 := by decide
  by_cases hov : n + 365 > 2147483647
  · have : optI32 (n + 365) = none := by
      unfold optI32 inI32 I32_MIN I32_MAX
      have : ¬ (n + 365 ≤ 2147483647) := by omega
      simp [this]
    rw [this]
    refine ⟨none, rfl, ?_, ?_⟩
    · intro d h; cases h
    · rw [hdmax]; constructor <;> intro _ <;> first | rfl | omega
  · have : optI32 (n + 365) = some (n + 365) := by
      unfold optI32 inI32 I32_MIN I32_MAX
      have h1 : (-2147483648 ≤ n + 365) := by omega
      have h2 : (n + 365 ≤ 2147483647) := by omega
      simp [h1, h2]
    rw [this]
    dsimp only
    generalize hq : (n + 365) / 146097 = q
    generalize hc : (n + 365) % 146097 = c
    have hc0 : 0 ≤ c := by rw [← hc]; exact Int.emod_nonneg _ (by decide)
    have hc1 : c < 146097 := by rw [← hc]; exact Int.emod_lt_of_pos _ (by decide)
    have hdecomp : n + 365 = 146097 * q + c := by rw [← hq, ← hc]; omega
    obtain ⟨k, hk⟩ := Int.eq_ofNat_of_zero_le hc0
    subst hk
    simp only [Int.toNat_natCast]
    obtain ⟨s1, s2, s3, s4⟩ := cycle_to_yo_spec k (by omega)
    generalize Date.cycle_to_yo k = p at *
    obtain ⟨ym, ord⟩ := p
    dsimp only at *
    have hqb : -14700 ≤ q ∧ q ≤ 14700 := by omega
    rw [ckI32_ok (by omega) (by omega)]
    dsimp only
    -- flags of the cycle year are the flags of the year
    have hymod : (q * 400 + (ym : Int)) % 400 = ym := by omega
    have hflags : YearFlags.from_year_mod_400 (ym : Int) = flagsOf (q * 400 + ym) := by
      have := from_year_spec (q * 400 + ym)
      unfold YearFlags.from_year at this
      rw [hymod] at this
      exact this
    rw [hflags, from_oaf_spec]
    -- ordinal bound is the year length
    have hlf := (leaps_fin ym (by omega)).2.2
    have hyl : yearLen (q * 400 + (ym : Int)) = 365 + (leapsBefore (ym + 1) - leapsBefore ym) := by
      rw [← yearLen_mod400, hymod, hlf]
      unfold yearLen; split <;> rfl
    -- day number of the result
    have hdn : dayNumYo (q * 400 + (ym : Int)) ord = n := by
      unfold dayNumYo
      rw [dby_mod400, hymod, dby_small ym (by omega)]
      have : (q * 400 + (ym : Int)) / 400 = q := by omega
      rw [this]
      have hle := (leaps_fin ym (by omega)).2.1
      omega
    refine ⟨_, rfl, ?_, ?_⟩
    · intro d hd
      by_cases hcond : MIN_YEAR ≤ q * 400 + ↑ym ∧ q * 400 + ↑ym ≤ MAX_YEAR ∧ 1 ≤ ord ∧ ord ≤ yearLen (q * 400 + ↑ym)
      · rw [if_pos hcond] at hd
        exact ⟨_, _, (Option.some.inj hd).symm, hcond.1, hcond.2.1, hcond.2.2.1, hcond.2.2.2, hdn⟩
      · rw [if_neg hcond] at hd; cases hd
    · have hord : 1 ≤ ord ∧ ord ≤ yearLen (q * 400 + ↑ym) := ⟨s2, by rw [hyl]; exact s3⟩
      have hyl2 := yearLen_ge (q * 400 + ↑ym)
      rw [hdmin, hdmax]
      constructor
      · intro h
        by_cases hcond : MIN_YEAR ≤ q * 400 + ↑ym ∧ q * 400 + ↑ym ≤ MAX_YEAR ∧ 1 ≤ ord ∧ ord ≤ yearLen (q * 400 + ↑ym)
        · rw [if_pos hcond] at h; cases h
        · have hy : q * 400 + ↑ym < MIN_YEAR ∨ q * 400 + ↑ym > MAX_YEAR := by
            by_cases h1 : MIN_YEAR ≤ q * 400 + ↑ym
            · by_cases h2 : q * 400 + ↑ym ≤ MAX_YEAR
              · exact absurd ⟨h1, h2, hord.1, hord.2⟩ hcond
              · right; omega
            · left; omega
          unfold dayNumYo at hdn
          rcases hy with hy | hy
          · left
            have hm := dby_mono (q * 400 + ↑ym + 1) MIN_YEAR (by omega)
            have hs := dby_step (q * 400 + ↑ym)
            have : daysBeforeYear MIN_YEAR = -95746130 := by decide
            omega
          · right
            have hm := dby_mono (MAX_YEAR + 1) (q * 400 + ↑ym) (by omega)
            have : daysBeforeYear (MAX_YEAR + 1) = 95745399 := by decide
            omega
      · intro h
        apply ite_neg'
        intro hcond
        unfold dayNumYo at hdn
        rcases h with h | h
        · have hm := dby_mono MIN_YEAR (q * 400 + ↑ym) hcond.1
          have : daysBeforeYear MIN_YEAR = -95746130 := by decide
          omega
        · have hm := dby_mono (q * 400 + ↑ym + 1) (MAX_YEAR + 1) (by omega)
          have hs := dby_step (q * 400 + ↑ym)
          have : daysBeforeYear (MAX_YEAR + 1) = 95745399 := by decide
          omega

theorem ordinalOf_dec31 (y : Int) : ordinalOf y 12 31 = yearLen y ∧ validYmd y 12 31 = true := by
  unfold ordinalOf yearLen validYmd monthLen cumDays
  cases isLeap y <;> simp

theorem succ_spec (y : Int) (o : Nat) (hy : MIN_YEAR ≤ y ∧ y ≤ MAX_YEAR) (ho : 1 ≤ o ∧ o ≤ yearLen y) :
    Date.succ_opt (dateOfYo y o) =
      .ok (if o < yearLen y then some (dateOfYo y (o + 1))
           else if y + 1 ≤ MAX_YEAR then some (dateOfYo (y + 1) 1) else none) := by
  have hyl := yearLen_ge y
  obtain ⟨hf16, hf8, hleap, _⟩ := flagsOf_facts y
  have hD : DATE_MAX_OL = 5856 := rfl
  have hMIN : MIN_YEAR = -262143 := rfl
  have hMAX : MAX_YEAR = 262142 := rfl
  obtain ⟨hyear, _, _, _, _, _⟩ := dateOfYo_fields y o (by omega)
  have hc : (flagsOf y / 8 : Nat) = (if isLeap y then 0 else 1) := hleap
  have hylc : yearLen y = 366 - flagsOf y / 8 := by
    unfold yearLen; rw [hc]; cases isLeap y <;> simp
  unfold Date.succ_opt
  rw [hyear]
  have hol : (dateOfYo y o).yof / 8 % 1024 = (o : Int) * 2 + (flagsOf y / 8 : Nat) := by
    unfold dateOfYo; dsimp only; omega
  rw [hol]
  dsimp only
  by_cases hlt : o < yearLen y
  · rw [if_pos hlt, ite_pos' _ _ (by rw [hD]; omega)]
    have hyo : (dateOfYo y o).yof - (↑o * 2 + ↑(flagsOf y / 8)) * 8 + ((↑o * 2 + ↑(flagsOf y / 8)) * 8 + 16)
        = y * 8192 + (((o + 1) * 16 + flagsOf y : Nat) : Int) := by
      unfold dateOfYo; dsimp only; push_cast; omega
    rw [hyo, from_yof_ok y (o + 1) (flagsOf y) (by omega) (by omega) hf16 hf8 (by intro h; omega)]
    dsimp only
    congr 2
    unfold dateOfYo; congr 1; push_cast; omega
  · rw [if_neg hlt, ite_neg' _ _ (by rw [hD]; omega)]
    rw [ckI32_ok (by omega) (by omega)]
    dsimp only
    rw [ctor_yo']
    congr 1
    have hl1 := yearLen_ge (y + 1)
    by_cases hmax : y + 1 ≤ MAX_YEAR
    · rw [if_pos hmax, if_pos ⟨by omega, hmax, by omega, by omega⟩]
    · rw [if_neg hmax]; apply ite_neg'; intro h; exact hmax h.2.1

theorem pred_spec (y : Int) (o : Nat) (hy : MIN_YEAR ≤ y ∧ y ≤ MAX_YEAR) (ho : 1 ≤ o ∧ o ≤ yearLen y) :
    Date.pred_opt (dateOfYo y o) =
      .ok (if 1 < o then some (dateOfYo y (o - 1))
           else if MIN_YEAR ≤ y - 1 then some (dateOfYo (y - 1) (yearLen (y - 1))) else none) := by
  have hyl := yearLen_ge y
  obtain ⟨hf16, hf8, hleap, _⟩ := flagsOf_facts y
  have hMIN : MIN_YEAR = -262143 := rfl
  have hMAX : MAX_YEAR = 262142 := rfl
  obtain ⟨hyear, hord, _, _, _, _⟩ := dateOfYo_fields y o (by omega)
  unfold Date.pred_opt
  rw [hyear, hord]
  dsimp only
  by_cases hlt : 1 < o
  · rw [if_pos hlt, ite_pos' _ _ (by omega)]
    have hyo : (dateOfYo y o).yof - ↑o * 16 + (↑o * 16 - 16) = y * 8192 + (((o - 1) * 16 + flagsOf y : Nat) : Int) := by
      unfold dateOfYo; dsimp only; push_cast; omega
    have hc : (flagsOf y / 8 : Nat) = (if isLeap y then 0 else 1) := hleap
    rw [hyo, from_yof_ok y (o - 1) (flagsOf y) (by omega) (by omega) hf16 hf8 (by intro h; omega)]
    dsimp only
    congr 2
    unfold dateOfYo; congr 1; push_cast; omega
  · rw [if_neg hlt, ite_neg' _ _ (by omega)]
    rw [ckI32_ok (by omega) (by omega)]
    dsimp only
    rw [ctor_ymd']
    obtain ⟨h31, hv⟩ := ordinalOf_dec31 (y - 1)
    congr 1
    by_cases hmin : MIN_YEAR ≤ y - 1
    · rw [if_pos hmin, if_pos ⟨hmin, by omega, hv⟩, h31]
    · rw [if_neg hmin]; apply ite_neg'; intro h; exact hmin h.1


theorem date_eq_of_yof (a b : Date) (h : a.yof = b.yof) : a = b := by
  cases a; cases b; simp_all

theorem succ_ok' (y : Int) (o : Nat) (hy : MIN_YEAR ≤ y ∧ y ≤ MAX_YEAR) (ho : 1 ≤ o ∧ o ≤ yearLen y) :
    ∃ r, Date.succ_opt (dateOfYo y o) = .ok r ∧
      (r = none ↔ dateOfYo y o = Date.MAX) ∧
      (∀ d, r = some d → ∃ y' o', d = dateOfYo y' o' ∧ MIN_YEAR ≤ y' ∧ y' ≤ MAX_YEAR ∧ 1 ≤ o' ∧
        o' ≤ yearLen y' ∧ dayNumYo y' o' = dayNumYo y o + 1 ∧
        weekdayOf (dayNumYo y' o') = (weekdayOf (dayNumYo y o) + 1) % 7) := by
  have hyl := yearLen_ge y
  have hMIN : MIN_YEAR = -262143 := rfl
  have hMAX : MAX_YEAR = 262142 := rfl
  have hmaxdate : Date.MAX = dateOfYo MAX_YEAR 365 := by decide
  have hylmax : yearLen MAX_YEAR = 365 := by decide
  refine ⟨_, succ_spec y o hy ho, ?_, ?_⟩
  · rw [hmaxdate]
    have hord := order_spec y MAX_YEAR o 365 ho ⟨by omega, by omega⟩
    have hdate : dateOfYo y o = dateOfYo MAX_YEAR 365 ↔ dayNumYo y o = dayNumYo MAX_YEAR 365 := by
      have h2 := hord.2
      constructor
      · intro h; exact h2.mp (congrArg Date.yof h)
      · intro h; exact date_eq_of_yof _ _ (h2.mpr h)
    rw [hdate]
    unfold dayNumYo
    by_cases hlt : o < yearLen y
    · rw [if_pos hlt]
      constructor
      · intro h; cases h
      · intro h
        exfalso
        rcases Int.lt_or_le y MAX_YEAR with hy' | hy'
        · have hm := dby_mono (y + 1) MAX_YEAR (by omega)
          have hs := dby_step y
          omega
        · have : y = MAX_YEAR := by omega
          subst this; omega
    · rw [if_neg hlt]
      by_cases hmax : y + 1 ≤ MAX_YEAR
      · rw [if_pos hmax]
        constructor
        · intro h; cases h
        · intro h
          exfalso
          have hm := dby_mono (y + 1) MAX_YEAR hmax
          have hs := dby_step y
          omega
      · rw [if_neg hmax]
        have : y = MAX_YEAR := by omega
        subst this
        constructor
        · intro _; congr 1; omega
        · intro _; rfl
  · intro d hd
    by_cases hlt : o < yearLen y
    · rw [if_pos hlt] at hd
      refine ⟨y, o + 1, (Option.some.inj hd).symm, hy.1, hy.2, by omega, by omega, ?_, ?_⟩
      · unfold dayNumYo; push_cast; omega
      · unfold dayNumYo weekdayOf; push_cast; omega
    · rw [if_neg hlt] at hd
      by_cases hmax : y + 1 ≤ MAX_YEAR
      · rw [if_pos hmax] at hd
        have hl1 := yearLen_ge (y + 1)
        have hs := dby_step y
        refine ⟨y + 1, 1, (Option.some.inj hd).symm, by omega, hmax, by omega, by omega, ?_, ?_⟩
        · unfold dayNumYo; rw [hs]; push_cast; omega
        · unfold dayNumYo weekdayOf; rw [hs]; push_cast; omega
      · rw [if_neg hmax] at hd; cases hd

theorem pred_ok' (y : Int) (o : Nat) (hy : MIN_YEAR ≤ y ∧ y ≤ MAX_YEAR) (ho : 1 ≤ o ∧ o ≤ yearLen y) :
    ∃ r, Date.pred_opt (dateOfYo y o) = .ok r ∧
      (r = none ↔ dateOfYo y o = Date.MIN) ∧
      (∀ d, r = some d → ∃ y' o', d = dateOfYo y' o' ∧ MIN_YEAR ≤ y' ∧ y' ≤ MAX_YEAR ∧ 1 ≤ o' ∧
        o' ≤ yearLen y' ∧ dayNumYo y' o' = dayNumYo y o - 1) := by
  have hyl := yearLen_ge y
  have hMIN : MIN_YEAR = -262143 := rfl
  have hMAX : MAX_YEAR = 262142 := rfl
  have hmindate : Date.MIN = dateOfYo MIN_YEAR 1 := by decide
  have hylmin := yearLen_ge MIN_YEAR
  refine ⟨_, pred_spec y o hy ho, ?_, ?_⟩
  · rw [hmindate]
    have hord := order_spec y MIN_YEAR o 1 ho ⟨by omega, by omega⟩
    have hdate : dateOfYo y o = dateOfYo MIN_YEAR 1 ↔ dayNumYo y o = dayNumYo MIN_YEAR 1 := by
      have h2 := hord.2
      constructor
      · intro h; exact h2.mp (congrArg Date.yof h)
      · intro h; exact date_eq_of_yof _ _ (h2.mpr h)
    rw [hdate]
    unfold dayNumYo
    by_cases hlt : 1 < o
    · rw [if_pos hlt]
      constructor
      · intro h; cases h
      · intro h
        exfalso
        have hm := dby_mono MIN_YEAR y hy.1
        omega
    · rw [if_neg hlt]
      by_cases hmin : MIN_YEAR ≤ y - 1
      · rw [if_pos hmin]
        constructor
        · intro h; cases h
        · intro h
          exfalso
          have hm := dby_mono MIN_YEAR y hy.1
          omega
      · rw [if_neg hmin]
        have : y = MIN_YEAR := by omega
        subst this
        constructor
        · intro _; congr 1; omega
        · intro _; rfl
  · intro d hd
    by_cases hlt : 1 < o
    · rw [if_pos hlt] at hd
      refine ⟨y, o - 1, (Option.some.inj hd).symm, hy.1, hy.2, by omega, by omega, ?_⟩
      unfold dayNumYo; omega
    · rw [if_neg hlt] at hd
      by_cases hmin : MIN_YEAR ≤ y - 1
      · rw [if_pos hmin] at hd
        have hl1 := yearLen_ge (y - 1)
        have hs := dby_step (y - 1)
        rw [show y - 1 + 1 = y by omega] at hs
        refine ⟨y - 1, yearLen (y - 1), (Option.some.inj hd).symm, hmin, by omega, by omega, by omega, ?_⟩
        unfold dayNumYo; rw [hs]; omega
      · rw [if_neg hmin] at hd; cases hd

end Chrono.Proofs
