/- Helper lemmas for C01. -/
import Chrono.Model.Date
import Chrono.Spec.Calendar
import Chrono.Proofs.PrimL

namespace Chrono.Proofs
open Chrono Chrono.M Chrono.Spec Chrono.Extracted

theorem table_y2f : YEAR_TO_FLAGS.length = 400 ∧ ∀ i < 400, YEAR_TO_FLAGS.getD i 0 = flagsOf i := by
  decide +kernel
theorem table_mdl : MDL_TO_OL.length = 832 ∧ ∀ i < 832, MDL_TO_OL.getD i 0 = mdlDelta i := by
  decide +kernel
theorem table_ol : OL_TO_MDL.length = 733 ∧ ∀ i < 733, 1 < i → OL_TO_MDL.getD i 0 = olDelta i := by
  decide +kernel
theorem table_yd : YEAR_DELTAS.length = 401 ∧ ∀ i < 401, YEAR_DELTAS.getD i 0 = leapsBefore i := by
  decide +kernel

theorem tables_ok' :
    YEAR_TO_FLAGS.length = 400 ∧ (∀ i < 400, YEAR_TO_FLAGS.getD i 0 = flagsOf i) ∧
    MDL_TO_OL.length = 832 ∧ (∀ i < 832, MDL_TO_OL.getD i 0 = mdlDelta i) ∧
    OL_TO_MDL.length = 733 ∧ (∀ i < 733, 1 < i → OL_TO_MDL.getD i 0 = olDelta i) ∧
    YEAR_DELTAS.length = 401 ∧ (∀ i < 401, YEAR_DELTAS.getD i 0 = leapsBefore i) :=
  ⟨table_y2f.1, table_y2f.2, table_mdl.1, table_mdl.2, table_ol.1, table_ol.2, table_yd.1, table_yd.2⟩


theorem isLeap_iff (y : Int) : isLeap y = true ↔ (y % 4 = 0 ∧ (y % 100 ≠ 0 ∨ y % 400 = 0)) := by
  unfold isLeap
  simp only [Bool.and_eq_true, Bool.or_eq_true, beq_iff_eq, bne_iff_ne, ne_eq]

theorem isLeap_mod400 (y : Int) : isLeap (y % 400) = isLeap y := by
  have h1 := isLeap_iff (y % 400)
  have h2 := isLeap_iff y
  have : (isLeap (y % 400) = true) ↔ (isLeap y = true) := by
    rw [h1, h2]; omega
  cases h : isLeap (y % 400) <;> cases h' : isLeap y <;> simp_all

theorem dby_mod400 (y : Int) : daysBeforeYear y = daysBeforeYear (y % 400) + 146097 * (y / 400) := by
  unfold daysBeforeYear
  omega

theorem flagsOf_mod400 (y : Int) : flagsOf (y % 400) = flagsOf y := by
  unfold flagsOf
  rw [isLeap_mod400, dby_mod400 y]
  have : weekdayOf (daysBeforeYear (y % 400) + 146097 * (y / 400)) = weekdayOf (daysBeforeYear (y % 400)) := by
    unfold weekdayOf; omega
  rw [this]

theorem from_year_spec (y : Int) : YearFlags.from_year y = flagsOf y := by
  unfold YearFlags.from_year YearFlags.from_year_mod_400
  have h0 : 0 ≤ y % 400 := Int.emod_nonneg _ (by decide)
  have h1 : y % 400 < 400 := Int.emod_lt_of_pos _ (by decide)
  have hlt : (y % 400).toNat < 400 := by omega
  rw [table_y2f.2 _ hlt]
  have : (((y % 400).toNat : Nat) : Int) = y % 400 := Int.toNat_of_nonneg h0
  rw [this, flagsOf_mod400]

theorem flagsOf_facts (y : Int) :
    flagsOf y < 16 ∧ flagsOf y % 8 ≠ 0 ∧ flagsOf y / 8 = (if isLeap y then 0 else 1) ∧
    ((flagsOf y % 8 : Nat) : Int) % 7 = weekdayOf (daysBeforeYear y) := by
  unfold flagsOf weekdayOf
  have h0 : 0 ≤ (daysBeforeYear y + 6) % 7 := Int.emod_nonneg _ (by decide)
  have h1 : (daysBeforeYear y + 6) % 7 < 7 := Int.emod_lt_of_pos _ (by decide)
  generalize (daysBeforeYear y + 6) % 7 = w at *
  obtain ⟨k, hk⟩ := Int.eq_ofNat_of_zero_le h0
  subst hk
  simp only [Int.toNat_natCast]
  have hk7 : k < 7 := by omega
  cases isLeap y <;> (by_cases hz : k = 0 <;> simp [hz] <;> omega)

end Chrono.Proofs
