/- Helper lemmas for C01. -/
import Chrono.Model.Date
import Chrono.Spec.Calendar
import Chrono.Proofs.PrimL

namespace Chrono.Proofs
open Chrono Chrono.M Chrono.Spec Chrono.Extracted

theorem table_y2f : YEAR_TO_FLAGS.length = 400 ∧ ∀ i < 400, YEAR_TO_FLAGS.getD i 0 = flagsOf i := by
  decide +kernel
theorem table_mdl : MDL_TO_OL.length = 832 ∧ ∀ i < 832, MDL_TO_OL.getD i 0 = mdlDelta i := by
  decide +kernel
theorem table_ol : OL_TO_MDL.length = 733 ∧ ∀ i < 733, 1 < i → OL_TO_MDL.getD i 0 = olDelta i := by
  decide +kernel
theorem table_yd : YEAR_DELTAS.length = 401 ∧ ∀ i < 401, YEAR_DELTAS.getD i 0 = leapsBefore i := by
  decide +kernel

theorem tables_ok' :
    YEAR_TO_FLAGS.length = 400 ∧ (∀ i < 400, YEAR_TO_FLAGS.getD i 0 = flagsOf i) ∧
    MDL_TO_OL.length = 832 ∧ (∀ i < 832, MDL_TO_OL.getD i 0 = mdlDelta i) ∧
    OL_TO_MDL.length = 733 ∧ (∀ i < 733, 1 < i → OL_TO_MDL.getD i 0 = olDelta i) ∧
    YEAR_DELTAS.length = 401 ∧ (∀ i < 401, YEAR_DELTAS.getD i 0 = leapsBefore i) :=
  ⟨table_y2f.1, table_y2f.2, table_mdl.1, table_mdl.2, table_ol.1, table_ol.2, table_yd.1, table_yd.2⟩

end Chrono.Proofs
