/-
  Helper lemmas for C11, part 7: inversion of the scanning primitives (what an `Ok` result says about
  the input): white space, decimal fields, names, zones, comments.
-/
import Chrono.Proofs.Rfc2822SoundL
namespace Chrono.Proofs.Rfc2822
open Chrono Chrono.M Chrono.Spec Chrono.Spec.Rfc2822 Chrono.M.Scan Chrono.M.Parse

theorem wsLen_inv (s : List Nat) (h : Scan.wsLen s ≠ 0) :
    ∃ w r, w ∈ WS ∧ s = w ++ r ∧ Scan.wsLen s = w.length := by
  cases s with
  | nil => exact absurd rfl h
  | cons b rest =>
    simp only [Scan.wsLen] at h ⊢
    by_cases hb : (9 ≤ b ∧ b ≤ 13) ∨ b = 32
    · rw [if_pos hb]
      refine ⟨[b], rest, ?_, rfl, rfl⟩
      have : b = 9 ∨ b = 10 ∨ b = 11 ∨ b = 12 ∨ b = 13 ∨ b = 32 := by omega
      rcases this with rfl | rfl | rfl | rfl | rfl | rfl <;> decide
    · rw [if_neg hb] at h ⊢
      split at h
      · rename_i c t
        split at h
        · rename_i hc
          refine ⟨[194, c], t, ?_, rfl, by simp [hc]⟩
          rcases hc with rfl | rfl <;> decide
        · exact absurd rfl h
      · rename_i t
        exact ⟨[225, 154, 128], t, by decide, rfl, rfl⟩
      · rename_i c t
        split at h
        · rename_i hc
          refine ⟨[226, 128, c], t, ?_, rfl, by simp [hc]⟩
          have : c = 128 ∨ c = 129 ∨ c = 130 ∨ c = 131 ∨ c = 132 ∨ c = 133 ∨ c = 134 ∨ c = 135 ∨ c = 136 ∨
              c = 137 ∨ c = 138 ∨ c = 168 ∨ c = 169 ∨ c = 175 := by omega
          rcases this with rfl | rfl | rfl | rfl | rfl | rfl | rfl | rfl | rfl | rfl | rfl | rfl | rfl | rfl <;> decide
        · exact absurd rfl h
      · rename_i t
        exact ⟨[226, 129, 159], t, by decide, rfl, rfl⟩
      · rename_i t
        exact ⟨[227, 128, 128], t, by decide, rfl, rfl⟩
      · exact absurd rfl h


theorem trimStartAux_inv : ∀ (fuel : Nat) (s : List Nat), s.length ≤ fuel →
    ∃ w, Ws w ∧ s = w ++ Scan.trimStartAux fuel s ∧ Scan.wsLen (Scan.trimStartAux fuel s) = 0 := by
  intro fuel
  induction fuel with
  | zero =>
    intro s hs
    have : s = [] := List.eq_nil_of_length_eq_zero (by omega)
    subst this
    exact ⟨[], Ws.nil, rfl, rfl⟩
  | succ f ih =>
    intro s hs
    simp only [Scan.trimStartAux]
    by_cases h0 : Scan.wsLen s = 0
    · rw [if_pos h0]; exact ⟨[], Ws.nil, rfl, h0⟩
    · rw [if_neg h0]
      obtain ⟨w0, r, hw0, rfl, hlen⟩ := wsLen_inv s h0
      rw [hlen, List.drop_left]
      have hpos : 0 < w0.length := by omega
      obtain ⟨w, hw, hr, hz⟩ := ih r (by simp only [List.length_append] at hs; omega)
      refine ⟨w0 ++ w, ?_, ?_, hz⟩
      · exact Ws.append (Ws.cons w0 [] hw0 Ws.nil |> fun h => by simpa using h) hw
      · rw [List.append_assoc, ← hr]

theorem trimStart_inv (s : List Nat) :
    ∃ w, Ws w ∧ s = w ++ Scan.trimStart s ∧ Scan.wsLen (Scan.trimStart s) = 0 :=
  trimStartAux_inv s.length s (Nat.le_refl _)

theorem space_inv (s s' : List Nat) (h : Scan.space s = .ok s') :
    ∃ w, Ws1 w ∧ s = w ++ s' ∧ Scan.wsLen s' = 0 := by
  obtain ⟨w, hw, hs, hz⟩ := trimStart_inv s
  simp only [Scan.space] at h
  split at h
  · rename_i hl
    injection h with h
    subst h
    refine ⟨w, ?_, hs, hz⟩
    cases hw with
    | nil =>
      have e := congrArg List.length hs
      simp only [List.nil_append] at e
      omega
    | cons x y hx hy => exact ⟨x, y, hx, hy, rfl⟩
  · split at h <;> cases h

theorem char_inv (s r : List Nat) (c : Nat) (h : Scan.char s c = .ok r) : s = c :: r := by
  cases s with
  | nil => cases h
  | cons b t =>
    simp only [Scan.char] at h
    split at h
    · rename_i hb; injection h with h; rw [hb, h]
    · cases h

theorem digit_of_isDigit {b : Nat} (h : Scan.isDigit b = true) : 48 ≤ b ∧ b ≤ 57 := by
  simpa [Scan.isDigit] using h

theorem numberAux_inv : ∀ (s : List Nat) (i min : Nat) (max : Option Nat) (n : Int) (rest : List Nat) (v : Int),
    (∀ m, max = some m → i ≤ m ∧ min ≤ m) →
    Scan.numberAux s i min max n = .ok (rest, v) →
    ∃ ds, Digits ds ∧ s = ds ++ rest ∧ v = valAcc n ds ∧ (min ≤ i + ds.length ∨ rest = []) ∧
      (∀ m, max = some m → i + ds.length ≤ m) := by
  intro s
  induction s with
  | nil =>
    intro i min max n rest v hmax h
    have : rest = [] ∧ v = n := by
      cases max with
      | none => rw [Scan.numberAux.eq_2, Scan.numberAux.step.eq_1] at h; injection h with h; injection h with a b; exact ⟨a.symm, b.symm⟩
      | some m =>
        rw [Scan.numberAux.eq_1] at h
        split at h
        · injection h with h; injection h with a b; exact ⟨a.symm, b.symm⟩
        · rw [Scan.numberAux.step.eq_1] at h; injection h with h; injection h with a b; exact ⟨a.symm, b.symm⟩
    obtain ⟨rfl, rfl⟩ := this
    exact ⟨[], (fun _ hb => nomatch hb), rfl, rfl, Or.inr rfl, fun m hm => by have := hmax m hm; simp; omega⟩
  | cons c t ih =>
    intro i min max n rest v hmax h
    have hstep : (∀ m, max = some m → i < m) → Scan.numberAux.step (c :: t) i min max n = .ok (rest, v) →
        ∃ ds, Digits ds ∧ c :: t = ds ++ rest ∧ v = valAcc n ds ∧ (min ≤ i + ds.length ∨ rest = []) ∧
          (∀ m, max = some m → i + ds.length ≤ m) := by
      intro hlt hs
      rw [Scan.numberAux.step.eq_2] at hs
      by_cases hd : Scan.isDigit c = true
      · simp only [hd, Bool.not_true, Bool.false_eq_true, if_false] at hs
        split at hs
        · cases hs
        · obtain ⟨ds, h1, h2, h3, h4, h5⟩ := ih (i + 1) min max _ rest v
            (fun m hm => ⟨by have := hlt m hm; omega, (hmax m hm).2⟩) hs
          refine ⟨c :: ds, ?_, by rw [h2]; rfl, by rw [h3]; simp [valAcc], ?_, ?_⟩
          · intro b hb
            rcases List.mem_cons.mp hb with rfl | hb
            · exact digit_of_isDigit hd
            · exact h1 b hb
          · rcases h4 with h4 | h4
            · left; simp only [List.length_cons]; omega
            · right; exact h4
          · intro m hm; have := h5 m hm; simp only [List.length_cons]; omega
      · have hd' : Scan.isDigit c = false := by cases hx : Scan.isDigit c <;> simp_all
        simp only [hd', Bool.not_false, if_true] at hs
        split at hs
        · cases hs
        · rename_i hmin
          injection hs with hs; injection hs with a b
          refine ⟨[], (fun _ hb => nomatch hb), by rw [← a]; rfl, b.symm, Or.inl (by simp; omega), ?_⟩
          intro m hm; have := hlt m hm; simp; omega
    cases max with
    | none =>
      rw [Scan.numberAux.eq_2] at h
      exact hstep (fun m hm => nomatch hm) h
    | some m =>
      rw [Scan.numberAux.eq_1] at h
      split at h
      · rename_i hge
        injection h with h; injection h with a b
        have := hmax m rfl
        refine ⟨[], (fun _ hb => nomatch hb), by rw [← a]; rfl, b.symm, Or.inl (by simp; omega), ?_⟩
        intro m' hm'; injection hm' with hm'; subst hm'; simp; omega
      · rename_i hlt
        exact hstep (fun m' hm' => by injection hm' with hm'; subst hm'; omega) h

theorem number_inv (s : List Nat) (min : Nat) (max : Option Nat) (rest : List Nat) (v : Int)
    (hmm : ∀ m, max = some m → min ≤ m) (h : Scan.number s min max = .ok (rest, v)) :
    ∃ ds, Digits ds ∧ s = ds ++ rest ∧ v = (decVal ds : Int) ∧ min ≤ ds.length ∧
      (∀ m, max = some m → ds.length ≤ m) := by
  unfold Scan.number at h
  split at h
  · cases h
  · rename_i hlen
    obtain ⟨ds, h1, h2, h3, h4, h5⟩ := numberAux_inv s 0 min max 0 rest v
      (fun m hm => ⟨Nat.zero_le _, hmm m hm⟩) h
    refine ⟨ds, h1, h2, by rw [h3, valAcc_zero], ?_, fun m hm => by have := h5 m hm; omega⟩
    rcases h4 with h4 | h4
    · omega
    · subst h4; rw [h2] at hlen; simp at hlen; omega


theorem lower_of_or32 (a l : Nat) (h : or32 a = l) (h1 : 97 ≤ l) (h2 : l ≤ 122) : lower a = l := by
  unfold or32 at h
  unfold lower
  split at h <;> split <;> omega

theorem findIdx_sound (tbl : List (List Nat)) (key : List Nat) (i : Nat) (h : findIdx tbl key = some i) :
    i < tbl.length ∧ tbl.getD i [] = key := by
  unfold findIdx at h
  simp only [] at h
  split at h
  · rename_i hlt
    injection h with h
    subst h
    refine ⟨hlt, ?_⟩
    have := List.findIdx_getElem (w := hlt)
    simp only [beq_iff_eq] at this
    rw [List.getD_eq_getElem?_getD, List.getElem?_eq_getElem hlt]
    exact this
  · cases h

theorem short_name_inv (tbl : List (List Nat)) (s rest : List Nat) (i : Nat)
    (htbl : ∀ j < tbl.length, ∀ b ∈ tbl.getD j [], 97 ≤ b ∧ b ≤ 122)
    (h : short_name tbl s = .ok (rest, i)) :
    i < tbl.length ∧ ∃ v, CaseOf (tbl.getD i []) v ∧ s = v ++ rest := by
  unfold short_name at h
  match s, h with
  | a :: b :: c :: r, h =>
    simp only [] at h
    split at h
    · rename_i j hj
      injection h with h; injection h with h1 h2
      subst h1; subst h2
      obtain ⟨hlt, hk⟩ := findIdx_sound _ _ _ hj
      refine ⟨hlt, [a, b, c], ?_, rfl⟩
      have hb := htbl j hlt
      rw [hk] at hb ⊢
      simp only [List.mem_cons, List.mem_nil_iff, or_false, forall_eq_or_imp, forall_eq] at hb
      unfold CaseOf
      simp only [List.map_cons, List.map_nil]
      rw [lower_of_or32 a _ rfl hb.1.1 hb.1.2, lower_of_or32 b _ rfl hb.2.1.1 hb.2.1.2,
        lower_of_or32 c _ rfl hb.2.2.1 hb.2.2.2]
    · cases h

theorem short_weekday_inv (s rest : List Nat) (w : Weekday) (h : short_weekday s = .ok (rest, w)) :
    ∃ i v, i < 7 ∧ CaseOf (dayNames.getD i []) v ∧ s = v ++ rest ∧ weekdays[i]? = some w := by
  obtain ⟨t1, _, _, _, t5, _, t6⟩ := name_tables
  unfold short_weekday at h
  cases hs : short_name Extracted.SHORT_WEEKDAYS s with
  | error e => rw [hs] at h; cases h
  | ok r =>
    obtain ⟨r1, i⟩ := r
    rw [hs] at h
    simp only [] at h
    rw [t1] at hs
    obtain ⟨hi, v, hc, hv⟩ := short_name_inv dayNames s r1 i (fun j hj => (t5 j hj).2) hs
    split at h
    · rename_i w' hw'
      injection h with h; injection h with h1 h2
      subst h1; subst h2
      exact ⟨i, v, hi, hc, hv, by rw [← t6 i hi]; exact hw'⟩
    · cases h

theorem short_month0_inv (s rest : List Nat) (i : Nat) (h : short_month0 s = .ok (rest, i)) :
    i < 12 ∧ ∃ v, CaseOf (monthNames.getD i []) v ∧ s = v ++ rest := by
  obtain ⟨_, t2, _, _, _, t5, _⟩ := name_tables
  unfold short_month0 at h
  rw [t2] at h
  exact short_name_inv monthNames s rest i (fun j hj => (t5 j hj).2) h


theorem takeAlpha_inv : ∀ (s : List Nat), s = (Scan.takeAlpha s).1 ++ (Scan.takeAlpha s).2 ∧
    ∀ b ∈ (Scan.takeAlpha s).1, isAlpha b := by
  intro s
  induction s with
  | nil => exact ⟨rfl, fun _ hb => nomatch hb⟩
  | cons b t ih =>
    simp only [Scan.takeAlpha]
    by_cases hb : Scan.isAsciiAlpha b = true
    · rw [if_pos hb]
      refine ⟨by simp only [List.cons_append]; rw [← ih.1], ?_⟩
      intro x hx
      rcases List.mem_cons.mp hx with rfl | hx
      · exact (isAlpha_iff _).mp hb
      · exact ih.2 x hx
    · rw [if_neg hb]; exact ⟨rfl, fun _ hx => nomatch hx⟩

theorem zoneSecs_inv (low : List Nat) (x : Int) (h : zoneSecs low = some x) :
    (∃ e ∈ zoneTable, low = e.1 ∧ x = e.2 * 3600) ∨ (low = [122] ∧ x = 0) := by
  obtain ⟨e1, e2, e3, e4, e5, e6, e7, e8, e9, e10, e11⟩ := ascii_lits
  unfold zoneSecs at h
  simp only [e1, e2, e3, e4, e5, e6, e7, e8, e9, e10, e11, Bool.or_eq_true, beq_iff_eq] at h
  repeat' split at h
  all_goals first
    | (injection h with h; subst h; rename_i hc; first
        | (rcases hc with (hc | hc) | hc <;> subst hc <;> decide)
        | (rcases hc with hc | hc <;> subst hc <;> decide)
        | (subst hc; decide))
    | (exact nomatch h)


/-- the single-letter arm -/
def milRes (v rest : List Nat) : PRes (List Nat × Int) :=
  match v with
  | [c] =>
    if (97 ≤ c ∧ c ≤ 105) ∨ (107 ≤ c ∧ c ≤ 121) ∨ (65 ≤ c ∧ c ≤ 73) ∨ (75 ≤ c ∧ c ≤ 89)
    then .ok (rest, 0) else .error .invalid
  | _ => .error .invalid

theorem zoneRes_none (v rest : List Nat) (hz : zoneSecs (lowerS v) = none) :
    zoneRes v rest = milRes v rest := by
  unfold zoneSecs at hz
  unfold zoneRes milRes
  simp only [] at hz ⊢
  repeat' split at hz
  all_goals first
    | (cases hz; done)
    | (simp only [*, Bool.false_eq_true, if_false]; rfl)

theorem zoneRes_inv (v rest r' : List Nat) (off : Int) (hv : ∀ b ∈ v, isAlpha b)
    (h : zoneRes v rest = .ok (r', off)) : r' = rest ∧ Zone v off := by
  cases hz : zoneSecs (lowerS v) with
  | some x =>
    rw [zoneRes_some v rest x hz] at h
    injection h with h; injection h with h1 h2
    subst h1; subst h2
    refine ⟨rfl, ?_⟩
    rcases zoneSecs_inv _ _ hz with ⟨e, he, h1, h2⟩ | ⟨h1, h2⟩
    · rw [h2]
      exact Zone.name v e.1 e.2 he (by unfold CaseOf; rw [lower_eq]; exact h1)
    · subst h2
      cases v with
      | nil => simp [lowerS] at h1
      | cons c t =>
        cases t with
        | cons _ _ => simp [lowerS] at h1
        | nil =>
          simp only [lowerS, List.map_cons, List.map_nil, List.cons.injEq, and_true] at h1
          have hl : lower c = 122 := by rw [lower_eq]; exact h1
          exact Zone.military c (hv c (by simp)) (by omega)
  | none =>
    rw [zoneRes_none v rest hz] at h
    unfold milRes at h
    cases v with
    | nil => cases h
    | cons c t =>
      cases t with
      | cons _ _ => cases h
      | nil =>
        simp only [] at h
        split at h
        · rename_i hc
          injection h with h; injection h with h1 h2
          subst h1; subst h2
          refine ⟨rfl, Zone.military c (hv c (by simp)) ?_⟩
          unfold lower; split <;> omega
        · cases h


theorem tz_num_inv (s rest : List Nat) (off : Int)
    (h : Scan.timezone_offset s .nothing false false false = .ok (rest, off)) :
    ∃ zz, Zone zz off ∧ s = zz ++ rest := by
  unfold Scan.timezone_offset at h
  simp only [Bool.false_eq_true, if_false, Scan.consumeColon] at h
  repeat' split at h
  all_goals try (cases h; done)
  all_goals (
    rename_i sg neg s1 hA hB tl heq2 hdig mins minutes heq1 restP s' heq0 hneg
    injection h with h; injection h with hr ho
    subst hr
    simp only [Bool.and_eq_true] at hdig
    have dA := digit_of_isDigit hdig.1
    have dB := digit_of_isDigit hdig.2
    -- minutes
    split at heq1
    · rename_i m1 m2 tail'
      split at heq1
      · rename_i hm
        injection heq1 with heq1
        subst heq1
        have dM := digit_of_isDigit hm.2.2
        -- the rest
        rw [if_pos (by simp)] at heq0
        injection heq0 with heq0
        simp only [List.drop_succ_cons, List.drop_zero] at heq0
        subst heq0
        -- the sign
        split at heq2
        · rename_i r
          injection heq2 with heq2; injection heq2 with e1 e2
          subst e1; subst e2
          first
            | (exact absurd hneg (by decide))
            | (refine ⟨[43, hA, hB, m1, m2], ?_, rfl⟩
               have hz := Zone.num false hA hB m1 m2 dA dB ⟨hm.1, hm.2.1⟩ dM
               refine zone_cast hz rfl ?_
               rw [← ho]; simp)
        · rename_i r
          injection heq2 with heq2; injection heq2 with e1 e2
          subst e1; subst e2
          first
            | (exact absurd rfl hneg)
            | (refine ⟨[45, hA, hB, m1, m2], ?_, rfl⟩
               have hz := Zone.num true hA hB m1 m2 dA dB ⟨hm.1, hm.2.1⟩ dM
               refine zone_cast hz rfl ?_
               rw [← ho]; simp)
        · cases heq2
        · cases heq2
        · cases heq2
      · split at heq1 <;> cases heq1
    · cases heq1)


/-- `timezone_offset_2822` accepts only zones of the specification -/
theorem tz_inv (s rest : List Nat) (off : Int) (h : Scan.timezone_offset_2822 s = .ok (rest, off)) :
    ∃ zz, Zone zz off ∧ s = zz ++ rest := by
  obtain ⟨hsplit, halpha⟩ := takeAlpha_inv s
  cases hta : Scan.takeAlpha s with
  | mk name r0 =>
    rw [hta] at hsplit halpha
    simp only [] at hsplit halpha
    have heq : Scan.timezone_offset_2822 s =
        if name.length > 0 then zoneRes name r0 else Scan.timezone_offset s .nothing false false false := by
      unfold Scan.timezone_offset_2822 zoneRes
      rw [hta]
      rfl
    rw [heq] at h
    by_cases hn : name.length > 0
    · rw [if_pos hn] at h
      obtain ⟨h1, h2⟩ := zoneRes_inv name r0 rest off halpha h
      exact ⟨name, h2, by rw [hsplit, h1]⟩
    · rw [if_neg hn] at h
      exact tz_num_inv s rest off h

/-! ### comments -/

theorem commentAux_inv : ∀ (n : Nat) (s : List Nat) (d : Nat) (rest : List Nat), s.length ≤ n →
    Scan.commentAux s (some (d + 1, false)) = .ok rest →
    ∃ a s', CText a ∧ s = a ++ 41 :: s' ∧ s'.length < s.length ∧
      (if d = 0 then s' = rest else Scan.commentAux s' (some (d, false)) = .ok rest) := by
  intro n
  induction n with
  | zero =>
    intro s d rest hs h
    have : s = [] := List.eq_nil_of_length_eq_zero (by omega)
    subst this
    cases h
  | succ n ih =>
    intro s d rest hs h
    cases s with
    | nil => cases h
    | cons c t =>
      simp only [List.length_cons] at hs
      simp only [Scan.commentAux] at h
      by_cases h41 : c = 41
      · subst h41
        simp only [if_true] at h
        refine ⟨[], t, CText.nil, rfl, by simp, ?_⟩
        by_cases hd : d = 0
        · subst hd; simp only [Nat.zero_add, if_true] at h ⊢; injection h
        · have : ¬ d + 1 = 1 := by omega
          simp only [this, if_false, Nat.add_sub_cancel] at h
          rw [if_neg hd]; exact h
      · rw [if_neg h41] at h
        by_cases h92 : c = 92
        · subst h92
          simp only [if_true] at h
          cases t with
          | nil => cases h
          | cons x u =>
            simp only [Scan.commentAux] at h
            obtain ⟨a, s', ha, hs', hl, hr⟩ := ih u d rest (by simp only [List.length_cons] at hs; omega) h
            refine ⟨92 :: x :: a, s', CText.esc x a ha, by rw [hs']; rfl, by simp only [List.length_cons]; omega, hr⟩
        · rw [if_neg h92] at h
          by_cases h40 : c = 40
          · subst h40
            simp only [if_true] at h
            obtain ⟨a1, s1, ha1, hs1, hl1, hr1⟩ := ih t (d + 1) rest (by omega) h
            rw [if_neg (by omega)] at hr1
            obtain ⟨a2, s2, ha2, hs2, hl2, hr2⟩ := ih s1 d rest (by omega) hr1
            refine ⟨40 :: (a1 ++ 41 :: a2), s2, CText.nest a1 a2 ha1 ha2, ?_, ?_, hr2⟩
            · rw [hs1, hs2]; simp
            · simp only [List.length_cons]; omega
          · rw [if_neg h40] at h
            obtain ⟨a, s', ha, hs', hl, hr⟩ := ih t d rest (by omega) h
            exact ⟨c :: a, s', CText.char c a h40 h41 h92 ha, by rw [hs']; rfl,
              by simp only [List.length_cons]; omega, hr⟩

theorem comment_inv (s rest : List Nat) (h : Scan.comment_2822 s = .ok rest) :
    ∃ w a, Ws w ∧ CText a ∧ s = w ++ (40 :: (a ++ 41 :: rest)) := by
  obtain ⟨w, hw, hs, _⟩ := trimStart_inv s
  unfold Scan.comment_2822 at h
  cases ht : Scan.trimStart s with
  | nil => rw [ht] at h; cases h
  | cons c t =>
    rw [ht] at h hs
    simp only [Scan.commentAux] at h
    split at h
    · rename_i hc
      obtain ⟨a, s', ha, hs', _, hr⟩ := commentAux_inv t.length t 0 rest (Nat.le_refl _) h
      simp only [if_true] at hr
      subst hr
      exact ⟨w, a, hw, ha, by rw [hs, hc, hs']⟩
    · cases h

theorem commentsAux_inv : ∀ (fuel : Nat) (s : List Nat), s.length ≤ fuel → Parse.commentsAux fuel s = [] →
    Comments s := by
  intro fuel
  induction fuel with
  | zero =>
    intro s hs _
    have : s = [] := List.eq_nil_of_length_eq_zero (by omega)
    subst this; exact Comments.nil
  | succ f ih =>
    intro s hs h
    simp only [Parse.commentsAux] at h
    cases hc : Scan.comment_2822 s with
    | error e => rw [hc] at h; simp only [] at h; subst h; exact Comments.nil
    | ok s' =>
      rw [hc] at h
      simp only [] at h
      obtain ⟨w, a, hw, ha, hs'⟩ := comment_inv s s' hc
      subst hs'
      exact Comments.cons w a s' hw ha (ih s' (by simp only [List.length_append, List.length_cons] at hs; omega) h)

end Chrono.Proofs.Rfc2822
