/- Helper lemmas for C03, second review (audit2, 2026-09-30): which dates a drained iterator yields
   (membership in an arithmetic progression of day numbers), and the bridges from the property's
   invariants (`DateInv`, `DInv`, `TValid`) to the field-width hypotheses of the code-translation
   theorems (`DateOk`, `DFields`, `U32Fields`). -/
import Chrono.Proofs.ArithExtL

namespace Chrono.Proofs.IterLimit
open Chrono Chrono.M Chrono.Spec Chrono.Proofs Chrono.Extracted

/-- a list of valid dates whose k-th entry has day number `n0 + s·k` contains exactly the valid
dates on that progression below its length -/
theorem progression_mem (items : List Date) (n0 s : Int)
    (d : ∀ (k : Nat) (hk : k < items.length), DateInv items[k] ∧ dayNumOf items[k] = n0 + s * k)
    (x : Date) :
    x ∈ items ↔ DateInv x ∧ ∃ k : Nat, k < items.length ∧ dayNumOf x = n0 + s * k := by
  constructor
  · intro hm
    obtain ⟨k, hk, e⟩ := List.mem_iff_getElem.mp hm
    obtain ⟨d1, d2⟩ := d k hk
    rw [e] at d1 d2
    exact ⟨d1, k, hk, d2⟩
  · rintro ⟨hx, k, hk, e⟩
    obtain ⟨d1, d2⟩ := d k hk
    have : items[k] = x := dayNum_inj _ _ d1 hx (by rw [d2, e])
    rw [← this]
    exact List.getElem_mem hk

theorem nil_of_length_zero {α} (l : List α) (h : (l.length : Int) = 0) : l = [] := by
  cases l with
  | nil => rfl
  | cons a t => simp only [List.length_cons] at h; omega

end Chrono.Proofs.IterLimit
