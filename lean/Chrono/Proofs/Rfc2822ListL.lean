/-
  C11, audit-2 gap G2: the `Fixed::RFC2822` item INSIDE a longer item list — the writer between literal
  items (`DelayedFormat::write_to` over `pre ++ [RFC2822] ++ post`) and the reader behind a literal item
  (`parse_internal` over `Literal a :: rest`).
-/
import Chrono.Proofs.Rfc2822ItemL
namespace Chrono.Proofs.Rfc2822
open Chrono Chrono.M Chrono.Spec Chrono.Spec.Rfc2822 Chrono.M.Format

/-- an item list of `Literal` / `Space` items only -/
def LitsOnly (l : List Item) : Prop := ∀ it ∈ l, (∃ s, it = .literal s) ∨ (∃ s, it = .space s)

/-- the text of the `Literal` / `Space` items of a list, in order -/
def litText : List Item → List Nat
  | [] => []
  | .literal s :: r => s ++ litText r
  | .space s :: r => s ++ litText r
  | _ :: r => litText r

theorem seq_assoc (a b c : W) : (a.seq b).seq c = a.seq (b.seq c) := by
  cases a with
  | panic => rfl
  | ok ra =>
    cases ra with
    | none => rfl
    | some x =>
      cases b with
      | panic => rfl
      | ok rb =>
        cases rb with
        | none => rfl
        | some y =>
          cases c with
          | panic => rfl
          | ok rc =>
            cases rc with
            | none => rfl
            | some w => simp only [W.seq, List.append_assoc]

theorem wok_seq (x : List Nat) (a : W) :
    (wok x).seq a = match a with | .ok (some y) => .ok (some (x ++ y)) | r => r := rfl

theorem formatItemsR_append (d : Option Date) (t : Option Time) (off : Option (List Nat × Int)) (a b : List Item) :
    formatItemsR d t off (a ++ b) = (formatItemsR d t off a).seq (formatItemsR d t off b) := by
  induction a with
  | nil =>
    simp only [List.nil_append, formatItemsR]
    rw [wok_seq]
    cases formatItemsR d t off b with
    | panic => rfl
    | ok r => cases r <;> simp
  | cons it rest ih =>
    simp only [List.cons_append, formatItemsR]
    rw [ih, seq_assoc]

theorem formatItemsR_lits (d : Option Date) (t : Option Time) (off : Option (List Nat × Int)) (l : List Item)
    (h : LitsOnly l) : formatItemsR d t off l = wok (litText l) := by
  induction l with
  | nil => rfl
  | cons it rest ih =>
    have hr : LitsOnly rest := fun x hx => h x (List.mem_cons_of_mem _ hx)
    rcases h it (List.mem_cons_self) with ⟨s, rfl⟩ | ⟨s, rfl⟩
    · simp only [formatItemsR, format_item, ih hr, litText]; rfl
    · simp only [formatItemsR, format_item, ih hr, litText]; rfl

/-- **the item between literals**, any value: the literal text, what the single item writes, the literal
text; an error or a panic of the item is the error / panic of the whole list -/
theorem format_in_list (z : Zoned) (pre post : List Item) (hpre : LitsOnly pre) (hpost : LitsOnly post) :
    Rfc2822.format_with_items z (pre ++ [.fixed .rfc2822] ++ post) =
      match Rfc2822.format_item_rfc2822 z with
      | .ok (some t) => .ok (some (litText pre ++ t ++ litText post))
      | r => r := by
  unfold Rfc2822.format_with_items Rfc2822.format_item_rfc2822 Rfc2822.ITEMS
  cases Zoned.overflowing_naive_local z with
  | panic => rfl
  | ok l =>
    simp only []
    rw [formatItemsR_append, formatItemsR_append, formatItemsR_lits _ _ _ pre hpre,
      formatItemsR_lits _ _ _ post hpost, formatItemsR_single, seq_wok_nil]
    cases format_item (some l.date) (some l.time) (some (fixedOffsetName z.off, z.off)) (.fixed .rfc2822) with
    | panic => rfl
    | ok r =>
      cases r with
      | none => rfl
      | some x => simp only [W.seq, wok, List.append_assoc]

/-- a `Literal` item in front: it consumes exactly its text -/
theorem parseLiteral_self (a s : List Nat) : Parse.parseLiteral (a ++ s) a = .ok s := by
  unfold Parse.parseLiteral
  rw [if_neg (by simp), if_neg (by simp)]
  simp

theorem parse_internal_lit (p : Parsed) (a s : List Nat) (rest : List Item) :
    Parse.parse_internal p (a ++ s) (.literal a :: rest) = Parse.parse_internal p s rest := by
  rw [Parse.parse_internal]
  · simp only [Parse.parseItemBase, parseLiteral_self, Except.map]
  all_goals (intro h; cases h)

end Chrono.Proofs.Rfc2822
