/-
  Helper lemmas for C18 (gap G1 of the audit): a stronger invariant over histories.  Every cache
  records the environment as it was at the point of the history at which its `last_checked` was set:
  the history splits as `q ++ r` with `last_checked` = the clock after `q`, and source and zone are the
  ones of TZ's value after `q`.  Hence the zone a conversion uses is the one demanded for the value TZ
  had at some point within the last second.  Core Lean only.
-/
import Chrono.Proofs.LocalCacheL
namespace Chrono.Proofs.LocalCache
open Chrono.M.LocalCache Chrono.Spec.LocalCache Chrono.Extracted.LocalCache

/-- the cache `c` was last checked right after the prefix `q` of the history `h` (started with TZ =
`e0` at clock `k0`) and holds the source and the zone of TZ's value at that point -/
def CacheAt (W : World) (e0 : EnvVal) (k0 : Nat) (h : List Step) (c : Cache) : Prop :=
  ∃ q r, h = q ++ r ∧ c.last_checked = k0 + elapsed q ∧
    c.source = Source.new W c.last_checked (env_var (envAfter e0 q)) ∧
    c.zone = current_zone W (env_var (envAfter e0 q))

/-- the state reached by the history `h`, with what every cache records -/
def HistInv (W : World) (e0 : EnvVal) (k0 : Nat) (h : List Step) (s : State) : Prop :=
  s.env = envAfter e0 h ∧ s.clock = k0 + elapsed h ∧
  ∀ t c, s.caches t = some c → CacheAt W e0 k0 h c

theorem elapsed_append (a b : List Step) : elapsed (a ++ b) = elapsed a + elapsed b := by
  induction a with
  | nil => simp [elapsed]
  | cons x xs ih => rw [List.cons_append, elapsed_cons, elapsed_cons x xs, ih]; omega

theorem envAfter_append (e : EnvVal) (a b : List Step) : envAfter e (a ++ b) = envAfter (envAfter e a) b := by
  induction a generalizing e with
  | nil => rfl
  | cons x xs ih => rw [List.cons_append, envAfter_cons, envAfter_cons e x xs, ih]

theorem cacheAt_extend (W : World) (e0 : EnvVal) (k0 : Nat) (h : List Step) (x : Step) (c : Cache)
    (hc : CacheAt W e0 k0 h c) : CacheAt W e0 k0 (h ++ [x]) c := by
  obtain ⟨q, r, e, a, b, d⟩ := hc
  exact ⟨q, r ++ [x], by rw [e, List.append_assoc], a, b, d⟩

/-- the value TZ holds after a history is one of the history's values -/
theorem envAfter_mem (e0 : EnvVal) (h : List Step) (a : Bytes) (ha : env_var (envAfter e0 h) = some a) :
    a ∈ valuesOf e0 h := by
  induction h generalizing e0 with
  | nil =>
    unfold valuesOf
    apply List.mem_append_left
    cases e0 <;> simp [envAfter, env_var, envValue] at ha ⊢
    exact ha.symm
  | cons x xs ih =>
    rw [envAfter_cons] at ha
    have := ih _ ha
    unfold valuesOf at this ⊢
    rcases List.mem_append.mp this with h1 | h1
    · -- the value after the single step `x`
      cases x with
      | setTZ v =>
        have hv : a = v := by simpa [envAfter, envValue] using h1
        apply List.mem_append_right
        simp [stepValue, hv]
      | setNotUnicode => simp [envAfter, envValue] at h1
      | unsetTZ => simp [envAfter, envValue] at h1
      | advance n => exact List.mem_append_left _ (by simpa [envAfter] using h1)
      | convert t l => exact List.mem_append_left _ (by simpa [envAfter] using h1)
      | spawn t => exact List.mem_append_left _ (by simpa [envAfter] using h1)
    · apply List.mem_append_right
      rw [List.filterMap_cons]
      cases stepValue x <;> simp [h1]

theorem valuesOf_append_left (e0 : EnvVal) (a b : List Step) (v : Bytes) (hv : v ∈ valuesOf e0 a) :
    v ∈ valuesOf e0 (a ++ b) := by
  unfold valuesOf at *
  rw [List.filterMap_append]
  rcases List.mem_append.mp hv with h | h
  · exact List.mem_append_left _ h
  · exact List.mem_append_right _ (List.mem_append_left _ h)

/-- one cache lookup at the end of the history `h` -/
theorem offset_at (W : World) (e0 : EnvVal) (k0 : Nat) (h : List Step)
    (c : Cache) (hc : CacheAt W e0 k0 h c) :
    CacheAt W e0 k0 h (Cache.offset W c (k0 + elapsed h) (envAfter e0 h)).1 ∧
    ∃ q r, h = q ++ r ∧ elapsed r < ONE_SECOND ∧
      (Cache.offset W c (k0 + elapsed h) (envAfter e0 h)).1.zone =
        current_zone W (env_var (envAfter e0 q)) := by
  obtain ⟨q, r, e, a, b, d⟩ := hc
  have hnow : ∀ z : Zone, z = current_zone W (env_var (envAfter e0 h)) →
      ∃ q r, h = q ++ r ∧ elapsed r < ONE_SECOND ∧ z = current_zone W (env_var (envAfter e0 q)) :=
    fun z hz => ⟨h, [], (List.append_nil h).symm, by simp [elapsed, ONE_SECOND], hz⟩
  unfold Cache.offset
  by_cases hw : within_window c.last_checked (k0 + elapsed h) = true
  · rw [if_pos hw]
    refine ⟨⟨q, r, e, a, b, d⟩, q, r, e, ?_, d⟩
    rw [within_window_iff, a, e, elapsed_append] at hw
    omega
  · rw [if_neg hw]
    by_cases ho : out_of_date c.source (Source.new W (k0 + elapsed h) (env_var (envAfter e0 h))) = true
    · dsimp only
      rw [if_pos ho]
      exact ⟨⟨h, [], (List.append_nil h).symm, rfl, rfl, rfl⟩, hnow _ rfl⟩
    · have ho' : out_of_date c.source (Source.new W (k0 + elapsed h) (env_var (envAfter e0 h))) = false := by
        cases hh : out_of_date c.source (Source.new W (k0 + elapsed h) (env_var (envAfter e0 h))) <;> simp_all
      have hee : env_var (envAfter e0 q) = env_var (envAfter e0 h) := by
        rw [b] at ho'
        exact not_out_of_date W _ _ _ _ ho'
      dsimp only
      rw [if_neg ho]
      have hz : c.zone = current_zone W (env_var (envAfter e0 h)) := by rw [d, hee]
      exact ⟨⟨h, [], (List.append_nil h).symm, rfl, rfl, hz⟩, hnow _ hz⟩

theorem default_at (W : World) (e0 : EnvVal) (k0 : Nat) (h : List Step) :
    CacheAt W e0 k0 h (Cache.default W (k0 + elapsed h) (envAfter e0 h)) :=
  ⟨h, [], (List.append_nil h).symm, rfl, rfl, rfl⟩

/-- the conversion made after the history `h`: the state keeps the invariant (for the history
extended by the conversion), and the zone used is the one of TZ's value at a point less than one
second back -/
theorem inner_offset_at (W : World) (e0 : EnvVal) (k0 : Nat) (h : List Step)
    (s : State) (t : Nat) (l : Bool) (hI : HistInv W e0 k0 h s) :
    HistInv W e0 k0 (h ++ [.convert t l]) (inner_offset W s t).1 ∧
    ∃ q r, h = q ++ r ∧ elapsed r < ONE_SECOND ∧
      (inner_offset W s t).2.1 = current_zone W (env_var (envAfter e0 q)) := by
  obtain ⟨henv, hclock, hcs⟩ := hI
  have hE : envAfter e0 (h ++ [.convert t l]) = envAfter e0 h := by rw [envAfter_append]; rfl
  have hT : elapsed (h ++ [.convert t l]) = elapsed h := by rw [elapsed_append]; simp [elapsed]
  -- the cache the lookup starts from
  have key : ∀ c0 : Cache, CacheAt W e0 k0 h c0 →
      HistInv W e0 k0 (h ++ [.convert t l])
        { s with caches := update s.caches t (some (Cache.offset W c0 s.clock s.env).1) } ∧
      ∃ q r, h = q ++ r ∧ elapsed r < ONE_SECOND ∧
        (Cache.offset W c0 s.clock s.env).1.zone = current_zone W (env_var (envAfter e0 q)) := by
    intro c0 hc0
    rw [henv, hclock]
    obtain ⟨h1, h2⟩ := offset_at W e0 k0 h c0 hc0
    refine ⟨⟨by rw [hE], by rw [hT], ?_⟩, h2⟩
    intro t' c' hc'
    dsimp only at hc'
    unfold update at hc'
    by_cases ht : t' = t
    · rw [if_pos ht] at hc'
      injection hc' with hc'
      subst hc'
      exact cacheAt_extend W e0 k0 h _ _ h1
    · rw [if_neg ht] at hc'
      exact cacheAt_extend W e0 k0 h _ _ (hcs t' c' hc')
  unfold inner_offset
  cases hc : s.caches t with
  | some c => exact key c (hcs t c hc)
  | none =>
    have := key (Cache.default W s.clock s.env) (by rw [henv, hclock]; exact default_at W e0 k0 h)
    exact this

theorem step_at (W : World) (e0 : EnvVal) (k0 : Nat) (h : List Step) (x : Step)
    (s : State) (hI : HistInv W e0 k0 h s) :
    HistInv W e0 k0 (h ++ [x]) (step W s x).1 := by
  cases x with
  | convert t l => exact (inner_offset_at W e0 k0 h s t l hI).1
  | spawn t =>
    obtain ⟨henv, hclock, hcs⟩ := hI
    refine ⟨by rw [envAfter_append]; exact henv, by rw [elapsed_append]; show s.clock = _; simp [elapsed, hclock], ?_⟩
    intro t' c hc
    have hc' : update s.caches t none t' = some c := hc
    unfold update at hc'
    by_cases ht : t' = t
    · rw [if_pos ht] at hc'; cases hc'
    · rw [if_neg ht] at hc'; exact cacheAt_extend W e0 k0 h _ c (hcs t' c hc')
  | setTZ v =>
    obtain ⟨henv, hclock, hcs⟩ := hI
    exact ⟨by rw [envAfter_append]; rfl, by rw [elapsed_append]; show s.clock = _; simp [elapsed, hclock],
      fun t' c hc => cacheAt_extend W e0 k0 h _ c (hcs t' c hc)⟩
  | setNotUnicode =>
    obtain ⟨henv, hclock, hcs⟩ := hI
    exact ⟨by rw [envAfter_append]; rfl, by rw [elapsed_append]; show s.clock = _; simp [elapsed, hclock],
      fun t' c hc => cacheAt_extend W e0 k0 h _ c (hcs t' c hc)⟩
  | unsetTZ =>
    obtain ⟨henv, hclock, hcs⟩ := hI
    exact ⟨by rw [envAfter_append]; rfl, by rw [elapsed_append]; show s.clock = _; simp [elapsed, hclock],
      fun t' c hc => cacheAt_extend W e0 k0 h _ c (hcs t' c hc)⟩
  | advance n =>
    obtain ⟨henv, hclock, hcs⟩ := hI
    refine ⟨by rw [envAfter_append]; exact henv, ?_,
      fun t' c hc => cacheAt_extend W e0 k0 h _ c (hcs t' c hc)⟩
    rw [elapsed_append]
    show s.clock + n = _
    simp [elapsed]; omega

/-- the invariant holds along every history -/
theorem exec_at (W : World) (e0 : EnvVal) (k0 : Nat) (h : List Step) :
    ∀ (pre : List Step) (s : State), HistInv W e0 k0 pre s →
      HistInv W e0 k0 (pre ++ h) (exec W s h) := by
  induction h with
  | nil => intro pre s hI; rw [List.append_nil]; exact hI
  | cons x xs ih =>
    intro pre s hI
    have e : pre ++ x :: xs = (pre ++ [x]) ++ xs := by simp
    rw [e]
    exact ih (pre ++ [x]) _ (step_at W e0 k0 pre x s hI)

theorem init_at (W : World) (e0 : EnvVal) (k0 : Nat) : HistInv W e0 k0 [] (init e0 k0) :=
  ⟨rfl, rfl, fun t c hc => by simp [init] at hc⟩

theorem honoured_within_last_second' (W : World) (e0 : EnvVal) (k0 : Nat) (h : List Step)
    (t : Nat) (l : Bool) :
    ∃ q r, h = q ++ r ∧ elapsed r < ONE_SECOND ∧
      zoneOfStep (step W (exec W (init e0 k0) h) (.convert t l)) =
        some (zoneFor W (env_var (envAfter e0 q))) := by
  have hI := exec_at W e0 k0 h [] (init e0 k0) (init_at W e0 k0)
  rw [List.nil_append] at hI
  obtain ⟨_, q, r, e, hr, hz⟩ := inner_offset_at W e0 k0 h _ t l hI
  refine ⟨q, r, e, hr, ?_⟩
  unfold zoneOfStep step
  simp only [Option.map_some]
  rw [hz, current_zone_eq]

theorem envAfter_nochange (e : EnvVal) (l : List Step) (hno : ∀ x ∈ l, isChange x = false) :
    envAfter e l = e := by
  induction l generalizing e with
  | nil => rfl
  | cons x xs ih =>
    have hx : isChange x = false := hno x (List.mem_cons_self ..)
    have := ih e (fun y hy => hno y (List.mem_cons_of_mem _ hy))
    cases x <;> simp [isChange] at hx <;> simpa [envAfter] using this

/-- a split `q ++ r` of `a ++ chg :: b` whose tail `r` is shorter (in time) than `b` cuts after `chg` -/
theorem split_after_change (a b q r : List Step) (chg : Step) (e : a ++ chg :: b = q ++ r)
    (hr : elapsed r < elapsed b) : ∃ c, q = a ++ chg :: c ∧ b = c ++ r := by
  have e' : (a ++ [chg]) ++ b = q ++ r := by simpa using e
  rcases List.append_eq_append_iff.mp e' with ⟨a', h1, h2⟩ | ⟨c', h1, h2⟩
  · -- `q` extends `a ++ [chg]`
    exact ⟨a', by simpa using h1, h2⟩
  · exfalso
    rw [h2, elapsed_append] at hr
    omega

end Chrono.Proofs.LocalCache
